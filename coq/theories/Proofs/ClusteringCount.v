(* Proofs/ClusteringCount.v — C09: Fagiolo's numerator and denominator as COUNTS.
   For a 0/1 matrix with empty diagonal
     tri_dir n A i  (= 1/2 sum_{j,k} (a_ij+a_ji)(a_jk+a_kj)(a_ki+a_ik), the algebraic form the routine computes)
   is the NUMBER of directed triangles at i: the length of the explicit list of all (j, k, orientation) with
   j < k, j <> i, k <> i and one arc present on each side i-j, j-k, k-i in the chosen directions (8 orientations);
     poss_dir n A i (= d_tot (d_tot - 1) - 2 d_bi)
   is the NUMBER of ordered pairs of arcs incident to i whose other endpoints differ (the pairs that could be
   closed to a triangle).  So clustering_coef_bd is "directed triangles / possible directed triangles" by
   enumeration, not only by algebra. *)
From Coq Require Import QArith List Arith Bool ZArith Lia Lqa.
From BCT Require Import Base.Mat Base.SumQ Base.ListX Model.Threshold Model.Clustering
  Proofs.ClusteringSpec Proofs.Clustering.
Import ListNotations.
Open Scope Q_scope.

(* ---------- the enumeration ---------- *)
Definition nzb (x : Q) : bool := negb (Qeq_bool x 0).
(* the arc between x and y in direction d (true: x -> y, false: y -> x) is present *)
Definition arc (A : mat Q) (x y : nat) (d : bool) : bool := if d then nzb (A x y) else nzb (A y x).
Definition orientations : list (bool * bool * bool) :=
  [(true, true, true); (true, true, false); (true, false, true); (true, false, false);
   (false, true, true); (false, true, false); (false, false, true); (false, false, false)].
Definition is_tri (A : mat Q) (i j k : nat) (o : bool * bool * bool) : bool :=
  arc A i j (fst (fst o)) && arc A j k (snd (fst o)) && arc A k i (snd o).
(* unordered pairs {j,k} of nodes other than i *)
Definition pairs_excl (n i : nat) : list (nat * nat) :=
  filter (fun c => (fst c <? snd c)%nat && negb (Nat.eqb (fst c) i) && negb (Nat.eqb (snd c) i)) (cells n).
(* every directed triangle at i, each exactly once *)
Definition dir_triangles (n : nat) (A : mat Q) (i : nat) : list (nat * nat * (bool * bool * bool)) :=
  flat_map (fun c => map (fun o => (c, o)) (filter (is_tri A i (fst c) (snd c)) orientations)) (pairs_excl n i).
(* arcs incident to i: (other endpoint, direction) *)
Definition arcs_at (n : nat) (A : mat Q) (i : nat) : list (nat * bool) :=
  filter (fun e => arc A i (fst e) (snd e)) (flat_map (fun j => [(j, true); (j, false)]) (seq 0 n)).
(* ordered pairs of incident arcs with different other endpoints *)
Definition open_pairs (n : nat) (A : mat Q) (i : nat) : list ((nat * bool) * (nat * bool)) :=
  filter (fun p => negb (Nat.eqb (fst (fst p)) (fst (snd p))))
         (flat_map (fun e => map (fun e' => (e, e')) (arcs_at n A i)) (arcs_at n A i)).

Definition natq (k : nat) : Q := inject_Z (Z.of_nat k).

(* ---------- sums over lists ---------- *)
Definition sumG {T} (f : T -> Q) (l : list T) : Q := fold_right (fun x acc => f x + acc) 0 l.
Lemma sumG_nil {T} (f : T -> Q) : sumG f [] = 0.
Proof. reflexivity. Qed.
Lemma sumG_cons {T} (f : T -> Q) a l : sumG f (a :: l) = f a + sumG f l.
Proof. reflexivity. Qed.
Lemma sumG_app {T} (f : T -> Q) l1 l2 : sumG f (l1 ++ l2) == sumG f l1 + sumG f l2.
Proof.
  induction l1 as [|a l IH]; [rewrite sumG_nil; cbn [app]; ring|].
  cbn [app]. rewrite !sumG_cons, IH. ring.
Qed.
Lemma sumG_ext {T} (f g : T -> Q) l : (forall x, In x l -> f x == g x) -> sumG f l == sumG g l.
Proof.
  induction l as [|a l IH]; intros H; [reflexivity|].
  rewrite !sumG_cons, IH by (intros; apply H; right; assumption). rewrite (H a) by (left; reflexivity). reflexivity.
Qed.
Lemma sumG_map {T U} (f : U -> Q) (g : T -> U) l : sumG f (map g l) == sumG (fun x => f (g x)) l.
Proof. induction l as [|a l IH]; [reflexivity|]. cbn [map]. rewrite !sumG_cons, IH. reflexivity. Qed.
Lemma sumG_flat_map {T U} (f : U -> Q) (h : T -> list U) l : sumG f (flat_map h l) == sumG (fun x => sumG f (h x)) l.
Proof.
  induction l as [|a l IH]; [reflexivity|]. cbn [flat_map]. rewrite sumG_app, sumG_cons, IH. reflexivity.
Qed.
Lemma sumG_filter {T} (f : T -> Q) (p : T -> bool) l : sumG f (filter p l) == sumG (fun x => if p x then f x else 0) l.
Proof.
  induction l as [|a l IH]; [reflexivity|]. cbn [filter]. rewrite (sumG_cons (fun x => if p x then f x else 0)).
  destruct (p a); [rewrite sumG_cons|]; rewrite IH; ring.
Qed.
Lemma sumG_seq (f : nat -> Q) n : sumG f (seq 0 n) == sumQ f n.
Proof. induction n; [reflexivity|]. rewrite seq_S, sumG_app, IHn. cbn [plus sumQ]. rewrite sumG_cons, sumG_nil. ring. Qed.
Lemma sumG_cells (g : nat * nat -> Q) n : sumG g (cells n) == sum2Q (fun j k => g (j, k)) n.
Proof.
  unfold cells, sum2Q. rewrite sumG_flat_map, sumG_seq. apply sumQ_ext. intros j _. rewrite sumG_map, sumG_seq. reflexivity.
Qed.
Lemma length_sumG {T} (l : list T) : natq (length l) == sumG (fun _ => 1) l.
Proof.
  induction l as [|a l IH]; [reflexivity|]. cbn [length]. rewrite sumG_cons.
  unfold natq in *. rewrite Nat2Z.inj_succ. unfold Z.succ. rewrite inject_Z_plus, IH. ring.
Qed.
Lemma length_flat_map {T U} (h : T -> list U) l : natq (length (flat_map h l)) == sumG (fun x => natq (length (h x))) l.
Proof.
  rewrite length_sumG, sumG_flat_map. apply sumG_ext. intros x _. symmetry. apply length_sumG.
Qed.

(* ---------- one pair {j,k}: the product of the three arc counts is the number of orientations present ---------- *)
Lemma orient_count (a1 a2 b1 b2 c1 c2 : bool) :
  (ind a1 + ind a2) * (ind b1 + ind b2) * (ind c1 + ind c2) ==
  natq (length (filter (fun o : bool * bool * bool =>
          (if fst (fst o) then a1 else a2) && (if snd (fst o) then b1 else b2) && (if snd o then c1 else c2)) orientations)).
Proof. destruct a1, a2, b1, b2, c1, c2; vm_compute; reflexivity. Qed.

Lemma binary_ind n A x y : binary n A -> (x < n)%nat -> (y < n)%nat -> A x y == ind (nzb (A x y)).
Proof.
  intros Hb Hx Hy. unfold nzb, ind. destruct (Hb x y Hx Hy) as [E|E].
  - assert (Qeq_bool (A x y) 0 = true) as -> by (apply Qeq_bool_iff; exact E). exact E.
  - destruct (Qeq_bool (A x y) 0) eqn:Eb; cbn [negb]; [apply Qeq_bool_iff in Eb; lra|exact E].
Qed.

Lemma sy_arcs n A x y : binary n A -> (x < n)%nat -> (y < n)%nat -> sy A x y == ind (arc A x y true) + ind (arc A x y false).
Proof. intros Hb Hx Hy. unfold sy, arc. rewrite <- (binary_ind n A x y Hb Hx Hy), <- (binary_ind n A y x Hb Hy Hx). reflexivity. Qed.

Lemma term_count n A i j k : binary n A -> (i < n)%nat -> (j < n)%nat -> (k < n)%nat ->
  sy A i j * sy A j k * sy A k i == natq (length (filter (is_tri A i j k) orientations)).
Proof.
  intros Hb Hi Hj Hk. rewrite (sy_arcs n A i j Hb Hi Hj), (sy_arcs n A j k Hb Hj Hk), (sy_arcs n A k i Hb Hk Hi).
  rewrite orient_count. reflexivity.
Qed.

(* ---------- tri_dir is the number of directed triangles ---------- *)
Theorem tri_dir_counts n A i : binary n A -> nodiag n A -> (i < n)%nat ->
  tri_dir n A i == natq (length (dir_triangles n A i)).
Proof.
  intros Hb Hd Hi. unfold tri_dir.
  set (f := fun j k => sy A i j * sy A j k * sy A k i).
  assert (Hsym : forall j k, (j < n)%nat -> (k < n)%nat -> f j k == f k j) by (intros; unfold f, sy; ring).
  assert (Hdiag : forall j, (j < n)%nat -> f j j == 0) by (intros j Hj; unfold f, sy; rewrite (Hd j Hj); ring).
  rewrite (sum2Q_sym_lt f n Hsym Hdiag).
  transitivity (sum2Q (fun j k => if (j <? k)%nat then f j k else 0) n); [field|].
  unfold dir_triangles. rewrite length_flat_map. unfold pairs_excl. rewrite sumG_filter, sumG_cells.
  apply sum2Q_ext. intros j k Hj Hk. cbn [fst snd]. rewrite map_length.
  destruct (j <? k)%nat; cbn [andb]; [|reflexivity].
  destruct (Nat.eqb_spec j i) as [->|Hji]; cbn [negb andb].
  { unfold f, sy. rewrite (Hd i Hi). ring. }
  destruct (Nat.eqb_spec k i) as [->|Hki]; cbn [negb].
  { unfold f, sy. rewrite (Hd i Hi). ring. }
  unfold f. apply (term_count n); assumption.
Qed.

(* ---------- poss_dir is the number of ordered pairs of incident arcs with different other endpoints ---------- *)
Lemma arcs_at_count n A i (g : nat * bool -> Q) :
  sumG g (arcs_at n A i) == sumQ (fun j => ind (arc A i j true) * g (j, true) + ind (arc A i j false) * g (j, false)) n.
Proof.
  unfold arcs_at. rewrite sumG_filter, sumG_flat_map, sumG_seq. apply sumQ_ext. intros j _.
  cbn [sumG fold_right fst snd]. unfold ind. destruct (arc A i j true), (arc A i j false); ring.
Qed.

Theorem poss_dir_counts n A i : binary n A -> nodiag n A -> (i < n)%nat ->
  poss_dir n A i == natq (length (open_pairs n A i)).
Proof.
  intros Hb Hd Hi. unfold open_pairs. rewrite length_sumG, sumG_filter, sumG_flat_map.
  (* inner sums: for the arc e = (j, d), the number of arcs e' with another endpoint *)
  rewrite (sumG_ext _ (fun e => dtot n A i - sy A i (fst e))).
  - symmetry. rewrite arcs_at_count. cbn [fst].
    transitivity (sumQ (fun j => sy A i j * (dtot n A i - sy A i j)) n).
    + apply sumQ_ext. intros j Hj. rewrite (sy_arcs n A i j Hb Hi Hj). ring.
    + unfold poss_dir.
      assert (E1 : sumQ (fun j => sy A i j * (dtot n A i - sy A i j)) n ==
                   dtot n A i * dtot n A i - sumQ (fun j => sy A i j * sy A i j) n).
      { rewrite (sumQ_ext _ (fun j => sy A i j * dtot n A i - sy A i j * sy A i j)) by (intros; ring).
        rewrite sumQ_sub, sumQ_scal_r. unfold dtot at 2. unfold sy at 1. ring_simplify. reflexivity. }
      assert (E2 : sumQ (fun j => sy A i j * sy A i j) n == dtot n A i + 2 * dbi n A i).
      { unfold dtot, dbi. rewrite <- sumQ_scal, <- sumQ_add. apply sumQ_ext. intros j Hj. unfold sy.
        destruct (Hb i j Hi Hj) as [E|E]; destruct (Hb j i Hj Hi) as [E'|E']; rewrite E, E'; ring. }
      rewrite E1, E2. ring.
  - intros e He. rewrite sumG_map. cbn [fst snd].
    rewrite arcs_at_count. cbn [fst].
    transitivity (sumQ (fun j => if Nat.eqb (fst e) j then 0 else sy A i j) n).
    + apply sumQ_ext. intros j Hj. destruct (Nat.eqb (fst e) j); cbn [negb]; [ring|]. rewrite (sy_arcs n A i j Hb Hi Hj). ring.
    + assert (He' : (fst e < n)%nat).
      { unfold arcs_at in He. apply filter_In in He. destruct He as [He _]. apply in_flat_map in He.
        destruct He as [j [Hj Hin]]. apply in_seq in Hj. destruct Hin as [<-|[<-|[]]]; cbn [fst]; lia. }
      rewrite (sumQ_ext _ (fun j => sy A i j - ind (Nat.eqb (fst e) j) * sy A i j)).
      * rewrite sumQ_sub, (sumQ_ind_collapse (fun j => sy A i j) n (fst e) He'). unfold dtot, sy. reflexivity.
      * intros j _. unfold ind. destruct (Nat.eqb (fst e) j); ring.
Qed.

(* ---------- clustering_coef_bd = directed triangles / possible directed triangles, by enumeration ---------- *)
Theorem cc_bd_counting n A i : binary n A -> nodiag n A -> (i < n)%nat ->
  cc_bd n A i == (if Nat.eqb (length (dir_triangles n A i)) 0 then 0
                  else natq (length (dir_triangles n A i)) / natq (length (open_pairs n A i))).
Proof.
  intros Hb Hd Hi. rewrite cc_bd_fagiolo. unfold def_cc_bd, def_cc_dir.
  pose proof (tri_dir_counts n A i Hb Hd Hi) as Et. pose proof (poss_dir_counts n A i Hb Hd Hi) as Ep.
  destruct (Nat.eqb_spec (length (dir_triangles n A i)) 0) as [E0|E0].
  - rewrite E0 in Et. assert (Qeq_bool (tri_dir n A i) 0 = true) as -> by (apply Qeq_bool_iff; exact Et). reflexivity.
  - destruct (Qeq_bool (tri_dir n A i) 0) eqn:Eb.
    + exfalso. apply Qeq_bool_iff in Eb. rewrite Et in Eb. unfold natq in Eb.
      apply (proj1 (inject_Z_injective _ 0%Z)) in Eb. lia.
    + rewrite Et, Ep. reflexivity.
Qed.

(* ================= weighted: Fagiolo's numerator as a sum over the SAME list of directed triangles =================
   each triangle contributes the product of the cube roots of its three arc weights (= the cube root of the product,
   C09_cbrt_mul: the geometric-mean intensity of the published definition) *)
Section Weighted.
Variable cbrt : Q -> Q.
Definition cw (W : mat Q) (x y : nat) (d : bool) : Q := cbrt (if d then W x y else W y x).
Definition intens (W : mat Q) (i : nat) (t : nat * nat * (bool * bool * bool)) : Q :=
  cw W i (fst (fst t)) (fst (fst (snd t))) * cw W (fst (fst t)) (snd (fst t)) (snd (fst (snd t))) * cw W (snd (fst t)) i (snd (snd t)).

Lemma arc_absent n W x y d : cbrt_ok cbrt n W -> (x < n)%nat -> (y < n)%nat -> arc W x y d = false -> cw W x y d == 0.
Proof.
  intros Hc Hx Hy. unfold arc, cw, nzb. destruct d; intros H; apply negb_false_iff, Qeq_bool_iff in H;
    (apply (cra_zero cbrt); [apply Hc; assumption|exact H]).
Qed.

Lemma intens_absent n W i j k o : cbrt_ok cbrt n W -> (i < n)%nat -> (j < n)%nat -> (k < n)%nat ->
  (if is_tri W i j k o then intens W i ((j, k), o) else 0) == intens W i ((j, k), o).
Proof.
  intros Hc Hi Hj Hk. destruct o as [[d1 d2] d3]. unfold is_tri, intens. cbn [fst snd].
  destruct (arc W i j d1) eqn:E1; cbn [andb]; [|rewrite (arc_absent n W i j d1 Hc Hi Hj E1); ring].
  destruct (arc W j k d2) eqn:E2; cbn [andb]; [|rewrite (arc_absent n W j k d2 Hc Hj Hk E2); ring].
  destruct (arc W k i d3) eqn:E3; [reflexivity|rewrite (arc_absent n W k i d3 Hc Hk Hi E3); ring].
Qed.

Theorem tri_dir_weighted_enumeration n W i : cbrt_ok cbrt n W -> nodiag n W -> (i < n)%nat ->
  tri_dir n (mmap cbrt W) i == sumG (intens W i) (dir_triangles n W i).
Proof.
  intros Hc Hd Hi. unfold tri_dir.
  set (C := mmap cbrt W).
  assert (Cd : forall j, (j < n)%nat -> C j j == 0).
  { intros j Hj. unfold C, mmap. apply (cra_zero cbrt); [apply Hc; assumption|apply Hd; exact Hj]. }
  set (f := fun j k => sy C i j * sy C j k * sy C k i).
  assert (Hsym : forall j k, (j < n)%nat -> (k < n)%nat -> f j k == f k j) by (intros; unfold f, sy; ring).
  assert (Hdiag : forall j, (j < n)%nat -> f j j == 0) by (intros j Hj; unfold f, sy; rewrite (Cd j Hj); ring).
  rewrite (sum2Q_sym_lt f n Hsym Hdiag).
  transitivity (sum2Q (fun j k => if (j <? k)%nat then f j k else 0) n); [field|].
  unfold dir_triangles. rewrite sumG_flat_map. unfold pairs_excl. rewrite sumG_filter, sumG_cells.
  apply sum2Q_ext. intros j k Hj Hk. cbn [fst snd].
  destruct (j <? k)%nat; cbn [andb]; [|reflexivity].
  destruct (Nat.eqb_spec j i) as [->|Hji]; cbn [negb andb].
  { unfold f, sy. rewrite (Cd i Hi). ring. }
  destruct (Nat.eqb_spec k i) as [->|Hki]; cbn [negb].
  { unfold f, sy. rewrite (Cd i Hi). ring. }
  rewrite sumG_map, sumG_filter.
  rewrite (sumG_ext _ (fun o => intens W i ((j, k), o))) by (intros o _; apply (intens_absent n); assumption).
  unfold orientations. rewrite !sumG_cons, sumG_nil. unfold intens, cw, f, sy, C, mmap. cbn [fst snd]. ring.
Qed.
End Weighted.
