(* Proofs/ClusteringSpec.v — the published definitions the routines of clustering.py are compared with,
   written as explicit enumerations of node pairs / triples (no matrix products, no masking). *)
From Coq Require Import QArith Qabs List Arith Bool ZArith Lia.
From BCT Require Import Base.Mat Base.SumQ Model.Threshold Model.Clustering.
Open Scope Q_scope.

(* equality of possibly non-finite scalars up to Qeq *)
Definition oeq (a b : option Q) : Prop :=
  match a, b with Some x, Some y => x == y | None, None => True | _, _ => False end.

(* input classes (indices below n only) *)
Definition binary (n : nat) (A : mat Q) := forall i j, (i < n)%nat -> (j < n)%nat -> A i j == 0 \/ A i j == 1.
Definition symmetric (n : nat) (A : mat Q) := forall i j, (i < n)%nat -> (j < n)%nat -> A i j == A j i.
Definition nodiag (n : nat) (A : mat Q) := forall i, (i < n)%nat -> A i i == 0.
Definition unit_weights (n : nat) (W : mat Q) := forall i j, (i < n)%nat -> (j < n)%nat -> 0 <= W i j <= 1.
Definition signed_unit_weights (n : nat) (W : mat Q) := forall i j, (i < n)%nat -> (j < n)%nat -> -(1) <= W i j <= 1.

(* ---- binary undirected (Watts-Strogatz): linked neighbour pairs / neighbour pairs ---- *)
Definition deg (n : nat) (A : mat Q) (i : nat) : Q := sumQ (fun j => A i j) n.
(* number of unordered pairs {j,k}, j<k, of neighbours of i that are themselves linked (entries are 0/1) *)
Definition linked_pairs (n : nat) (A : mat Q) (i : nat) : Q :=
  sum2Q (fun j k => if (j <? k)%nat then A i j * A i k * A j k else 0) n.
Definition def_cc_bu (n : nat) (A : mat Q) (i : nat) : Q :=
  if Qle_bool 2 (deg n A i) then linked_pairs n A i / (deg n A i * (deg n A i - 1) / 2) else 0.
(* transitivity: every triangle counted once per corner (3 x triangles) over connected triples *)
Definition def_trans_bu (n : nat) (A : mat Q) : option Q :=
  odiv (sumQ (linked_pairs n A) n) (sumQ (fun i => deg n A i * (deg n A i - 1) / 2) n).

(* ---- directed (Fagiolo 2007): C = directed triangles at i / possible ones,
        t_i = 1/2 sum_{j,k} (c_ij+c_ji)(c_jk+c_kj)(c_ki+c_ik),  T_i = d_tot(d_tot-1) - 2 d_bi ---- *)
Definition sy (C : mat Q) (i j : nat) : Q := C i j + C j i.
Definition tri_dir (n : nat) (C : mat Q) (i : nat) : Q :=
  sum2Q (fun j k => sy C i j * sy C j k * sy C k i) n / 2.
Definition dtot (n : nat) (A : mat Q) (i : nat) : Q := sumQ (fun j => A i j + A j i) n.
Definition dbi (n : nat) (A : mat Q) (i : nat) : Q := sumQ (fun j => A i j * A j i) n.
Definition poss_dir (n : nat) (A : mat Q) (i : nat) : Q := dtot n A i * (dtot n A i - 1) - 2 * dbi n A i.
Definition def_cc_dir (n : nat) (C A : mat Q) (i : nat) : Q :=     (* C: intensities, A: adjacency *)
  if Qeq_bool (tri_dir n C i) 0 then 0 else tri_dir n C i / poss_dir n A i.
Definition def_cc_bd (n : nat) (A : mat Q) (i : nat) : Q := def_cc_dir n A A i.
Definition def_trans_dir (n : nat) (C A : mat Q) : option Q := odiv (sumQ (tri_dir n C) n) (sumQ (poss_dir n A) n).
Definition def_trans_bd (n : nat) (A : mat Q) : option Q := def_trans_dir n A A.

(* ---- what is assumed of bct.utils.cuberoot: it returns a real cube root OF THE VALUES IT IS APPLIED TO
        (no function Q -> Q is a cube root everywhere, so the assumption is stated per value; the executable
        instance cbrt_exact meets it on quotients of perfect cubes, see the non-vacuity examples) ---- *)
Definition cube_root_at (cbrt : Q -> Q) (x : Q) : Prop := cbrt x * cbrt x * cbrt x == x.
Definition cbrt_ok (cbrt : Q -> Q) (n : nat) (W : mat Q) : Prop :=
  forall a b, (a < n)%nat -> (b < n)%nat -> cube_root_at cbrt (W a b).
(* ... and of the products of three entries around a triangle (only needed to write Onnela's intensity as the
   cube root of the product, as published, instead of the product of the cube roots) *)
Definition cbrt_ok3 (cbrt : Q -> Q) (n : nat) (W : mat Q) : Prop :=
  forall i j k, (i < n)%nat -> (j < n)%nat -> (k < n)%nat -> cube_root_at cbrt (W i j * W j k * W k i).

Section WithCbrt.
Variable cbrt : Q -> Q.
(* ---- weighted undirected (Onnela 2005): mean geometric-mean intensity of the triangles at i ---- *)
Definition kdeg (n : nat) (W : mat Q) (i : nat) : Q := sumQ (fun j => nzQ (W i j)) n.
Definition intensity (n : nat) (W : mat Q) (i : nat) : Q := sum2Q (fun j k => cbrt (W i j * W j k * W k i)) n.
Definition def_cc_wu (n : nat) (W : mat Q) (i : nat) : Q :=
  if Qle_bool 2 (kdeg n W i) then intensity n W i / (kdeg n W i * (kdeg n W i - 1)) else 0.
Definition def_trans_wu (n : nat) (W : mat Q) : option Q :=
  odiv (sumQ (intensity n W) n) (sumQ (fun i => kdeg n W i * (kdeg n W i - 1)) n).
(* ---- weighted directed (Fagiolo 2007, weighted): intensities w^(1/3) in the numerator, adjacency in the denominator ---- *)
Definition def_cc_wd (n : nat) (W : mat Q) (i : nat) : Q := def_cc_dir n (mmap cbrt W) (mmap nzQ W) i.
Definition def_trans_wd (n : nat) (W : mat Q) : option Q := def_trans_dir n (mmap cbrt W) (mmap nzQ W).
(* ---- signed (Onnela on the positive part and on the magnitudes of the negative part) ---- *)
Definition def_cc_wu_sign (n : nat) (W : mat Q) (i : nat) : Q * Q :=
  (def_cc_wu n (pospart (clear_diag W)) i, def_cc_wu n (negpart (clear_diag W)) i).
End WithCbrt.

(* ---- Zhang & Horvath 2005: sum_{j,q} w_ij w_iq w_jq / ((sum_j w_ij)^2 - sum_j w_ij^2);
        Costantini & Perugini 2014: same numerator over sum_{j<>q} |w_ij w_iq| ---- *)
Definition def_zhang (n : nat) (W : mat Q) (i : nat) : Q :=
  let num := sum2Q (fun j q => W i j * W i q * W j q) n in
  let s := sumQ (fun j => W i j) n in
  if Qeq_bool num 0 then 0 else num / (s * s - sumQ (fun j => W i j * W i j) n).
Definition def_costantini (n : nat) (W : mat Q) (i : nat) : Q :=
  let num := sum2Q (fun j q => W i j * W i q * W j q) n in
  let s := sumQ (fun j => Qabs (W i j)) n in
  if Qeq_bool num 0 then 0 else num / (s * s - sumQ (fun j => W i j * W i j) n).
