(* Proofs/ThresholdStore.v — the copy flag of the C17 utilities, proved on the store model of Model/ThresholdStore.v:
   started in ANY well-formed store, each utility's statement sequence
     copy=True : returns a FRESH object holding exactly the value of the pure model of Model/Threshold.v and leaves every
                 object that existed before the call (in particular the caller's array) untouched;
     copy=False: returns the very object it was given (same address), that object now holds the model's value, and no
                 other object is touched.
   Plus: weight_conversion's string dispatch, the NotImplementedError branch, and the contrast case (a utility that
   ends with a rebinding statement does NOT leave its result in the argument). *)
From Coq Require Import String.
From Coq Require Import QArith Qabs Qround List Arith Bool ZArith Lia.
From BCT Require Import Base.Mat Base.ListX Model.Threshold Proofs.Threshold Proofs.ThresholdFull Model.ThresholdStore.
Import ListNotations.
Open Scope Q_scope.

(* ---------- store algebra ---------- *)
Lemma hupd_same h a v : hupd h a v a = v.
Proof. unfold hupd. rewrite Nat.eqb_refl. reflexivity. Qed.
Lemma hupd_other h a v b : b <> a -> hupd h a v b = h b.
Proof. intros H. unfold hupd. destruct (Nat.eqb_spec b a); [contradiction|reflexivity]. Qed.

Lemma rd_write g s : rd (s_write g s) = g (rd s).
Proof. unfold rd, s_write; cbn [hp loc]. apply hupd_same. Qed.
Lemma rd_copy s : rd (s_copy s) = rd s.
Proof. unfold rd at 1, s_copy; cbn [hp loc]. apply hupd_same. Qed.
Lemma rd_rebind g s : rd (s_rebind g s) = g (rd s).
Proof. unfold rd at 1, s_rebind; cbn [hp loc]. apply hupd_same. Qed.

(* ---------- the contract ---------- *)
(* a call started in s ended in s' (the returned object is the one at [loc s']); R = the value the pure model assigns *)
Definition honours_copy (s s' : st) (copy : bool) (R : mat Q) : Prop :=
  rd s' = R /\
  if copy
  then loc s' = nxt s /\ loc s' <> loc s /\ (forall a, (a < nxt s)%nat -> hp s' a = hp s a)
  else loc s' = loc s /\ (forall a, a <> loc s -> hp s' a = hp s a).

(* read back in the words of the property text *)
Lemma honours_copy_true s s' R : wf s -> honours_copy s s' true R ->
  hp s' (loc s) = hp s (loc s)          (* "the argument is untouched" *)
  /\ loc s' <> loc s                     (* the result is another object *)
  /\ hp s' (loc s') = R.                 (* holding the model's value *)
Proof. intros Hw [HR [Hl [Hne Hf]]]. split; [apply Hf; exact Hw|]. split; [exact Hne|exact HR]. Qed.
Lemma honours_copy_false s s' R : honours_copy s s' false R ->
  loc s' = loc s                         (* the returned object IS the argument *)
  /\ hp s' (loc s) = R.                  (* "the argument itself holds the result" *)
Proof. intros [HR [Hl _]]. split; [exact Hl|]. unfold rd in HR. rewrite Hl in HR. exact HR. Qed.

Lemma honours_copy_if copy s : wf s -> honours_copy s (copy_if copy s) copy (rd s).
Proof.
  intros Hw. unfold wf in Hw. destruct copy; cbn [copy_if honours_copy].
  - split; [apply rd_copy|]. unfold s_copy; cbn [loc hp nxt]. split; [reflexivity|]. split; [lia|].
    intros a Ha. apply hupd_other. lia.
  - split; [reflexivity|]. split; [reflexivity|]. intros a _. reflexivity.
Qed.

Lemma honours_write g copy s s' R : honours_copy s s' copy R -> honours_copy s (s_write g s') copy (g R).
Proof.
  intros [HR H]. split; [rewrite rd_write, HR; reflexivity|].
  unfold s_write; cbn [loc hp nxt]. destruct copy.
  - destruct H as [Hl [Hne Hf]]. split; [exact Hl|]. split; [exact Hne|].
    intros a Ha. rewrite hupd_other by lia. apply Hf. exact Ha.
  - destruct H as [Hl Hf]. split; [exact Hl|]. intros a Ha. rewrite hupd_other by congruence. apply Hf. exact Ha.
Qed.

Lemma honours_if (b : bool) g copy s s' R : honours_copy s s' copy R ->
  honours_copy s (if b then s_write g s' else s') copy (if b then g R else R).
Proof. intros H. destruct b; [apply honours_write; exact H|exact H]. Qed.

(* ---------- the six utilities ---------- *)
Theorem ta_copy thr copy s : wf s -> honours_copy s (ta_prog thr copy s) copy (threshold_absolute (rd s) thr).
Proof.
  intros Hw. unfold ta_prog.
  exact (honours_write _ copy s _ _ (honours_write clear_diag copy s _ _ (honours_copy_if copy s Hw))).
Qed.

Theorem binarize_copy copy s : wf s -> honours_copy s (binarize_prog copy s) copy (binarize (rd s)).
Proof. intros Hw. unfold binarize_prog. exact (honours_write binarize copy s _ _ (honours_copy_if copy s Hw)). Qed.

Theorem invert_copy copy s : wf s -> honours_copy s (invert_prog copy s) copy (invert (rd s)).
Proof. intros Hw. unfold invert_prog. exact (honours_write invert copy s _ _ (honours_copy_if copy s Hw)). Qed.

Theorem normalize_copy n copy s : wf s -> honours_copy s (normalize_prog n copy s) copy (normalize n (rd s)).
Proof.
  intros Hw. unfold normalize_prog. cbv zeta.
  pose proof (honours_copy_if copy s Hw) as H0. destruct H0 as [E0 H0'].
  rewrite E0.
  exact (honours_write (fun W i j => W i j / maxabs n (rd s)) copy s _ _ (conj E0 H0')).
Qed.

(* threshold_proportional: rejects exactly when the pure model does (before touching anything), otherwise the contract *)
Theorem tp_copy order n p copy s : wf s ->
  match tp_with order n (rd s) p with
  | None => tp_prog order n p copy s = None
  | Some R => exists s', tp_prog order n p copy s = Some s' /\ honours_copy s s' copy R
  end.
Proof.
  intros Hw. unfold tp_with, tp_prog. destruct (Qltb 1 p || Qltb p 0)%bool; [reflexivity|].
  cbv zeta.
  pose proof (honours_write clear_diag copy s _ _ (honours_copy_if copy s Hw)) as H2.
  set (s2 := s_write clear_diag (copy_if copy s)) in *.
  assert (E2: rd s2 = clear_diag (rd s)) by exact (proj1 H2).
  unfold tp_prep. cbv zeta. rewrite E2.
  set (symm := allclose_T n (clear_diag (rd s))).
  set (g3 := fun (W : mat Q) (i j : nat) => if Nat.leb j i then 0 else W i j).
  pose proof (honours_if symm g3 copy s s2 _ H2) as H3.
  set (s3 := if symm then s_write g3 s2 else s2) in *.
  assert (E3: rd s3 = if symm then g3 (clear_diag (rd s)) else clear_diag (rd s)) by exact (proj1 H3).
  rewrite E3.
  set (W2 := if symm then g3 (clear_diag (rd s)) else clear_diag (rd s)) in *.
  set (dropped := skipn (Z.to_nat (tp_en n p symm)) (order W2 (where_nz n W2))).
  set (g4 := fun (W : mat Q) (i j : nat) => if cmem (i, j) dropped then 0 else W i j).
  pose proof (honours_write g4 copy s s3 _ H3) as H4.
  set (g5 := fun (W : mat Q) (i j : nat) => W i j + W j i).
  pose proof (honours_if symm g5 copy s _ _ H4) as H5.
  eexists. split; [reflexivity|].
  destruct symm; exact H5.
Qed.

(* weight_conversion: dispatch on the command string; the copy flag is handed on *)
Lemma codes_eqb_spec a : forall b, reflect (a = b) (codes_eqb a b).
Proof.
  induction a as [|x a IH]; intros [|y b]; cbn [codes_eqb]; try (constructor; congruence).
  destruct (Nat.eqb_spec x y); cbn [andb]; [|constructor; congruence].
  destruct (IH b); constructor; congruence.
Qed.

Theorem wc_dispatch n W wcm :
  (wcm = codes "binarize" -> weight_conversion_str n W wcm = Some (binarize W)) /\
  (wcm = codes "normalize" -> weight_conversion_str n W wcm = Some (normalize n W)) /\
  (wcm = codes "lengths" -> weight_conversion_str n W wcm = Some (invert W)) /\
  (wcm <> codes "binarize" -> wcm <> codes "normalize" -> wcm <> codes "lengths" ->
     weight_conversion_str n W wcm = None).
Proof.
  unfold weight_conversion_str. repeat split.
  - intros ->. reflexivity.
  - intros ->. reflexivity.
  - intros ->. reflexivity.
  - intros H1 H2 H3.
    destruct (codes_eqb_spec wcm c_binarize); [contradiction|].
    destruct (codes_eqb_spec wcm c_normalize); [contradiction|].
    destruct (codes_eqb_spec wcm c_lengths); [contradiction|]. reflexivity.
Qed.

(* the three-constructor dispatch of Model/Threshold.v is this one restricted to the known commands *)
Definition wcm_name (m : wcm) : String.string :=
  match m with WBinarize => "binarize" | WNormalize => "normalize" | WLengths => "lengths" end%string.
Lemma wc_str_enum n W m : weight_conversion_str n W (codes (wcm_name m)) = Some (weight_conversion n W m).
Proof. destruct m; reflexivity. Qed.

Theorem wc_copy n wcm copy s : wf s ->
  match weight_conversion_str n (rd s) wcm with
  | None => wc_prog n wcm copy s = None
  | Some R => exists s', wc_prog n wcm copy s = Some s' /\ honours_copy s s' copy R
  end.
Proof.
  intros Hw. unfold weight_conversion_str, wc_prog.
  destruct (codes_eqb wcm c_binarize); [eexists; split; [reflexivity|apply binarize_copy; exact Hw]|].
  destruct (codes_eqb wcm c_normalize); [eexists; split; [reflexivity|apply normalize_copy; exact Hw]|].
  destruct (codes_eqb wcm c_lengths); [eexists; split; [reflexivity|apply invert_copy; exact Hw]|].
  reflexivity.
Qed.

(* ---------- dtype on the copy path: integer / bool arguments of invert, normalize, weight_conversion ---------- *)
Lemma honours_promote flt copy s : wf s ->
  (flt = false -> copy = false -> promote_or_copy flt copy s = None) /\
  (flt = true \/ copy = true -> exists s1, promote_or_copy flt copy s = Some s1 /\ honours_copy s s1 copy (rd s)).
Proof.
  intros Hw. split.
  - intros -> ->. reflexivity.
  - intros H. unfold promote_or_copy. destruct flt.
    + eexists. split; [reflexivity|]. apply honours_copy_if. exact Hw.
    + destruct copy; [|destruct H; discriminate]. eexists. split; [reflexivity|].
      exact (honours_copy_if true s Hw).
Qed.

(* refuses (before touching anything) exactly for copy=False on a non-float array; otherwise the contract, with a FRESH
   (float) object whenever the argument is not float *)
Theorem invert_copy_d flt copy s : wf s ->
  (flt = false -> copy = false -> invert_prog_d flt copy s = RaiseParam) /\
  (flt = true \/ copy = true -> exists s', invert_prog_d flt copy s = Done s' /\ honours_copy s s' copy (invert (rd s))).
Proof.
  intros Hw. destruct (honours_promote flt copy s Hw) as [H1 H2]. unfold invert_prog_d. split.
  - intros Hf Hc. rewrite (H1 Hf Hc). reflexivity.
  - intros H. destruct (H2 H) as [s1 [E Hh]]. rewrite E. eexists. split; [reflexivity|].
    exact (honours_write invert copy s s1 _ Hh).
Qed.

Theorem normalize_copy_d n flt copy s : wf s ->
  (flt = false -> copy = false -> normalize_prog_d n flt copy s = RaiseParam) /\
  (flt = true \/ copy = true -> exists s', normalize_prog_d n flt copy s = Done s' /\ honours_copy s s' copy (normalize n (rd s))).
Proof.
  intros Hw. destruct (honours_promote flt copy s Hw) as [H1 H2]. unfold normalize_prog_d. split.
  - intros Hf Hc. rewrite (H1 Hf Hc). reflexivity.
  - intros H. destruct (H2 H) as [s1 [E Hh]]. rewrite E. cbv zeta. eexists. split; [reflexivity|].
    destruct Hh as [E0 Hh']. rewrite E0.
    exact (honours_write (fun W i j => W i j / maxabs n (rd s)) copy s s1 _ (conj E0 Hh')).
Qed.

Lemma invert_prog_d_float copy s : invert_prog_d true copy s = Done (invert_prog copy s).
Proof. reflexivity. Qed.
Lemma normalize_prog_d_float n copy s : normalize_prog_d n true copy s = Done (normalize_prog n copy s).
Proof. reflexivity. Qed.

Theorem wc_copy_d n wcm flt copy s : wf s ->
  match weight_conversion_str n (rd s) wcm with
  | None => wc_prog_d n wcm flt copy s = RaiseNotImplemented
  | Some R =>
      (wcm <> codes "binarize" -> flt = false -> copy = false -> wc_prog_d n wcm flt copy s = RaiseParam) /\
      (wcm = codes "binarize" \/ flt = true \/ copy = true ->
         exists s', wc_prog_d n wcm flt copy s = Done s' /\ honours_copy s s' copy R)
  end.
Proof.
  intros Hw. unfold weight_conversion_str, wc_prog_d.
  destruct (codes_eqb_spec wcm c_binarize) as [Eb|Nb].
  { split; [intros H; exfalso; apply H; exact Eb|]. intros _. eexists. split; [reflexivity|apply binarize_copy; exact Hw]. }
  destruct (codes_eqb wcm c_normalize).
  { destruct (normalize_copy_d n flt copy s Hw) as [H1 H2]. split; [intros _; exact H1|].
    intros [H|H]; [exfalso; apply Nb; exact H|exact (H2 H)]. }
  destruct (codes_eqb wcm c_lengths).
  { destruct (invert_copy_d flt copy s Hw) as [H1 H2]. split; [intros _; exact H1|].
    intros [H|H]; [exfalso; apply Nb; exact H|exact (H2 H)]. }
  reflexivity.
Qed.

(* ---------- contrast: a trailing rebinding statement (logtransform, autofix) ---------- *)
(* with copy=False the returned object is NOT the argument and the argument still holds its old contents: the
   "argument itself holds the result" half fails for every g that changes the array *)
Theorem rebind_not_inplace g s : wf s ->
  let s' := rebind_shape g false s in
  loc s' <> loc s /\ hp s' (loc s) = hp s (loc s) /\ rd s' = g (rd s).
Proof.
  intros Hw. unfold wf in Hw. unfold rebind_shape, copy_if. cbv zeta. split; [|split].
  - unfold s_rebind; cbn [loc]. lia.
  - unfold s_rebind; cbn [hp loc]. apply hupd_other. lia.
  - apply rd_rebind.
Qed.

(* ---------- normalize_opt ---------- *)
Lemma normalize_opt_none n W : normalize_opt n W = None <-> forall i j, (i < n)%nat -> (j < n)%nat -> W i j == 0.
Proof.
  unfold normalize_opt. rewrite <- maxabs_zero_iff. destruct (Qeq_bool (maxabs n W) 0) eqn:E.
  - apply Qeq_bool_iff in E. split; [intros _; exact E|reflexivity].
  - split; [discriminate|]. intros H. apply Qeq_bool_iff in H. congruence.
Qed.
Lemma normalize_opt_some n W R : normalize_opt n W = Some R ->
  R = normalize n W /\ exists i j, (i < n)%nat /\ (j < n)%nat /\ ~ W i j == 0.
Proof.
  unfold normalize_opt. destruct (Qeq_bool (maxabs n W) 0) eqn:E; [discriminate|]. intros H. inversion H. split; [reflexivity|].
  destruct (maxabs_attained n W) as [E0|[i [j [Hi [Hj E0]]]]].
  - rewrite E0 in E. discriminate.
  - exists i, j. split; [exact Hi|]. split; [exact Hj|]. intros Hz.
    assert (maxabs n W == 0) by (rewrite E0, Hz; reflexivity). apply Qeq_bool_iff in H0. congruence.
Qed.
