(* Proofs/RewireExamples.v — non-vacuity.  (1) Recorded runs of the implementation, one per routine family
   (randomisers, latticisers, `_connected` variants, caller-supplied D symmetric and asymmetric, the masked partial
   routine), replayed by the model: each returns `Done`, carries out swaps, consumes exactly the recorded draws and
   passes the input checks — so the run theorems of Properties/C01.v and C11.v are not about an empty set of runs.
   (2) The connectivity tests answer true for one swap and false for another on the same ring — soundness is not the
   soundness of a test that always refuses.  (3) The undirected test is NOT complete: a witness where the swapped
   network is connected and the test (as written in the code) refuses — completeness is therefore not claimed. *)
From Coq Require Import ZArith List Arith Bool Lia QArith.
From BCT Require Import Base.Mat Base.ListX Model.Components Model.Rewire Proofs.RewireSwap Proofs.RewireConn Proofs.RewirePre.
Import ListNotations.
Open Scope Z_scope.

(* randmio_dir(A, itr=1, seed=21) of the implementation: 9 accepted swaps, every draw consumed *)
Example ex_randmio_dir :
  let R0 := of_rows 0 [[0;1;0;0;0;0];[0;0;2;0;8;0];[0;0;0;3;0;0];[7;0;0;0;4;0];[0;0;9;0;0;5];[6;0;0;0;0;0]] in
  exists res, run_routine Randmio_dir 6 R0 1 None
    [DInt 8; DInt 4; DInt 0; DInt 0; DInt 8; DInt 3; DInt 2; DInt 1; DInt 8; DInt 6; DInt 0; DInt 4; DInt 6; DInt 4;
     DInt 4; DInt 7; DInt 8; DInt 5; DInt 6; DInt 5; DInt 2; DInt 6; DInt 2; DInt 8]
    = Done res /\ r_eff res = 9%nat /\ r_left res = 0%nat /\ precheck Randmio_dir 6 R0 = true.
Proof. vm_compute. eexists. repeat split; reflexivity. Qed.

(* randmio_dir_connected(A, itr=1, seed=112) of the implementation: 9 accepted swaps, every draw consumed *)
Example ex_randmio_dir_connected :
  let R0 := of_rows 0 [[0;1;0;0;0;0];[0;0;2;0;8;0];[0;0;0;3;0;0];[7;0;0;0;4;0];[0;0;9;0;0;5];[6;0;0;0;0;0]] in
  exists res, run_routine Randmio_dir_connected 6 R0 1 None
    [DInt 4; DInt 8; DInt 1; DInt 4; DInt 5; DInt 7; DInt 8; DInt 4; DInt 0; DInt 4; DInt 8; DInt 6; DInt 0; DInt 3;
     DInt 5; DInt 6; DInt 5; DInt 8; DInt 3; DInt 1; DInt 5; DInt 2; DInt 4; DInt 0; DInt 8; DInt 0; DInt 0; DInt 8;
     DInt 7; DInt 4; DInt 2; DInt 8]
    = Done res /\ r_eff res = 9%nat /\ r_left res = 0%nat /\ precheck Randmio_dir_connected 6 R0 = true.
Proof. vm_compute. eexists. repeat split; reflexivity. Qed.

(* randmio_und_connected(A, itr=1, seed=51) of the implementation: 7 accepted swaps, every draw consumed *)
Example ex_randmio_und_connected :
  let R0 := of_rows 0 [[0;1;0;7;0;6];[1;0;2;0;0;0];[0;2;0;3;0;0];[7;0;3;0;4;0];[0;0;0;4;0;5];[6;0;0;0;5;0]] in
  exists res, run_routine Randmio_und_connected 6 R0 1 None
    [DInt 6; DInt 1; DFlt (402731534216219#9007199254740992)%Q; DInt 1; DInt 5;
     DFlt (2900407002625759#4503599627370496)%Q; DInt 6; DInt 4; DFlt (4275437392277687#4503599627370496)%Q; DInt 2;
     DInt 6; DFlt (436818722249245#1125899906842624)%Q; DInt 6; DInt 4; DFlt (2196836943989405#4503599627370496)%Q;
     DInt 3; DInt 3; DInt 6; DFlt (2932886085509691#4503599627370496)%Q; DInt 4; DInt 2; DInt 6; DInt 1; DInt 1;
     DInt 5; DFlt (724186761111583#4503599627370496)%Q]
    = Done res /\ r_eff res = 7%nat /\ r_left res = 0%nat /\ precheck Randmio_und_connected 6 R0 = true.
Proof. vm_compute. eexists. repeat split; reflexivity. Qed.

(* latmio_dir(A, itr=1, D, seed=55) of the implementation: 5 accepted swaps, every draw consumed *)
Example ex_latmio_dir :
  let R0 := of_rows 0 [[0;1;0;0;0;0];[0;0;2;0;8;0];[0;0;0;3;0;0];[7;0;0;0;4;0];[0;0;9;0;0;5];[6;0;0;0;0;0]] in
  exists res, run_routine Latmio_dir 6 R0 1 (Some (of_rows 0 [[0;5;3;1;6;4];[3;0;6;4;2;0];[6;4;0;0;5;3];[2;0;5;0;1;6];[5;3;1;6;0;2];[1;6;4;2;0;0]]))
    [DPerm [4; 1; 0; 3; 2; 5]%nat; DInt 5; DInt 7; DInt 5; DInt 1; DInt 6; DInt 0; DInt 3; DInt 8; DInt 7; DInt 1;
     DInt 5; DInt 7; DInt 8; DInt 3; DInt 7; DInt 0; DInt 7; DInt 2; DInt 1; DInt 8; DInt 0; DInt 8; DInt 8; DInt 4;
     DInt 5; DInt 4; DInt 1; DInt 8; DInt 2; DInt 0; DInt 7; DInt 2; DInt 8; DInt 0; DInt 5; DInt 6; DInt 3; DInt 8;
     DInt 7; DInt 2]
    = Done res /\ r_eff res = 5%nat /\ r_left res = 0%nat /\ precheck Latmio_dir 6 R0 = true.
Proof. vm_compute. eexists. repeat split; reflexivity. Qed.

(* latmio_dir_connected(A, itr=1, seed=50) of the implementation: 5 accepted swaps, every draw consumed *)
Example ex_latmio_dir_connected :
  let R0 := of_rows 0 [[0;1;0;0;0;0];[0;0;2;0;8;0];[0;0;0;3;0;0];[7;0;0;0;4;0];[0;0;9;0;0;5];[6;0;0;0;0;0]] in
  exists res, run_routine Latmio_dir_connected 6 R0 1 None
    [DPerm [4; 2; 1; 3; 5; 0]%nat; DInt 4; DInt 6; DInt 5; DInt 6; DInt 6; DInt 5; DInt 2; DInt 7; DInt 4; DInt 3;
     DInt 6; DInt 4; DInt 1; DInt 5; DInt 0; DInt 6; DInt 3; DInt 2; DInt 3; DInt 3; DInt 3; DInt 2; DInt 0; DInt 3;
     DInt 2; DInt 0; DInt 3; DInt 0; DInt 0; DInt 7; DInt 3; DInt 8; DInt 7; DInt 4; DInt 4; DInt 0; DInt 0; DInt 3;
     DInt 3; DInt 1; DInt 4; DInt 5; DInt 7; DInt 0; DInt 3; DInt 5; DInt 6; DInt 1; DInt 4; DInt 4; DInt 4; DInt 5;
     DInt 4; DInt 6; DInt 3; DInt 0; DInt 5; DInt 8; DInt 3; DInt 6; DInt 2; DInt 8]
    = Done res /\ r_eff res = 5%nat /\ r_left res = 0%nat /\ precheck Latmio_dir_connected 6 R0 = true.
Proof. vm_compute. eexists. repeat split; reflexivity. Qed.

(* latmio_und(A, itr=1, seed=15) of the implementation: 5 accepted swaps, every draw consumed *)
Example ex_latmio_und :
  let R0 := of_rows 0 [[0;1;0;7;0;6];[1;0;2;0;0;0];[0;2;0;3;0;0];[7;0;3;0;4;0];[0;0;0;4;0;5];[6;0;0;0;5;0]] in
  exists res, run_routine Latmio_und 6 R0 1 None
    [DPerm [3; 2; 5; 1; 4; 0]%nat; DInt 3; DInt 3; DInt 5; DInt 6; DInt 5; DInt 1; DInt 5;
     DFlt (62904746218289#562949953421312)%Q; DInt 0; DInt 6; DFlt (4132637665960769#4503599627370496)%Q; DInt 4;
     DInt 1; DFlt (1616282655721127#2251799813685248)%Q; DInt 3; DInt 4; DFlt (3634762855498647#4503599627370496)%Q;
     DInt 5; DInt 6; DInt 0; DInt 2; DInt 1; DInt 1; DInt 0; DFlt (4497039696435359#4503599627370496)%Q; DInt 2;
     DInt 3; DInt 2; DInt 1; DFlt (1066169661818669#2251799813685248)%Q; DInt 6; DInt 1;
     DFlt (4256074663509681#4503599627370496)%Q; DInt 6; DInt 0; DFlt (779561765977335#2251799813685248)%Q; DInt 4;
     DInt 3; DFlt (1640019442567981#2251799813685248)%Q; DInt 2; DInt 2; DInt 0;
     DFlt (2997719931315555#4503599627370496)%Q; DInt 3; DInt 0; DFlt (2805826421880007#4503599627370496)%Q; DInt 5;
     DInt 3; DInt 1; DInt 0; DInt 0; DInt 5; DFlt (1204233695129637#9007199254740992)%Q; DInt 0; DInt 6;
     DFlt (5981146428617205#9007199254740992)%Q; DInt 1; DInt 2; DFlt (5304418740756419#9007199254740992)%Q]
    = Done res /\ r_eff res = 5%nat /\ r_left res = 0%nat /\ precheck Latmio_und 6 R0 = true.
Proof. vm_compute. eexists. repeat split; reflexivity. Qed.

(* latmio_und_connected(A, itr=1, D, seed=37) of the implementation: 5 accepted swaps, every draw consumed *)
Example ex_latmio_und_connected :
  let R0 := of_rows 0 [[0;1;0;7;0;6];[1;0;2;0;0;0];[0;2;0;3;0;0];[7;0;3;0;4;0];[0;0;0;4;0;5];[6;0;0;0;5;0]] in
  exists res, run_routine Latmio_und_connected 6 R0 1 (Some (of_rows 0 [[0;2;2;6;4;10];[2;0;2;2;6;4];[2;2;0;2;2;6];[6;2;2;0;2;2];[4;6;2;2;0;2];[10;4;6;2;2;0]]))
    [DPerm [2; 1; 0; 5; 4; 3]%nat; DInt 6; DInt 2; DFlt (5585222035752551#9007199254740992)%Q; DInt 2; DInt 5;
     DInt 0; DInt 5; DFlt (5672334738374431#9007199254740992)%Q; DInt 6; DInt 0; DInt 0; DInt 3;
     DFlt (5168251025913165#9007199254740992)%Q; DInt 0; DInt 6; DInt 4; DInt 2;
     DFlt (5466013274904733#9007199254740992)%Q; DInt 2; DInt 3; DInt 0; DInt 4; DInt 1; DInt 2;
     DFlt (4098462465978143#4503599627370496)%Q; DInt 3; DInt 4; DFlt (7444027321644439#9007199254740992)%Q; DInt 1;
     DInt 3; DInt 2; DInt 6; DFlt (3285148592767951#9007199254740992)%Q; DInt 5; DInt 6;
     DFlt (4369584756125605#4503599627370496)%Q; DInt 2; DInt 3; DFlt (1077305783497937#2251799813685248)%Q; DInt 3;
     DInt 3; DInt 4; DFlt (6877678341486351#9007199254740992)%Q; DInt 4; DInt 5;
     DFlt (1646904089362285#4503599627370496)%Q; DInt 4; DInt 5; DFlt (90284264282839#2251799813685248)%Q; DInt 5;
     DInt 5; DInt 0; DFlt (2657870517868711#9007199254740992)%Q; DInt 3; DInt 2;
     DFlt (8371132811877421#9007199254740992)%Q]
    = Done res /\ r_eff res = 5%nat /\ r_left res = 0%nat /\ precheck Latmio_und_connected 6 R0 = true.
Proof. vm_compute. eexists. repeat split; reflexivity. Qed.

(* randomize_graph_partial_und(A, B, maxswap=2, seed=89): 2 swaps, mask cells (0,2) and (1,4) *)
Example ex_partial_und :
  let A := of_rows 0 [[0;1;0;7;0;6];[1;0;2;0;0;0];[0;2;0;3;0;0];[7;0;3;0;4;0];[0;0;0;4;0;5];[6;0;0;0;5;0]] in
  let B := of_rows 0 [[0;0;1;0;0;0];[0;0;0;0;2;0];[1;0;0;0;0;0];[0;0;0;0;0;0];[0;2;0;0;0;0];[0;0;0;0;0;0]] in
  exists res, run_partial_und 6 A B 2
    [DInt 3; DInt 6; DFlt (2305276765432621#9007199254740992)%Q; DInt 6; DInt 3;
     DFlt (436496574514331#4503599627370496)%Q]
    = Done res /\ r_eff res = 2%nat /\ r_left res = 0%nat.
Proof. vm_compute. eexists. repeat split; reflexivity. Qed.

(* ---------- the guards are not trivial ---------- *)
Definition ring6 : mat Z :=
  of_rows 0 [[0;1;0;0;0;1];[1;0;1;0;0;0];[0;1;0;1;0;0];[0;0;1;0;1;0];[0;0;0;1;0;1];[1;0;0;0;1;0]].
(* swapping 0-1, 4-3 into 0-3, 4-1 keeps the ring in one piece (the test says so); 0-1, 3-4 into 0-4, 3-1 cuts it in
   two triangles... the test refuses *)
Example und_guard_nonvacuous :
  und_conn_guard 6 ring6 0 1 4 3 = true /\ und_conn_guard 6 ring6 0 1 3 4 = false.
Proof. split; vm_compute; reflexivity. Qed.

(* directed 6-ring with the chord 3->0 *)
Definition dring6c : mat Z :=
  of_rows 0 [[0;1;0;0;0;0];[0;0;1;0;0;0];[0;0;0;1;0;0];[1;0;0;0;1;0];[0;0;0;0;0;1];[1;0;0;0;0;0]].
Example dir_guard_nonvacuous :
  dir_conn_guard 6 dring6c 3 0 4 5 = true /\ dir_conn_guard 6 dring6c 0 1 3 4 = false.
Proof. split; vm_compute; reflexivity. Qed.

(* ---------- the undirected test is sound but not complete ---------- *)
(* path 0-1-2-3-4, swap 0-1, 4-3 into 0-3, 4-1: the result 1-2-3-0 plus 4-1 is connected, but node 0 has no
   neighbour besides 1, its row of P is empty in the first round, and the code sets rewire = False *)
Definition path5 : mat Z := of_rows 0 [[0;1;0;0;0];[1;0;1;0;0];[0;1;0;1;0];[0;0;1;0;1];[0;0;0;1;0]].
Example und_test_incomplete :
  connected 5 path5 /\ connected 5 (swap_und path5 0 1 4 3) /\
  path5 0%nat 3%nat = 0 /\ path5 4%nat 1%nat = 0 /\ path5 0%nat 1%nat <> 0 /\ path5 4%nat 3%nat <> 0 /\
  und_conn_guard 5 path5 0 1 4 3 = false.
Proof.
  split; [apply (precheck_und_connected Randmio_und_connected 5 path5 eq_refl eq_refl); vm_compute; reflexivity|].
  split; [apply (precheck_und_connected Randmio_und_connected 5 (swap_und path5 0 1 4 3) eq_refl eq_refl); vm_compute; reflexivity|].
  repeat split; vm_compute; congruence.
Qed.
