(* Proofs/ReduceSelfloop.v — C10 with self-connections: the clustering pairs on matrices that may carry a
   nonzero diagonal, through the option-valued routines of Model/ClusteringInf.v (None = the float inf that the
   code returns when cyc3 <> 0 is divided by a vanishing K(K-1) [- 2 diag(A^2)]).
   * wd/bd on any 0/1 matrix and wd/wu on any symmetric matrix agree INCLUDING the infinities (oeq);
   * wu/bu and bd/bu on a symmetric 0/1 matrix agree wherever the weighted / directed routine returns a finite
     number; it returns inf exactly at nodes with fewer than two neighbours (counting the node itself when it
     has a self-connection) that carry a closed 3-walk through a self-connection, where clustering_coef_bu
     returns 0 (its `if k >= 2` guard): the two pairs are REFUTED on 0/1 matrices with self-connections;
   * with an empty diagonal no routine returns inf. *)
From Coq Require Import QArith Qabs List Arith Bool ZArith Lia Lqa.
From BCT Require Import Base.Mat Base.SumQ Model.Threshold Model.Clustering Model.ClusteringInf
  Proofs.ClusteringSpec Proofs.Clustering Proofs.ClusteringRange Proofs.ClusteringReduce.
Import ListNotations.
Open Scope Q_scope.

(* ---------- the masking idiom with the visible quotient ---------- *)
Lemma mask_divo c k d :
  xdivo c (xsub (xkk1 (xmask c k)) d) = if Qeq_bool c 0 then Some 0 else odiv c (k * (k - 1) - d).
Proof. unfold xmask, odiv. destruct (Qeq_bool c 0); cbn [xkk1 xsub xdivo]; reflexivity. Qed.
Lemma mask_divo0 c k : xdivo c (xkk1 (xmask c k)) = if Qeq_bool c 0 then Some 0 else odiv c (k * (k - 1)).
Proof. unfold xmask, odiv. destruct (Qeq_bool c 0); cbn [xkk1 xdivo]; reflexivity. Qed.

Lemma xdivo_sound c d q : xdivo c d = Some q -> q == xdiv c d.
Proof.
  destruct d as [x|]; cbn [xdivo xdiv].
  - destruct (Qeq_bool x 0); [discriminate|]. intros H. injection H as <-. reflexivity.
  - intros H. injection H as <-. reflexivity.
Qed.

(* masked quotient: "Some 0 if c = 0, else c / x (None if x = 0)" *)
Definition mq (c x : Q) : option Q := if Qeq_bool c 0 then Some 0 else odiv c x.
Lemma mq_ext c c' x x' : c == c' -> x == x' -> oeq (mq c x) (mq c' x').
Proof.
  intros Hc Hx. unfold mq. rewrite (Qeq_bool_ext _ _ Hc). destruct (Qeq_bool c' 0); [cbn [oeq]; reflexivity|].
  apply odiv_ext; assumption.
Qed.
Lemma mq_scale4 c x : oeq (mq (4 * c) (4 * x)) (mq c x).
Proof.
  unfold mq. rewrite Qeq_bool_scale4. destruct (Qeq_bool c 0); [cbn [oeq]; reflexivity|].
  apply odiv_scale. intros H. discriminate H.
Qed.

(* ---------- the three routines as masked quotients of the enumerations of Proofs/ClusteringSpec.v ---------- *)
Lemma cc_bd_o_def n A i : oeq (cc_bd_o n A i) (mq (tri_dir n A i) (poss_dir n A i)).
Proof.
  unfold cc_bd_o. cbv zeta. rewrite mask_divo. apply mq_ext; [apply cyc3_tri|].
  rewrite rowsum_dtot, diag2_dbi. reflexivity.
Qed.
Lemma cc_wd_o_def cbrt n W i : oeq (cc_wd_o cbrt n W i) (mq (tri_dir n (mmap cbrt W) i) (poss_dir n (mmap nzQ W) i)).
Proof.
  unfold cc_wd_o. cbv zeta. rewrite mask_divo. change (mmap cbrt (mT W)) with (mT (mmap cbrt W)).
  apply mq_ext; [apply cyc3_tri|]. rewrite rowsum_dtot, diag2_dbi. reflexivity.
Qed.
Lemma cc_wu_o_def cbrt n W i :
  cc_wu_o cbrt n W i = mq (diag3 n (mmap cbrt W) i) (kdeg n W i * (kdeg n W i - 1)).
Proof. unfold cc_wu_o. cbv zeta. rewrite mask_divo0. reflexivity. Qed.

(* a finite value of the visible routine is the value of the routine of Model/Clustering.v: every theorem of
   C09 / C10 about cc_bd / cc_wd / cc_wu speaks about the visible routines wherever they are finite *)
Theorem cc_o_sound cbrt n W i q :
  (cc_bd_o n W i = Some q -> q == cc_bd n W i) /\
  (cc_wd_o cbrt n W i = Some q -> q == cc_wd cbrt n W i) /\
  (cc_wu_o cbrt n W i = Some q -> q == cc_wu cbrt n W i).
Proof. repeat split; intros H; apply xdivo_sound; exact H. Qed.

(* ---------- a sum of 0/1 values is 0, 1 or at least 2 ---------- *)
Lemma sum01_cases (f : nat -> Q) n : (forall x, (x < n)%nat -> f x == 0 \/ f x == 1) ->
  sumQ f n == 0 \/ sumQ f n == 1 \/ 2 <= sumQ f n.
Proof.
  induction n as [|n IH]; intros H; cbn [sumQ]; [left; reflexivity|].
  destruct (IH (fun x Hx => H x (Nat.lt_lt_succ_r _ _ Hx))) as [E|[E|E]];
    destruct (H n (Nat.lt_succ_diag_r n)) as [F|F]; rewrite F; lra.
Qed.
Lemma kdeg_cases n W i : kdeg n W i == 0 \/ kdeg n W i == 1 \/ 2 <= kdeg n W i.
Proof. unfold kdeg. apply sum01_cases. intros x _. apply nzQ_01. Qed.
Lemma kk1_zero_lt2 n W i : kdeg n W i * (kdeg n W i - 1) == 0 -> Qle_bool 2 (kdeg n W i) = false.
Proof.
  intros H. destruct (Qle_bool 2 (kdeg n W i)) eqn:E; [|reflexivity]. apply Qle_bool_iff in E. exfalso.
  assert (0 < kdeg n W i * (kdeg n W i - 1)) by nra. lra.
Qed.
Lemma kk1_nz_ge2 n W i : ~ kdeg n W i * (kdeg n W i - 1) == 0 -> Qle_bool 2 (kdeg n W i) = true.
Proof.
  intros H. destruct (kdeg_cases n W i) as [E|[E|E]].
  - exfalso. apply H. rewrite E. ring.
  - exfalso. apply H. rewrite E. ring.
  - apply Qle_bool_iff. exact E.
Qed.

(* ---------- 0/1 input, any diagonal: wd = bd including the infinities ---------- *)
Section Cb.
Variable cbrt : Q -> Q.

Theorem cc_wd_o_bin_eq_bd n A i : cbrt_ok cbrt n A -> binary n A -> (i < n)%nat ->
  oeq (cc_wd_o cbrt n A i) (cc_bd_o n A i).
Proof.
  intros Hc Hb Hi. apply (oeq_trans _ _ _ (cc_wd_o_def cbrt n A i)). apply oeq_sym.
  apply (oeq_trans _ _ _ (cc_bd_o_def n A i)). apply mq_ext.
  - symmetry. apply tri_dir_ext; [apply cbrt_binary_ext; assumption|exact Hi].
  - symmetry. apply poss_dir_ext; [apply mmap_nz_binary; assumption|exact Hi].
Qed.

(* ---------- symmetric input, any weights, any diagonal: wd = wu including the infinities ---------- *)
Theorem cc_wd_o_sym_eq_wu n W i : cbrt_ok cbrt n W -> symmetric n W -> (i < n)%nat ->
  oeq (cc_wd_o cbrt n W i) (cc_wu_o cbrt n W i).
Proof.
  intros Hc Hs Hi. apply (oeq_trans _ _ _ (cc_wd_o_def cbrt n W i)). rewrite cc_wu_o_def.
  apply (oeq_trans _ (mq (4 * diag3 n (mmap cbrt W) i) (4 * (kdeg n W i * (kdeg n W i - 1))))); [|apply mq_scale4].
  apply mq_ext; [apply tri_dir_sym; [apply cbrt_sym; assumption|exact Hi]|apply poss_dir_sym; assumption].
Qed.

(* ---------- symmetric 0/1 input, any diagonal: wu against bu ---------- *)
(* finite values agree; inf only at a node with fewer than two neighbours, where bu returns 0, and only if the
   diagonal is not empty *)
Theorem cc_wu_o_bin_bu n A i : cbrt_ok cbrt n A -> binary n A -> symmetric n A -> (i < n)%nat ->
  match cc_wu_o cbrt n A i with
  | Some q => q == cc_bu n A i
  | None => cc_bu n A i == 0 /\ kdeg n A i < 2 /\ ~ diag3 n A i == 0 /\ ~ nodiag n A
  end.
Proof.
  intros Hc Hb Hs Hi. rewrite cc_wu_o_def. unfold mq, odiv.
  assert (E3 := diag3_ext n (mmap cbrt A) A i (cbrt_binary_ext cbrt n A Hc Hb) Hi).
  pose proof (cc_bu_triples n A i Hb Hs Hi) as Ebu.
  destruct (Qeq_bool (diag3 n (mmap cbrt A) i) 0) eqn:E0.
  - rewrite Ebu. apply Qeq_bool_iff in E0. rewrite E3 in E0. destruct (Qle_bool 2 (kdeg n A i)); [|reflexivity].
    rewrite E0. unfold Qdiv. ring.
  - destruct (Qeq_bool (kdeg n A i * (kdeg n A i - 1)) 0) eqn:Ek.
    + apply Qeq_bool_iff in Ek. pose proof (kk1_zero_lt2 n A i Ek) as E2. rewrite E2 in Ebu.
      split; [exact Ebu|]. split.
      { destruct (Qlt_le_dec (kdeg n A i) 2) as [L|L]; [exact L|]. apply Qle_bool_iff in L. congruence. }
      apply Qeq_bool_neq in E0. split; [rewrite <- E3; exact E0|].
      intros Hd. apply E0. apply (no_triangle_cyc3 cbrt n A i Hc Hi).
      exact (kdeg_lt2_no_triangle n A i Hs Hd Hi E2).
    + apply Qeq_bool_neq in Ek. rewrite Ebu, (kk1_nz_ge2 n A i Ek). rewrite E3. reflexivity.
Qed.
End Cb.

(* ---------- symmetric 0/1 input, any diagonal: bd against bu ---------- *)
Theorem cc_bd_o_sym_bu n A i : binary n A -> symmetric n A -> (i < n)%nat ->
  match cc_bd_o n A i with
  | Some q => q == cc_bu n A i
  | None => cc_bu n A i == 0 /\ kdeg n A i < 2 /\ ~ diag3 n A i == 0 /\ ~ nodiag n A
  end.
Proof.
  intros Hb Hs Hi.
  assert (Hd : oeq (cc_bd_o n A i) (mq (diag3 n A i) (kdeg n A i * (kdeg n A i - 1)))).
  { apply (oeq_trans _ _ _ (cc_bd_o_def n A i)).
    apply (oeq_trans _ (mq (4 * diag3 n A i) (4 * (kdeg n A i * (kdeg n A i - 1))))); [|apply mq_scale4].
    apply mq_ext; [apply tri_dir_sym; assumption|].
    rewrite <- (poss_dir_ext n (mmap nzQ A) A i (mmap_nz_binary n A Hb) Hi). apply poss_dir_sym; assumption. }
  pose proof (cc_bu_triples n A i Hb Hs Hi) as Ebu. unfold mq, odiv in Hd.
  destruct (Qeq_bool (diag3 n A i) 0) eqn:E0.
  - destruct (cc_bd_o n A i) as [q|]; cbn [oeq] in Hd; [|contradiction]. rewrite Hd, Ebu.
    apply Qeq_bool_iff in E0. destruct (Qle_bool 2 (kdeg n A i)); [|reflexivity]. rewrite E0. unfold Qdiv. ring.
  - destruct (Qeq_bool (kdeg n A i * (kdeg n A i - 1)) 0) eqn:Ek.
    + destruct (cc_bd_o n A i) as [q|]; cbn [oeq] in Hd; [contradiction|].
      apply Qeq_bool_iff in Ek. pose proof (kk1_zero_lt2 n A i Ek) as E2. rewrite E2 in Ebu.
      split; [exact Ebu|]. split.
      { destruct (Qlt_le_dec (kdeg n A i) 2) as [L|L]; [exact L|]. apply Qle_bool_iff in L. congruence. }
      apply Qeq_bool_neq in E0. split; [exact E0|].
      intros Hn. apply E0. apply triple_zero. intros j k Hj Hk.
      destruct (kdeg_lt2_no_triangle n A i Hs Hn Hi E2 j k Hj Hk) as [[H _]|[[H _]|[H _]]]; auto.
    + destruct (cc_bd_o n A i) as [q|]; cbn [oeq] in Hd; [|contradiction]. rewrite Hd, Ebu.
      apply Qeq_bool_neq in Ek. rewrite (kk1_nz_ge2 n A i Ek). reflexivity.
Qed.

(* ---------- empty diagonal: no routine returns inf on a 0/1 matrix ---------- *)
Lemma mq_finite c x : (~ c == 0 -> 0 < x) -> mq c x <> None.
Proof.
  intros H. unfold mq, odiv. destruct (Qeq_bool c 0) eqn:E; [discriminate|]. apply Qeq_bool_neq in E.
  destruct (Qeq_bool x 0) eqn:E'; [|discriminate]. apply Qeq_bool_iff in E'. specialize (H E). lra.
Qed.
Lemma oeq_not_none a b : oeq a b -> b <> None -> a <> None.
Proof. destruct a, b; cbn [oeq]; try tauto. intros _ _ H. discriminate H. Qed.

Lemma binary_unit n A : binary n A -> unit_weights n A.
Proof. intros Hb i j Hi Hj. apply (binary_bounds n A i j Hb Hi Hj). Qed.

Theorem cc_o_nodiag_finite cbrt n A i : cbrt_ok cbrt n A -> binary n A -> nodiag n A -> (i < n)%nat ->
  cc_bd_o n A i <> None /\ cc_wd_o cbrt n A i <> None /\ (symmetric n A -> cc_wu_o cbrt n A i <> None).
Proof.
  intros Hc Hb Hd Hi. split; [|split].
  - apply (oeq_not_none _ _ (cc_bd_o_def n A i)). apply mq_finite. apply no_div0_bd; assumption.
  - apply (oeq_not_none _ _ (cc_wd_o_def cbrt n A i)). apply mq_finite.
    apply no_div0_wd; [assumption|apply binary_unit; assumption|assumption|assumption].
  - intros Hs. rewrite cc_wu_o_def. apply mq_finite.
    apply no_div0_wu; [assumption|apply binary_unit; assumption|assumption|assumption|assumption].
Qed.

(* ---------- the witnesses: a single node with a self-connection, and a pendant node hanging on one ---------- *)
Definition loop_pendant : mat Q := of_rows 0 [[1; 1]; [1; 0]]%list.

Lemma bin2 (A : mat Q) : (forall a b, (a < 2)%nat -> (b < 2)%nat -> A a b == 0 \/ A a b == 1) -> binary 2 A.
Proof. intros H. exact H. Qed.

Lemma loop_pendant_ok : binary 2 loop_pendant /\ symmetric 2 loop_pendant.
Proof.
  split; intros a b Ha Hb;
    (destruct a as [|[|a]]; [| |exfalso; lia]); (destruct b as [|[|b]]; [| |exfalso; lia]); vm_compute; tauto.
Qed.

Theorem cc_wu_bu_selfloop_refuted :
  exists n A i, binary n A /\ symmetric n A /\ (i < n)%nat /\ cbrt_ok cbrt_exact n A /\
    ~ oeq (cc_wu_o cbrt_exact n A i) (Some (cc_bu n A i)).
Proof.
  exists 2%nat, loop_pendant, 1%nat. destruct loop_pendant_ok as [Hb Hs].
  split; [exact Hb|]. split; [exact Hs|]. split; [lia|]. split; [apply cbrt_exact_ok_binary; exact Hb|].
  vm_compute. tauto.
Qed.

Theorem cc_bd_bu_selfloop_refuted :
  exists n A i, binary n A /\ symmetric n A /\ (i < n)%nat /\ ~ oeq (cc_bd_o n A i) (Some (cc_bu n A i)).
Proof.
  exists 2%nat, loop_pendant, 1%nat. destruct loop_pendant_ok as [Hb Hs].
  split; [exact Hb|]. split; [exact Hs|]. split; [lia|]. vm_compute. tauto.
Qed.

(* what the routines return on the witness: node 0 (self-connection + one neighbour) gets 3/2 from all four,
   node 1 (one neighbour, which carries a self-connection) gets inf from wu / bd / wd and 0 from bu *)
Example selfloop_values :
  map (cc_wu_o cbrt_exact 2 loop_pendant) [0; 1]%nat = [Some (3 # 2); None]%list /\
  map (fun i => qopt (cc_bd_o 2 loop_pendant i)) [0; 1]%nat = [Some (3 # 2); None]%list /\
  map (fun i => qopt (cc_wd_o cbrt_exact 2 loop_pendant i)) [0; 1]%nat = [Some (3 # 2); None]%list /\
  map (fun i => Qred (cc_bu 2 loop_pendant i)) [0; 1]%nat = [3 # 2; 0]%list.
Proof. vm_compute. repeat split. Qed.
