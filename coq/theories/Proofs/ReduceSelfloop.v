(* Proofs/ReduceSelfloop.v — C10 with self-connections, after the repair 366dab6 of clustering_coef_wu / _bd / _wd.
   Model/ClusteringInf.v follows the code statement by statement with the float quotient visible (None = inf).
   * [cc_o_total]: for EVERY matrix (any weights, any diagonal) the three routines return a finite number — the
     masks `CYC3[CYC3 == 0] = inf` / `K[K < 2] = inf` leave no zero denominator — and it is the value of the routines
     of Model/Clustering.v (whose total division x / 0 = 0 stands in for the masks);
   * hence every pair holds for any diagonal: wd = bd on 0/1 input, wd = wu on symmetric input (ClusteringReduce.v,
     never had a diagonal hypothesis) and, NEW, wu = bu and bd = bu on every symmetric 0/1 matrix WITHOUT the
     hypothesis `nodiag` that the unrepaired code needed (there: inf against 0 at node 1 of [[1,1],[1,0]]). *)
From Coq Require Import QArith Qabs List Arith Bool ZArith Lia Lqa.
From BCT Require Import Base.Mat Base.SumQ Model.Threshold Model.Clustering Model.ClusteringInf
  Proofs.ClusteringSpec Proofs.Clustering Proofs.ClusteringRange Proofs.ClusteringReduce.
Import ListNotations.
Open Scope Q_scope.

Lemma div_zero c x : x == 0 -> c / x == 0.
Proof. intros H. rewrite H. unfold Qdiv. change (/ 0) with 0. ring. Qed.

(* ---------- a sum of 0/1 values is 0, 1 or at least 2 ---------- *)
Lemma sum01_cases (f : nat -> Q) n : (forall x, (x < n)%nat -> f x == 0 \/ f x == 1) ->
  sumQ f n == 0 \/ sumQ f n == 1 \/ 2 <= sumQ f n.
Proof.
  induction n as [|n IH]; intros H; cbn [sumQ]; [left; reflexivity|].
  destruct (IH (fun x Hx => H x (Nat.lt_lt_succ_r _ _ Hx))) as [E|[E|E]];
    destruct (H n (Nat.lt_succ_diag_r n)) as [F|F]; rewrite F; lra.
Qed.
Lemma kdeg_cases n W i : kdeg n W i == 0 \/ kdeg n W i == 1 \/ 2 <= kdeg n W i.
Proof. unfold kdeg. apply sum01_cases. intros x _. apply nzQ_01. Qed.
Lemma kk1_zero_lt2 n W i : kdeg n W i * (kdeg n W i - 1) == 0 -> Qle_bool 2 (kdeg n W i) = false.
Proof.
  intros H. destruct (Qle_bool 2 (kdeg n W i)) eqn:E; [|reflexivity]. apply Qle_bool_iff in E. exfalso.
  assert (0 < kdeg n W i * (kdeg n W i - 1)) by nra. lra.
Qed.
Lemma kk1_nz_ge2 n W i : ~ kdeg n W i * (kdeg n W i - 1) == 0 -> Qle_bool 2 (kdeg n W i) = true.
Proof.
  intros H. destruct (kdeg_cases n W i) as [E|[E|E]].
  - exfalso. apply H. rewrite E. ring.
  - exfalso. apply H. rewrite E. ring.
  - apply Qle_bool_iff. exact E.
Qed.


Lemma kdeg_lt2_kk1 n W i : kdeg n W i < 2 -> kdeg n W i * (kdeg n W i - 1) == 0.
Proof. intros H. destruct (kdeg_cases n W i) as [E|[E|E]]; [rewrite E; ring|rewrite E; ring|lra]. Qed.

(* ---------- the masked quotients never divide by zero, and equal the total-division forms ---------- *)
Lemma masked_div_total c k d :
  exists q, xdivo c (xzinf (xsub (xkk1 (xmask c k)) d)) = Some q /\ q == xdiv c (xsub (xkk1 (xmask c k)) d).
Proof.
  unfold xmask. destruct (Qeq_bool c 0); cbn [xkk1 xsub xzinf xdivo xdiv].
  - exists 0. split; reflexivity.
  - destruct (Qeq_bool (k * (k - 1) - d) 0) eqn:E; cbn [xdivo].
    + exists 0. split; [reflexivity|]. apply Qeq_bool_iff in E. symmetry. apply div_zero. exact E.
    + rewrite E. eexists. split; reflexivity.
Qed.

Theorem cc_bd_o_total n A i : exists q, cc_bd_o n A i = Some q /\ q == cc_bd n A i.
Proof. unfold cc_bd_o, cc_bd. cbv zeta. apply masked_div_total. Qed.

Theorem cc_wd_o_total cbrt n W i : exists q, cc_wd_o cbrt n W i = Some q /\ q == cc_wd cbrt n W i.
Proof. unfold cc_wd_o, cc_wd. cbv zeta. apply masked_div_total. Qed.

Theorem cc_wu_o_total cbrt n W i : exists q, cc_wu_o cbrt n W i = Some q /\ q == cc_wu cbrt n W i.
Proof.
  unfold cc_wu_o, cc_wu. cbv zeta. change (rowsum n (mmap nzQ W) i) with (kdeg n W i).
  set (c := diag3 n (mmap cbrt W) i). unfold xmask. destruct (Qeq_bool c 0); cbn [xlt2inf xkk1 xdivo xdiv].
  - exists 0. split; reflexivity.
  - unfold Qltb. destruct (Qle_bool 2 (kdeg n W i)) eqn:E; cbn [negb xkk1 xdivo].
    + apply Qle_bool_iff in E.
      destruct (Qeq_bool (kdeg n W i * (kdeg n W i - 1)) 0) eqn:E0.
      * apply Qeq_bool_iff in E0. exfalso. assert (0 < kdeg n W i * (kdeg n W i - 1)) by nra. lra.
      * eexists. split; reflexivity.
    + exists 0. split; [reflexivity|]. symmetry. apply div_zero. apply kdeg_lt2_kk1.
      destruct (Qlt_le_dec (kdeg n W i) 2) as [L|L]; [exact L|]. apply Qle_bool_iff in L. congruence.
Qed.

(* the three together, as the property file states them *)
Theorem cc_o_total cbrt n W i :
  (exists q, cc_bd_o n W i = Some q /\ q == cc_bd n W i) /\
  (exists q, cc_wd_o cbrt n W i = Some q /\ q == cc_wd cbrt n W i) /\
  (exists q, cc_wu_o cbrt n W i = Some q /\ q == cc_wu cbrt n W i).
Proof. exact (conj (cc_bd_o_total n W i) (conj (cc_wd_o_total cbrt n W i) (cc_wu_o_total cbrt n W i))). Qed.

(* ---------- symmetric 0/1 input, ANY diagonal: wu = bu and bd = bu ---------- *)
Section Cb.
Variable cbrt : Q -> Q.

Theorem cc_wu_bin_eq_bu_anydiag n A i : cbrt_ok cbrt n A -> binary n A -> symmetric n A -> (i < n)%nat ->
  cc_wu cbrt n A i == cc_bu n A i.
Proof.
  intros Hc Hb Hs Hi. rewrite (cc_bu_triples n A i Hb Hs Hi), cc_wu_unfold.
  assert (E3 := diag3_ext n (mmap cbrt A) A i (cbrt_binary_ext cbrt n A Hc Hb) Hi).
  rewrite (Qeq_bool_ext _ _ E3).
  destruct (Qle_bool 2 (kdeg n A i)) eqn:E.
  - destruct (Qeq_bool (diag3 n A i) 0) eqn:E0.
    + apply Qeq_bool_iff in E0. rewrite E0. unfold Qdiv. ring.
    + rewrite E3. reflexivity.
  - destruct (Qeq_bool (diag3 n A i) 0); [reflexivity|]. apply div_zero. apply kdeg_lt2_kk1.
    destruct (Qlt_le_dec (kdeg n A i) 2) as [L|L]; [exact L|]. apply Qle_bool_iff in L. congruence.
Qed.
End Cb.

Theorem cc_bd_sym_eq_bu_anydiag n A i : binary n A -> symmetric n A -> (i < n)%nat -> cc_bd n A i == cc_bu n A i.
Proof.
  intros Hb Hs Hi. rewrite (cc_bu_triples n A i Hb Hs Hi), cc_bd_fagiolo. unfold def_cc_bd, def_cc_dir.
  rewrite (Qeq_bool_ext _ _ (tri_dir_sym n A i Hs Hi)), Qeq_bool_scale4.
  assert (Ep : poss_dir n A i == 4 * (kdeg n A i * (kdeg n A i - 1))).
  { rewrite <- (poss_dir_ext n (mmap nzQ A) A i (mmap_nz_binary n A Hb) Hi). apply poss_dir_sym; assumption. }
  destruct (Qle_bool 2 (kdeg n A i)) eqn:E.
  - destruct (Qeq_bool (diag3 n A i) 0) eqn:E0.
    + apply Qeq_bool_iff in E0. rewrite E0. unfold Qdiv. ring.
    + rewrite (tri_dir_sym n A i Hs Hi), Ep. apply div_scale4.
  - destruct (Qeq_bool (diag3 n A i) 0); [reflexivity|]. apply div_zero. rewrite Ep.
    rewrite kdeg_lt2_kk1; [ring|].
    destruct (Qlt_le_dec (kdeg n A i) 2) as [L|L]; [exact L|]. apply Qle_bool_iff in L. congruence.
Qed.

(* ---------- the four pairs on the statement-level routines: finite on both sides and equal ---------- *)
Lemma o_total_eq a b x y : (exists q, a = Some q /\ q == x) -> (exists q, b = Some q /\ q == y) -> x == y -> oeq a b.
Proof. intros (p & -> & Hp) (q & -> & Hq) H. cbn [oeq]. rewrite Hp, Hq. exact H. Qed.

Theorem cc_o_pairs :
  (forall cbrt n A i, cbrt_ok cbrt n A -> binary n A -> (i < n)%nat -> oeq (cc_wd_o cbrt n A i) (cc_bd_o n A i)) /\
  (forall cbrt n W i, cbrt_ok cbrt n W -> symmetric n W -> (i < n)%nat -> oeq (cc_wd_o cbrt n W i) (cc_wu_o cbrt n W i)) /\
  (forall cbrt n A i, cbrt_ok cbrt n A -> binary n A -> symmetric n A -> (i < n)%nat ->
     oeq (cc_wu_o cbrt n A i) (Some (cc_bu n A i))) /\
  (forall n A i, binary n A -> symmetric n A -> (i < n)%nat -> oeq (cc_bd_o n A i) (Some (cc_bu n A i))).
Proof.
  split; [|split; [|split]].
  - intros cbrt n A i Hc Hb Hi. apply (o_total_eq _ _ _ _ (cc_wd_o_total cbrt n A i) (cc_bd_o_total n A i)).
    apply cc_wd_bin_eq_bd; assumption.
  - intros cbrt n W i Hc Hs Hi. apply (o_total_eq _ _ _ _ (cc_wd_o_total cbrt n W i) (cc_wu_o_total cbrt n W i)).
    apply cc_wd_sym_eq_wu; assumption.
  - intros cbrt n A i Hc Hb Hs Hi. destruct (cc_wu_o_total cbrt n A i) as (q & -> & Hq). cbn [oeq]. rewrite Hq.
    apply cc_wu_bin_eq_bu_anydiag; assumption.
  - intros n A i Hb Hs Hi. destruct (cc_bd_o_total n A i) as (q & -> & Hq). cbn [oeq]. rewrite Hq.
    apply cc_bd_sym_eq_bu_anydiag; assumption.
Qed.

(* ---------- the former counterexample: a pendant node hanging on a node with a self-connection ---------- *)
Definition loop_pendant : mat Q := of_rows 0 [[1; 1]; [1; 0]]%list.

Lemma loop_pendant_ok : binary 2 loop_pendant /\ symmetric 2 loop_pendant.
Proof.
  split; intros a b Ha Hb;
    (destruct a as [|[|a]]; [| |exfalso; lia]); (destruct b as [|[|b]]; [| |exfalso; lia]); vm_compute; tauto.
Qed.

(* node 0 (self-connection + one neighbour) gets 3/2 from all four routines; node 1 (one neighbour, which carries a
   self-connection: cyc3 = 1 over K(K-1) = 0) gets 0 from all four — inf from wu / bd / wd before 366dab6 *)
Example selfloop_values :
  map (fun i => qopt (cc_wu_o cbrt_exact 2 loop_pendant i)) [0; 1]%nat = [Some (3 # 2); Some 0]%list /\
  map (fun i => qopt (cc_bd_o 2 loop_pendant i)) [0; 1]%nat = [Some (3 # 2); Some 0]%list /\
  map (fun i => qopt (cc_wd_o cbrt_exact 2 loop_pendant i)) [0; 1]%nat = [Some (3 # 2); Some 0]%list /\
  map (fun i => Qred (cc_bu 2 loop_pendant i)) [0; 1]%nat = [3 # 2; 0]%list.
Proof. vm_compute. repeat split. Qed.
