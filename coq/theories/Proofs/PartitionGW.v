(* Proofs/PartitionGW.v — gateway_coef_sign AS REPAIRED by proposed_fixes/gateway_coef_sign.diff
   (Model/PartitionDG.v: gateway_coef_sign_repaired) is a function of the partition only.
   The sums over the modules are turned into node sums with module_sum_nodes; the running maximum of the module
   centralities is characterised (gw_maxc_spec) as the least upper bound of 0 and the module centralities. *)
From Coq Require Import QArith Qring Qfield Lia Lqa Arith List Bool ZArith.
From BCT Require Import Base.Mat Base.SumQ Base.ListX Model.Partition Model.PartitionDG Proofs.Partition Proofs.PartitionDG.
Import ListNotations.
Open Scope Q_scope.

Lemma same_part_sym {A B} n (c : vec A) (c' : vec B) : same_part n c c' -> same_part n c' c.
Proof. intros H i j Hi Hj. symmetry. apply H; assumption. Qed.

(* ---------- max_centrality ---------- *)
Definition gw_cen (n : nat) (s : vec Q) (c : vec nat) (u : nat) : Q := sumQ (fun v => ind (Nat.eqb (c v) u) * s v) n.

Lemma gw_maxc_step n s c K :
  gw_maxc n s c (S K) =
  (if negb (Qle_bool (gw_cen n s c (S K)) (gw_maxc n s c K)) then gw_cen n s c (S K) else gw_maxc n s c K).
Proof. unfold gw_maxc. rewrite seq_S, fold_left_app. cbn [fold_left Nat.add]. reflexivity. Qed.

Lemma gw_maxc_spec n s c K :
  (0 <= gw_maxc n s c K /\ forall u, (1 <= u <= K)%nat -> gw_cen n s c u <= gw_maxc n s c K) /\
  (gw_maxc n s c K == 0 \/ exists u, (1 <= u <= K)%nat /\ gw_maxc n s c K == gw_cen n s c u).
Proof.
  induction K as [|K IH].
  - unfold gw_maxc. cbn [seq fold_left]. split; [split; [lra|intros u Hu; lia]|left; reflexivity].
  - rewrite gw_maxc_step. destruct IH as [[I0 Iub] Iat].
    destruct (Qle_bool (gw_cen n s c (S K)) (gw_maxc n s c K)) eqn:E; cbn [negb].
    + apply Qle_bool_iff in E. split; [split; [exact I0|]|].
      * intros u Hu. destruct (Nat.eq_dec u (S K)) as [->|Hne]; [exact E|apply Iub; lia].
      * destruct Iat as [Z|[u [Hu Eu]]]; [left; exact Z|right; exists u; split; [lia|exact Eu]].
    + assert (Hlt : gw_maxc n s c K < gw_cen n s c (S K)).
      { apply Qnot_le_lt. intros Hle. apply Qle_bool_iff in Hle. congruence. }
      split; [split; [lra|]|].
      * intros u Hu. destruct (Nat.eq_dec u (S K)) as [->|Hne]; [lra|]. specialize (Iub u ltac:(lia)). lra.
      * right. exists (S K). split; [lia|reflexivity].
Qed.

Lemma gw_cen_same n s c c' j : same_part n c c' -> (j < n)%nat -> gw_cen n s c (c j) == gw_cen n s c' (c' j).
Proof.
  intros H Hj. unfold gw_cen. apply sumQ_ext. intros v Hv. rewrite (same_part_eqb n c c' H v j Hv Hj). reflexivity.
Qed.

Lemma gw_maxc_le n s c c' : onto n c -> canon n c' -> same_part n c c' ->
  gw_maxc n s c (vmax n c) <= gw_maxc n s c' (vmax n c').
Proof.
  intros Ho Hc' H.
  destruct (gw_maxc_spec n s c (vmax n c)) as [_ [Z|[u [Hu Eu]]]].
  - rewrite Z. apply (gw_maxc_spec n s c' (vmax n c')).
  - destruct (Ho u Hu) as [j [Hj Ej]]. rewrite Eu, <- Ej, (gw_cen_same n s c c' j H Hj).
    apply (gw_maxc_spec n s c' (vmax n c')). apply Hc'. exact Hj.
Qed.

Lemma gw_maxc_same n s c c' : canon n c -> onto n c -> canon n c' -> onto n c' -> same_part n c c' ->
  gw_maxc n s c (vmax n c) == gw_maxc n s c' (vmax n c').
Proof.
  intros Hc Ho Hc' Ho' H. apply Qle_antisym.
  - apply gw_maxc_le; assumption.
  - apply gw_maxc_le; try assumption. apply same_part_sym. exact H.
Qed.

(* ---------- the per-module quantities at the module of a node ---------- *)
Lemma gw_ks_same n W c c' i j : same_part n c c' -> (j < n)%nat -> gw_ks n W c i (c j) == gw_ks n W c' i (c' j).
Proof.
  intros H Hj. unfold gw_ks. apply sumQ_ext. intros l Hl. destruct (qnzb (W i l)) eqn:E.
  - rewrite (same_part_eqb n c c' H l j Hl Hj). reflexivity.
  - rewrite (qnzb_false _ E). ring.
Qed.

Lemma gw_cnt_same n c c' v : same_part n c c' -> (v < n)%nat -> gw_cnt n c (c v) = gw_cnt n c' (c' v).
Proof.
  intros H Hv. unfold gw_cnt. f_equal. apply filter_ext_in. intros a Ha. apply in_seq in Ha.
  apply (same_part_eqb n c c' H a v); lia.
Qed.

Lemma gwr_kjs_same n W c c' i j : same_part n c c' -> (i < n)%nat -> (j < n)%nat ->
  gwr_kjs n W c i (c j) == gwr_kjs n W c' i (c' j).
Proof.
  intros H Hi Hj. unfold gwr_kjs. rewrite (gw_cnt_same n c c' i H Hi).
  destruct (Nat.ltb 1 (gw_cnt n c' (c' i))); [|reflexivity]. cbv zeta.
  assert (E : sumQ (fun v' => ind (Nat.eqb (c v') (c i)) * gw_ks n W c v' (c j)) n ==
              sumQ (fun v' => ind (Nat.eqb (c' v') (c' i)) * gw_ks n W c' v' (c' j)) n).
  { apply sumQ_ext. intros v Hv. rewrite (same_part_eqb n c c' H v i Hv Hi), (gw_ks_same n W c c' v j H Hj). reflexivity. }
  rewrite (same_part_eqb n c c' H i j Hi Hj). destruct (Nat.eqb (c' i) (c' j)); rewrite E; reflexivity.
Qed.

Lemma gwr_cs_same n W c c' i j : same_part n c c' -> (j < n)%nat -> gwr_cs n W c i (c j) == gwr_cs n W c' i (c' j).
Proof.
  intros H Hj. unfold gwr_cs. destruct (qpos (gw_s n W i)); [|reflexivity].
  apply sumQ_ext. intros v Hv. rewrite (same_part_eqb n c c' H v j Hv Hj). reflexivity.
Qed.

(* one summand of Gw *)
Definition gw_term (ks kjs cs maxc s : Q) : Q :=
  let ksm := if Qeq_bool kjs 0 then 0 else ks / kjs in
  let centm := cs / maxc in
  (ks * ks) / (s * s) * ((1 - ksm * centm) * (1 - ksm * centm)).

Lemma gw_term_comp ks ks' kjs kjs' cs cs' mx mx' s : ks == ks' -> kjs == kjs' -> cs == cs' -> mx == mx' ->
  gw_term ks kjs cs mx s == gw_term ks' kjs' cs' mx' s.
Proof.
  intros E1 E2 E3 E4. unfold gw_term. cbv zeta. rewrite (Qeq_bool_comp' kjs kjs' E2).
  destruct (Qeq_bool kjs' 0); rewrite ?E1, ?E2, ?E3, ?E4; reflexivity.
Qed.

Lemma gcoef_repaired_unfold n W c K i :
  gcoef_repaired n W c K i =
  if Qeq_bool (gw_s n W i) 0 then 0 else
  1 - sumM K (fun u => gw_term (gw_ks n W c i u) (gwr_kjs n W c i u) (gwr_cs n W c i u) (gw_maxc n (gw_s n W) c K) (gw_s n W i)).
Proof. reflexivity. Qed.

Lemma gcoef_repaired_same n W c c' i : canon n c -> onto n c -> canon n c' -> onto n c' -> same_part n c c' ->
  (i < n)%nat -> gcoef_repaired n W c (vmax n c) i == gcoef_repaired n W c' (vmax n c') i.
Proof.
  intros Hc Ho Hc' Ho' H Hi. rewrite !gcoef_repaired_unfold.
  destruct (Qeq_bool (gw_s n W i) 0); [reflexivity|].
  apply Qplus_comp; [reflexivity|]. apply Qopp_comp.
  rewrite (module_sum_nodes n c _ Hc Ho), (module_sum_nodes n c' _ Hc' Ho').
  apply sumQ_ext. intros j Hj. rewrite (bsize_same n c c' j H Hj).
  apply Qmult_comp; [|reflexivity]. apply gw_term_comp.
  - apply gw_ks_same; assumption.
  - apply gwr_kjs_same; assumption.
  - apply gwr_cs_same; assumption.
  - apply gw_maxc_same; assumption.
Qed.

Theorem gateway_coef_sign_repaired_partition_only n W ci ci' i : same_part n ci ci' -> (i < n)%nat ->
  fst (gateway_coef_sign_repaired n W ci) i == fst (gateway_coef_sign_repaired n W ci') i /\
  snd (gateway_coef_sign_repaired n W ci) i == snd (gateway_coef_sign_repaired n W ci') i.
Proof.
  intros H Hi. unfold gateway_coef_sign_repaired. cbn [fst snd].
  split; apply gcoef_repaired_same; try apply relabel_canon; try (intros u Hu; apply relabel_onto; exact Hu);
    try exact Hi; apply same_part_relabel; exact H.
Qed.

(* on the witness that refutes the current code the repaired form gives the same coefficients for both numberings *)
Example gateway_repaired_on_witness :
  run_gw_repaired [[0; 1; 0]; [1; 0; 0]; [0; 0; 0]]%list [1; 1; 2]%Z = ([3 # 4; 3 # 4; 0], [0; 0; 0])%list /\
  run_gw_repaired [[0; 1; 0]; [1; 0; 0]; [0; 0; 0]]%list [2; 2; 1]%Z = ([3 # 4; 3 # 4; 0], [0; 0; 0])%list.
Proof. split; vm_compute; reflexivity. Qed.
