(* Proofs/GeneratorsLive.v — maketoeplitzCIJ: a returning run EXISTS for every K between the number of template cells
   that are >= 1 (always connected, because samples are < 1) and the number of positive template cells:
   an explicit sample with values in [0,1) on which the rejection loop accepts at its first pass.
   (No probability statement: the theorems about the code are for every stream; this one shows that the hypothesis
   `... = TDone R itr` of C20_toeplitz_profile_exact_K is satisfiable for every such K, not only in the Examples.) *)
From Coq Require Import ZArith QArith List Arith Bool Lia Lqa Permutation.
From BCT Require Import Base.Mat Base.ListX Model.Generators Model.GeneratorsExt
  Proofs.GeneratorsBase Proofs.Generators Proofs.GeneratorsProfile.
Import ListNotations.
Open Scope Z_scope.

Definition tq (T : mat Q) (c : cell) : Q := T (fst c) (snd c).
Definition is_mid (x : Q) : bool := (qlt 0 x && qlt x 1)%bool.
(* cells every sample connects / cells a sample may or may not connect *)
Definition forced (n : nat) (T : mat Q) : list cell := filter (fun c => Qle_bool 1 (tq T c)) (cells n).
Definition midc (n : nat) (T : mat Q) : list cell := filter (fun c => is_mid (tq T c)) (cells n).

Section Live.
Variables (n : nat) (T : mat Q) (k : nat).
Hypothesis Hlo : (length (forced n T) <= k)%nat.
Hypothesis Hhi : (k <= length (forced n T) + length (midc n T))%nat.

Definition chosen : list cell := forced n T ++ firstn (k - length (forced n T)) (midc n T).
Definition witness : mat Q :=
  fun i j => if cmem (i, j) chosen then 0%Q else if is_mid (T i j) then T i j else 0%Q.

Lemma is_mid_spec x : is_mid x = true <-> (0 < x /\ x < 1)%Q.
Proof. unfold is_mid. rewrite andb_true_iff, !qlt_spec. tauto. Qed.

Lemma witness_range i j : (0 <= witness i j /\ witness i j < 1)%Q.
Proof.
  unfold witness. destruct (cmem (i, j) chosen); [split; lra|].
  destruct (is_mid (T i j)) eqn:E; [|split; lra]. apply is_mid_spec in E. split; lra.
Qed.

Lemma chosen_pos c : In c chosen -> (0 < tq T c)%Q.
Proof.
  unfold chosen. rewrite in_app_iff. intros [H|H].
  - apply filter_In in H. destruct H as [_ H]. apply Qle_bool_iff in H. lra.
  - apply incl_firstn in H. apply filter_In in H. destruct H as [_ H]. apply is_mid_spec in H. lra.
Qed.

Lemma chosen_NoDup : NoDup chosen.
Proof.
  unfold chosen. apply NoDup_app_intro.
  - apply filter_cells_NoDup.
  - apply NoDup_firstn. apply filter_cells_NoDup.
  - intros c H1 H2. apply filter_In in H1. destruct H1 as [_ H1]. apply Qle_bool_iff in H1.
    apply incl_firstn in H2. apply filter_In in H2. destruct H2 as [_ H2]. apply is_mid_spec in H2. lra.
Qed.

Lemma chosen_grid : in_grid n chosen.
Proof.
  intros c. unfold chosen. rewrite in_app_iff. intros [H|H].
  - apply (filter_cells_grid _ n c H).
  - apply incl_firstn in H. apply (filter_cells_grid _ n c H).
Qed.

Lemma chosen_length : length chosen = k.
Proof. unfold chosen. rewrite app_length, firstn_length. lia. Qed.

Lemma witness_sample i j : (i < n)%nat -> (j < n)%nat ->
  sample_lt n witness T i j = b2z (cmem (i, j) chosen).
Proof.
  intros Hi Hj. rewrite sample_lt_spec by assumption. unfold witness.
  destruct (cmem (i, j) chosen) eqn:E.
  - apply cmem_In in E. apply chosen_pos in E. unfold tq in E. cbn [fst snd] in E.
    apply qlt_spec in E. rewrite E. reflexivity.
  - cbn [b2z]. destruct (is_mid (T i j)) eqn:M.
    + destruct (qlt (T i j) (T i j)) eqn:L; [|reflexivity]. apply qlt_spec in L. lra.
    + destruct (qlt 0 (T i j)) eqn:L; [|reflexivity]. exfalso.
      apply cmem_false in E. apply E. unfold chosen. apply in_app_iff. left.
      apply filter_cells_In. split; [exact Hi|]. split; [exact Hj|]. unfold tq. cbn [fst snd].
      apply Qle_bool_iff. apply qlt_spec in L.
      destruct (Qlt_le_dec (T i j) 1) as [Hlt|Hge]; [|exact Hge].
      exfalso. assert (is_mid (T i j) = true) by (apply is_mid_spec; split; assumption). congruence.
Qed.

Lemma witness_count : sum2 (sample_lt n witness T) n = Z.of_nat k.
Proof.
  rewrite (sum2_ext _ (fun i j => b2z (cmem (i, j) chosen)) n) by (intros; apply witness_sample; assumption).
  rewrite (sum2_cmem chosen n chosen_NoDup chosen_grid). rewrite chosen_length. reflexivity.
Qed.
End Live.

(* for ANY template: if K lies between the number of cells that are >= 1 and the number of positive cells
   there is a sample in [0,1) that the loop accepts at once; in particular the run returns *)
Theorem toeplitz_feasible_stream n k T :
  (length (forced n T) <= k <= length (forced n T) + length (midc n T))%nat ->
  exists X R, (forall i j, (0 <= X i j /\ X i j < 1)%Q) /\
    toeplitz n k T [X] = Some R /\ sum2 R n = Z.of_nat k.
Proof.
  intros [Hlo Hhi]. exists (witness n T k).
  pose proof (witness_count n T k Hlo Hhi) as Hc.
  unfold toeplitz. cbn [toeplitz_loop].
  destruct (Z.eqb_spec (sum2 zeros n) (Z.of_nat k)) as [E|E].
  - exists zeros. split; [apply witness_range|]. split; [reflexivity|exact E].
  - exists (sample_lt n (witness n T k) T). split; [apply witness_range|].
    change (10000 <? 0 + 1) with false. cbn iota. rewrite Hc, Z.eqb_refl. split; reflexivity.
Qed.

(* the same for the routine with its profile: the premise of C20_toeplitz_profile_exact_K is satisfiable *)
Theorem maketoeplitz_feasible_stream n k pf q :
  let T := toep_template pf q in
  (length (forced n T) <= k <= length (forced n T) + length (midc n T))%nat ->
  exists X R itr, (forall i j, (0 <= X i j /\ X i j < 1)%Q) /\
    maketoeplitz n (Z.of_nat k) pf q [X] = TDone R itr /\ sum2 R n = Z.of_nat k.
Proof.
  intros T H. destruct (toeplitz_feasible_stream n k T H) as (X & R & HX & Hrun & Hs).
  exists X, R. unfold toeplitz in Hrun. rewrite toeplitz_cnt_loop in Hrun. unfold maketoeplitz. fold T.
  destruct (toeplitz_cnt n (Z.of_nat k) T zeros 0 [X]) as [R' itr| |]; try discriminate.
  exists itr. inversion Hrun; subst. split; [exact HX|]. split; [reflexivity|exact Hs].
Qed.
