(* Proofs/ReduceEfficiencyLocal.v — C10: on a 0/1 matrix efficiency_wei(local=True) returns what
   efficiency_bin(local=True) returns (models: Model/EfficiencyLocal.v).  The neighbourhood lists are
   equal, the inverse-distance matrices of the neighbourhood subgraph agree by the distance reduction of
   Proofs/ReduceDistance.v, cuberoot is the identity on 0 and 1, the tail of the loop body is the same text. *)
From Coq Require Import QArith List Arith Bool ZArith Lia Lqa.
From BCT Require Import Base.Mat Base.SumQ Base.ListX Model.Threshold Model.Distance Model.Clustering Model.EfficiencyLocal
  Proofs.ClusteringSpec Proofs.Clustering Proofs.DistanceBase Proofs.DistanceBin Proofs.DistanceOther Proofs.ReduceDistance.
Import ListNotations.
Open Scope Q_scope.

Lemma Qeq_bool_comp a b : a == b -> Qeq_bool a 0 = Qeq_bool b 0.
Proof.
  intros H. destruct (Qeq_bool a 0) eqn:Ea, (Qeq_bool b 0) eqn:Eb; try reflexivity.
  - apply Qeq_bool_iff in Ea. apply Qeq_bool_neq in Eb. exfalso. apply Eb. rewrite <- H. exact Ea.
  - apply Qeq_bool_iff in Eb. apply Qeq_bool_neq in Ea. exfalso. apply Ea. rewrite H. exact Eb.
Qed.

(* the tail of the loop body only looks at the entries below k, up to == *)
Lemma eloc_tail_ext k s s' sa sa' e e' :
  (forall a, (a < k)%nat -> s a == s' a) -> (forall a, (a < k)%nat -> sa a == sa' a) ->
  (forall a b, (a < k)%nat -> (b < k)%nat -> e a b == e' a b) ->
  eloc_tail k s sa e == eloc_tail k s' sa' e'.
Proof.
  intros Hs Hsa He. unfold eloc_tail. cbv zeta.
  assert (En : sum2Q (fun a b => s a * s b * (e a b + e b a)) k / 2 == sum2Q (fun a b => s' a * s' b * (e' a b + e' b a)) k / 2).
  { apply Qmult_comp; [|reflexivity]. apply sum2Q_ext. intros a b Ha Hb.
    rewrite (Hs a Ha), (Hs b Hb), (He a b Ha Hb), (He b a Hb Ha). reflexivity. }
  rewrite (Qeq_bool_comp _ _ En). destruct (Qeq_bool _ 0); [reflexivity|].
  assert (E1 : sumQ sa k == sumQ sa' k) by (apply sumQ_ext; exact Hsa).
  assert (E2 : sumQ (fun a => sa a * sa a) k == sumQ (fun a => sa' a * sa' a) k).
  { apply sumQ_ext. intros a Ha. rewrite (Hsa a Ha). reflexivity. }
  rewrite En, E1, E2. reflexivity.
Qed.

Lemma nbr_lt n (p : nat -> bool) a : (a < length (filter p (seq 0 n)))%nat -> (nth a (filter p (seq 0 n)) 0 < n)%nat.
Proof.
  intros Ha. pose proof (nth_In _ 0%nat Ha) as Hin. apply filter_In in Hin. destruct Hin as [Hin _].
  apply in_seq in Hin. lia.
Qed.

Lemma bin_rel01 n A W i j : rel01 n A W -> (i < n)%nat -> (j < n)%nat -> bin A i j = A i j.
Proof. intros H Hi Hj. unfold bin. destruct (H i j Hi Hj) as [[E _]|[E _]]; rewrite E; reflexivity. Qed.

Section Local.
Variable cbrt : Q -> Q.
Variable n : nat.
Variable A : mat Z.
Variable W : mat Q.
Hypothesis Hrel : rel01 n A W.
Hypothesis Hc : cbrt_ok cbrt n W.
Hypothesis Hci : cbrt_ok cbrt n (invertQ W).

Let G := tab 0%Z n n (bin A).

Lemma G_A i j : (i < n)%nat -> (j < n)%nat -> G i j = A i j.
Proof. intros Hi Hj. unfold G. rewrite tab_spec by assumption. apply (bin_rel01 n A W); assumption. Qed.

Lemma W_of_A i j : (i < n)%nat -> (j < n)%nat -> W i j == inject_Z (A i j) /\ (W i j == 0 \/ W i j == 1).
Proof.
  intros Hi Hj. destruct (Hrel i j Hi Hj) as [[-> E]|[-> E]]; rewrite E; (split; [reflexivity|]); [left|right]; reflexivity.
Qed.

Lemma nbrs_same u : (u < n)%nat ->
  filter (fun v => qnzb (W u v) || qnzb (W v u))%bool (seq 0 n) = filter (fun v => znz (G u v) || znz (G v u))%bool (seq 0 n).
Proof.
  intros Hu. apply filter_ext_in. intros v Hv. apply in_seq in Hv. assert (Hv' : (v < n)%nat) by lia.
  assert (E : forall i j, (i < n)%nat -> (j < n)%nat -> qnzb (W i j) = znz (G i j)).
  { intros i j Hi Hj. rewrite (G_A i j Hi Hj). unfold qnzb, znz.
    destruct (Hrel i j Hi Hj) as [[-> E]|[-> E]]; cbn [Z.eqb negb].
    - assert (Qeq_bool (W i j) 0 = true) as -> by (apply Qeq_bool_iff; exact E). reflexivity.
    - destruct (Qeq_bool (W i j) 0) eqn:Eb; [|reflexivity]. apply Qeq_bool_iff in Eb. lra. }
  rewrite (E u v Hu Hv'), (E v u Hv' Hu). reflexivity.
Qed.

Theorem eloc_wei_bin_eq_bin u x y : (u < n)%nat ->
  eloc_wei_node cbrt n W u = Some x -> eloc_bin_node n G u = Some y -> x == y.
Proof.
  intros Hu. unfold eloc_wei_node, eloc_bin_node. cbv zeta. rewrite (nbrs_same u Hu).
  set (V := filter (fun v => znz (G u v) || znz (G v u))%bool (seq 0 n)).
  set (k := length V).
  assert (HV : forall a, (a < k)%nat -> (nth a V 0 < n)%nat) by (intros a Ha; apply nbr_lt; exact Ha).
  set (cGl := tab 0 n n (mmap cbrt (invertQ W))).
  assert (Hsub : rel01 k (subm V G) (subm V cGl)).
  { intros a b Ha Hb. unfold subm. pose proof (HV a Ha) as Hi. pose proof (HV b Hb) as Hj.
    rewrite (G_A _ _ Hi Hj). unfold cGl. rewrite tab_spec by assumption. unfold mmap.
    pose proof (rel01_invert n A W Hrel _ _ Hi Hj) as R.
    assert (Eb : invertQ W (nth a V 0%nat) (nth b V 0%nat) == 0 \/ invertQ W (nth a V 0%nat) (nth b V 0%nat) == 1)
      by (destruct R as [[_ R]|[_ R]]; auto).
    rewrite (cra_binary cbrt _ (Hci _ _ Hi Hj) Eb). exact R. }
  destruct (distance_wei k (subm V cGl)) as [[D B]|] eqn:Ew; [|discriminate].
  destruct (distance_bin k (subm V G)) as [D'|] eqn:Eb; [|discriminate].
  intros H1 H2. injection H1 as <-. injection H2 as <-.
  apply eloc_tail_ext.
  - intros a Ha. rewrite !tabv_spec by exact Ha. pose proof (HV a Ha) as Hv.
    rewrite (G_A u _ Hu Hv), (G_A _ u Hv Hu).
    destruct (W_of_A u _ Hu Hv) as [E1 B1]. destruct (W_of_A _ u Hv Hu) as [E2 B2].
    rewrite (cra_binary cbrt _ (Hc _ _ Hu Hv) B1), (cra_binary cbrt _ (Hc _ _ Hv Hu) B2), E1, E2. reflexivity.
  - intros a Ha. rewrite !tabv_spec by exact Ha. pose proof (HV a Ha) as Hv.
    rewrite (G_A u _ Hu Hv), (G_A _ u Hv Hu).
    assert (Enz : forall i j, (i < n)%nat -> (j < n)%nat -> nzQ (W i j) == inject_Z (A i j)).
    { intros i j Hi Hj. unfold nzQ. destruct (Hrel i j Hi Hj) as [[-> E]|[-> E]].
      - assert (Qeq_bool (W i j) 0 = true) as -> by (apply Qeq_bool_iff; exact E). reflexivity.
      - destruct (Qeq_bool (W i j) 0) eqn:Ez; [|reflexivity]. apply Qeq_bool_iff in Ez. lra. }
    rewrite (Enz u _ Hu Hv), (Enz _ u Hv Hu). reflexivity.
  - intros a b Ha Hb. unfold einv. rewrite !tab_spec by assumption.
    destruct (Nat.eqb a b); [reflexivity|]. apply oinv_oeq.
    exact (proj1 (distance_wei_bin_eq_bin k (subm V G) (subm V cGl) D B D' Hsub Ew Eb a b Ha Hb)).
Qed.
End Local.

(* the whole routines: the returned vectors have the same length n and equal entries *)
Theorem efficiency_local_wei_bin_eq_bin cbrt n A W lw lb :
  rel01 n A W -> cbrt_ok cbrt n W -> cbrt_ok cbrt n (invertQ W) ->
  efficiency_wei_local cbrt n W = Some lw -> efficiency_bin_local n A = Some lb ->
  forall u, (u < n)%nat -> nth u lw 0 == nth u lb 0.
Proof.
  intros Hrel Hc Hci Hw Hb u Hu. unfold efficiency_wei_local in Hw. unfold efficiency_bin_local in Hb. cbv zeta in Hb.
  pose proof (all_some_nth _ n lw 0 Hw u Hu) as E1. pose proof (all_some_nth _ n lb 0 Hb u Hu) as E2.
  exact (eloc_wei_bin_eq_bin cbrt n A W Hrel Hc Hci u _ _ Hu E1 E2).
Qed.

(* the executable model's own cube root meets both hypotheses on every 0/1 matrix *)
Lemma rel01_binary n A W : rel01 n A W -> binary n W /\ binary n (invertQ W).
Proof.
  intros H. split; intros i j Hi Hj.
  - destruct (H i j Hi Hj) as [[_ E]|[_ E]]; auto.
  - destruct (rel01_invert n A W H i j Hi Hj) as [[_ E]|[_ E]]; auto.
Qed.
