(* Proofs/NullModel.v — the dealing phase of null_model_dir_sign / null_model_und_sign and the
   top-level invariant of the whole routine (Model/NullModel.v) *)
From Coq Require Import ZArith QArith List Arith Lia Bool Permutation.
From BCT Require Import Base.Mat Base.ListX Model.Signed Model.NullModel Proofs.Signed Proofs.NullModelLists.
Import ListNotations.
Open Scope Z_scope.

Definition ingrid (n : nat) (c : cell) : Prop := (fst c < n /\ snd c < n)%nat.

Lemma at_tab n M c : ingrid n c -> at_ (tab 0 n n M) c = at_ M c.
Proof. intros [H1 H2]. unfold at_. apply tab_spec; assumption. Qed.

(* ---------- the invariant of the dealing loop ----------
   A = the (cell, value) pairs dealt so far; cells still free L and dealt cells partition L0,
   weights still in hand V (times s) and dealt values partition Vs0. *)
Definition dinv (n : nat) (s : Z) (L0 : list cell) (Vs0 : list Z) (W00 : mat Z)
  (L : list cell) (V : list Z) (W0 : mat Z) : Prop :=
  exists A : list (cell * Z),
    Permutation (map fst A ++ L) L0 /\
    Permutation (map snd A ++ map (Z.mul s) V) Vs0 /\
    (forall p, In p A -> at_ W0 (fst p) = snd p) /\
    (forall c, ingrid n c -> ~ In c (map fst A) -> at_ W0 c = at_ W00 c) /\
    length L = length V.

Lemma dinv_init n s L0 V0 W00 : length L0 = length V0 ->
  dinv n s L0 (map (Z.mul s) V0) W00 L0 V0 W00.
Proof.
  intros H. exists []. cbn [map app]. repeat split; auto. intros p [].
Qed.

Lemma dinv_period n s L0 Vs0 W00 L V W0 Oi R :
  NoDup L0 -> (forall c, In c L0 -> ingrid n c) ->
  dinv n s L0 Vs0 W00 L V W0 ->
  check_perm (length L) Oi = true -> NoDup R -> (forall r, In r R -> (r < length L)%nat) ->
  dinv n s L0 Vs0 W00 (delete_at (0, 0)%nat (map (fun r => nth r Oi 0%nat) R) L) (delete_at 0 R V)
       (tab 0 n n (assign_all (period_pairs s L V Oi R) W0)) /\
  (length (delete_at (0, 0)%nat (map (fun r => nth r Oi 0%nat) R) L) + length R = length L)%nat.
Proof.
  intros HndL0 HgridL0 (A & PA & PV & HA & Hout & Hlen) Hc HndR HltR.
  destruct (check_perm_spec _ _ Hc) as (HOlen & HOlt & HOnd).
  set (idxL := map (fun r => nth r Oi 0%nat) R).
  assert (HndI : NoDup idxL).
  { apply NoDup_map_nth; auto. intros r Hr. rewrite HOlen. apply HltR. exact Hr. }
  assert (HltI : forall i, In i idxL -> (i < length L)%nat).
  { intros i Hi. apply in_map_iff in Hi. destruct Hi as [r [<- Hr]]. apply HOlt.
    apply nth_In. rewrite HOlen. apply HltR. exact Hr. }
  assert (HltV : forall r, In r R -> (r < length V)%nat) by (intros r Hr; rewrite <- Hlen; auto).
  pose proof (delete_perm (0, 0)%nat idxL L HndI HltI) as PL.
  pose proof (delete_perm 0 R V HndR HltV) as PV'.
  pose proof (delete_length (0, 0)%nat idxL L HndI HltI) as LL.
  pose proof (delete_length 0 R V HndR HltV) as LV.
  set (pairs := period_pairs s L V Oi R).
  assert (Efst : map fst pairs = map (fun k => nth k L (0, 0)%nat) idxL).
  { unfold pairs, period_pairs, idxL. rewrite !map_map. reflexivity. }
  assert (Esnd : map snd pairs = map (Z.mul s) (map (fun r => nth r V 0) R)).
  { unfold pairs, period_pairs. rewrite !map_map. reflexivity. }
  assert (HndAL : NoDup (map fst A ++ L)) by (apply (Permutation_NoDup (Permutation_sym PA)); exact HndL0).
  destruct (NoDup_app_inv _ _ HndAL) as (HndA & HndL & HdisAL).
  assert (HinL0 : forall c, In c L -> In c L0).
  { intros c Hc'. apply (Permutation_in _ PA). apply in_or_app. right; exact Hc'. }
  assert (HinA0 : forall c, In c (map fst A) -> In c L0).
  { intros c Hc'. apply (Permutation_in _ PA). apply in_or_app. left; exact Hc'. }
  assert (HpL : forall c, In c (map fst pairs) -> In c L).
  { intros c Hc'. rewrite Efst in Hc'. apply in_map_iff in Hc'. destruct Hc' as [k [<- Hk]].
    apply nth_In. apply HltI. exact Hk. }
  assert (HndP : NoDup (map fst pairs)).
  { rewrite Efst. assert (H := Permutation_NoDup (Permutation_sym PL) HndL).
    apply NoDup_app_inv in H. tauto. }
  fold idxL. split; [|unfold idxL in *; rewrite map_length in LL; rewrite Nat.add_comm; exact LL].
  exists (A ++ pairs). split; [|split; [|split; [|split]]].
  - rewrite map_app, <- app_assoc. rewrite Efst.
    eapply Permutation_trans; [apply Permutation_app_head; exact PL|exact PA].
  - rewrite map_app, <- app_assoc. rewrite Esnd, <- map_app.
    eapply Permutation_trans; [apply Permutation_app_head; apply Permutation_map; exact PV'|exact PV].
  - intros p Hp. apply in_app_or in Hp. destruct Hp as [Hp|Hp].
    + assert (Hf : In (fst p) (map fst A)) by (apply in_map; exact Hp).
      rewrite at_tab by (apply HgridL0; apply HinA0; exact Hf).
      rewrite assign_all_notin; [apply HA; exact Hp|].
      intros Hin. apply (HdisAL (fst p) Hf). apply HpL. exact Hin.
    + assert (Hf : In (fst p) (map fst pairs)) by (apply in_map; exact Hp).
      rewrite at_tab by (apply HgridL0; apply HinL0; apply HpL; exact Hf).
      apply assign_all_in; [exact HndP|]. destruct p; exact Hp.
  - intros c Hg Hc'. rewrite map_app, in_app_iff in Hc'.
    rewrite at_tab by exact Hg. rewrite assign_all_notin by tauto. apply Hout; tauto.
  - apply (proj1 (Nat.add_cancel_l _ _ (length R))).
    unfold idxL in LL. rewrite map_length in LL.
    eapply eq_trans; [exact LL|]. eapply eq_trans; [exact Hlen|]. symmetry. exact LV.
Qed.

Lemma dinv_final n s L0 Vs0 W00 W' : dinv n s L0 Vs0 W00 [] [] W' ->
  Permutation (map (at_ W') L0) Vs0 /\
  (forall c, ingrid n c -> ~ In c L0 -> at_ W' c = at_ W00 c).
Proof.
  intros (A & PA & PV & HA & Hout & _). cbn [map] in PV. rewrite app_nil_r in PA, PV. split.
  - eapply Permutation_trans; [apply Permutation_map; apply Permutation_sym; exact PA|].
    rewrite map_map. rewrite (map_ext_in _ snd); [exact PV|]. intros p Hp. apply HA. exact Hp.
  - intros c Hg Hc. apply Hout; [exact Hg|]. intros Hin. apply Hc. apply (Permutation_in _ PA). exact Hin.
Qed.

Lemma deal_loop_dinv n fuel : forall period m s L V W0 ords perms W' o' p' L0 Vs0 W00,
  (1 <= period)%nat -> NoDup L0 -> (forall c, In c L0 -> ingrid n c) ->
  dinv n s L0 Vs0 W00 L V W0 -> length L = m ->
  deal_loop n fuel period m s L V W0 ords perms = Some (W', o', p') ->
  dinv n s L0 Vs0 W00 [] [] W'.
Proof.
  induction fuel as [|f IH]; intros period m s L V W0 ords perms W' o' p' L0 Vs0 W00 Hper Hnd Hgrid Hinv Hm;
    cbn [deal_loop]; destruct (Nat.eqb_spec m 0) as [Hm0|Hm0].
  - intros H. injection H as <- _ _. destruct Hinv as (A & PA & PV & HA & Hout & Hlen).
    destruct L; [|cbn [length] in Hm; lia]. destruct V; [|cbn [length] in Hlen; lia].
    exists A. auto.
  - discriminate.
  - intros H. injection H as <- _ _. destruct Hinv as (A & PA & PV & HA & Hout & Hlen).
    destruct L; [|cbn [length] in Hm; lia]. destruct V; [|cbn [length] in Hlen; lia].
    exists A. auto.
  - destruct ords as [|Oi ords']; [discriminate|]. destruct perms as [|P perms']; [discriminate|].
    destruct (check_perm (length L) Oi) eqn:Ec1; [|discriminate].
    destruct (check_perm m P) eqn:Ec2; [|discriminate]. cbn [andb].
    destruct (check_perm_spec _ _ Ec2) as (HPlen & HPlt & HPnd).
    set (R := firstn (Nat.min m period) P).
    assert (HndR : NoDup R) by (apply NoDup_firstn; exact HPnd).
    assert (HltR : forall r, In r R -> (r < length L)%nat).
    { intros r Hr. rewrite Hm. apply HPlt. apply (In_firstn _ _ _ Hr). }
    destruct (dinv_period n s L0 Vs0 W00 L V W0 Oi R Hnd Hgrid Hinv Ec1 HndR HltR) as [Hinv' Hlen'].
    unfold deal_period. cbv beta iota zeta. intros H.
    eapply (IH period (m - period)%nat); eauto.
    assert (length R = Nat.min m period) by (unfold R; rewrite firstn_length, HPlen; lia).
    unfold cell in *. lia.
Qed.

Lemma supp_In und n s M c : In c (supp und n s M) <->
  ingrid n c /\ in_tri und c = true /\ sel s (at_ M c) = true.
Proof.
  unfold supp, univ. rewrite !filter_In. destruct c as [i j]. rewrite cells_In. unfold ingrid; cbn [fst snd]. tauto.
Qed.
Lemma supp_NoDup und n s M : NoDup (supp und n s M).
Proof. unfold supp, univ. apply NoDup_filter. apply NoDup_filter. apply cells_NoDup. Qed.

(* what one pass `for s in (1, -1)` achieves *)
Lemma deal_sign_spec und n per s Wc Wr W0 ords perms W' o' p' :
  (s = 1 \/ s = -1) ->
  length (supp und n s Wr) = length (supp und n s Wc) ->
  deal_sign und n per s Wc Wr W0 ords perms = Some (W', o', p') ->
  Permutation (map (at_ W') (supp und n s Wr)) (map (at_ Wc) (supp und n s Wc)) /\
  (forall c, ingrid n c -> ~ In c (supp und n s Wr) -> at_ W' c = at_ W0 c).
Proof.
  intros Hs Hlen. unfold deal_sign.
  set (V0 := sortZ (map (fun c => s * at_ Wc c) (supp und n s Wc))).
  set (L0 := supp und n s Wr).
  assert (PV0 : Permutation (map (Z.mul s) V0) (map (at_ Wc) (supp und n s Wc))).
  { unfold V0. eapply Permutation_trans; [apply Permutation_map; apply sortZ_perm|].
    rewrite map_map. rewrite (map_ext _ (at_ Wc)); [reflexivity|].
    intros c. destruct Hs as [-> | ->]; lia. }
  assert (HlenV : length L0 = length V0).
  { unfold L0. rewrite Hlen. apply Permutation_length in PV0. rewrite !map_length in PV0. lia. }
  assert (Hnd : NoDup L0) by apply supp_NoDup.
  assert (Hgrid : forall c, In c L0 -> ingrid n c) by (intros c Hc; apply supp_In in Hc; tauto).
  pose proof (dinv_init n s L0 V0 W0 HlenV) as Hinit.
  assert (Hfin : forall W'', dinv n s L0 (map (Z.mul s) V0) W0 [] [] W'' ->
     Permutation (map (at_ W'') L0) (map (at_ Wc) (supp und n s Wc)) /\
     (forall c, ingrid n c -> ~ In c L0 -> at_ W'' c = at_ W0 c)).
  { intros W'' Hd. destruct (dinv_final _ _ _ _ _ _ Hd) as [A B]. split; [|exact B].
    eapply Permutation_trans; [exact A|exact PV0]. }
  destruct (Nat.eqb_spec per 0) as [Hp0|Hp0].
  - destruct ords as [|Oi ords']; [discriminate|].
    destruct (check_perm (length L0) Oi) eqn:Ec1; [|discriminate].
    destruct (Nat.eqb_spec (length L0) (length V0)) as [_|]; [|discriminate]. cbn [andb].
    assert (HndR : NoDup (seq 0 (length V0))) by apply seq_NoDup.
    assert (HltR : forall r, In r (seq 0 (length V0)) -> (r < length L0)%nat).
    { intros r Hr. apply in_seq in Hr. lia. }
    destruct (dinv_period n s L0 _ W0 L0 V0 W0 Oi _ Hnd Hgrid Hinit Ec1 HndR HltR) as [Hinv' Hlen'].
    unfold deal_period. cbv beta iota zeta. intros H. injection H as <- _ _.
    apply Hfin. rewrite seq_length in Hlen'.
    destruct Hinv' as (A & PA & PV & HA & Hout & Hl).
    destruct (delete_at (0, 0)%nat (map (fun r => nth r Oi 0%nat) (seq 0 (length V0))) L0) eqn:EL;
      [|cbn [length] in Hlen'; lia].
    destruct (delete_at 0 (seq 0 (length V0)) V0) eqn:EV; [|cbn [length] in Hl; lia].
    exists A. auto.
  - intros H. apply Hfin.
    eapply (deal_loop_dinv n (length V0) per (length V0)); eauto; lia.
Qed.

(* ---------- sizes of the supports from the rewiring invariant ---------- *)
Lemma filter_true {A} (l : list A) : filter (fun _ => true) l = l.
Proof. induction l as [|x l IH]; cbn [filter]; [reflexivity|]. rewrite IH. reflexivity. Qed.

Lemma univ_sum und n (g : cell -> Z) :
  zsum (map g (univ und n)) = sum2 (fun i j => if in_tri und (i, j) then g (i, j) else 0) n.
Proof. unfold univ. rewrite zsum_filter, zsum_cells. reflexivity. Qed.

Lemma supp_length_total und n s M :
  Z.of_nat (length (supp und n s M)) =
  sum2 (fun i j => if in_tri und (i, j) then b2z (sel s (M i j)) else 0) n.
Proof. unfold supp. rewrite length_filter_zsum, univ_sum. reflexivity. Qed.

Lemma tri_total phi n M : symn n M ->
  total phi M n + sumn (fun i => phi (M i i)) n = 2 * tri (fun i j => phi (M i j)) n.
Proof.
  intros Hs. apply (tri_sym (fun i j => phi (M i j))). intros i j Hi Hj. rewrite (Hs i j Hi Hj). reflexivity.
Qed.

Lemma tri_eq_of_sinv phi n Wc Wr : symn n Wc -> sinv true n Wc Wr ->
  tri (fun i j => phi (Wr i j)) n = tri (fun i j => phi (Wc i j)) n.
Proof.
  intros Hsym (_ & _ & A3 & A4 & A5).
  pose proof (tri_total phi n Wc Hsym) as E1.
  pose proof (tri_total phi n Wr (A5 eq_refl)) as E2.
  rewrite (A3 phi) in E2.
  rewrite (sumn_ext (fun i => phi (Wr i i)) (fun i => phi (Wc i i))) in E2
    by (intros i Hi; rewrite A4 by exact Hi; reflexivity).
  lia.
Qed.

Lemma supp_length_eq und n s Wc Wr : pre und n Wc -> sinv und n Wc Wr ->
  length (supp und n s Wr) = length (supp und n s Wc).
Proof.
  intros Hpre Hinv. apply Nat2Z.inj. rewrite !supp_length_total. destruct und.
  - apply (tri_eq_of_sinv (fun z => b2z (sel s z))); [apply Hpre; reflexivity|exact Hinv].
  - destruct Hinv as (_ & _ & A3 & _). apply (A3 (fun z => b2z (sel s z))).
Qed.

(* ---------- both passes together ---------- *)
Lemma sel_pos z : sel 1 z = true <-> 0 < z.
Proof. unfold sel. cbn. apply Z.ltb_lt. Qed.
Lemma sel_neg z : sel (-1) z = true <-> z < 0.
Proof. unfold sel. cbn. apply Z.ltb_lt. Qed.

Section TwoPasses.
Variables (und : bool) (n per : nat) (Wc Wr W1 W2 : mat Z).
Variables (ords perms o1 p1 o2 p2 : list (list nat)).
Hypothesis Hpre : pre und n Wc.
Hypothesis Hinv : sinv und n Wc Wr.
Hypothesis Hd1 : deal_sign und n per 1 Wc Wr zero_mat ords perms = Some (W1, o1, p1).
Hypothesis Hd2 : deal_sign und n per (-1) Wc Wr W1 o1 p1 = Some (W2, o2, p2).

Let Spos := supp und n 1 Wr.
Let Sneg := supp und n (-1) Wr.
Let Ppos := supp und n 1 Wc.
Let Pneg := supp und n (-1) Wc.

Lemma pass1 : Permutation (map (at_ W1) Spos) (map (at_ Wc) Ppos) /\
  (forall c, ingrid n c -> ~ In c Spos -> at_ W1 c = 0).
Proof.
  destruct (deal_sign_spec und n per 1 Wc Wr zero_mat ords perms W1 o1 p1 (or_introl eq_refl)
              (supp_length_eq und n 1 Wc Wr Hpre Hinv) Hd1) as [A B].
  split; [exact A|]. intros c Hg Hc. rewrite (B c Hg Hc). reflexivity.
Qed.

Lemma pass2 : Permutation (map (at_ W2) Sneg) (map (at_ Wc) Pneg) /\
  (forall c, ingrid n c -> ~ In c Sneg -> at_ W2 c = at_ W1 c).
Proof.
  exact (deal_sign_spec und n per (-1) Wc Wr W1 o1 p1 W2 o2 p2 (or_intror eq_refl)
           (supp_length_eq und n (-1) Wc Wr Hpre Hinv) Hd2).
Qed.

Lemma S_disjoint c : In c Spos -> ~ In c Sneg.
Proof.
  intros H1 H2. apply supp_In in H1. apply supp_In in H2.
  destruct H1 as (_ & _ & H1), H2 as (_ & _ & H2). apply sel_pos in H1. apply sel_neg in H2. lia.
Qed.

Lemma W2_on_pos c : In c Spos -> at_ W2 c = at_ W1 c /\ 0 < at_ W2 c.
Proof.
  intros Hc. assert (Hg : ingrid n c) by (apply supp_In in Hc; tauto).
  destruct pass1 as [P1 _]. destruct pass2 as [_ O2].
  assert (E : at_ W2 c = at_ W1 c) by (apply O2; [exact Hg|apply S_disjoint; exact Hc]).
  split; [exact E|]. rewrite E.
  assert (Hin : In (at_ W1 c) (map (at_ Wc) Ppos)).
  { apply (Permutation_in _ P1). apply in_map. exact Hc. }
  apply in_map_iff in Hin. destruct Hin as [c' [E' Hc']]. rewrite <- E'.
  apply supp_In in Hc'. apply sel_pos. tauto.
Qed.

Lemma W2_on_neg c : In c Sneg -> at_ W2 c < 0.
Proof.
  intros Hc. destruct pass2 as [P2 _].
  assert (Hin : In (at_ W2 c) (map (at_ Wc) Pneg)).
  { apply (Permutation_in _ P2). apply in_map. exact Hc. }
  apply in_map_iff in Hin. destruct Hin as [c' [E' Hc']]. rewrite <- E'.
  apply supp_In in Hc'. apply sel_neg. tauto.
Qed.

Lemma W2_elsewhere c : ingrid n c -> ~ In c Spos -> ~ In c Sneg -> at_ W2 c = 0.
Proof.
  intros Hg H1 H2. destruct pass1 as [_ O1]. destruct pass2 as [_ O2].
  rewrite (O2 c Hg H2). apply O1; assumption.
Qed.

(* the dealt matrix carries the rewired sign pattern on the cells the routine works on *)
Lemma W2_sgn c : ingrid n c -> in_tri und c = true -> Z.sgn (at_ W2 c) = Z.sgn (at_ Wr c).
Proof.
  intros Hg Ht.
  destruct (sel 1 (at_ Wr c)) eqn:E1.
  - assert (Hc : In c Spos) by (apply supp_In; tauto).
    destruct (W2_on_pos c Hc) as [_ H]. apply sel_pos in E1. rewrite !Z.sgn_pos; auto.
  - destruct (sel (-1) (at_ Wr c)) eqn:E2.
    + assert (Hc : In c Sneg) by (apply supp_In; tauto).
      pose proof (W2_on_neg c Hc) as H. apply sel_neg in E2. rewrite !Z.sgn_neg; auto.
    + assert (H1 : ~ In c Spos) by (intros H; apply supp_In in H; destruct H as (_ & _ & H); congruence).
      assert (H2 : ~ In c Sneg) by (intros H; apply supp_In in H; destruct H as (_ & _ & H); congruence).
      rewrite (W2_elsewhere c Hg H1 H2).
      assert (at_ Wr c = 0).
      { destruct (Z.lt_trichotomy (at_ Wr c) 0) as [H|[H|H]]; [|exact H|].
        - apply sel_neg in H. congruence.
        - apply sel_pos in H. congruence. }
      congruence.
Qed.

Lemma W2_lower c : ingrid n c -> in_tri und c = false -> at_ W2 c = 0.
Proof.
  intros Hg Ht. apply W2_elsewhere; [exact Hg| |]; intros H; apply supp_In in H; destruct H as (_ & H & _); congruence.
Qed.

(* every statistic of the entries on the cells worked on is the input's *)
Lemma univ_phi phi :
  zsum (map (fun c => phi (at_ W2 c)) (univ und n)) = zsum (map (fun c => phi (at_ Wc c)) (univ und n)).
Proof.
  set (U := univ und n).
  set (p := fun c => sel 1 (at_ Wr c)). set (q := fun c => sel (-1) (at_ Wr c)).
  set (p' := fun c => sel 1 (at_ Wc c)). set (q' := fun c => sel (-1) (at_ Wc c)).
  assert (Hex : forall c, In c U -> p c = true -> q c = false).
  { intros c _ H. unfold p, q in *. apply sel_pos in H. destruct (sel (-1) (at_ Wr c)) eqn:E; [|reflexivity].
    apply sel_neg in E. lia. }
  assert (Hex' : forall c, In c U -> p' c = true -> q' c = false).
  { intros c _ H. unfold p', q' in *. apply sel_pos in H. destruct (sel (-1) (at_ Wc c)) eqn:E; [|reflexivity].
    apply sel_neg in E. lia. }
  assert (HgU : forall c, In c U -> ingrid n c /\ in_tri und c = true).
  { intros [i j] Hc. unfold U, univ in Hc. apply filter_In in Hc. rewrite cells_In in Hc. unfold ingrid; cbn [fst snd]. tauto. }
  rewrite (zsum_split3 _ p q U Hex), (zsum_split3 _ p' q' U Hex').
  change (filter p U) with Spos. change (filter q U) with Sneg.
  change (filter p' U) with Ppos. change (filter q' U) with Pneg.
  destruct pass1 as [P1 _]. destruct pass2 as [P2 _].
  assert (E1 : zsum (map (fun c => phi (at_ W2 c)) Spos) = zsum (map (fun c => phi (at_ Wc c)) Ppos)).
  { rewrite (zsum_map_ext _ (fun c => phi (at_ W1 c))) by (intros c Hc; destruct (W2_on_pos c Hc) as [E _]; rewrite E; reflexivity).
    rewrite <- (map_map (at_ W1) phi), <- (map_map (at_ Wc) phi). apply zsum_map_perm. exact P1. }
  assert (E2 : zsum (map (fun c => phi (at_ W2 c)) Sneg) = zsum (map (fun c => phi (at_ Wc c)) Pneg)).
  { rewrite <- (map_map (at_ W2) phi), <- (map_map (at_ Wc) phi). apply zsum_map_perm. exact P2. }
  set (rest := filter (fun x => negb (p x) && negb (q x)) U).
  set (rest' := filter (fun x => negb (p' x) && negb (q' x)) U).
  assert (E3 : zsum (map (fun c => phi (at_ W2 c)) rest) = phi 0 * Z.of_nat (length rest)).
  { rewrite <- zsum_const. apply zsum_map_ext. intros c Hc. unfold rest in Hc. apply filter_In in Hc.
    destruct Hc as [HcU Hc]. apply andb_true_iff in Hc. destruct Hc as [Hp Hq].
    apply negb_true_iff in Hp, Hq. destruct (HgU c HcU) as [Hg Ht].
    rewrite W2_elsewhere; [reflexivity|exact Hg| |]; intros H; apply supp_In in H; destruct H as (_ & _ & H);
      unfold p, q in *; congruence. }
  assert (E3' : zsum (map (fun c => phi (at_ Wc c)) rest') = phi 0 * Z.of_nat (length rest')).
  { rewrite <- zsum_const. apply zsum_map_ext. intros c Hc. unfold rest' in Hc. apply filter_In in Hc.
    destruct Hc as [HcU Hc]. apply andb_true_iff in Hc. destruct Hc as [Hp Hq].
    apply negb_true_iff in Hp, Hq. unfold p', q' in *.
    assert (at_ Wc c = 0).
    { destruct (Z.lt_trichotomy (at_ Wc c) 0) as [H|[H|H]]; [|exact H|].
      - apply sel_neg in H. congruence.
      - apply sel_pos in H. congruence. }
    congruence. }
  assert (Elen : length rest = length rest').
  { pose proof (zsum_split3 (fun _ => 1) p q U Hex) as C.
    pose proof (zsum_split3 (fun _ => 1) p' q' U Hex') as C'.
    rewrite !zsum_const in C, C'.
    change (filter p U) with Spos in C. change (filter q U) with Sneg in C.
    change (filter p' U) with Ppos in C'. change (filter q' U) with Pneg in C'.
    fold rest in C. fold rest' in C'.
    pose proof (supp_length_eq und n 1 Wc Wr Hpre Hinv) as L1.
    pose proof (supp_length_eq und n (-1) Wc Wr Hpre Hinv) as L2.
    fold Spos Ppos in L1. fold Sneg Pneg in L2. lia. }
  fold rest rest'. rewrite E1, E2, E3, E3', Elen. reflexivity.
Qed.

(* everything the assembly below needs, in one statement *)
Lemma two_passes_facts :
  (forall c, ingrid n c -> in_tri und c = true -> Z.sgn (at_ W2 c) = Z.sgn (at_ Wr c)) /\
  (forall c, ingrid n c -> in_tri und c = false -> at_ W2 c = 0) /\
  (forall phi, zsum (map (fun c => phi (at_ W2 c)) (univ und n)) =
               zsum (map (fun c => phi (at_ Wc c)) (univ und n))).
Proof. split; [exact W2_sgn|split; [exact W2_lower|exact univ_phi]]. Qed.
End TwoPasses.
