(* Proofs/BetweenCount.v — path-counting phase of the weighted routines, in FULL: after the search of
   betweenness_wei / edge_betweenness_wei from source u,  P[w,v] is set exactly for the tight connections
   (D[v] + G[v,w] = D[w]),  NP[u] = 1  and  NP[x] = sum_v [P x v] NP[v]  for x <> u.
   Together with D = dist_spec (BetweenPaths) this is [counts_ok] (BetweenTight). *)
From Coq Require Import QArith Lia List Arith Bool ZArith Permutation Sorted.
From BCT Require Import Base.Mat Base.SumQ Base.ListX Model.Between
  Proofs.BetweenAccum Proofs.BetweenReady Proofs.BetweenQueue Proofs.BetweenSpec Proofs.BetweenPaths Proofs.BetweenTight.
Import ListNotations.
Open Scope Z_scope.

(* ---------- order facts on extended distances ---------- *)
Lemma xlt_xleo a b : xlt a b = true -> xleo a b.
Proof. destruct a as [x|], b as [y|]; cbn; try discriminate; auto. intros H. apply Z.ltb_lt in H. lia. Qed.
Lemma xlt_xleo_trans a b c : xlt a b = true -> xleo b c -> xleo a c.
Proof.
  destruct a as [x|], b as [y|], c as [z|]; cbn; try discriminate; try tauto.
  intros H. apply Z.ltb_lt in H. lia.
Qed.
Lemma xlt_xleo_false a b : xlt a b = true -> xleo b a -> False.
Proof. destruct a as [x|], b as [y|]; cbn; try discriminate; try tauto. intros H. apply Z.ltb_lt in H. lia. Qed.
Lemma xlt_false_xleo a b : xlt (Some a) b = false -> xleo b (Some a).
Proof. destruct b as [y|]; cbn; [|discriminate]. intros H. apply Z.ltb_ge in H. exact H. Qed.

Lemma sumn_pick (f : nat -> Z) n v : (v < n)%nat -> sumn (fun i => b2z (Nat.eqb i v) * f i) n = f v.
Proof.
  intros Hv. rewrite (sumn_split _ n v Hv), Nat.eqb_refl. cbn [b2z].
  rewrite (sumn_ext _ (fun _ => 0)); [rewrite sumn_zero; lia|].
  intros i _. destruct (Nat.eqb i v); cbn [b2z]; lia.
Qed.

Lemma relax_w_row G1 v st w x : x <> w ->
  sD (relax_w G1 v st w) x = sD st x /\ sNP (relax_w G1 v st w) x = sNP st x /\
  forall y, sP (relax_w G1 v st w) x y = sP st x y.
Proof.
  intros Hne. unfold relax_w. destruct (xlt _ _); [|destruct (xeq _ _)]; cbn [sD sNP sP]; rewrite ?vupd_other by exact Hne.
  - split; [reflexivity|]. split; [reflexivity|]. intros y. destruct (Nat.eqb_spec x w); [contradiction|reflexivity].
  - split; [reflexivity|]. split; [reflexivity|]. intros y. apply upd_other. left; exact Hne.
  - auto.
Qed.

(* ---------- one round: rows of not yet permanent nodes ---------- *)
Section Round.
Variables (n : nat) (G2 : mat Z) (S1 : vec bool) (D0 : vec (option Z)) (NP0 : vec Z) (P0 : mat bool) (cur : Z).
Hypothesis HG2 : forall i j, (i < n)%nat -> (j < n)%nat -> G2 i j <> 0 -> 0 < G2 i j /\ S1 j = true.

(* [done v w]: the connection v -> w has been relaxed in this round *)
Definition Rrow (done : nat -> nat -> Prop) (st : sst) (w : nat) : Prop :=
  xleo (sD st w) (D0 w) /\
  (forall v, (v < n)%nat -> done v w -> G2 v w <> 0 -> xleo (sD st w) (Some (cur + G2 v w))) /\
  (forall v, (v < n)%nat -> (sP st w v = true <->
     (P0 w v = true /\ sD st w = D0 w) \/ (done v w /\ G2 v w <> 0 /\ sD st w = Some (cur + G2 v w)))) /\
  sNP st w = sumn (fun v => b2z (sP st w v) * NP0 v) n.
Definition Frow (st : sst) (x : nat) : Prop :=
  sD st x = D0 x /\ sNP st x = NP0 x /\ forall y, (y < n)%nat -> sP st x y = P0 x y.
Definition Ct (done : nat -> nat -> Prop) (st : sst) : Prop :=
  (forall x, (x < n)%nat -> S1 x = false -> Frow st x) /\
  (forall w, (w < n)%nat -> S1 w = true -> Rrow done st w).

Lemma Rrow_ext (done done' : nat -> nat -> Prop) st st' w :
  sD st' w = sD st w -> sNP st' w = sNP st w -> (forall v, (v < n)%nat -> sP st' w v = sP st w v) ->
  (forall v, (v < n)%nat -> (done' v w <-> done v w)) -> Rrow done st w -> Rrow done' st' w.
Proof.
  intros ED EN EP Hd (A0 & A4 & A1 & A2). unfold Rrow. rewrite ED, EN. split; [exact A0|]. split; [|split].
  - intros v Hv Hdn. apply A4; [exact Hv|]. apply Hd; assumption.
  - intros v Hv. rewrite (EP v Hv), (A1 v Hv). split; (intros [H|(H1 & H2)]; [left; exact H|right; split; [apply Hd; assumption|exact H2]]).
  - rewrite A2. apply sumn_ext. intros v Hv. rewrite (EP v Hv). reflexivity.
Qed.

Lemma Frow_ext st st' x :
  sD st' x = sD st x -> sNP st' x = sNP st x -> (forall y, (y < n)%nat -> sP st' x y = sP st x y) -> Frow st x -> Frow st' x.
Proof. intros ED EN EP (A & B & C). unfold Frow. rewrite ED, EN. split; [exact A|]. split; [exact B|]. intros y Hy. rewrite (EP y Hy). apply C; exact Hy. Qed.

Lemma Ct_ext (done done' : nat -> nat -> Prop) st :
  (forall v w, (v < n)%nat -> (w < n)%nat -> (done' v w <-> done v w)) -> Ct done st -> Ct done' st.
Proof.
  intros Hd [F R]. split; [exact F|]. intros w Hw HSw. apply (Rrow_ext done done' st st w); auto.
Qed.

Lemma relax_Ct (done : nat -> nat -> Prop) st v w : (v < n)%nat -> (w < n)%nat -> S1 v = false -> D0 v = Some cur ->
  G2 v w <> 0 -> P0 w v = false -> ~ done v w -> Ct done st ->
  Ct (fun a b => done a b \/ (a = v /\ b = w)) (relax_w G2 v st w).
Proof.
  intros Hv Hw HSv HDv Hg HP0 Hnd [F R].
  destruct (HG2 v w Hv Hw Hg) as [Hpos HSw].
  destruct (F v Hv HSv) as (Ev & ENv & _). rewrite HDv in Ev.
  assert (Hvw : v <> w) by (intros ->; congruence).
  (* rows other than w *)
  assert (Hoth : forall st', (forall x, x <> w -> sD st' x = sD st x /\ sNP st' x = sNP st x /\ forall y, sP st' x y = sP st x y) ->
            Rrow (fun a b => done a b \/ (a = v /\ b = w)) st' w -> Ct (fun a b => done a b \/ (a = v /\ b = w)) st').
  { intros st' Hrow Hw'. split.
    - intros x Hx HSx. assert (Hxw : x <> w) by (intros ->; congruence). destruct (Hrow x Hxw) as (E1 & E2 & E3).
      apply (Frow_ext st st' x E1 E2); [intros; apply E3|]. apply F; assumption.
    - intros x Hx HSx. destruct (Nat.eq_dec x w) as [->|Hxw]; [exact Hw'|]. destruct (Hrow x Hxw) as (E1 & E2 & E3).
      apply (Rrow_ext done _ st st' x E1 E2); [intros; apply E3| |apply R; assumption].
      intros a Ha. split; [intros [H|[_ H]]; [exact H|contradiction]|auto]. }
  destruct (R w Hw HSw) as (R0 & R4 & R1 & R2).
  assert (HPwv : sP st w v = false).
  { destruct (sP st w v) eqn:E; [|reflexivity]. apply (R1 v Hv) in E. destruct E as [[E _]|[E _]]; [congruence|contradiction]. }
  apply Hoth; [intros x Hx; apply relax_w_row; exact Hx|].
  unfold relax_w. rewrite Ev. cbn [xadd].
  destruct (xlt (Some (cur + G2 v w)) (sD st w)) eqn:Elt.
  - (* strictly shorter: the row is reset *)
    unfold Rrow. cbn [sD sNP sP]. rewrite !vupd_same, Nat.eqb_refl. split; [|split; [|split]].
    + apply (xlt_xleo_trans _ _ _ Elt R0).
    + intros a Ha [Hd|[-> _]] Hga; [|apply xleo_refl].
      eapply xleo_trans; [apply xlt_xleo; exact Elt|]. apply R4; assumption.
    + intros a Ha. split.
      * intros E. apply Nat.eqb_eq in E. subst a. right. split; [right; auto|]. split; [exact Hg|reflexivity].
      * intros [[_ E]|[Hd [Hga E]]].
        -- exfalso. rewrite <- E in R0. exact (xlt_xleo_false _ _ Elt R0).
        -- destruct Hd as [Hd|[-> _]]; [|apply Nat.eqb_refl]. exfalso.
           pose proof (R4 a Ha Hd Hga) as H4. rewrite <- E in H4. exact (xlt_xleo_false _ _ Elt H4).
    + rewrite ENv. symmetry. apply sumn_pick. exact Hv.
  - destruct (xeq (Some (cur + G2 v w)) (sD st w)) eqn:Eeq.
    + (* equal: one more predecessor *)
      assert (Ew : sD st w = Some (cur + G2 v w)).
      { unfold xeq in Eeq. destruct (sD st w) as [d|]; [|discriminate]. apply Z.eqb_eq in Eeq. congruence. }
      unfold Rrow. cbn [sD sNP sP]. rewrite vupd_same. split; [exact R0|]. split; [|split].
      * intros a Ha [Hd|[-> _]] Hga; [apply R4; assumption|]. rewrite Ew. apply xleo_refl.
      * intros a Ha. destruct (Nat.eq_dec a v) as [->|Hav].
        -- rewrite upd_same. split; [intros _|reflexivity]. right. split; [right; auto|]. split; [exact Hg|exact Ew].
        -- rewrite upd_other by (right; exact Hav). rewrite (R1 a Ha).
           split; (intros [H|(H1 & H2)]; [left; exact H|right; split; [|exact H2]]); [left; exact H1|].
           destruct H1 as [H1|[H1 _]]; [exact H1|contradiction].
      * rewrite R2, ENv. rewrite (sumn_split _ n v Hv), (sumn_split (fun a => b2z (upd (sP st) w v true w a) * NP0 a) n v Hv).
        rewrite upd_same, HPwv. cbn [b2z].
        rewrite (sumn_ext (fun i => if Nat.eqb i v then 0 else b2z (upd (sP st) w v true w i) * NP0 i)
                          (fun i => if Nat.eqb i v then 0 else b2z (sP st w i) * NP0 i)); [lia|].
        intros i _. destruct (Nat.eqb_spec i v) as [|Hiv]; [reflexivity|]. rewrite upd_other by (right; exact Hiv). reflexivity.
    + (* longer: nothing changes *)
      unfold Rrow. split; [exact R0|]. split; [|split; [|exact R2]].
      * intros a Ha [Hd|[-> _]] Hga; [apply R4; assumption|]. apply xlt_false_xleo. exact Elt.
      * intros a Ha. rewrite (R1 a Ha). split; (intros [H|(H1 & H2)]; [left; exact H|]).
        -- right. split; [left; exact H1|exact H2].
        -- destruct H1 as [H1|[-> _]]; [right; split; [exact H1|exact H2]|]. exfalso. destruct H2 as [_ E].
           rewrite E in Eeq. cbn in Eeq. rewrite Z.eqb_refl in Eeq. discriminate.
Qed.

Lemma fold_relax_Ct v : (v < n)%nat -> S1 v = false -> D0 v = Some cur -> (forall x, (x < n)%nat -> P0 x v = false) ->
  forall l (done : nat -> nat -> Prop) st, NoDup l ->
  (forall w, In w l -> (w < n)%nat /\ G2 v w <> 0 /\ ~ done v w) -> Ct done st ->
  Ct (fun a b => done a b \/ (a = v /\ In b l)) (fold_left (relax_w G2 v) l st).
Proof.
  intros Hv HSv HDv HP0. induction l as [|w l IH]; intros done st Hnd Hl HC; cbn [fold_left].
  - apply (Ct_ext done); [|exact HC]. intros a b _ _. split; [intros [H|[_ []]]; exact H|auto].
  - inversion Hnd as [|? ? Hw Hnd']; subst. destruct (Hl w (or_introl eq_refl)) as (Hwn & Hg & Hdn).
    pose proof (relax_Ct done st v w Hv Hwn HSv HDv Hg (HP0 w Hwn) Hdn HC) as HC1.
    assert (Hl' : forall b, In b l -> (b < n)%nat /\ G2 v b <> 0 /\ ~ (done v b \/ (v = v /\ b = w))).
    { intros b Hb. destruct (Hl b (or_intror Hb)) as (H1 & H2 & H3). split; [exact H1|]. split; [exact H2|].
      intros [H|[_ H]]; [contradiction|]. subst b. contradiction. }
    specialize (IH _ _ Hnd' Hl' HC1).
    eapply Ct_ext; [|apply IH].
    intros a b _ _. cbn [In]. split.
    + intros [H|[H1 [H2|H2]]]; [left; left; exact H|left; right; auto|right; auto].
    + intros [[H|[H1 H2]]|[H1 H2]]; [left; exact H|right; auto|right; auto].
Qed.

Lemma visit_Ct (done : nat -> nat -> Prop) st v : (v < n)%nat -> S1 v = false -> D0 v = Some cur ->
  (forall x, (x < n)%nat -> P0 x v = false) -> (forall b, ~ done v b) -> Ct done st ->
  Ct (fun a b => done a b \/ (a = v /\ G2 v b <> 0)) (visit_w n G2 st v).
Proof.
  intros Hv HSv HDv HP0 Hdn HC. unfold visit_w.
  assert (HC' : Ct done (push st v)) by exact HC.
  pose proof (fold_relax_Ct v Hv HSv HDv HP0 (wherev n (fun w => nzb (G2 v w))) done (push st v) (wherev_NoDup _ _)) as H.
  apply (Ct_ext (fun a b => done a b \/ (a = v /\ In b (wherev n (fun w => nzb (G2 v w)))))); [|apply H; [|exact HC']].
  - intros a b Ha Hb. rewrite wherev_In. unfold nzb. rewrite negb_true_iff, Z.eqb_neq. tauto.
  - intros w Hw. apply wherev_In in Hw. destruct Hw as [H1 H2]. unfold nzb in H2. apply negb_true_iff, Z.eqb_neq in H2.
    split; [exact H1|]. split; [exact H2|apply Hdn].
Qed.

Lemma fold_visit_Ct : forall V' (done : nat -> nat -> Prop) st, NoDup V' ->
  (forall v, In v V' -> (v < n)%nat /\ S1 v = false /\ D0 v = Some cur /\ (forall x, (x < n)%nat -> P0 x v = false) /\
                        forall b, ~ done v b) ->
  Ct done st -> Ct (fun a b => done a b \/ (In a V' /\ G2 a b <> 0)) (fold_left (visit_w n G2) V' st).
Proof.
  induction V' as [|v V' IH]; intros done st Hnd HV HC; cbn [fold_left].
  - apply (Ct_ext done); [|exact HC]. intros a b _ _. split; [intros [H|[[] _]]; exact H|auto].
  - inversion Hnd as [|? ? Hv Hnd']; subst. destruct (HV v (or_introl eq_refl)) as (H1 & H2 & H3 & H4 & H5).
    pose proof (visit_Ct done st v H1 H2 H3 H4 H5 HC) as HC1.
    assert (HV' : forall v0, In v0 V' -> (v0 < n)%nat /\ S1 v0 = false /\ D0 v0 = Some cur /\
              (forall x, (x < n)%nat -> P0 x v0 = false) /\ forall b, ~ (done v0 b \/ (v0 = v /\ G2 v b <> 0))).
    { intros v0 Hv0. destruct (HV v0 (or_intror Hv0)) as (A1 & A2 & A3 & A4 & A5). repeat split; auto.
      intros b [H|[-> _]]; [exact (A5 b H)|contradiction]. }
    specialize (IH _ _ Hnd' HV' HC1). eapply Ct_ext; [|exact IH].
    intros a b _ _. cbn [In]. split.
    + intros [H|[[->|H1'] H2']]; [left; left; exact H|left; right; auto|right; auto].
    + intros [[H|[-> H2']]|[H1' H2']]; [left; exact H|right; auto|right; auto].
Qed.
End Round.
