(* Proofs/BetweenCount.v — path-counting phase of the weighted routines, in FULL: after the search of
   betweenness_wei / edge_betweenness_wei from source u,  P[w,v] is set exactly for the tight connections
   (D[v] + G[v,w] = D[w]),  NP[u] = 1  and  NP[x] = sum_v [P x v] NP[v]  for x <> u.
   Together with D = dist_spec (BetweenPaths) this is [counts_ok] (BetweenTight). *)
From Coq Require Import QArith Lia List Arith Bool ZArith Permutation Sorted.
From BCT Require Import Base.Mat Base.SumQ Base.ListX Model.Between
  Proofs.BetweenAccum Proofs.BetweenReady Proofs.BetweenQueue Proofs.BetweenSpec Proofs.BetweenPaths Proofs.BetweenTight.
Import ListNotations.
Open Scope Z_scope.

(* ---------- order facts on extended distances ---------- *)
Lemma xlt_xleo a b : xlt a b = true -> xleo a b.
Proof. destruct a as [x|], b as [y|]; cbn; try discriminate; auto. intros H. apply Z.ltb_lt in H. lia. Qed.
Lemma xlt_xleo_trans a b c : xlt a b = true -> xleo b c -> xleo a c.
Proof.
  destruct a as [x|], b as [y|], c as [z|]; cbn; try discriminate; try tauto.
  intros H. apply Z.ltb_lt in H. lia.
Qed.
Lemma xlt_xleo_false a b : xlt a b = true -> xleo b a -> False.
Proof. destruct a as [x|], b as [y|]; cbn; try discriminate; try tauto. intros H. apply Z.ltb_lt in H. lia. Qed.
Lemma xlt_false_xleo a b : xlt (Some a) b = false -> xleo b (Some a).
Proof. destruct b as [y|]; cbn; [|discriminate]. intros H. apply Z.ltb_ge in H. exact H. Qed.

Lemma sumn_pick (f : nat -> Z) n v : (v < n)%nat -> sumn (fun i => b2z (Nat.eqb i v) * f i) n = f v.
Proof.
  intros Hv. rewrite (sumn_split _ n v Hv), Nat.eqb_refl. cbn [b2z].
  rewrite (sumn_ext _ (fun _ => 0)); [rewrite sumn_zero; lia|].
  intros i _. destruct (Nat.eqb i v); cbn [b2z]; lia.
Qed.

Lemma relax_w_row G1 v st w x : x <> w ->
  sD (relax_w G1 v st w) x = sD st x /\ sNP (relax_w G1 v st w) x = sNP st x /\
  forall y, sP (relax_w G1 v st w) x y = sP st x y.
Proof.
  intros Hne. unfold relax_w. destruct (xlt _ _); [|destruct (xeq _ _)]; cbn [sD sNP sP]; rewrite ?vupd_other by exact Hne.
  - split; [reflexivity|]. split; [reflexivity|]. intros y. destruct (Nat.eqb_spec x w); [contradiction|reflexivity].
  - split; [reflexivity|]. split; [reflexivity|]. intros y. apply upd_other. left; exact Hne.
  - auto.
Qed.

(* ---------- one round: rows of not yet permanent nodes ---------- *)
Section Round.
Variables (n : nat) (G2 : mat Z) (S1 : vec bool) (D0 : vec (option Z)) (NP0 : vec Z) (P0 : mat bool) (cur : Z).
Hypothesis HG2 : forall i j, (i < n)%nat -> (j < n)%nat -> G2 i j <> 0 -> 0 < G2 i j /\ S1 j = true.

(* [done v w]: the connection v -> w has been relaxed in this round *)
Definition Rrow (done : nat -> nat -> Prop) (st : sst) (w : nat) : Prop :=
  xleo (sD st w) (D0 w) /\
  (forall v, (v < n)%nat -> done v w -> G2 v w <> 0 -> xleo (sD st w) (Some (cur + G2 v w))) /\
  (forall v, (v < n)%nat -> (sP st w v = true <->
     (P0 w v = true /\ sD st w = D0 w) \/ (done v w /\ G2 v w <> 0 /\ sD st w = Some (cur + G2 v w)))) /\
  sNP st w = sumn (fun v => b2z (sP st w v) * NP0 v) n.
Definition Frow (st : sst) (x : nat) : Prop :=
  sD st x = D0 x /\ sNP st x = NP0 x /\ forall y, (y < n)%nat -> sP st x y = P0 x y.
Definition Ct (done : nat -> nat -> Prop) (st : sst) : Prop :=
  (forall x, (x < n)%nat -> S1 x = false -> Frow st x) /\
  (forall w, (w < n)%nat -> S1 w = true -> Rrow done st w).

Lemma Rrow_ext (done done' : nat -> nat -> Prop) st st' w :
  sD st' w = sD st w -> sNP st' w = sNP st w -> (forall v, (v < n)%nat -> sP st' w v = sP st w v) ->
  (forall v, (v < n)%nat -> (done' v w <-> done v w)) -> Rrow done st w -> Rrow done' st' w.
Proof.
  intros ED EN EP Hd (A0 & A4 & A1 & A2). unfold Rrow. rewrite ED, EN. split; [exact A0|]. split; [|split].
  - intros v Hv Hdn. apply A4; [exact Hv|]. apply Hd; assumption.
  - intros v Hv. rewrite (EP v Hv), (A1 v Hv). split; (intros [H|(H1 & H2)]; [left; exact H|right; split; [apply Hd; assumption|exact H2]]).
  - rewrite A2. apply sumn_ext. intros v Hv. rewrite (EP v Hv). reflexivity.
Qed.

Lemma Frow_ext st st' x :
  sD st' x = sD st x -> sNP st' x = sNP st x -> (forall y, (y < n)%nat -> sP st' x y = sP st x y) -> Frow st x -> Frow st' x.
Proof. intros ED EN EP (A & B & C). unfold Frow. rewrite ED, EN. split; [exact A|]. split; [exact B|]. intros y Hy. rewrite (EP y Hy). apply C; exact Hy. Qed.

Lemma Ct_ext (done done' : nat -> nat -> Prop) st :
  (forall v w, (v < n)%nat -> (w < n)%nat -> (done' v w <-> done v w)) -> Ct done st -> Ct done' st.
Proof.
  intros Hd [F R]. split; [exact F|]. intros w Hw HSw. apply (Rrow_ext done done' st st w); auto.
Qed.

Lemma relax_Ct (done : nat -> nat -> Prop) st v w : (v < n)%nat -> (w < n)%nat -> S1 v = false -> D0 v = Some cur ->
  G2 v w <> 0 -> P0 w v = false -> ~ done v w -> Ct done st ->
  Ct (fun a b => done a b \/ (a = v /\ b = w)) (relax_w G2 v st w).
Proof.
  intros Hv Hw HSv HDv Hg HP0 Hnd [F R].
  destruct (HG2 v w Hv Hw Hg) as [Hpos HSw].
  destruct (F v Hv HSv) as (Ev & ENv & _). rewrite HDv in Ev.
  assert (Hvw : v <> w) by (intros ->; congruence).
  (* rows other than w *)
  assert (Hoth : forall st', (forall x, x <> w -> sD st' x = sD st x /\ sNP st' x = sNP st x /\ forall y, sP st' x y = sP st x y) ->
            Rrow (fun a b => done a b \/ (a = v /\ b = w)) st' w -> Ct (fun a b => done a b \/ (a = v /\ b = w)) st').
  { intros st' Hrow Hw'. split.
    - intros x Hx HSx. assert (Hxw : x <> w) by (intros ->; congruence). destruct (Hrow x Hxw) as (E1 & E2 & E3).
      apply (Frow_ext st st' x E1 E2); [intros; apply E3|]. apply F; assumption.
    - intros x Hx HSx. destruct (Nat.eq_dec x w) as [->|Hxw]; [exact Hw'|]. destruct (Hrow x Hxw) as (E1 & E2 & E3).
      apply (Rrow_ext done _ st st' x E1 E2); [intros; apply E3| |apply R; assumption].
      intros a Ha. split; [intros [H|[_ H]]; [exact H|contradiction]|auto]. }
  destruct (R w Hw HSw) as (R0 & R4 & R1 & R2).
  assert (HPwv : sP st w v = false).
  { destruct (sP st w v) eqn:E; [|reflexivity]. apply (R1 v Hv) in E. destruct E as [[E _]|[E _]]; [congruence|contradiction]. }
  apply Hoth; [intros x Hx; apply relax_w_row; exact Hx|].
  unfold relax_w. rewrite Ev. cbn [xadd].
  destruct (xlt (Some (cur + G2 v w)) (sD st w)) eqn:Elt.
  - (* strictly shorter: the row is reset *)
    unfold Rrow. cbn [sD sNP sP]. rewrite !vupd_same, Nat.eqb_refl. split; [|split; [|split]].
    + apply (xlt_xleo_trans _ _ _ Elt R0).
    + intros a Ha [Hd|[-> _]] Hga; [|apply xleo_refl].
      eapply xleo_trans; [apply xlt_xleo; exact Elt|]. apply R4; assumption.
    + intros a Ha. split.
      * intros E. apply Nat.eqb_eq in E. subst a. right. split; [right; auto|]. split; [exact Hg|reflexivity].
      * intros [[_ E]|[Hd [Hga E]]].
        -- exfalso. rewrite <- E in R0. exact (xlt_xleo_false _ _ Elt R0).
        -- destruct Hd as [Hd|[-> _]]; [|apply Nat.eqb_refl]. exfalso.
           pose proof (R4 a Ha Hd Hga) as H4. rewrite <- E in H4. exact (xlt_xleo_false _ _ Elt H4).
    + rewrite ENv. symmetry. apply sumn_pick. exact Hv.
  - destruct (xeq (Some (cur + G2 v w)) (sD st w)) eqn:Eeq.
    + (* equal: one more predecessor *)
      assert (Ew : sD st w = Some (cur + G2 v w)).
      { unfold xeq in Eeq. destruct (sD st w) as [d|]; [|discriminate]. apply Z.eqb_eq in Eeq. congruence. }
      unfold Rrow. cbn [sD sNP sP]. rewrite vupd_same. split; [exact R0|]. split; [|split].
      * intros a Ha [Hd|[-> _]] Hga; [apply R4; assumption|]. rewrite Ew. apply xleo_refl.
      * intros a Ha. destruct (Nat.eq_dec a v) as [->|Hav].
        -- rewrite upd_same. split; [intros _|reflexivity]. right. split; [right; auto|]. split; [exact Hg|exact Ew].
        -- rewrite upd_other by (right; exact Hav). rewrite (R1 a Ha).
           split; (intros [H|(H1 & H2)]; [left; exact H|right; split; [|exact H2]]); [left; exact H1|].
           destruct H1 as [H1|[H1 _]]; [exact H1|contradiction].
      * rewrite R2, ENv. rewrite (sumn_split _ n v Hv), (sumn_split (fun a => b2z (upd (sP st) w v true w a) * NP0 a) n v Hv).
        rewrite upd_same, HPwv. cbn [b2z].
        rewrite (sumn_ext (fun i => if Nat.eqb i v then 0 else b2z (upd (sP st) w v true w i) * NP0 i)
                          (fun i => if Nat.eqb i v then 0 else b2z (sP st w i) * NP0 i)); [lia|].
        intros i _. destruct (Nat.eqb_spec i v) as [|Hiv]; [reflexivity|]. rewrite upd_other by (right; exact Hiv). reflexivity.
    + (* longer: nothing changes *)
      unfold Rrow. split; [exact R0|]. split; [|split; [|exact R2]].
      * intros a Ha [Hd|[-> _]] Hga; [apply R4; assumption|]. apply xlt_false_xleo. exact Elt.
      * intros a Ha. rewrite (R1 a Ha). split; (intros [H|(H1 & H2)]; [left; exact H|]).
        -- right. split; [left; exact H1|exact H2].
        -- destruct H1 as [H1|[-> _]]; [right; split; [exact H1|exact H2]|]. exfalso. destruct H2 as [_ E].
           rewrite E in Eeq. cbn in Eeq. rewrite Z.eqb_refl in Eeq. discriminate.
Qed.

Lemma fold_relax_Ct v : (v < n)%nat -> S1 v = false -> D0 v = Some cur -> (forall x, (x < n)%nat -> P0 x v = false) ->
  forall l (done : nat -> nat -> Prop) st, NoDup l ->
  (forall w, In w l -> (w < n)%nat /\ G2 v w <> 0 /\ ~ done v w) -> Ct done st ->
  Ct (fun a b => done a b \/ (a = v /\ In b l)) (fold_left (relax_w G2 v) l st).
Proof.
  intros Hv HSv HDv HP0. induction l as [|w l IH]; intros done st Hnd Hl HC; cbn [fold_left].
  - apply (Ct_ext done); [|exact HC]. intros a b _ _. split; [intros [H|[_ []]]; exact H|auto].
  - inversion Hnd as [|? ? Hw Hnd']; subst. destruct (Hl w (or_introl eq_refl)) as (Hwn & Hg & Hdn).
    pose proof (relax_Ct done st v w Hv Hwn HSv HDv Hg (HP0 w Hwn) Hdn HC) as HC1.
    assert (Hl' : forall b, In b l -> (b < n)%nat /\ G2 v b <> 0 /\ ~ (done v b \/ (v = v /\ b = w))).
    { intros b Hb. destruct (Hl b (or_intror Hb)) as (H1 & H2 & H3). split; [exact H1|]. split; [exact H2|].
      intros [H|[_ H]]; [contradiction|]. subst b. contradiction. }
    specialize (IH _ _ Hnd' Hl' HC1).
    eapply Ct_ext; [|apply IH].
    intros a b _ _. cbn [In]. split.
    + intros [H|[H1 [H2|H2]]]; [left; left; exact H|left; right; auto|right; auto].
    + intros [[H|[H1 H2]]|[H1 H2]]; [left; exact H|right; auto|right; auto].
Qed.

Lemma visit_Ct (done : nat -> nat -> Prop) st v : (v < n)%nat -> S1 v = false -> D0 v = Some cur ->
  (forall x, (x < n)%nat -> P0 x v = false) -> (forall b, ~ done v b) -> Ct done st ->
  Ct (fun a b => done a b \/ (a = v /\ G2 v b <> 0)) (visit_w n G2 st v).
Proof.
  intros Hv HSv HDv HP0 Hdn HC. unfold visit_w.
  assert (HC' : Ct done (push st v)) by exact HC.
  pose proof (fold_relax_Ct v Hv HSv HDv HP0 (wherev n (fun w => nzb (G2 v w))) done (push st v) (wherev_NoDup _ _)) as H.
  apply (Ct_ext (fun a b => done a b \/ (a = v /\ In b (wherev n (fun w => nzb (G2 v w)))))); [|apply H; [|exact HC']].
  - intros a b Ha Hb. rewrite wherev_In. unfold nzb. rewrite negb_true_iff, Z.eqb_neq. tauto.
  - intros w Hw. apply wherev_In in Hw. destruct Hw as [H1 H2]. unfold nzb in H2. apply negb_true_iff, Z.eqb_neq in H2.
    split; [exact H1|]. split; [exact H2|apply Hdn].
Qed.

Lemma fold_visit_Ct : forall V' (done : nat -> nat -> Prop) st, NoDup V' ->
  (forall v, In v V' -> (v < n)%nat /\ S1 v = false /\ D0 v = Some cur /\ (forall x, (x < n)%nat -> P0 x v = false) /\
                        forall b, ~ done v b) ->
  Ct done st -> Ct (fun a b => done a b \/ (In a V' /\ G2 a b <> 0)) (fold_left (visit_w n G2) V' st).
Proof.
  induction V' as [|v V' IH]; intros done st Hnd HV HC; cbn [fold_left].
  - apply (Ct_ext done); [|exact HC]. intros a b _ _. split; [intros [H|[[] _]]; exact H|auto].
  - inversion Hnd as [|? ? Hv Hnd']; subst. destruct (HV v (or_introl eq_refl)) as (H1 & H2 & H3 & H4 & H5).
    pose proof (visit_Ct done st v H1 H2 H3 H4 H5 HC) as HC1.
    assert (HV' : forall v0, In v0 V' -> (v0 < n)%nat /\ S1 v0 = false /\ D0 v0 = Some cur /\
              (forall x, (x < n)%nat -> P0 x v0 = false) /\ forall b, ~ (done v0 b \/ (v0 = v /\ G2 v b <> 0))).
    { intros v0 Hv0. destruct (HV v0 (or_intror Hv0)) as (A1 & A2 & A3 & A4 & A5). repeat split; auto.
      intros b [H|[-> _]]; [exact (A5 b H)|contradiction]. }
    specialize (IH _ _ Hnd' HV' HC1). eapply Ct_ext; [|exact IH].
    intros a b _ _. cbn [In]. split.
    + intros [H|[[->|H1'] H2']]; [left; left; exact H|left; right; auto|right; auto].
    + intros [[H|[-> H2']]|[H1' H2']]; [left; exact H|right; auto|right; auto].
Qed.
End Round.

(* ---------- one round of `while True` re-establishes the loop-head invariant LH (BetweenQueue) ---------- *)
Lemma LH_round n G u : nonneg_len n G -> forall Sm G1 V st cur, LH n G u Sm G1 V st cur ->
  let S1 := tabv false n (fun i => if nmem i V then false else Sm i) in
  let G2 := zero_cols n V G1 in
  let st0 := fold_left (visit_w n G2) V st in
  let st1 := tab_sst n st0 in
  (forall x, (x < n)%nat -> (S1 x = false <-> In x V \/ Sm x = false)) /\
  (forall i j, (i < n)%nat -> (j < n)%nat -> G2 i j <> 0 -> 0 < G2 i j /\ S1 j = true) /\
  (forall i j, (i < n)%nat -> (j < n)%nat -> G2 i j = if S1 j then G i j else 0) /\
  (forall v, In v V -> (v < n)%nat /\ S1 v = false /\ sD st v = Some cur) /\
  (forall x, (x < n)%nat -> S1 x = false -> exists d, sD st1 x = Some d /\ d <= cur) /\
  (forall m, wherev n S1 <> [] -> min_over (sD st1) (wherev n S1) = Some m ->
     LH n G u S1 G2 (wherev n (fun i => xeq (sD st1 i) (Some m))) st1 m) /\
  (wherev n S1 <> [] -> min_over (sD st1) (wherev n S1) = None ->
     forall x, (x < n)%nat -> S1 x = true -> sD st1 x = None).
Proof.
  intros Hnn Sm G1 V st cur H S1 G2 st0 st1.
  pose proof (LH_V_le_qf _ _ _ _ _ _ _ _ H) as HVq.
  destruct H as [Hqf Hnd Hvis HvisD Hsort HVne HVnd HV HS HG1 Hlast HP HNP HG1x Hcl].
  assert (HS1 : forall x, (x < n)%nat -> S1 x = if nmem x V then false else Sm x).
  { intros x Hx. unfold S1. apply tabv_spec. exact Hx. }
  assert (HS1f : forall x, (x < n)%nat -> (S1 x = false <-> In x V \/ Sm x = false)).
  { intros x Hx. rewrite (HS1 x Hx). destruct (nmem x V) eqn:E.
    - apply nmem_In in E. tauto.
    - apply nmem_false in E. split; [auto|]. intros [?|?]; [contradiction|assumption]. }
  assert (HS1t : forall x, (x < n)%nat -> (S1 x = true <-> ~ In x V /\ Sm x = true)).
  { intros x Hx. rewrite (HS1 x Hx). destruct (nmem x V) eqn:E.
    - apply nmem_In in E. split; [discriminate|tauto].
    - apply nmem_false in E. tauto. }
  assert (HG2 : forall i j, (i < n)%nat -> (j < n)%nat -> G2 i j <> 0 -> 0 < G2 i j /\ S1 j = true).
  { intros i j Hi Hj. unfold G2, zero_cols. rewrite tab_spec by assumption.
    destruct (nmem j V) eqn:E; [congruence|]. intros Hne. destruct (HG1 i j Hi Hj Hne) as [H1 H2].
    split; [exact H1|]. apply HS1t; [exact Hj|]. apply nmem_false in E. auto. }
  assert (HB0 : Bt n S1 (sD st) cur st).
  { unfold Bt. split; [auto|split; [|split]].
    - intros x Hx Hx1. apply HS1t in Hx1; [|exact Hx]. destruct Hx1 as [HnV HSx].
      destruct (HS x Hx HSx) as [E|[d [E Hd]]]; [left; exact E|]. right. exists d. split; [exact E|].
      destruct (Z.eq_dec d cur) as [->|Hne]; [|lia]. exfalso. apply HnV. apply HV. auto.
    - intros x w Hx Hw E. destruct (HP x w Hx Hw E) as [H1 H2]. split; [|exact H2].
      apply HS1f; [exact Hw|]. right; exact H1.
    - exact HNP. }
  assert (HVprop : forall v, In v V -> (v < n)%nat /\ S1 v = false /\ sD st v = Some cur).
  { intros v Hv. pose proof (proj1 (HV v) Hv) as (H1 & H2 & H3). split; [exact H1|]. split; [|exact H3].
    apply HS1f; [exact H1|]. left; exact Hv. }
  pose proof (fold_visit_Bt n G2 S1 (sD st) cur HG2 V st HVprop HB0) as HBt. fold st0 in HBt.
  destruct (fold_visit_vis n G2 V st HVq Hqf) as [Hvis0 Hqf0]. fold st0 in Hvis0, Hqf0.
  destruct (tab_sst_spec n st0) as (TD & TNP & TP & TQ & Tqf). fold st1 in TD, TNP, TP, TQ, Tqf.
  assert (Hqf1 : sqf st1 = (sqf st - length V)%nat) by congruence.
  assert (Hvis1 : vis n st1 = rev V ++ vis n st).
  { unfold st1. rewrite tab_sst_vis by lia. exact Hvis0. }
  destruct HBt as (B1 & B2 & B3 & B4).
  (* the new permanent set *)
  assert (Hvis1_in : forall x, In x (vis n st1) <-> (x < n)%nat /\ S1 x = false).
  { intros x. rewrite Hvis1, in_app_iff, <- in_rev, Hvis. split.
    - intros [Hx|[Hx Hx']].
      + pose proof (proj1 (HV x) Hx) as (H1 & _). split; [exact H1|]. apply HS1f; auto.
      + split; [exact Hx|]. apply HS1f; auto.
    - intros [Hx Hx']. apply HS1f in Hx'; [|exact Hx]. tauto. }
  assert (Hnd1 : NoDup (vis n st1)).
  { rewrite Hvis1. apply NoDup_app_intro; [apply NoDup_rev; exact HVnd|exact Hnd|].
    intros z Hz Hz'. apply in_rev in Hz. apply HV in Hz. apply Hvis in Hz'.
    destruct Hz as (_ & E & _), Hz' as (_ & E'). congruence. }
  assert (HvisD1 : forall x, In x (vis n st1) -> exists d, sD st1 x = Some d /\ d <= cur).
  { intros x Hx. pose proof (proj1 (Hvis1_in x) Hx) as [Hxn Hx1].
    rewrite (TD x Hxn), (B1 x Hxn Hx1). rewrite Hvis1, in_app_iff, <- in_rev in Hx. destruct Hx as [Hx|Hx].
    - apply HV in Hx. destruct Hx as (_ & _ & E). exists cur. split; [exact E|lia].
    - apply HvisD; exact Hx. }
  assert (Hsort1 : StronglySorted (fun a b => xle (sD st1 b) (sD st1 a)) (vis n st1)).
  { apply (sorted_ext (fun a b => xle (sD st b) (sD st a))).
    - intros a b Ha Hb. pose proof (proj1 (Hvis1_in a) Ha) as [Han Ha1]. pose proof (proj1 (Hvis1_in b) Hb) as [Hbn Hb1].
      rewrite (TD a Han), (TD b Hbn), (B1 a Han Ha1), (B1 b Hbn Hb1). auto.
    - rewrite Hvis1. apply sorted_app.
      + apply sorted_all. intros a b Ha Hb. apply in_rev in Ha. apply in_rev in Hb.
        apply HV in Ha. apply HV in Hb. destruct Ha as (_ & _ & ->), Hb as (_ & _ & ->). cbn. lia.
      + exact Hsort.
      + intros a b Ha Hb. apply in_rev in Ha. apply HV in Ha. destruct Ha as (_ & _ & ->).
        destruct (HvisD b Hb) as [d [-> Hd]]. cbn. exact Hd. }
  assert (Hlast1 : last (vis n st1) u = u) by (rewrite Hvis1; exact Hlast).
  assert (Hvis1_ne : vis n st1 <> []).
  { rewrite Hvis1. destruct V as [|v V']; [congruence|]. cbn [rev]. intros E.
    apply app_eq_nil in E. destruct E as [E _]. apply app_eq_nil in E. destruct E as [_ E]. discriminate. }
  assert (HP1 : forall x w, (x < n)%nat -> (w < n)%nat -> sP st1 x w = true ->
            S1 w = false /\ exists dw g, sD st1 w = Some dw /\ 0 < g /\ sD st1 x = Some (dw + g)).
  { intros x w Hx Hw. rewrite (TP x w Hx Hw). intros E. destruct (B3 x w Hx Hw E) as [H1 (dw & g & H2 & H3 & H4)].
    split; [exact H1|]. exists dw, g. rewrite (TD w Hw), (TD x Hx), (B1 w Hw H1). auto. }
  assert (HNP1 : forall x, (x < n)%nat -> sD st1 x <> None -> 0 < sNP st1 x).
  { intros x Hx. rewrite (TD x Hx), (TNP x Hx). apply B4; exact Hx. }
  assert (HS1D : forall x, (x < n)%nat -> S1 x = true -> sD st1 x = None \/ exists d, sD st1 x = Some d /\ cur < d).
  { intros x Hx. rewrite (TD x Hx). apply B2; exact Hx. }
  assert (Hqf1n : (sqf st1 <= n)%nat) by lia.
  assert (HG2x : forall i j, (i < n)%nat -> (j < n)%nat -> G2 i j = if S1 j then G i j else 0).
  { intros i j Hi Hj. unfold G2, zero_cols. rewrite tab_spec by assumption. rewrite (HS1 j Hj), (HG1x i j Hi Hj).
    destruct (nmem j V); reflexivity. }
  assert (Hcl1 : forall v w, (v < n)%nat -> (w < n)%nat -> S1 v = false -> G v w <> 0 ->
            exists dv dw, sD st1 v = Some dv /\ sD st1 w = Some dw /\ dw <= dv + G v w).
  { intros v w Hv Hw Hv1 Hg. rewrite (TD v Hv), (TD w Hw), (B1 v Hv Hv1).
    assert (Hgpos : 0 < G v w) by (specialize (Hnn v w Hv Hw); lia).
    pose proof Hv1 as Hv1'. apply HS1f in Hv1'; [|exact Hv]. destruct Hv1' as [HvV|HvS].
    + pose proof (proj1 (HV v) HvV) as (_ & _ & Ev). exists cur. rewrite Ev.
      destruct (S1 w) eqn:Ew1.
      * destruct (fold_visit_w_setq n G2 V cur st) with (v := v) (w := w) as (dw & H1 & H2); auto.
        -- intros x Hx. apply HV in Hx. destruct Hx as (_ & _ & E). exists cur. split; [exact E|lia].
        -- rewrite (HG2x v w Hv Hw), Ew1. exact Hg.
        -- exists dw. fold st0 in H1. rewrite (HG2x v w Hv Hw), Ew1 in H2. auto.
      * assert (Hin : In w (vis n st1)) by (apply Hvis1_in; auto).
        destruct (HvisD1 w Hin) as [d [E Hd]]. rewrite (TD w Hw) in E. exists d. split; [reflexivity|]. split; [exact E|lia].
    + destruct (Hcl v w Hv Hw HvS Hg) as (dv & dw & E1 & E2 & Hle). exists dv. rewrite E1.
      destruct (fold_visit_w_dec n G2 V st w dw E2) as (dw' & H1 & H2). fold st0 in H1.
      exists dw'. split; [reflexivity|]. split; [exact H1|lia]. }
  split; [exact HS1f|]. split; [exact HG2|]. split; [exact HG2x|]. split; [exact HVprop|]. split; [|split].
  - intros x Hx Hx1. apply HvisD1. apply Hvis1_in. auto.
  - intros m Hselne Em. set (sel := wherev n S1) in *.
    assert (Hsel : forall x, In x sel <-> (x < n)%nat /\ S1 x = true) by (intros x; apply wherev_In).
    destruct (min_over_spec (sD st1) sel Hselne) as [Hmin [xm [Hxm Hxm']]]. rewrite Em in Hmin, Hxm'.
  assert (Hm : cur < m).
  { apply Hsel in Hxm. destruct Hxm as [H1 H2]. destruct (HS1D xm H1 H2) as [E|[d [E Hd]]]; congruence. }
  assert (HV' : forall v, In v (wherev n (fun i => xeq (sD st1 i) (Some m))) <->
                  (v < n)%nat /\ S1 v = true /\ sD st1 v = Some m).
  { intros v. rewrite wherev_In. split.
    - intros [Hv E]. split; [exact Hv|]. unfold xeq in E. destruct (sD st1 v) as [d|] eqn:Ed; [|discriminate].
      apply Z.eqb_eq in E. subst d. split; [|reflexivity].
      destruct (S1 v) eqn:ES; [reflexivity|]. exfalso.
      assert (In v (vis n st1)) by (apply Hvis1_in; auto). destruct (HvisD1 v H) as [d [E1 E2]]. 
      assert (d = m) by congruence. lia.
    - intros (Hv & _ & E). split; [exact Hv|]. rewrite E. cbn. apply Z.eqb_refl. }
  constructor; auto.
  * intros x Hx. destruct (HvisD1 x Hx) as [d [E Hd]]. exists d. split; [exact E|lia].
  * intros E. assert (In xm (wherev n (fun i => xeq (sD st1 i) (Some m)))).
    { apply HV'. apply Hsel in Hxm. destruct Hxm. auto. }
    rewrite E in H. exact H.
  * apply wherev_NoDup.
  * intros x Hx Hx1. assert (Hin : In x sel) by (apply Hsel; auto). specialize (Hmin x Hin).
    destruct (sD st1 x) as [d|]; [|left; reflexivity]. right. exists d. split; [reflexivity|exact Hmin].
  * rewrite last_app_ne by exact Hvis1_ne. exact Hlast1.
  - intros Hselne Em. set (sel := wherev n S1) in *.
    assert (Hsel : forall x, In x sel <-> (x < n)%nat /\ S1 x = true) by (intros x; apply wherev_In).
    destruct (min_over_spec (sD st1) sel Hselne) as [Hmin _]. rewrite Em in Hmin.
    intros x Hx Hx1. assert (Hin : In x sel) by (apply Hsel; auto). specialize (Hmin x Hin).
    destruct (sD st1 x); [contradiction|reflexivity].
Qed.

(* ---------- the counting invariant at the loop head ---------- *)
Definition LC (n : nat) (G : mat Z) (u : nat) (Sm : vec bool) (st : sst) : Prop :=
  (forall x, (x < n)%nat -> x <> u -> sNP st x = sumn (fun v => b2z (sP st x v) * sNP st v) n) /\
  sNP st u = 1 /\ (forall v, (v < n)%nat -> sP st u v = false) /\
  (forall x v, (x < n)%nat -> (v < n)%nat ->
     (sP st x v = true <-> Sm v = false /\ G v x <> 0 /\ exists dv, sD st v = Some dv /\ sD st x = Some (dv + G v x))).

Lemma LC_round n G u : nonneg_len n G -> forall Sm G1 V st cur, LH n G u Sm G1 V st cur ->
  LC n G u Sm st -> (Sm u = false \/ In u V) ->
  let S1 := tabv false n (fun i => if nmem i V then false else Sm i) in
  let G2 := zero_cols n V G1 in
  let st1 := tab_sst n (fold_left (visit_w n G2) V st) in
  LC n G u S1 st1 /\ S1 u = false.
Proof.
  intros Hnn Sm G1 V st cur H (L1 & L2 & L2' & L3) L4 S1 G2 st1.
  pose proof (LH_round n G u Hnn Sm G1 V st cur H) as HR. cbn zeta in HR. fold S1 G2 in HR. fold st1 in HR.
  destruct HR as (HS1f & HG2 & HG2x & HVprop & HD1 & _ & _).
  destruct H as [Hqf Hnd Hvis HvisD Hsort HVne HVnd HV HS HG1 Hlast HP HNP HG1x Hcl].
  assert (Hu : (u < n)%nat).
  { destruct L4 as [E|E]; [|apply HV in E; tauto]. destruct (Nat.lt_ge_cases u n) as [|Hge]; [assumption|exfalso].
    (* u >= n: then V would be empty of candidates ... use the last element of the queue *)
    assert (Hin : In u (rev V ++ vis n st)).
    { rewrite <- Hlast. assert (Hne : rev V ++ vis n st <> []).
      { destruct V as [|v V']; [congruence|]. cbn [rev]. intros E'. apply app_eq_nil in E'. destruct E' as [E' _].
        apply app_eq_nil in E'. destruct E' as [_ E']. discriminate. }
      destruct (exists_last Hne) as [l' [z Ez]]. rewrite Ez, last_last. apply in_app_iff. right. left. reflexivity. }
    apply in_app_iff in Hin. destruct Hin as [Hin|Hin]; [apply in_rev, HV in Hin|apply Hvis in Hin]; lia. }
  assert (HS1u : S1 u = false) by (apply HS1f; [exact Hu|tauto]).
  split; [|exact HS1u].
  set (st0 := fold_left (visit_w n G2) V st) in *.
  (* the round-level invariant *)
  assert (HC0 : Ct n G2 S1 (sD st) (sNP st) (sP st) cur (fun _ _ => False) st).
  { split.
    - intros x Hx _. unfold Frow. auto.
    - intros w Hw HSw. unfold Rrow. split; [apply xleo_refl|]. split; [intros v _ []|]. split.
      + intros v Hv. split; [auto|]. intros [[E _]|[[] _]]. exact E.
      + apply L1; [exact Hw|]. intros ->. congruence. }
  assert (HVc : forall v, In v V -> (v < n)%nat /\ S1 v = false /\ sD st v = Some cur /\
            (forall x, (x < n)%nat -> sP st x v = false) /\ forall b : nat, ~ False).
  { intros v Hv. destruct (HVprop v Hv) as (A1 & A2 & A3). repeat split; auto.
    intros x Hx. destruct (sP st x v) eqn:E; [|reflexivity]. apply (L3 x v Hx A1) in E. destruct E as [E _].
    apply HV in Hv. destruct Hv as (_ & E' & _). congruence. }
  pose proof (fold_visit_Ct n G2 S1 (sD st) (sNP st) (sP st) cur HG2 V (fun _ _ => False) st HVnd HVc HC0) as [F R].
  fold st0 in F, R.
  destruct (tab_sst_spec n st0) as (TD & TNP & TP & _ & _). fold st1 in TD, TNP, TP.
  assert (HSmS1 : forall v, (v < n)%nat -> Sm v = false -> S1 v = false) by (intros v Hv E; apply HS1f; auto).
  assert (Hgpos : forall v x, (v < n)%nat -> (x < n)%nat -> G v x <> 0 -> 0 < G v x).
  { intros v x Hv Hx Hg. specialize (Hnn v x Hv Hx). lia. }
  unfold LC. split; [|split; [|split]].
  - (* path counts *)
    intros x Hx Hxu. rewrite (TNP x Hx). destruct (S1 x) eqn:ESx.
    + destruct (R x Hx ESx) as (_ & _ & A1 & A2). rewrite A2. apply sumn_ext. intros v Hv.
      rewrite (TP x v Hx Hv). destruct (sP st0 x v) eqn:E; [|reflexivity]. f_equal.
      rewrite (TNP v Hv). apply (A1 v Hv) in E. symmetry.
      destruct E as [[E _]|[[[]|[E _]] _]].
      * apply (L3 x v Hx Hv) in E. destruct E as [E _]. apply (F v Hv (HSmS1 v Hv E)).
      * destruct (HVprop v E) as (_ & E' & _). apply (F v Hv E').
    + destruct (F x Hx ESx) as (_ & EN & EP). rewrite EN, (L1 x Hx Hxu). apply sumn_ext. intros v Hv.
      rewrite (TP x v Hx Hv), (EP v Hv). destruct (sP st x v) eqn:E; [|reflexivity]. f_equal.
      rewrite (TNP v Hv). apply (L3 x v Hx Hv) in E. destruct E as [E _]. symmetry. apply (F v Hv (HSmS1 v Hv E)).
  - rewrite (TNP u Hu). destruct (F u Hu HS1u) as (_ & EN & _). congruence.
  - intros v Hv. rewrite (TP u v Hu Hv). destruct (F u Hu HS1u) as (_ & _ & EP). rewrite (EP v Hv). apply L2'; exact Hv.
  - (* predecessor links = tight connections out of permanent nodes *)
    intros x v Hx Hv. rewrite (TP x v Hx Hv), (TD x Hx), (TD v Hv). destruct (S1 x) eqn:ESx.
    + destruct (R x Hx ESx) as (A0 & _ & A1 & _). rewrite (A1 v Hv). split.
      * intros [[E ED]|[[[]|[E Hg]] ED]].
        -- apply (L3 x v Hx Hv) in E. destruct E as (E1 & E2 & dv & E3 & E4).
           split; [apply HSmS1; assumption|]. split; [exact E2|]. exists dv.
           destruct (F v Hv (HSmS1 v Hv E1)) as (EDv & _). rewrite EDv, ED. auto.
        -- destruct (HVprop v E) as (_ & E1 & E2). split; [exact E1|].
           assert (EG : G2 v x = G v x) by (rewrite (HG2x v x Hv Hx), ESx; reflexivity).
           rewrite EG in Hg, ED. split; [exact Hg|]. exists cur.
           destruct (F v Hv E1) as (EDv & _). rewrite EDv. split; [exact E2|exact (proj2 ED)].
      * intros (E1 & Hg & dv & E3 & E4). destruct (F v Hv E1) as (EDv & _). rewrite EDv in E3.
        apply (HS1f v Hv) in E1. destruct E1 as [E1|E1].
        -- right. split; [right; split; [exact E1|rewrite (HG2x v x Hv Hx), ESx; exact Hg]|].
           rewrite (HG2x v x Hv Hx), ESx. apply HV in E1. destruct E1 as (_ & _ & E1).
           assert (dv = cur) by congruence. subst dv. split; [exact Hg|exact E4].
        -- left. destruct (Hcl v x Hv Hx E1 Hg) as (dv' & dw & C1 & C2 & C3).
           assert (dv' = dv) by congruence. subst dv'. rewrite E4, C2 in A0. cbn in A0.
           assert (dw = dv + G v x) by lia. subst dw. split; [|congruence].
           apply (L3 x v Hx Hv). split; [exact E1|]. split; [exact Hg|]. exists dv. auto.
    + destruct (F x Hx ESx) as (EDx & _ & EP). rewrite (EP v Hv), EDx, (L3 x v Hx Hv). split.
      * intros (E1 & E2 & dv & E3 & E4). split; [apply HSmS1; assumption|]. split; [exact E2|]. exists dv.
        destruct (F v Hv (HSmS1 v Hv E1)) as (EDv & _). rewrite EDv. auto.
      * intros (E1 & Hg & dv & E3 & E4). destruct (F v Hv E1) as (EDv & _). rewrite EDv in E3.
        apply (HS1f v Hv) in E1. destruct E1 as [E1|E1]; [exfalso|split; [exact E1|]; split; [exact Hg|]; exists dv; auto].
        apply HV in E1. destruct E1 as (_ & _ & E1). assert (dv = cur) by congruence. subst dv.
        destruct (HD1 x Hx ESx) as (d & C1 & C2). rewrite (TD x Hx), EDx, E4 in C1.
        inversion C1. pose proof (Hgpos v x Hv Hx Hg). lia.
Qed.

(* what the finished search state satisfies *)
Definition CF (n : nat) (G : mat Z) (u : nat) (st : sst) : Prop :=
  (forall x v, (x < n)%nat -> (v < n)%nat ->
     (sP st x v = true <-> G v x <> 0 /\ exists dv, sD st v = Some dv /\ sD st x = Some (dv + G v x))) /\
  sNP st u = 1 /\
  (forall x, (x < n)%nat -> x <> u -> sNP st x = sumn (fun v => b2z (sP st x v) * sNP st v) n).

Lemma search_w_counts n G u : nonneg_len n G -> forall fuel Sm G1 V st cur st',
  LH n G u Sm G1 V st cur -> LC n G u Sm st -> (Sm u = false \/ In u V) ->
  search_w fuel n Sm G1 V st = Some st' -> CF n G u st'.
Proof.
  intros Hnn. induction fuel as [|f IH]; intros Sm G1 V st cur st' H HL L4 E; [discriminate|].
  cbn [search_w] in E.
  pose proof (LH_round n G u Hnn Sm G1 V st cur H) as HR. cbn zeta in HR.
  pose proof (LC_round n G u Hnn Sm G1 V st cur H HL L4) as HC. cbn zeta in HC.
  set (S1 := tabv false n (fun i => if nmem i V then false else Sm i)) in *.
  set (G2 := zero_cols n V G1) in *.
  set (st1 := tab_sst n (fold_left (visit_w n G2) V st)) in *.
  destruct HR as (_ & _ & _ & _ & HD1 & Hnext & Hnone).
  destruct HC as [(L1 & L2 & L2' & L3) HS1u].
  assert (Hfin : (forall v dv, (v < n)%nat -> sD st1 v = Some dv -> S1 v = false) -> CF n G u st1).
  { intros Hs. split; [|split; [exact L2|exact L1]]. intros x v Hx Hv. rewrite (L3 x v Hx Hv). split.
    - intros (_ & A & B). auto.
    - intros (A & dv & B & C). split; [apply (Hs v dv Hv B)|]. split; [exact A|]. exists dv. auto. }
  destruct (wherev n S1) as [|a sel'] eqn:Esel.
  - inversion E; subst st'. apply Hfin. intros v dv Hv _. destruct (S1 v) eqn:ES; [|reflexivity]. exfalso.
    assert (In v (wherev n S1)) by (apply wherev_In; auto). rewrite Esel in H0. exact H0.
  - cbn zeta in E. assert (Hne : a :: sel' <> []) by discriminate.
    destruct (min_over (sD st1) (a :: sel')) as [m|] eqn:Em; cbn [isinf] in E.
    + refine (IH S1 G2 _ st1 m st' _ _ _ E); [apply Hnext; [exact Hne|reflexivity]| |left; exact HS1u].
      unfold LC. auto.
    + unfold fill_front in E. destruct (Nat.eqb _ _); [|discriminate]. inversion E; subst st'.
      assert (Hc : CF n G u st1).
      { apply Hfin. intros v dv Hv Ed. destruct (S1 v) eqn:ES; [|reflexivity].
        rewrite (Hnone Hne eq_refl v Hv ES) in Ed. discriminate. }
      exact Hc.
Qed.

(* ---------- the weighted search in full ---------- *)
Theorem source_w_counts n G u : (u < n)%nat -> nonneg_len n G ->
  exists st, source_w n G u = Some st /\ queue_ok n u st /\ closed n G st /\
    (forall x, (x < n)%nat -> sD st x = dist_spec n G u x) /\ counts_ok n G u st.
Proof.
  intros Hu HG. destruct (queue_slots_w_closed n G u Hu HG) as (st & E & Hok & Hcl). exists st.
  split; [exact E|]. split; [exact Hok|]. split; [exact Hcl|].
  destruct (search_w_dist n G u Hu HG) as (st' & E' & _ & HD & _).
  assert (st' = st) by congruence. subst st'. split; [exact HD|].
  assert (HC : CF n G u st).
  { unfold source_w in E. apply (search_w_counts n G u HG n _ _ _ _ 0 st (LH_init n G u Hu HG)); [|right; left; reflexivity|exact E].
    unfold LC, init_w. cbn [sD sNP sP]. split; [|split; [|split]].
    - intros x Hx Hxu. rewrite vupd_other by exact Hxu. symmetry. rewrite (sumn_ext _ (fun _ => 0)); [apply sumn_zero|]. reflexivity.
    - apply vupd_same.
    - reflexivity.
    - intros x v _ _. split; [discriminate|]. intros [A _]. discriminate. }
  destruct HC as (C1 & C2 & C3). split; [|split; [exact C2|exact C3]].
  intros w v Hw Hv. destruct (tightb n G u v w) eqn:Et.
  - apply (C1 w v Hw Hv). apply tightb_true in Et. destruct Et as [He (dv & E1 & E2)].
    unfold edge in He. apply negb_true_iff, Z.eqb_neq in He. split; [exact He|]. exists dv.
    rewrite (HD v Hv), (HD w Hw). auto.
  - destruct (sP st w v) eqn:Ep; [|reflexivity]. apply (C1 w v Hw Hv) in Ep. destruct Ep as [Hg (dv & E1 & E2)].
    rewrite <- Et. symmetry. apply tightb_true. split; [unfold edge; apply negb_true_iff, Z.eqb_neq; exact Hg|].
    exists dv. rewrite <- (HD v Hv), <- (HD w Hw). auto.
Qed.

Print Assumptions source_w_counts.
