(* Proofs/RewireFuel.v — the two connectivity searches of Model/Rewire.v are given the fuel `S n`.  That is enough:
   every round that does not stop adds at least one node < n to the first row of PN (the new frontier is non-empty and
   disjoint from PN), so after at most `free n PN0 <= n` rounds the search has stopped by itself.  Consequently the
   answer does not depend on the fuel (any two fuels above `free n PN0` give the same answer) and the `false` that the
   Fixpoint returns at fuel 0 is never what decides a test: soundness (Proofs/RewireConn.v) is not the soundness of a
   search cut short. *)
From Coq Require Import ZArith List Arith Bool Lia.
From BCT Require Import Base.Mat Base.ListX Model.Rewire Proofs.RewireConn.
Import ListNotations.

(* nodes of [0,n) not yet in PN *)
Definition free (n : nat) (PN : bset) : nat := length (filter (fun y => negb (PN y)) (seq 0 n)).

Lemma filter_length_le {A} (f : A -> bool) l : (length (filter f l) <= length l)%nat.
Proof. induction l as [|x l IH]; cbn [filter length]; [lia|]. destruct (f x); cbn [length]; lia. Qed.

Lemma free_le n PN : (free n PN <= n)%nat.
Proof. unfold free. rewrite <- (seq_length n 0) at 2. apply filter_length_le. Qed.

Lemma filter_mono {A} (f g : A -> bool) l :
  (forall y, In y l -> g y = true -> f y = true) -> (length (filter g l) <= length (filter f l))%nat.
Proof.
  induction l as [|y l IH]; intros H; cbn [filter length]; [lia|].
  assert (IH' := IH (fun z Hz => H z (or_intror Hz))).
  destruct (g y) eqn:G.
  - rewrite (H y (or_introl eq_refl) G). cbn [length]. lia.
  - destruct (f y); cbn [length]; lia.
Qed.

Lemma filter_lt {A} (f g : A -> bool) l x :
  In x l -> f x = true -> g x = false -> (forall y, In y l -> g y = true -> f y = true) ->
  (length (filter g l) < length (filter f l))%nat.
Proof.
  induction l as [|y l IH]; intros Hx Fx Gx H; [contradiction|]. cbn [filter].
  assert (Hm := filter_mono f g l (fun z Hz => H z (or_intror Hz))).
  destruct Hx as [->|Hx].
  - rewrite Fx, Gx. cbn [length]. lia.
  - assert (IH' := IH Hx Fx Gx (fun z Hz => H z (or_intror Hz))).
    destruct (g y) eqn:G.
    + rewrite (H y (or_introl eq_refl) G). cbn [length]. lia.
    + destruct (f y); cbn [length]; lia.
Qed.

(* a non-empty new frontier (disjoint from PN by construction) strictly shrinks the free set *)
Lemma free_step n (E PN : bset) :
  let Q := tabv false n (fun y => (E y && negb (PN y))%bool) in
  anyb n Q = true ->
  (free n (tabv false n (fun y => (PN y || Q y)%bool)) < free n PN)%nat.
Proof.
  intros Q HA. unfold anyb in HA. apply existsb_exists in HA. destruct HA as [x [Hx Qx]].
  unfold free. apply (filter_lt _ _ _ x Hx).
  - apply tabv_true in Qx. destruct Qx as [_ Qx]. apply andb_true_iff in Qx. tauto.
  - apply in_seq in Hx. rewrite tabv_spec by lia. rewrite Qx, orb_true_r. reflexivity.
  - intros y Hy G. apply in_seq in Hy. rewrite tabv_spec in G by lia.
    apply negb_true_iff in G. apply orb_false_iff in G. destruct G as [G _]. rewrite G. reflexivity.
Qed.

(* ---------- undirected search ---------- *)
Lemma und_conn_loop_fuel n R b c : forall f1 f2 P0 P1 PN0 PN1,
  (free n PN0 < f1)%nat -> (free n PN0 < f2)%nat ->
  und_conn_loop f1 n R b c P0 P1 PN0 PN1 = und_conn_loop f2 n R b c P0 P1 PN0 PN1.
Proof.
  induction f1 as [|f1 IH]; intros f2 P0 P1 PN0 PN1 H1 H2; [lia|]. destruct f2 as [|f2]; [lia|].
  cbn [und_conn_loop].
  set (Q0 := tabv false n (fun y => (expand n R P0 y && negb (PN0 y))%bool)).
  set (Q1 := tabv false n (fun y => (expand n R P1 y && negb (PN1 y))%bool)).
  destruct (anyb n Q0) eqn:A0; [|reflexivity].
  destruct (negb (true && anyb n Q1)); [reflexivity|].
  destruct (Q0 b || Q0 c || Q1 b || Q1 c)%bool; [reflexivity|].
  pose proof (free_step n (expand n R P0) PN0 A0) as Hs. fold Q0 in Hs.
  apply IH; lia.
Qed.

(* the fuel handed over by und_conn_guard is enough; more fuel changes nothing *)
Theorem und_conn_fuel_enough n R b c f P0 P1 PN0 PN1 : (S n <= f)%nat ->
  und_conn_loop f n R b c P0 P1 PN0 PN1 = und_conn_loop (S n) n R b c P0 P1 PN0 PN1.
Proof. intros H. pose proof (free_le n PN0). apply und_conn_loop_fuel; lia. Qed.

(* ---------- directed search ---------- *)
Lemma dir_conn_loop_fuel n R a b c d : forall f1 f2 P0 P1 PN0 PN1,
  (free n PN0 < f1)%nat -> (free n PN0 < f2)%nat ->
  dir_conn_loop f1 n R a b c d P0 P1 PN0 PN1 = dir_conn_loop f2 n R a b c d P0 P1 PN0 PN1.
Proof.
  induction f1 as [|f1 IH]; intros f2 P0 P1 PN0 PN1 H1 H2; [lia|]. destruct f2 as [|f2]; [lia|].
  cbn [dir_conn_loop].
  set (Q0 := tabv false n (fun y => (expand n R P0 y && negb (PN0 y))%bool)).
  set (Q1 := tabv false n (fun y => (expand n R P1 y && negb (PN1 y))%bool)).
  set (N0 := tabv false n (fun y => (PN0 y || Q0 y)%bool)).
  set (N1 := tabv false n (fun y => (PN1 y || Q1 y)%bool)).
  destruct (anyb n Q0) eqn:A0; [|reflexivity].
  destruct (negb (true && anyb n Q1)); [reflexivity|].
  destruct ((N0 b || N0 c) && (N1 d || N1 a))%bool; [reflexivity|].
  pose proof (free_step n (expand n R P0) PN0 A0) as Hs. fold Q0 in Hs. fold N0 in Hs.
  apply IH; lia.
Qed.

Theorem dir_conn_fuel_enough n R a b c d f P0 P1 PN0 PN1 : (S n <= f)%nat ->
  dir_conn_loop f n R a b c d P0 P1 PN0 PN1 = dir_conn_loop (S n) n R a b c d P0 P1 PN0 PN1.
Proof. intros H. pose proof (free_le n PN0). apply dir_conn_loop_fuel; lia. Qed.

(* ---------- the searches with an explicit "out of fuel" answer ---------- *)
(* same loops, but fuel 0 answers None: with the fuel of the guards the answer is never None, and it is the
   answer of the loops of Model/Rewire.v *)
Fixpoint und_conn_loop_o (fuel n : nat) (R : mat Z) (b c : nat) (P0 P1 PN0 PN1 : bset) : option bool :=
  match fuel with
  | O => None
  | S f =>
    let Q0 := tabv false n (fun y => (expand n R P0 y && negb (PN0 y))%bool) in
    let Q1 := tabv false n (fun y => (expand n R P1 y && negb (PN1 y))%bool) in
    if negb (anyb n Q0 && anyb n Q1) then Some false
    else if (Q0 b || Q0 c || Q1 b || Q1 c)%bool then Some true
    else und_conn_loop_o f n R b c Q0 Q1
           (tabv false n (fun y => (PN0 y || Q0 y)%bool)) (tabv false n (fun y => (PN1 y || Q1 y)%bool))
  end.

Lemma und_conn_loop_total n R b c : forall f P0 P1 PN0 PN1,
  (free n PN0 < f)%nat ->
  und_conn_loop_o f n R b c P0 P1 PN0 PN1 = Some (und_conn_loop f n R b c P0 P1 PN0 PN1).
Proof.
  induction f as [|f IH]; intros P0 P1 PN0 PN1 H; [lia|].
  cbn [und_conn_loop und_conn_loop_o].
  set (Q0 := tabv false n (fun y => (expand n R P0 y && negb (PN0 y))%bool)).
  set (Q1 := tabv false n (fun y => (expand n R P1 y && negb (PN1 y))%bool)).
  destruct (anyb n Q0) eqn:A0; [|reflexivity].
  destruct (negb (true && anyb n Q1)); [reflexivity|].
  destruct (Q0 b || Q0 c || Q1 b || Q1 c)%bool; [reflexivity|].
  pose proof (free_step n (expand n R P0) PN0 A0) as Hs. fold Q0 in Hs.
  apply IH; lia.
Qed.

Fixpoint dir_conn_loop_o (fuel n : nat) (R : mat Z) (a b c d : nat) (P0 P1 PN0 PN1 : bset) : option bool :=
  match fuel with
  | O => None
  | S f =>
    let Q0 := tabv false n (fun y => (expand n R P0 y && negb (PN0 y))%bool) in
    let Q1 := tabv false n (fun y => (expand n R P1 y && negb (PN1 y))%bool) in
    let N0 := tabv false n (fun y => (PN0 y || Q0 y)%bool) in
    let N1 := tabv false n (fun y => (PN1 y || Q1 y)%bool) in
    if negb (anyb n Q0 && anyb n Q1) then Some false
    else if ((N0 b || N0 c) && (N1 d || N1 a))%bool then Some true
    else dir_conn_loop_o f n R a b c d Q0 Q1 N0 N1
  end.

Lemma dir_conn_loop_total n R a b c d : forall f P0 P1 PN0 PN1,
  (free n PN0 < f)%nat ->
  dir_conn_loop_o f n R a b c d P0 P1 PN0 PN1 = Some (dir_conn_loop f n R a b c d P0 P1 PN0 PN1).
Proof.
  induction f as [|f IH]; intros P0 P1 PN0 PN1 H; [lia|].
  cbn [dir_conn_loop dir_conn_loop_o].
  set (Q0 := tabv false n (fun y => (expand n R P0 y && negb (PN0 y))%bool)).
  set (Q1 := tabv false n (fun y => (expand n R P1 y && negb (PN1 y))%bool)).
  set (N0 := tabv false n (fun y => (PN0 y || Q0 y)%bool)).
  set (N1 := tabv false n (fun y => (PN1 y || Q1 y)%bool)).
  destruct (anyb n Q0) eqn:A0; [|reflexivity].
  destruct (negb (true && anyb n Q1)); [reflexivity|].
  destruct ((N0 b || N0 c) && (N1 d || N1 a))%bool; [reflexivity|].
  pose proof (free_step n (expand n R P0) PN0 A0) as Hs. fold Q0 in Hs. fold N0 in Hs.
  apply IH; lia.
Qed.

(* with the fuel S n of the guards the searches always stop by themselves *)
Theorem und_conn_never_out_of_fuel n R b c P0 P1 PN0 PN1 :
  und_conn_loop_o (S n) n R b c P0 P1 PN0 PN1 = Some (und_conn_loop (S n) n R b c P0 P1 PN0 PN1).
Proof. apply und_conn_loop_total. pose proof (free_le n PN0). lia. Qed.
Theorem dir_conn_never_out_of_fuel n R a b c d P0 P1 PN0 PN1 :
  dir_conn_loop_o (S n) n R a b c d P0 P1 PN0 PN1 = Some (dir_conn_loop (S n) n R a b c d P0 P1 PN0 PN1).
Proof. apply dir_conn_loop_total. pose proof (free_le n PN0). lia. Qed.

(* both facts together, as cited by Properties/C11.v *)
Theorem und_search_fuel n R b c P0 P1 PN0 PN1 :
  und_conn_loop_o (S n) n R b c P0 P1 PN0 PN1 = Some (und_conn_loop (S n) n R b c P0 P1 PN0 PN1) /\
  forall f, (S n <= f)%nat -> und_conn_loop f n R b c P0 P1 PN0 PN1 = und_conn_loop (S n) n R b c P0 P1 PN0 PN1.
Proof. split; [apply und_conn_never_out_of_fuel|intros f Hf; apply und_conn_fuel_enough; exact Hf]. Qed.
Theorem dir_search_fuel n R a b c d P0 P1 PN0 PN1 :
  dir_conn_loop_o (S n) n R a b c d P0 P1 PN0 PN1 = Some (dir_conn_loop (S n) n R a b c d P0 P1 PN0 PN1) /\
  forall f, (S n <= f)%nat -> dir_conn_loop f n R a b c d P0 P1 PN0 PN1 = dir_conn_loop (S n) n R a b c d P0 P1 PN0 PN1.
Proof. split; [apply dir_conn_never_out_of_fuel|intros f Hf; apply dir_conn_fuel_enough; exact Hf]. Qed.
