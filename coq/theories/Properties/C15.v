(* Properties/C15.v — k-core / s-core outputs are the maximal sub-networks meeting the degree bound.
   Only statements; every proof is `exact <lemma of Proofs/Core.v>`.
   Vocabulary (Proofs/Core.v):
     restrictA A W i j   = if A i && A j then W i j else 0          (W restricted to the node set A)
     dgc c n M j         = sum_{i<n} c (M i j) (M j i)              (degree of j in M; c = contribution of one pair)
     din c n W A j       = dgc c n (restrictA A W) j                (degree of j INSIDE the node set A)
     core r j            = qltb 0 (pr_deg r j)                      (the nodes counted by kn = np.sum(deg > 0))
     feasible c n W k S  = forall j<n, S j -> k <= din c n W S j /\ 0 < din c n W S j
     card n A            = number of j<n with A j *)
From Coq Require Import QArith List Arith Bool ZArith Lia.
From BCT Require Import Base.Mat Base.SumQ Base.ListX Model.Core Proofs.Core Proofs.CoreFull.
Import ListNotations.
Open Scope Q_scope.

Section GenericPeel.
(* one peeling loop for the three routines: the degree is ANY function that is a sum of pair contributions
   with c 0 0 = 0 (kcore_bu: c a b = nz a; kcore_bd: nz a + nz b; score_wu: a — instances below) *)
Variable c : Q -> Q -> Q.
Hypothesis c_proper : forall a a' b b', a == a' -> b == b' -> c a b == c a' b'.
Hypothesis c00 : c 0 0 == 0.
Variable dg : nat -> mat Q -> vec Q.
Hypothesis dg_spec : forall n M j, dg n M j == dgc c n M j.
Variables (n : nat) (W : mat Q) (k : Q).

(* fuel n+1 is never exhausted (each round zeroes at least one node never zeroed before) — no hypothesis on W *)
Theorem C15_peel_terminates : exists r, peel dg n W k = Some r.
Proof. exact (peel_terminates c c_proper c00 dg dg_spec n W k). Qed.

Variable r : peel_res.
Hypothesis Hrun : peel dg n W k = Some r.
(* contributions are >= 0 and vanish only when there is no link in either direction
   (always true for kcore_bd; for kcore_bu on symmetric W; for score_wu on symmetric non-negative W) *)
Hypothesis Hnn : nonneg_contrib c n W.
Hypothesis Hz : zero_contrib c n W.

Theorem C15_core_is_feasible : forall j, (j < n)%nat -> core r j = true ->
  k <= din c n W (core r) j /\ 0 < din c n W (core r) j.
Proof. exact (core_is_feasible c c_proper c00 dg dg_spec n W k r Hrun Hnn Hz). Qed.

(* ANY node set whose members all have degree >= k (and > 0, automatic for k > 0) inside the set survives *)
Theorem C15_core_is_maximal : forall S : nat -> bool,
  (forall j, (j < n)%nat -> S j = true -> k <= din c n W S j /\ 0 < din c n W S j) ->
  forall j, (j < n)%nat -> S j = true -> core r j = true.
Proof. exact (core_is_maximal c c_proper c00 dg dg_spec n W k r Hrun Hnn). Qed.

Theorem C15_core_matrix_is_restriction : forall i j, (i < n)%nat -> (j < n)%nat ->
  pr_M r i j == restrictA (core r) W i j.
Proof. exact (core_matrix_is_restriction c c_proper c00 dg dg_spec n W k r Hrun Hnn Hz). Qed.

Theorem C15_kn_is_size :
  kn_of n (pr_deg r) = card n (core r) /\
  forall S : nat -> bool, (forall j, (j < n)%nat -> S j = true -> k <= din c n W S j /\ 0 < din c n W S j) ->
    (card n S <= kn_of n (pr_deg r))%nat.
Proof. split; [reflexivity|exact (kn_is_largest c c_proper c00 dg dg_spec n W k r Hrun Hnn)]. Qed.

(* the k = 0 quirk: for k <= 0 nothing is peeled and kn counts the NON-ISOLATED nodes of the input *)
Theorem C15_k_nonpositive : k <= 0 ->
  pr_M r = W /\ pr_order r = [] /\ pr_level r = [] /\ forall j, (j < n)%nat -> pr_deg r j == dgc c n W j.
Proof. exact (k_nonpositive c dg dg_spec n W k r Hrun). Qed.

Theorem C15_cores_nested : forall k' r', k <= k' -> peel dg n W k' = Some r' ->
  forall j, (j < n)%nat -> core r' j = true -> core r j = true.
Proof. intros k' r' Hk Hr'. exact (cores_nested c c_proper c00 dg dg_spec n W Hnn Hz k k' r r' Hk Hrun Hr'). Qed.

(* peelorder lists each explicitly zeroed node exactly once, never a core node; peellevel = round numbers;
   a node neither listed nor in the core has no link left among the unlisted nodes *)
Theorem C15_peel_each_once :
  (NoDup (concat (pr_order r)) /\
   (forall x, In x (concat (pr_order r)) -> (x < n)%nat /\ core r x = false) /\
   pr_level r = levels_from 0 (pr_order r) /\ pr_iter r = length (pr_order r) /\
   Forall (fun ff => ff <> []) (pr_order r) /\
   (forall j, (j < n)%nat -> survivors r j = negb (nmem j (concat (pr_order r))))) /\
  (forall j, (j < n)%nat -> ~ In j (concat (pr_order r)) -> core r j = false -> din c n W (survivors r) j == 0).
Proof.
  split; [exact (peel_each_once c c_proper c00 dg dg_spec n W k r Hrun)|
          exact (unlisted_noncore_isolated c c_proper c00 dg dg_spec n W k r Hrun Hnn)].
Qed.
End GenericPeel.

(* the bundle [core_spec c n W k r] is literally the conjunction of the clauses above *)
Theorem C15_core_spec_unfold : forall c n W k r, core_spec c n W k r <->
  (feasible c n W k (core r) /\
   (forall S, feasible c n W k S -> forall j, (j < n)%nat -> S j = true -> core r j = true) /\
   (forall i j, (i < n)%nat -> (j < n)%nat -> pr_M r i j == restrictA (core r) W i j) /\
   kn_of n (pr_deg r) = card n (core r) /\
   (forall S, feasible c n W k S -> (card n S <= kn_of n (pr_deg r))%nat)).
Proof. intros. reflexivity. Qed.

(* the three routines: all n, all (rational) matrices in the routine's domain, all k / s *)
Theorem C15_kcore_bu : forall n W k, symmetric n W ->
  exists r, kcore_bu n W k = Some r /\ core_spec c_bu n W k r.
Proof. exact kcore_bu_correct. Qed.

Theorem C15_kcore_bd : forall n W k, exists r, kcore_bd n W k = Some r /\ core_spec c_bd n W k r.
Proof. exact kcore_bd_correct. Qed.

Theorem C15_score_wu : forall n W s, symmetric n W -> nonneg n W ->
  exists r, score_wu n W s = Some r /\ core_spec c_wu n W s r.
Proof. exact score_wu_correct. Qed.

Theorem C15_instances_degrees : forall n M j,
  deg_und n M j == dgc c_bu n M j /\ deg_dir n M j == dgc c_bd n M j /\ str_und n M j == dgc c_wu n M j.
Proof. intros n M j. exact (conj (deg_und_spec n M j) (conj (deg_dir_spec n M j) (str_und_spec n M j))). Qed.

(* coreness: [coreb dg n W k j] = membership of j in the k-core; for 1 <= k' < n: j in core k' <=> k' <= coreness j *)
Theorem C15_coreness_spec_unfold : forall dg n W cor kn, coreness_spec dg n W cor kn <->
  (length kn = n /\
   (forall k', (k' < n)%nat -> nth k' kn 0%nat = card n (coreb dg n W (qn k'))) /\
   (forall j, (j < n)%nat -> (cor j <= pred n)%nat /\
      forall k', (1 <= k')%nat -> (k' < n)%nat -> (coreb dg n W (qn k') j = true <-> (k' <= cor j)%nat))).
Proof. intros. reflexivity. Qed.

Theorem C15_coreness_is_max_k_bu : forall n W, symmetric n W -> nonneg n W ->
  exists cor kn, kcoreness_centrality_bu n W = Some (cor, kn) /\
    coreness_spec deg_und n (bu_prep n W) cor kn /\
    (forall A j, (j < n)%nat -> din c_bu n (bu_prep n W) A j == din c_bu n W A j).
Proof. exact kcoreness_bu_correct. Qed.

(* undirected without self-loops: no k >= n has a non-empty core, so the scan k < n finds the true maximum *)
Theorem C15_coreness_bu_complete : forall n W k j, symmetric n W -> (forall i, (i < n)%nat -> W i i == 0) ->
  inject_Z (Z.of_nat n) <= k -> (j < n)%nat -> coreb deg_und n W k j = false.
Proof. exact kcoreness_bu_complete. Qed.

(* directed: correct for every k' < n ... *)
Theorem C15_coreness_is_max_k_bd : forall n W, nonneg n W ->
  exists cor kn, kcoreness_centrality_bd n W = Some (cor, kn) /\ coreness_spec deg_dir n W cor kn.
Proof. exact kcoreness_bd_correct. Qed.

(* ... but the FULL statement "coreness j is the largest k whose core contains j" is false of the faithful model:
   in+out degree reaches 2(n-1) and the scan stops at n-1 (known open finding kcoreness_centrality_bd:k-range) *)
Definition coreness_bd_full_statement : Prop :=
  forall n W cor kn j k', nonneg n W -> kcoreness_centrality_bd n W = Some (cor, kn) -> (j < n)%nat ->
    coreb deg_dir n W (qn k') j = true -> (k' <= cor j)%nat.
Theorem C15_coreness_bd_truncated_refuted :
  exists n W cor kn j k', nonneg n W /\ kcoreness_centrality_bd n W = Some (cor, kn) /\ (j < n)%nat /\
    coreb deg_dir n W (qn k') j = true /\ (cor j < k')%nat.
Proof. exact kcoreness_bd_truncated_refuted. Qed.

(* ================= the routines as called: `peel` argument, both return shapes, default path ================= *)
(* peel_py = the loop with `if peel:` around the two appends and the two `return` statements (Model/Core.v).
   Whatever the flag: same matrix, same kn; peelorder/peellevel are returned only under the flag. *)
Theorem C15_peel_flag : forall dg n W k b,
  peel_py dg n W k b =
  match peel dg n W k with
  | None => None
  | Some r => Some (pr_M r, kn_of n (pr_deg r), if b then Some (pr_order r, pr_level r) else None)
  end.
Proof. exact peel_py_spec. Qed.

(* kcoreness_centrality_* call kcore_b?(CIJ, k) with the default peel=False and unpack the 2-tuple *)
Theorem C15_kcoreness_default_path : forall n W,
  kcoreness_centrality_bu_py n W = kcoreness_centrality_bu n W /\
  kcoreness_centrality_bd_py n W = kcoreness_centrality_bd n W.
Proof. intros n W. exact (conj (kcoreness_bu_py_eq n W) (kcoreness_bd_py_eq n W)). Qed.

(* ================= the anchor mechanism: what one round removes ================= *)
(* violators c n W k A = the nodes j < n with 0 < (degree of j inside A) < k, ascending *)
Theorem C15_violators_unfold : forall c n W k A,
  violators c n W k A = filter (fun j => qltb (din c n W A j) k && qltb 0 (din c n W A j)) (seq 0 n).
Proof. intros. reflexivity. Qed.

Theorem C15_rounds_spec_unfold : forall c n W k r, rounds_spec c n W k r <->
  ((forall t, (t < length (pr_order r))%nat ->
      nth t (pr_order r) [] = violators c n W k (alive (firstn t (pr_order r)))) /\
   violators c n W k (alive (pr_order r)) = []).
Proof. intros. reflexivity. Qed.

(* round t+1 zeroes EXACTLY the nodes with 0 < deg < k in the sub-network left by rounds 1..t; the loop stops exactly
   when there is none. For any pair-contribution degree, any W (no hypothesis), any k. *)
Theorem C15_peel_round_is_violators :
  forall (c : Q -> Q -> Q) (dg : nat -> mat Q -> vec Q),
  (forall a a' b b', a == a' -> b == b' -> c a b == c a' b') -> c 0 0 == 0 ->
  (forall n M j, dg n M j == dgc c n M j) ->
  forall n W k r, peel dg n W k = Some r -> rounds_spec c n W k r.
Proof. intros c dg Hp H0 Hs n W k r. exact (peel_round_is_violators c Hp H0 dg Hs n W k r). Qed.

(* ================= nestedness and peel order, per routine (closed statements) ================= *)
Theorem C15_nested_spec_unfold : forall n r r', nested_spec n r r' <->
  ((forall j, (j < n)%nat -> core r' j = true -> core r j = true) /\
   (kn_of n (pr_deg r') <= kn_of n (pr_deg r))%nat /\
   (forall i j, (i < n)%nat -> (j < n)%nat -> pr_M r' i j == restrictA (core r') (pr_M r) i j)).
Proof. intros. reflexivity. Qed.

(* k <= k': the k'-core is inside the k-core, is not larger, and its matrix is the k-core matrix restricted to it *)
Theorem C15_kcore_bu_nested : forall n W k k' r r', symmetric n W -> k <= k' ->
  kcore_bu n W k = Some r -> kcore_bu n W k' = Some r' -> nested_spec n r r'.
Proof. exact kcore_bu_nested. Qed.
Theorem C15_kcore_bd_nested : forall n W k k' r r', k <= k' ->
  kcore_bd n W k = Some r -> kcore_bd n W k' = Some r' -> nested_spec n r r'.
Proof. exact kcore_bd_nested. Qed.
Theorem C15_score_wu_nested : forall n W s s' r r', symmetric n W -> nonneg n W -> s <= s' ->
  score_wu n W s = Some r -> score_wu n W s' = Some r' -> nested_spec n r r'.
Proof. exact score_wu_nested. Qed.

(* every node is exactly one of: listed (NoDup: in exactly one round, at its round number) | in the core |
   neither — and then it has no link left to any unlisted node (its degree fell to 0; the code does not list it) *)
Theorem C15_peel_once_spec_unfold : forall c n W r, peel_once_spec c n W r <->
  (NoDup (concat (pr_order r)) /\
   (forall x, In x (concat (pr_order r)) -> (x < n)%nat /\ core r x = false) /\
   pr_level r = levels_from 0 (pr_order r) /\ pr_iter r = length (pr_order r) /\
   Forall (fun ff => ff <> []) (pr_order r) /\
   (forall j, (j < n)%nat ->
      (In j (concat (pr_order r)) /\ core r j = false) \/
      (~ In j (concat (pr_order r)) /\ core r j = true) \/
      (~ In j (concat (pr_order r)) /\ core r j = false /\ din c n W (alive (pr_order r)) j == 0))).
Proof. intros. reflexivity. Qed.

Theorem C15_kcore_bu_peel : forall n W k r, kcore_bu n W k = Some r ->
  peel_once_spec c_bu n W r /\ rounds_spec c_bu n W k r.
Proof. exact kcore_bu_peel. Qed.
Theorem C15_kcore_bd_peel : forall n W k r, kcore_bd n W k = Some r ->
  peel_once_spec c_bd n W r /\ rounds_spec c_bd n W k r.
Proof. exact kcore_bd_peel. Qed.
(* score_wu returns no order: this is about the rounds of its loop *)
Theorem C15_score_wu_peel : forall n W s r, nonneg n W -> score_wu n W s = Some r ->
  peel_once_spec c_wu n W r /\ rounds_spec c_wu n W s r.
Proof. exact score_wu_peel. Qed.

(* one statement per routine AS CALLED (ret_of n r b = (pr_M r, kn, if b then Some (peelorder, peellevel) else None)) *)
Theorem C15_kcore_bu_as_called : forall n W k b, symmetric n W ->
  exists r, kcore_bu_py n W k b = Some (ret_of n r b) /\
    core_spec c_bu n W k r /\ peel_once_spec c_bu n W r /\ rounds_spec c_bu n W k r.
Proof. exact kcore_bu_py_correct. Qed.
Theorem C15_kcore_bd_as_called : forall n W k b,
  exists r, kcore_bd_py n W k b = Some (ret_of n r b) /\
    core_spec c_bd n W k r /\ peel_once_spec c_bd n W r /\ rounds_spec c_bd n W k r.
Proof. exact kcore_bd_py_correct. Qed.
Theorem C15_score_wu_as_called : forall n W s, symmetric n W -> nonneg n W ->
  exists r, score_wu_py n W s = Some (ret_of n r false) /\
    core_spec c_wu n W s r /\ rounds_spec c_wu n W s r.
Proof. exact score_wu_py_correct. Qed.

(* ================= kcoreness_centrality_bu: one statement about the routine on its real input ================= *)
(* coreness j = max { k >= 1 : j in the k-core } (0 if in none) for EVERY k (no bound), kn[k] = size of the k-core
   (kn[0] = number of non-isolated nodes: the k = 0 quirk above) *)
Theorem C15_coreness_full_unfold : forall dg n W cor kn, coreness_full dg n W cor kn <->
  (length kn = n /\
   (forall k', (k' < n)%nat -> nth k' kn 0%nat = card n (coreb dg n W (qn k'))) /\
   (forall j, (j < n)%nat -> forall k', (1 <= k')%nat -> (coreb dg n W (qn k') j = true <-> (k' <= cor j)%nat))).
Proof. intros. reflexivity. Qed.

(* W symmetric, entries >= 0 (positive weights are binarised by the routine), no self-loops; about W itself *)
Theorem C15_kcoreness_bu_full : forall n W, symmetric n W -> nonneg n W -> (forall i, (i < n)%nat -> W i i == 0) ->
  exists cor kn, kcoreness_centrality_bu n W = Some (cor, kn) /\ coreness_full deg_und n W cor kn.
Proof. exact kcoreness_bu_full. Qed.

(* asymmetric input, und_of W i j = [W i j + W j i > 0]: if SOME pair has W[i,j] + W[j,i] > 1 (a reciprocal pair of a
   binary digraph) the routine returns the coreness of the corresponding undirected network. No hypothesis on symmetry/sign. *)
Theorem C15_kcoreness_bu_symmetrises : forall n W,
  (exists i j, (i < n)%nat /\ (j < n)%nat /\ 1 < W i j + W j i) -> (forall i, (i < n)%nat -> W i i == 0) ->
  exists cor kn, kcoreness_centrality_bu n W = Some (cor, kn) /\ coreness_full deg_und n (und_of W) cor kn.
Proof. exact kcoreness_bu_symmetrises. Qed.

(* what the source comment promises for every directed input ("if not [undirected], compute coreness on the
   corresponding undirected network") is FALSE of the faithful model when no pair is reciprocal: `np.any(CIJund > 1)`
   does not fire and kcore_bu runs on in-degrees. Single arc 0 -> 1: node 0 is in the 1-core of the undirected network,
   coreness 0 is reported. Directed input is outside the domain of C15 for this routine (binary UNDIRECTED graphs):
   recorded as an observation in the manifest, not as a finding. *)
Definition coreness_bu_directed_statement : Prop :=
  forall n W cor kn, (forall a b, (a < n)%nat -> (b < n)%nat -> W a b == 0 \/ W a b == 1) ->
    (forall i, (i < n)%nat -> W i i == 0) ->
    kcoreness_centrality_bu n W = Some (cor, kn) -> coreness_full deg_und n (und_of W) cor kn.
Theorem C15_kcoreness_bu_single_arc_refuted :
  exists n W cor kn j,
    (forall a b, (a < n)%nat -> (b < n)%nat -> W a b == 0 \/ W a b == 1) /\ (forall i, (i < n)%nat -> W i i == 0) /\
    kcoreness_centrality_bu n W = Some (cor, kn) /\ (j < n)%nat /\
    coreb deg_und n (und_of W) (qn 1) j = true /\ cor j = 0%nat.
Proof. exact kcoreness_bu_single_arc_refuted. Qed.

(* non-vacuity: a triangle with a pendant path; the 2-core is the triangle, found after two rounds *)
Example C15_nonvacuous :
  let W := of_rows 0 [[0;1;1;0;0]; [1;0;1;0;0]; [1;1;0;1;0]; [0;0;1;0;1]; [0;0;0;1;0]]%list in
  symmetric 5 W /\
  exists r, kcore_bu 5 W 2 = Some r /\ kn_of 5 (pr_deg r) = 3%nat /\ pr_order r = [[4%nat]; [3%nat]]%list /\
            map (core r) (seq 0 5) = [true; true; true; false; false]%list.
Proof.
  split.
  - intros i j Hi Hj.
    destruct i as [|[|[|[|[|i]]]]]; [| | | | |lia]; (destruct j as [|[|[|[|[|j]]]]]; [| | | | |lia]); reflexivity.
  - eexists. split; [vm_compute; reflexivity|]. vm_compute. repeat split; reflexivity.
Qed.

(* non-vacuity of the new families on the same graph (weights 3 and 1/2 on two links: values are kept, not binarised) *)
Example C15_as_called_nonvacuous :
  let W := of_rows 0 [[0;3;1;0;0]; [3;0;1;0;0]; [1;1;0;(1#2);0]; [0;0;(1#2);0;1]; [0;0;0;1;0]]%list in
  option_map (fun x => (to_rows 5 5 (fst (fst x)), snd (fst x), snd x)) (kcore_bu_py 5 W 2 true) =
    Some ([[0;3;1;0;0]; [3;0;1;0;0]; [1;1;0;0;0]; [0;0;0;0;0]; [0;0;0;0;0]], 3%nat,
          Some ([[4%nat]; [3%nat]], [[1%nat]; [2%nat]]))%list /\
  option_map (fun x => (snd (fst x), snd x)) (kcore_bu_py 5 W 2 false) = Some (3%nat, None) /\
  violators c_bu 5 W 2 (alive []) = [4%nat]%list /\ violators c_bu 5 W 2 (alive [[4%nat]]%list) = [3%nat]%list /\
  violators c_bu 5 W 2 (alive [[4%nat]; [3%nat]]%list) = []%list.
Proof. vm_compute. repeat split; reflexivity. Qed.

Example C15_nested_nonvacuous :
  let W := of_rows 0 [[0;1;1;0;0]; [1;0;1;0;0]; [1;1;0;1;0]; [0;0;1;0;1]; [0;0;0;1;0]]%list in
  exists r r', kcore_bu 5 W 1 = Some r /\ kcore_bu 5 W 2 = Some r' /\
    kn_of 5 (pr_deg r) = 5%nat /\ kn_of 5 (pr_deg r') = 3%nat /\
    map (core r') (seq 0 5) = [true; true; true; false; false]%list.
Proof. eexists. eexists. split; [vm_compute; reflexivity|]. split; [vm_compute; reflexivity|]. vm_compute. repeat split; reflexivity. Qed.

Example C15_kcoreness_bu_nonvacuous :
  let W := of_rows 0 [[0;1;1;0;0]; [1;0;1;0;0]; [1;1;0;1;0]; [0;0;1;0;1]; [0;0;0;1;0]]%list in
  option_map (fun p => (to_list 5 (fst p), snd p)) (kcoreness_centrality_bu_py 5 W) =
    Some ([2;2;2;1;1], [5;5;3;0;0])%nat%list.
Proof. vm_compute. reflexivity. Qed.

(* reciprocal pair 0<->1 and one-way arcs 1->2, 2->0: the hypothesis of C15_kcoreness_bu_symmetrises holds and the
   result is that of the (undirected) triangle *)
Example C15_symmetrises_nonvacuous :
  let W := of_rows 0 [[0;1;0]; [1;0;1]; [1;0;0]]%list in
  (1 < W 0%nat 1%nat + W 1%nat 0%nat) /\
  option_map (fun p => (to_list 3 (fst p), snd p)) (kcoreness_centrality_bu 3 W) = Some ([2;2;2], [3;3;3])%nat%list.
Proof. split; vm_compute; reflexivity. Qed.

Print Assumptions C15_peel_terminates.
Print Assumptions C15_core_is_feasible.
Print Assumptions C15_core_is_maximal.
Print Assumptions C15_core_matrix_is_restriction.
Print Assumptions C15_kn_is_size.
Print Assumptions C15_k_nonpositive.
Print Assumptions C15_cores_nested.
Print Assumptions C15_peel_each_once.
Print Assumptions C15_core_spec_unfold.
Print Assumptions C15_kcore_bu.
Print Assumptions C15_kcore_bd.
Print Assumptions C15_score_wu.
Print Assumptions C15_instances_degrees.
Print Assumptions C15_coreness_spec_unfold.
Print Assumptions C15_coreness_is_max_k_bu.
Print Assumptions C15_coreness_bu_complete.
Print Assumptions C15_coreness_is_max_k_bd.
Print Assumptions C15_coreness_bd_truncated_refuted.
Print Assumptions C15_peel_flag.
Print Assumptions C15_kcoreness_default_path.
Print Assumptions C15_violators_unfold.
Print Assumptions C15_rounds_spec_unfold.
Print Assumptions C15_peel_round_is_violators.
Print Assumptions C15_nested_spec_unfold.
Print Assumptions C15_kcore_bu_nested.
Print Assumptions C15_kcore_bd_nested.
Print Assumptions C15_score_wu_nested.
Print Assumptions C15_peel_once_spec_unfold.
Print Assumptions C15_kcore_bu_peel.
Print Assumptions C15_kcore_bd_peel.
Print Assumptions C15_score_wu_peel.
Print Assumptions C15_kcore_bu_as_called.
Print Assumptions C15_kcore_bd_as_called.
Print Assumptions C15_score_wu_as_called.
Print Assumptions C15_coreness_full_unfold.
Print Assumptions C15_kcoreness_bu_full.
Print Assumptions C15_kcoreness_bu_symmetrises.
Print Assumptions C15_kcoreness_bu_single_arc_refuted.
