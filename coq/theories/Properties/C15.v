(* Properties/C15.v — k-core / s-core outputs are the maximal sub-networks meeting the degree bound.
   Only statements; every proof is `exact <lemma of Proofs/Core.v>`.
   Vocabulary (Proofs/Core.v):
     restrictA A W i j   = if A i && A j then W i j else 0          (W restricted to the node set A)
     dgc c n M j         = sum_{i<n} c (M i j) (M j i)              (degree of j in M; c = contribution of one pair)
     din c n W A j       = dgc c n (restrictA A W) j                (degree of j INSIDE the node set A)
     core r j            = qltb 0 (pr_deg r j)                      (the nodes counted by kn = np.sum(deg > 0))
     feasible c n W k S  = forall j<n, S j -> k <= din c n W S j /\ 0 < din c n W S j
     card n A            = number of j<n with A j *)
From Coq Require Import QArith List Arith Bool ZArith Lia.
From BCT Require Import Base.Mat Base.SumQ Base.ListX Model.Core Proofs.Core.
Import ListNotations.
Open Scope Q_scope.

Section GenericPeel.
(* one peeling loop for the three routines: the degree is ANY function that is a sum of pair contributions
   with c 0 0 = 0 (kcore_bu: c a b = nz a; kcore_bd: nz a + nz b; score_wu: a — instances below) *)
Variable c : Q -> Q -> Q.
Hypothesis c_proper : forall a a' b b', a == a' -> b == b' -> c a b == c a' b'.
Hypothesis c00 : c 0 0 == 0.
Variable dg : nat -> mat Q -> vec Q.
Hypothesis dg_spec : forall n M j, dg n M j == dgc c n M j.
Variables (n : nat) (W : mat Q) (k : Q).

(* fuel n+1 is never exhausted (each round zeroes at least one node never zeroed before) — no hypothesis on W *)
Theorem C15_peel_terminates : exists r, peel dg n W k = Some r.
Proof. exact (peel_terminates c c_proper c00 dg dg_spec n W k). Qed.

Variable r : peel_res.
Hypothesis Hrun : peel dg n W k = Some r.
(* contributions are >= 0 and vanish only when there is no link in either direction
   (always true for kcore_bd; for kcore_bu on symmetric W; for score_wu on symmetric non-negative W) *)
Hypothesis Hnn : nonneg_contrib c n W.
Hypothesis Hz : zero_contrib c n W.

Theorem C15_core_is_feasible : forall j, (j < n)%nat -> core r j = true ->
  k <= din c n W (core r) j /\ 0 < din c n W (core r) j.
Proof. exact (core_is_feasible c c_proper c00 dg dg_spec n W k r Hrun Hnn Hz). Qed.

(* ANY node set whose members all have degree >= k (and > 0, automatic for k > 0) inside the set survives *)
Theorem C15_core_is_maximal : forall S : nat -> bool,
  (forall j, (j < n)%nat -> S j = true -> k <= din c n W S j /\ 0 < din c n W S j) ->
  forall j, (j < n)%nat -> S j = true -> core r j = true.
Proof. exact (core_is_maximal c c_proper c00 dg dg_spec n W k r Hrun Hnn). Qed.

Theorem C15_core_matrix_is_restriction : forall i j, (i < n)%nat -> (j < n)%nat ->
  pr_M r i j == restrictA (core r) W i j.
Proof. exact (core_matrix_is_restriction c c_proper c00 dg dg_spec n W k r Hrun Hnn Hz). Qed.

Theorem C15_kn_is_size :
  kn_of n (pr_deg r) = card n (core r) /\
  forall S : nat -> bool, (forall j, (j < n)%nat -> S j = true -> k <= din c n W S j /\ 0 < din c n W S j) ->
    (card n S <= kn_of n (pr_deg r))%nat.
Proof. split; [reflexivity|exact (kn_is_largest c c_proper c00 dg dg_spec n W k r Hrun Hnn)]. Qed.

(* the k = 0 quirk: for k <= 0 nothing is peeled and kn counts the NON-ISOLATED nodes of the input *)
Theorem C15_k_nonpositive : k <= 0 ->
  pr_M r = W /\ pr_order r = [] /\ pr_level r = [] /\ forall j, (j < n)%nat -> pr_deg r j == dgc c n W j.
Proof. exact (k_nonpositive c dg dg_spec n W k r Hrun). Qed.

Theorem C15_cores_nested : forall k' r', k <= k' -> peel dg n W k' = Some r' ->
  forall j, (j < n)%nat -> core r' j = true -> core r j = true.
Proof. intros k' r' Hk Hr'. exact (cores_nested c c_proper c00 dg dg_spec n W Hnn Hz k k' r r' Hk Hrun Hr'). Qed.

(* peelorder lists each explicitly zeroed node exactly once, never a core node; peellevel = round numbers;
   a node neither listed nor in the core has no link left among the unlisted nodes *)
Theorem C15_peel_each_once :
  (NoDup (concat (pr_order r)) /\
   (forall x, In x (concat (pr_order r)) -> (x < n)%nat /\ core r x = false) /\
   pr_level r = levels_from 0 (pr_order r) /\ pr_iter r = length (pr_order r) /\
   Forall (fun ff => ff <> []) (pr_order r) /\
   (forall j, (j < n)%nat -> survivors r j = negb (nmem j (concat (pr_order r))))) /\
  (forall j, (j < n)%nat -> ~ In j (concat (pr_order r)) -> core r j = false -> din c n W (survivors r) j == 0).
Proof.
  split; [exact (peel_each_once c c_proper c00 dg dg_spec n W k r Hrun)|
          exact (unlisted_noncore_isolated c c_proper c00 dg dg_spec n W k r Hrun Hnn)].
Qed.
End GenericPeel.

(* the bundle [core_spec c n W k r] is literally the conjunction of the clauses above *)
Theorem C15_core_spec_unfold : forall c n W k r, core_spec c n W k r <->
  (feasible c n W k (core r) /\
   (forall S, feasible c n W k S -> forall j, (j < n)%nat -> S j = true -> core r j = true) /\
   (forall i j, (i < n)%nat -> (j < n)%nat -> pr_M r i j == restrictA (core r) W i j) /\
   kn_of n (pr_deg r) = card n (core r) /\
   (forall S, feasible c n W k S -> (card n S <= kn_of n (pr_deg r))%nat)).
Proof. intros. reflexivity. Qed.

(* the three routines: all n, all (rational) matrices in the routine's domain, all k / s *)
Theorem C15_kcore_bu : forall n W k, symmetric n W ->
  exists r, kcore_bu n W k = Some r /\ core_spec c_bu n W k r.
Proof. exact kcore_bu_correct. Qed.

Theorem C15_kcore_bd : forall n W k, exists r, kcore_bd n W k = Some r /\ core_spec c_bd n W k r.
Proof. exact kcore_bd_correct. Qed.

Theorem C15_score_wu : forall n W s, symmetric n W -> nonneg n W ->
  exists r, score_wu n W s = Some r /\ core_spec c_wu n W s r.
Proof. exact score_wu_correct. Qed.

Theorem C15_instances_degrees : forall n M j,
  deg_und n M j == dgc c_bu n M j /\ deg_dir n M j == dgc c_bd n M j /\ str_und n M j == dgc c_wu n M j.
Proof. intros n M j. exact (conj (deg_und_spec n M j) (conj (deg_dir_spec n M j) (str_und_spec n M j))). Qed.

(* coreness: [coreb dg n W k j] = membership of j in the k-core; for 1 <= k' < n: j in core k' <=> k' <= coreness j *)
Theorem C15_coreness_spec_unfold : forall dg n W cor kn, coreness_spec dg n W cor kn <->
  (length kn = n /\
   (forall k', (k' < n)%nat -> nth k' kn 0%nat = card n (coreb dg n W (qn k'))) /\
   (forall j, (j < n)%nat -> (cor j <= pred n)%nat /\
      forall k', (1 <= k')%nat -> (k' < n)%nat -> (coreb dg n W (qn k') j = true <-> (k' <= cor j)%nat))).
Proof. intros. reflexivity. Qed.

Theorem C15_coreness_is_max_k_bu : forall n W, symmetric n W -> nonneg n W ->
  exists cor kn, kcoreness_centrality_bu n W = Some (cor, kn) /\
    coreness_spec deg_und n (bu_prep n W) cor kn /\
    (forall A j, (j < n)%nat -> din c_bu n (bu_prep n W) A j == din c_bu n W A j).
Proof. exact kcoreness_bu_correct. Qed.

(* undirected without self-loops: no k >= n has a non-empty core, so the scan k < n finds the true maximum *)
Theorem C15_coreness_bu_complete : forall n W k j, symmetric n W -> (forall i, (i < n)%nat -> W i i == 0) ->
  inject_Z (Z.of_nat n) <= k -> (j < n)%nat -> coreb deg_und n W k j = false.
Proof. exact kcoreness_bu_complete. Qed.

(* directed: correct for every k' < n ... *)
Theorem C15_coreness_is_max_k_bd : forall n W, nonneg n W ->
  exists cor kn, kcoreness_centrality_bd n W = Some (cor, kn) /\ coreness_spec deg_dir n W cor kn.
Proof. exact kcoreness_bd_correct. Qed.

(* ... but the FULL statement "coreness j is the largest k whose core contains j" is false of the faithful model:
   in+out degree reaches 2(n-1) and the scan stops at n-1 (known open finding kcoreness_centrality_bd:k-range) *)
Definition coreness_bd_full_statement : Prop :=
  forall n W cor kn j k', nonneg n W -> kcoreness_centrality_bd n W = Some (cor, kn) -> (j < n)%nat ->
    coreb deg_dir n W (qn k') j = true -> (k' <= cor j)%nat.
Theorem C15_coreness_bd_truncated_refuted :
  exists n W cor kn j k', nonneg n W /\ kcoreness_centrality_bd n W = Some (cor, kn) /\ (j < n)%nat /\
    coreb deg_dir n W (qn k') j = true /\ (cor j < k')%nat.
Proof. exact kcoreness_bd_truncated_refuted. Qed.

(* non-vacuity: a triangle with a pendant path; the 2-core is the triangle, found after two rounds *)
Example C15_nonvacuous :
  let W := of_rows 0 [[0;1;1;0;0]; [1;0;1;0;0]; [1;1;0;1;0]; [0;0;1;0;1]; [0;0;0;1;0]]%list in
  symmetric 5 W /\
  exists r, kcore_bu 5 W 2 = Some r /\ kn_of 5 (pr_deg r) = 3%nat /\ pr_order r = [[4%nat]; [3%nat]]%list /\
            map (core r) (seq 0 5) = [true; true; true; false; false]%list.
Proof.
  split.
  - intros i j Hi Hj.
    destruct i as [|[|[|[|[|i]]]]]; [| | | | |lia]; (destruct j as [|[|[|[|[|j]]]]]; [| | | | |lia]); reflexivity.
  - eexists. split; [vm_compute; reflexivity|]. vm_compute. repeat split; reflexivity.
Qed.

Print Assumptions C15_peel_terminates.
Print Assumptions C15_core_is_feasible.
Print Assumptions C15_core_is_maximal.
Print Assumptions C15_core_matrix_is_restriction.
Print Assumptions C15_kn_is_size.
Print Assumptions C15_k_nonpositive.
Print Assumptions C15_cores_nested.
Print Assumptions C15_peel_each_once.
Print Assumptions C15_core_spec_unfold.
Print Assumptions C15_kcore_bu.
Print Assumptions C15_kcore_bd.
Print Assumptions C15_score_wu.
Print Assumptions C15_instances_degrees.
Print Assumptions C15_coreness_spec_unfold.
Print Assumptions C15_coreness_is_max_k_bu.
Print Assumptions C15_coreness_bu_complete.
Print Assumptions C15_coreness_is_max_k_bd.
Print Assumptions C15_coreness_bd_truncated_refuted.
