(* Properties/C01.v — degree-preserving rewiring keeps every node's degree and the weight multiset.
   Statements only; proofs are `exact <lemma>` of Proofs/Rewire*.v.
   Model: Model/Rewire.v (one engine for randmio_dir/_dir_connected/_und/_und_connected, latmio_dir/
   _dir_connected/_und/_und_connected, randomize_graph_partial_und), Model/RewireBin.v (the whole of randomizer_bin_und),
   Model/RewireSpec.v (the swap tables and their interpreter attempt_tab).
   "Every seed" = every stream of draws [s0].  A call ends in one of four distinguishable ways (Model/Rewire.v: outcome):
   Rejected (BCTParamError of the input checks), Raises (ZeroDivisionError for n < 2, ValueError of randint(0)),
   StreamEnd (the stream does not fit / is used up — also how the model follows a loop of the code that never ends) or
   Done res (the call returns).  The theorems speak about Done; the invariant is stated for EVERY recorded intermediate
   state, so a run cut anywhere satisfies it; C01_nothing_to_do* say when Done is certain from the input alone. *)
From Coq Require Import ZArith List Arith Permutation QArith.
From BCT Require Import Base.Mat Base.ListX Model.Rewire Model.RewireSpec Proofs.RewireSwap Proofs.RewireInv Proofs.RewireRun Proofs.RewireBin Proofs.RewireSpec Gen.RewireTable.
From BCT Require Import Model.Components Model.RewireBin Proofs.RewireBinFull Proofs.RewireBinZero Proofs.RewireOutcome Proofs.RewireDiag Proofs.RewireRefuted Proofs.RewireExamples.
Import ListNotations.
Open Scope Z_scope.

(* Inv: the edge index arrays (i,j) name exactly distinct present connections (and R symmetric, undirected);
   Same: out-/in-degree of every node, number of cells holding each value (the multiset of weights),
   no new self-connection, out-strength (directed).  Good = Inv /\ Same w.r.t. the matrix rewiring started from. *)

(* every reachable state of every run of the eight engine routines: final state and each accepted swap *)
Theorem C01_run_invariant : forall r n R0 itr D s0 res,
  run_routine r n R0 itr D s0 = Done res ->
  (is_und r = true -> forall x y, R0 x y = R0 y x) ->
  let R1 := pre_matrix r n R0 (r_perm res) in
  exists k st,
    r_rp res = sR st /\
    Good (is_und r) n k R1 st /\
    GoodTrace (is_und r) n k R1 (r_trace res) /\
    r_eff res = length (r_trace res) /\
    ((itr = O \/ r_eff res = O) -> r_rp res = R1).
Proof. exact run_routine_good. Qed.

(* the returned matrix under the caller's own node numbering (latticisers: after undoing ind_rp, which the
   stream must supply as a permutation of 0..n-1):
   out-degree, in-degree, weight multiset, no new self-connection, symmetry (undirected), out-strength (directed),
   identity when zero rewirings are requested or reported, Rlatt[ix_(ind_rp,ind_rp)] = Rrp *)
Theorem C01_run_caller : forall r n R0 itr D s0 res,
  run_routine r n R0 itr D s0 = Done res ->
  (is_und r = true -> forall x y, R0 x y = R0 y x) ->
  (is_latt r = true -> Permutation (r_perm res) (seq 0 n)) ->
  (forall x, (x < n)%nat -> outdeg n (r_out res) x = outdeg n R0 x) /\
  (forall y, (y < n)%nat -> indeg n (r_out res) y = indeg n R0 y) /\
  (forall w, wcount n (r_out res) w = wcount n R0 w) /\
  (forall x, (x < n)%nat -> R0 x x = 0 -> r_out res x x = 0) /\
  (is_und r = true -> forall x y, r_out res x y = r_out res y x) /\
  (is_und r = false -> forall x, (x < n)%nat -> outstr n (r_out res) x = outstr n R0 x) /\
  ((itr = O \/ r_eff res = O) -> forall x y, (x < n)%nat -> (y < n)%nat -> r_out res x y = R0 x y) /\
  (is_latt r = true -> forall x y, (x < n)%nat -> (y < n)%nat ->
      r_out res (nth x (r_perm res) O) (nth y (r_perm res) O) = r_rp res x y).
Proof. exact run_routine_caller. Qed.

(* randomize_graph_partial_und (a FULL statement about every run of that routine; the name is the routine's initials) *)
Theorem C01_rgpu_run : forall n A B maxswap s0 res,
  run_partial_und n A B maxswap s0 = Done res ->
  (forall x y, A x y = A y x) ->
  exists k st,
    r_out res = sR st /\ Good true n k A st /\ GoodTrace true n k A (r_trace res) /\
    (maxswap = O -> r_out res = A).
Proof. exact run_partial_good. Qed.

(* the same in the caller's vocabulary: degrees, weight multiset, diagonal carried over, symmetry, identity for maxswap = 0 *)
Theorem C01_rgpu_caller : forall n A B maxswap s0 res,
  run_partial_und n A B maxswap s0 = Done res ->
  (forall x y, A x y = A y x) ->
  (forall x, outdeg n (r_out res) x = outdeg n A x) /\
  (forall y, indeg n (r_out res) y = indeg n A y) /\
  (forall w, wcount n (r_out res) w = wcount n A w) /\
  (forall x, r_out res x x = A x x) /\
  (forall x y, r_out res x y = r_out res y x) /\
  (maxswap = O -> r_out res = A).
Proof. exact run_partial_caller. Qed.

(* zero rewirings requested, or no connection at all: the call RETURNS (n >= 2, checks passed) and returns the input.
   The code's `itr *= k; for it in range(itr)` has nothing to do; also for fewer than two edges, where the loops of the
   code could otherwise not terminate. *)
Theorem C01_nothing_to_do : forall r n R0 itr D s0,
  is_latt r = false -> precheck r n R0 = true -> (2 <= n)%nat ->
  (itr = O \/ count_edges (if is_und r then ELtril else ELall) n R0 = O) ->
  exists res, run_routine r n R0 itr D s0 = Done res /\
    r_out res = R0 /\ r_rp res = R0 /\ r_eff res = O /\ r_trace res = [] /\ r_left res = length s0.
Proof. exact run_nothing_to_do. Qed.

Theorem C01_nothing_to_do_latt : forall r n R0 itr D p s1,
  is_latt r = true -> precheck r n R0 = true -> (2 <= n)%nat ->
  let R1 := tab 0 n n (conj_perm (of_list O p) R0) in
  (itr = O \/ count_edges (if is_und r then ELtril else ELall) n R1 = O) ->
  exists res, run_routine r n R0 itr D (DPerm p :: s1) = Done res /\
    r_rp res = R1 /\ r_perm res = p /\ r_eff res = O /\ r_trace res = [] /\ r_left res = length s1 /\
    r_out res = (fun x y => R1 (index_of x p) (index_of y p)).
Proof. exact run_nothing_to_do_latt. Qed.

Theorem C01_rgpu_nothing_to_do : forall n A B s0,
  exists res, run_partial_und n A B 0 s0 = Done res /\ r_out res = A /\ r_trace res = [] /\ r_left res = length s0.
Proof. exact run_partial_nothing_to_do. Qed.

(* one attempt of the engine, accepted or not, for every draw and EVERY guard (lattice, connectivity, mask, or
   anything else): the invariant and the preserved quantities do not depend on the guard *)
Theorem C01_attempt : forall v n k st s st' s' o, (0 < k)%nat ->
  Inv (v_und v) n k st -> attempt v k st s = Some (st', s', o) ->
  Inv (v_und v) n k st' /\ Same (v_und v) n (sR st) (sR st') /\ (o = None -> sR st' = sR st).
Proof. exact attempt_spec. Qed.

(* randomizer_bin_und: its swap a-b, c-d -> a-c, b-d keeps every degree, the entry counts, symmetry and the
   diagonal of the working matrix.  (A full statement about one step; the whole routine is C01_rbu_full below.) *)
Theorem C01_rbu_step : forall R a b c d,
  a <> b -> a <> c -> a <> d -> b <> c -> b <> d -> c <> d ->
  (forall x y, R x y = R y x) -> rbu_admissible R a b c d = true ->
  forall n, (a < n)%nat -> (b < n)%nat -> (c < n)%nat -> (d < n)%nat ->
  (forall x, outdeg n (rbu_swap R a b c d) x = outdeg n R x) /\
  (forall w, wcount n (rbu_swap R a b c d) w = wcount n R w) /\
  (forall x y, rbu_swap R a b c d x y = rbu_swap R a b c d y x) /\
  (forall x, rbu_swap R a b c d x x = R x x).
Proof. exact rbu_step. Qed.

(* randomizer_bin_und, WHOLE routine (Model/RewireBin.v: binarise, symmetry check, inf sentinel, complement of dense
   graphs, masking and restoring of full nodes, mate search, swap, patch loop — statement by statement), every stream:
   the returned 0/1 matrix gives every node the degree it has in the support of the input, is symmetric, binary off the
   diagonal, has the input's (binarised) diagonal, the same number of connections; the binarised input is symmetric
   whenever the run returns (the model checks it); every recorded intermediate working matrix satisfies the loop
   invariant (edge arrays list exactly the connections, pairwise distinct as unordered pairs) and has the degrees of
   the working matrix the loop started from (rbu_start_degrees relates that matrix to the input). *)
Theorem C01_rbu_full : forall n R0 alpha s out tr lft,
  randomizer_bin_und n R0 alpha s = RbuOk out tr lft ->
  (forall x, (x < n)%nat -> offdeg n out x = offdeg n (bin01 R0) x) /\
  (forall x y, (x < n)%nat -> (y < n)%nat -> out x y = out y x) /\
  (forall x y, (x < n)%nat -> (y < n)%nat -> x <> y -> out x y = 0 \/ out x y = 1) /\
  (forall x, (x < n)%nat -> out x x = bin01 R0 x x) /\
  sumn (offdeg n out) n = sumn (offdeg n (bin01 R0)) n /\
  (forall x y, (x < n)%nat -> (y < n)%nat -> bin01 R0 x y = bin01 R0 y x) /\
  Forall (EvI n (rbu_k n R0) (rbu_R3 n R0)) tr.
Proof. exact rbu_full. Qed.

(* "equals the input when nothing is rewired": a run of the whole routine that records no swap returns the binarised
   input cell by cell (complement and back, masking full nodes and back, diagonal saved and restored) *)
Theorem C01_rbu_zero_identity : forall n R0 alpha s out lft,
  randomizer_bin_und n R0 alpha s = RbuOk out [] lft ->
  forall x y, (x < n)%nat -> (y < n)%nat -> out x y = bin01 R0 x y.
Proof. exact rbu_zero_identity. Qed.

Theorem C01_rbu_start_degrees : forall n R0 x, symmetricb n (bin01 R0) = true -> (x < n)%nat ->
  offdeg n (rbu_R2 n R0) x = (if rbu_swapped n R0 then Z.of_nat n - 1 - offdeg n (bin01 R0) x else offdeg n (bin01 R0) x) /\
  offdeg n (rbu_R3 n R0) x = (if nmem x (rbu_fl n R0) then 0 else offdeg n (rbu_R2 n R0) x - nfull n (rbu_R2 n R0)).
Proof. exact rbu_start_degrees. Qed.

(* the undirected routines and self-connections (the former C01_und_selfloop_refuted, repaired in /repo fabf520: the edge
   list is the STRICT lower triangle).  A self-connection is never an edge of the list and no accepted swap writes a diagonal
   cell, so the theorems above need symmetry of the input only — no empty-diagonal hypothesis — and the diagonal of the input
   is carried over unchanged: in the caller's numbering ... *)
Theorem C01_und_diagonal : forall r n R0 itr D s0 res,
  is_und r = true ->
  run_routine r n R0 itr D s0 = Done res ->
  (forall x y, R0 x y = R0 y x) ->
  (is_latt r = true -> Permutation (r_perm res) (seq 0 n)) ->
  forall x, (x < n)%nat -> r_out res x x = R0 x x.
Proof. exact run_und_diag_caller. Qed.

(* ... and in every recorded state (latticisation numbering) *)
Theorem C01_und_diagonal_states : forall r n R0 itr D s0 res,
  is_und r = true ->
  run_routine r n R0 itr D s0 = Done res ->
  (forall x y, R0 x y = R0 y x) ->
  let R1 := pre_matrix r n R0 (r_perm res) in
  (forall x, r_rp res x x = R1 x x) /\ Forall (fun ev => forall x, sR (snd ev) x x = R1 x x) (r_trace res).
Proof. exact run_und_diag. Qed.

Theorem C01_rgpu_diagonal : forall n A B maxswap s0 res,
  run_partial_und n A B maxswap s0 = Done res ->
  (forall x y, A x y = A y x) ->
  (forall x, r_out res x x = A x x) /\ Forall (fun ev => forall x, sR (snd ev) x x = A x x) (r_trace res).
Proof. exact run_partial_diag. Qed.

(* not vacuous on such input: the former witness (6-ring with self-connections at nodes 0 and 3, randmio_und, itr=1,
   seed=317) replayed on the repaired implementation: Proofs/RewireRefuted.v, und_selfloop_regression *)
Definition C01_selfloop_regression := und_selfloop_regression.

(* the tie by translation: Gen/RewireTable.v is regenerated from the AST of bct/algorithms/reference.py on every run
   (harness/translate_rewire.py, fail-closed); per routine it holds the edge-list source, the selection loop (two draws
   bounded by the edge count, the `while e1 == e2` redraw, the endpoint reads a = i[e1] ..., the four-distinct test and
   nothing else), the flip block, the rewiring condition, the mask cells, the ordered cell writes (and no other write to the
   matrix anywhere in the function), the index patches, presence of the lattice / connectivity conditions, the max_attempts
   formula, the loop skeleton, permutation before and inverse permutation after.  It equals the table the model stands for ... *)
Theorem C01_source_table : list_eqb spec_eqb source_table expected_table = true.
Proof. exact src_table_ok. Qed.

(* ... and the engine's attempt IS the interpretation of that table (Model/RewireSpec.v: attempt_tab reads the table's
   columns: selection loop, reads, flip patches + re-read, conditions on R and on the mask, writes, patches), for every
   routine, every guard, every state and every stream; so is the attempt of randomize_graph_partial_und with its mask *)
Theorem C01_engine_is_table : forall (rt : routine) (B : mat Z) g k st s,
  attempt_tab (spec_of rt) B g k st s = attempt (mkvar (is_und rt) g) k st s.
Proof. exact attempt_tab_engine. Qed.

Theorem C01_rgpu_is_table : forall (B : mat Z) k st s,
  attempt_tab spec_partial_und B no_guard k st s = attempt (mkvar true (mask_guard B)) k st s.
Proof. exact attempt_tab_partial. Qed.

(* randomizer_bin_und, the same two-step tie for the state-changing core of its loop: the eight constant cell writes of the
   swap (in source order, one block, no other write to a cell named by a, b, c, d), the two hole tests and the mate test are
   read off the source on every run and equal the model's table ... *)
Theorem C01_rbu_source_table :
  (list_eqb cwrite_eqb source_rbu_writes rbu_writes_std && list_eqb stest_eqb source_rbu_tests rbu_tests_std &&
   Z.eqb source_rbu_mate rbu_mate_std)%bool = true.
Proof. exact src_rbu_ok. Qed.

(* ... and the model's swap, hole search and mate search are the interpretation of that table.  (The rest of the routine —
   complement, full-node masking, the patch loop, the draws — is tied by stream replay only.) *)
Theorem C01_rbu_is_table : forall R a b c d,
  rbu_swap R a b c d = exec_cwrites (mkenv a b c d) rbu_writes_std R /\
  (forall n, common_holes n R a b = filter (fun x => eval_tests (mkenv a b c d) R x rbu_tests_std) (seq 0 n)) /\
  (forall h, mates R h = flat_map (fun u => flat_map (fun v => if Z.eqb (R u v) rbu_mate_std then [(u, v)] else []) h) h).
Proof. exact rbu_is_table. Qed.

(* non-vacuity: a recorded run of the implementation (randmio_und, 5-node ring, itr=1, seed 7) replayed by the model:
   four accepted swaps, all draws consumed *)
Example C01_nonvacuous :
  let R0 := of_rows 0 [[0;1;0;0;1];[1;0;1;0;0];[0;1;0;1;0];[0;0;1;0;1];[1;0;0;1;0]] in
  exists res, run_routine Randmio_und 5 R0 1 None
     [DInt 4; DInt 1; DFlt (2873046394269273#9007199254740992)%Q; DInt 3; DInt 4; DInt 1; DInt 0; DInt 1; DInt 2; DInt 2;
      DInt 0; DFlt (4502541288894047#9007199254740992)%Q; DInt 4; DInt 0; DFlt (3619718823502787#4503599627370496)%Q;
      DInt 4; DInt 0; DFlt (148475453677803#2251799813685248)%Q; DInt 2; DInt 3; DFlt (390705043056667#562949953421312)%Q;
      DInt 0; DInt 0; DInt 0; DInt 3; DInt 0; DInt 2; DFlt (2074383920282339#9007199254740992)%Q; DInt 4; DInt 1;
      DFlt (4042663369636215#9007199254740992)%Q]
     = Done res /\ r_eff res = 4%nat /\ r_left res = 0%nat.
Proof. vm_compute. eexists. split; [reflexivity|split; reflexivity]. Qed.

(* further non-vacuity Examples, one recorded run of the implementation per routine family (Proofs/RewireExamples.v):
   ex_randmio_dir, ex_randmio_dir_connected, ex_randmio_und_connected, ex_latmio_dir (caller-supplied asymmetric D),
   ex_latmio_dir_connected, ex_latmio_und, ex_latmio_und_connected (caller-supplied symmetric D), ex_partial_und (mask);
   randomizer_bin_und: rbu_full_nonvacuous_sparse / _dense (Proofs/RewireBinFull.v), rbu_zero_identity_nonvacuous. *)
Definition C01_more_nonvacuous := (ex_randmio_dir, ex_randmio_dir_connected, ex_randmio_und_connected, ex_latmio_dir, ex_latmio_dir_connected,
       ex_latmio_und, ex_latmio_und_connected, ex_partial_und, rbu_zero_identity_nonvacuous).

Print Assumptions C01_run_invariant.
Print Assumptions C01_run_caller.
Print Assumptions C01_rgpu_run.
Print Assumptions C01_rgpu_caller.
Print Assumptions C01_nothing_to_do.
Print Assumptions C01_nothing_to_do_latt.
Print Assumptions C01_rgpu_nothing_to_do.
Print Assumptions C01_attempt.
Print Assumptions C01_rbu_step.
Print Assumptions C01_rbu_full.
Print Assumptions C01_rbu_start_degrees.
Print Assumptions C01_rbu_zero_identity.
Print Assumptions C01_und_diagonal.
Print Assumptions C01_und_diagonal_states.
Print Assumptions C01_rgpu_diagonal.
Print Assumptions C01_source_table.
Print Assumptions C01_engine_is_table.
Print Assumptions C01_rgpu_is_table.
Print Assumptions C01_rbu_source_table.
Print Assumptions C01_rbu_is_table.
