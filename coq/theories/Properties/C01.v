(* Properties/C01.v — degree-preserving rewiring keeps every node's degree and the weight multiset.
   Statements only; proofs are `exact <lemma>` of Proofs/Rewire*.v.
   Model: Model/Rewire.v (one engine for randmio_dir/_dir_connected/_und/_und_connected, latmio_dir/
   _dir_connected/_und/_und_connected, randomize_graph_partial_und; the swap of randomizer_bin_und).
   "Every seed" = every stream of draws [s0]; a run that exhausts the stream returns None, and the
   invariant is stated for EVERY recorded intermediate state, so a run cut anywhere satisfies it. *)
From Coq Require Import ZArith List Arith Permutation QArith.
From BCT Require Import Base.Mat Base.ListX Model.Rewire Model.RewireSpec Proofs.RewireSwap Proofs.RewireInv Proofs.RewireRun Proofs.RewireBin Proofs.RewireSpec Gen.RewireTable.
From BCT Require Import Model.Components Model.RewireBin Proofs.RewireBinFull.
Import ListNotations.
Open Scope Z_scope.

(* Inv: the edge index arrays (i,j) name exactly distinct present connections (and R symmetric, undirected);
   Same: out-/in-degree of every node, number of cells holding each value (the multiset of weights),
   no new self-connection, out-strength (directed).  Good = Inv /\ Same w.r.t. the matrix rewiring started from. *)

(* every reachable state of every run of the eight engine routines: final state and each accepted swap *)
Theorem C01_run_invariant : forall r n R0 itr D s0 res,
  run_routine r n R0 itr D s0 = Some res ->
  (is_und r = true -> (forall x y, R0 x y = R0 y x) /\ (forall x, R0 x x = 0)) ->
  let R1 := pre_matrix r n R0 (r_perm res) in
  exists k st,
    r_rp res = sR st /\
    Good (is_und r) n k R1 st /\
    GoodTrace (is_und r) n k R1 (r_trace res) /\
    r_eff res = length (r_trace res) /\
    ((itr = O \/ r_eff res = O) -> r_rp res = R1).
Proof. exact run_routine_good. Qed.

(* the returned matrix under the caller's own node numbering (latticisers: after undoing ind_rp, which the
   stream must supply as a permutation of 0..n-1):
   out-degree, in-degree, weight multiset, no new self-connection, symmetry (undirected), out-strength (directed),
   identity when zero rewirings are requested or reported, Rlatt[ix_(ind_rp,ind_rp)] = Rrp *)
Theorem C01_run_caller : forall r n R0 itr D s0 res,
  run_routine r n R0 itr D s0 = Some res ->
  (is_und r = true -> (forall x y, R0 x y = R0 y x) /\ (forall x, R0 x x = 0)) ->
  (is_latt r = true -> Permutation (r_perm res) (seq 0 n)) ->
  (forall x, (x < n)%nat -> outdeg n (r_out res) x = outdeg n R0 x) /\
  (forall y, (y < n)%nat -> indeg n (r_out res) y = indeg n R0 y) /\
  (forall w, wcount n (r_out res) w = wcount n R0 w) /\
  (forall x, (x < n)%nat -> R0 x x = 0 -> r_out res x x = 0) /\
  (is_und r = true -> forall x y, r_out res x y = r_out res y x) /\
  (is_und r = false -> forall x, (x < n)%nat -> outstr n (r_out res) x = outstr n R0 x) /\
  ((itr = O \/ r_eff res = O) -> forall x y, (x < n)%nat -> (y < n)%nat -> r_out res x y = R0 x y) /\
  (is_latt r = true -> forall x y, (x < n)%nat -> (y < n)%nat ->
      r_out res (nth x (r_perm res) O) (nth y (r_perm res) O) = r_rp res x y).
Proof. exact run_routine_caller. Qed.

(* randomize_graph_partial_und *)
Theorem C01_partial_und : forall n A B maxswap s0 res,
  run_partial_und n A B maxswap s0 = Some res ->
  (forall x y, A x y = A y x) -> (forall x, A x x = 0) ->
  exists k st,
    r_out res = sR st /\ Good true n k A st /\ GoodTrace true n k A (r_trace res) /\
    (maxswap = O -> r_out res = A).
Proof. exact run_partial_good. Qed.

(* one attempt of the engine, accepted or not, for every draw and EVERY guard (lattice, connectivity, mask, or
   anything else): the invariant and the preserved quantities do not depend on the guard *)
Theorem C01_attempt : forall v n k st s st' s' o, (0 < k)%nat ->
  Inv (v_und v) n k st -> attempt v k st s = Some (st', s', o) ->
  Inv (v_und v) n k st' /\ Same (v_und v) n (sR st) (sR st') /\ (o = None -> sR st' = sR st).
Proof. exact attempt_spec. Qed.

(* randomizer_bin_und: its swap a-b, c-d -> a-c, b-d keeps every degree, the entry counts, symmetry and the
   diagonal of the working matrix.  (This is the step lemma; the whole routine is C01_rbu_full below.) *)
Theorem C01_rbu_step_partial : forall R a b c d,
  a <> b -> a <> c -> a <> d -> b <> c -> b <> d -> c <> d ->
  (forall x y, R x y = R y x) -> rbu_admissible R a b c d = true ->
  forall n, (a < n)%nat -> (b < n)%nat -> (c < n)%nat -> (d < n)%nat ->
  (forall x, outdeg n (rbu_swap R a b c d) x = outdeg n R x) /\
  (forall w, wcount n (rbu_swap R a b c d) w = wcount n R w) /\
  (forall x y, rbu_swap R a b c d x y = rbu_swap R a b c d y x) /\
  (forall x, rbu_swap R a b c d x x = R x x).
Proof. exact rbu_step. Qed.

(* randomizer_bin_und, WHOLE routine (Model/RewireBin.v: binarise, symmetry check, inf sentinel, complement of dense
   graphs, masking and restoring of full nodes, mate search, swap, patch loop — statement by statement), every stream:
   the returned 0/1 matrix gives every node the degree it has in the support of the input, is symmetric, binary off the
   diagonal, has the input's (binarised) diagonal, the same number of connections; the binarised input is symmetric
   whenever the run returns (the model checks it); every recorded intermediate working matrix satisfies the loop
   invariant (edge arrays list exactly the connections, pairwise distinct as unordered pairs) and has the degrees of
   the working matrix the loop started from (rbu_start_degrees relates that matrix to the input). *)
Theorem C01_rbu_full : forall n R0 alpha s out tr lft,
  randomizer_bin_und n R0 alpha s = RbuOk out tr lft ->
  (forall x, (x < n)%nat -> offdeg n out x = offdeg n (bin01 R0) x) /\
  (forall x y, (x < n)%nat -> (y < n)%nat -> out x y = out y x) /\
  (forall x y, (x < n)%nat -> (y < n)%nat -> x <> y -> out x y = 0 \/ out x y = 1) /\
  (forall x, (x < n)%nat -> out x x = bin01 R0 x x) /\
  sumn (offdeg n out) n = sumn (offdeg n (bin01 R0)) n /\
  (forall x y, (x < n)%nat -> (y < n)%nat -> bin01 R0 x y = bin01 R0 y x) /\
  Forall (EvI n (rbu_k n R0) (rbu_R3 n R0)) tr.
Proof. exact rbu_full. Qed.

Theorem C01_rbu_start_degrees : forall n R0 x, symmetricb n (bin01 R0) = true -> (x < n)%nat ->
  offdeg n (rbu_R2 n R0) x = (if rbu_swapped n R0 then Z.of_nat n - 1 - offdeg n (bin01 R0) x else offdeg n (bin01 R0) x) /\
  offdeg n (rbu_R3 n R0) x = (if nmem x (rbu_fl n R0) then 0 else offdeg n (rbu_R2 n R0) x - nfull n (rbu_R2 n R0)).
Proof. exact rbu_start_degrees. Qed.

(* the tie by translation: Gen/RewireTable.v is regenerated from the AST of bct/algorithms/reference.py on every
   run (harness/translate_rewire.py); the swap table read off the source (edge-list source, four-distinct test,
   flip block, rewiring condition, ordered cell writes, index patches, presence of the lattice / connectivity / mask
   conditions, permutation before and inverse permutation after) equals the table the engine implements ... *)
Theorem C01_source_table : list_eqb spec_eqb source_table expected_table = true.
Proof. exact src_table_ok. Qed.

(* ... and the engine's accepted branch IS the execution of that table: cell writes in source order, index patches,
   four-distinct test, rewiring condition *)
Theorem C01_engine_is_table : forall (und : bool) R a b c d e1 e2 i j,
  let r := mkenv a b c d in
  (if und then swap_und R a b c d else swap_dir R a b c d) = exec_writes r (if und then writes_und else writes_dir) R /\
  (i, vupd (vupd j e1 d) e2 b) = exec_patches r e1 e2 patches_std (i, j) /\
  four_ok a b c d = eval_four r four_std /\
  (Z.eqb (R a d) 0 && Z.eqb (R c b) 0)%bool = eval_cond r R cond_std.
Proof. exact attempt_is_table. Qed.

(* non-vacuity: a recorded run of the implementation (randmio_und, 5-node ring, itr=1, seed 7) replayed by the model:
   four accepted swaps, all draws consumed *)
Example C01_nonvacuous :
  let R0 := of_rows 0 [[0;1;0;0;1];[1;0;1;0;0];[0;1;0;1;0];[0;0;1;0;1];[1;0;0;1;0]] in
  exists res, run_routine Randmio_und 5 R0 1 None
     [DInt 4; DInt 1; DFlt (2873046394269273#9007199254740992)%Q; DInt 3; DInt 4; DInt 1; DInt 0; DInt 1; DInt 2; DInt 2;
      DInt 0; DFlt (4502541288894047#9007199254740992)%Q; DInt 4; DInt 0; DFlt (3619718823502787#4503599627370496)%Q;
      DInt 4; DInt 0; DFlt (148475453677803#2251799813685248)%Q; DInt 2; DInt 3; DFlt (390705043056667#562949953421312)%Q;
      DInt 0; DInt 0; DInt 0; DInt 3; DInt 0; DInt 2; DFlt (2074383920282339#9007199254740992)%Q; DInt 4; DInt 1;
      DFlt (4042663369636215#9007199254740992)%Q]
     = Some res /\ r_eff res = 4%nat /\ r_left res = 0%nat.
Proof. vm_compute. eexists. split; [reflexivity|split; reflexivity]. Qed.

Print Assumptions C01_run_invariant.
Print Assumptions C01_run_caller.
Print Assumptions C01_partial_und.
Print Assumptions C01_attempt.
Print Assumptions C01_rbu_step_partial.
Print Assumptions C01_rbu_full.
Print Assumptions C01_rbu_start_degrees.
Print Assumptions C01_source_table.
Print Assumptions C01_engine_is_table.
