(* Properties/C06.v — signed null models keep each node's positive/negative degree and all weights.
   Only statements; every proof is `exact <lemma of Proofs/Signed.v, Proofs/NullModel*.v>`.

   Reading guide (definitions in Model/Signed.v, Model/NullModel.v, Proofs/Signed.v):
     pre und n R                 und = true -> R symmetric on the n x n grid (input contract of the *_und routines)
     goodq n (a,b,c,d)           a,b,c,d < n and pairwise distinct
     same_signed_degrees n R R'  for every node: #positive and #negative cells of its row and of its column agree
     same_entries n R R'         for every value w: the number of cells holding w agrees (the cells are permuted;
                                 in particular the multisets of positive and of negative weights agree)
     same_diag n R R'            the diagonal agrees
     sinv und n R R'             the general form: EVERY sign-only statistic of each row / column, EVERY statistic
                                 of the multiset of entries, the diagonal, and symmetry (und)
   Streams: ints = recorded rng.randint(n**4) results, perms = recorded rng.permutation(m) results,
   ords = the np.argsort results (float-decided: oracle). All theorems hold for ALL such lists; the model
   itself ends in DealError on an `ords`/`perms` entry that is not a permutation of the right range.
   Further oracles of the null model: close (result of np.allclose(W, W.T), only consulted for W that is not exactly
   symmetric), pf (float result of np.round(1/wei_freq), admitted within 1 of the exact quotient).  A call ends as
   Returned r | ParamError | NoQuad (the recorded randint draws run out: model-level out-of-fuel) | BadPeriod |
   DealError; C06_null_model_total says when it is Returned. *)
From Coq Require Import ZArith QArith List Arith Bool.
From BCT Require Import Base.Mat Base.ListX Model.Signed Model.NullModel Proofs.Signed Proofs.NullModelTop
  Proofs.NullModelCorr Proofs.SignedFull Proofs.NullModelCorrRange Proofs.NullModelTotal.
Import ListNotations.
Open Scope Z_scope.

(* ---------- pick_four_unique_nodes_quickly ---------- *)
(* for every stream: the four nodes returned are pairwise distinct and < n; at least one draw is consumed *)
Theorem C06_pick4_distinct : forall n s a b c d s', (0 < n)%nat ->
  pick4 n s = Some ((a, b, c, d), s') ->
  (a < n /\ b < n /\ c < n /\ d < n)%nat /\
  (a <> b /\ a <> c /\ a <> d /\ b <> c /\ b <> d /\ c <> d) /\ (length s' < length s)%nat.
Proof. exact pick4_distinct. Qed.

(* ...and they are the base-n digits of the first draw whose digits are distinct *)
Theorem C06_pick4_digits : forall n s q s', pick4 n s = Some (q, s') ->
  exists pre x, s = pre ++ x :: s' /\ q = digits4 n x /\ distinct4 q = true /\
                Forall (fun y => distinct4 (digits4 n y) = false) pre.
Proof. exact pick4_digits. Qed.

(* domain: the call can only return when n >= 4 (for n <= 3 the Python recursion never ends) *)
Theorem C06_pick4_needs_4 : forall n s q s', (0 < n)%nat -> pick4 n s = Some (q, s') -> (4 <= n)%nat.
Proof. exact pick4_needs_4. Qed.

(* ---------- one accepted swap of randmio_dir_signed (und = false) / randmio_und_signed (und = true) ---------- *)
Theorem C06_signed_step_inv : forall und n R q,
  pre und n R -> goodq n q -> cond4 R q = true ->
  same_signed_degrees n R (swap4 und R q) /\ same_entries n R (swap4 und R q) /\
  same_diag n R (swap4 und R q) /\ (und = true -> symn n (swap4 und R q)).
Proof. exact signed_step_explicit. Qed.

Theorem C06_signed_step_inv_general : forall und n R q,
  pre und n R -> goodq n q -> cond4 R q = true -> sinv und n R (swap4 und R q).
Proof. exact signed_step_inv. Qed.

(* ---------- whole runs of randmio_*_signed: for every stream (of any length; exhaustion returns the current
   state) the final matrix AND the state after every accepted swap satisfy the invariant w.r.t. the input ---------- *)
Theorem C06_signed_run_inv : forall und n R itr s Rf sf tr, (0 < n)%nat -> pre und n R ->
  randmio_signed und n R itr s = (Rf, sf, tr) ->
  let ok := fun M => same_signed_degrees n R M /\ same_entries n R M /\ same_diag n R M /\
                     (und = true -> symn n M) in
  ok Rf /\ Forall (fun e => ok (snd e)) tr.
Proof. exact randmio_signed_meets_property. Qed.

Theorem C06_signed_run_inv_general : forall und n R itr s Rf sf tr, (0 < n)%nat -> pre und n R ->
  randmio_signed und n R itr s = (Rf, sf, tr) ->
  sinv und n R Rf /\ Forall (fun e => sinv und n R (snd e)) tr.
Proof. exact randmio_signed_inv. Qed.

(* ---------- null_model_dir_sign (und = false) / null_model_und_sign (und = true) ----------
   deal_multiset + corr_def: whenever the run returns, for every bin_swaps, wei_freq, stream and oracle orders,
   the output has the input's signed degrees (in and out), the input's multiset of entries, an empty diagonal,
   is symmetric (und), carries the rewired sign pattern, and the returned correlations are those of the strength
   sequences of the (diagonal-cleared) input and the output. *)
Theorem C06_deal_multiset_corr_def : forall und n W close bin_swaps wei_freq pf ints ords perms r,
  (0 < n)%nat -> pre und n W ->
  null_model und n W close bin_swaps wei_freq pf ints ords perms = Returned r -> null_model_property und n W r.
Proof. exact null_model_meets_property. Qed.

(* the same without the symmetry hypothesis when the np.allclose oracle is not used (close = false): a run that
   returns has then passed the model's own exact symmetry test *)
Theorem C06_null_model_checked_symmetry : forall und n W bin_swaps wei_freq pf ints ords perms r, (0 < n)%nat ->
  null_model und n W false bin_swaps wei_freq pf ints ords perms = Returned r -> null_model_property und n W r.
Proof. exact null_model_checked_symmetry. Qed.

(* the general form, including the rewired matrix and every intermediate state of the inner rewiring *)
Theorem C06_null_model_inv_general : forall und n W close bin_swaps wei_freq pf ints ords perms r,
  (0 < n)%nat -> pre und n W ->
  null_model und n W close bin_swaps wei_freq pf ints ords perms = Returned r ->
  sinv und n (clear_diag W) (nm_W0 r) /\
  (forall i, (i < n)%nat -> nm_W0 r i i = 0) /\
  (forall i j, (i < n)%nat -> (j < n)%nat -> Z.sgn (nm_W0 r i j) = Z.sgn (nm_Wr r i j)) /\
  sinv und n (clear_diag W) (nm_Wr r) /\
  Forall (fun e => sinv und n (clear_diag W) (snd e)) (nm_trace r) /\
  nm_corr r = corr4 n (clear_diag W) (nm_W0 r).
Proof. exact null_model_inv. Qed.

Theorem C06_null_model_rewiring_inv : forall und n W close bin_swaps wei_freq pf ints ords perms r,
  (0 < n)%nat -> pre und n W ->
  null_model und n W close bin_swaps wei_freq pf ints ords perms = Returned r ->
  let ok := fun M => same_signed_degrees n (clear_diag W) M /\ same_entries n (clear_diag W) M /\
                     same_diag n (clear_diag W) M /\ (und = true -> symn n M) in
  ok (nm_Wr r) /\ Forall (fun e => ok (snd e)) (nm_trace r).
Proof. exact null_model_rewiring_inv. Qed.

Theorem C06_null_model_und_rejects : forall n W bin_swaps wei_freq pf ints ords perms,
  symb n W = false -> null_model true n W false bin_swaps wei_freq pf ints ords perms = ParamError.
Proof. exact null_model_und_rejects. Qed.

(* what a returned correlation triple (cxy, cxx, cyy) means: twice the (co)variance sums over all pairs;
   cxx >= 0, and cxx = 0 exactly when the sequence is constant (np.corrcoef then gives NaN) *)
Theorem C06_corr3_var : forall x y n, let '(_, cxx, _) := corr3 x y n in
  2 * cxx = sum2 (fun i j => (x i - x j) * (x i - x j)) n /\ 0 <= cxx /\
  (cxx = 0 <-> forall i j, (i < n)%nat -> (j < n)%nat -> x i = x j).
Proof. exact corr3_var. Qed.

Theorem C06_corr3_cov : forall x y n, let '(cxy, _, cyy) := corr3 x y n in
  2 * cxy = sum2 (fun i j => (x i - x j) * (y i - y j)) n /\
  2 * cyy = sum2 (fun i j => (y i - y j) * (y i - y j)) n.
Proof. exact corr3_cov. Qed.

(* ---------- the diagonal clause of randmio_*_signed ----------
   What holds: the diagonal is never written; an empty diagonal stays empty (final matrix and every intermediate state).
   What the property text says ("the diagonal is empty", for every input) is FALSE of the code: every self-connection
   of the input is kept. *)
Theorem C06_signed_run_diag_empty : forall und n R itr s Rf sf tr, (0 < n)%nat -> pre und n R ->
  (forall i, (i < n)%nat -> R i i = 0) ->
  randmio_signed und n R itr s = (Rf, sf, tr) ->
  (forall i, (i < n)%nat -> Rf i i = 0) /\
  Forall (fun e => forall i, (i < n)%nat -> snd e i i = 0) tr.
Proof. exact signed_run_diag_empty. Qed.

Theorem C06_signed_run_selfloop_kept : forall und n R itr s Rf sf tr i, (0 < n)%nat -> pre und n R ->
  randmio_signed und n R itr s = (Rf, sf, tr) -> (i < n)%nat -> R i i <> 0 -> Rf i i <> 0.
Proof. exact signed_run_selfloop_kept. Qed.

(* full statement of the clause, refuted (witness: a symmetric 5-node network with R[0][0] = 3, R[2][2] = -1) *)
Theorem C06_randmio_diag_refuted :
  ~ (forall und n R itr s Rf sf tr, (0 < n)%nat -> pre und n R ->
       randmio_signed und n R itr s = (Rf, sf, tr) -> forall i, (i < n)%nat -> Rf i i = 0).
Proof. exact diag_clause_refuted. Qed.

(* ---------- fewer than four nodes (`if n < 4: return R, 0`) ----------
   randmio_signed_ret = the routine as the caller sees it (None only when the recorded draws run out).  A network with
   fewer than four nodes comes back unchanged, with eff = 0 and no draw consumed, for every itr and every stream; the
   input trivially has its own degrees, weights and symmetry (C06_signed_run_inv covers it as well). *)
Theorem C06_randmio_small_n_returns_input : forall und n R itr s,
  (n < 4)%nat -> randmio_signed_ret und n R itr s = Some (R, s, []).
Proof. exact small_n_returns_input. Qed.

Theorem C06_randmio_ret_sound : forall und n R itr s x,
  randmio_signed_ret und n R itr s = Some x -> randmio_signed und n R itr s = x.
Proof. exact randmio_signed_ret_Some. Qed.

(* ---------- totality of the null models ----------
   oracles_ok_sign per m ords perms = Some (ords', perms'): for wei_freq = 0 (per = 0) one argsort order that is a
   permutation of 0..m-1; otherwise, for m, m - per, m - 2 per, ... > 0, one argsort order and one rng.permutation
   result, both permutations of 0..m-1; ords', perms' = what is left.  For symmetric (und) input, an admissible period,
   enough randint draws for the rewiring, and such oracles for the positive and then the negative weights, the call
   RETURNS and consumes exactly those oracles. *)
Theorem C06_null_model_total : forall und n W close bin_swaps wei_freq pf ints ords perms per o1 p1 o2 p2,
  let Wc := tab 0 n n (clear_diag W) in
  let rew := (length (supp false n 1 Wc) <? n * (n - 1))%nat in
  (0 < n)%nat -> pre und n W ->
  period_or wei_freq pf = Some per ->
  (rew = true -> randmio_runs_out und n Wc bin_swaps ints = false) ->
  oracles_ok_sign per (length (supp und n 1 Wc)) ords perms = Some (o1, p1) ->
  oracles_ok_sign per (length (supp und n (-1) Wc)) o1 p1 = Some (o2, p2) ->
  exists r, null_model und n W close bin_swaps wei_freq pf ints ords perms = Returned r /\
            snd (nm_unread r) = (length o2, length p2).
Proof. exact null_model_total. Qed.

(* the quantifier "wei_freq in (0,1] and 0": every such value has a period (>= 1, resp. the code 0), whichever
   admissible rounding pf the float computation produced; the exact half-to-even rounding is admissible *)
Theorem C06_period_domain : forall wf pf, (0 < wf)%Q -> (wf <= 1)%Q -> near wf pf = true ->
  exists p, period_or wf pf = Some p /\ (1 <= p)%nat /\ Z.of_nat p = pf.
Proof. exact period_domain. Qed.

Theorem C06_period_exact : forall wf,
  near wf (round_half_even (1 / wf)) = true /\ period_or wf (round_half_even (1 / wf)) = period_of wf /\
  period_or 0 (round_half_even (1 / wf)) = Some 0%nat.
Proof. intros wf. split; [apply near_round|split; [apply period_or_exact|reflexivity]]. Qed.

(* BCTParamError exactly for undirected, not exactly symmetric, and np.allclose says no *)
Theorem C06_null_model_param_error_iff : forall und n W close bin_swaps wei_freq pf ints ords perms,
  null_model und n W close bin_swaps wei_freq pf ints ords perms = ParamError <->
  (und = true /\ symb n W = false /\ close = false).
Proof. exact null_model_param_error_iff. Qed.

(* ---------- the correlations are Pearson coefficients: r^2 <= 1 (Cauchy-Schwarz), r = 1 for equal sequences ---------- *)
Theorem C06_corr_cauchy_schwarz : forall x y n, let '(cxy, cxx, cyy) := corr3 x y n in
  cxy * cxy <= cxx * cyy /\ 0 <= cxx /\ 0 <= cyy.
Proof. exact corr3_cauchy_schwarz. Qed.

Theorem C06_corr_r_squared_range : forall x y n, let c := corr3 x y n in
  let '(cxy, cxx, cyy) := c in 0 < cxx * cyy -> (0 <= r_squared c /\ r_squared c <= 1)%Q.
Proof. exact corr3_r_squared_range. Qed.

Theorem C06_corr_equal_seq : forall x y n, (forall i, (i < n)%nat -> y i = x i) ->
  let '(cxy, cxx, cyy) := corr3 x y n in cxy = cxx /\ cyy = cxx.
Proof. exact corr3_equal_seq. Qed.

(* the four numbers a null model returns: each triple satisfies cxy^2 <= cxx*cyy, cxx >= 0, cyy >= 0 *)
Theorem C06_null_model_corr_range : forall und n W close bin_swaps wei_freq pf ints ords perms r,
  (0 < n)%nat -> pre und n W ->
  null_model und n W close bin_swaps wei_freq pf ints ords perms = Returned r ->
  length (nm_corr r) = 4%nat /\ Forall triple_ok (nm_corr r).
Proof. exact null_model_corr_range. Qed.

(* a strength sequence that the output reproduces exactly has coefficient 1: its triple is (c, c, c) *)
Theorem C06_null_model_corr_one : forall und n W close bin_swaps wei_freq pf ints ords perms r,
  (0 < n)%nat -> pre und n W ->
  null_model und n W close bin_swaps wei_freq pf ints ords perms = Returned r ->
  let Wc := clear_diag W in
  ((forall j, (j < n)%nat -> str_in ppart (nm_W0 r) n j = str_in ppart Wc n j) ->
     exists c, nth 0 (nm_corr r) (0, 0, 0) = (c, c, c)) /\
  ((forall i, (i < n)%nat -> str_out ppart (nm_W0 r) n i = str_out ppart Wc n i) ->
     exists c, nth 1 (nm_corr r) (0, 0, 0) = (c, c, c)) /\
  ((forall j, (j < n)%nat -> str_in npart (nm_W0 r) n j = str_in npart Wc n j) ->
     exists c, nth 2 (nm_corr r) (0, 0, 0) = (c, c, c)) /\
  ((forall i, (i < n)%nat -> str_out npart (nm_W0 r) n i = str_out npart Wc n i) ->
     exists c, nth 3 (nm_corr r) (0, 0, 0) = (c, c, c)).
Proof. exact null_model_corr_one. Qed.

(* ---------- non-vacuity ---------- *)
(* 430 = nodes 0,1,2,3; 6 = collision, retried; 38 = nodes 3,2,1,0: two accepted swaps, then the stream ends *)
Example C06_run_nonvacuous :
  let R := of_rows 0 [[0; 2; -1; 0; 3]; [1; 0; 0; -2; 0]; [-3; 0; 0; 1; 2]; [0; -1; 4; 0; 0]; [2; 0; -2; 1; 0]]%list in
  exists Rf sf tr, randmio_signed false 5 R 1 [430; 6; 38]%list = (Rf, sf, tr)
                   /\ (2 <= length tr)%nat.
Proof. eexists. eexists. eexists. split; [vm_compute; reflexivity|]. vm_compute. repeat constructor. Qed.

(* directed null model, wei_freq = 1/2 (period 2): two rewirings (586 = nodes 1,2,3,4 fails the sign test in
   each of the 18 x 6 remaining attempts), then 4 + 3 dealing periods with identity
   oracle orders and reversed permutations; the dealt matrix differs from the input and from the rewired one *)
Example C06_null_model_dir_nonvacuous :
  let W := of_rows 0 [[0; 2; -1; 0; 3]; [1; 0; 0; -2; 0]; [-3; 0; 0; 1; 2]; [0; -1; 4; 0; 0]; [2; 0; -2; 1; 0]]%list in
  let lens := [8; 6; 4; 2; 5; 3; 1]%nat in
  exists r, null_model false 5 W false 1 (1 # 2) 2 ([430; 6; 38] ++ repeat 586 108)%list (map (seq 0) lens) (map (fun m => rev (seq 0 m)) lens) = Returned r
            /\ zrows 5 (nm_W0 r) = [[0; 0; -1; 1; 1]; [0; 0; 1; -1; 0]; [-2; 2; 0; 0; 2]; [2; -2; 0; 0; 0]; [3; 0; -3; 4; 0]]%list
            /\ length (nm_trace r) = 2%nat /\ nm_unread r = (0, (0, 0))%nat.
Proof. eexists. split; [vm_compute; reflexivity|]. split; [|split]; vm_compute; reflexivity. Qed.

(* undirected null model, wei_freq = 0 (one argsort per sign, no permutation draw), bin_swaps = 0 *)
Example C06_null_model_und_nonvacuous :
  let W := of_rows 0 [[0; 2; -1; 0; 3]; [2; 0; 0; -2; 1]; [-1; 0; 0; 1; -2]; [0; -2; 1; 0; 0]; [3; 1; -2; 0; 0]]%list in
  exists r, null_model true 5 W false 0 0 0 []%list [[2; 0; 3; 1]; [1; 2; 0]]%list%nat []%list = Returned r
            /\ zrows 5 (nm_W0 r) = [[0; 1; -2; 0; 3]; [1; 0; 0; -1; 1]; [-2; 0; 0; 2; -2]; [0; -1; 2; 0; 0]; [3; 1; -2; 0; 0]]%list.
Proof. eexists. split; [vm_compute; reflexivity|]. vm_compute. reflexivity. Qed.

(* the hypotheses of C06_null_model_total are met by the run of C06_null_model_dir_nonvacuous *)
Example C06_total_nonvacuous :
  let W := of_rows 0 [[0; 2; -1; 0; 3]; [1; 0; 0; -2; 0]; [-3; 0; 0; 1; 2]; [0; -1; 4; 0; 0]; [2; 0; -2; 1; 0]]%list in
  let Wc := tab 0 5 5 (clear_diag W) in
  let lens := [8; 6; 4; 2; 5; 3; 1]%nat in
  let ords := map (seq 0) lens in let perms := map (fun m => rev (seq 0 m)) lens in
  period_or (1 # 2) 2 = Some 2%nat /\
  randmio_runs_out false 5 Wc 1 ([430; 6; 38] ++ repeat 586 108)%list = false /\
  oracles_ok_sign 2 (length (supp false 5 1 Wc)) ords perms = Some (skipn 4 ords, skipn 4 perms) /\
  oracles_ok_sign 2 (length (supp false 5 (-1) Wc)) (skipn 4 ords) (skipn 4 perms) = Some ([], [])%list.
Proof. split; [|split; [|split]]; vm_compute; reflexivity. Qed.

(* a 3-node network with one positive and one negative connection: it comes back unchanged, eff = 0, no draw read *)
Example C06_small_n_nonvacuous :
  run_randmio_signed true [[0; 1; -1]; [1; 0; 0]; [-1; 0; 0]]%list 1 [5; 7; 11; 80]%list
  = Some ([[0; 1; -1]; [1; 0; 0]; [-1; 0; 0]]%list, (0, 4)%nat, []%list).
Proof. vm_compute. reflexivity. Qed.

(* why the undirected theorems assume exact symmetry: an input that np.allclose accepts (close = true) but that is not
   symmetric (2049 vs 2048, in units of 1/128) loses the weight 2048 of its lower triangle *)
Example C06_null_model_und_needs_symmetry :
  let W := of_rows 0 [[0; 2049; -1024; 0]; [2048; 0; 0; -2048]; [-1024; 0; 0; 1024]; [0; -2048; 1024; 0]]%list in
  symb 4 W = false /\
  exists r, null_model true 4 W true 0 0 0 []%list [[0; 1]; [0; 1]]%list%nat []%list = Returned r
            /\ cnt 2048 W 4 = 1 /\ cnt 2048 (nm_W0 r) 4 = 0.
Proof. split; [vm_compute; reflexivity|]. eexists. split; [vm_compute; reflexivity|]. split; vm_compute; reflexivity. Qed.

(* correlation triples: a strict instance of Cauchy-Schwarz and an instance of r = 1 *)
Example C06_corr_nonvacuous :
  corr3 (fun i => Z.of_nat i) (fun i => Z.of_nat (i * i)) 4 = (60, 20, 196) /\ 60 * 60 < 20 * 196 /\
  corr3 (fun i => Z.of_nat i) (fun i => Z.of_nat i) 4 = (20, 20, 20).
Proof. split; [|split]; vm_compute; reflexivity. Qed.


Print Assumptions C06_pick4_distinct.
Print Assumptions C06_pick4_digits.
Print Assumptions C06_pick4_needs_4.
Print Assumptions C06_signed_step_inv.
Print Assumptions C06_signed_step_inv_general.
Print Assumptions C06_signed_run_inv.
Print Assumptions C06_signed_run_inv_general.
Print Assumptions C06_deal_multiset_corr_def.
Print Assumptions C06_null_model_inv_general.
Print Assumptions C06_null_model_rewiring_inv.
Print Assumptions C06_null_model_und_rejects.
Print Assumptions C06_corr3_var.
Print Assumptions C06_corr3_cov.
Print Assumptions C06_signed_run_diag_empty.
Print Assumptions C06_signed_run_selfloop_kept.
Print Assumptions C06_randmio_diag_refuted.
Print Assumptions C06_randmio_small_n_returns_input.
Print Assumptions C06_randmio_ret_sound.
Print Assumptions C06_null_model_total.
Print Assumptions C06_period_domain.
Print Assumptions C06_period_exact.
Print Assumptions C06_null_model_param_error_iff.
Print Assumptions C06_corr_cauchy_schwarz.
Print Assumptions C06_corr_r_squared_range.
Print Assumptions C06_corr_equal_seq.
Print Assumptions C06_null_model_corr_range.
Print Assumptions C06_null_model_corr_one.
Print Assumptions C06_null_model_checked_symmetry.
