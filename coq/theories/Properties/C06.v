(* Properties/C06.v — signed null models keep each node's positive/negative degree and all weights.
   Only statements; every proof is `exact <lemma of Proofs/Signed*.v, Proofs/NullModel*.v>`. *)
From Coq Require Import ZArith QArith List Arith Bool.
From BCT Require Import Base.Mat Base.ListX Model.Signed Model.NullModel Proofs.Signed.
Import ListNotations.
Open Scope Z_scope.

(* ---------- pick_four_unique_nodes_quickly ---------- *)
(* for every stream: the four nodes returned are pairwise distinct and < n, and the call
   consumed at least one draw *)
Theorem C06_pick4_distinct : forall n s a b c d s', (0 < n)%nat ->
  pick4 n s = Some ((a, b, c, d), s') ->
  (a < n /\ b < n /\ c < n /\ d < n)%nat /\
  (a <> b /\ a <> c /\ a <> d /\ b <> c /\ b <> d /\ c <> d) /\ (length s' < length s)%nat.
Proof. exact pick4_distinct. Qed.

(* ---------- one accepted swap of randmio_dir_signed (und = false) / randmio_und_signed (und = true) ----------
   for every matrix (symmetric on the grid if und), every four distinct nodes < n passing the sign test:
   row and column counts of positive and of negative cells unchanged, the number of cells holding any
   value w unchanged (the cells are permuted), diagonal unchanged, symmetry kept (und). *)
Theorem C06_signed_step_inv : forall und n R q,
  pre und n R -> goodq n q -> cond4 R q = true ->
  same_signed_degrees n R (swap4 und R q) /\ same_entries n R (swap4 und R q) /\
  same_diag n R (swap4 und R q) /\ (und = true -> symn n (swap4 und R q)).
Proof. intros und n R q Hp Hg Hc. apply (sinv_explicit und). exact (signed_step_inv und n R q Hp Hg Hc). Qed.

(* the same, in the general form: EVERY sign-only statistic of every row/column and EVERY statistic of
   the multiset of entries is unchanged *)
Theorem C06_signed_step_inv_general : forall und n R q,
  pre und n R -> goodq n q -> cond4 R q = true -> sinv und n R (swap4 und R q).
Proof. exact signed_step_inv. Qed.

(* ---------- whole runs: for every stream (of any length; exhaustion returns the current state),
   the final matrix AND every intermediate state (after each accepted swap) satisfy the invariant
   w.r.t. the input ---------- *)
Theorem C06_signed_run_inv : forall und n R itr s Rf sf tr, (0 < n)%nat -> pre und n R ->
  randmio_signed und n R itr s = (Rf, sf, tr) ->
  (same_signed_degrees n R Rf /\ same_entries n R Rf /\ same_diag n R Rf /\ (und = true -> symn n Rf)) /\
  Forall (fun e => same_signed_degrees n R (snd e) /\ same_entries n R (snd e) /\
                   same_diag n R (snd e) /\ (und = true -> symn n (snd e))) tr.
Proof.
  intros und n R itr s Rf sf tr Hn Hp H.
  destruct (randmio_signed_inv und n R itr s Rf sf tr Hn Hp H) as [A B].
  split; [exact (sinv_explicit und n R Rf A)|].
  eapply Forall_impl; [|exact B]. intros e He. exact (sinv_explicit und n R (snd e) He).
Qed.

(* non-vacuity: a concrete signed matrix and stream (430 = nodes 0,1,2,3; 6 = collision, retried; 38 = nodes 3,2,1,0)
   on which two swaps are accepted *)
Example C06_run_nonvacuous :
  let R := of_rows 0 [[0; 2; -1; 0; 3]; [1; 0; 0; -2; 0]; [-3; 0; 0; 1; 2]; [0; -1; 4; 0; 0]; [2; 0; -2; 1; 0]]%list in
  exists Rf sf tr, randmio_signed false 5 R 1 [430; 6; 38]%list = (Rf, sf, tr)
                   /\ (2 <= length tr)%nat.
Proof. eexists. eexists. eexists. split; [vm_compute; reflexivity|]. vm_compute. repeat constructor. Qed.

Print Assumptions C06_pick4_distinct.
Print Assumptions C06_signed_step_inv.
Print Assumptions C06_signed_step_inv_general.
Print Assumptions C06_signed_run_inv.
