(* Properties/C06.v — signed null models keep each node's positive/negative degree and all weights.
   Only statements; every proof is `exact <lemma of Proofs/Signed.v, Proofs/NullModel*.v>`.

   Reading guide (definitions in Model/Signed.v, Model/NullModel.v, Proofs/Signed.v):
     pre und n R                 und = true -> R symmetric on the n x n grid (input contract of the *_und routines)
     goodq n (a,b,c,d)           a,b,c,d < n and pairwise distinct
     same_signed_degrees n R R'  for every node: #positive and #negative cells of its row and of its column agree
     same_entries n R R'         for every value w: the number of cells holding w agrees (the cells are permuted;
                                 in particular the multisets of positive and of negative weights agree)
     same_diag n R R'            the diagonal agrees
     sinv und n R R'             the general form: EVERY sign-only statistic of each row / column, EVERY statistic
                                 of the multiset of entries, the diagonal, and symmetry (und)
   Streams: ints = recorded rng.randint(n**4) results, perms = recorded rng.permutation(m) results,
   ords = the np.argsort results (float-decided: oracle). All theorems hold for ALL such lists; the model
   itself rejects (None) an `ords`/`perms` entry that is not a permutation of the right range, so
   "returns Some" = "every oracle order and every permutation draw is a permutation". *)
From Coq Require Import ZArith QArith List Arith Bool.
From BCT Require Import Base.Mat Base.ListX Model.Signed Model.NullModel Proofs.Signed Proofs.NullModelTop
  Proofs.NullModelCorr.
Import ListNotations.
Open Scope Z_scope.

(* ---------- pick_four_unique_nodes_quickly ---------- *)
(* for every stream: the four nodes returned are pairwise distinct and < n; at least one draw is consumed *)
Theorem C06_pick4_distinct : forall n s a b c d s', (0 < n)%nat ->
  pick4 n s = Some ((a, b, c, d), s') ->
  (a < n /\ b < n /\ c < n /\ d < n)%nat /\
  (a <> b /\ a <> c /\ a <> d /\ b <> c /\ b <> d /\ c <> d) /\ (length s' < length s)%nat.
Proof. exact pick4_distinct. Qed.

(* ...and they are the base-n digits of the first draw whose digits are distinct *)
Theorem C06_pick4_digits : forall n s q s', pick4 n s = Some (q, s') ->
  exists pre x, s = pre ++ x :: s' /\ q = digits4 n x /\ distinct4 q = true /\
                Forall (fun y => distinct4 (digits4 n y) = false) pre.
Proof. exact pick4_digits. Qed.

(* domain: the call can only return when n >= 4 (for n <= 3 the Python recursion never ends) *)
Theorem C06_pick4_needs_4 : forall n s q s', (0 < n)%nat -> pick4 n s = Some (q, s') -> (4 <= n)%nat.
Proof. exact pick4_needs_4. Qed.

(* ---------- one accepted swap of randmio_dir_signed (und = false) / randmio_und_signed (und = true) ---------- *)
Theorem C06_signed_step_inv : forall und n R q,
  pre und n R -> goodq n q -> cond4 R q = true ->
  same_signed_degrees n R (swap4 und R q) /\ same_entries n R (swap4 und R q) /\
  same_diag n R (swap4 und R q) /\ (und = true -> symn n (swap4 und R q)).
Proof. exact signed_step_explicit. Qed.

Theorem C06_signed_step_inv_general : forall und n R q,
  pre und n R -> goodq n q -> cond4 R q = true -> sinv und n R (swap4 und R q).
Proof. exact signed_step_inv. Qed.

(* ---------- whole runs of randmio_*_signed: for every stream (of any length; exhaustion returns the current
   state) the final matrix AND the state after every accepted swap satisfy the invariant w.r.t. the input ---------- *)
Theorem C06_signed_run_inv : forall und n R itr s Rf sf tr, (0 < n)%nat -> pre und n R ->
  randmio_signed und n R itr s = (Rf, sf, tr) ->
  let ok := fun M => same_signed_degrees n R M /\ same_entries n R M /\ same_diag n R M /\
                     (und = true -> symn n M) in
  ok Rf /\ Forall (fun e => ok (snd e)) tr.
Proof. exact randmio_signed_meets_property. Qed.

Theorem C06_signed_run_inv_general : forall und n R itr s Rf sf tr, (0 < n)%nat -> pre und n R ->
  randmio_signed und n R itr s = (Rf, sf, tr) ->
  sinv und n R Rf /\ Forall (fun e => sinv und n R (snd e)) tr.
Proof. exact randmio_signed_inv. Qed.

(* ---------- null_model_dir_sign (und = false) / null_model_und_sign (und = true) ----------
   deal_multiset + corr_def: whenever the run returns, for every bin_swaps, wei_freq, stream and oracle orders,
   the output has the input's signed degrees (in and out), the input's multiset of entries, an empty diagonal,
   is symmetric (und), carries the rewired sign pattern, and the returned correlations are those of the strength
   sequences of the (diagonal-cleared) input and the output. *)
Theorem C06_deal_multiset_corr_def : forall und n W bin_swaps wei_freq ints ords perms r, (0 < n)%nat ->
  null_model und n W bin_swaps wei_freq ints ords perms = Some r -> null_model_property und n W r.
Proof. exact null_model_meets_property. Qed.

(* the general form, including the rewired matrix and every intermediate state of the inner rewiring *)
Theorem C06_null_model_inv_general : forall und n W bin_swaps wei_freq ints ords perms r, (0 < n)%nat ->
  null_model und n W bin_swaps wei_freq ints ords perms = Some r ->
  sinv und n (clear_diag W) (nm_W0 r) /\
  (forall i, (i < n)%nat -> nm_W0 r i i = 0) /\
  (forall i j, (i < n)%nat -> (j < n)%nat -> Z.sgn (nm_W0 r i j) = Z.sgn (nm_Wr r i j)) /\
  sinv und n (clear_diag W) (nm_Wr r) /\
  Forall (fun e => sinv und n (clear_diag W) (snd e)) (nm_trace r) /\
  nm_corr r = corr4 n (clear_diag W) (nm_W0 r).
Proof. exact null_model_inv. Qed.

Theorem C06_null_model_rewiring_inv : forall und n W bin_swaps wei_freq ints ords perms r, (0 < n)%nat ->
  null_model und n W bin_swaps wei_freq ints ords perms = Some r ->
  let ok := fun M => same_signed_degrees n (clear_diag W) M /\ same_entries n (clear_diag W) M /\
                     same_diag n (clear_diag W) M /\ (und = true -> symn n M) in
  ok (nm_Wr r) /\ Forall (fun e => ok (snd e)) (nm_trace r).
Proof. exact null_model_rewiring_inv. Qed.

Theorem C06_null_model_und_rejects : forall n W bin_swaps wei_freq ints ords perms,
  symb n W = false -> null_model true n W bin_swaps wei_freq ints ords perms = None.
Proof. exact null_model_und_rejects. Qed.

(* what a returned correlation triple (cxy, cxx, cyy) means: twice the (co)variance sums over all pairs;
   cxx >= 0, and cxx = 0 exactly when the sequence is constant (np.corrcoef then gives NaN) *)
Theorem C06_corr3_var : forall x y n, let '(_, cxx, _) := corr3 x y n in
  2 * cxx = sum2 (fun i j => (x i - x j) * (x i - x j)) n /\ 0 <= cxx /\
  (cxx = 0 <-> forall i j, (i < n)%nat -> (j < n)%nat -> x i = x j).
Proof. exact corr3_var. Qed.

Theorem C06_corr3_cov : forall x y n, let '(cxy, _, cyy) := corr3 x y n in
  2 * cxy = sum2 (fun i j => (x i - x j) * (y i - y j)) n /\
  2 * cyy = sum2 (fun i j => (y i - y j) * (y i - y j)) n.
Proof. exact corr3_cov. Qed.

(* ---------- non-vacuity ---------- *)
(* 430 = nodes 0,1,2,3; 6 = collision, retried; 38 = nodes 3,2,1,0: two accepted swaps, then the stream ends *)
Example C06_run_nonvacuous :
  let R := of_rows 0 [[0; 2; -1; 0; 3]; [1; 0; 0; -2; 0]; [-3; 0; 0; 1; 2]; [0; -1; 4; 0; 0]; [2; 0; -2; 1; 0]]%list in
  exists Rf sf tr, randmio_signed false 5 R 1 [430; 6; 38]%list = (Rf, sf, tr)
                   /\ (2 <= length tr)%nat.
Proof. eexists. eexists. eexists. split; [vm_compute; reflexivity|]. vm_compute. repeat constructor. Qed.

(* directed null model, wei_freq = 1/2 (period 2): two rewirings, then 4 + 3 dealing periods with identity
   oracle orders and reversed permutations; the dealt matrix differs from the input and from the rewired one *)
Example C06_null_model_dir_nonvacuous :
  let W := of_rows 0 [[0; 2; -1; 0; 3]; [1; 0; 0; -2; 0]; [-3; 0; 0; 1; 2]; [0; -1; 4; 0; 0]; [2; 0; -2; 1; 0]]%list in
  let lens := [8; 6; 4; 2; 5; 3; 1]%nat in
  exists r, null_model false 5 W 1 (1 # 2) [430; 6; 38]%list (map (seq 0) lens) (map (fun m => rev (seq 0 m)) lens) = Some r
            /\ zrows 5 (nm_W0 r) = [[0; 0; -1; 1; 1]; [0; 0; 1; -1; 0]; [-2; 2; 0; 0; 2]; [2; -2; 0; 0; 0]; [3; 0; -3; 4; 0]]%list
            /\ length (nm_trace r) = 2%nat.
Proof. eexists. split; [vm_compute; reflexivity|]. split; vm_compute; reflexivity. Qed.

(* undirected null model, wei_freq = 0 (one argsort per sign, no permutation draw), bin_swaps = 0 *)
Example C06_null_model_und_nonvacuous :
  let W := of_rows 0 [[0; 2; -1; 0; 3]; [2; 0; 0; -2; 1]; [-1; 0; 0; 1; -2]; [0; -2; 1; 0; 0]; [3; 1; -2; 0; 0]]%list in
  exists r, null_model true 5 W 0 0 []%list [[2; 0; 3; 1]; [1; 2; 0]]%list%nat []%list = Some r
            /\ zrows 5 (nm_W0 r) = [[0; 1; -2; 0; 3]; [1; 0; 0; -1; 1]; [-2; 0; 0; 2; -2]; [0; -1; 2; 0; 0]; [3; 1; -2; 0; 0]]%list.
Proof. eexists. split; [vm_compute; reflexivity|]. vm_compute. reflexivity. Qed.

Print Assumptions C06_pick4_distinct.
Print Assumptions C06_pick4_digits.
Print Assumptions C06_pick4_needs_4.
Print Assumptions C06_signed_step_inv.
Print Assumptions C06_signed_step_inv_general.
Print Assumptions C06_signed_run_inv.
Print Assumptions C06_signed_run_inv_general.
Print Assumptions C06_deal_multiset_corr_def.
Print Assumptions C06_null_model_inv_general.
Print Assumptions C06_null_model_rewiring_inv.
Print Assumptions C06_null_model_und_rejects.
Print Assumptions C06_corr3_var.
Print Assumptions C06_corr3_cov.
