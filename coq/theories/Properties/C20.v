(* Properties/C20.v — synthetic generators deliver the requested size, edge count, symmetry, degree sequences, band
   structure.  Only statements; every proof is `exact <lemma of Proofs/Generators*.v>`.
   All theorems are universal over N, K and EVERY random stream (the stream is an explicit argument of the model;
   the only thing assumed about it is what NumPy guarantees: permutation(m) is a permutation of 0..m-1,
   random_sample lies in [0,1)). *)
From Coq Require Import ZArith QArith List Arith Bool Lia Permutation.
From BCT Require Import Base.Mat Base.ListX Base.SumQ Model.Generators Model.GeneratorsExt Proofs.GeneratorsBase
  Proofs.Generators Proofs.GeneratorsRing Proofs.GeneratorsDeg Proofs.GeneratorsTemplate Proofs.GeneratorsProfile
  Proofs.GeneratorsDomain Proofs.GeneratorsRepair Proofs.GeneratorsLive.
Import ListNotations.
Open Scope Z_scope.

(* makerandCIJ_dir: the first K of a permutation of the n^2-n off-diagonal cells => 0/1, empty diagonal,
   exactly min(K, n^2-n) ones, i.e. exactly K for every feasible K *)
Theorem C20_makerand_dir_count : forall n k rp,
  Permutation rp (seq 0 (length (offdiag n))) ->
  let C := makerand_dir n k rp in
  (forall i j, C i j = 0 \/ C i j = 1) /\
  (forall i, C i i = 0) /\
  sum2 C n = Z.of_nat (Nat.min k (n * n - n)) /\
  ((k <= n * n - n)%nat -> sum2 C n = Z.of_nat k).
Proof. exact makerand_dir_count. Qed.

(* makerandCIJ_und: K upper-triangular picks mirrored => symmetric, 0/1, empty diagonal, K cells above the diagonal,
   2K ones in total *)
Theorem C20_makerand_und_sym_count : forall n k rp,
  Permutation rp (seq 0 (length (upper n))) ->
  let C := makerand_und n k rp in
  (forall i j, C i j = C j i) /\
  (forall i j, C i j = 0 \/ C i j = 1) /\
  (forall i, C i i = 0) /\
  sum2 C n = 2 * Z.of_nat (Nat.min k (length (upper n))) /\
  sum2 (fun i j => if Nat.ltb i j then C i j else 0) n = Z.of_nat (Nat.min k (length (upper n))) /\
  ((2 * k <= n * n - n)%nat -> sum2 C n = 2 * Z.of_nat k).
Proof. exact makerand_und_sym_count. Qed.

Theorem C20_upper_cells : forall n, 2 * Z.of_nat (length (upper n)) = Z.of_nat n * Z.of_nat n - Z.of_nat n.
Proof. exact upper_length. Qed.

(* makeringlatticeCIJ, every feasible K (0 <= K <= N^2-N), every stream: the routine returns (no IndexError from
   seq[count]); there is a band count c <= N/2 with: every cell at ring distance 1..c-1 set, nothing beyond ring
   distance c, diagonal empty, 0/1; c is minimal (the c-1 nearer bands alone hold fewer than K cells, so cells are
   removed from the outermost band only); exactly K cells when the draw is a permutation of the outermost band. *)
Theorem C20_ringlattice_bands : forall n k rp, (k <= n * n - n)%nat ->
  exists c R,
    ringlattice n k rp = Some R /\
    (2 * c <= n)%nat /\
    (forall i j, (i < n)%nat -> (j < n)%nat ->
       (R i j = 0 \/ R i j = 1) /\
       ((0 < ringdist n i j < c)%nat -> R i j = 1) /\
       ((c < ringdist n i j)%nat -> R i j = 0) /\
       (i = j -> R i j = 0)) /\
    ((0 < k)%nat -> (1 <= c)%nat /\ sum2 (ringfull n (c - 1)) n < Z.of_nat k <= sum2 (ringfull n c) n) /\
    ((k = 0)%nat -> c = 0%nat) /\
    ((Z.of_nat k = sum2 (ringfull n c) n \/ Permutation rp (seq 0 (length (last_band n c)))) ->
     sum2 R n = Z.of_nat k).
Proof. exact ringlattice_bands. Qed.

Theorem C20_ringlattice_feasible_returns : forall n k rp, (k <= n * n - n)%nat -> ringlattice n k rp <> None.
Proof. exact ringlattice_feasible_returns. Qed.

(* maketoeplitzCIJ: for ANY profile with a non-positive diagonal and any stream of samples >= 0:
   if the rejection loop returns, the matrix has exactly K ones, is 0/1 and has an empty diagonal *)
Theorem C20_toeplitz_exact_K : forall n k template stream R,
  (forall i, (template i i <= 0)%Q) -> Forall nonneg_sample stream ->
  toeplitz n k template stream = Some R ->
  sum2 R n = Z.of_nat k /\
  (forall i j, (i < n)%nat -> (j < n)%nat -> R i j = 0 \/ R i j = 1) /\
  (forall i, (i < n)%nat -> R i i = 0).
Proof. exact toeplitz_exact_K. Qed.

(* makefractalCIJ: the reported count is the number of ones; 0/1; empty diagonal; every cell whose decay exponent is 0
   (the clusters) is connected *)
Theorem C20_fractal_count : forall mx pw sz X C k,
  fractal mx pw sz X = Some (C, k) ->
  let n := (2 ^ mx)%nat in
  k = sum2 C n /\
  (forall i j, (i < n)%nat -> (j < n)%nat -> C i j = 0 \/ C i j = 1) /\
  (nonneg_sample X -> forall i, (i < n)%nat -> C i i = 0) /\
  ((pw O == 1)%Q -> (forall i j, (X i j < 1)%Q) ->
     forall i j, (i < n)%nat -> (j < n)%nat -> i <> j -> fractal_ee mx sz i j = 0 -> C i j = 1).
Proof. exact fractal_count. Qed.

(* makeevenCIJ *)
Section EvenStatement.
Variables (n k : nat) (sz : Z) (rp : list nat) (R : mat Z).
Hypothesis Hrun : even n k sz rp = Some R.
Let mx := Nat.log2 n.
Let n' := (2 ^ mx)%nat.
Let CIJp := tab 0 n' n' (even_clusters mx sz).
Let nc := sum2 CIJp n'.
Let free := filter (fun c : cell => Z.eqb (CIJp (fst c) (snd c) + eye (fst c) (snd c)) 0) (cells n').

(* exactly K when cluster cells <= K <= N^2-N; always 0/1 with full clusters; empty diagonal *)
Theorem C20_even_count :
  (forall i j, (i < n')%nat -> (j < n')%nat -> (R i j = 0 \/ R i j = 1) /\ (CIJp i j = 1 -> R i j = 1)) /\
  (sz <= Z.of_nat mx -> (Z.of_nat k < nc \/ Permutation rp (seq 0 (length free))) ->
   forall i, (i < n')%nat -> R i i = 0) /\
  (sz <= Z.of_nat mx -> nc <= Z.of_nat k -> Z.of_nat k <= Z.of_nat n' * Z.of_nat n' - Z.of_nat n' ->
   Permutation rp (seq 0 (length free)) -> sum2 R n' = Z.of_nat k).
Proof. destruct (even_spec n k sz rp R Hrun) as (_ & _ & H3 & H4 & H5). exact (conj H3 (conj H4 H5)). Qed.

(* documented behaviour for K below the cluster cells: the clusters only *)
Theorem C20_even_clusters_only : Z.of_nat k < nc -> forall i j, R i j = CIJp i j.
Proof. destruct (even_spec n k sz rp R Hrun) as (_ & H2 & _). exact H2. Qed.
End EvenStatement.

(* the hierarchical template both generators build iteratively, in closed form: off the diagonal it is
   1 + the number of block sizes 2^1..2^(mx-1) at which i and j share a block; consequently the cluster mask of
   makeevenCIJ and the zero-decay cells of makefractalCIJ are exactly the diagonal blocks of size 2^sz_cl *)
Theorem C20_template_levels : forall mx s i j,
  (1 <= s <= mx)%nat -> (i < 2 ^ mx)%nat -> (j < 2 ^ mx)%nat -> i <> j ->
  template mx i j = 1 + cntlev (mx - 1) i j /\
  (Z.of_nat mx - (Z.of_nat s - 1) <= template mx i j <-> (i / 2 ^ s = j / 2 ^ s)%nat).
Proof. exact template_levels. Qed.

Theorem C20_even_clusters_blocks : forall mx s i j,
  (1 <= s <= mx)%nat -> (i < 2 ^ mx)%nat -> (j < 2 ^ mx)%nat -> i <> j ->
  (even_clusters mx (Z.of_nat s) i j = 1 <-> (i / 2 ^ s = j / 2 ^ s)%nat).
Proof. exact even_clusters_blocks. Qed.

Theorem C20_fractal_clusters_blocks : forall mx s i j,
  (1 <= s <= mx)%nat -> (i < 2 ^ mx)%nat -> (j < 2 ^ mx)%nat -> i <> j ->
  (fractal_ee mx (Z.of_nat s) i j = 0 <-> (i / 2 ^ s = j / 2 ^ s)%nat).
Proof. exact fractal_ee_blocks. Qed.

(* makerandCIJdegreesfixed: loop invariant of the stub matching with repair, for arbitrary stub arrays *)
Theorem C20_degfixed_invariant : forall n k e0 e1i,
  (forall t, (t < k)%nat -> (e0 t < n)%nat) ->
  forall stream C e1' rest,
  (forall t, (t < k)%nat -> (e1i t < n)%nat) ->
  place k n k 0 e0 eye e1i stream = Done (C, e1', rest) ->
  let R := fun i j => C i j - eye i j in
  (forall i j, (i < n)%nat -> (j < n)%nat -> R i j = 0 \/ R i j = 1) /\
  (forall i, (i < n)%nat -> R i i = 0) /\
  (forall r, (r < n)%nat -> sumn (fun c => R r c) n = rowcnt k e0 r) /\
  (forall c, (c < n)%nat -> sumn (fun r => R r c) n = colcnt k e1i c).
Proof. exact degfixed_invariant. Qed.

(* ... and for the routine itself: when it returns, row sums = out-degrees, column sums = in-degrees, 0/1, empty diagonal *)
Theorem C20_degfixed_rowcol : forall inv outv rp stream R,
  length outv = length inv ->
  fold_right Nat.add O outv = fold_right Nat.add O inv ->
  Permutation rp (seq 0 (fold_right Nat.add O inv)) ->
  degfixed inv outv rp stream = Done R ->
  let n := length inv in
  (forall i j, (i < n)%nat -> (j < n)%nat -> R i j = 0 \/ R i j = 1) /\
  (forall i, (i < n)%nat -> R i i = 0) /\
  (forall r, (r < n)%nat -> sumn (fun c => R r c) n = Z.of_nat (nth r outv O)) /\
  (forall c, (c < n)%nat -> sumn (fun r => R r c) n = Z.of_nat (nth c inv O)).
Proof. exact degfixed_rowcol. Qed.

(* ---------------- maketoeplitzCIJ with its profile (reference.py:857-859) inside the model ---------------- *)
(* template = toeplitz((0, pf(1), pf(2), ...)) * q for ANY profile pf (scipy's norm.pdf is a numeric kernel) and ANY
   scale q: zero diagonal, symmetric, constant along diagonals, non-negative for non-negative pf and q *)
Theorem C20_toeplitz_template_shape : forall pf q,
  let T := toep_template pf q in
  (forall i, (T i i == 0)%Q) /\
  (forall i j, T i j = T j i) /\
  (forall i j i' j', absdiff i j = absdiff i' j' -> T i j = T i' j') /\
  ((forall d, (0 <= pf d)%Q) -> (0 <= q)%Q -> forall i j, (0 <= T i j)%Q) /\
  (forall i j, i <> j -> (T i j == pf (absdiff i j) * q)%Q).
Proof. exact toep_template_shape. Qed.

(* with q = K / np.sum(template) (exact arithmetic) the template sums to K *)
Theorem C20_toeplitz_template_sum : forall n k pf,
  ~ (sum2Q (toep_unscaled pf) n == 0)%Q ->
  (sum2Q (toep_template pf (toep_scale n k pf)) n == inject_Z k)%Q.
Proof. exact toep_template_sum. Qed.

(* C20_toeplitz_exact_K with its diagonal hypothesis discharged: for every profile, scale, K (any sign) and stream of
   samples >= 0, a run that returns has exactly K ones, is 0/1 and has an empty diagonal *)
Theorem C20_toeplitz_profile_exact_K : forall n k pf q stream R itr,
  Forall nonneg_sample stream ->
  maketoeplitz n k pf q stream = TDone R itr ->
  sum2 R n = k /\
  (forall i j, (i < n)%nat -> (j < n)%nat -> R i j = 0 \/ R i j = 1) /\
  (forall i, (i < n)%nat -> R i i = 0).
Proof. exact toeplitz_profile_exact_K. Qed.

(* the matrix returned is the FIRST sample with exactly K ones (or the zero matrix when K = 0), after itr <= 10000 draws *)
Theorem C20_toeplitz_first_accepted : forall n k pf q stream R itr,
  maketoeplitz n k pf q stream = TDone R itr ->
  let T := toep_template pf q in
  0 <= itr <= 10000 /\ Z.of_nat (Z.to_nat itr) <= Z.of_nat (length stream) /\
  R = tstate n T zeros stream (Z.to_nat itr) /\
  (forall t, (t < Z.to_nat itr)%nat -> sum2 (tstate n T zeros stream t) n <> k).
Proof. exact toeplitz_first_accepted. Qed.

(* BCTParamError only after exactly 10001 draws, with K <> 0 and every one of the first 10000 samples rejected *)
Theorem C20_toeplitz_raise_justified : forall n k pf q stream itr,
  maketoeplitz n k pf q stream = TRaised itr ->
  let T := toep_template pf q in
  itr = 10001 /\ 10001 <= Z.of_nat (length stream) /\ k <> 0 /\
  (forall t, Z.of_nat t < 10000 -> sum2 (sample_lt n (nth t stream qzero) T) n <> k).
Proof. exact toeplitz_raise_justified. Qed.

(* the premise of C20_toeplitz_profile_exact_K is satisfiable for every K between the number of template cells >= 1
   (connected by every sample, samples being < 1) and the number of positive template cells: there is a sample with
   values in [0,1) that the loop accepts at its first pass (existence only, no probability) *)
Theorem C20_toeplitz_feasible_stream : forall n k pf q,
  let T := toep_template pf q in
  (length (forced n T) <= k <= length (forced n T) + length (midc n T))%nat ->
  exists X R itr, (forall i j, (0 <= X i j /\ X i j < 1)%Q) /\
    maketoeplitz n (Z.of_nat k) pf q [X] = TDone R itr /\ sum2 R n = Z.of_nat k.
Proof. exact maketoeplitz_feasible_stream. Qed.

(* ---------------- border of the documented domain ---------------- *)
(* makeevenCIJ: "exactly K connections" is FALSE for a K below the number of cluster cells (N=4, K=1, sz_cl=1 gives the
   4 cluster cells).  The docstring documents it ("A warning is generated if all modules contain more edges than K"):
   a documented limitation of the routine, not a defect; the positive statement is C20_even_clusters_only *)
Theorem C20_even_exact_K_refuted :
  exists n k sz rp R, even n k sz rp = Some R /\ (1 <= sz <= Z.of_nat (Nat.log2 n)) /\
    (Z.of_nat k <= Z.of_nat n * Z.of_nat n - Z.of_nat n) /\ sum2 R (2 ^ Nat.log2 n) <> Z.of_nat k.
Proof. exact even_exact_K_refuted. Qed.

(* signed K (Python int): CIJ.flat[ix[rp][:k]] — a negative K silently yields N^2-N-|K| (2*(N(N-1)/2-|K|)) connections *)
Theorem C20_makerand_signed_K : forall n k rp,
  (Permutation rp (seq 0 (length (offdiag n))) ->
   let C := makerand_dir_z n k rp in
   let N := Z.of_nat n * Z.of_nat n - Z.of_nat n in
   (forall i j, C i j = 0 \/ C i j = 1) /\ (forall i, C i i = 0) /\
   (0 <= k -> sum2 C n = Z.min k N) /\
   (k < 0 -> sum2 C n = Z.max 0 (N + k))) /\
  (Permutation rp (seq 0 (length (upper n))) ->
   let C := makerand_und_z n k rp in
   let U := Z.of_nat (length (upper n)) in
   (forall i j, C i j = C j i) /\ (forall i j, C i j = 0 \/ C i j = 1) /\ (forall i, C i i = 0) /\
   (0 <= k -> sum2 C n = 2 * Z.min k U) /\
   (k < 0 -> sum2 C n = 2 * Z.max 0 (U + k))).
Proof. exact makerand_signed_K. Qed.

Theorem C20_even_signed_K : forall n sz rp,
  (forall k : nat, even n k sz rp = even_z n (Z.of_nat k) sz rp) /\
  (forall k R, k < 0 -> even_z n k sz rp = Some R ->
     forall i j, R i j = tab 0 (2 ^ Nat.log2 n) (2 ^ Nat.log2 n) (even_clusters (Nat.log2 n) sz) i j).
Proof. exact even_signed_K. Qed.

Theorem C20_ring_negative_K : forall n k rp,
  (k < 0 -> ringlattice_z n k rp = None) /\
  (0 <= k -> ringlattice_z n k rp = ringlattice n (Z.to_nat k) rp).
Proof. exact ring_negative_K. Qed.

(* the feasibility hypothesis of C20_ringlattice_bands cannot be dropped: N=4, K=13 > 12 returns a matrix with an entry 2
   and 6 connections (outside the documented domain: "all feasible K") *)
Theorem C20_ringlattice_infeasible_K_refuted :
  exists n k rp R, (n * n - n < k)%nat /\ Permutation rp (seq 0 8) /\ ringlattice n k rp = Some R /\
    sum2 R n <> Z.of_nat k /\ exists i j, (i < n)%nat /\ (j < n)%nat /\ R i j = 2.
Proof. exact ring_infeasible_K_refuted. Qed.

(* ---------------- makerandCIJdegreesfixed: BCTParamError means that no admissible switch existed ---------------- *)
(* in a state of the loop (invariant: CIJ = I + multiplicities of the placed edges, entries <= 1) edge i hits an occupied
   cell and EVERY stub s < k is refused (CIJ[e0 i, e1 s] or CIJ[e0 s, e1 i] occupied) *)
Theorem C20_degfixed_raise_justified : forall n k e0 e1i,
  (forall t, (t < k)%nat -> (e0 t < n)%nat) ->
  forall stream,
  (forall t, (t < k)%nat -> (e1i t < n)%nat) ->
  place k n k 0 e0 eye e1i stream = Raised ->
  exists i C e1, (i < k)%nat /\ Inv n k e0 e1i i C e1 /\ C (e0 i) (e1 i) <> 0 /\
    forall s, (s < k)%nat -> C (e0 i) (e1 s) <> 0 \/ C (e0 s) (e1 i) <> 0.
Proof. exact degfixed_raise_justified. Qed.

(* for the routine itself, any inv / outv / permutation / draws *)
Theorem C20_degfixed_raised : forall inv outv rp stream,
  degfixed inv outv rp stream = Raised ->
  let n := length inv in
  let k := fold_right Nat.add O inv in
  let e0 := of_list O (stubs n outv k) in
  exists (i : nat) (C : mat Z) (e1 : vec nat), (i < k)%nat /\ C (e0 i) (e1 i) <> 0 /\
    forall s, (s < k)%nat -> C (e0 i) (e1 s) <> 0 \/ C (e0 s) (e1 i) <> 0.
Proof. exact degfixed_raised. Qed.

(* conversely: while some stub is admissible the repair loop never raises, whatever the draws *)
Theorem C20_degfixed_repair_not_raised : forall n k i e0 CIJ e1 stream s,
  (s < k)%nat -> CIJ (e0 i) (e1 s) = 0 -> CIJ (e0 s) (e1 i) = 0 ->
  repair n k i e0 CIJ e1 [] stream <> Raised.
Proof. exact repair_not_raised. Qed.

(* ---------------- non-vacuity ---------------- *)
Example C20_nonvacuous_dir :
  Permutation [3; 0; 5; 1; 4; 2]%nat (seq 0 (length (offdiag 3))) /\ sum2 (makerand_dir 3 4 [3; 0; 5; 1; 4; 2]%nat) 3 = 4.
Proof. split; [|vm_compute; reflexivity]. apply (NoDup_Permutation_bis); [repeat constructor; cbn; intuition lia| vm_compute; lia |].
  intros x Hx. vm_compute in *. intuition lia. Qed.

Example C20_nonvacuous_ring :
  exists R, ringlattice 6 15 [2; 0; 5; 1; 3; 4; 6; 7; 8; 9; 10; 11]%nat = Some R /\ sum2 R 6 = 15 /\ R 0%nat 1%nat = 1 /\ R 0%nat 3%nat = 0.
Proof. eexists. split; [reflexivity|]. vm_compute. auto. Qed.

(* identity matching of the stubs puts every edge on the diagonal: all three are repaired *)
Example C20_nonvacuous_degfixed :
  run_degfixed [1; 1; 1]%nat [1; 1; 1]%nat [0; 1; 2]%nat [2; 1; 0; 2; 1]%nat = (O, [[0; 1; 0]; [0; 0; 1]; [1; 0; 0]]) /\
  run_degfixed [2; 1; 1]%nat [1; 1; 2]%nat [0; 1; 2; 3]%nat [2; 1; 0; 2; 1; 3; 0; 1; 2]%nat
    = (O, [[0; 0; 1]; [1; 0; 0]; [1; 1; 0]]).
Proof. split; vm_compute; reflexivity. Qed.

Example C20_nonvacuous_even :
  exists R, even 4 6 1 [3; 0; 1; 2; 4; 5; 6; 7]%nat = Some R /\ sum2 R 4 = 6.
Proof. eexists. split; [reflexivity|]. vm_compute. reflexivity. Qed.

Example C20_nonvacuous_und :
  Permutation [2; 0; 1]%nat (seq 0 (length (upper 3))) /\ sum2 (makerand_und 3 2 [2; 0; 1]%nat) 3 = 4 /\
  run_rand_und 3 2 [2; 0; 1]%nat = [[0; 1; 0]; [1; 0; 1]; [0; 1; 0]].
Proof. split; [|split; vm_compute; reflexivity]. apply (NoDup_Permutation_bis); [repeat constructor; cbn; intuition lia| vm_compute; lia |].
  intros x Hx. vm_compute in *. intuition lia. Qed.

(* K = 1 > 0, profile (0, 1) scaled by 1/2: the first sample has two ones (rejected), the second exactly one *)
Example C20_nonvacuous_toeplitz :
  run_toeplitz_pf 2 1 [5; 1]%Q (1 # 2) [[[0; 1 # 4]; [1 # 4; 0]]; [[0; 1 # 4]; [3 # 4; 0]]]%Q = (O, (2, [[0; 1]; [0; 0]])) /\
  sum2 (sample_lt 2 (qmat [[0; 1 # 4]; [1 # 4; 0]]%Q) (toep_template (qvec [5; 1]%Q) (1 # 2))) 2 = 2.
Proof. split; vm_compute; reflexivity. Qed.

Example C20_nonvacuous_fractal :
  run_fractal 2 [1; 1 # 2; 1 # 4]%Q 1 [[1 # 2; 1 # 2; 1 # 2; 1 # 2]; [1 # 2; 1 # 2; 1 # 2; 1 # 2];
                                        [1 # 2; 1 # 2; 1 # 2; 1 # 2]; [1 # 2; 1 # 2; 1 # 2; 1 # 2]]%Q
  = Some ([[0; 1; 0; 0]; [1; 0; 0; 0]; [0; 0; 0; 1]; [0; 0; 1; 0]], 4).
Proof. vm_compute. reflexivity. Qed.

(* in-degrees (3,0,0) with out-degrees (1,1,1): the first edge is a self connection and every switch partner leads to
   node 0 again: the routine raises after having tried all three stubs *)
Example C20_nonvacuous_degfixed_raise :
  degfixed [3; 0; 0]%nat [1; 1; 1]%nat [0; 1; 2]%nat [0; 1; 2]%nat = Raised /\
  run_degfixed_chk [1; 1; 1]%nat [1; 1]%nat [] [] = (3%nat, []).
Proof. split; vm_compute; reflexivity. Qed.

Example C20_nonvacuous_signed_K :
  run_rand_dir_z 3 (-2) [3; 0; 5; 1; 4; 2]%nat = [[0; 1; 1]; [0; 0; 1]; [0; 1; 0]] /\
  run_ring_z 4 (-1) [] = None /\ run_even_z 8 (-3) 1 [] = run_even 8 0 1 [].
Proof. repeat split; vm_compute; reflexivity. Qed.

(* profile (0, 1, 1/2) scaled by 3/2 on 3 nodes: the four cells at distance 1 are >= 1 (forced), the two at distance 2 are
   in (0,1): every K in 4..6 has a returning sample *)
Example C20_nonvacuous_feasible_stream :
  length (forced 3 (toep_template (qvec [0; 1; 1 # 2]%Q) (3 # 2))) = 4%nat /\
  length (midc 3 (toep_template (qvec [0; 1; 1 # 2]%Q) (3 # 2))) = 2%nat.
Proof. split; vm_compute; reflexivity. Qed.

Print Assumptions C20_makerand_dir_count.
Print Assumptions C20_makerand_und_sym_count.
Print Assumptions C20_upper_cells.
Print Assumptions C20_ringlattice_bands.
Print Assumptions C20_ringlattice_feasible_returns.
Print Assumptions C20_toeplitz_exact_K.
Print Assumptions C20_fractal_count.
Print Assumptions C20_even_count.
Print Assumptions C20_even_clusters_only.
Print Assumptions C20_template_levels.
Print Assumptions C20_even_clusters_blocks.
Print Assumptions C20_fractal_clusters_blocks.
Print Assumptions C20_degfixed_invariant.
Print Assumptions C20_degfixed_rowcol.
Print Assumptions C20_toeplitz_template_shape.
Print Assumptions C20_toeplitz_template_sum.
Print Assumptions C20_toeplitz_profile_exact_K.
Print Assumptions C20_toeplitz_first_accepted.
Print Assumptions C20_toeplitz_raise_justified.
Print Assumptions C20_even_exact_K_refuted.
Print Assumptions C20_makerand_signed_K.
Print Assumptions C20_even_signed_K.
Print Assumptions C20_ring_negative_K.
Print Assumptions C20_ringlattice_infeasible_K_refuted.
Print Assumptions C20_degfixed_raise_justified.
Print Assumptions C20_degfixed_raised.
Print Assumptions C20_degfixed_repair_not_raised.
Print Assumptions C20_toeplitz_feasible_stream.
