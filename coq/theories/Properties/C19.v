(* Properties/C19.v — NBS reports true suprathreshold components and correct permutation p-values.
   Only statements; every proof is `exact <lemma of Proofs/Nbs.v or Proofs/NbsReal.v>`.
   [nbs n xs ys thr tl paired draws] is the statement-by-statement model of
   bct.nbs_bct(x, y, thresh, k=len(draws), tail, paired, seed) fed with the recorded draws
   (None = exception); xs, ys are the subject stacks (lists of n x n matrices over Q).
   [supra paired tl thr a b] is the model's decision `t_stat > thresh` for one connection;
   [supra_conn ... u v] says that the connection between u and v is suprathreshold;
   [supra_adj ...] is the 0/1 matrix of those connections, [path] reachability in it (C16). *)
From Coq Require Import QArith Qreals Reals List Arith ZArith Permutation.
From BCT Require Import Base.Mat Base.ListX Model.Components Proofs.Components Model.Nbs Proofs.Nbs Proofs.NbsReal.
Import ListNotations.
Local Open Scope nat_scope.

(* adj marks exactly the suprathreshold connections ... *)
Theorem C19_adj_support_iff_supra_and_component : forall n xs ys thr tl paired draws pv adj null,
  nbs n xs ys thr tl paired draws = Some (pv, adj, null) ->
  forall u v, u < n -> v < n -> (adj u v <> 0%Z <-> supra_conn n paired tl thr xs ys u v).
Proof. exact adj_support. Qed.

(* ... each of which lies in a component (u and v are joined), carries a label in 1..len(pvals),
   and two marked connections carry the same label exactly when they lie in the same component *)
Theorem C19_adj_label_is_component_index : forall n xs ys thr tl paired draws pv adj null,
  nbs n xs ys thr tl paired draws = Some (pv, adj, null) ->
  forall u v, u < n -> v < n -> supra_conn n paired tl thr xs ys u v ->
    (1 <= adj u v <= Z.of_nat (length pv))%Z /\
    path n (supra_adj n paired tl thr xs ys) u v /\
    forall u' v', u' < n -> v' < n -> supra_conn n paired tl thr xs ys u' v' ->
      (adj u v = adj u' v' <-> path n (supra_adj n paired tl thr xs ys) u u').
Proof. exact adj_labels. Qed.

(* every label 1..len(pvals) is carried by some suprathreshold connection: one p-value per component *)
Theorem C19_every_label_used : forall n xs ys thr tl paired draws pv adj null,
  nbs n xs ys thr tl paired draws = Some (pv, adj, null) ->
  forall j, j < length pv ->
    exists u v, u < n /\ v < n /\ supra_conn n paired tl thr xs ys u v /\ adj u v = Z.of_nat (j + 1).
Proof. exact every_label_used. Qed.

(* sz_links: one entry per component with more than one node (label order); the entry is half the
   sum of the symmetric 0/1 suprathreshold matrix over the nodes of the component = its number
   of connections; len(pvals) = number of such components *)
Theorem C19_links_are_component_sizes : forall n xs ys thr tl paired draws pv adj null,
  nbs n xs ys thr tl paired draws = Some (pv, adj, null) ->
  exists a sz szl,
    get_components n (supra_adj n paired tl thr xs ys) = Some (a, sz) /\
    observed n (tmask paired tl thr (vectorize n xs) (vectorize n ys)) = Some (szl, adj) /\
    szl = map (fun l => half_sum (supra_adj n paired tl thr xs ys) (nodes_of l a)) (big_labels sz) /\
    length pv = length szl /\
    (forall l, In l (big_labels sz) <-> 1 <= l <= length sz /\ 1 < nth (l - 1) sz 0).
Proof. exact links_spec. Qed.

(* ... and that half-sum is literally the number of suprathreshold connections (upper-triangle
   cells whose decision is true) both of whose endpoints carry the component's label *)
Theorem C19_links_are_connection_counts : forall n xs ys thr tl paired draws pv adj null,
  nbs n xs ys thr tl paired draws = Some (pv, adj, null) ->
  exists a sz szl,
    get_components n (supra_adj n paired tl thr xs ys) = Some (a, sz) /\
    observed n (tmask paired tl thr (vectorize n xs) (vectorize n ys)) = Some (szl, adj) /\
    length szl = length (big_labels sz) /\ length pv = length szl /\
    forall i, i < length szl ->
      (nth i szl 0 == inject_Z (Z.of_nat (links_in n paired tl thr xs ys a (nth i (big_labels sz) 0%nat))))%Q.
Proof. exact links_count. Qed.

(* pvals[i] = #{null >= sz_links[i]} / k, and there are k null values *)
Theorem C19_pval_def : forall n xs ys thr tl paired draws pv adj null,
  nbs n xs ys thr tl paired draws = Some (pv, adj, null) ->
  exists szl, observed n (tmask paired tl thr (vectorize n xs) (vectorize n ys)) = Some (szl, adj) /\
    length pv = length szl /\ length null = length draws /\ 0 < length draws /\
    forall i, i < length szl ->
      nth i pv 0%Q = (qn (length (filter (fun v => Qle_bool (nth i szl 0%Q) v) null)) / qn (length draws))%Q.
Proof. exact pval_spec. Qed.

(* every null value is the largest link count among the components of the data relabelled by
   the corresponding draw (0 when there is no component) *)
Theorem C19_null_is_max_component : forall n xs ys thr tl paired draws pv adj null,
  nbs n xs ys thr tl paired draws = Some (pv, adj, null) ->
  length null = length draws /\
  Forall2 (is_perm_max n paired tl thr (length xs) (length ys) (vectorize n xs) (vectorize n ys)) draws null.
Proof. exact null_spec. Qed.

(* swapping the groups together with the tail: the decision on every connection is unchanged,
   hence the same adjacency (labels included) and the same number of p-values, whatever the draws *)
Theorem C19_swap_decision : forall paired tl thr x y,
  supra paired (swap_tail tl) thr y x = supra paired tl thr x y.
Proof. exact supra_swap. Qed.

Theorem C19_swap_groups_tail_symmetry : forall n thr paired xs ys tl draws pv adj null draws' pv' adj' null',
  nbs n xs ys thr tl paired draws = Some (pv, adj, null) ->
  nbs n ys xs thr (swap_tail tl) paired draws' = Some (pv', adj', null') ->
  adj' = adj /\ length pv' = length pv.
Proof. exact swap_groups_tail_symmetry. Qed.

(* reordering subjects within each group (unpaired) / reordering the pairs (paired) *)
Theorem C19_reorder_within_group_invariant : forall n thr xs ys xs' ys' tl draws pv adj null draws' pv' adj' null',
  Permutation xs xs' -> Permutation ys ys' ->
  nbs n xs ys thr tl false draws = Some (pv, adj, null) ->
  nbs n xs' ys' thr tl false draws' = Some (pv', adj', null') ->
  adj' = adj /\ length pv' = length pv.
Proof. exact reorder_within_group_invariant. Qed.

Theorem C19_reorder_pairs_invariant : forall n thr xs ys xs' ys' tl draws pv adj null draws' pv' adj' null',
  Permutation (combine xs ys) (combine xs' ys') ->
  nbs n xs ys thr tl true draws = Some (pv, adj, null) ->
  nbs n xs' ys' thr tl true draws' = Some (pv', adj', null') ->
  adj' = adj /\ length pv' = length pv.
Proof. exact reorder_pairs_invariant. Qed.

(* the square-root-free comparison used by the model is `thresh < v / sqrt(d2)`:
   over Q for every rational witness of the root (axiom-free), and over the reals *)
Theorem C19_ratio_gt_sound : forall v d2 thr s, (0 < s)%Q -> (s * s == d2)%Q ->
  (ratio_gt v d2 thr = true <-> (thr < v / s)%Q).
Proof. exact ratio_gt_sound. Qed.

Theorem C19_t_gt_thresh_unpaired : forall tl thr x y,
  2 <= length x -> 2 <= length y -> (0 < pooled_d2 x y)%Q ->
  (supra2 tl thr x y = true <->
   (Q2R thr < Q2R (tailv tl (lmean x - lmean y)) / sqrt (Q2R (pooled_d2 x y)))%R).
Proof. exact supra2_real. Qed.

Theorem C19_t_gt_thresh_paired : forall tl thr x y,
  2 <= length (diffs x y) -> ~ (paired_ss (diffs x y) == 0)%Q ->
  (0 < paired_ss (diffs x y) / qn (length (diffs x y) - 1) / qn (length (diffs x y)))%Q ->
  (supra_p tl thr x y = true <->
   (Q2R thr < Q2R (tailv tl (lmean (diffs x y)))
              / sqrt (Q2R (paired_ss (diffs x y) / qn (length (diffs x y) - 1) / qn (length (diffs x y)))))%R).
Proof. exact supra_p_real. Qed.

(* non-vacuity: 4 nodes, 3+3 subjects, strong effects on the connections 0-1 and 2-3, none
   elsewhere; three recorded permutations.  Two components labelled 1 and 2, one connection each;
   null = [1;0;0] so both p-values are 1/3.  With tail='left' nothing is suprathreshold (None);
   swapping the groups as well restores the same adjacency. *)
Definition ex_mk (a b c : Q) : list (list Q) := [[0;a;c;c];[a;0;c;c];[c;c;0;b];[c;c;b;0]]%Q.
Definition ex_xs := [ex_mk 10 9 1; ex_mk 11 10 2; ex_mk 12 11 3]%Q.
Definition ex_ys := [ex_mk 1 0 1; ex_mk 2 1 2; ex_mk 3 2 3]%Q.
Example C19_nonvacuous :
  run_nbs 4 ex_xs ex_ys 2 0 false [[0;1;2;3;4;5];[3;1;2;0;4;5];[0;4;2;3;1;5]] []
  = Some ([1 # 3; 1 # 3]%Q, [[0;1;0;0];[1;0;0;0];[0;0;0;2];[0;0;2;0]]%Z, [1; 0; 0]%Q)
  /\ run_nbs 4 ex_xs ex_ys 2 1 false [[0;1;2;3;4;5]] [] = None
  /\ run_nbs 4 ex_ys ex_xs 2 1 false [[0;1;2;3;4;5]] []
     = Some ([1; 1]%Q, [[0;1;0;0];[1;0;0;0];[0;0;0;2];[0;0;2;0]]%Z, [1]%Q).
Proof. vm_compute. repeat split. Qed.

Set Printing Width 400.
Print Assumptions C19_adj_support_iff_supra_and_component.
Print Assumptions C19_adj_label_is_component_index.
Print Assumptions C19_every_label_used.
Print Assumptions C19_links_are_component_sizes.
Print Assumptions C19_links_are_connection_counts.
Print Assumptions C19_pval_def.
Print Assumptions C19_null_is_max_component.
Print Assumptions C19_swap_decision.
Print Assumptions C19_swap_groups_tail_symmetry.
Print Assumptions C19_reorder_within_group_invariant.
Print Assumptions C19_reorder_pairs_invariant.
Print Assumptions C19_ratio_gt_sound.
Print Assumptions C19_t_gt_thresh_unpaired.
Print Assumptions C19_t_gt_thresh_paired.
