(* Properties/C19.v — NBS reports true suprathreshold components and correct permutation p-values.
   Only statements; every proof is `exact <lemma of Proofs/Nbs.v or Proofs/NbsReal.v>`.
   [nbs n xs ys thr tl paired draws] is the statement-by-statement model of
   bct.nbs_bct(x, y, thresh, k=len(draws), tail, paired, seed) fed with the recorded draws
   (None = exception); xs, ys are the subject stacks (lists of n x n matrices over Q).
   [supra paired tl thr a b] is the model's decision `t_stat > thresh` for one connection;
   [supra_conn ... u v] says that the connection between u and v is suprathreshold;
   [supra_adj ...] is the 0/1 matrix of those connections, [path] reachability in it (C16). *)
From Coq Require Import QArith Qreals Reals List Arith ZArith Permutation.
From BCT Require Import Base.Mat Base.ListX Model.Components Proofs.Components Model.Nbs Model.NbsApi Proofs.Nbs Proofs.NbsReal Proofs.NbsFull.
Import ListNotations.
Local Open Scope nat_scope.

(* adj marks exactly the suprathreshold connections ... *)
Theorem C19_adj_support_iff_supra_and_component : forall n xs ys thr tl paired draws pv adj null,
  nbs n xs ys thr tl paired draws = Some (pv, adj, null) ->
  forall u v, u < n -> v < n -> (adj u v <> 0%Z <-> supra_conn n paired tl thr xs ys u v).
Proof. exact adj_support. Qed.

(* ... each of which lies in a component (u and v are joined), carries a label in 1..len(pvals),
   and two marked connections carry the same label exactly when they lie in the same component *)
Theorem C19_adj_label_is_component_index : forall n xs ys thr tl paired draws pv adj null,
  nbs n xs ys thr tl paired draws = Some (pv, adj, null) ->
  forall u v, u < n -> v < n -> supra_conn n paired tl thr xs ys u v ->
    (1 <= adj u v <= Z.of_nat (length pv))%Z /\
    path n (supra_adj n paired tl thr xs ys) u v /\
    forall u' v', u' < n -> v' < n -> supra_conn n paired tl thr xs ys u' v' ->
      (adj u v = adj u' v' <-> path n (supra_adj n paired tl thr xs ys) u u').
Proof. exact adj_labels. Qed.

(* every label 1..len(pvals) is carried by some suprathreshold connection: one p-value per component *)
Theorem C19_every_label_used : forall n xs ys thr tl paired draws pv adj null,
  nbs n xs ys thr tl paired draws = Some (pv, adj, null) ->
  forall j, j < length pv ->
    exists u v, u < n /\ v < n /\ supra_conn n paired tl thr xs ys u v /\ adj u v = Z.of_nat (j + 1).
Proof. exact every_label_used. Qed.

(* sz_links: one entry per component with more than one node (label order); the entry is half the
   sum of the symmetric 0/1 suprathreshold matrix over the nodes of the component = its number
   of connections; len(pvals) = number of such components *)
Theorem C19_links_are_component_sizes : forall n xs ys thr tl paired draws pv adj null,
  nbs n xs ys thr tl paired draws = Some (pv, adj, null) ->
  exists a sz szl,
    get_components n (supra_adj n paired tl thr xs ys) = Some (a, sz) /\
    observed n (tmask paired tl thr (vectorize n xs) (vectorize n ys)) = Some (szl, adj) /\
    szl = map (fun l => half_sum (supra_adj n paired tl thr xs ys) (nodes_of l a)) (big_labels sz) /\
    length pv = length szl /\
    (forall l, In l (big_labels sz) <-> 1 <= l <= length sz /\ 1 < nth (l - 1) sz 0).
Proof. exact links_spec. Qed.

(* ... and that half-sum is literally the number of suprathreshold connections (upper-triangle
   cells whose decision is true) both of whose endpoints carry the component's label *)
Theorem C19_links_are_connection_counts : forall n xs ys thr tl paired draws pv adj null,
  nbs n xs ys thr tl paired draws = Some (pv, adj, null) ->
  exists a sz szl,
    get_components n (supra_adj n paired tl thr xs ys) = Some (a, sz) /\
    observed n (tmask paired tl thr (vectorize n xs) (vectorize n ys)) = Some (szl, adj) /\
    length szl = length (big_labels sz) /\ length pv = length szl /\
    forall i, i < length szl ->
      (nth i szl 0 == inject_Z (Z.of_nat (links_in n paired tl thr xs ys a (nth i (big_labels sz) 0%nat))))%Q.
Proof. exact links_count. Qed.

(* pvals[i] = #{null >= sz_links[i]} / k, and there are k null values *)
Theorem C19_pval_def : forall n xs ys thr tl paired draws pv adj null,
  nbs n xs ys thr tl paired draws = Some (pv, adj, null) ->
  exists szl, observed n (tmask paired tl thr (vectorize n xs) (vectorize n ys)) = Some (szl, adj) /\
    length pv = length szl /\ length null = length draws /\ 0 < length draws /\
    forall i, i < length szl ->
      nth i pv 0%Q = (qn (length (filter (fun v => Qle_bool (nth i szl 0%Q) v) null)) / qn (length draws))%Q.
Proof. exact pval_spec. Qed.

(* every null value is the largest link count among the components of the data relabelled by
   the corresponding draw (0 when there is no component) *)
Theorem C19_null_is_max_component : forall n xs ys thr tl paired draws pv adj null,
  nbs n xs ys thr tl paired draws = Some (pv, adj, null) ->
  length null = length draws /\
  Forall2 (is_perm_max n paired tl thr (length xs) (length ys) (vectorize n xs) (vectorize n ys)) draws null.
Proof. exact null_spec. Qed.

(* swapping the groups together with the tail: the decision on every connection is unchanged,
   hence the same adjacency (labels included) and the same number of p-values, whatever the draws *)
Theorem C19_swap_decision : forall paired tl thr x y,
  supra paired (swap_tail tl) thr y x = supra paired tl thr x y.
Proof. exact supra_swap. Qed.

Theorem C19_swap_groups_tail_symmetry : forall n thr paired xs ys tl draws pv adj null draws' pv' adj' null',
  nbs n xs ys thr tl paired draws = Some (pv, adj, null) ->
  nbs n ys xs thr (swap_tail tl) paired draws' = Some (pv', adj', null') ->
  adj' = adj /\ length pv' = length pv.
Proof. exact swap_groups_tail_symmetry. Qed.

(* reordering subjects within each group (unpaired) / reordering the pairs (paired) *)
Theorem C19_reorder_within_group_invariant : forall n thr xs ys xs' ys' tl draws pv adj null draws' pv' adj' null',
  Permutation xs xs' -> Permutation ys ys' ->
  nbs n xs ys thr tl false draws = Some (pv, adj, null) ->
  nbs n xs' ys' thr tl false draws' = Some (pv', adj', null') ->
  adj' = adj /\ length pv' = length pv.
Proof. exact reorder_within_group_invariant. Qed.

Theorem C19_reorder_pairs_invariant : forall n thr xs ys xs' ys' tl draws pv adj null draws' pv' adj' null',
  Permutation (combine xs ys) (combine xs' ys') ->
  nbs n xs ys thr tl true draws = Some (pv, adj, null) ->
  nbs n xs' ys' thr tl true draws' = Some (pv', adj', null') ->
  adj' = adj /\ length pv' = length pv.
Proof. exact reorder_pairs_invariant. Qed.

(* the square-root-free comparison used by the model is `thresh < v / sqrt(d2)`:
   over Q for every rational witness of the root (axiom-free), and over the reals *)
Theorem C19_ratio_gt_sound : forall v d2 thr s, (0 < s)%Q -> (s * s == d2)%Q ->
  (ratio_gt v d2 thr = true <-> (thr < v / s)%Q).
Proof. exact ratio_gt_sound. Qed.

Theorem C19_t_gt_thresh_unpaired : forall tl thr x y,
  2 <= length x -> 2 <= length y -> (0 < pooled_d2 x y)%Q ->
  (supra2 tl thr x y = true <->
   (Q2R thr < Q2R (tailv tl (lmean x - lmean y)) / sqrt (Q2R (pooled_d2 x y)))%R).
Proof. exact supra2_real. Qed.

Theorem C19_t_gt_thresh_paired : forall tl thr x y,
  2 <= length (diffs x y) -> ~ (paired_ss (diffs x y) == 0)%Q ->
  (0 < paired_ss (diffs x y) / qn (length (diffs x y) - 1) / qn (length (diffs x y)))%Q ->
  (supra_p tl thr x y = true <->
   (Q2R thr < Q2R (tailv tl (lmean (diffs x y)))
              / sqrt (Q2R (paired_ss (diffs x y) / qn (length (diffs x y) - 1) / qn (length (diffs x y)))))%R).
Proof. exact supra_p_real. Qed.

(* ---------------------------------------------------------------------------------------------
   Statements on the call as a whole (Proofs/NbsFull.v).
   [nbs_full tc ix jx iy jy xs ys thr paired draws] (Model/NbsApi.v) puts the argument checks of
   nbs_bct in front of [nbs]: tc = tail string (0 both, 1 left, 2 right, other = another string),
   ix jx iy jy = x.shape[:2], y.shape[:2]; it returns inl <exception> or inr (pvals, adj, null). *)

(* the p-values on the returned triple alone: pvals[l-1] is the fraction of the returned null values
   that are >= the number of connections labelled l in the returned adj (cells u < v with adj[u,v] = l) *)
Theorem C19_pval_is_fraction_of_null_ge_links : forall n xs ys thr tl paired draws pv adj null,
  nbs n xs ys thr tl paired draws = Some (pv, adj, null) ->
  length null = length draws /\ 0 < length draws /\
  forall l, 1 <= l <= length pv ->
    nth (l - 1) pv 0%Q
    = (qn (length (filter (fun v => Qle_bool (qn (length (filter (fun c => (adj (fst c) (snd c) =? Z.of_nat l)%Z) (triu_cells n)))) v) null))
       / qn (length null))%Q.
Proof. exact pval_is_fraction. Qed.

(* every null value is the NBS statistic of the subject stacks relabelled by the recorded draw:
   [relabelled] (Model/NbsApi.v) = unpaired: the concatenated stack x|y re-indexed by the drawn
   permutation, first nx matrices -> group 1, last ny -> group 2; paired: the members of pair j
   exchanged where rand_j > 1/2.  The statistic: with [a] the component labelling of the
   suprathreshold graph of the RELABELLED stacks (equal labels <-> joined by a path), v bounds the
   number of suprathreshold connections [links_in .. a l] inside every component l and equals it
   for one l (v = 0 when no connection is suprathreshold). *)
Theorem C19_null_is_relabelled_max : forall n xs ys thr tl paired draws pv adj null,
  nbs n xs ys thr tl paired draws = Some (pv, adj, null) ->
  length null = length draws /\
  Forall2 (fun d v =>
     exists xs' ys', relabelled paired (length xs) (length ys) d xs ys = Some (xs', ys') /\
       exists a sz, get_components n (supra_adj n paired tl thr xs' ys') = Some (a, sz) /\
         length a = n /\
         (forall u w, u < n -> w < n -> (nth u a 0 = nth w a 0 <-> path n (supra_adj n paired tl thr xs' ys') u w)) /\
         (forall l, (qn (links_in n paired tl thr xs' ys' a l) <= v)%Q) /\
         (exists l, (v == qn (links_in n paired tl thr xs' ys' a l))%Q))
    draws null.
Proof. exact null_is_relabelled_max. Qed.

(* what a relabelling is. Unpaired, p a permutation of 0..nx+ny-1: the two new groups together are
   the old subjects re-indexed by p (the same p on every connection), group sizes are kept *)
Theorem C19_relabel_unpaired_is_permutation : forall xs ys p,
  Permutation p (seq 0 (length xs + length ys)) ->
  let R := relabel_unpaired (length xs) (length ys) p xs ys in
  fst R ++ snd R = map (fun q => nth q (xs ++ ys) zmat) p /\
  Permutation (fst R ++ snd R) (xs ++ ys) /\ length (fst R) = length xs /\ length (snd R) = length ys.
Proof. exact relabel_unpaired_is_permutation. Qed.

(* paired, one rand per pair, none exactly 1/2: every pair is kept or its two members are exchanged *)
Theorem C19_relabel_paired_exchanges_pairs : forall xs ys r,
  length r = length xs -> length ys = length xs -> (forall rj, In rj r -> ~ (rj == 1 # 2)%Q) ->
  let R := relabel_paired r xs ys in
  length (fst R) = length xs /\ length (snd R) = length xs /\
  Forall2 (fun XY XY' : mat Q * mat Q => XY' = XY \/ XY' = (snd XY, fst XY)) (combine xs ys) (combine (fst R) (snd R)).
Proof. exact relabel_paired_exchanges_pairs. Qed.

(* exactly when the computation raises: paired with unequal groups, or no suprathreshold connection,
   or k = 0, or (replay only) a recorded draw of the wrong kind; and exactly when it returns *)
Theorem C19_raises_iff : forall n xs ys thr tl paired draws,
  nbs n xs ys thr tl paired draws = None <->
  (paired = true /\ length xs <> length ys) \/
  (forall u v, u < n -> v < n -> ~ supra_conn n paired tl thr xs ys u v) \/
  draws = [] \/
  (exists d, In d draws /\ draw_ok paired d = false).
Proof. exact nbs_none_iff. Qed.

Theorem C19_returns_iff : forall n xs ys thr tl paired draws,
  (exists r, nbs n xs ys thr tl paired draws = Some r) <->
  (paired = false \/ length xs = length ys) /\
  (exists u v, u < n /\ v < n /\ supra_conn n paired tl thr xs ys u v) /\
  draws <> [] /\
  (forall d, In d draws -> draw_ok paired d = true).
Proof. exact nbs_returns_iff. Qed.

(* the whole call returns exactly when the tail string and the shapes are accepted and [nbs] returns *)
Theorem C19_call_returns_iff : forall tc ix jx iy jy xs ys thr paired draws r,
  nbs_full tc ix jx iy jy xs ys thr paired draws = inr r <->
  tc <= 2 /\ (ix = jx /\ jx = iy /\ iy = jy) /\ nbs ix xs ys thr (tail_of_nat tc) paired draws = Some r.
Proof. exact nbs_full_returns. Qed.

(* which exception is raised, exactly when ([raises], Proofs/NbsFull.v, in the order of the code:
   ETail: tc > 2; EShape: not ix = jx = iy = jy; EPairedSize: paired and nx <> ny; EUnsuitable: no
   suprathreshold connection; EZeroDiv: a suprathreshold connection and k = 0; EDraw: replay only;
   EDegenerate: never) *)
Theorem C19_exception_raised : forall tc ix jx iy jy xs ys thr paired draws e,
  nbs_full tc ix jx iy jy xs ys thr paired draws = inl e <->
  match e with
  | ETail => 2 < tc
  | EShape => tc <= 2 /\ ~ (ix = jx /\ jx = iy /\ iy = jy)
  | EPairedSize => tc <= 2 /\ (ix = jx /\ jx = iy /\ iy = jy) /\ paired = true /\ length xs <> length ys
  | EUnsuitable =>
      (tc <= 2 /\ (ix = jx /\ jx = iy /\ iy = jy) /\ (paired = false \/ length xs = length ys)) /\
      (forall u v, u < ix -> v < ix -> ~ supra_conn ix paired (tail_of_nat tc) thr xs ys u v)
  | EDegenerate => False
  | EDraw =>
      (tc <= 2 /\ (ix = jx /\ jx = iy /\ iy = jy) /\ (paired = false \/ length xs = length ys)) /\
      (exists u v, u < ix /\ v < ix /\ supra_conn ix paired (tail_of_nat tc) thr xs ys u v) /\
      (exists d, In d draws /\ draw_ok paired d = false)
  | EZeroDiv =>
      (tc <= 2 /\ (ix = jx /\ jx = iy /\ iy = jy) /\ (paired = false \/ length xs = length ys)) /\
      (exists u v, u < ix /\ v < ix /\ supra_conn ix paired (tail_of_nat tc) thr xs ys u v) /\
      draws = []
  end.
Proof. exact nbs_full_raises. Qed.

(* 'True matrix is degenerate' (py 197-201) is dead code: a suprathreshold connection always
   yields a component with more than one node *)
Theorem C19_degenerate_unreachable : forall tc ix jx iy jy xs ys thr paired draws,
  nbs_full tc ix jx iy jy xs ys thr paired draws <> inl EDegenerate.
Proof. exact degenerate_unreachable. Qed.

(* totality of the symmetric calls: if the call returns, the call with the groups and the tail
   swapped / the subjects reordered returns too (for any k' >= 1 draws of the right kind), with the
   same adjacency, labels included, and the same number of p-values *)
Theorem C19_swap_groups_tail_total : forall n thr paired xs ys tl draws pv adj null draws',
  nbs n xs ys thr tl paired draws = Some (pv, adj, null) ->
  draws' <> [] -> (forall d, In d draws' -> draw_ok paired d = true) ->
  exists pv' null', nbs n ys xs thr (swap_tail tl) paired draws' = Some (pv', adj, null') /\ length pv' = length pv.
Proof. exact swap_groups_tail_total. Qed.

Theorem C19_reorder_within_group_total : forall n thr xs ys xs' ys' tl draws pv adj null draws',
  Permutation xs xs' -> Permutation ys ys' ->
  nbs n xs ys thr tl false draws = Some (pv, adj, null) ->
  draws' <> [] -> (forall d, In d draws' -> draw_ok false d = true) ->
  exists pv' null', nbs n xs' ys' thr tl false draws' = Some (pv', adj, null') /\ length pv' = length pv.
Proof. exact reorder_within_group_total. Qed.

Theorem C19_reorder_pairs_total : forall n thr xs ys xs' ys' tl draws pv adj null draws',
  Permutation (combine xs ys) (combine xs' ys') -> length xs' = length ys' ->
  nbs n xs ys thr tl true draws = Some (pv, adj, null) ->
  draws' <> [] -> (forall d, In d draws' -> draw_ok true d = true) ->
  exists pv' null', nbs n xs' ys' thr tl true draws' = Some (pv', adj, null') /\ length pv' = length pv.
Proof. exact reorder_pairs_total. Qed.

(* non-vacuity: 4 nodes, 3+3 subjects, strong effects on the connections 0-1 and 2-3, none
   elsewhere; three recorded permutations.  Two components labelled 1 and 2, one connection each;
   null = [1;0;0] so both p-values are 1/3.  With tail='left' nothing is suprathreshold (None);
   swapping the groups as well restores the same adjacency. *)
Definition ex_mk (a b c : Q) : list (list Q) := [[0;a;c;c];[a;0;c;c];[c;c;0;b];[c;c;b;0]]%Q.
Definition ex_xs := [ex_mk 10 9 1; ex_mk 11 10 2; ex_mk 12 11 3]%Q.
Definition ex_ys := [ex_mk 1 0 1; ex_mk 2 1 2; ex_mk 3 2 3]%Q.
Example C19_nonvacuous :
  run_nbs 4 ex_xs ex_ys 2 0 false [[0;1;2;3;4;5];[3;1;2;0;4;5];[0;4;2;3;1;5]] []
  = Some ([1 # 3; 1 # 3]%Q, [[0;1;0;0];[1;0;0;0];[0;0;0;2];[0;0;2;0]]%Z, [1; 0; 0]%Q)
  /\ run_nbs 4 ex_xs ex_ys 2 1 false [[0;1;2;3;4;5]] [] = None
  /\ run_nbs 4 ex_ys ex_xs 2 1 false [[0;1;2;3;4;5]] []
     = Some ([1; 1]%Q, [[0;1;0;0];[1;0;0;0];[0;0;0;2];[0;0;2;0]]%Z, [1]%Q).
Proof. vm_compute. repeat split. Qed.

(* non-vacuity of the statements on the whole call: the same data through [run_nbs_full]
   (returns; tail 'left' -> Unsuitable = 4; another tail string -> 1; x of shape 4 x 5 -> 2;
   paired with 3 and 2 subjects -> 3; k = 0 -> 7), a paired run with one exchanged pair, and the
   relabelled stacks of the draw [3;1;2;0;4;5]: subject 3 (first of y) and subject 0 change groups *)
Example C19_call_nonvacuous :
  run_nbs_full 0 4 4 4 4 ex_xs ex_ys 2 false [[0;1;2;3;4;5];[3;1;2;0;4;5];[0;4;2;3;1;5]] []
  = inr ([1 # 3; 1 # 3]%Q, [[0;1;0;0];[1;0;0;0];[0;0;0;2];[0;0;2;0]]%Z, [1; 0; 0]%Q)
  /\ run_nbs_full 1 4 4 4 4 ex_xs ex_ys 2 false [[0;1;2;3;4;5]] [] = inl 4
  /\ run_nbs_full 3 4 4 4 4 ex_xs ex_ys 2 false [[0;1;2;3;4;5]] [] = inl 1
  /\ run_nbs_full 0 4 5 4 4 ex_xs ex_ys 2 false [[0;1;2;3;4;5]] [] = inl 2
  /\ run_nbs_full 0 4 4 4 4 ex_xs (firstn 2 ex_ys) 2 true [] [[1 # 4; 3 # 4; 1 # 4]%Q] = inl 3
  /\ run_nbs_full 0 4 4 4 4 ex_xs ex_ys 2 false [] [] = inl 7
  /\ run_nbs_full 0 4 4 4 4 ex_xs ex_ys 2 true [] [[1 # 4; 3 # 4; 1 # 4]%Q; [1 # 4; 1 # 4; 1 # 4]%Q]
     = inr ([1 # 2; 1 # 2]%Q, [[0;1;0;0];[1;0;0;0];[0;0;0;2];[0;0;2;0]]%Z, [0; 1]%Q).
Proof. vm_compute. repeat split. Qed.

Example C19_relabel_nonvacuous :
  let R := relabel_unpaired 3 3 [3;1;2;0;4;5] (map (of_rows 0%Q) ex_xs) (map (of_rows 0%Q) ex_ys) in
  map (fun X : mat Q => X 0 1) (fst R) = [1; 11; 12]%Q /\ map (fun X : mat Q => X 0 1) (snd R) = [10; 2; 3]%Q
  /\ Permutation [3;1;2;0;4;5] (seq 0 (3 + 3)).
Proof.
  cbv zeta. split; [vm_compute; reflexivity|]. split; [vm_compute; reflexivity|].
  cbn [seq Nat.add]. apply (Permutation_trans (l' := [0;1;2;3;4;5])); [|apply Permutation_refl].
  apply (Permutation_trans (l' := [1;3;2;0;4;5])); [apply perm_swap|].
  apply (Permutation_trans (l' := [1;2;3;0;4;5])); [apply perm_skip, perm_swap|].
  apply (Permutation_trans (l' := [1;2;0;3;4;5])); [apply perm_skip, perm_skip, perm_swap|].
  apply (Permutation_trans (l' := [1;0;2;3;4;5])); [apply perm_skip, perm_swap|].
  apply perm_swap.
Qed.

Set Printing Width 400.
Print Assumptions C19_adj_support_iff_supra_and_component.
Print Assumptions C19_adj_label_is_component_index.
Print Assumptions C19_every_label_used.
Print Assumptions C19_links_are_component_sizes.
Print Assumptions C19_links_are_connection_counts.
Print Assumptions C19_pval_def.
Print Assumptions C19_null_is_max_component.
Print Assumptions C19_swap_decision.
Print Assumptions C19_swap_groups_tail_symmetry.
Print Assumptions C19_reorder_within_group_invariant.
Print Assumptions C19_reorder_pairs_invariant.
Print Assumptions C19_ratio_gt_sound.
Print Assumptions C19_t_gt_thresh_unpaired.
Print Assumptions C19_t_gt_thresh_paired.
Print Assumptions C19_pval_is_fraction_of_null_ge_links.
Print Assumptions C19_null_is_relabelled_max.
Print Assumptions C19_relabel_unpaired_is_permutation.
Print Assumptions C19_relabel_paired_exchanges_pairs.
Print Assumptions C19_raises_iff.
Print Assumptions C19_returns_iff.
Print Assumptions C19_call_returns_iff.
Print Assumptions C19_exception_raised.
Print Assumptions C19_degenerate_unreachable.
Print Assumptions C19_swap_groups_tail_total.
Print Assumptions C19_reorder_within_group_total.
Print Assumptions C19_reorder_pairs_total.
