(* Properties/C02.v — community detectors return a valid partition 1..k and its true modularity.
   Only statements; every proof is `exact <lemma of Proofs/ModularitySums.v / Proofs/ModularityQ.v>`.
   Labels are [vec nat] (0-based module index inside the model, S _ at the interface); all identities are over Q with
   setoid equality; [lab_lt n K lb] = the labels of the n nodes lie in 0..K-1; [sym_on n W] = W symmetric. *)
From Coq Require Import QArith List Arith ZArith Permutation Lia.
From BCT Require Import Base.Mat Base.SumQ Base.ListX Model.Modularity Model.ModularityProb Proofs.ModularitySums
  Proofs.ModularityQ Proofs.ModularityGain Proofs.ModularityRun Proofs.ModularityRunSign Proofs.ModularityRunB
  Proofs.ModularityProb Proofs.ModularityBound Model.ModularitySelect Proofs.ModularitySelect Proofs.ModularityAuto
  Proofs.ModularityRunFull.
Import ListNotations.
Open Scope Q_scope.

(* ---- labels: np.unique(ci, return_inverse=True)[1] + 1 ---- *)
(* the labels form exactly the set 1..k *)
Theorem C02_relabel_range : forall n ci,
  (forall u, (u < n)%nat -> (1 <= relabel n ci u <= nlab n ci)%nat) /\
  (forall l, (1 <= l <= nlab n ci)%nat -> exists u, (u < n)%nat /\ relabel n ci u = l).
Proof. exact relabel_range. Qed.

(* and describe the same partition as the labels they replace *)
Theorem C02_relabel_same_partition : forall n ci u v, (u < n)%nat -> (v < n)%nat ->
  (relabel n ci u = relabel n ci v <-> ci u = ci v).
Proof. exact relabel_same_partition. Qed.

Theorem C02_relabel_monotone : forall n ci u v, (u < n)%nat -> (v < n)%nat -> (ci u < ci v)%Z ->
  (relabel n ci u < relabel n ci v)%nat.
Proof. exact relabel_monotone. Qed.

(* ---- closing formulas == definitional modularity of the returned labels (all W, gamma, labels) ---- *)
(* q = trace(w)/s - gamma*sum(dot(w/s, w/s)), w = block sums: modularity_finetune_dir; the formula of every Louvain level *)
Theorem C02_q_closing_dir_eq_def : forall n K W g lb, lab_lt n K lb ->
  closing K (agg n W lb) g (stot n W) == Qdir n W g lb.
Proof. exact q_closing_dir_eq_def. Qed.

(* undirected routines fill w from the lower (finetune_und) / upper (louvain_und) blocks and mirror: W symmetric *)
Theorem C02_q_closing_und_eq_def : forall n K W g lb, lab_lt n K lb -> sym_on n W ->
  closing K (agg_lower n W lb) g (stot n W) == Qund n W g lb /\
  closing K (agg_upper n W lb) g (stot n W) == Qund n W g lb.
Proof. exact q_closing_und_eq_def. Qed.

(* modularity_finetune_und_sign / modularity_probtune_und_sign: d0*sum((W0 - g*outer(Kn0,Kn0)/s0)*(m==m.T)) - d1*... with the
   code's own W0, W1, s0, s1, d0, d1 (incl. the s0==0 / s1==0 adjustments) and Kn = np.sum(Knm, axis=1) *)
Theorem C02_q_closing_sign_eq_def : forall n W g qt lb, lab_lt n n lb -> sym_on n W ->
  let p := sign_params n W qt in
  let kn := snd (sign_init n p lb) in
  sign_closing n p (fst kn) (snd kn) g lb == Qsign n W g qt lb.
Proof. exact q_closing_sign_eq_def. Qed.

(* modularity_louvain_und_sign: q0 = trace(W0) - g*sum(dot(W0,W0))/s0 on the aggregated matrices, q = d0*q0 - d1*q1 *)
Theorem C02_q_closing_louvain_sign_eq_def : forall n K W0 W1 g s0 s1 d0 d1 lb, lab_lt n K lb ->
  d0 * closing_raw K (agg n W0 lb) g s0 - d1 * closing_raw K (agg n W1 lb) g s1 ==
  d0 * Qhalf n W0 g s0 lb - d1 * Qhalf n W1 g s1 lb.
Proof. exact q_closing_louvain_sign_eq_def. Qed.

(* community_louvain: q = trace(B) of the aggregated objective matrix = sum of B over same-label pairs, for every B;
   and for the built-in 'modularity' / 'potts' objectives q/s is the modularity / the Potts quality *)
Theorem C02_q_closing_louvainB_eq_def : forall n K B lb, lab_lt n K lb ->
  trace K (agg n B lb) == obj n B lb /\ (sym_on n B -> trace K (agg_upper n B lb) == obj n B lb).
Proof. exact q_closing_louvainB_eq_def. Qed.
Theorem C02_louvainB_modularity : forall n W g lb, obj n (B_builtin 0 n W g) lb / stot n W == Qdir n W g lb.
Proof. exact louvainB_modularity. Qed.
Theorem C02_louvainB_potts : forall n W g lb, obj n (B_builtin 1 n W g) lb / stot n W == Qpotts n W g lb.
Proof. exact louvainB_potts. Qed.

(* ---- hierarchy: Q of a partition of super-nodes on the aggregated matrix == Q of the induced partition on W ---- *)
Theorem C02_aggregate_preserves_Q : forall n K K2 W g lb1 lb2, lab_lt n K lb1 -> lab_lt K K2 lb2 ->
  Qdir K (agg n W lb1) g lb2 == Qdir n W g (fun i => lb2 (lb1 i)).
Proof. exact aggregate_preserves_Q. Qed.
Theorem C02_aggregate_preserves_Qhalf : forall n K K2 W g s lb1 lb2, lab_lt n K lb1 -> lab_lt K K2 lb2 ->
  Qhalf K (agg n W lb1) g s lb2 == Qhalf n W g s (fun i => lb2 (lb1 i)).
Proof. exact aggregate_preserves_Qhalf. Qed.
Theorem C02_aggregate_preserves_obj : forall n K K2 B lb1 lb2, lab_lt n K lb1 -> lab_lt K K2 lb2 ->
  obj K (agg n B lb1) lb2 == obj n B (fun i => lb2 (lb1 i)).
Proof. exact aggregate_preserves_obj. Qed.
(* hence the pair (labels of level h on the original nodes, q[h] computed on the twice aggregated matrix) is consistent *)
Theorem C02_level_pair_consistent : forall n K K2 W g lb1 lb2, lab_lt n K lb1 -> lab_lt K K2 lb2 ->
  closing K2 (agg K (agg n W lb1) lb2) g (stot n W) == Qdir n W g (fun i => lb2 (lb1 i)).
Proof. exact level_pair_consistent. Qed.

(* ---- given partition ---- *)
Theorem C02_given_partition_returns_Q_und : forall n A g lb, given_und n A g lb == Qund n A g lb.
Proof. exact given_partition_returns_Q_und. Qed.
Theorem C02_given_partition_returns_Q_dir : forall n A g lb, given_dir n A g lb == Qdir n A g lb.
Proof. exact given_partition_returns_Q_dir. Qed.
Theorem C02_given_partition_returns_Q_sign : forall n W qt lb, lab_lt n n lb -> sym_on n W ->
  let p := sign_params n W qt in
  let kn := snd (sign_init n p lb) in
  sign_closing n p (fst kn) (snd kn) 1 lb == Qsign n W 1 qt lb.
Proof. exact given_partition_returns_Q_sign. Qed.

(* ---- spectral modularity_und / modularity_dir (kci=None) ----
   ORACLE-LEVEL statement: the eigenvector sign pattern + fine-tuning sweep is an arbitrary oracle [split] that, when it
   splits a module, returns two non-empty parts; for every such oracle and every recursion depth the labels are exactly
   1..k and the closing statement is the definitional Q of those labels. (It says nothing about WHICH partition the
   numeric kernel finds: `_partial`.) *)
Definition C02_spectral_oracle_statement : Prop :=
  forall n fuel split, good_split split -> (0 < n)%nat ->
  let ls := bisect fuel split (seq 0 n) in
  (forall x, (x < n)%nat -> (1 <= ls2ci ls x <= length ls)%nat) /\
  (forall l, (1 <= l <= length ls)%nat -> exists x, (x < n)%nat /\ ls2ci ls x = l) /\
  (forall A g, given_und n A g (ls2ci ls) == Qund n A g (ls2ci ls)) /\
  (forall A g, given_dir n A g (ls2ci ls) == Qdir n A g (ls2ci ls)).
Theorem C02_spectral_labels_partial : C02_spectral_oracle_statement.
Proof. exact spectral_labels_partial. Qed.
(* the code's own statements around the kernel are in the model (Model/ModularitySelect.v: spectral_split = the
   `abs(sum(mod_asgn)) == n` null-module test + the where(mod_asgn == +-1) selections; run_spectral = recur from
   arange(n), ls2ci, closing statement) and are RUN against the implementation on the recorded decision tree: for EVERY
   decision oracle [asgn] (None = `q > 0` failed, Some a = final mod_asgn) the split is good, so the extracted run returns
   labels exactly 1..k and q = the definitional modularity of those labels *)
Theorem C02_spectral_split_good : forall asgn, good_split (spectral_split asgn).
Proof. exact spectral_split_good. Qed.
Theorem C02_run_spectral_oracle : forall dir rows g fuel asgn, (0 < length rows)%nat ->
  let r := run_spectral dir rows g fuel asgn in
  fst (snd r) = snd (snd r) /\ exists k, labels_exact (length rows) (fst r) k.
Proof. exact run_spectral_ok. Qed.
(* THE FULL STATEMENT of the clause (named, NOT proved): the decision of `recur` is [spectral_decide] — the `q > 0` test
   and the Kernighan-Lin style sweep [kl_loop] exactly over Q — applied to the sign pattern [eig md] of LAPACK's leading
   eigenvector; the recursion completes within n levels; the result is labelled 1..k with its definitional Q.
   PARTIAL: proved are the label / q conjuncts for every [eig] (they follow from the oracle theorem); missing are the
   completion conjunct and — outside Coq — any tie of [spectral_decide] / [eig] to the floating-point kernel (eig/eigh and
   the sweep's float comparisons are tie-ridden; they are not run against the code). *)
Definition C02_spectral_full_statement : Prop := spectral_full_statement.
Theorem C02_spectral_full_partial : forall dir rows g eig, (0 < length rows)%nat ->
  let n := length rows in
  let r := run_spectral dir rows g n (fun md => spectral_decide dir n (of_rows 0 rows) g md (eig md)) in
  fst (snd r) = snd (snd r) /\ (exists k, labels_exact n (fst r) k).
Proof. exact spectral_full_instance. Qed.
Example C02_run_spectral_nonvacuous :
  let tb := [([0; 1; 2; 3; 4; 5], Some [true; true; true; false; false; false]); ([0; 1; 2], None);
             ([3; 4; 5], Some [true; true; true])]%nat in
  fst (run_spectral_table false ex_rows 1 tb) = [1; 1; 1; 2; 2; 2]%nat /\
  fst (snd (run_spectral_table false ex_rows 1 tb)) = 5 # 14.
Proof. exact run_spectral_nonvacuous. Qed.

(* ---- given partition, on the EXTRACTED functions (composed with init_lab: any integer label list) ---- *)
Theorem C02_run_given_consistent : forall dir rows g ci, fst (run_given dir rows g ci) = snd (run_given dir rows g ci).
Proof. exact run_given_consistent. Qed.
Theorem C02_run_und_sign_consistent : forall rows qt ci, sym_rows rows ->
  let r := run_und_sign rows qt ci in
  fst (snd r) = snd (snd r) /\ (exists k, labels_exact (length rows) (fst r) k) /\
  (forall u v, (u < length rows)%nat -> (v < length rows)%nat ->
     (nth u (fst r) O = nth v (fst r) O <-> nth u ci 0%Z = nth v ci 0%Z)).
Proof. exact run_und_sign_consistent. Qed.

(* ---- end to end on the EXTRACTED run functions (the ones the driver executes): returned q = definitional Q of the
   returned labels, as a Leibniz equality of the reduced fractions, for every input and every recorded move list ---- *)
Theorem C02_run_finetune_dir_consistent : forall rows g ci moves,
  let r := run_finetune_dir rows g ci moves in ret_q r = ret_qdef r.
Proof. exact run_finetune_dir_consistent. Qed.
Theorem C02_run_finetune_und_consistent : forall rows g ci moves,
  sym_on (length rows) (of_rows 0 rows) ->
  let r := run_finetune_und rows g ci moves in ret_q r = ret_qdef r.
Proof. exact run_finetune_und_consistent. Qed.

Theorem C02_run_finetune_und_labels : forall rows g ci moves,
  let r := run_finetune_und rows g ci moves in exists k, labels_exact (length rows) (ret_ci r) k.
Proof. exact run_finetune_und_labels. Qed.
Theorem C02_run_finetune_dir_labels : forall rows g ci moves,
  let r := run_finetune_dir rows g ci moves in exists k, labels_exact (length rows) (ret_ci r) k.
Proof. exact run_finetune_dir_labels. Qed.

(* ==== WHOLE RUNS (every input, gamma, level count and recorded move lists; floats only choose moves / level count) ====
   [sym_rows rows] = the input matrix is symmetric; [rowsW rows] = the input as the model holds it;
   [labels_exact n l k] = l has one label per node and the labels form exactly the set 1..k;
   [ret_ci r / ret_q r / ret_qdef r] = returned labels / returned q / definitional quality, ON THE ORIGINAL MATRIX, of the
   returned labels (reduced fractions: the equality is Leibniz);
   [level_pair_ok n Qof l] = level l (labels of the ORIGINAL nodes, q) has labels exactly 1..k and q = Qred (Qof labels). *)

(* ---- modularity_louvain_und: ci[h-1], q[h-1]; the code always computes one level more than it returns, so a computed
   level is returned as soon as two levels were computed (otherwise ci[0] = 1..n is returned, with q[0] = -1) ---- *)
Theorem C02_louvain_und_run_q : forall rows g lv, sym_rows rows -> (2 <= length lv)%nat ->
  let r := run_louvain_und rows g lv in ret_q r = ret_qdef r.
Proof. exact louvain_und_run_q. Qed.
Theorem C02_louvain_und_run_labels : forall rows g lv, sym_rows rows ->
  let r := run_louvain_und rows g lv in exists k, labels_exact (length rows) (ret_ci r) k.
Proof. exact louvain_und_run_labels. Qed.
(* the hypothesis "two levels were computed" follows from the code's own stopping rule in the domain of the property:
   the modularity of ANY partition of a symmetric non-negative network is >= -gamma/2 (0 <= gamma <= 2) ... *)
Theorem C02_Qund_lower_bound : forall n K W g lb, sym_on n W -> nonneg_on n W -> 0 < stot n W -> 0 <= g -> g <= 2 ->
  lab_lt n K lb -> - (g * (1 # 2)) <= Qund n W g lb.
Proof. exact Qund_lower_bound. Qed.
(* ... so q[1] - q[0] = q[1] + 1 >= 1/20 for gamma <= 19/10 and the rule q[h] - q[h-1] < 1e-10 cannot stop the loop at the
   first level. [stop_rule_ok qs] = the exact q's of the computed levels obey the loop: all but the last were retained,
   the last was not; [level_qs r] = the q's of the computed levels *)
Theorem C02_louvain_und_run_q_domain : forall rows g lv, sym_rows rows -> nonneg_rows rows ->
  0 < stot (length rows) (rowsW rows) -> 0 <= g -> g <= 19 # 10 -> lv <> [] ->
  stop_rule_ok (level_qs (run_louvain_und rows g lv)) ->
  let r := run_louvain_und rows g lv in ret_q r = ret_qdef r.
Proof. exact louvain_und_run_q_domain. Qed.
(* hierarchy=True: every computed (hence every retained) level is a consistent pair on the original network *)
Theorem C02_louvain_und_run_levels : forall rows g lv, sym_rows rows ->
  Forall (level_pair_ok (length rows) (Qund (length rows) (rowsW rows) g)) (fst (run_louvain_und rows g lv)).
Proof. exact louvain_und_run_levels. Qed.

(* hierarchy=True, the RETURNED lists (run_louvain_und_hier = ci[1:-1], q[1:-1]: all computed levels but the last): equal
   length, every pair consistent on the original network with labels exactly 1..k, q's strictly increasing from -1 by at
   least 1e-10 each — so the TRUE modularities of the returned partitions increase strictly *)
Theorem C02_louvain_und_hierarchy : forall rows g lv, sym_rows rows ->
  stop_rule_ok (level_qs (run_louvain_und rows g lv)) ->
  let h := run_louvain_und_hier rows g lv in
  length (fst h) = length (snd h) /\
  Forall2 (fun ci q => (exists k, labels_exact (length rows) ci k) /\
                       q = Qred (Qund (length rows) (rowsW rows) g (fun x => nth x ci O))) (fst h) (snd h) /\
  incr_from (- (1)) (snd h).
Proof. exact louvain_und_hierarchy. Qed.
Example C02_stop_rule_nonvacuous :
  sym_rows ex_rows /\ nonneg_rows ex_rows /\ 0 < stot (length ex_rows) (rowsW ex_rows) /\ ex_lv <> [] /\
  stop_rule_ok (level_qs (run_louvain_und ex_rows 1 ex_lv)) /\ level_qs (run_louvain_und ex_rows 1 ex_lv) = [5 # 14; 5 # 14].
Proof. exact louvain_und_run_q_domain_nonvacuous. Qed.

(* ---- modularity_louvain_und_sign: at least one level is always executed, the LAST one is returned (after np.unique) ---- *)
Theorem C02_louvain_und_sign_run_q : forall rows g qt lv, sym_rows rows -> lv <> [] ->
  let r := run_louvain_sign rows g qt lv in ret_q r = ret_qdef r.
Proof. exact louvain_sign_run_q. Qed.
Theorem C02_louvain_und_sign_run_labels : forall rows g qt lv,
  let r := run_louvain_sign rows g qt lv in exists k, labels_exact (length rows) (ret_ci r) k.
Proof. exact louvain_sign_run_labels. Qed.
Theorem C02_louvain_und_sign_run_levels : forall rows g qt lv, sym_rows rows ->
  Forall (level_pair_ok (length rows) (Qsign (length rows) (rowsW rows) g (qtype_of qt))) (fst (run_louvain_sign rows g qt lv)).
Proof. exact louvain_sign_run_levels. Qed.

(* ---- community_louvain, all four built-in objectives, W directed or undirected (the objective matrix is symmetrised),
   any initial partition: the last pass is returned; q/s for modularity / potts, q for the negative objectives ---- *)
Theorem C02_community_louvain_run_q : forall rows g kind ci lv, lv <> [] ->
  let r := run_community_louvain rows g kind ci lv in ret_q r = ret_qdef r.
Proof. exact community_louvain_run_q. Qed.
Theorem C02_community_louvain_run_labels : forall rows g kind ci lv, lv <> [] ->
  let r := run_community_louvain rows g kind ci lv in exists k, labels_exact (length rows) (ret_ci r) k.
Proof. exact community_louvain_run_labels. Qed.
Theorem C02_community_louvain_run_levels : forall rows g kind ci lv,
  Forall (cl_pair_ok kind (length rows) (rowsW rows) g) (fst (run_community_louvain rows g kind ci lv)).
Proof. exact community_louvain_run_levels. Qed.
(* [ret_qdef] of run_community_louvain is Qbuiltin kind: Qdir (modularity), Qpotts, Qneg_obj true/false. The objective
   matrix the code builds (incl. B = (B+B.T)/2) yields exactly that quantity ... *)
Theorem C02_obj_builtin : forall kind n W g lb,
  qnorm kind (stot n W) (obj n (B_builtin kind n W g) lb) == Qbuiltin kind n W g lb.
Proof. exact obj_builtin. Qed.
(* ... and for 'negative_sym' / 'negative_asym' that quantity is the signed modularity of the definition with qtype
   'gja' / 'sta' (whenever the network has positive weights: the code divides by s0) *)
Theorem C02_louvainB_negative_sym : forall n W g lb, ~ stot n (pospart W) == 0 ->
  obj n (B_builtin 2 n W g) lb == Qsign n W g Qgja lb.
Proof. exact louvainB_negative_sym. Qed.
Theorem C02_louvainB_negative_asym : forall n W g lb, ~ stot n (pospart W) == 0 ->
  obj n (B_builtin 3 n W g) lb == Qsign n W g Qsta lb.
Proof. exact louvainB_negative_asym. Qed.

(* ---- modularity_finetune_und_sign (and the move-list replay of probtune): whole run ---- *)
Theorem C02_run_finetune_sign_consistent : forall rows g qt ci moves,
  sym_on (length rows) (of_rows 0 rows) ->
  let r := run_finetune_sign rows g qt ci moves in ret_q r = ret_qdef r.
Proof. exact run_finetune_sign_consistent. Qed.
Theorem C02_run_finetune_sign_labels : forall rows g qt ci moves,
  let r := run_finetune_sign rows g qt ci moves in exists k, labels_exact (length rows) (ret_ci r) k.
Proof. exact run_finetune_sign_labels. Qed.

(* ---- modularity_probtune_und_sign with its random draws as an explicit stream (Model/ModularityProb.v): for EVERY
   permutation, draw stream, p and oracle outcome of the deterministic nodes, a completed run returns the definitional
   Qsign of the labels it returns, labelled exactly 1..k; a stream of the shape the loop consumes always completes ---- *)
Theorem C02_probtune_run_q : forall rows g qt ci p perm ds orc r,
  sym_on (length rows) (of_rows 0 rows) ->
  run_probtune rows g qt ci p perm ds orc = Some r ->
  pt_q r = pt_qdef r /\ exists k, labels_exact (length rows) (pt_ci r) k.
Proof. exact probtune_run_q. Qed.
Theorem C02_probtune_run_completes : forall rows g qt ci p perm ds orc, stream_ok p perm ds orc ->
  exists r, run_probtune rows g qt ci p perm ds orc = Some r.
Proof. exact probtune_run_completes. Qed.

(* non-vacuity of the whole-run theorems: concrete multi-level runs meeting every hypothesis (Proofs/ModularityRun*.v) *)
Example C02_louvain_und_run_nonvacuous :
  sym_rows ex_rows /\ (2 <= length ex_lv)%nat /\ 0 < stot (length ex_rows) (rowsW ex_rows) /\
  louvain_und_good 1 (stot (length ex_rows) (rowsW ex_rows)) (length ex_rows) (rowsW ex_rows) ex_lv /\
  ret_ci (run_louvain_und ex_rows 1 ex_lv) = [1; 1; 1; 2; 2; 2]%nat /\
  ret_q (run_louvain_und ex_rows 1 ex_lv) = 5 # 14 /\ ret_qstart (run_louvain_und ex_rows 1 ex_lv) = - (17 # 98).
Proof. exact louvain_und_run_nonvacuous. Qed.
Example C02_louvain_und_sign_run_nonvacuous :
  sym_rows ex_sign_rows /\ ex_sign_lv <> [] /\
  ret_ci (run_louvain_sign ex_sign_rows 1 0 ex_sign_lv) = [1; 1; 2; 2]%nat /\
  ret_q (run_louvain_sign ex_sign_rows 1 0 ex_sign_lv) = ret_qdef (run_louvain_sign ex_sign_rows 1 0 ex_sign_lv).
Proof. destruct louvain_sign_run_nonvacuous as (A & B & _ & C & D & _). repeat split; assumption. Qed.
Example C02_probtune_run_nonvacuous :
  let rows := [[0; 2; 1; 0]; [2; 0; 0; -(1)]; [1; 0; 0; 3]; [0; -(1); 3; 0]] in
  sym_on 4 (of_rows 0 rows) /\
  stream_ok (9 # 20) [2; 0; 3; 1]%nat [DSample (1 # 10); DInt 0; DSample (1 # 2); DSample (3 # 4); DSample (9 # 10)]
            [Some 1%nat; None; None] /\
  run_probtune rows 1 0 [1; 2; 3; 4]%Z (9 # 20) [2; 0; 3; 1]%nat
               [DSample (1 # 10); DInt 0; DSample (1 # 2); DSample (3 # 4); DSample (9 # 10)] [Some 1%nat; None; None]
  = Some ([(2, (true, 0)); (0, (false, 1))]%nat, ([2; 2; 1; 3]%nat, (29 # 504, 29 # 504))).
Proof. exact probtune_run_nonvacuous. Qed.

(* ---- modularity_louvain_dir as it is (W never replaced by W1): the q statement FAILS, the label clause HOLDS ---- *)
Theorem C02_louvain_dir_run_labels : forall rows g lv,
  let r := run_louvain_dir rows g lv in exists k, labels_exact (length rows) (ret_ci r) k.
Proof. exact louvain_dir_run_labels. Qed.
Theorem C02_louvain_dir_q_refuted : ~ louvain_dir_q_full_statement.
Proof. exact louvain_dir_q_refuted. Qed.

(* non-vacuity: a concrete weighted graph and partition; closing formula and definition both give 23/72 *)
Example C02_nonvacuous :
  let W := of_rows 0 [[0; 3; 0; 0]; [3; 0; 1; 0]; [0; 1; 0; 2]; [0; 0; 2; 0]]%list in
  let lb := of_list O [0; 0; 1; 1]%nat in
  lab_lt 4 2 lb /\ sym_on 4 W /\ Qred (closing 2 (agg_upper 4 W lb) 1 (stot 4 W)) = (23 # 72) /\ Qred (Qund 4 W 1 lb) = (23 # 72).
Proof.
  cbv zeta. split; [|split; [|split]].
  - intros i Hi. do 4 (destruct i as [|i]; [cbn; lia|]). lia.
  - intros i j Hi Hj. do 4 (destruct i as [|i]; [do 4 (destruct j as [|j]; [reflexivity|]); lia|]). lia.
  - vm_compute. reflexivity.
  - vm_compute. reflexivity.
Qed.

Print Assumptions C02_relabel_range.
Print Assumptions C02_relabel_same_partition.
Print Assumptions C02_relabel_monotone.
Print Assumptions C02_q_closing_dir_eq_def.
Print Assumptions C02_q_closing_und_eq_def.
Print Assumptions C02_q_closing_sign_eq_def.
Print Assumptions C02_q_closing_louvain_sign_eq_def.
Print Assumptions C02_q_closing_louvainB_eq_def.
Print Assumptions C02_louvainB_modularity.
Print Assumptions C02_louvainB_potts.
Print Assumptions C02_aggregate_preserves_Q.
Print Assumptions C02_aggregate_preserves_Qhalf.
Print Assumptions C02_aggregate_preserves_obj.
Print Assumptions C02_level_pair_consistent.
Print Assumptions C02_given_partition_returns_Q_und.
Print Assumptions C02_given_partition_returns_Q_dir.
Print Assumptions C02_given_partition_returns_Q_sign.
Print Assumptions C02_spectral_labels_partial.
Print Assumptions C02_run_finetune_dir_consistent.
Print Assumptions C02_run_finetune_und_consistent.
Print Assumptions C02_louvain_dir_q_refuted.
Print Assumptions C02_louvain_und_run_q.
Print Assumptions C02_louvain_und_run_labels.
Print Assumptions C02_louvain_und_run_levels.
Print Assumptions C02_louvain_und_sign_run_q.
Print Assumptions C02_louvain_und_sign_run_labels.
Print Assumptions C02_louvain_und_sign_run_levels.
Print Assumptions C02_community_louvain_run_q.
Print Assumptions C02_community_louvain_run_labels.
Print Assumptions C02_community_louvain_run_levels.
Print Assumptions C02_obj_builtin.
Print Assumptions C02_louvainB_negative_sym.
Print Assumptions C02_louvainB_negative_asym.
Print Assumptions C02_run_finetune_sign_consistent.
Print Assumptions C02_run_finetune_sign_labels.
Print Assumptions C02_probtune_run_q.
Print Assumptions C02_probtune_run_completes.
Print Assumptions C02_Qund_lower_bound.
Print Assumptions C02_louvain_und_run_q_domain.
Print Assumptions C02_spectral_split_good.
Print Assumptions C02_run_spectral_oracle.
Print Assumptions C02_spectral_full_partial.
Print Assumptions C02_run_given_consistent.
Print Assumptions C02_run_und_sign_consistent.
Print Assumptions C02_run_finetune_und_labels.
Print Assumptions C02_run_finetune_dir_labels.
Print Assumptions C02_louvain_und_hierarchy.
Print Assumptions C02_louvain_dir_run_labels.
