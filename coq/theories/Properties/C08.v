(* Properties/C08.v — betweenness counts exactly the shortest paths through each node and connection.
   Only statements; every proof is `exact <lemma of Proofs/Between*.v>`.

   FULL STATEMENT (kept visible; see the _partial theorems below for what is proved of it). *)
From Coq Require Import QArith List Arith ZArith Permutation Sorted.
From BCT Require Import Base.Mat Base.SumQ Base.ListX Model.Between
  Proofs.BetweenAccum Proofs.BetweenReady Proofs.BetweenQueue Proofs.BetweenSpec Proofs.BetweenBin Proofs.BetweenPaths.
Import ListNotations.
Open Scope Q_scope.

Definition bc_correct_wei : Prop := forall n G, nonneg_len n G ->
  exists BC, betweenness_wei n G = Some BC /\ forall v, (v < n)%nat -> BC v == BC_spec n G v.
Definition ebc_correct_wei : Prop := forall n G, nonneg_len n G ->
  exists EBC BC, edge_betweenness_wei n G = Some (EBC, BC) /\
    (forall v, (v < n)%nat -> BC v == BC_spec n G v) /\
    (forall x y, (x < n)%nat -> (y < n)%nat -> EBC x y == EBC_spec n G x y).
Definition bc_correct_bin : Prop := forall n G, binary n G ->
  exists BC, betweenness_bin n G = Some BC /\ forall v, (v < n)%nat -> BC v == BC_spec n G v.
Definition ebc_correct_bin : Prop := forall n G, binary n G ->
  exists EBC BC, edge_betweenness_bin n G = Some (EBC, BC) /\
    (forall v, (v < n)%nat -> BC v == BC_spec n G v) /\
    (forall x y, (x < n)%nat -> (y < n)%nat -> EBC x y == EBC_spec n G x y).
(* the property's first sentence *)
Definition bc_correct : Prop := bc_correct_bin /\ bc_correct_wei /\ ebc_correct_bin /\ ebc_correct_wei.
(* "the node vector returned by the edge routines equals the node routines' result" for the binary pair
   (two different algorithms; follows from bc_correct_bin /\ ebc_correct_bin, which are tested, not proved) *)
Definition ebc_node_vector_eq_bc_bin : Prop := forall n G, binary n G ->
  match edge_betweenness_bin n G, betweenness_bin n G with
  | Some (_, BC), Some BC' => forall i, (i < n)%nat -> BC i == BC' i
  | _, _ => False end.

(* ------------------------------------------------------------------------------------------ *)
(* the specification                                                                           *)
(* ------------------------------------------------------------------------------------------ *)
(* the finite enumeration [spaths] holds exactly the minimum-length walks among ALL walks of any length *)
Theorem C08_spec_enumeration_faithful : forall n G s t p, nonneg_len n G ->
  (In p (spaths n G s t) <-> is_shortest n G s t p).
Proof. exact spaths_spec. Qed.

Theorem C08_dist_spec_correct : forall n G s t, nonneg_len n G ->
  match dist_spec n G s t with Some d => is_dist n G s t d | None => ~ reachable n G s t end.
Proof. exact dist_spec_correct. Qed.

Theorem C08_shortest_walks_simple : forall n G s t p, nonneg_len n G -> In p (spaths n G s t) -> NoDup p.
Proof. exact spaths_NoDup_elem. Qed.

(* (4) bin_sum_identities, from the specification: on binary graphs node values sum to sum(d-1) and
   connection values to sum(d) over reachable ordered pairs (unreachable pairs and s = t contribute 0) *)
Theorem C08_bin_sum_BC : forall n G, binary n G ->
  sumQ (BC_spec n G) n == sum2Q (pair_dist_minus1 n G) n.
Proof. exact bin_sum_BC. Qed.
Theorem C08_bin_sum_EBC : forall n G, binary n G ->
  sum2Q (EBC_spec n G) n == sum2Q (pair_dist n G) n.
Proof. exact bin_sum_EBC. Qed.

(* ------------------------------------------------------------------------------------------ *)
(* (1) brandes_accumulation                                                                    *)
(* ------------------------------------------------------------------------------------------ *)
(* For ANY predecessor matrix P, path counts NP and DAG path counts c that satisfy the first-connection
   decomposition, one pass of the accumulation loop over an order in which every successor precedes its
   predecessors adds to BC[w] exactly delta(w) = sum_t NP[w] c(w,t)/NP[t] and to EBC[v,w] exactly
   sum_t [P w v] NP[v] c(w,t)/NP[t]. *)
Theorem C08_brandes_accumulation : forall (n : nat) (P : mat bool) (NP : vec Z) (c : nat -> nat -> Q),
  (forall v, (v < n)%nat -> c v v == 1) ->
  (forall v t, (v < n)%nat -> (t < n)%nat -> v <> t -> c v t == sumQ (fun w => ind (P w v) * c w t) n) ->
  (forall w v, (w < n)%nat -> (v < n)%nat -> P w v = true -> c w v == 0) ->
  (forall w v, (w < n)%nat -> (v < n)%nat -> P w v = true -> (0 < NP w)%Z) ->
  forall (order : list nat) (BC0 : vec Q) (EBC0 : mat Q),
  NoDup order -> (forall x, In x order -> (x < n)%nat) -> succ_first n P order ->
  let r := fold_left (acc_e_step n P NP) order (BC0, EBC0, zeroQ) in
  (forall w, (w < n)%nat -> fst (fst r) w == BC0 w + (if nmem w order then delta n NP c w else 0)) /\
  (forall v w, (v < n)%nat -> (w < n)%nat ->
     snd (fst r) v w == EBC0 v w + (if nmem w order then delta_edge n P NP c v w else 0)).
Proof. exact brandes_accumulation. Qed.

Theorem C08_brandes_accumulation_node : forall (n : nat) (P : mat bool) (NP : vec Z) (c : nat -> nat -> Q),
  (forall v, (v < n)%nat -> c v v == 1) ->
  (forall v t, (v < n)%nat -> (t < n)%nat -> v <> t -> c v t == sumQ (fun w => ind (P w v) * c w t) n) ->
  (forall w v, (w < n)%nat -> (v < n)%nat -> P w v = true -> c w v == 0) ->
  (forall w v, (w < n)%nat -> (v < n)%nat -> P w v = true -> (0 < NP w)%Z) ->
  forall (order : list nat) (BC0 : vec Q),
  NoDup order -> (forall x, In x order -> (x < n)%nat) -> succ_first n P order ->
  forall w, (w < n)%nat ->
  fst (fold_left (acc_n_step n P NP) order (BC0, zeroQ)) w == BC0 w + (if nmem w order then delta n NP c w else 0).
Proof. exact brandes_accumulation_node. Qed.

(* such DAG path counts exist for every predecessor matrix along which a potential strictly increases *)
Theorem C08_dag_counts_exist : forall (n : nat) (P : mat bool) (pot : nat -> Z),
  (forall w v, (w < n)%nat -> (v < n)%nat -> P w v = true -> (pot v < pot w)%Z) ->
  (forall v, dag_count n P pot v v == 1) /\
  (forall v t, (v < n)%nat -> (t < n)%nat -> v <> t ->
     dag_count n P pot v t == sumQ (fun w => ind (P w v) * dag_count n P pot w t) n) /\
  (forall w v, (w < n)%nat -> (v < n)%nat -> P w v = true -> dag_count n P pot w v == 0).
Proof.
  intros n P pot H. split; [exact (dag_count_refl n P pot)|split].
  - exact (dag_count_step n P pot H).
  - exact (dag_count_acyc n P pot H).
Qed.

(* ------------------------------------------------------------------------------------------ *)
(* (2) queue_slots                                                                              *)
(* ------------------------------------------------------------------------------------------ *)
(* weighted routines: for every source the search phase ends without error (n rounds suffice, the slice
   Q[:q+1] has exactly the length of where(isinf(D))) and the queue is a permutation of all nodes with the
   unreached nodes in slots 0..q, the reached ones behind them in non-increasing distance, the source last;
   predecessor links strictly increase the distance and reached nodes have NP >= 1 *)
Theorem C08_queue_slots_wei : forall n G u, (u < n)%nat -> nonneg_len n G ->
  exists st, source_w n G u = Some st /\ queue_ok n u st /\
    Permutation (to_list n (sQ st)) (seq 0 n) /\
    (forall i, (i < n)%nat -> ((i < sqf st)%nat <-> sD st (sQ st i) = None)) /\
    (forall i j, (sqf st <= i)%nat -> (i <= j)%nat -> (j < n)%nat -> xle (sD st (sQ st j)) (sD st (sQ st i))) /\
    sQ st (n - 1)%nat = u.
Proof. exact queue_slots_w_full. Qed.

(* binary edge routine: same statement for the breadth-first search of edge_betweenness_bin
   (levels instead of distances; the flag D marks the reached nodes) *)
Theorem C08_queue_slots_bin : forall n G u, (u < n)%nat ->
  exists st, source_b n G u = Some st /\ bqueue_ok n u st /\
    Permutation (to_list n (sQ st)) (seq 0 n) /\
    (forall i, (i < n)%nat -> ((i < sqf st)%nat <-> sD st (sQ st i) = None)) /\
    sQ st (n - 1)%nat = u.
Proof. exact queue_slots_b_full. Qed.

(* ------------------------------------------------------------------------------------------ *)
(* (5) path-counting phase                                                                      *)
(* ------------------------------------------------------------------------------------------ *)
(* full statement for the weighted search (NOT proved in full): distances, path counts and predecessor sets *)
Definition search_correct_wei : Prop := forall n G u, (u < n)%nat -> nonneg_len n G ->
  exists st, source_w n G u = Some st /\
    (forall x, (x < n)%nat -> sD st x = dist_spec n G u x) /\
    (forall x, (x < n)%nat -> sNP st x = sigma n G u x) /\
    (forall w v, (w < n)%nat -> (v < n)%nat ->
       (sP st w v = true <-> edge G v w = true /\ exists dv, sD st v = Some dv /\ sD st w = Some (dv + G v w)%Z)).
(* _partial: the first clause (D is exactly the minimum walk length, None exactly on unreachable nodes) and
   NP >= 1 on every reachable node are proved; NP = sigma and the characterisation of P are missing. *)
Theorem C08_search_wei_dist_partial : forall n G u, (u < n)%nat -> nonneg_len n G ->
  exists st, source_w n G u = Some st /\
    (forall x, (x < n)%nat -> match sD st x with Some d => is_dist n G u x d | None => ~ reachable n G u x end) /\
    (forall x, (x < n)%nat -> sD st x = dist_spec n G u x) /\
    (forall x, (x < n)%nat -> reachable n G u x -> (1 <= sNP st x)%Z).
Proof. exact search_w_dist_partial. Qed.

(* ------------------------------------------------------------------------------------------ *)
(* the routines as a whole: what is proved of bc_correct                                        *)
(* ------------------------------------------------------------------------------------------ *)
(* _partial: the routines never fail and return, for every node / connection, the sum over all sources of
   the pair sums over the predecessor DAG (P, NP) built by their own search phase.  Missing for bc_correct:
   that NP[t] = sigma(u,t) and that the P-paths are exactly the minimum-length walks (path-counting phase). *)
Theorem C08_ebc_wei_pairsums_partial : forall n G, nonneg_len n G ->
  exists EBC BC, edge_betweenness_wei n G = Some (EBC, BC) /\
    (forall w, (w < n)%nat -> BC w == sumQ (fun u => dep_node n (source_w n G) u w) n) /\
    (forall v w, (v < n)%nat -> (w < n)%nat -> EBC v w == sumQ (fun u => dep_edge n (source_w n G) u v w) n).
Proof. exact ebc_wei_pairsums. Qed.
Theorem C08_bc_wei_pairsums_partial : forall n G, nonneg_len n G ->
  exists BC, betweenness_wei n G = Some BC /\
    (forall w, (w < n)%nat -> BC w == sumQ (fun u => dep_node n (source_w n G) u w) n).
Proof. exact bc_wei_pairsums. Qed.
Theorem C08_ebc_bin_pairsums_partial : forall n G,
  exists EBC BC, edge_betweenness_bin n G = Some (EBC, BC) /\
    (forall w, (w < n)%nat -> BC w == sumQ (fun u => dep_node n (source_b n G) u w) n) /\
    (forall v w, (v < n)%nat -> (w < n)%nat -> EBC v w == sumQ (fun u => dep_edge n (source_b n G) u v w) n).
Proof. exact ebc_bin_pairsums. Qed.

(* (3) the node vector of edge_betweenness_wei IS the result of betweenness_wei (identical values, and the two
   fail together) *)
Theorem C08_ebc_node_vector_eq_bc_wei : forall n G,
  match edge_betweenness_wei n G, betweenness_wei n G with
  | Some (_, BC), Some BC' => forall i, BC i = BC' i
  | None, None => True
  | _, _ => False
  end.
Proof. exact ebc_node_vector_eq_bc_wei. Qed.

(* ------------------------------------------------------------------------------------------ *)
(* non-vacuity: a diamond with a tie (two equal-length routes 0->1->3, 0->2->3) plus an unreachable node *)
(* ------------------------------------------------------------------------------------------ *)
Example C08_nonvacuous_input : nonneg_len 5 (of_rows 0%Z diamond) /\ binary 2 (of_rows 0%Z [[0;1];[1;0]]%Z).
Proof. exact nonvacuous_input. Qed.
Example C08_nonvacuous_output :
  run_bc_wei diamond = Some [0; 1#2; 1#2; 0; 0] /\
  snd (fst (run_spec (firstn 4 (map (firstn 4) diamond)))) = [0; 1#2; 1#2; 0] /\
  option_map snd (run_ebc_wei diamond) = Some [0; 1#2; 1#2; 0; 0] /\
  option_map (fun r => match r with (q, qf, _, _, _) => (q, qf) end) (run_search true diamond 0) = Some ([4; 3; 2; 1; 0], 1)%nat.
Proof. exact nonvacuous_output. Qed.

Print Assumptions C08_spec_enumeration_faithful.
Print Assumptions C08_dist_spec_correct.
Print Assumptions C08_shortest_walks_simple.
Print Assumptions C08_bin_sum_BC.
Print Assumptions C08_bin_sum_EBC.
Print Assumptions C08_brandes_accumulation.
Print Assumptions C08_brandes_accumulation_node.
Print Assumptions C08_dag_counts_exist.
Print Assumptions C08_queue_slots_wei.
Print Assumptions C08_queue_slots_bin.
Print Assumptions C08_search_wei_dist_partial.
Print Assumptions C08_ebc_wei_pairsums_partial.
Print Assumptions C08_bc_wei_pairsums_partial.
Print Assumptions C08_ebc_bin_pairsums_partial.
Print Assumptions C08_ebc_node_vector_eq_bc_wei.
