(* Properties/C08.v — betweenness (stub, being filled) *)
From Coq Require Import QArith List Arith ZArith.
From BCT Require Import Base.Mat Base.SumQ Base.ListX Model.Between.
