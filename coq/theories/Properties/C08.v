(* Properties/C08.v — betweenness counts exactly the shortest paths through each node and connection.
   Only statements; every proof is `exact <lemma of Proofs/Between*.v>`.

   FULL STATEMENT bc_correct — PROVED (C08_bc_correct: all four routines return BC_spec / EBC_spec). *)
From Coq Require Import QArith List Arith ZArith Permutation Sorted.
From BCT Require Import Base.Mat Base.SumQ Base.ListX Model.Between Model.BetweenQ
  Proofs.BetweenAccum Proofs.BetweenReady Proofs.BetweenQueue Proofs.BetweenSpec Proofs.BetweenBin Proofs.BetweenPaths
  Proofs.BetweenTight Proofs.BetweenLast Proofs.BetweenCount Proofs.BetweenFull Proofs.BetweenBfs Proofs.BetweenPow Proofs.BetweenScale
  Proofs.BetweenCorol Proofs.BetweenRat.
Import ListNotations.
Open Scope Q_scope.

Definition bc_correct_wei : Prop := forall n G, nonneg_len n G ->
  exists BC, betweenness_wei n G = Some BC /\ forall v, (v < n)%nat -> BC v == BC_spec n G v.
Definition ebc_correct_wei : Prop := forall n G, nonneg_len n G ->
  exists EBC BC, edge_betweenness_wei n G = Some (EBC, BC) /\
    (forall v, (v < n)%nat -> BC v == BC_spec n G v) /\
    (forall x y, (x < n)%nat -> (y < n)%nat -> EBC x y == EBC_spec n G x y).
Definition bc_correct_bin : Prop := forall n G, binary n G ->
  exists BC, betweenness_bin n G = Some BC /\ forall v, (v < n)%nat -> BC v == BC_spec n G v.
Definition ebc_correct_bin : Prop := forall n G, binary n G ->
  exists EBC BC, edge_betweenness_bin n G = Some (EBC, BC) /\
    (forall v, (v < n)%nat -> BC v == BC_spec n G v) /\
    (forall x y, (x < n)%nat -> (y < n)%nat -> EBC x y == EBC_spec n G x y).
(* the property's first sentence *)
Definition bc_correct : Prop := bc_correct_bin /\ bc_correct_wei /\ ebc_correct_bin /\ ebc_correct_wei.
(* "the node vector returned by the edge routines equals the node routines' result" for the binary pair
   (two different algorithms; follows from bc_correct_bin /\ ebc_correct_bin: C08_ebc_node_vector_eq_bc_bin) *)
Definition ebc_node_vector_eq_bc_bin : Prop := forall n G, binary n G ->
  match edge_betweenness_bin n G, betweenness_bin n G with
  | Some (_, BC), Some BC' => forall i, (i < n)%nat -> BC i == BC' i
  | _, _ => False end.

(* ------------------------------------------------------------------------------------------ *)
(* the specification                                                                           *)
(* ------------------------------------------------------------------------------------------ *)
(* the finite enumeration [spaths] holds exactly the minimum-length walks among ALL walks of any length *)
Theorem C08_spec_enumeration_faithful : forall n G s t p, nonneg_len n G ->
  (In p (spaths n G s t) <-> is_shortest n G s t p).
Proof. exact spaths_spec. Qed.

Theorem C08_dist_spec_correct : forall n G s t, nonneg_len n G ->
  match dist_spec n G s t with Some d => is_dist n G s t d | None => ~ reachable n G s t end.
Proof. exact dist_spec_correct. Qed.

Theorem C08_shortest_walks_simple : forall n G s t p, nonneg_len n G -> In p (spaths n G s t) -> NoDup p.
Proof. exact spaths_NoDup_elem. Qed.

(* (4) bin_sum_identities, from the specification: on binary graphs node values sum to sum(d-1) and
   connection values to sum(d) over reachable ordered pairs (unreachable pairs and s = t contribute 0) *)
Theorem C08_bin_sum_BC : forall n G, binary n G ->
  sumQ (BC_spec n G) n == sum2Q (pair_dist_minus1 n G) n.
Proof. exact bin_sum_BC. Qed.
Theorem C08_bin_sum_EBC : forall n G, binary n G ->
  sum2Q (EBC_spec n G) n == sum2Q (pair_dist n G) n.
Proof. exact bin_sum_EBC. Qed.

(* ------------------------------------------------------------------------------------------ *)
(* (1) brandes_accumulation                                                                    *)
(* ------------------------------------------------------------------------------------------ *)
(* For ANY predecessor matrix P, path counts NP and DAG path counts c that satisfy the first-connection
   decomposition, one pass of the accumulation loop over an order in which every successor precedes its
   predecessors adds to BC[w] exactly delta(w) = sum_t NP[w] c(w,t)/NP[t] and to EBC[v,w] exactly
   sum_t [P w v] NP[v] c(w,t)/NP[t]. *)
Theorem C08_brandes_accumulation : forall (n : nat) (P : mat bool) (NP : vec Z) (c : nat -> nat -> Q),
  (forall v, (v < n)%nat -> c v v == 1) ->
  (forall v t, (v < n)%nat -> (t < n)%nat -> v <> t -> c v t == sumQ (fun w => ind (P w v) * c w t) n) ->
  (forall w v, (w < n)%nat -> (v < n)%nat -> P w v = true -> c w v == 0) ->
  (forall w v, (w < n)%nat -> (v < n)%nat -> P w v = true -> (0 < NP w)%Z) ->
  forall (order : list nat) (BC0 : vec Q) (EBC0 : mat Q),
  NoDup order -> (forall x, In x order -> (x < n)%nat) -> succ_first n P order ->
  let r := fold_left (acc_e_step n P NP) order (BC0, EBC0, zeroQ) in
  (forall w, (w < n)%nat -> fst (fst r) w == BC0 w + (if nmem w order then delta n NP c w else 0)) /\
  (forall v w, (v < n)%nat -> (w < n)%nat ->
     snd (fst r) v w == EBC0 v w + (if nmem w order then delta_edge n P NP c v w else 0)).
Proof. exact brandes_accumulation. Qed.

Theorem C08_brandes_accumulation_node : forall (n : nat) (P : mat bool) (NP : vec Z) (c : nat -> nat -> Q),
  (forall v, (v < n)%nat -> c v v == 1) ->
  (forall v t, (v < n)%nat -> (t < n)%nat -> v <> t -> c v t == sumQ (fun w => ind (P w v) * c w t) n) ->
  (forall w v, (w < n)%nat -> (v < n)%nat -> P w v = true -> c w v == 0) ->
  (forall w v, (w < n)%nat -> (v < n)%nat -> P w v = true -> (0 < NP w)%Z) ->
  forall (order : list nat) (BC0 : vec Q),
  NoDup order -> (forall x, In x order -> (x < n)%nat) -> succ_first n P order ->
  forall w, (w < n)%nat ->
  fst (fold_left (acc_n_step n P NP) order (BC0, zeroQ)) w == BC0 w + (if nmem w order then delta n NP c w else 0).
Proof. exact brandes_accumulation_node. Qed.

(* such DAG path counts exist for every predecessor matrix along which a potential strictly increases *)
Theorem C08_dag_counts_exist : forall (n : nat) (P : mat bool) (pot : nat -> Z),
  (forall w v, (w < n)%nat -> (v < n)%nat -> P w v = true -> (pot v < pot w)%Z) ->
  (forall v, dag_count n P pot v v == 1) /\
  (forall v t, (v < n)%nat -> (t < n)%nat -> v <> t ->
     dag_count n P pot v t == sumQ (fun w => ind (P w v) * dag_count n P pot w t) n) /\
  (forall w v, (w < n)%nat -> (v < n)%nat -> P w v = true -> dag_count n P pot w v == 0).
Proof.
  intros n P pot H. split; [exact (dag_count_refl n P pot)|split].
  - exact (dag_count_step n P pot H).
  - exact (dag_count_acyc n P pot H).
Qed.

(* ------------------------------------------------------------------------------------------ *)
(* (2) queue_slots                                                                              *)
(* ------------------------------------------------------------------------------------------ *)
(* weighted routines: for every source the search phase ends without error (n rounds suffice, the slice
   Q[:q+1] has exactly the length of where(isinf(D))) and the queue is a permutation of all nodes with the
   unreached nodes in slots 0..q, the reached ones behind them in non-increasing distance, the source last;
   predecessor links strictly increase the distance and reached nodes have NP >= 1 *)
Theorem C08_queue_slots_wei : forall n G u, (u < n)%nat -> nonneg_len n G ->
  exists st, source_w n G u = Some st /\ queue_ok n u st /\
    Permutation (to_list n (sQ st)) (seq 0 n) /\
    (forall i, (i < n)%nat -> ((i < sqf st)%nat <-> sD st (sQ st i) = None)) /\
    (forall i j, (sqf st <= i)%nat -> (i <= j)%nat -> (j < n)%nat -> xle (sD st (sQ st j)) (sD st (sQ st i))) /\
    sQ st (n - 1)%nat = u.
Proof. exact queue_slots_w_full. Qed.

(* binary edge routine: same statement for the breadth-first search of edge_betweenness_bin
   (levels instead of distances; the flag D marks the reached nodes) *)
Theorem C08_queue_slots_bin : forall n G u, (u < n)%nat ->
  exists st, source_b n G u = Some st /\ bqueue_ok n u st /\
    Permutation (to_list n (sQ st)) (seq 0 n) /\
    (forall i, (i < n)%nat -> ((i < sqf st)%nat <-> sD st (sQ st i) = None)) /\
    sQ st (n - 1)%nat = u.
Proof. exact queue_slots_b_full. Qed.

(* ------------------------------------------------------------------------------------------ *)
(* (5) path-counting phase                                                                      *)
(* ------------------------------------------------------------------------------------------ *)
(* the specification side: the enumeration of ALL minimum-length walks u -> t decomposes by the last connection
   (a permutation of duplicate-free lists), hence sigma(u,t) = [t = u] + sum over tight connections v -> t of sigma(u,v) *)
Theorem C08_spec_last_connection : forall n G u t, nonneg_len n G -> (u < n)%nat -> (t < n)%nat ->
  NoDup (spaths n G u t) /\
  Permutation (spaths n G u t)
    ((if Nat.eqb t u then [[u]] else []) ++
     flat_map (fun v => if tightb n G u v t then map (fun q => q ++ [t]) (spaths n G u v) else []) (seq 0 n)).
Proof. intros n G u t HG Hu Ht. split; [apply spaths_NoDup|exact (spaths_last_perm n G u t HG Hu Ht)]. Qed.

Theorem C08_sigma_last_connection : forall n G u t, nonneg_len n G -> (u < n)%nat -> (t < n)%nat ->
  sigma n G u t = ((if Nat.eqb t u then 1 else 0) + sumn (fun v => if tightb n G u v t then sigma n G u v else 0) n)%Z.
Proof. exact sigma_last. Qed.

(* weighted search (betweenness_wei / edge_betweenness_wei), FULL: distances, path counts and predecessor sets *)
Definition search_correct_wei : Prop := forall n G u, (u < n)%nat -> nonneg_len n G ->
  exists st, source_w n G u = Some st /\
    (forall x, (x < n)%nat -> sD st x = dist_spec n G u x) /\
    (forall x, (x < n)%nat -> sNP st x = sigma n G u x) /\
    (forall w v, (w < n)%nat -> (v < n)%nat ->
       (sP st w v = true <-> edge G v w = true /\ exists dv, sD st v = Some dv /\ sD st w = Some (dv + G v w)%Z)).
Theorem C08_search_wei_correct : search_correct_wei.
Proof. exact search_w_correct. Qed.

(* breadth-first search of edge_betweenness_bin, FULL: reached set, path counts and predecessor sets *)
Definition search_correct_bin : Prop := forall n G u, (u < n)%nat -> binary n G ->
  exists st, source_b n G u = Some st /\
    (forall x, (x < n)%nat -> (sD st x <> None <-> reachable n G u x)) /\
    (forall x, (x < n)%nat -> sNP st x = sigma n G u x) /\
    (forall w v, (w < n)%nat -> (v < n)%nat ->
       (sP st w v = true <-> edge G v w = true /\
          exists dv, dist_spec n G u v = Some dv /\ dist_spec n G u w = Some (dv + 1)%Z)).
Theorem C08_search_bin_correct : search_correct_bin.
Proof. exact search_b_correct. Qed.

(* ------------------------------------------------------------------------------------------ *)
(* the routines as a whole                                                                      *)
(* ------------------------------------------------------------------------------------------ *)
(* ANY routine of the Brandes shape (per-source search + dependency accumulation + sum over sources) whose search
   leaves the queue in accumulation order, the tight connections as predecessor links and path counts obeying the
   last-connection recurrence returns the specification's sums of fractions *)
Theorem C08_pairsums_to_spec : forall n G (src : nat -> option sst), nonneg_len n G ->
  (forall u, (u < n)%nat -> exists st, src u = Some st /\ acc_ready n u st /\ counts_ok n G u st) ->
  (forall w, (w < n)%nat -> sumQ (fun u => dep_node n src u w) n == BC_spec n G w) /\
  (forall v w, (v < n)%nat -> (w < n)%nat -> sumQ (fun u => dep_edge n src u v w) n == EBC_spec n G v w).
Proof. exact pairsums_to_spec. Qed.

Theorem C08_bc_wei_correct : bc_correct_wei.
Proof. exact bc_wei_correct. Qed.
Theorem C08_ebc_wei_correct : ebc_correct_wei.
Proof. exact ebc_wei_correct. Qed.
Theorem C08_ebc_bin_correct : ebc_correct_bin.
Proof. exact ebc_bin_correct. Qed.

(* betweenness_bin (products of 0/1 matrices + back-propagation).  Matrix-power induction: the d-th power of a 0/1 matrix
   holds sigma(i,j) wherever dist(i,j) = d and 0 wherever dist(i,j) > d or j is unreachable; and what the loop forms
   (`NPd = np.dot(NSPd, G)`: only the minimum-length walks of d connections are extended, X below is NSPd whose
   off-diagonal entries are NSPd_spec n G d a k = sigma(a,k) if dist(a,k) = d, else 0) has on every pair farther
   apart than d - the entries kept by `* (L == 0)` - the entry of the (d+1)-th power, i.e. the number of
   minimum-length walks of d+1 connections: NPd[i,j] counts the (d+1)-walks whose first d connections are a
   minimum-length walk, and towards such a j every (d+1)-walk is one *)
Theorem C08_matrix_power_counts : forall n G, binary n G -> forall dn i j, (i < n)%nat -> (j < n)%nat ->
  ((dist_spec n G i j = None \/ exists e, dist_spec n G i j = Some e /\ (Z.of_nat dn < e)%Z) -> mpow n G dn i j = 0%Z) /\
  (dist_spec n G i j = Some (Z.of_nat dn) -> mpow n G dn i j = sigma n G i j) /\
  (forall X, (1 <= dn)%nat -> i <> j ->
     (forall a k, (a < n)%nat -> (k < n)%nat -> a <> k -> X a k = NSPd_spec n G (Z.of_nat dn) a k) ->
     (forall e, dist_spec n G i j = Some e -> (Z.of_nat dn < e)%Z) ->
     mmulZ n X G i j = mpow n G (S dn) i j /\ mmulZ n X G i j = NSPd_spec n G (Z.of_nat (S dn)) i j).
Proof. exact pow_sigma_ext. Qed.
(* forward phase: `while np.any(NSPd)` ends within its fuel; then L (after L[L==0]=inf, L[I]=0) is the distance matrix and
   NSP (after NSP[NSP==0]=1) the matrix of numbers of minimum-length walks; d-1 bounds every distance *)
Theorem C08_bc_bin_forward : forall n G, binary n G ->
  let G0 := tab 0%Z n n G in
  exists dn NSP L,
    bb_count (S n) n G0 1%Z G0 G0 (tab 0%Z n n (bb_init_diag G0)) (tab 0%Z n n (bb_init_diag G0)) = Some (Z.of_nat dn, NSP, L) /\
    (1 <= dn)%nat /\
    (forall i j e, (i < n)%nat -> (j < n)%nat -> dist_spec n G i j = Some e -> (e < Z.of_nat dn)%Z) /\
    (forall i j, (i < n)%nat -> (j < n)%nat ->
       tab None n n (bb_Lfin L) i j = dist_spec n G i j /\
       tab 0%Z n n (bb_NSPfin NSP) i j = if isinf (dist_spec n G i j) then 1%Z else sigma n G i j).
Proof. exact bb_forward_correct. Qed.
(* back-propagation: pass d completes the dependencies of the nodes at distance d-1 (dlt = Brandes' delta over the tight
   connections of source i) *)
Theorem C08_bc_bin_back_pass : forall n G, binary n G -> forall (Lf : mat (option Z)) (NSPf : mat Z),
  (forall i j, (i < n)%nat -> (j < n)%nat -> Lf i j = dist_spec n G i j) ->
  (forall i j e, (i < n)%nat -> (j < n)%nat -> dist_spec n G i j = Some e -> NSPf i j = sigma n G i j) ->
  forall d DP, (2 <= d)%Z -> InvB n G d DP -> InvB n G (d - 1) (bb_back n (tab 0%Z n n G) Lf NSPf DP d).
Proof. exact back_pass. Qed.
Theorem C08_bc_bin_correct : bc_correct_bin.
Proof. exact bc_bin_correct. Qed.

(* the property's first sentence, for all four routines *)
Theorem C08_bc_correct : bc_correct.
Proof. exact (conj bc_bin_correct (conj bc_wei_correct (conj ebc_bin_correct ebc_wei_correct))). Qed.

(* (d) binary half of "edge node vector = node routine" *)
Theorem C08_ebc_node_vector_eq_bc_bin : ebc_node_vector_eq_bc_bin.
Proof. exact BetweenPow.ebc_node_vector_eq_bc_bin. Qed.

(* on 0/1 matrices (lengths = the 0/1 entries) the weighted routines return what the binary routines return *)
Theorem C08_wei_eq_bin_on_binary : forall n G, binary n G ->
  (exists BCw BCb, betweenness_wei n G = Some BCw /\ betweenness_bin n G = Some BCb /\
     forall v, (v < n)%nat -> BCw v == BCb v) /\
  (exists Ew Bw Eb Bb, edge_betweenness_wei n G = Some (Ew, Bw) /\ edge_betweenness_bin n G = Some (Eb, Bb) /\
     (forall v, (v < n)%nat -> Bw v == Bb v) /\
     (forall x y, (x < n)%nat -> (y < n)%nat -> Ew x y == Eb x y)).
Proof. exact wei_eq_bin_on_binary. Qed.

(* (3) the node vector of edge_betweenness_wei IS the result of betweenness_wei (identical values, and the two
   fail together) *)
Theorem C08_ebc_node_vector_eq_bc_wei : forall n G,
  match edge_betweenness_wei n G, betweenness_wei n G with
  | Some (_, BC), Some BC' => forall i, BC i = BC' i
  | None, None => True
  | _, _ => False
  end.
Proof. exact ebc_node_vector_eq_bc_wei. Qed.

(* scaling all lengths by a positive constant changes neither the specification nor what the weighted routines return
   (the harness feeds dyadic lengths m * 2^-20 to the implementation and the numerators m to the model) *)
Theorem C08_spec_scale_invariant : forall k G, (0 < k)%Z -> forall n,
  (forall v, BC_spec n (scaleG k G) v == BC_spec n G v) /\
  (forall x y, EBC_spec n (scaleG k G) x y == EBC_spec n G x y).
Proof. exact spec_scale_invariant. Qed.
Theorem C08_wei_scale_invariant : forall k G, (0 < k)%Z -> forall n, nonneg_len n G ->
  (exists BC' BC, betweenness_wei n (scaleG k G) = Some BC' /\ betweenness_wei n G = Some BC /\
     forall v, (v < n)%nat -> BC' v == BC v) /\
  (exists E' B' E B, edge_betweenness_wei n (scaleG k G) = Some (E', B') /\ edge_betweenness_wei n G = Some (E, B) /\
     (forall v, (v < n)%nat -> B' v == B v) /\ (forall x y, (x < n)%nat -> (y < n)%nat -> E' x y == E x y)).
Proof. exact wei_scale_invariant. Qed.

(* ------------------------------------------------------------------------------------------ *)
(* (4') the sum identities as statements about what the four ROUTINES return on a 0/1 matrix     *)
(* ------------------------------------------------------------------------------------------ *)
Theorem C08_bin_sum_routines : forall n G, binary n G ->
  (exists BC, betweenness_bin n G = Some BC /\ sumQ BC n == sum2Q (pair_dist_minus1 n G) n) /\
  (exists E B, edge_betweenness_bin n G = Some (E, B) /\
     sum2Q E n == sum2Q (pair_dist n G) n /\ sumQ B n == sum2Q (pair_dist_minus1 n G) n) /\
  (exists BC, betweenness_wei n G = Some BC /\ sumQ BC n == sum2Q (pair_dist_minus1 n G) n) /\
  (exists E B, edge_betweenness_wei n G = Some (E, B) /\
     sum2Q E n == sum2Q (pair_dist n G) n /\ sumQ B n == sum2Q (pair_dist_minus1 n G) n).
Proof. exact bin_sum_routines. Qed.

(* ------------------------------------------------------------------------------------------ *)
(* the two binary routines on matrices that are NOT 0/1 (documented input: "binary ... connection matrix")  *)
(* ------------------------------------------------------------------------------------------ *)
(* edge_betweenness_bin only tests `!= 0`: on EVERY matrix it returns what it returns on the 0/1 support [binz G]
   (identical values), i.e. the specification of the support - clause ebc_correct_bin without the `binary` hypothesis *)
Theorem C08_ebc_bin_ignores_weights :
  (forall n G, edge_betweenness_bin n G = edge_betweenness_bin n (binz G)) /\
  (forall n G, exists EBC BC, edge_betweenness_bin n G = Some (EBC, BC) /\
     (forall v, (v < n)%nat -> BC v == BC_spec n (binz G) v) /\
     (forall x y, (x < n)%nat -> (y < n)%nat -> EBC x y == EBC_spec n (binz G) x y)).
Proof. exact (conj ebc_bin_ignores_weights ebc_bin_correct_any). Qed.

(* betweenness_bin does NOT binarise (matrix powers of G itself, L = G.copy()): the statement "betweenness_bin n G is the
   betweenness of the support of G" is FALSE; witness: diamond 0->1->3, 0->2->3 with G[0,1] = 2 (model and implementation
   return [0, 0, 1/3, 0], the support has [0, 1/2, 1/2, 0]).  Outside the documented domain (binary matrices). *)
Definition bc_bin_binarises : Prop := forall n G, nonneg_len n G ->
  exists BC BC', betweenness_bin n G = Some BC /\ betweenness_bin n (binz G) = Some BC' /\
    forall v, (v < n)%nat -> BC v == BC' v.
Theorem C08_bc_bin_weighted_refuted :
  (exists n G, nonneg_len n G /\
     exists BC, betweenness_bin n G = Some BC /\ exists v, (v < n)%nat /\ ~ BC v == BC_spec n (binz G) v) /\
  ~ bc_bin_binarises.
Proof. exact bc_bin_weighted_refuted. Qed.

(* ------------------------------------------------------------------------------------------ *)
(* rational connection lengths (Model/BetweenQ.v: the weighted routines and the specification over Q)              *)
(* ------------------------------------------------------------------------------------------ *)
(* if G * k = M entrywise (k > 0, M integer) the Q routines on G return the very VALUES the Z routines return on M, and the
   enumeration of minimum-length walks / BC_specQ / EBC_specQ on G are those of M; in particular for the matrix of
   fractions M[i,j]/k (k = 2^20, 2^30: exactly the binary64 matrix the harness gives the implementation) *)
Theorem C08_weiQ_reduce : forall n k G M, (0 < k)%Z -> scaled_to n k G M ->
  (betweenness_weiQ n G = betweenness_wei n M /\ edge_betweenness_weiQ n G = edge_betweenness_wei n M) /\
  (forall s t, spathsQ n G s t = spaths n M s t) /\
  (forall v, BC_specQ n G v == BC_spec n M v) /\ (forall x y, EBC_specQ n G x y == EBC_spec n M x y).
Proof. exact weiQ_reduce_all. Qed.
Theorem C08_weiQ_of_fraction : forall n k M,
  betweenness_weiQ n (fracG k M) = betweenness_wei n M /\ edge_betweenness_weiQ n (fracG k M) = edge_betweenness_wei n M.
Proof. exact weiQ_of_fraction. Qed.

(* bc_correct for the weighted routines with RATIONAL lengths: every n, every matrix of nonnegative rationals *)
Definition bc_correct_weiQ : Prop := forall n G, nonneg_lenQ n G ->
  (exists BC, betweenness_weiQ n G = Some BC /\ forall v, (v < n)%nat -> BC v == BC_specQ n G v) /\
  (exists EBC BC, edge_betweenness_weiQ n G = Some (EBC, BC) /\
    (forall v, (v < n)%nat -> BC v == BC_specQ n G v) /\
    (forall x y, (x < n)%nat -> (y < n)%nat -> EBC x y == EBC_specQ n G x y)).
Theorem C08_bc_weiQ_correct : bc_correct_weiQ.
Proof. exact bc_weiQ_correct_all. Qed.

(* scaling all lengths by any positive rational c *)
Theorem C08_weiQ_scale_invariant : forall n c G, 0 < c -> nonneg_lenQ n G ->
  ((forall v, BC_specQ n (scaleQ c G) v == BC_specQ n G v) /\
   (forall x y, EBC_specQ n (scaleQ c G) x y == EBC_specQ n G x y)) /\
  (exists BC' BC, betweenness_weiQ n (scaleQ c G) = Some BC' /\ betweenness_weiQ n G = Some BC /\
     forall v, (v < n)%nat -> BC' v == BC v) /\
  (exists E' B' E B, edge_betweenness_weiQ n (scaleQ c G) = Some (E', B') /\ edge_betweenness_weiQ n G = Some (E, B) /\
     (forall v, (v < n)%nat -> B' v == B v) /\ (forall x y, (x < n)%nat -> (y < n)%nat -> E' x y == E x y)).
Proof. exact weiQ_scale_all. Qed.

(* ------------------------------------------------------------------------------------------ *)
(* non-vacuity: a diamond with a tie (two equal-length routes 0->1->3, 0->2->3) plus an unreachable node *)
(* ------------------------------------------------------------------------------------------ *)
Example C08_nonvacuous_input : nonneg_len 5 (of_rows 0%Z diamond) /\ binary 2 (of_rows 0%Z [[0;1];[1;0]]%Z).
Proof. exact nonvacuous_input. Qed.
Example C08_nonvacuous_output :
  run_bc_wei diamond = Some [0; 1#2; 1#2; 0; 0] /\
  snd (fst (run_spec (firstn 4 (map (firstn 4) diamond)))) = [0; 1#2; 1#2; 0] /\
  option_map snd (run_ebc_wei diamond) = Some [0; 1#2; 1#2; 0; 0] /\
  option_map (fun r => match r with (q, qf, _, _, _) => (q, qf) end) (run_search true diamond 0) = Some ([4; 3; 2; 1; 0], 1)%nat.
Proof. exact nonvacuous_output. Qed.
(* a 0/1 matrix (4-cycle with a chord): all routines and the specification give [0; 1; 0; 1] *)
Example C08_nonvacuous_binary : binary 4 (of_rows 0%Z bin_example) /\
  run_bc_bin bin_example = Some [0; 1; 0; 1] /\ run_bc_wei bin_example = Some [0; 1; 0; 1] /\
  option_map snd (run_ebc_bin bin_example) = Some [0; 1; 0; 1] /\
  snd (fst (run_spec bin_example)) = [0; 1; 0; 1].
Proof. exact bin_example_ok. Qed.

(* the weighted diamond of C08_bc_bin_weighted_refuted: betweenness_bin, betweenness_bin on the support, edge_betweenness_bin *)
Example C08_nonvacuous_weighted_bin :
  option_map (qlist 4) (betweenness_bin 4 (of_rows 0%Z wdiamond)) = Some [0; 0; 1#3; 0] /\
  option_map (qlist 4) (betweenness_bin 4 (binz (of_rows 0%Z wdiamond))) = Some [0; 1#2; 1#2; 0] /\
  option_map (fun r => qlist 4 (snd r)) (edge_betweenness_bin 4 (of_rows 0%Z wdiamond)) = Some [0; 1#2; 1#2; 0].
Proof. exact wdiamond_values. Qed.
(* rational lengths: the diamond with lengths 1/10, 2/10 (two routes of length 3/10) *)
Example C08_nonvacuous_rational :
  nonneg_lenQ 5 (of_rows 0 qdiamond) /\ run_bc_weiQ qdiamond = Some [0; 1#2; 1#2; 0; 0] /\
  option_map snd (run_ebc_weiQ qdiamond) = Some [0; 1#2; 1#2; 0; 0].
Proof. exact weiQ_nonvacuous. Qed.

Print Assumptions C08_spec_enumeration_faithful.
Print Assumptions C08_dist_spec_correct.
Print Assumptions C08_shortest_walks_simple.
Print Assumptions C08_bin_sum_BC.
Print Assumptions C08_bin_sum_EBC.
Print Assumptions C08_brandes_accumulation.
Print Assumptions C08_brandes_accumulation_node.
Print Assumptions C08_dag_counts_exist.
Print Assumptions C08_queue_slots_wei.
Print Assumptions C08_queue_slots_bin.
Print Assumptions C08_spec_last_connection.
Print Assumptions C08_sigma_last_connection.
Print Assumptions C08_search_wei_correct.
Print Assumptions C08_search_bin_correct.
Print Assumptions C08_pairsums_to_spec.
Print Assumptions C08_bc_wei_correct.
Print Assumptions C08_ebc_wei_correct.
Print Assumptions C08_ebc_bin_correct.
Print Assumptions C08_matrix_power_counts.
Print Assumptions C08_bc_bin_forward.
Print Assumptions C08_bc_bin_back_pass.
Print Assumptions C08_bc_bin_correct.
Print Assumptions C08_bc_correct.
Print Assumptions C08_ebc_node_vector_eq_bc_bin.
Print Assumptions C08_wei_eq_bin_on_binary.
Print Assumptions C08_spec_scale_invariant.
Print Assumptions C08_wei_scale_invariant.
Print Assumptions C08_ebc_node_vector_eq_bc_wei.
Print Assumptions C08_bin_sum_routines.
Print Assumptions C08_ebc_bin_ignores_weights.
Print Assumptions C08_bc_bin_weighted_refuted.
Print Assumptions C08_weiQ_reduce.
Print Assumptions C08_weiQ_of_fraction.
Print Assumptions C08_bc_weiQ_correct.
Print Assumptions C08_weiQ_scale_invariant.
