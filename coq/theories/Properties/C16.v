(* Properties/C16.v — connected components are exactly the classes of mutually reachable nodes.
   Only statements; every proof is `exact <lemma of Proofs/Components.v>`.
   [get_components n A] is the statement-by-statement model of bct.get_components on an n x n
   matrix (None = BCTParamError); [path n A u v] = a chain of nonzero entries joins u and v. *)
From Coq Require Import ZArith List Arith.
From BCT Require Import Base.Mat Base.ListX Model.Components Proofs.Components Model.Distance Proofs.ComponentsDistance Proofs.ComponentsDistanceFull.
Import ListNotations.
Local Open Scope nat_scope.

(* the loop invariant holds after every prefix of the edge list (blocks connected through the
   processed edges, each processed edge inside one block, blocks pairwise disjoint,
   duplicate-free, non-empty, made of edge endpoints) *)
Theorem C16_fold_invariant : forall edges, Inv edges (union_sets edges).
Proof. exact union_sets_Inv. Qed.

(* same label <=> a path joins the two nodes; one label per node *)
Theorem C16_components_iff_path : forall n A comps sizes,
  get_components n A = Some (comps, sizes) ->
  length comps = n /\
  forall u v, u < n -> v < n -> (nth u comps 0 = nth v comps 0 <-> Components.path n A u v).
Proof. exact components_iff_path. Qed.

(* the labels in use are exactly 1..m, m = len(comp_sizes) *)
Theorem C16_labels_1_to_m : forall n A comps sizes,
  get_components n A = Some (comps, sizes) ->
  forall l, (1 <= l <= length sizes) <-> (exists v, v < n /\ nth v comps 0 = l).
Proof. exact labels_1_to_m. Qed.

(* comp_sizes[l-1] = number of nodes labelled l *)
Theorem C16_sizes_are_counts : forall n A comps sizes,
  get_components n A = Some (comps, sizes) ->
  forall l, 1 <= l <= length sizes -> nth (l - 1) sizes 0 = count_label l comps.
Proof. exact sizes_are_counts. Qed.

(* a node without any off-diagonal connection is a component of size one *)
Theorem C16_isolated_singletons : forall n A comps sizes,
  get_components n A = Some (comps, sizes) ->
  forall u, u < n -> (forall v, v < n -> v <> u -> A u v = 0%Z) ->
  nth (nth u comps 0 - 1) sizes 0 = 1.
Proof. exact isolated_singletons. Qed.

(* rejected <=> some entry differs from its mirror image; accepted otherwise (totality) *)
Theorem C16_asym_rejected : forall n A,
  get_components n A = None <-> exists i j, i < n /\ j < n /\ A i j <> A j i.
Proof. exact asym_rejected. Qed.

Theorem C16_number_of_components_def : forall n A m,
  number_of_components n A = Some m <->
  exists comps sizes, get_components n A = Some (comps, sizes) /\ m = length sizes.
Proof. exact number_of_components_def. Qed.

(* ... and that number is the number of reachability classes: m pairwise unjoined
   representatives which together reach every node *)
Theorem C16_number_is_class_count : forall n A m,
  number_of_components n A = Some m ->
  exists reps, length reps = m /\
    (forall i, i < m -> nth i reps 0 < n) /\
    (forall i j, i < m -> j < m -> path n A (nth i reps 0) (nth j reps 0) -> i = j) /\
    (forall v, v < n -> exists i, i < m /\ path n A (nth i reps 0) v).
Proof. exact number_is_class_count. Qed.

(* agreement with the three distance routines of C03 (models of Model/Distance.v; that those models are the code is
   C03's correspondence).  Unconditional: each routine's model always returns (C03's totality theorems) and, off the
   diagonal, same label <=> finite entry (<=> reachability flag).  The former generic, conditional statement
   "agrees with any routine whose finite entries are the joined pairs" survives only as the lemma
   Proofs/Components.v:agrees_with_distance; it is no longer a C16 theorem. *)
Theorem C16_agrees_with_distance_bin : forall n A comps sizes,
  get_components n A = Some (comps, sizes) ->
  exists D, distance_bin n A = Some D /\
    forall u v, u < n -> v < n -> u <> v -> (nth u comps 0 = nth v comps 0 <-> D u v <> None).
Proof. exact agrees_with_distance_bin_total. Qed.

Theorem C16_agrees_with_reachdist : forall n A comps sizes,
  get_components n A = Some (comps, sizes) ->
  exists R D, reachdist n A = Some (R, D) /\
    forall u v, u < n -> v < n -> u <> v ->
      (nth u comps 0 = nth v comps 0 <-> D u v <> None) /\
      (nth u comps 0 = nth v comps 0 <-> R u v = true).
Proof. exact agrees_with_reachdist. Qed.

Theorem C16_agrees_with_breadthdist : forall n A comps sizes,
  get_components n A = Some (comps, sizes) ->
  exists R D, breadthdist n A = Some (R, D) /\
    forall u v, u < n -> v < n -> u <> v ->
      (nth u comps 0 = nth v comps 0 <-> D u v <> None) /\
      (nth u comps 0 = nth v comps 0 <-> R u v = true).
Proof. exact agrees_with_breadthdist. Qed.

(* the diagonal of reachdist / breadthdist (shortest cycle through the node): finite exactly for the nodes that
   have some connection, i.e. every node except isolated ones without a self-loop *)
Theorem C16_reach_breadth_diag : forall n A comps sizes Rr Dr Rb Db,
  get_components n A = Some (comps, sizes) ->
  reachdist n A = Some (Rr, Dr) -> breadthdist n A = Some (Rb, Db) ->
  forall u, u < n ->
    (Dr u u <> None <-> exists w, w < n /\ A u w <> 0%Z) /\
    (Db u u <> None <-> exists w, w < n /\ A u w <> 0%Z).
Proof. exact reach_breadth_diag. Qed.

(* non-vacuity: path 0-3-1, isolated node 2, weighted pair 4-5 with a nonzero diagonal entry;
   the edge (0,3) arrives before (1,3), so the item {1,3} has to merge the blocks {0,3} and {1} *)
Example C16_nonvacuous :
  get_components 6 (of_rows 0%Z [[0;0;0;1;0;0]; [0;0;0;1;0;0]; [0;0;0;0;0;0];
                                 [1;1;0;0;0;0]; [0;0;0;0;7;-2]; [0;0;0;0;-2;0]]%Z)
  = Some ([2; 2; 1; 2; 3; 3], [1; 3; 2])
  /\ number_of_components 3 (of_rows 0%Z [[0;1;0]; [1;0;0]; [0;0;0]]%Z) = Some 2
  /\ get_components 2 (of_rows 0%Z [[0;1]; [0;0]]%Z) = None.
Proof. vm_compute. repeat split. Qed.

(* non-vacuity of the distance family: on the same matrix all three C03 models return, 0 and 1 (same label 2) are at
   finite distance 2, node 2 (alone in its component) is at infinite distance from 0 and from itself, and node 4
   (self-loop) has a finite diagonal entry *)
Example C16_distance_nonvacuous :
  let A := of_rows 0%Z [[0;0;0;1;0;0]; [0;0;0;1;0;0]; [0;0;0;0;0;0];
                        [1;1;0;0;0;0]; [0;0;0;0;7;-2]; [0;0;0;0;-2;0]]%Z in
  match distance_bin 6 A, reachdist 6 A, breadthdist 6 A with
  | Some D, Some (Rr, Dr), Some (Rb, Db) =>
      D 0 1 = Some 2 /\ D 0 2 = None /\
      Dr 0 1 = Some 2%Z /\ Dr 0 2 = None /\ Rr 0 1 = true /\ Rr 0 2 = false /\ Dr 2 2 = None /\ Dr 4 4 = Some 1%Z /\
      Db 0 1 = Some 2 /\ Db 0 2 = None /\ Rb 0 1 = true /\ Rb 0 2 = false /\ Db 2 2 = None /\ Db 4 4 = Some 1
  | _, _, _ => False
  end.
Proof. vm_compute. repeat split. Qed.

Print Assumptions C16_fold_invariant.
Print Assumptions C16_components_iff_path.
Print Assumptions C16_labels_1_to_m.
Print Assumptions C16_sizes_are_counts.
Print Assumptions C16_isolated_singletons.
Print Assumptions C16_asym_rejected.
Print Assumptions C16_number_of_components_def.
Print Assumptions C16_number_is_class_count.
Print Assumptions C16_agrees_with_distance_bin.
Print Assumptions C16_agrees_with_reachdist.
Print Assumptions C16_agrees_with_breadthdist.
Print Assumptions C16_reach_breadth_diag.
