(* Properties/C09.v — clustering coefficients and transitivity equal their triangle definitions.
   Only statements; every proof is `exact <lemma of Proofs/Clustering*.v>`.
   Models: Model/Clustering.v (matrix-product forms and inf-masking exactly as in clustering.py).
   Definitions compared with: Proofs/ClusteringSpec.v (explicit enumerations of pairs / triples).
   [cbrt] is ANY function that returns a cube root of the values it is applied to (cbrt_ok: the
   entries; cbrt_ok3: the products of three entries, needed only to state Onnela's intensity as the
   cube root of a product).  cbrt 0 = 0, cbrt 1 = 1, oddness, monotonicity, multiplicativity are
   consequences (C09_cbrt_laws), not assumptions. *)
From Coq Require Import QArith Qabs List Arith Bool ZArith Lia.
From BCT Require Import Base.Mat Base.SumQ Model.Threshold Model.Clustering
  Proofs.ClusteringSpec Proofs.Clustering Proofs.ClusteringRange Proofs.ClusteringSign Proofs.ClusteringCount.
From BCT Require Proofs.ClusteringSelfloop.
Import ListNotations.
Open Scope Q_scope.

(* diag(S.S.S)_i is the sum over all node pairs (j,k) of S_ij S_jk S_ki *)
Theorem C09_diag_cube_is_triples : forall n S i,
  diag3 n S i == sumQ (fun j => sumQ (fun k => S i j * S j k * S k i) n) n.
Proof. exact diag_cube_is_triples. Qed.

Theorem C09_cbrt_laws : forall cbrt x y,
  cube_root_at cbrt x -> cube_root_at cbrt y ->
  (x == y -> cbrt x == cbrt y) /\ (x == 0 -> cbrt x == 0) /\ (x == 1 -> cbrt x == 1) /\
  (x <= y -> cbrt x <= cbrt y) /\ (cube_root_at cbrt (- x) -> cbrt (- x) == - cbrt x).
Proof.
  intros cbrt x y Hx Hy. split; [exact (cra_proper cbrt x y Hx Hy)|]. split; [exact (cra_zero cbrt x Hx)|].
  split; [exact (cra_one cbrt x Hx)|]. split; [exact (cra_mono cbrt x y Hx Hy)|exact (cra_opp cbrt x Hx)].
Qed.

Theorem C09_cbrt_mul : forall cbrt x y z,
  cube_root_at cbrt x -> cube_root_at cbrt y -> cube_root_at cbrt z -> cube_root_at cbrt (x * y * z) ->
  cbrt (x * y * z) == cbrt x * cbrt y * cbrt z.
Proof. exact cra_mul3. Qed.

(* ---- bct.utils.cuberoot as written: np.sign(x) * np.abs(x)**(1/3)  ([pcbrt] = the float power, applied to |x| only).
   It is a cube root of x as soon as the power is a cube root of |x| (so every theorem below that assumes
   cbrt_ok cbrt n W holds for cbrt := cuberoot pcbrt under pcbrt_ok pcbrt n W), and it is odd and sign-preserving
   by construction, with no assumption on the power. ---- *)
Theorem C09_cuberoot_is_cube_root : forall pcbrt,
  (forall x, cube_root_at pcbrt (Qabs x) -> cube_root_at (cuberoot pcbrt) x) /\
  (forall n W, pcbrt_ok pcbrt n W -> cbrt_ok (cuberoot pcbrt) n W).
Proof. intros pcbrt. split; [exact (cuberoot_is_cube_root pcbrt)|exact (cuberoot_ok pcbrt)]. Qed.

Theorem C09_cuberoot_odd : forall pcbrt x,
  cuberoot pcbrt (- x) == - cuberoot pcbrt x /\
  (0 <= pcbrt (Qabs x) ->
   (0 < x -> 0 <= cuberoot pcbrt x) /\ (x < 0 -> cuberoot pcbrt x <= 0) /\ (x == 0 -> cuberoot pcbrt x == 0)).
Proof. intros pcbrt x. split; [exact (cuberoot_odd pcbrt x)|exact (cuberoot_sign pcbrt x)]. Qed.

(* ---- definitions ---- *)
(* C_i = #linked pairs of neighbours / (k_i (k_i - 1) / 2), 0 if k_i < 2 *)
Theorem C09_cc_bu_def : forall n A i, binary n A -> symmetric n A -> nodiag n A -> (i < n)%nat ->
  cc_bu n A i == def_cc_bu n A i.
Proof. exact cc_bu_def. Qed.

(* Fagiolo: directed triangles at i / (d_tot (d_tot - 1) - 2 d_bi); every input *)
Theorem C09_cc_bd_fagiolo : forall n A i, cc_bd n A i == def_cc_bd n A i.
Proof. exact cc_bd_fagiolo. Qed.

(* Onnela: sum over neighbour pairs of (w_ij w_jk w_ki)^(1/3) / (k_i (k_i - 1)), 0 if k_i < 2 *)
Theorem C09_cc_wu_onnela : forall cbrt n W i,
  cbrt_ok cbrt n W -> cbrt_ok3 cbrt n W -> symmetric n W -> nodiag n W -> (i < n)%nat ->
  cc_wu cbrt n W i == def_cc_wu cbrt n W i.
Proof. exact cc_wu_onnela. Qed.

(* Fagiolo weighted: intensities w^(1/3) in the numerator, adjacency in the denominator; every input, every cbrt *)
Theorem C09_cc_wd_def : forall cbrt n W i, cc_wd cbrt n W i == def_cc_wd cbrt n W i.
Proof. exact cc_wd_def. Qed.

(* coef_type='default': Onnela on the positive part and on the magnitudes of the negative part (diagonal cleared) *)
Theorem C09_cc_wu_sign_def : forall cbrt n W i, symmetric n W -> (i < n)%nat ->
  (cbrt_ok cbrt n (pospart (clear_diag W)) -> cbrt_ok3 cbrt n (pospart (clear_diag W)) ->
   fst (cc_wu_sign_default cbrt n W i) == fst (def_cc_wu_sign cbrt n W i)) /\
  (cbrt_ok cbrt n (negpart (clear_diag W)) -> cbrt_ok3 cbrt n (negpart (clear_diag W)) ->
   snd (cc_wu_sign_default cbrt n W i) == snd (def_cc_wu_sign cbrt n W i)).
Proof. exact cc_wu_sign_def. Qed.

(* coef_type='zhang': sum w_ij w_iq w_jq / ((sum_j w_ij)^2 - sum_j w_ij^2) on each sign *)
Theorem C09_cc_zhang_def : forall n W i, symmetric n W -> (i < n)%nat ->
  fst (cc_wu_sign_zhang n W i) == def_zhang n (pospart (clear_diag W)) i /\
  snd (cc_wu_sign_zhang n W i) == def_zhang n (negpart (clear_diag W)) i.
Proof. exact cc_sign_zhang_def. Qed.

(* coef_type='costantini': same numerator over (sum_j |w_ij|)^2 - sum_j w_ij^2 *)
Theorem C09_cc_costantini_def : forall n W i, symmetric n W -> (i < n)%nat ->
  cc_wu_sign_costantini n W i == def_costantini n (clear_diag W) i.
Proof. exact cc_costantini_def. Qed.

(* the 'default' branch transcribed statement by statement (Model/Clustering.v cc_wu_sign_default_code) IS Onnela on
   the two parts; the dispatch on coef_type: 'Zhang' / 'Costantini' select the same branches as the lower-case
   spellings, every other string falls through and the routine returns None *)
Theorem C09_wu_sign_code : forall cbrt n W,
  (forall i, cc_wu_sign_default_code cbrt n W i = cc_wu_sign_default cbrt n W i) /\
  clustering_coef_wu_sign cbrt n W CT_Zhang = clustering_coef_wu_sign cbrt n W CT_zhang /\
  clustering_coef_wu_sign cbrt n W CT_Costantini = clustering_coef_wu_sign cbrt n W CT_costantini /\
  clustering_coef_wu_sign cbrt n W CT_other = SR_none.
Proof. intros cbrt n W. split; [exact (cc_wu_sign_default_code_eq cbrt n W)|exact (coef_type_dispatch cbrt n W)]. Qed.

(* transitivity: sum_i linked pairs at i (= 3 x triangles) / sum_i k_i (k_i - 1) / 2 (= connected triples);
   None on both sides when there is no connected triple (the code returns nan) *)
Theorem C09_trans_bu_def : forall n A, binary n A -> symmetric n A -> nodiag n A ->
  oeq (trans_bu n A) (def_trans_bu n A).
Proof. exact trans_bu_def. Qed.

Theorem C09_trans_bd_def : forall n A, oeq (trans_bd n A) (def_trans_bd n A).
Proof. exact trans_bd_def. Qed.

Theorem C09_trans_wu_def : forall cbrt n W, cbrt_ok cbrt n W -> cbrt_ok3 cbrt n W ->
  oeq (trans_wu cbrt n W) (def_trans_wu cbrt n W).
Proof. exact trans_wu_def. Qed.

Theorem C09_trans_wd_def : forall cbrt n W, oeq (trans_wd cbrt n W) (def_trans_wd cbrt n W).
Proof. exact trans_wd_def. Qed.

(* ---- exact zeros ---- *)
(* a node on no triangle of the (symmetrised) support gets exactly 0 from all four per-node routines
   (hence also from wu_sign 'default', which is cc_wu on the two parts) *)
Theorem C09_no_triangle_zero : forall cbrt n W i, cbrt_ok cbrt n W -> (i < n)%nat -> no_triangle n W i ->
  cc_bu n W i == 0 /\ cc_bd n W i == 0 /\ cc_wu cbrt n W i == 0 /\ cc_wd cbrt n W i == 0.
Proof. exact no_triangle_zero. Qed.

(* a node with at most one neighbour (arcs of either direction) gets exactly 0 *)
Theorem C09_deg_lt2_zero : forall cbrt n W i, cbrt_ok cbrt n W -> (i < n)%nat -> nodiag n W -> few_neighbours n W i ->
  cc_bu n W i == 0 /\ cc_bd n W i == 0 /\ cc_wu cbrt n W i == 0 /\ cc_wd cbrt n W i == 0.
Proof. exact deg_lt2_zero. Qed.

(* the same WITHOUT the empty diagonal (outside the property's domain; true since the repair 366dab6, which masks a
   vanishing denominator in clustering_coef_wu / _bd / _wd as clustering_coef_bu's `if k >= 2` does): a node with at most
   one index j — possibly j = i, a self-connection — such that W i j <> 0 or W j i <> 0 gets exactly 0; bu / wu / wd for
   ANY weights, bd on 0/1 input.  (Before the repair node 1 of [[1,1],[1,0]] got inf from wu / bd / wd.) *)
Theorem C09_deg_lt2_zero_any_diagonal : forall cbrt n W i, few_neighbours n W i ->
  cc_bu n W i == 0 /\ cc_wu cbrt n W i == 0 /\ cc_wd cbrt n W i == 0 /\ (binary n W -> (i < n)%nat -> cc_bd n W i == 0).
Proof. exact (fun cbrt n W i H => Proofs.ClusteringSelfloop.few_zero_any_diagonal n W i H cbrt). Qed.

(* clustering_coef_wu_sign, all three coef types: exact zeros (the routine clears the diagonal itself) *)
Theorem C09_wu_sign_no_triangle_zero : forall cbrt n W i, (i < n)%nat -> no_triangle n (clear_diag W) i ->
  (cbrt_ok cbrt n (pospart (clear_diag W)) -> fst (cc_wu_sign_default cbrt n W i) == 0) /\
  (cbrt_ok cbrt n (negpart (clear_diag W)) -> snd (cc_wu_sign_default cbrt n W i) == 0) /\
  fst (cc_wu_sign_zhang n W i) == 0 /\ snd (cc_wu_sign_zhang n W i) == 0 /\
  cc_wu_sign_costantini n W i == 0.
Proof. exact wu_sign_no_triangle_zero. Qed.

Theorem C09_wu_sign_deg_lt2_zero : forall cbrt n W i, (i < n)%nat -> few_neighbours n (clear_diag W) i ->
  (cbrt_ok cbrt n (pospart (clear_diag W)) -> fst (cc_wu_sign_default cbrt n W i) == 0) /\
  (cbrt_ok cbrt n (negpart (clear_diag W)) -> snd (cc_wu_sign_default cbrt n W i) == 0) /\
  fst (cc_wu_sign_zhang n W i) == 0 /\ snd (cc_wu_sign_zhang n W i) == 0 /\
  cc_wu_sign_costantini n W i == 0.
Proof. exact wu_sign_deg_lt2_zero. Qed.

(* ---- range ---- *)
Theorem C09_range_01_bu : forall n A i, binary n A -> nodiag n A -> (i < n)%nat -> 0 <= cc_bu n A i <= 1.
Proof. exact range_01_bu. Qed.
Theorem C09_range_01_bd : forall n A i, binary n A -> nodiag n A -> (i < n)%nat -> 0 <= cc_bd n A i <= 1.
Proof. exact range_01_bd. Qed.
Theorem C09_range_01_wu : forall cbrt n W i,
  cbrt_ok cbrt n W -> unit_weights n W -> symmetric n W -> nodiag n W -> (i < n)%nat -> 0 <= cc_wu cbrt n W i <= 1.
Proof. exact range_01_wu. Qed.
Theorem C09_range_01_wd : forall cbrt n W i,
  cbrt_ok cbrt n W -> unit_weights n W -> nodiag n W -> (i < n)%nat -> 0 <= cc_wd cbrt n W i <= 1.
Proof. exact range_01_wd. Qed.
Theorem C09_range_01_wu_sign : forall cbrt n W i, signed_unit_weights n W -> symmetric n W -> (i < n)%nat ->
  (cbrt_ok cbrt n (pospart (clear_diag W)) -> 0 <= fst (cc_wu_sign_default cbrt n W i) <= 1) /\
  (cbrt_ok cbrt n (negpart (clear_diag W)) -> 0 <= snd (cc_wu_sign_default cbrt n W i) <= 1).
Proof. exact range_01_wu_sign. Qed.
(* coef_type='zhang': [0,1] on each sign; 'costantini': [-1,1]  (weights in [-1,1], any diagonal, no symmetry needed) *)
Theorem C09_range_01_zhang : forall n W i, signed_unit_weights n W -> (i < n)%nat ->
  0 <= fst (cc_wu_sign_zhang n W i) <= 1 /\ 0 <= snd (cc_wu_sign_zhang n W i) <= 1.
Proof. exact range_zhang. Qed.
Theorem C09_range_costantini : forall n W i, signed_unit_weights n W -> (i < n)%nat ->
  - (1) <= cc_wu_sign_costantini n W i <= 1.
Proof. exact range_costantini. Qed.
(* whenever a transitivity is a number (there is at least one connected triple) it lies in [0,1] *)
Theorem C09_range_01_trans : forall cbrt n W T,
  (binary n W -> symmetric n W -> nodiag n W -> trans_bu n W = Some T -> 0 <= T <= 1) /\
  (binary n W -> nodiag n W -> trans_bd n W = Some T -> 0 <= T <= 1) /\
  (cbrt_ok cbrt n W -> unit_weights n W -> symmetric n W -> nodiag n W -> trans_wu cbrt n W = Some T -> 0 <= T <= 1) /\
  (cbrt_ok cbrt n W -> unit_weights n W -> nodiag n W -> trans_wd cbrt n W = Some T -> 0 <= T <= 1).
Proof.
  intros cbrt n W T. split; [exact (range_trans_bu n W T)|]. split; [exact (range_trans_bd n W T)|].
  split; [exact (range_trans_wu cbrt n W T)|exact (range_trans_wd cbrt n W T)].
Qed.

(* on the property's domain no per-node quotient divides by zero: a nonzero (i.e. unmasked) numerator forces a
   strictly positive denominator, so the model's total division x/0 = 0 is never exercised there and the code
   cannot produce inf/nan (clustering_coef_bu divides only when k >= 2) *)
Theorem C09_no_division_by_zero : forall cbrt n W i, nodiag n W -> (i < n)%nat ->
  (binary n W -> ~ tri_dir n W i == 0 -> 0 < poss_dir n W i) /\
  (cbrt_ok cbrt n W -> unit_weights n W -> ~ tri_dir n (mmap cbrt W) i == 0 -> 0 < poss_dir n (mmap nzQ W) i) /\
  (cbrt_ok cbrt n W -> unit_weights n W -> symmetric n W -> ~ diag3 n (mmap cbrt W) i == 0 ->
     0 < kdeg n W i * (kdeg n W i - 1)).
Proof.
  intros cbrt n W i Hd Hi. split; [intros Hb; exact (no_div0_bd n W i Hb Hd Hi)|].
  split; [intros Hc Hu; exact (no_div0_wd cbrt n W i Hc Hu Hd Hi)|intros Hc Hu Hs; exact (no_div0_wu cbrt n W i Hc Hu Hs Hd Hi)].
Qed.

(* the same for clustering_coef_wu_sign 'zhang' (each sign) and 'costantini': ANY weights, any diagonal.
   [zh_cyc3] / [zh_cyc2] / [co_cyc2] are the loop accumulators cyc3 / cyc2 of the code; the quotient cyc3 / cyc2 is
   taken only where cyc3 <> 0 (elsewhere cyc2 is masked to inf), and there cyc2 > 0: no inf, no nan *)
Theorem C09_no_division_by_zero_sign : forall n W i, (i < n)%nat ->
  (~ zh_cyc3 n (pospart (clear_diag W)) i == 0 -> 0 < zh_cyc2 n (pospart (clear_diag W)) i) /\
  (~ zh_cyc3 n (negpart (clear_diag W)) i == 0 -> 0 < zh_cyc2 n (negpart (clear_diag W)) i) /\
  (~ zh_cyc3 n (clear_diag W) i == 0 -> 0 < co_cyc2 n (clear_diag W) i).
Proof. exact no_div0_sign. Qed.

(* ---- Fagiolo's formula as a COUNT (0/1 matrix, empty diagonal): [dir_triangles n A i] lists every (j, k, orientation)
   with j < k, both different from i, and one arc present on each of the sides i-j, j-k, k-i in the chosen directions
   (8 orientations per pair); [open_pairs n A i] lists the ordered pairs of arcs incident to i whose other endpoints
   differ.  The algebraic numerator / denominator of the routine are the lengths of these lists. ---- *)
Theorem C09_tri_dir_counts : forall n A i, binary n A -> nodiag n A -> (i < n)%nat ->
  tri_dir n A i == natq (length (dir_triangles n A i)) /\ poss_dir n A i == natq (length (open_pairs n A i)).
Proof. intros n A i Hb Hd Hi. split; [exact (tri_dir_counts n A i Hb Hd Hi)|exact (poss_dir_counts n A i Hb Hd Hi)]. Qed.

Theorem C09_cc_bd_counting : forall n A i, binary n A -> nodiag n A -> (i < n)%nat ->
  cc_bd n A i == (if Nat.eqb (length (dir_triangles n A i)) 0 then 0
                  else natq (length (dir_triangles n A i)) / natq (length (open_pairs n A i))).
Proof. exact cc_bd_counting. Qed.

(* weighted (clustering_coef_wd, transitivity_wd): the numerator is the sum over the same list of directed triangles
   (of the support of W) of the product of the cube roots of the three arc weights, i.e. (C09_cbrt_mul) of the
   geometric mean intensity (w1 w2 w3)^(1/3) of the published definition; the denominator is the count above on the
   adjacency mmap nzQ W *)
Theorem C09_tri_dir_weighted_enumeration : forall cbrt n W i, cbrt_ok cbrt n W -> nodiag n W -> (i < n)%nat ->
  tri_dir n (mmap cbrt W) i == sumG (intens cbrt W i) (dir_triangles n W i).
Proof. exact tri_dir_weighted_enumeration. Qed.

(* ---- non-vacuity: concrete inputs meet the hypotheses and the values are non-trivial ---- *)
Ltac bounded3 := let a := fresh "a" in let b := fresh "b" in let Ha := fresh in let Hb := fresh in
  intros a b Ha Hb;
  do 4 (destruct a as [|a]; [do 4 (destruct b as [|b]; [vm_compute; try tauto; try (split; discriminate) | ]); exfalso; lia | ]);
  exfalso; lia.

Example C09_nonvacuous_binary :
  let A := of_rows 0 [[0; 1; 1; 0]; [1; 0; 1; 0]; [1; 1; 0; 1]; [0; 0; 1; 0]]%list in
  binary 4 A /\ symmetric 4 A /\ nodiag 4 A /\
  cc_bu 4 A 2 == 1 # 3 /\ cc_bu 4 A 3 == 0 /\ trans_bu 4 A = Some (6 # 10).
Proof.
  cbv zeta. split; [bounded3|]. split; [bounded3|].
  split; [intros a Ha; do 4 (destruct a as [|a]; [vm_compute; reflexivity|]); exfalso; lia|].
  split; [vm_compute; reflexivity|]. split; vm_compute; reflexivity.
Qed.

(* the executable cube root is a cube root of every entry and of every triangle product of a matrix of cubes *)
Example C09_nonvacuous_cbrt :
  let W := of_rows 0 [[0; 27 # 512; 1 # 8]; [27 # 512; 0; 1]; [1 # 8; 1; 0]]%list in
  cbrt_ok cbrt_exact 3 W /\ cbrt_ok3 cbrt_exact 3 W /\ unit_weights 3 W /\ symmetric 3 W /\ nodiag 3 W /\
  cc_wu cbrt_exact 3 W 0 == 3 # 16.
Proof.
  cbv zeta. split; [|split; [|split; [|split; [|split]]]].
  - intros a b Ha Hb. do 3 (destruct a as [|a]; [do 3 (destruct b as [|b]; [vm_compute; reflexivity|]); exfalso; lia|]). exfalso; lia.
  - intros i j k Hi Hj Hk.
    do 3 (destruct i as [|i]; [do 3 (destruct j as [|j]; [do 3 (destruct k as [|k]; [vm_compute; reflexivity|]); exfalso; lia|]); exfalso; lia|]).
    exfalso; lia.
  - intros a b Ha Hb. do 3 (destruct a as [|a]; [do 3 (destruct b as [|b]; [vm_compute; split; discriminate|]); exfalso; lia|]). exfalso; lia.
  - intros a b Ha Hb. do 3 (destruct a as [|a]; [do 3 (destruct b as [|b]; [vm_compute; reflexivity|]); exfalso; lia|]). exfalso; lia.
  - intros a Ha. do 3 (destruct a as [|a]; [vm_compute; reflexivity|]). exfalso; lia.
  - vm_compute. reflexivity.
Qed.

(* negative cubes: the power is a cube root of the magnitudes, the code's cuberoot of the signed entries; a signed
   triangle gets a negative coefficient from clustering_coef_wu and 1 on the negative part of 'zhang' *)
Example C09_nonvacuous_signed :
  let W := of_rows 0 [[0; - (27 # 512); 1 # 8]; [- (27 # 512); 0; 1]; [1 # 8; 1; 0]]%list in
  pcbrt_ok cbrt_exact 3 W /\ signed_unit_weights 3 W /\
  cuberoot cbrt_exact (- (27 # 512)) == - (3 # 8) /\
  cc_wu (cuberoot cbrt_exact) 3 W 0 == - (3 # 16) /\
  - (1) <= cc_wu_sign_costantini 3 W 0 <= 1 /\ ~ cc_wu_sign_costantini 3 W 0 == 0.
Proof.
  cbv zeta. split; [|split; [|split; [|split; [|split]]]].
  - intros a b Ha Hb. do 3 (destruct a as [|a]; [do 3 (destruct b as [|b]; [vm_compute; reflexivity|]); exfalso; lia|]). exfalso; lia.
  - intros a b Ha Hb. do 3 (destruct a as [|a]; [do 3 (destruct b as [|b]; [vm_compute; split; discriminate|]); exfalso; lia|]). exfalso; lia.
  - vm_compute. reflexivity.
  - vm_compute. reflexivity.
  - vm_compute. split; discriminate.
  - vm_compute. discriminate.
Qed.

(* a directed 0/1 graph: node 0 lies on 2 directed triangles out of 4 possible ones *)
Example C09_nonvacuous_counting :
  let A := of_rows 0 [[0; 1; 1]; [1; 0; 1]; [0; 0; 0]]%list in
  binary 3 A /\ nodiag 3 A /\ length (dir_triangles 3 A 0) = 2%nat /\ length (open_pairs 3 A 0) = 4%nat /\ cc_bd 3 A 0 == 1 # 2.
Proof.
  cbv zeta. split; [|split; [|split; [|split]]].
  - intros a b Ha Hb. do 3 (destruct a as [|a]; [do 3 (destruct b as [|b]; [vm_compute; tauto|]); exfalso; lia|]). exfalso; lia.
  - intros a Ha. do 3 (destruct a as [|a]; [vm_compute; reflexivity|]). exfalso; lia.
  - vm_compute. reflexivity.
  - vm_compute. reflexivity.
  - vm_compute. reflexivity.
Qed.

Print Assumptions C09_diag_cube_is_triples.
Print Assumptions C09_cbrt_laws.
Print Assumptions C09_cbrt_mul.
Print Assumptions C09_cc_bu_def.
Print Assumptions C09_cc_bd_fagiolo.
Print Assumptions C09_cc_wu_onnela.
Print Assumptions C09_cc_wd_def.
Print Assumptions C09_cc_wu_sign_def.
Print Assumptions C09_cc_zhang_def.
Print Assumptions C09_cc_costantini_def.
Print Assumptions C09_trans_bu_def.
Print Assumptions C09_trans_bd_def.
Print Assumptions C09_trans_wu_def.
Print Assumptions C09_trans_wd_def.
Print Assumptions C09_no_triangle_zero.
Print Assumptions C09_deg_lt2_zero.
Print Assumptions C09_range_01_bu.
Print Assumptions C09_range_01_bd.
Print Assumptions C09_range_01_wu.
Print Assumptions C09_range_01_wd.
Print Assumptions C09_range_01_wu_sign.
Print Assumptions C09_range_01_trans.
Print Assumptions C09_no_division_by_zero.
Print Assumptions C09_cuberoot_is_cube_root.
Print Assumptions C09_cuberoot_odd.
Print Assumptions C09_wu_sign_code.
Print Assumptions C09_wu_sign_no_triangle_zero.
Print Assumptions C09_wu_sign_deg_lt2_zero.
Print Assumptions C09_range_01_zhang.
Print Assumptions C09_range_costantini.
Print Assumptions C09_no_division_by_zero_sign.
Print Assumptions C09_tri_dir_counts.
Print Assumptions C09_cc_bd_counting.
Print Assumptions C09_tri_dir_weighted_enumeration.
Print Assumptions C09_deg_lt2_zero_any_diagonal.
