(* Properties/C10.v — weighted routines reduce to binary ones on 0/1 input, directed ones to undirected
   ones on symmetric input.  PROVED here: the pairs among the models of Model/Clustering.v
   (the clustering_coef, transitivity, degrees and strengths families).  The pairs distance_wei/bin,
   betweenness_wei/bin, edge_betweenness_wei/bin, efficiency_wei/bin, assortativity_wei/bin and the
   "ignores weights" routines other than the degrees family are covered by the differential harness only
   (harness/c10.py): tested, not proved.
   Only statements; every proof is `exact <lemma of Proofs/ClusteringReduce.v>`.
   [cbrt] is any function returning a cube root of the matrix entries (cbrt_ok); the extracted model's
   cbrt_exact meets this on every 0/1 matrix (C10_cbrt_exact_ok_binary). *)
From Coq Require Import QArith Qabs List Arith Bool ZArith Lia.
From BCT Require Import Base.Mat Base.SumQ Model.Threshold Model.Clustering
  Proofs.ClusteringSpec Proofs.Clustering Proofs.ClusteringReduce.
Import ListNotations.
Open Scope Q_scope.

(* ---- 0/1 input: weighted = binary ---- *)
Theorem C10_cc_wu_bin_eq_bu : forall cbrt n A i,
  cbrt_ok cbrt n A -> binary n A -> symmetric n A -> nodiag n A -> (i < n)%nat -> cc_wu cbrt n A i == cc_bu n A i.
Proof. exact cc_wu_bin_eq_bu. Qed.
Theorem C10_cc_wd_bin_eq_bd : forall cbrt n A i,
  cbrt_ok cbrt n A -> binary n A -> (i < n)%nat -> cc_wd cbrt n A i == cc_bd n A i.
Proof. exact cc_wd_bin_eq_bd. Qed.
Theorem C10_trans_wu_bin_eq_bu : forall cbrt n A,
  cbrt_ok cbrt n A -> binary n A -> symmetric n A -> oeq (trans_wu cbrt n A) (trans_bu n A).
Proof. exact trans_wu_bin_eq_bu. Qed.
Theorem C10_trans_wd_bin_eq_bd : forall cbrt n A,
  cbrt_ok cbrt n A -> binary n A -> oeq (trans_wd cbrt n A) (trans_bd n A).
Proof. exact trans_wd_bin_eq_bd. Qed.

(* ---- symmetric input: directed = undirected ---- *)
Theorem C10_cc_bd_sym_eq_bu : forall n A i,
  binary n A -> symmetric n A -> nodiag n A -> (i < n)%nat -> cc_bd n A i == cc_bu n A i.
Proof. exact cc_bd_sym_eq_bu. Qed.
Theorem C10_cc_wd_sym_eq_wu : forall cbrt n W i,
  cbrt_ok cbrt n W -> symmetric n W -> (i < n)%nat -> cc_wd cbrt n W i == cc_wu cbrt n W i.
Proof. exact cc_wd_sym_eq_wu. Qed.
Theorem C10_trans_bd_sym_eq_bu : forall n A, binary n A -> symmetric n A -> oeq (trans_bd n A) (trans_bu n A).
Proof. exact trans_bd_sym_eq_bu. Qed.
Theorem C10_trans_wd_sym_eq_wu : forall cbrt n W,
  cbrt_ok cbrt n W -> symmetric n W -> oeq (trans_wd cbrt n W) (trans_wu cbrt n W).
Proof. exact trans_wd_sym_eq_wu. Qed.

(* the hypothesis on cbrt is met by the executable cube root on every 0/1 matrix *)
Theorem C10_cbrt_exact_ok_binary : forall n A, binary n A -> cbrt_ok cbrt_exact n A.
Proof. exact cbrt_exact_ok_binary. Qed.

(* ---- degree.py ---- *)
Theorem C10_strengths_bin_eq_degrees : forall n A v, binary n A -> (v < n)%nat ->
  strengths_und n A v == degrees_und n A v /\ strengths_dir n A v == snd (degrees_dir n A v).
Proof. exact strengths_bin_eq_degrees. Qed.
Theorem C10_in_out_deg_sym : forall n A v, symmetric n A -> (v < n)%nat ->
  let '(id, od, deg) := degrees_dir n A v in
  id == degrees_und n A v /\ od == degrees_und n A v /\ deg == 2 * degrees_und n A v.
Proof. exact in_out_deg_sym. Qed.
Theorem C10_degrees_ignore_weights : forall n W v,
  degrees_und n W v == degrees_und n (binarize W) v /\
  fst (fst (degrees_dir n W v)) == fst (fst (degrees_dir n (binarize W) v)) /\
  snd (fst (degrees_dir n W v)) == snd (fst (degrees_dir n (binarize W) v)) /\
  snd (degrees_dir n W v) == snd (degrees_dir n (binarize W) v).
Proof. exact degrees_ignore_weights. Qed.

(* ---- non-vacuity ---- *)
Example C10_nonvacuous :
  let A := of_rows 0 [[0; 1; 1; 0]; [1; 0; 1; 0]; [1; 1; 0; 1]; [0; 0; 1; 0]]%list in
  binary 4 A /\ symmetric 4 A /\ nodiag 4 A /\ cbrt_ok cbrt_exact 4 A /\
  cc_wd cbrt_exact 4 A 2 == 1 # 3 /\ cc_bu 4 A 2 == 1 # 3 /\ degrees_und 4 A 2 == 3.
Proof.
  cbv zeta.
  assert (Hb : binary 4 (of_rows 0 [[0; 1; 1; 0]; [1; 0; 1; 0]; [1; 1; 0; 1]; [0; 0; 1; 0]]%list)).
  { intros a b Ha Hb. do 4 (destruct a as [|a]; [do 4 (destruct b as [|b]; [vm_compute; tauto|]); exfalso; lia|]). exfalso; lia. }
  split; [exact Hb|]. split.
  { intros a b Ha Hb'. do 4 (destruct a as [|a]; [do 4 (destruct b as [|b]; [vm_compute; reflexivity|]); exfalso; lia|]). exfalso; lia. }
  split.
  { intros a Ha. do 4 (destruct a as [|a]; [vm_compute; reflexivity|]). exfalso; lia. }
  split; [apply cbrt_exact_ok_binary; exact Hb|]. split; [vm_compute; reflexivity|]. split; vm_compute; reflexivity.
Qed.

Print Assumptions C10_cc_wu_bin_eq_bu.
Print Assumptions C10_cc_wd_bin_eq_bd.
Print Assumptions C10_trans_wu_bin_eq_bu.
Print Assumptions C10_trans_wd_bin_eq_bd.
Print Assumptions C10_cc_bd_sym_eq_bu.
Print Assumptions C10_cc_wd_sym_eq_wu.
Print Assumptions C10_trans_bd_sym_eq_bu.
Print Assumptions C10_trans_wd_sym_eq_wu.
Print Assumptions C10_cbrt_exact_ok_binary.
Print Assumptions C10_strengths_bin_eq_degrees.
Print Assumptions C10_in_out_deg_sym.
Print Assumptions C10_degrees_ignore_weights.
