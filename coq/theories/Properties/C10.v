(* Properties/C10.v — weighted routines reduce to binary ones on 0/1 input, directed ones to undirected
   ones on symmetric input, routines documented to ignore weights return the same on W and binarize(W).
   PROVED here, between executable models each tied to the code by correspondence:
   clustering_coef / transitivity / degrees / strengths (Model/Clustering.v), distance_wei/distance_bin and
   efficiency_wei/efficiency_bin global (Model/Distance.v, C03's models) and local (Model/EfficiencyLocal.v),
   assortativity_wei/assortativity_bin (Model/Assortativity.v), and the "ignores weights" clause for degrees_*,
   assortativity_bin, density_*, jdegree, edge_nei_overlap_* (Model/IgnoreWeights.v), findwalks, reachdist,
   distance_bin, efficiency_bin.  NOT proved here: betweenness_wei/bin and edge_betweenness_wei/bin
   (models belong to C08; differential test only, harness/c10.py); findpaths raises on every call.
   Only statements; every proof is `exact <lemma of Proofs/ClusteringReduce.v / Proofs/Reduce*.v>`.
   [cbrt] is any function returning a cube root of the matrix entries (cbrt_ok); the extracted model's
   cbrt_exact meets this on every 0/1 matrix (C10_cbrt_exact_ok_binary). *)
From Coq Require Import QArith Qabs List Arith Bool ZArith Lia.
From BCT Require Import Base.Mat Base.SumQ Model.Threshold Model.Clustering
  Proofs.ClusteringSpec Proofs.Clustering Proofs.ClusteringReduce.
From BCT Require Model.Distance Model.EfficiencyLocal Model.Assortativity Model.IgnoreWeights Model.Walks
  Proofs.DistanceBase Proofs.ReduceDistance Proofs.ReduceEfficiencyLocal Proofs.ReduceAssortativity
  Proofs.ReduceTotal Proofs.ReduceIgnore.
Import ListNotations.
Open Scope Q_scope.

(* ---- 0/1 input: weighted = binary ---- *)
Theorem C10_cc_wu_bin_eq_bu : forall cbrt n A i,
  cbrt_ok cbrt n A -> binary n A -> symmetric n A -> nodiag n A -> (i < n)%nat -> cc_wu cbrt n A i == cc_bu n A i.
Proof. exact cc_wu_bin_eq_bu. Qed.
Theorem C10_cc_wd_bin_eq_bd : forall cbrt n A i,
  cbrt_ok cbrt n A -> binary n A -> (i < n)%nat -> cc_wd cbrt n A i == cc_bd n A i.
Proof. exact cc_wd_bin_eq_bd. Qed.
Theorem C10_trans_wu_bin_eq_bu : forall cbrt n A,
  cbrt_ok cbrt n A -> binary n A -> symmetric n A -> oeq (trans_wu cbrt n A) (trans_bu n A).
Proof. exact trans_wu_bin_eq_bu. Qed.
Theorem C10_trans_wd_bin_eq_bd : forall cbrt n A,
  cbrt_ok cbrt n A -> binary n A -> oeq (trans_wd cbrt n A) (trans_bd n A).
Proof. exact trans_wd_bin_eq_bd. Qed.

(* ---- symmetric input: directed = undirected ---- *)
Theorem C10_cc_bd_sym_eq_bu : forall n A i,
  binary n A -> symmetric n A -> nodiag n A -> (i < n)%nat -> cc_bd n A i == cc_bu n A i.
Proof. exact cc_bd_sym_eq_bu. Qed.
Theorem C10_cc_wd_sym_eq_wu : forall cbrt n W i,
  cbrt_ok cbrt n W -> symmetric n W -> (i < n)%nat -> cc_wd cbrt n W i == cc_wu cbrt n W i.
Proof. exact cc_wd_sym_eq_wu. Qed.
Theorem C10_trans_bd_sym_eq_bu : forall n A, binary n A -> symmetric n A -> oeq (trans_bd n A) (trans_bu n A).
Proof. exact trans_bd_sym_eq_bu. Qed.
Theorem C10_trans_wd_sym_eq_wu : forall cbrt n W,
  cbrt_ok cbrt n W -> symmetric n W -> oeq (trans_wd cbrt n W) (trans_wu cbrt n W).
Proof. exact trans_wd_sym_eq_wu. Qed.

(* the hypothesis on cbrt is met by the executable cube root on every 0/1 matrix *)
Theorem C10_cbrt_exact_ok_binary : forall n A, binary n A -> cbrt_ok cbrt_exact n A.
Proof. exact cbrt_exact_ok_binary. Qed.

(* ---- degree.py ---- *)
Theorem C10_strengths_bin_eq_degrees : forall n A v, binary n A -> (v < n)%nat ->
  strengths_und n A v == degrees_und n A v /\ strengths_dir n A v == snd (degrees_dir n A v).
Proof. exact strengths_bin_eq_degrees. Qed.
Theorem C10_in_out_deg_sym : forall n A v, symmetric n A -> (v < n)%nat ->
  let '(id, od, deg) := degrees_dir n A v in
  id == degrees_und n A v /\ od == degrees_und n A v /\ deg == 2 * degrees_und n A v.
Proof. exact in_out_deg_sym. Qed.
Theorem C10_degrees_ignore_weights : forall n W v,
  degrees_und n W v == degrees_und n (binarize W) v /\
  fst (fst (degrees_dir n W v)) == fst (fst (degrees_dir n (binarize W) v)) /\
  snd (fst (degrees_dir n W v)) == snd (fst (degrees_dir n (binarize W) v)) /\
  snd (degrees_dir n W v) == snd (degrees_dir n (binarize W) v).
Proof. exact degrees_ignore_weights. Qed.


(* ---- distance.py / efficiency.py: weighted = binary on 0/1 input ----
   [rel01 n A W]: A (integer entries, input of the binary routines' models) and W (rational entries, input of
   the weighted routines' models) are the same 0/1 matrix.  The models are those of Model/Distance.v (tied to
   the code by C03) and Model/EfficiencyLocal.v.  Their fuelled loops always return (totality, C03), so the
   statements are unconditional: both routines return and the results agree.  Lengths are option Q
   (None = inf), [DistanceBase.oeq] = inf with inf, finite values equal; diagonal included. *)
Import Model.Distance Model.EfficiencyLocal Model.Assortativity Model.IgnoreWeights.
Import Proofs.ReduceDistance Proofs.ReduceEfficiencyLocal Proofs.ReduceAssortativity Proofs.ReduceTotal Proofs.ReduceIgnore.

Theorem C10_distance_wei_bin_eq_bin : forall n A W, rel01 n A W ->
  exists D B D', distance_wei n W = Some (D, B) /\ distance_bin n A = Some D' /\
    forall i j, (i < n)%nat -> (j < n)%nat ->
      DistanceBase.oeq (D i j) (olen_of_nat (D' i j)) /\      (* the distance matrices agree entrywise *)
      (forall k, D' i j = Some k -> B i j = k).               (* and so does the hop-count matrix where finite *)
Proof. exact distance_wei_bin_total. Qed.

(* global efficiency: nan = nan (n < 2), finite values equal *)
Theorem C10_efficiency_wei_bin_eq_bin : forall n A W, rel01 n A W ->
  exists ew eb, efficiency_wei n W = Some ew /\ efficiency_bin n A = Some eb /\ ext_eq ew eb.
Proof. exact efficiency_wei_bin_total. Qed.

(* local=True: the returned vectors.  cuberoot is any function that is a cube root of the entries of W and of
   invert(W) (cbrt_ok); the executable cbrt_exact is one on every 0/1 matrix (second theorem). *)
Theorem C10_efficiency_local_wei_bin_eq_bin : forall cbrt n A W,
  rel01 n A W -> cbrt_ok cbrt n W -> cbrt_ok cbrt n (invertQ W) ->
  exists lw lb, efficiency_wei_local cbrt n W = Some lw /\ efficiency_bin_local n A = Some lb /\
    length lw = n /\ length lb = n /\ forall u, (u < n)%nat -> nth u lw 0 == nth u lb 0.
Proof. exact efficiency_local_wei_bin_total. Qed.

Theorem C10_efficiency_local_cbrt_exact : forall n A W, rel01 n A W ->
  exists lw lb, efficiency_wei_local cbrt_exact n W = Some lw /\ efficiency_bin_local n A = Some lb /\
    length lw = n /\ length lb = n /\ forall u, (u < n)%nat -> nth u lw 0 == nth u lb 0.
Proof.
  intros n A W H. destruct (rel01_binary n A W H) as [H1 H2].
  exact (efficiency_local_wei_bin_total cbrt_exact n A W H (cbrt_exact_ok_binary n W H1) (cbrt_exact_ok_binary n _ H2)).
Qed.

(* ---- core.py: assortativity_wei = assortativity_bin on 0/1 input, every flag (0 = undirected) ----
   no square root in the code: equality of the rational expressions; None = non-finite float on both sides *)
Theorem C10_assortativity_wei_bin_eq_bin : forall n A flag, binary n A ->
  oeq (assortativity_wei n A flag) (assortativity_bin n A flag).
Proof. exact assortativity_wei_bin_eq_bin. Qed.

(* documented "all connection weights are ignored": every weight, negative ones included (edge list `!= 0`, after the
   repair of the defect this check found: with `> 0` a negative weight changed the result) *)
Theorem C10_assortativity_bin_ignores_weights : forall n W flag,
  oeq (assortativity_bin n W flag) (assortativity_bin n (binarize W) flag).
Proof. exact assortativity_bin_ignores_weights. Qed.

(* ---- the other routines documented "weights are ignored / discarded": f(W) = f(binarize(W)) ----
   (degrees_und/degrees_dir: C10_degrees_ignore_weights above; findpaths raises on every call: known finding) *)
Theorem C10_density_ignores_weights : forall n W,
  density_dir n (binarize W) = density_dir n W /\ density_und n (binarize W) = density_und n W.
Proof. intros n W. exact (conj (density_dir_ignores_weights n W) (density_und_ignores_weights n W)). Qed.

Theorem C10_jdegree_ignores_weights : forall n W,
  let r := jdegree n W in let r' := jdegree n (binarize W) in
  j_sz r = j_sz r' /\ (forall a b, j_J r a b = j_J r' a b) /\ j_od r = j_od r' /\ j_id r = j_id r' /\ j_bl r = j_bl r'.
Proof. exact jdegree_ignores_weights. Qed.

(* [enov_eq]: both raise (ZeroDivisionError) or both return the same edges in the same order with equal
   overlaps and equal degree pairs *)
Theorem C10_edge_nei_overlap_ignores_weights : forall n W,
  enov_eq (edge_nei_overlap_bd n W) (edge_nei_overlap_bd n (binarize W)) /\
  enov_eq (edge_nei_overlap_bu n W) (edge_nei_overlap_bu n (binarize W)).
Proof. intros n W. exact (conj (edge_nei_overlap_bd_ignores_weights n W) (edge_nei_overlap_bu_ignores_weights n W)). Qed.

(* the integer-input models of findwalks (C18), reachdist, distance_bin, efficiency_bin (C03): equal results,
   Leibniz equality of the whole return value *)
Theorem C10_findwalks_reachdist_ignore_weights : forall n A,
  Walks.findwalks n (Walks.binz A) = Walks.findwalks n A /\ reachdist n (bin A) = reachdist n A.
Proof. intros n A. exact (conj (findwalks_ignores_weights n A) (reachdist_ignores_weights n A)). Qed.

Theorem C10_distance_efficiency_bin_ignore_weights : forall n A,
  distance_bin n (bin A) = distance_bin n A /\ efficiency_bin n (bin A) = efficiency_bin n A /\
  efficiency_bin_local n (bin A) = efficiency_bin_local n A.
Proof.
  intros n A. exact (conj (distance_bin_ignores_weights n A) (efficiency_bin_ignores_weights n A)).
Qed.

(* ---- non-vacuity ---- *)
Example C10_nonvacuous :
  let A := of_rows 0 [[0; 1; 1; 0]; [1; 0; 1; 0]; [1; 1; 0; 1]; [0; 0; 1; 0]]%list in
  binary 4 A /\ symmetric 4 A /\ nodiag 4 A /\ cbrt_ok cbrt_exact 4 A /\
  cc_wd cbrt_exact 4 A 2 == 1 # 3 /\ cc_bu 4 A 2 == 1 # 3 /\ degrees_und 4 A 2 == 3.
Proof.
  cbv zeta.
  assert (Hb : binary 4 (of_rows 0 [[0; 1; 1; 0]; [1; 0; 1; 0]; [1; 1; 0; 1]; [0; 0; 1; 0]]%list)).
  { intros a b Ha Hb. do 4 (destruct a as [|a]; [do 4 (destruct b as [|b]; [vm_compute; tauto|]); exfalso; lia|]). exfalso; lia. }
  split; [exact Hb|]. split.
  { intros a b Ha Hb'. do 4 (destruct a as [|a]; [do 4 (destruct b as [|b]; [vm_compute; reflexivity|]); exfalso; lia|]). exfalso; lia. }
  split.
  { intros a Ha. do 4 (destruct a as [|a]; [vm_compute; reflexivity|]). exfalso; lia. }
  split; [apply cbrt_exact_ok_binary; exact Hb|]. split; [vm_compute; reflexivity|]. split; vm_compute; reflexivity.
Qed.

(* a directed 0/1 graph with an unreachable pair: both distance routines return, inf at (2,0), 2 at (0,2);
   the efficiencies and assortativities are finite and non-trivial *)
Example C10_distance_nonvacuous :
  let A := of_rows 0%Z [[0; 1; 0]; [0; 0; 1]; [0; 0; 0]]%Z%list in
  let W := of_rows 0 [[0; 1; 0]; [0; 0; 1]; [0; 0; 0]]%list in
  rel01 3 A W /\
  (exists D B D', distance_wei 3 W = Some (D, B) /\ distance_bin 3 A = Some D' /\
     D' 0%nat 2%nat = Some 2%nat /\ D' 2%nat 0%nat = None /\ B 0%nat 2%nat = 2%nat) /\
  (exists e, efficiency_bin 3 A = Some (EFin e) /\ e == 5 # 12) /\
  (exists e, efficiency_wei 3 W = Some (EFin e) /\ e == 5 # 12).
Proof.
  cbv zeta. split.
  { intros a b Ha Hb. do 3 (destruct a as [|a]; [do 3 (destruct b as [|b]; [vm_compute; tauto|]); exfalso; lia|]). exfalso; lia. }
  split.
  { destruct (distance_wei 3 (of_rows 0 [[0; 1; 0]; [0; 0; 1]; [0; 0; 0]]%list)) as [[D B]|] eqn:E1; [|vm_compute in E1; discriminate].
    destruct (distance_bin 3 (of_rows 0%Z [[0; 1; 0]; [0; 0; 1]; [0; 0; 0]]%Z%list)) as [D'|] eqn:E2; [|vm_compute in E2; discriminate].
    exists D, B, D'. split; [reflexivity|]. split; [reflexivity|].
    vm_compute in E1. vm_compute in E2. injection E1 as <- <-. injection E2 as <-. vm_compute. auto. }
  split; eexists; (split; [vm_compute; reflexivity|vm_compute; reflexivity]).
Qed.

Example C10_local_assort_nonvacuous :
  let A := of_rows 0%Z [[0; 1; 1; 0]; [1; 0; 1; 0]; [1; 1; 0; 1]; [0; 0; 1; 0]]%Z%list in
  let W := of_rows 0 [[0; 1; 1; 0]; [1; 0; 1; 0]; [1; 1; 0; 1]; [0; 0; 1; 0]]%list in
  rel01 4 A W /\ binary 4 W /\
  (exists lb, efficiency_bin_local 4 A = Some lb /\ nth 2 lb 0 == 1 # 3) /\
  (exists lw, efficiency_wei_local cbrt_exact 4 W = Some lw /\ nth 2 lw 0 == 1 # 3) /\
  (exists r, assortativity_bin 4 W 0 = Some r /\ r == - (5 # 7)) /\
  (exists r, assortativity_bin 4 (fun i j => (3 # 8) * W i j) 0 = Some r /\ r == - (5 # 7)).
Proof.
  cbv zeta. split.
  { intros a b Ha Hb. do 4 (destruct a as [|a]; [do 4 (destruct b as [|b]; [vm_compute; tauto|]); exfalso; lia|]). exfalso; lia. }
  split.
  { intros a b Ha Hb. do 4 (destruct a as [|a]; [do 4 (destruct b as [|b]; [vm_compute; tauto|]); exfalso; lia|]). exfalso; lia. }
  repeat split; eexists; (split; [vm_compute; reflexivity|vm_compute; reflexivity]).
Qed.

(* a weighted directed matrix and a weighted triangle: the weight-ignoring routines return non-trivial values *)
Example C10_ignore_nonvacuous :
  let W := of_rows 0 [[0; 3 # 8; 0]; [1; 0; 5 # 2]; [0; 0; 0]]%list in
  let T := of_rows 0 [[0; 3 # 8; 5 # 2]; [3 # 8; 0; 1 # 8]; [5 # 2; 1 # 8; 0]]%list in
  density_dir 3 W = (Some (3 / 6), 3%nat) /\ j_od (jdegree 3 W) = 1%Z /\ j_sz (jdegree 3 W) = 3%nat /\
  (exists l, edge_nei_overlap_bu 3 T = Some l /\ length l = 6%nat /\ Forall (fun r => snd (fst r) == 1) l) /\
  edge_nei_overlap_bd 2 (of_rows 0 [[0; 2]; [0; 0]]%list) = None.
Proof.
  cbv zeta. split; [vm_compute; reflexivity|]. split; [vm_compute; reflexivity|]. split; [vm_compute; reflexivity|].
  split; [|vm_compute; reflexivity].
  eexists. split; [vm_compute; reflexivity|]. split; [reflexivity|]. repeat constructor.
Qed.

Print Assumptions C10_cc_wu_bin_eq_bu.
Print Assumptions C10_cc_wd_bin_eq_bd.
Print Assumptions C10_trans_wu_bin_eq_bu.
Print Assumptions C10_trans_wd_bin_eq_bd.
Print Assumptions C10_cc_bd_sym_eq_bu.
Print Assumptions C10_cc_wd_sym_eq_wu.
Print Assumptions C10_trans_bd_sym_eq_bu.
Print Assumptions C10_trans_wd_sym_eq_wu.
Print Assumptions C10_cbrt_exact_ok_binary.
Print Assumptions C10_strengths_bin_eq_degrees.
Print Assumptions C10_in_out_deg_sym.
Print Assumptions C10_degrees_ignore_weights.
Print Assumptions C10_distance_wei_bin_eq_bin.
Print Assumptions C10_efficiency_wei_bin_eq_bin.
Print Assumptions C10_efficiency_local_wei_bin_eq_bin.
Print Assumptions C10_efficiency_local_cbrt_exact.
Print Assumptions C10_assortativity_wei_bin_eq_bin.
Print Assumptions C10_assortativity_bin_ignores_weights.
Print Assumptions C10_density_ignores_weights.
Print Assumptions C10_jdegree_ignores_weights.
Print Assumptions C10_edge_nei_overlap_ignores_weights.
Print Assumptions C10_findwalks_reachdist_ignore_weights.
Print Assumptions C10_distance_efficiency_bin_ignore_weights.
