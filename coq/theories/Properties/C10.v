(* Properties/C10.v — weighted routines reduce to binary ones on 0/1 input, directed ones to undirected
   ones on symmetric input, routines documented to ignore weights return the same on W and binarize(W).
   PROVED here, between executable models each tied to the code by correspondence:
   clustering_coef / transitivity / degrees / strengths (Model/Clustering.v), distance_wei/distance_bin and
   efficiency_wei/efficiency_bin global (Model/Distance.v, C03's models) and local (Model/EfficiencyLocal.v),
   betweenness_wei/bin and edge_betweenness_wei/bin (Model/Between.v, C08's models: re-export of C08's theorem),
   assortativity_wei/assortativity_bin (Model/Assortativity.v), and the "ignores weights" clause for degrees_*,
   assortativity_bin, density_*, jdegree, edge_nei_overlap_* (Model/IgnoreWeights.v), findwalks, reachdist,
   distance_bin, efficiency_bin.  Every pair named in the property text is a theorem; findpaths raises on every call.
   SELF-CONNECTIONS: no theorem carries a hypothesis on the diagonal.  (Before the repair 366dab6 of
   clustering_coef_wu/_bd/_wd the pairs wu/bu and bd/bu needed [nodiag] and were refuted without it — inf against 0 at
   node 1 of [[1,1],[1,0]]; Model/ClusteringInf.v, the statement-level model with the visible quotient, now proves that
   no routine ever returns inf: C10_cc_visible_quotient, C10_cc_any_diagonal.)
   Only statements; every proof is `exact <lemma of Proofs/ClusteringReduce.v / Proofs/Reduce*.v>`.
   [cbrt] is any function returning a cube root of the matrix entries (cbrt_ok); the extracted model's
   cbrt_exact meets this on every 0/1 matrix (C10_cbrt_exact_ok_binary). *)
From Coq Require Import QArith Qabs List Arith Bool ZArith Lia.
From BCT Require Import Base.Mat Base.SumQ Model.Threshold Model.Clustering
  Proofs.ClusteringSpec Proofs.Clustering Proofs.ClusteringReduce.
From BCT Require Model.Distance Model.EfficiencyLocal Model.Assortativity Model.IgnoreWeights Model.Walks
  Proofs.DistanceBase Proofs.ReduceDistance Proofs.ReduceEfficiencyLocal Proofs.ReduceAssortativity
  Proofs.ReduceTotal Proofs.ReduceIgnore.
From BCT Require Model.ClusteringInf Proofs.ReduceSelfloop Proofs.ReduceElocDiv Proofs.ReduceBinFirst.
From BCT Require Model.Between Proofs.BetweenPow.
Import ListNotations.
Open Scope Q_scope.

(* ---- 0/1 input: weighted = binary ---- *)
Theorem C10_cc_wu_bin_eq_bu : forall cbrt n A i,
  cbrt_ok cbrt n A -> binary n A -> symmetric n A -> (i < n)%nat -> cc_wu cbrt n A i == cc_bu n A i.   (* any diagonal *)
Proof. exact Proofs.ReduceSelfloop.cc_wu_bin_eq_bu_anydiag. Qed.
Theorem C10_cc_wd_bin_eq_bd : forall cbrt n A i,
  cbrt_ok cbrt n A -> binary n A -> (i < n)%nat -> cc_wd cbrt n A i == cc_bd n A i.
Proof. exact cc_wd_bin_eq_bd. Qed.
Theorem C10_trans_wu_bin_eq_bu : forall cbrt n A,
  cbrt_ok cbrt n A -> binary n A -> symmetric n A -> oeq (trans_wu cbrt n A) (trans_bu n A).
Proof. exact trans_wu_bin_eq_bu. Qed.
Theorem C10_trans_wd_bin_eq_bd : forall cbrt n A,
  cbrt_ok cbrt n A -> binary n A -> oeq (trans_wd cbrt n A) (trans_bd n A).
Proof. exact trans_wd_bin_eq_bd. Qed.

(* ---- symmetric input: directed = undirected ---- *)
Theorem C10_cc_bd_sym_eq_bu : forall n A i,
  binary n A -> symmetric n A -> (i < n)%nat -> cc_bd n A i == cc_bu n A i.                              (* any diagonal *)
Proof. exact Proofs.ReduceSelfloop.cc_bd_sym_eq_bu_anydiag. Qed.
Theorem C10_cc_wd_sym_eq_wu : forall cbrt n W i,
  cbrt_ok cbrt n W -> symmetric n W -> (i < n)%nat -> cc_wd cbrt n W i == cc_wu cbrt n W i.
Proof. exact cc_wd_sym_eq_wu. Qed.
Theorem C10_trans_bd_sym_eq_bu : forall n A, binary n A -> symmetric n A -> oeq (trans_bd n A) (trans_bu n A).
Proof. exact trans_bd_sym_eq_bu. Qed.
Theorem C10_trans_wd_sym_eq_wu : forall cbrt n W,
  cbrt_ok cbrt n W -> symmetric n W -> oeq (trans_wd cbrt n W) (trans_wu cbrt n W).
Proof. exact trans_wd_sym_eq_wu. Qed.

(* the hypothesis on cbrt is met by the executable cube root on every 0/1 matrix *)
Theorem C10_cbrt_exact_ok_binary : forall n A, binary n A -> cbrt_ok cbrt_exact n A.
Proof. exact cbrt_exact_ok_binary. Qed.

(* ---- degree.py ---- *)
Theorem C10_strengths_bin_eq_degrees : forall n A v, binary n A -> (v < n)%nat ->
  strengths_und n A v == degrees_und n A v /\ strengths_dir n A v == snd (degrees_dir n A v).
Proof. exact strengths_bin_eq_degrees. Qed.
Theorem C10_in_out_deg_sym : forall n A v, symmetric n A -> (v < n)%nat ->
  let '(id, od, deg) := degrees_dir n A v in
  id == degrees_und n A v /\ od == degrees_und n A v /\ deg == 2 * degrees_und n A v.
Proof. exact in_out_deg_sym. Qed.
Theorem C10_degrees_ignore_weights : forall n W v,
  degrees_und n W v == degrees_und n (binarize W) v /\
  fst (fst (degrees_dir n W v)) == fst (fst (degrees_dir n (binarize W) v)) /\
  snd (fst (degrees_dir n W v)) == snd (fst (degrees_dir n (binarize W) v)) /\
  snd (degrees_dir n W v) == snd (degrees_dir n (binarize W) v).
Proof. exact degrees_ignore_weights. Qed.


(* ---- distance.py / efficiency.py: weighted = binary on 0/1 input ----
   [rel01 n A W]: A (integer entries, input of the binary routines' models) and W (rational entries, input of
   the weighted routines' models) are the same 0/1 matrix.  The models are those of Model/Distance.v (tied to
   the code by C03) and Model/EfficiencyLocal.v.  Their fuelled loops always return (totality, C03), so the
   statements are unconditional: both routines return and the results agree.  Lengths are option Q
   (None = inf), [DistanceBase.oeq] = inf with inf, finite values equal; diagonal included. *)
Import Model.Distance Model.EfficiencyLocal Model.Assortativity Model.IgnoreWeights.
Import Proofs.ReduceDistance Proofs.ReduceEfficiencyLocal Proofs.ReduceAssortativity Proofs.ReduceTotal Proofs.ReduceIgnore.

Theorem C10_distance_wei_bin_eq_bin : forall n A W, rel01 n A W ->
  exists D B D', distance_wei n W = Some (D, B) /\ distance_bin n A = Some D' /\
    forall i j, (i < n)%nat -> (j < n)%nat ->
      DistanceBase.oeq (D i j) (olen_of_nat (D' i j)) /\      (* the distance matrices agree entrywise *)
      (forall k, D' i j = Some k -> B i j = k).               (* and so does the hop-count matrix where finite *)
Proof. exact distance_wei_bin_total. Qed.

(* global efficiency: nan = nan (n < 2), finite values equal *)
Theorem C10_efficiency_wei_bin_eq_bin : forall n A W, rel01 n A W ->
  exists ew eb, efficiency_wei n W = Some ew /\ efficiency_bin n A = Some eb /\ ext_eq ew eb.
Proof. exact efficiency_wei_bin_total. Qed.

(* local=True: the returned vectors.  cuberoot is any function that is a cube root of the entries of W and of
   invert(W) (cbrt_ok); the executable cbrt_exact is one on every 0/1 matrix (second theorem). *)
Theorem C10_efficiency_local_wei_bin_eq_bin : forall cbrt n A W,
  rel01 n A W -> cbrt_ok cbrt n W -> cbrt_ok cbrt n (invertQ W) ->
  exists lw lb, efficiency_wei_local cbrt n W = Some lw /\ efficiency_bin_local n A = Some lb /\
    length lw = n /\ length lb = n /\ forall u, (u < n)%nat -> nth u lw 0 == nth u lb 0.
Proof. exact efficiency_local_wei_bin_total. Qed.

Theorem C10_efficiency_local_cbrt_exact : forall n A W, rel01 n A W ->
  exists lw lb, efficiency_wei_local cbrt_exact n W = Some lw /\ efficiency_bin_local n A = Some lb /\
    length lw = n /\ length lb = n /\ forall u, (u < n)%nat -> nth u lw 0 == nth u lb 0.
Proof.
  intros n A W H. destruct (rel01_binary n A W H) as [H1 H2].
  exact (efficiency_local_wei_bin_total cbrt_exact n A W H (cbrt_exact_ok_binary n W H1) (cbrt_exact_ok_binary n _ H2)).
Qed.

(* ---- core.py: assortativity_wei = assortativity_bin on 0/1 input, every flag (0 = undirected) ----
   no square root in the code: equality of the rational expressions; None = non-finite float on both sides *)
Theorem C10_assortativity_wei_bin_eq_bin : forall n A flag, binary n A ->
  oeq (assortativity_wei n A flag) (assortativity_bin n A flag).
Proof. exact assortativity_wei_bin_eq_bin. Qed.

(* documented "all connection weights are ignored": every weight, negative ones included (edge list `!= 0`, after the
   repair of the defect this check found: with `> 0` a negative weight changed the result) *)
Theorem C10_assortativity_bin_ignores_weights : forall n W flag,
  oeq (assortativity_bin n W flag) (assortativity_bin n (binarize W) flag).
Proof. exact assortativity_bin_ignores_weights. Qed.

(* ---- the other routines documented "weights are ignored / discarded": f(W) = f(binarize(W)) ----
   (degrees_und/degrees_dir: C10_degrees_ignore_weights above; findpaths raises on every call: known finding) *)
Theorem C10_density_ignores_weights : forall n W,
  density_dir n (binarize W) = density_dir n W /\ density_und n (binarize W) = density_und n W.
Proof. intros n W. exact (conj (density_dir_ignores_weights n W) (density_und_ignores_weights n W)). Qed.

Theorem C10_jdegree_ignores_weights : forall n W,
  let r := jdegree n W in let r' := jdegree n (binarize W) in
  j_sz r = j_sz r' /\ (forall a b, j_J r a b = j_J r' a b) /\ j_od r = j_od r' /\ j_id r = j_id r' /\ j_bl r = j_bl r'.
Proof. exact jdegree_ignores_weights. Qed.

(* [enov_eq]: both raise (ZeroDivisionError) or both return the same edges in the same order with equal
   overlaps and equal degree pairs *)
Theorem C10_edge_nei_overlap_ignores_weights : forall n W,
  enov_eq (edge_nei_overlap_bd n W) (edge_nei_overlap_bd n (binarize W)) /\
  enov_eq (edge_nei_overlap_bu n W) (edge_nei_overlap_bu n (binarize W)).
Proof. intros n W. exact (conj (edge_nei_overlap_bd_ignores_weights n W) (edge_nei_overlap_bu_ignores_weights n W)). Qed.

(* the integer-input models of findwalks (C18), reachdist, distance_bin, efficiency_bin (C03): equal results,
   Leibniz equality of the whole return value *)
Theorem C10_findwalks_reachdist_ignore_weights : forall n A,
  Walks.findwalks n (Walks.binz A) = Walks.findwalks n A /\ reachdist n (bin A) = reachdist n A.
Proof. intros n A. exact (conj (findwalks_ignores_weights n A) (reachdist_ignores_weights n A)). Qed.

Theorem C10_distance_efficiency_bin_ignore_weights : forall n A,
  distance_bin n (bin A) = distance_bin n A /\ efficiency_bin n (bin A) = efficiency_bin n A /\
  efficiency_bin_local n (bin A) = efficiency_bin_local n A.
Proof.
  intros n A. exact (conj (distance_bin_ignores_weights n A) (efficiency_bin_ignores_weights n A)).
Qed.

(* ---- centrality.py: betweenness_wei = betweenness_bin, edge_betweenness_wei = edge_betweenness_bin on 0/1 input ----
   the models are C08's (Model/Between.v, integer lengths; tied to the code by C08's correspondence); both routines
   return and the node vectors / the edge matrix agree entrywise.  Re-export of C08_wei_eq_bin_on_binary. *)
Theorem C10_betweenness_wei_bin_eq_bin : forall n G, Model.Between.binary n G ->
  exists BCw BCb, Model.Between.betweenness_wei n G = Some BCw /\ Model.Between.betweenness_bin n G = Some BCb /\
    forall v, (v < n)%nat -> BCw v == BCb v.
Proof. exact (fun n G H => proj1 (Proofs.BetweenPow.wei_eq_bin_on_binary n G H)). Qed.
Theorem C10_edge_betweenness_wei_bin_eq_bin : forall n G, Model.Between.binary n G ->
  exists Ew Bw Eb Bb, Model.Between.edge_betweenness_wei n G = Some (Ew, Bw) /\
    Model.Between.edge_betweenness_bin n G = Some (Eb, Bb) /\
    (forall v, (v < n)%nat -> Bw v == Bb v) /\
    (forall x y, (x < n)%nat -> (y < n)%nat -> Ew x y == Eb x y).
Proof. exact (fun n G H => proj2 (Proofs.BetweenPow.wei_eq_bin_on_binary n G H)). Qed.

(* ---- self-connections (the property text says "a matrix whose entries are all 0 or 1": the diagonal is not excluded) ----
   Model/ClusteringInf.v: clustering_coef_bd / _wd / _wu statement by statement, including the denominator masks of the
   repair 366dab6 (`CYC3[CYC3 == 0] = inf`, `K[K < 2] = inf`) and with the last statement `C = cyc3 / CYC3` returning
   option Q, None = a non-finite float (Model/Clustering.v writes the quotient with Q's total division instead). *)
Import Model.ClusteringInf Proofs.ReduceSelfloop.

(* for EVERY matrix — any weights, any diagonal — the three routines return a finite number, and it is the value of
   the routine of Model/Clustering.v that all other theorems (C09, C10) speak about *)
Theorem C10_cc_visible_quotient : forall cbrt n W i,
  (exists q, cc_bd_o n W i = Some q /\ q == cc_bd n W i) /\
  (exists q, cc_wd_o cbrt n W i = Some q /\ q == cc_wd cbrt n W i) /\
  (exists q, cc_wu_o cbrt n W i = Some q /\ q == cc_wu cbrt n W i).
Proof. exact cc_o_total. Qed.

(* the four per-node pairs on the statement-level routines, ANY diagonal: both sides finite and equal *)
Theorem C10_cc_any_diagonal :
  (forall cbrt n A i, cbrt_ok cbrt n A -> binary n A -> (i < n)%nat -> oeq (cc_wd_o cbrt n A i) (cc_bd_o n A i)) /\
  (forall cbrt n W i, cbrt_ok cbrt n W -> symmetric n W -> (i < n)%nat -> oeq (cc_wd_o cbrt n W i) (cc_wu_o cbrt n W i)) /\
  (forall cbrt n A i, cbrt_ok cbrt n A -> binary n A -> symmetric n A -> (i < n)%nat ->
     oeq (cc_wu_o cbrt n A i) (Some (cc_bu n A i))) /\
  (forall n A i, binary n A -> symmetric n A -> (i < n)%nat -> oeq (cc_bd_o n A i) (Some (cc_bu n A i))).
Proof. exact cc_o_pairs. Qed.

(* ---- efficiency.py, local variants: `if numer != 0: ... E[u] = numer / denom` never divides by zero ----
   (any input matrix, any weights, any diagonal, any distance matrix inside 1/D): a nonzero numer forces denom >= 2,
   so the total division of [eloc_tail] is never exercised at 0 and the code cannot return inf / nan there.
   V, k, sa, sw are the expressions of Model/EfficiencyLocal.v (last two conjuncts, by reflexivity). *)
Import Proofs.ReduceElocDiv.
Theorem C10_eloc_no_division_by_zero :
  (forall k s sa e, eloc_tail k s sa e = if Qeq_bool (eloc_numer k s e) 0 then 0 else eloc_numer k s e / eloc_denom k sa) /\
  (forall n (A : mat Z) u (D : mat len),
     let G := tab 0%Z n n (bin A) in
     let V := filter (fun v => znz (G u v) || znz (G v u))%bool (seq 0 n) in
     let k := length V in
     let sa := tabv 0 k (fun a => inject_Z (G u (nth a V 0%nat)) + inject_Z (G (nth a V 0%nat) u)) in
     (u < n)%nat -> ~ eloc_numer k sa (einv k D) == 0 -> 2 <= eloc_denom k sa) /\
  (forall (cbrt : Q -> Q) n (Gw : mat Q) u (D : mat len),
     let V := filter (fun v => qnzb (Gw u v) || qnzb (Gw v u))%bool (seq 0 n) in
     let k := length V in
     let sw := tabv 0 k (fun a => cbrt (Gw u (nth a V 0%nat)) + cbrt (Gw (nth a V 0%nat) u)) in
     let sa := tabv 0 k (fun a => nzQ (Gw u (nth a V 0%nat)) + nzQ (Gw (nth a V 0%nat) u)) in
     ~ eloc_numer k sw (einv k D) == 0 -> 2 <= eloc_denom k sa) /\
  (forall n (G : mat Z) u,
     let V := filter (fun v => znz (G u v) || znz (G v u))%bool (seq 0 n) in
     let k := length V in
     let sa := tabv 0 k (fun a => inject_Z (G u (nth a V 0%nat)) + inject_Z (G (nth a V 0%nat) u)) in
     eloc_bin_node n G u = match distance_bin k (subm V G) with
                           | None => None
                           | Some D => Some (eloc_tail k sa sa (einv k (fun a b => olen_of_nat (D a b))))
                           end) /\
  (forall cbrt n (Gw : mat Q) u,
     let V := filter (fun v => qnzb (Gw u v) || qnzb (Gw v u))%bool (seq 0 n) in
     let k := length V in
     let sw := tabv 0 k (fun a => cbrt (Gw u (nth a V 0%nat)) + cbrt (Gw (nth a V 0%nat) u)) in
     let sa := tabv 0 k (fun a => nzQ (Gw u (nth a V 0%nat)) + nzQ (Gw (nth a V 0%nat) u)) in
     eloc_wei_node cbrt n Gw u = match distance_wei k (subm V (tab 0 n n (mmap cbrt (invertQ Gw)))) with
                                 | None => None
                                 | Some (D, _) => Some (eloc_tail k sw sa (einv k D))
                                 end).
Proof.
  exact (conj eloc_tail_unfold (conj eloc_bin_no_div0 (conj eloc_wei_no_div0 (conj eloc_bin_node_unfold eloc_wei_node_unfold)))).
Qed.

(* ---- "the code binarises first" is all that has to be known about the source (harness/c10.py checks exactly this on
   the AST of /repo at every run: obligations <routine>:binarizes_first): every f(P) = g(binarize(P)) ignores weights ---- *)
Theorem C10_binarize_first_suffices :
  (forall (T : Type) (n : nat) (g : mat Z -> T),
     (forall B B' : mat Z, (forall i j, (i < n)%nat -> (j < n)%nat -> B i j = B' i j) -> g B = g B') ->
     forall A, (fun P => g (bin P)) (bin A) = (fun P => g (bin P)) A) /\
  (forall (T : Type) (R : T -> T -> Prop) (n : nat) (g : mat Q -> T),
     (forall B B' : mat Q, (forall i j, (i < n)%nat -> (j < n)%nat -> B i j == B' i j) -> R (g B) (g B')) ->
     forall W, R ((fun P => g (binarize P)) (binarize W)) ((fun P => g (binarize P)) W)).
Proof. exact (conj Proofs.ReduceBinFirst.binarize_first_suffices_Z Proofs.ReduceBinFirst.binarize_first_suffices_Q). Qed.

(* non-vacuity, self-connections: on [[1,1],[1,0]] the four transitivities agree (2), node 0 gets 3/2 and node 1 gets 0
   from all four clustering routines (node 1: inf from wu / bd / wd before 366dab6) *)
Example C10_selfloop_nonvacuous :
  binary 2 loop_pendant /\ symmetric 2 loop_pendant /\ ~ nodiag 2 loop_pendant /\
  map (fun i => qopt (cc_wu_o cbrt_exact 2 loop_pendant i)) [0; 1]%nat = [Some (3 # 2); Some 0]%list /\
  map (fun i => qopt (cc_bd_o 2 loop_pendant i)) [0; 1]%nat = [Some (3 # 2); Some 0]%list /\
  map (fun i => Qred (cc_bu 2 loop_pendant i)) [0; 1]%nat = [3 # 2; 0]%list /\
  qopt (trans_wu cbrt_exact 2 loop_pendant) = Some (2 # 1) /\ qopt (trans_bu 2 loop_pendant) = Some (2 # 1) /\
  qopt (trans_bd 2 loop_pendant) = Some (2 # 1) /\ qopt (trans_wd cbrt_exact 2 loop_pendant) = Some (2 # 1).
Proof.
  split; [exact (proj1 loop_pendant_ok)|]. split; [exact (proj2 loop_pendant_ok)|].
  split; [intros H; specialize (H 0%nat ltac:(lia)); vm_compute in H; discriminate|].
  vm_compute. repeat split.
Qed.

(* non-vacuity, betweenness: the directed path 0 -> 1 -> 2: node 1 lies on the one shortest path 0 -> 2 *)
Example C10_betweenness_nonvacuous :
  let G := of_rows 0%Z [[0; 1; 0]; [0; 0; 1]; [0; 0; 0]]%Z%list in
  Model.Between.binary 3 G /\
  exists BC, Model.Between.betweenness_bin 3 G = Some BC /\ BC 1%nat == 1.
Proof.
  cbv zeta. split.
  { intros a b Ha Hb. do 3 (destruct a as [|a]; [do 3 (destruct b as [|b]; [vm_compute; tauto|]); exfalso; lia|]). exfalso; lia. }
  destruct (Model.Between.betweenness_bin 3 (of_rows 0%Z [[0; 1; 0]; [0; 0; 1]; [0; 0; 0]]%Z%list)) as [BC|] eqn:E;
    [|vm_compute in E; discriminate].
  exists BC. split; [reflexivity|]. vm_compute in E. injection E as <-. vm_compute. reflexivity.
Qed.

(* ---- non-vacuity ---- *)
Example C10_nonvacuous :
  let A := of_rows 0 [[0; 1; 1; 0]; [1; 0; 1; 0]; [1; 1; 0; 1]; [0; 0; 1; 0]]%list in
  binary 4 A /\ symmetric 4 A /\ nodiag 4 A /\ cbrt_ok cbrt_exact 4 A /\
  cc_wd cbrt_exact 4 A 2 == 1 # 3 /\ cc_bu 4 A 2 == 1 # 3 /\ degrees_und 4 A 2 == 3.
Proof.
  cbv zeta.
  assert (Hb : binary 4 (of_rows 0 [[0; 1; 1; 0]; [1; 0; 1; 0]; [1; 1; 0; 1]; [0; 0; 1; 0]]%list)).
  { intros a b Ha Hb. do 4 (destruct a as [|a]; [do 4 (destruct b as [|b]; [vm_compute; tauto|]); exfalso; lia|]). exfalso; lia. }
  split; [exact Hb|]. split.
  { intros a b Ha Hb'. do 4 (destruct a as [|a]; [do 4 (destruct b as [|b]; [vm_compute; reflexivity|]); exfalso; lia|]). exfalso; lia. }
  split.
  { intros a Ha. do 4 (destruct a as [|a]; [vm_compute; reflexivity|]). exfalso; lia. }
  split; [apply cbrt_exact_ok_binary; exact Hb|]. split; [vm_compute; reflexivity|]. split; vm_compute; reflexivity.
Qed.

(* a directed 0/1 graph with an unreachable pair: both distance routines return, inf at (2,0), 2 at (0,2);
   the efficiencies and assortativities are finite and non-trivial *)
Example C10_distance_nonvacuous :
  let A := of_rows 0%Z [[0; 1; 0]; [0; 0; 1]; [0; 0; 0]]%Z%list in
  let W := of_rows 0 [[0; 1; 0]; [0; 0; 1]; [0; 0; 0]]%list in
  rel01 3 A W /\
  (exists D B D', distance_wei 3 W = Some (D, B) /\ distance_bin 3 A = Some D' /\
     D' 0%nat 2%nat = Some 2%nat /\ D' 2%nat 0%nat = None /\ B 0%nat 2%nat = 2%nat) /\
  (exists e, efficiency_bin 3 A = Some (EFin e) /\ e == 5 # 12) /\
  (exists e, efficiency_wei 3 W = Some (EFin e) /\ e == 5 # 12).
Proof.
  cbv zeta. split.
  { intros a b Ha Hb. do 3 (destruct a as [|a]; [do 3 (destruct b as [|b]; [vm_compute; tauto|]); exfalso; lia|]). exfalso; lia. }
  split.
  { destruct (distance_wei 3 (of_rows 0 [[0; 1; 0]; [0; 0; 1]; [0; 0; 0]]%list)) as [[D B]|] eqn:E1; [|vm_compute in E1; discriminate].
    destruct (distance_bin 3 (of_rows 0%Z [[0; 1; 0]; [0; 0; 1]; [0; 0; 0]]%Z%list)) as [D'|] eqn:E2; [|vm_compute in E2; discriminate].
    exists D, B, D'. split; [reflexivity|]. split; [reflexivity|].
    vm_compute in E1. vm_compute in E2. injection E1 as <- <-. injection E2 as <-. vm_compute. auto. }
  split; eexists; (split; [vm_compute; reflexivity|vm_compute; reflexivity]).
Qed.

Example C10_local_assort_nonvacuous :
  let A := of_rows 0%Z [[0; 1; 1; 0]; [1; 0; 1; 0]; [1; 1; 0; 1]; [0; 0; 1; 0]]%Z%list in
  let W := of_rows 0 [[0; 1; 1; 0]; [1; 0; 1; 0]; [1; 1; 0; 1]; [0; 0; 1; 0]]%list in
  rel01 4 A W /\ binary 4 W /\
  (exists lb, efficiency_bin_local 4 A = Some lb /\ nth 2 lb 0 == 1 # 3) /\
  (exists lw, efficiency_wei_local cbrt_exact 4 W = Some lw /\ nth 2 lw 0 == 1 # 3) /\
  (exists r, assortativity_bin 4 W 0 = Some r /\ r == - (5 # 7)) /\
  (exists r, assortativity_bin 4 (fun i j => (3 # 8) * W i j) 0 = Some r /\ r == - (5 # 7)).
Proof.
  cbv zeta. split.
  { intros a b Ha Hb. do 4 (destruct a as [|a]; [do 4 (destruct b as [|b]; [vm_compute; tauto|]); exfalso; lia|]). exfalso; lia. }
  split.
  { intros a b Ha Hb. do 4 (destruct a as [|a]; [do 4 (destruct b as [|b]; [vm_compute; tauto|]); exfalso; lia|]). exfalso; lia. }
  repeat split; eexists; (split; [vm_compute; reflexivity|vm_compute; reflexivity]).
Qed.

(* a weighted directed matrix and a weighted triangle: the weight-ignoring routines return non-trivial values *)
Example C10_ignore_nonvacuous :
  let W := of_rows 0 [[0; 3 # 8; 0]; [1; 0; 5 # 2]; [0; 0; 0]]%list in
  let T := of_rows 0 [[0; 3 # 8; 5 # 2]; [3 # 8; 0; 1 # 8]; [5 # 2; 1 # 8; 0]]%list in
  density_dir 3 W = (Some (3 / 6), 3%nat) /\ j_od (jdegree 3 W) = 1%Z /\ j_sz (jdegree 3 W) = 3%nat /\
  (exists l, edge_nei_overlap_bu 3 T = Some l /\ length l = 6%nat /\ Forall (fun r => snd (fst r) == 1) l) /\
  edge_nei_overlap_bd 2 (of_rows 0 [[0; 2]; [0; 0]]%list) = None.
Proof.
  cbv zeta. split; [vm_compute; reflexivity|]. split; [vm_compute; reflexivity|]. split; [vm_compute; reflexivity|].
  split; [|vm_compute; reflexivity].
  eexists. split; [vm_compute; reflexivity|]. split; [reflexivity|]. repeat constructor.
Qed.

Print Assumptions C10_cc_wu_bin_eq_bu.
Print Assumptions C10_cc_wd_bin_eq_bd.
Print Assumptions C10_trans_wu_bin_eq_bu.
Print Assumptions C10_trans_wd_bin_eq_bd.
Print Assumptions C10_cc_bd_sym_eq_bu.
Print Assumptions C10_cc_wd_sym_eq_wu.
Print Assumptions C10_trans_bd_sym_eq_bu.
Print Assumptions C10_trans_wd_sym_eq_wu.
Print Assumptions C10_cbrt_exact_ok_binary.
Print Assumptions C10_strengths_bin_eq_degrees.
Print Assumptions C10_in_out_deg_sym.
Print Assumptions C10_degrees_ignore_weights.
Print Assumptions C10_distance_wei_bin_eq_bin.
Print Assumptions C10_efficiency_wei_bin_eq_bin.
Print Assumptions C10_efficiency_local_wei_bin_eq_bin.
Print Assumptions C10_efficiency_local_cbrt_exact.
Print Assumptions C10_assortativity_wei_bin_eq_bin.
Print Assumptions C10_assortativity_bin_ignores_weights.
Print Assumptions C10_density_ignores_weights.
Print Assumptions C10_jdegree_ignores_weights.
Print Assumptions C10_edge_nei_overlap_ignores_weights.
Print Assumptions C10_findwalks_reachdist_ignore_weights.
Print Assumptions C10_distance_efficiency_bin_ignore_weights.
Print Assumptions C10_betweenness_wei_bin_eq_bin.
Print Assumptions C10_edge_betweenness_wei_bin_eq_bin.
Print Assumptions C10_cc_visible_quotient.
Print Assumptions C10_cc_any_diagonal.
Print Assumptions C10_eloc_no_division_by_zero.
Print Assumptions C10_binarize_first_suffices.
