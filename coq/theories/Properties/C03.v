(* Properties/C03.v — shortest-path distance matrices equal true minimum path lengths.
   Only statements; every proof is `exact <lemma of Proofs/Distance*.v>`.
   Lengths are [option Q] (None = infinity).  [wl L i mid j] is the total length of the walk
   i -> mid... -> j (None if an edge is missing); [is_min_dist n L i j d]: d is the minimum of wl over all
   walks inside {0..n-1}, None iff there is none; [dist_correct n L D]: that, for every ordered pair i <> j. *)
From Coq Require Import QArith List Arith ZArith Lia.
From BCT Require Import Base.Mat Base.ListX Model.Distance
  Proofs.DistanceBase Proofs.DistanceFloyd Proofs.DistanceBin Proofs.DistanceOther Proofs.DistanceReach Proofs.DistanceWei.
Import ListNotations.
Open Scope Q_scope.

(* ---------- distance_wei_floyd: FULL correctness, all n, all non-negative length matrices ---------- *)
Theorem C03_floyd_correct : forall n L, nonneg n L -> dist_correct n L (spl (floyd n L)).
Proof. exact floyd_correct. Qed.

Theorem C03_floyd_diag_zero : forall n L i,
  spl (floyd n L) i i = Some 0 /\ hops (floyd n L) i i = 0%nat /\ pmat (floyd n L) i i = 0%nat.
Proof. exact floyd_diag_zero. Qed.

Theorem C03_floyd_reach_iff_finite : forall n L, nonneg n L ->
  forall i j, (i < n)%nat -> (j < n)%nat -> i <> j ->
  (spl (floyd n L) i j <> None <-> reachable n L i j) /\ (hops (floyd n L) i j <> 0%nat <-> reachable n L i j).
Proof. exact floyd_reach_iff_finite. Qed.

(* the edge-count output is the number of edges of a walk whose length is the (minimum) SPL *)
Theorem C03_floyd_hops_min_path : forall n L, nonneg n L ->
  forall i j x, (i < n)%nat -> (j < n)%nat -> i <> j -> spl (floyd n L) i j = Some x ->
  exists mid, below n mid /\ S (length mid) = hops (floyd n L) i j /\ oeq (wl L i mid j) (Some x).
Proof. exact floyd_hops_min_path. Qed.

(* each transform (None, 'inv', 'log' with -log abstract and weights in (0,1]) *)
Theorem C03_floyd_transforms : forall nlog : Q -> Q,
  (forall w, 0 < w -> w <= 1 -> 0 <= nlog w) ->
  forall n A tr,
  (forall i j, (i < n)%nat -> (j < n)%nat -> 0 <= A i j) ->
  (tr = TLog -> forall i j, (i < n)%nat -> (j < n)%nat -> A i j <= 1) ->
  dist_correct n (lengths nlog tr A) (spl (distance_wei_floyd nlog n A tr)) /\
  (forall i j, lengths nlog tr A i j = None <-> A i j == 0).
Proof. exact floyd_transforms. Qed.

(* ---------- distance_bin: FULL correctness (whenever the fuelled loop returns) ---------- *)
Theorem C03_distance_bin_correct : forall n A D, distance_bin n A = Some D ->
  dist_correct n (Lbin A) (fun i j => olen_of_nat (D i j)).
Proof. exact distance_bin_correct. Qed.

Theorem C03_distance_bin_diag_zero : forall n A D, distance_bin n A = Some D -> forall i, D i i = Some 0%nat.
Proof. exact distance_bin_diag_zero. Qed.

Theorem C03_distance_bin_inf_iff : forall n A D, distance_bin n A = Some D ->
  forall i j, (i < n)%nat -> (j < n)%nat -> i <> j -> (D i j <> None <-> reachable n (Lbin A) i j).
Proof. exact distance_bin_inf_iff. Qed.

(* the routines agree where their domains overlap (both are THE minimum) *)
Theorem C03_agree_floyd_bin : forall n A D, distance_bin n A = Some D ->
  forall i j, (i < n)%nat -> (j < n)%nat -> i <> j -> oeq (spl (floyd n (Lbin A)) i j) (olen_of_nat (D i j)).
Proof. exact agree_floyd_bin. Qed.

Theorem C03_agree_any : forall n L D, nonneg n L -> dist_correct n L D ->
  forall i j, (i < n)%nat -> (j < n)%nat -> i <> j -> oeq (spl (floyd n L) i j) (D i j).
Proof. exact agree_any. Qed.

(* ---------- distance_wei (Dijkstra as written): FULL correctness for non-negative entries ---------- *)
(* [Lg G]: nonzero entries of G are the connection lengths.  D[i,j] is the minimum total length over all walks,
   infinite exactly when there is none, and B[i,j] is the number of edges of a walk of that minimum length
   (whenever the fuelled loop returns). *)
Theorem C03_distance_wei_correct : forall n G D B,
  (forall i j, (i < n)%nat -> (j < n)%nat -> 0 <= G i j) ->
  distance_wei n G = Some (D, B) ->
  dist_correct n (Lg G) D /\
  (forall i j x, (i < n)%nat -> (j < n)%nat -> i <> j -> D i j = Some x ->
     exists mid, below n mid /\ S (length mid) = B i j /\ oeq (wl (Lg G) i mid j) (Some x)) /\
  (forall i j, (i < n)%nat -> (j < n)%nat -> i <> j -> (D i j <> None <-> reachable n (Lg G) i j)).
Proof. exact distance_wei_correct. Qed.

(* corollary of the two correctness theorems (no longer only a test) *)
Theorem C03_agree_wei_floyd : forall n G D B,
  (forall i j, (i < n)%nat -> (j < n)%nat -> 0 <= G i j) ->
  distance_wei n G = Some (D, B) ->
  forall i j, (i < n)%nat -> (j < n)%nat -> i <> j -> oeq (spl (floyd n (Lg G)) i j) (D i j).
Proof. exact agree_wei_floyd. Qed.

Theorem C03_distance_wei_diag_zero : forall n G D B, distance_wei n G = Some (D, B) ->
  forall i, (i < n)%nat -> D i i = Some 0 /\ B i i = 0%nat.
Proof. exact distance_wei_diag_zero. Qed.

(* ---------- breadthdist: soundness half + flag (model of the code after repo commit 4574619) ---------- *)
(* full statement: DistanceOther.breadthdist_full_statement (NOT proved; tested). *)
Theorem C03_breadthdist_partial : forall n C R D, breadthdist n C = Some (R, D) ->
  forall i j d, (i < n)%nat -> (j < n)%nat -> D i j = Some d -> (1 <= d)%nat /\ hasw n C d i j.
Proof. exact breadthdist_partial. Qed.

Theorem C03_breadthdist_reach_flag : forall n C R D, breadthdist n C = Some (R, D) ->
  forall i j, R i j = true <-> D i j <> None.
Proof. exact breadthdist_reach_flag. Qed.

(* ---------- reachdist: every finite entry is the EXACT minimum hop count; flag soundness ---------- *)
(* full statement: DistanceReach.reachdist_full_statement (NOT proved: infinite entry => unreachable).
   [sd n A i j k]: a walk with k edges along nonzero entries of A exists and none with fewer edges. *)
Theorem C03_reachdist_partial : forall n A R D, reachdist n A = Some (R, D) ->
  forall i j d, (i < n)%nat -> (j < n)%nat -> D i j = Some d ->
    exists k, d = Z.of_nat k /\ sd n A i j k /\ R i j = true.
Proof. exact reachdist_partial. Qed.

Theorem C03_reachdist_flag_partial : forall n A R D, reachdist n A = Some (R, D) ->
  forall i j, (i < n)%nat -> (j < n)%nat -> R i j = true -> reachable n (Lbin A) i j.
Proof. exact reachdist_flag_partial. Qed.

(* ---------- means over the ordered pairs of distinct nodes ---------- *)
Theorem C03_offdiag_pairs : forall n,
  (forall i j, In (i, j) (offdiag n) <-> (i < n)%nat /\ (j < n)%nat /\ i <> j) /\
  NoDup (offdiag n) /\ length (offdiag n) = (n * n - n)%nat.
Proof. intros n. exact (conj (offdiag_spec n) (conj (offdiag_NoDup n) (offdiag_length n))). Qed.

Theorem C03_charpath_mean : forall n D, (2 <= n)%nat ->
  (forall i j, (i < n)%nat -> (j < n)%nat -> i <> j -> D i j <> None) ->
  fst (charpath n D false true) =
  EFin (meanQ (map (fun c => match D (fst c) (snd c) with Some x => x | None => 0 end) (offdiag n))).
Proof. exact charpath_mean. Qed.

Theorem C03_charpath_mean_inverse : forall n D, (2 <= n)%nat ->
  (forall i j x, (i < n)%nat -> (j < n)%nat -> i <> j -> D i j = Some x -> ~ x == 0) ->
  snd (charpath n D false true) = EFin (meanQ (map (fun c => oinv (D (fst c) (snd c))) (offdiag n))).
Proof. exact charpath_mean_inverse. Qed.

Theorem C03_efficiency_bin_mean_inverse : forall n A e, (2 <= n)%nat -> efficiency_bin n A = Some e ->
  exists D, distance_bin n A = Some D /\ dist_correct n (Lbin A) (fun i j => olen_of_nat (D i j)) /\
    e = EFin (meanQ (map (fun c => oinv (olen_of_nat (D (fst c) (snd c)))) (offdiag n))).
Proof. exact efficiency_bin_mean_inverse. Qed.

Theorem C03_efficiency_wei_mean_inverse : forall n W e, (2 <= n)%nat ->
  (forall i j, (i < n)%nat -> (j < n)%nat -> 0 <= W i j) ->
  efficiency_wei n W = Some e ->
  exists D B, distance_wei n (invertQ W) = Some (D, B) /\ dist_correct n (Lg (invertQ W)) D /\
    e = EFin (meanQ (map (fun c => oinv (D (fst c) (snd c))) (offdiag n))).
Proof. exact efficiency_wei_correct. Qed.

Theorem C03_rout_efficiency_mean_inverse : forall nlog n A tr, (2 <= n)%nat ->
  let S := spl (distance_wei_floyd nlog n A tr) in
  fst (rout_efficiency nlog n A tr) = EFin (meanQ (map (fun c => oinv (S (fst c) (snd c))) (offdiag n))) /\
  (forall i j, i <> j -> snd (rout_efficiency nlog n A tr) i j = oinv (S i j)) /\
  (forall i, snd (rout_efficiency nlog n A tr) i i = 0).
Proof. exact rout_efficiency_mean_inverse. Qed.

(* non-vacuity: a concrete tie-heavy directed length matrix meets the hypotheses; two equal-length
   alternatives 0->1->3 and 0->2->3 (length 3), unreachable node 4 *)
Example C03_nonvacuous :
  let L := lengths (fun x => x) TNone (of_rows 0 [[0;1;2;0;0];[0;0;0;2;0];[0;0;0;1;0];[3;0;0;0;0];[0;0;0;0;0]]) in
  nonneg 5 L /\ spl (floyd 5 L) 0%nat 3%nat = Some 3 /\ hops (floyd 5 L) 0%nat 3%nat = 2%nat /\
  spl (floyd 5 L) 0%nat 4%nat = None /\ spl (floyd 5 L) 3%nat 2%nat = Some 5.
Proof.
  split.
  - apply lengths_nonneg; [|discriminate]. intros i j _ _. apply of_rows_nonneg.
    repeat constructor; unfold Qle; cbn; lia.
  - vm_compute. auto.
Qed.

Print Assumptions C03_floyd_correct.
Print Assumptions C03_floyd_diag_zero.
Print Assumptions C03_floyd_reach_iff_finite.
Print Assumptions C03_floyd_hops_min_path.
Print Assumptions C03_floyd_transforms.
Print Assumptions C03_distance_bin_correct.
Print Assumptions C03_distance_bin_diag_zero.
Print Assumptions C03_distance_bin_inf_iff.
Print Assumptions C03_agree_floyd_bin.
Print Assumptions C03_agree_any.
Print Assumptions C03_distance_wei_correct.
Print Assumptions C03_agree_wei_floyd.
Print Assumptions C03_distance_wei_diag_zero.
Print Assumptions C03_breadthdist_partial.
Print Assumptions C03_breadthdist_reach_flag.
Print Assumptions C03_reachdist_partial.
Print Assumptions C03_reachdist_flag_partial.
Print Assumptions C03_offdiag_pairs.
Print Assumptions C03_charpath_mean.
Print Assumptions C03_charpath_mean_inverse.
Print Assumptions C03_efficiency_bin_mean_inverse.
Print Assumptions C03_efficiency_wei_mean_inverse.
Print Assumptions C03_rout_efficiency_mean_inverse.
