(* Properties/C03.v — shortest-path distance matrices equal true minimum path lengths.
   Only statements; every proof is `exact <lemma of Proofs/Distance*.v>`.
   Lengths are [option Q] (None = infinity).  [wl L i mid j] is the total length of the walk
   i -> mid... -> j (None if an edge is missing); [is_min_dist n L i j d]: d is the minimum of wl over all
   walks inside {0..n-1}, None iff there is none; [dist_correct n L D]: that, for every ordered pair i <> j. *)
From Coq Require Import QArith List Arith ZArith Lia.
From BCT Require Import Base.Mat Base.ListX Model.Distance Model.DistanceExt
  Proofs.DistanceBase Proofs.DistanceFloyd Proofs.DistanceBin Proofs.DistanceOther Proofs.DistanceReach Proofs.DistanceWei
  Proofs.DistanceFull Proofs.DistanceBFS Proofs.DistanceAgree Proofs.DistanceSimple Proofs.DistanceHopsPath Proofs.DistanceExt.
Import ListNotations.
Open Scope Q_scope.

(* ---------- distance_wei_floyd: FULL correctness, all n, all non-negative length matrices ---------- *)
Theorem C03_floyd_correct : forall n L, nonneg n L -> dist_correct n L (spl (floyd n L)).
Proof. exact floyd_correct. Qed.

Theorem C03_floyd_diag_zero : forall n L i,
  spl (floyd n L) i i = Some 0 /\ hops (floyd n L) i i = 0%nat /\ pmat (floyd n L) i i = 0%nat.
Proof. exact floyd_diag_zero. Qed.

Theorem C03_floyd_reach_iff_finite : forall n L, nonneg n L ->
  forall i j, (i < n)%nat -> (j < n)%nat -> i <> j ->
  (spl (floyd n L) i j <> None <-> reachable n L i j) /\ (hops (floyd n L) i j <> 0%nat <-> reachable n L i j).
Proof. exact floyd_reach_iff_finite. Qed.

(* the edge-count output is the number of edges of a walk whose length is the (minimum) SPL *)
Theorem C03_floyd_hops_min_path : forall n L, nonneg n L ->
  forall i j x, (i < n)%nat -> (j < n)%nat -> i <> j -> spl (floyd n L) i j = Some x ->
  exists mid, below n mid /\ S (length mid) = hops (floyd n L) i j /\ oeq (wl L i mid j) (Some x).
Proof. exact floyd_hops_min_path. Qed.

(* each transform (None, 'inv', 'log' with -log abstract and weights in (0,1]) *)
Theorem C03_floyd_transforms : forall nlog : Q -> Q,
  (forall w, 0 < w -> w <= 1 -> 0 <= nlog w) ->
  forall n A tr,
  (forall i j, (i < n)%nat -> (j < n)%nat -> 0 <= A i j) ->
  (tr = TLog -> forall i j, (i < n)%nat -> (j < n)%nat -> A i j <= 1) ->
  dist_correct n (lengths nlog tr A) (spl (distance_wei_floyd nlog n A tr)) /\
  (forall i j, lengths nlog tr A i j = None <-> A i j == 0).
Proof. exact floyd_transforms. Qed.

(* ---------- distance_bin: FULL correctness (whenever the fuelled loop returns) ---------- *)
Theorem C03_distance_bin_correct : forall n A D, distance_bin n A = Some D ->
  dist_correct n (Lbin A) (fun i j => olen_of_nat (D i j)).
Proof. exact distance_bin_correct. Qed.

Theorem C03_distance_bin_diag_zero : forall n A D, distance_bin n A = Some D -> forall i, D i i = Some 0%nat.
Proof. exact distance_bin_diag_zero. Qed.

Theorem C03_distance_bin_inf_iff : forall n A D, distance_bin n A = Some D ->
  forall i j, (i < n)%nat -> (j < n)%nat -> i <> j -> (D i j <> None <-> reachable n (Lbin A) i j).
Proof. exact distance_bin_inf_iff. Qed.

(* the routines agree where their domains overlap (both are THE minimum) *)
Theorem C03_agree_floyd_bin : forall n A D, distance_bin n A = Some D ->
  forall i j, (i < n)%nat -> (j < n)%nat -> i <> j -> oeq (spl (floyd n (Lbin A)) i j) (olen_of_nat (D i j)).
Proof. exact agree_floyd_bin. Qed.

Theorem C03_agree_any : forall n L D, nonneg n L -> dist_correct n L D ->
  forall i j, (i < n)%nat -> (j < n)%nat -> i <> j -> oeq (spl (floyd n L) i j) (D i j).
Proof. exact agree_any. Qed.

(* ---------- distance_wei (Dijkstra as written): FULL correctness for non-negative entries ---------- *)
(* [Lg G]: nonzero entries of G are the connection lengths.  D[i,j] is the minimum total length over all walks,
   infinite exactly when there is none, and B[i,j] is the number of edges of a walk of that minimum length
   (whenever the fuelled loop returns). *)
Theorem C03_distance_wei_correct : forall n G D B,
  (forall i j, (i < n)%nat -> (j < n)%nat -> 0 <= G i j) ->
  distance_wei n G = Some (D, B) ->
  dist_correct n (Lg G) D /\
  (forall i j x, (i < n)%nat -> (j < n)%nat -> i <> j -> D i j = Some x ->
     exists mid, below n mid /\ S (length mid) = B i j /\ oeq (wl (Lg G) i mid j) (Some x)) /\
  (forall i j, (i < n)%nat -> (j < n)%nat -> i <> j -> (D i j <> None <-> reachable n (Lg G) i j)).
Proof. exact distance_wei_correct. Qed.

(* corollary of the two correctness theorems (no longer only a test) *)
Theorem C03_agree_wei_floyd : forall n G D B,
  (forall i j, (i < n)%nat -> (j < n)%nat -> 0 <= G i j) ->
  distance_wei n G = Some (D, B) ->
  forall i j, (i < n)%nat -> (j < n)%nat -> i <> j -> oeq (spl (floyd n (Lg G)) i j) (D i j).
Proof. exact agree_wei_floyd. Qed.

Theorem C03_distance_wei_diag_zero : forall n G D B, distance_wei n G = Some (D, B) ->
  forall i, (i < n)%nat -> D i i = Some 0 /\ B i i = 0%nat.
Proof. exact distance_wei_diag_zero. Qed.

(* ---------- "the number of edges of some minimum-length PATH", in the strict sense ---------- *)
(* nonzero entries of a non-negative G are strictly positive lengths, so a minimum-length walk repeats no node:
   B[i,j] is the number of edges of a duplicate-free node sequence i, mid..., j of minimum total length *)
Theorem C03_distance_wei_edge_count_path : forall n G D B,
  (forall i j, (i < n)%nat -> (j < n)%nat -> 0 <= G i j) ->
  distance_wei n G = Some (D, B) ->
  forall i j x, (i < n)%nat -> (j < n)%nat -> i <> j -> D i j = Some x ->
    is_min_dist n (Lg G) i j (Some x) /\
    exists mid, below n mid /\ NoDup (i :: mid ++ [j]) /\ S (length mid) = B i j /\ oeq (wl (Lg G) i mid j) (Some x).
Proof. exact distance_wei_edge_count_path. Qed.

(* the same for hops of distance_wei_floyd, for EVERY non-negative length matrix — zero-length connections ('log'
   transform of weight 1) included: along the route Pmat encodes hops[.,j] drops by one per step, so its nodes are
   pairwise distinct (no appeal to strict positivity; upgraded from the `positive` hypothesis) *)
Theorem C03_floyd_hops_path : forall n L, nonneg n L ->
  forall i j x, (i < n)%nat -> (j < n)%nat -> i <> j -> spl (floyd n L) i j = Some x ->
    is_min_dist n L i j (Some x) /\
    exists mid, below n mid /\ NoDup (i :: mid ++ [j]) /\ S (length mid) = hops (floyd n L) i j /\
                oeq (wl L i mid j) (Some x).
Proof. exact floyd_hops_path_nonneg. Qed.

(* composed with each transform, so that no clause needs a reader's instantiation *)
Theorem C03_floyd_transforms_hops : forall nlog : Q -> Q,
  (forall w, 0 < w -> w <= 1 -> 0 <= nlog w) ->
  forall n A tr,
  (forall i j, (i < n)%nat -> (j < n)%nat -> 0 <= A i j) ->
  (tr = TLog -> forall i j, (i < n)%nat -> (j < n)%nat -> A i j <= 1) ->
  let F := distance_wei_floyd nlog n A tr in
  forall i j x, (i < n)%nat -> (j < n)%nat -> i <> j -> spl F i j = Some x ->
    is_min_dist n (lengths nlog tr A) i j (Some x) /\
    exists mid, below n mid /\ NoDup (i :: mid ++ [j]) /\ S (length mid) = hops F i j /\
                oeq (wl (lengths nlog tr A) i mid j) (Some x).
Proof. exact floyd_transforms_hops. Qed.

(* non-vacuity: a zero-length 2-cycle 1 <-> 2 beside two tied routes 0->1->3, 0->2->3: non-negative, NOT strictly positive *)
Example C03_hops_path_nonvacuous :
  let L : mat len := of_rows None [[None; Some 1; Some 1; None]; [None; None; Some 0; Some 1];
                                   [None; Some 0; None; Some 1]; [None; None; None; None]] in
  nonneg 4 L /\ ~ positive 4 L /\ spl (floyd 4 L) 0%nat 3%nat = Some 2 /\ hops (floyd 4 L) 0%nat 3%nat = 2%nat /\
  spl (floyd 4 L) 1%nat 2%nat = Some 0.
Proof. exact hops_path_nonneg_nonvacuous. Qed.

(* ---------- totality: the fuel n+2 of every fuelled loop is sufficient, the models return for EVERY input ---------- *)
Theorem C03_models_return :
  (forall n A, exists D, distance_bin n A = Some D) /\
  (forall n G, exists DB, distance_wei n G = Some DB) /\
  (forall n C, exists RD, breadthdist n C = Some RD) /\
  (forall n A, exists RD, reachdist n A = Some RD) /\
  (forall n A, exists e, efficiency_bin n A = Some e) /\
  (forall n W, exists e, efficiency_wei n W = Some e).
Proof.
  exact (conj distance_bin_total (conj distance_wei_total (conj breadthdist_total (conj reachdist_total
          (conj efficiency_bin_total efficiency_wei_total))))).
Qed.

(* ---------- breadthdist: FULL correctness (model of the code after repo commit 4574619) ---------- *)
(* [hasw n C e i j]: a walk with exactly e >= 1 edges along nonzero entries of C exists; [sd n C i j k]: one with k
   edges exists and none with fewer.  For EVERY ordered pair, the diagonal included: D[i,j] is the exact minimum
   number of edges of a walk i -> j, infinite exactly when there is none, and R[i,j] is true exactly when D[i,j] is
   finite.  On the diagonal a walk i -> i with at least one edge is a cycle through i: D[i,i] is the length of
   the shortest cycle through i (1 for a self-connection), infinite (and R[i,i] false) when there is none. *)
Theorem C03_breadthdist_correct : forall n C R D, breadthdist n C = Some (R, D) ->
  forall i j, (i < n)%nat -> (j < n)%nat ->
    (forall d, D i j = Some d -> (1 <= d <= n)%nat) /\
    (forall k, D i j = Some k <-> sd n C i j k) /\
    (D i j = None <-> forall e, ~ hasw n C e i j) /\
    (R i j = true <-> D i j <> None).
Proof. exact breadthdist_correct. Qed.

(* the same in the generic form of this file (minimum total length over all walks, every connection of length 1) *)
Theorem C03_breadthdist_min_dist : forall n C R D, breadthdist n C = Some (R, D) ->
  (forall i j, (i < n)%nat -> (j < n)%nat -> is_min_dist n (Lbin C) i j (olen_of_nat (D i j))) /\
  (forall i j, (i < n)%nat -> (j < n)%nat -> (R i j = true <-> reachable n (Lbin C) i j)).
Proof. exact breadthdist_dist_correct. Qed.

Theorem C03_breadthdist_reach_flag : forall n C R D, breadthdist n C = Some (R, D) ->
  forall i j, R i j = true <-> D i j <> None.
Proof. exact breadthdist_reach_flag. Qed.

(* ---------- reachdist: FULL correctness, same statement (entries are integers 1..n or infinity) ---------- *)
Theorem C03_reachdist_correct : forall n A R D, reachdist n A = Some (R, D) ->
  forall i j, (i < n)%nat -> (j < n)%nat ->
    (forall d, D i j = Some d -> exists k, d = Z.of_nat k /\ (1 <= k <= n)%nat) /\
    (forall k, D i j = Some (Z.of_nat k) <-> sd n A i j k) /\
    (D i j = None <-> forall e, ~ hasw n A e i j) /\
    (R i j = true <-> D i j <> None).
Proof. exact reachdist_correct. Qed.

Theorem C03_reachdist_min_dist : forall n A R D, reachdist n A = Some (R, D) ->
  (forall i j, (i < n)%nat -> (j < n)%nat -> is_min_dist n (Lbin A) i j (zlen (D i j))) /\
  (forall i j, (i < n)%nat -> (j < n)%nat -> (R i j = true <-> reachable n (Lbin A) i j)).
Proof. exact reachdist_dist_correct. Qed.

(* a shortest walk never repeats a node: at most n edges, at most n-1 between distinct nodes *)
Theorem C03_shortest_walk_simple : forall n G i j e, (i < n)%nat -> sd n G i j e ->
  (e <= n)%nat /\ ((j < n)%nat -> i <> j -> (S e <= n)%nat).
Proof. intros n G i j e Hi H. split; [exact (sd_le_n n G i j e Hi H)|intros Hj Hne; exact (sd_lt_n n G i j e Hi Hj Hne H)]. Qed.

(* ---------- the five routines agree wherever their domains overlap ---------- *)
(* breadthdist and reachdist return the same two matrices, diagonal included *)
Theorem C03_agree_breadth_reach : forall n A Rb Db Rr Dr,
  breadthdist n A = Some (Rb, Db) -> reachdist n A = Some (Rr, Dr) ->
  forall i j, (i < n)%nat -> (j < n)%nat -> Dr i j = option_map Z.of_nat (Db i j) /\ Rb i j = Rr i j.
Proof. exact agree_breadth_reach. Qed.

(* all five on one binary matrix ([Gbin A]: the same 0/1 matrix with rational entries, as distance_wei reads it):
   off the diagonal each of them equals distance_bin — hence every pair agrees —, both reach flags are equal and
   true exactly on the finite entries, and the edge-count outputs B and hops equal the distance *)
Theorem C03_agree_binary_all : forall n A Dbin Rb Db Rr Dr Dw Bw,
  distance_bin n A = Some Dbin -> breadthdist n A = Some (Rb, Db) -> reachdist n A = Some (Rr, Dr) ->
  distance_wei n (Gbin A) = Some (Dw, Bw) ->
  forall i j, (i < n)%nat -> (j < n)%nat -> i <> j ->
    Db i j = Dbin i j /\
    Dr i j = option_map Z.of_nat (Dbin i j) /\
    oeq (Dw i j) (olen_of_nat (Dbin i j)) /\
    oeq (spl (floyd n (Lbin A)) i j) (olen_of_nat (Dbin i j)) /\
    Rb i j = Rr i j /\ (Rb i j = true <-> Dbin i j <> None) /\
    (forall k, Dbin i j = Some k -> Bw i j = k /\ hops (floyd n (Lbin A)) i j = k).
Proof. exact agree_binary_all. Qed.

(* non-vacuity: directed 3-cycle 0->1->2->0 with a chord 0->2, a self-connection at 3 reached from 2, node 4
   isolated: D[0,0] = 3 (shortest cycle), D[3,3] = 1, D[4,4] = D[0,4] = infinity; the two routines return the same *)
Example C03_bfs_nonvacuous :
  let A := [[0;1;1;0;0];[0;0;1;0;0];[1;0;0;1;0];[0;0;0;1;0];[0;0;0;0;0]]%Z in
  (exists R, run_breadthdist A = Some (R,
     [[Some 2; Some 1; Some 1; Some 2; None]; [Some 2; Some 3; Some 1; Some 2; None];
      [Some 1; Some 2; Some 2; Some 1; None]; [None; None; None; Some 1; None]; [None; None; None; None; None]]%nat)) /\
  (exists R, run_reachdist A = Some (R,
     [[Some 2; Some 1; Some 1; Some 2; None]; [Some 2; Some 3; Some 1; Some 2; None];
      [Some 1; Some 2; Some 2; Some 1; None]; [None; None; None; Some 1; None]; [None; None; None; None; None]]%Z)).
Proof. split; eexists; vm_compute; reflexivity. Qed.

(* ---------- means over the ordered pairs of distinct nodes ---------- *)
Theorem C03_offdiag_pairs : forall n,
  (forall i j, In (i, j) (offdiag n) <-> (i < n)%nat /\ (j < n)%nat /\ i <> j) /\
  NoDup (offdiag n) /\ length (offdiag n) = (n * n - n)%nat.
Proof. intros n. exact (conj (offdiag_spec n) (conj (offdiag_NoDup n) (offdiag_length n))). Qed.

Theorem C03_charpath_mean : forall n D, (2 <= n)%nat ->
  (forall i j, (i < n)%nat -> (j < n)%nat -> i <> j -> D i j <> None) ->
  fst (charpath n D false true) =
  EFin (meanQ (map (fun c => match D (fst c) (snd c) with Some x => x | None => 0 end) (offdiag n))).
Proof. exact charpath_mean. Qed.

Theorem C03_charpath_mean_inverse : forall n D, (2 <= n)%nat ->
  (forall i j x, (i < n)%nat -> (j < n)%nat -> i <> j -> D i j = Some x -> ~ x == 0) ->
  snd (charpath n D false true) = EFin (meanQ (map (fun c => oinv (D (fst c) (snd c))) (offdiag n))).
Proof. exact charpath_mean_inverse. Qed.

Theorem C03_efficiency_bin_mean_inverse : forall n A e, (2 <= n)%nat -> efficiency_bin n A = Some e ->
  exists D, distance_bin n A = Some D /\ dist_correct n (Lbin A) (fun i j => olen_of_nat (D i j)) /\
    e = EFin (meanQ (map (fun c => oinv (olen_of_nat (D (fst c) (snd c)))) (offdiag n))).
Proof. exact efficiency_bin_mean_inverse. Qed.

Theorem C03_efficiency_wei_mean_inverse : forall n W e, (2 <= n)%nat ->
  (forall i j, (i < n)%nat -> (j < n)%nat -> 0 <= W i j) ->
  efficiency_wei n W = Some e ->
  exists D B, distance_wei n (invertQ W) = Some (D, B) /\ dist_correct n (Lg (invertQ W)) D /\
    e = EFin (meanQ (map (fun c => oinv (D (fst c) (snd c))) (offdiag n))).
Proof. exact efficiency_wei_correct. Qed.

Theorem C03_rout_efficiency_mean_inverse : forall nlog n A tr, (2 <= n)%nat ->
  let S := spl (distance_wei_floyd nlog n A tr) in
  fst (rout_efficiency nlog n A tr) = EFin (meanQ (map (fun c => oinv (S (fst c) (snd c))) (offdiag n))) /\
  (forall i j, i <> j -> snd (rout_efficiency nlog n A tr) i j = oinv (S i j)) /\
  (forall i, snd (rout_efficiency nlog n A tr) i i = 0).
Proof. exact rout_efficiency_mean_inverse. Qed.

(* ---------- charpath, statement by statement, EVERY flag combination, inf and nan entries ---------- *)
(* [charpath_x] (Model/DistanceExt.v) executes the masking statements on a matrix of nan / +inf / finite entries.
   The cells that survive are exactly [cp_sel]: on the diagonal only with include_diagonal, never a nan, an inf only with
   include_infinite; lambda = np.mean of them, efficiency = np.mean of their inverses (1/inf = 0, 1/0 = inf) *)
Theorem C03_charpath_general : forall n D dg inf,
  charpath_x n D dg inf =
  let sel := map (fun c => D (fst c) (snd c))
                 (filter (fun c => ((dg || negb (Nat.eqb (fst c) (snd c))) && negb (vnan (D (fst c) (snd c))) &&
                                    (inf || negb (vinf (D (fst c) (snd c)))))%bool) (cells n)) in
  (vmean sel, vmean (map vrecip sel)).
Proof. exact charpath_general. Qed.

(* np.mean: nan on nothing, inf as soon as one selected entry is inf, the exact mean otherwise *)
Theorem C03_charpath_mean_spec : forall l,
  (l = [] -> vmean l = ENaN) /\
  (l <> [] -> In VInf l -> vmean l = EInf) /\
  (l <> [] -> ~ In VInf l -> vmean l = EFin (meanQ (map vq l))).
Proof. exact vmean_spec. Qed.

(* the flag-filter model [charpath] used by the earlier theorems is charpath_x on nan-free matrices (None = inf) *)
Theorem C03_charpath_legacy_agrees : forall n (D : mat len) dg inf,
  charpath n D dg inf = charpath_x n (fun i j => dv (D i j)) dg inf.
Proof. exact charpath_legacy_agrees. Qed.

(* (False, False), the usual call on a disconnected graph: mean / mean inverse over the ordered pairs of distinct nodes
   at FINITE distance; nan when there is none *)
Theorem C03_charpath_finite_pairs : forall n (D : mat len),
  let fin := filter (fun c => isfin (D (fst c) (snd c))) (offdiag n) in
  fst (charpath_x n (fun i j => dv (D i j)) false false) =
    match fin with [] => ENaN | _ => EFin (meanQ (map (fun c => oval (D (fst c) (snd c))) fin)) end /\
  snd (charpath_x n (fun i j => dv (D i j)) false false) =
    match fin with
    | [] => ENaN
    | _ => if existsb (fun c => oeqb (D (fst c) (snd c)) (Some 0)) fin then EInf
           else EFin (meanQ (map (fun c => oinv (D (fst c) (snd c))) fin))
    end.
Proof. exact charpath_finite_pairs. Qed.

(* the default flags (False, True) with NO hypothesis on D: lambda is the mean over all ordered pairs of distinct nodes,
   inf as soon as one of them is at infinite distance (C03_charpath_mean is the all-finite case) *)
Theorem C03_charpath_default_total : forall n (D : mat len), (2 <= n)%nat ->
  fst (charpath_x n (fun i j => dv (D i j)) false true) =
    (if forallb (fun c => isfin (D (fst c) (snd c))) (offdiag n)
     then EFin (meanQ (map (fun c => oval (D (fst c) (snd c))) (offdiag n))) else EInf) /\
  snd (charpath_x n (fun i j => dv (D i j)) false true) =
    (if existsb (fun c => oeqb (D (fst c) (snd c)) (Some 0)) (offdiag n) then EInf
     else EFin (meanQ (map (fun c => oinv (D (fst c) (snd c))) (offdiag n)))).
Proof. exact charpath_default_total. Qed.

Example C03_charpath_nonvacuous :
  (* 0 <-> 1 connected, 2 isolated, one nan entry handed in by the caller *)
  let D := [[VFin 0; VFin 1; VInf]; [VFin 1; VFin 0; VInf]; [VInf; VNaN; VFin 0]] in
  run_charpath_x D false true = (EInf, EFin (2 # 5)) /\ run_charpath_x D false false = (EFin 1, EFin 1) /\
  run_charpath_x D true false = (EFin (2 # 5), EInf) /\ run_charpath_x [[VFin 0]] false true = (ENaN, ENaN).
Proof. vm_compute. auto. Qed.

(* ---------- efficiency.py's OWN copies of the distance loops ---------- *)
(* [distance_inv] / [distance_inv_wei] (Model/DistanceExt.v) transcribe the nested functions of efficiency_bin /
   efficiency_wei, which repeat the loops of distance_bin / distance_wei textually: they return (and fail to return)
   exactly when the distance routine does, and then every entry is the inverse of the proven distance, 0 on the diagonal *)
Theorem C03_distance_inv_copies :
  (forall n A, match distance_inv n (tab 0%Z n n (bin A)), distance_bin n A with
               | Some E, Some D => forall i j, E i j = if Nat.eqb i j then 0 else oinv (olen_of_nat (D i j))
               | None, None => True
               | _, _ => False
               end) /\
  (forall n G, match distance_inv_wei n G, distance_wei n G with
               | Some E, Some (D, _) => forall i j, E i j = if Nat.eqb i j then 0 else oinv (D i j)
               | None, None => True
               | _, _ => False
               end).
Proof. exact (conj distance_inv_spec distance_inv_wei_spec). Qed.

(* efficiency_bin / efficiency_wei as the code computes them (own loop; np.sum over the whole matrix / (n*n-n)): always
   return, and the value is the mean inverse of the PROVEN distances over the ordered pairs of distinct nodes — and equal
   to the value of the earlier models that re-used distance_bin / distance_wei.  [ext_eq]: equal as rationals *)
Theorem C03_efficiency_own_loops :
  (forall n A, exists e, efficiency_bin_x n A = Some e) /\
  (forall n W, exists e, efficiency_wei_x n W = Some e) /\
  (forall n A e, efficiency_bin_x n A = Some e ->
     exists D, distance_bin n A = Some D /\ dist_correct n (Lbin A) (fun i j => olen_of_nat (D i j)) /\
       (exists e', efficiency_bin n A = Some e' /\ ext_eq e e') /\
       ((2 <= n)%nat -> ext_eq e (EFin (meanQ (map (fun c => oinv (olen_of_nat (D (fst c) (snd c)))) (offdiag n)))))) /\
  (forall n W e, (forall i j, (i < n)%nat -> (j < n)%nat -> 0 <= W i j) -> efficiency_wei_x n W = Some e ->
     exists D B, distance_wei n (invertQ W) = Some (D, B) /\ dist_correct n (Lg (invertQ W)) D /\
       (exists e', efficiency_wei n W = Some e' /\ ext_eq e e') /\
       ((2 <= n)%nat -> ext_eq e (EFin (meanQ (map (fun c => oinv (D (fst c) (snd c))) (offdiag n)))))).
Proof. exact (conj efficiency_bin_x_total (conj efficiency_wei_x_total (conj efficiency_bin_x_spec efficiency_wei_x_spec))). Qed.

(* non-vacuity: a concrete tie-heavy directed length matrix meets the hypotheses; two equal-length
   alternatives 0->1->3 and 0->2->3 (length 3), unreachable node 4 *)
Example C03_nonvacuous :
  let L := lengths (fun x => x) TNone (of_rows 0 [[0;1;2;0;0];[0;0;0;2;0];[0;0;0;1;0];[3;0;0;0;0];[0;0;0;0;0]]) in
  nonneg 5 L /\ spl (floyd 5 L) 0%nat 3%nat = Some 3 /\ hops (floyd 5 L) 0%nat 3%nat = 2%nat /\
  spl (floyd 5 L) 0%nat 4%nat = None /\ spl (floyd 5 L) 3%nat 2%nat = Some 5.
Proof.
  split.
  - apply lengths_nonneg; [|discriminate]. intros i j _ _. apply of_rows_nonneg.
    repeat constructor; unfold Qle; cbn; lia.
  - vm_compute. auto.
Qed.

(* non-vacuity of the strictly-positive hypothesis and of distance_wei's precondition: the same tie-heavy matrix *)
Example C03_positive_nonvacuous :
  let G := of_rows 0 [[0;1;2;0;0];[0;0;0;2;0];[0;0;0;1;0];[3;0;0;0;0];[0;0;0;0;0]] in
  (forall i j, (i < 5)%nat -> (j < 5)%nat -> 0 <= G i j) /\ positive 5 (Lg G) /\
  run_dwei [[0;1;2;0;0];[0;0;0;2;0];[0;0;0;1;0];[3;0;0;0;0];[0;0;0;0;0]] =
    Some ([[Some 0; Some 1; Some 2; Some 3; None]; [Some 5; Some 0; Some 7; Some 2; None];
           [Some 4; Some 5; Some 0; Some 1; None]; [Some 3; Some 4; Some 5; Some 0; None];
           [None; None; None; None; Some 0]],
          [[0;1;1;2;0];[2;0;3;1;0];[2;3;0;1;0];[1;2;2;0;0];[0;0;0;0;0]]%nat).
Proof.
  assert (H : forall i j, (i < 5)%nat -> (j < 5)%nat ->
              0 <= of_rows 0 [[0;1;2;0;0];[0;0;0;2;0];[0;0;0;1;0];[3;0;0;0;0];[0;0;0;0;0]] i j).
  { intros i j _ _. apply of_rows_nonneg. repeat constructor; unfold Qle; cbn; lia. }
  split; [exact H|]. split; [apply Lg_positive; exact H|]. vm_compute. reflexivity.
Qed.

Print Assumptions C03_floyd_correct.
Print Assumptions C03_floyd_diag_zero.
Print Assumptions C03_floyd_reach_iff_finite.
Print Assumptions C03_floyd_hops_min_path.
Print Assumptions C03_floyd_transforms.
Print Assumptions C03_distance_bin_correct.
Print Assumptions C03_distance_bin_diag_zero.
Print Assumptions C03_distance_bin_inf_iff.
Print Assumptions C03_agree_floyd_bin.
Print Assumptions C03_agree_any.
Print Assumptions C03_distance_wei_correct.
Print Assumptions C03_agree_wei_floyd.
Print Assumptions C03_distance_wei_diag_zero.
Print Assumptions C03_distance_wei_edge_count_path.
Print Assumptions C03_floyd_hops_path.
Print Assumptions C03_models_return.
Print Assumptions C03_breadthdist_correct.
Print Assumptions C03_breadthdist_min_dist.
Print Assumptions C03_breadthdist_reach_flag.
Print Assumptions C03_reachdist_correct.
Print Assumptions C03_reachdist_min_dist.
Print Assumptions C03_shortest_walk_simple.
Print Assumptions C03_agree_breadth_reach.
Print Assumptions C03_agree_binary_all.
Print Assumptions C03_offdiag_pairs.
Print Assumptions C03_charpath_mean.
Print Assumptions C03_charpath_mean_inverse.
Print Assumptions C03_efficiency_bin_mean_inverse.
Print Assumptions C03_efficiency_wei_mean_inverse.
Print Assumptions C03_rout_efficiency_mean_inverse.
Print Assumptions C03_floyd_transforms_hops.
Print Assumptions C03_charpath_general.
Print Assumptions C03_charpath_mean_spec.
Print Assumptions C03_charpath_legacy_agrees.
Print Assumptions C03_charpath_finite_pairs.
Print Assumptions C03_charpath_default_total.
Print Assumptions C03_distance_inv_copies.
Print Assumptions C03_efficiency_own_loops.
