(* Properties/C14.v — partition-consuming functions depend on the partition, not on label values.
   Only statements; every proof is `exact <lemma>` (Proofs/Partition.v; PartitionJoint.v + PartitionVI.v for the real-valued
   partition_distance; PartitionDG.v + PartitionGW.v for diversity_coef_sign and gateway_coef_sign).
   Vocabulary: same_part n c c' := forall i j < n, (c i = c j <-> c' i = c' j)   (same partition of 0..n-1);
   for an injective renaming g, [same_part n ci (g o ci)] holds (C14_injective_same_part), so every
   `_partition_only` theorem below gives  f W ci == f W (map g ci). *)
From Coq Require Import QArith Qreals Reals List Arith Bool ZArith Lia.
From Coq Require Import Permutation Sorted.
From BCT Require Import Base.Mat Base.SumQ Base.ListX Model.Partition Model.PartitionReal Model.PartitionDG
  Model.PartitionLS Model.PartitionGWB Model.PartitionDV
  Proofs.Partition Proofs.PartitionVI Proofs.PartitionDG Proofs.PartitionGW Proofs.PartitionLS Proofs.PartitionGWB
  Proofs.PartitionSignAgree Proofs.PartitionDV.
From BCT Require Model.Modularity Proofs.ModularityQ.
Import ListNotations.
Open Scope Q_scope.

(* np.unique(ci, return_inverse=True)+1 keeps the partition (and the order of the labels) *)
Theorem C14_relabel_injective_invariant : forall n ci (g : Z -> Z), (forall x y, g x = g y -> x = y) ->
  same_part n (relabel n (fun i => g (ci i))) (relabel n ci) /\ same_part n (relabel n ci) ci.
Proof. exact relabel_injective_invariant. Qed.

Theorem C14_relabel_canonical : forall n ci i, (i < n)%nat ->
  (1 <= relabel n ci i <= vmax n (relabel n ci))%nat /\ (relabel n ci i <= n)%nat /\
  forall j, (j < n)%nat -> (ci i < ci j)%Z -> (relabel n ci i < relabel n ci j)%nat.
Proof.
  intros n ci i Hi. split; [exact (relabel_canon n ci i Hi)|]. split; [exact (relabel_le n ci i Hi)|].
  intros j Hj. exact (relabel_monotone n ci i j Hi Hj).
Qed.

(* ... and its values are EXACTLY 1..max: every module number is used *)
Theorem C14_relabel_onto : forall n ci u, (1 <= u <= vmax n (relabel n ci))%nat ->
  exists i, (i < n)%nat /\ relabel n ci i = u.
Proof. exact relabel_onto. Qed.

Theorem C14_injective_same_part : forall n (ci : vec Z) (g : Z -> Z), (forall x y, g x = g y -> x = y) ->
  same_part n ci (fun i => g (ci i)).
Proof. exact injective_same_part. Qed.

(* ---- consumers: the result is a function of the partition only ---- *)
Theorem C14_participation_coef_partition_only : forall n W ci ci' deg_in i, same_part n ci ci' ->
  participation_coef n W ci deg_in i == participation_coef n W ci' deg_in i.
Proof. exact participation_coef_partition_only. Qed.

Theorem C14_participation_coef_formula : forall n W ci i, (i < n)%nat ->
  participation_coef n W ci false i ==
  (if Qeq_bool (sumQ (fun j => W i j) n) 0 then 0
   else 1 - sumQ (fun j => sumQ (fun l => W i j * W i l * ind (Z.eqb (ci j) (ci l))) n) n
            / (sumQ (fun j => W i j) n * sumQ (fun j => W i j) n)).
Proof. exact participation_coef_formula. Qed.

Theorem C14_participation_coef_sign_partition_only : forall n W ci ci' i, same_part n ci ci' ->
  fst (participation_coef_sign n W ci) i == fst (participation_coef_sign n W ci') i /\
  snd (participation_coef_sign n W ci) i == snd (participation_coef_sign n W ci') i.
Proof. exact participation_coef_sign_partition_only. Qed.

(* (Koi - mean, variance) per node; and Z itself for ANY sqrt that respects == *)
Theorem C14_module_degree_zscore_partition_only : forall n W ci ci' flag i, same_part n ci ci' -> (i < n)%nat ->
  fst (module_degree_zscore_parts n W ci flag i) == fst (module_degree_zscore_parts n W ci' flag i) /\
  snd (module_degree_zscore_parts n W ci flag i) == snd (module_degree_zscore_parts n W ci' flag i).
Proof. exact module_degree_zscore_partition_only. Qed.

Theorem C14_module_degree_zscore_invariant : forall (sqrt : Q -> Q), (forall a b, a == b -> sqrt a == sqrt b) ->
  forall n W ci ci' flag i, same_part n ci ci' -> (i < n)%nat ->
  module_degree_zscore sqrt n W ci flag i == module_degree_zscore sqrt n W ci' flag i.
Proof. exact module_degree_zscore_invariant. Qed.

Theorem C14_modularity_und_partition_only : forall n A gamma ci ci', same_part n ci ci' ->
  modularity_und_q n A gamma ci == modularity_und_q n A gamma ci'.
Proof. exact modularity_und_partition_only. Qed.

Theorem C14_modularity_dir_partition_only : forall n A gamma ci ci', same_part n ci ci' ->
  modularity_dir_q n A gamma ci == modularity_dir_q n A gamma ci'.
Proof. exact modularity_dir_partition_only. Qed.

Theorem C14_modularity_und_sign_partition_only : forall n W ci ci' qt, same_part n ci ci' ->
  modularity_und_sign_q n W ci qt == modularity_und_sign_q n W ci' qt.
Proof. exact modularity_und_sign_partition_only. Qed.

(* the routine has a second, independent transcription in Model/Modularity.v (C02 proves there that the value the code
   returns is the definitional signed modularity Qsign): the two are the same function.  (a) statement-level closing formula
   of Modularity.run_und_sign on ITS canonical labels (np.unique as index in the sorted distinct labels), no hypothesis;
   (b) for a symmetric matrix and ANY labelling `lab` of the same partition: the definitional Qsign with gamma = 1 *)
Theorem C14_und_sign_models_agree : forall n W ci qt,
  (let lb := tabv O n (Modularity.relabel0 n ci) in
   let p := Modularity.sign_params n W (conv_qtype qt) in
   let kn := snd (Modularity.sign_init n p lb) in
   modularity_und_sign_q n W ci qt == Modularity.sign_closing n p (fst kn) (snd kn) 1 lb) /\
  (forall lab : vec nat, ModularityQ.sym_on n W -> same_part n ci lab ->
   modularity_und_sign_q n W ci qt == Modularity.Qsign n W 1 (conv_qtype qt) lab).
Proof.
  intros n W ci qt. split; [exact (und_sign_models_agree_closing n W ci qt)|].
  intros lab Hs Hp. exact (und_sign_models_agree_any_lab n W ci qt lab Hs Hp).
Qed.

(* agreement: D[i,j] = number of partitions that put i and j together *)
Theorem C14_agreement_counts : forall n np_ cis i j, (i < n)%nat -> (j < n)%nat -> i <> j ->
  agreement n np_ cis i j == sumQ (fun p => ind (Z.eqb (cis p i) (cis p j))) np_.
Proof. exact agreement_counts. Qed.

Theorem C14_agreement_partition_only : forall n np_ cis cis' i j,
  (forall p, (p < np_)%nat -> same_part n (cis p) (cis' p)) -> (i < n)%nat -> (j < n)%nat ->
  agreement n np_ cis i j == agreement n np_ cis' i j.
Proof. exact agreement_partition_only. Qed.

(* agreement / dummyvar AT STATEMENT LEVEL (Model/PartitionDV.v): dummyvar's argsort (an ORACLE: any permutation ix[:, p] of
   0..n-1 that sorts column p -- the default quicksort is not stable), s_cis, mask, indptr = where(mask.flat) ++ [nnz], the
   scipy CSC matrix read column by column, np.dot(ind, ind.T), the buffsz chunking (arange / append / zip / D +=) and
   fill_diagonal.  For EVERY sorting oracle and every buffsz >= 1 it is the semantic model above. *)
Theorem C14_agreement_statement_level : forall n m cis ix B i j, (1 <= B)%nat ->
  (forall p, (p < m)%nat -> sorting_perm n (cis p) (ix p)) -> (i < n)%nat -> (j < n)%nat ->
  agreement_stmt n m cis ix B i j == agreement n m cis i j.
Proof. exact agreement_stmt_semantic. Qed.

(* dummyvar itself: entry (i, r) counts the flat positions q = p*n + k whose column (number of run starts up to q, minus 1)
   is r and whose node ix[k, p] is i; two positions share a column exactly when they belong to the same partition and
   carry the same label; scipy's shape check len(indptr) = r + 1 passes (r = sum of the numbers of distinct labels);
   every row holds exactly one 1 per partition *)
Theorem C14_dummyvar_spec : forall n m cis ix, (0 < n)%nat -> (forall p, (p < m)%nat -> sorting_perm n (cis p) (ix p)) ->
  (forall i r, (i < n)%nat -> dummyvar n m cis ix i r ==
     sumQ (fun q => ind (Nat.eqb (dv_col n cis ix q) r) * ind (Nat.eqb (dv_indices n ix q) i)) (n * m)) /\
  (forall q q', (q < n * m)%nat -> (q' < n * m)%nat ->
     (dv_col n cis ix q = dv_col n cis ix q' <->
      (q / n = q' / n)%nat /\ cis (q / n)%nat (dv_indices n ix q) = cis (q / n)%nat (dv_indices n ix q'))) /\
  length (dv_indptr n m cis ix) = S (dv_r n m cis) /\
  (forall i, (i < n)%nat -> sumQ (fun r => dummyvar n m cis ix i r) (dv_r n m cis) == inject_Z (Z.of_nat m)).
Proof.
  intros n m cis ix Hn Hs. split; [|split; [|split]].
  - intros i r Hi. exact (dummyvar_spec n m cis ix i r Hs Hi).
  - exact (dv_col_same n m cis ix Hn Hs).
  - exact (dummyvar_shape n m cis ix Hn Hs).
  - intros i Hi. exact (dummyvar_row_sum n m cis ix i Hs Hi).
Qed.

(* non-vacuity: an UNSTABLE argsort, three partitions, buffsz = 2 (two chunks) *)
Example C14_agreement_statement_level_nonvacuous :
  let cols := [[3; 1; 3; 2]; [7; 7; 7; 7]; [0; 1; 2; 3]]%Z in
  let ixs := [[1; 3; 2; 0]; [3; 1; 2; 0]; [0; 1; 2; 3]]%nat in
  (forall p, (p < 3)%nat -> sorting_perm 4 (of_list 0%Z (nth p cols [])) (of_list 0%nat (nth p ixs []))) /\
  run_agreement_stmt 4 cols ixs 2 = [[0; 1; 2; 1]; [1; 0; 1; 1]; [2; 1; 0; 1]; [1; 1; 1; 0]] /\
  run_agreement 4 cols = [[0; 1; 2; 1]; [1; 0; 1; 1]; [2; 1; 0; 1]; [1; 1; 1; 0]] /\
  snd (run_dummyvar 4 cols ixs) = (8, 9)%nat.
Proof. exact agreement_stmt_nonvacuous. Qed.

(* ---- partition_distance, for an abstract log ---- *)
Section PartitionDistance.
Variable log : Q -> Q.
Hypothesis log_proper : forall a b, a == b -> log a == log b.

Theorem C14_partition_distance_symmetric : forall n cx cy,
  fst (partition_distance log n cx cy) == fst (partition_distance log n cy cx) /\
  snd (partition_distance log n cx cy) == snd (partition_distance log n cy cx).
Proof. exact (partition_distance_symmetric log log_proper). Qed.

Theorem C14_partition_distance_partition_only : forall n cx cy cx' cy', same_part n cx cx' -> same_part n cy cy' ->
  fst (partition_distance log n cx cy) == fst (partition_distance log n cx' cy') /\
  snd (partition_distance log n cx cy) == snd (partition_distance log n cx' cy').
Proof. exact (partition_distance_partition_only log log_proper). Qed.

Hypothesis log_incr : forall a b, 0 < a -> a < b -> log a < log b.
Hypothesis log_1 : log 1 == 0.

(* same partition up to renaming => VIn = 0 and MIn = 1; no side condition since fix b5787bf
   (early return (0, 1) when n == 1 or both partitions have one block) *)
Theorem C14_partition_distance_same : forall n cx cy, (0 < n)%nat -> same_part n cx cy ->
  fst (partition_distance log n cx cy) == 0 /\ snd (partition_distance log n cx cy) == 1.
Proof. exact (partition_distance_same log log_proper log_incr log_1). Qed.

Theorem C14_VIn_nonneg : forall n cx cy, (1 < n)%nat -> 0 <= fst (partition_distance log n cx cy).
Proof. exact (VIn_nonneg log log_proper log_incr log_1). Qed.

Theorem C14_VIn_zero_same : forall n cx cy, (1 < n)%nat ->
  fst (partition_distance log n cx cy) == 0 -> same_part n cx cy.
Proof. exact (VIn_zero_same log log_proper log_incr log_1). Qed.

Theorem C14_MIn_one_same : forall n cx cy, (1 < n)%nat ->
  snd (partition_distance log n cx cy) == 1 -> same_part n cx cy.
Proof. exact (MIn_one_same log log_proper log_incr log_1). Qed.

(* "zero VI and unit MI exactly when the partitions coincide up to renaming" *)
Theorem C14_partition_distance_exactly_when : forall n cx cy, (1 < n)%nat ->
  (fst (partition_distance log n cx cy) == 0 <-> same_part n cx cy) /\
  (snd (partition_distance log n cx cy) == 1 <-> same_part n cx cy).
Proof. exact (partition_distance_exactly_when log log_proper log_incr log_1). Qed.

End PartitionDistance.

(* ---- the range clause 0 <= VIn <= 1, with the logarithm inside the model (Model/PartitionReal.v: rational
   histograms as above, real entropies).  For ANY lg : Q -> R that respects ==, turns products into sums and lies
   below x - 1 (three facts about the natural logarithm) ... *)
Theorem C14_VIn_range_any_log : forall lg : Q -> R,
  (forall a b, a == b -> lg a = lg b) ->
  (forall a b, 0 < a -> 0 < b -> lg (a * b) = (lg a + lg b)%R) ->
  (forall a, 0 < a -> (lg a <= Q2R a - 1)%R) ->
  forall n cx cy, (1 < n)%nat -> (0 <= fst (partition_distanceR lg n cx cy) <= 1)%R.
Proof. exact VInR_range. Qed.

(* ... in particular for Coq's natural logarithm lnQ q = ln (Q2R q)  (np.log): the hypotheses are satisfiable *)
Theorem C14_VIn_range : forall n cx cy, (1 < n)%nat -> (0 <= fst (partition_distanceR lnQ n cx cy) <= 1)%R.
Proof. exact VIn_range_ln. Qed.

(* the other clauses of partition_distance for the same real-valued model with Coq's ln (the theorems above are for an
   abstract Q-valued log; these are about the natural logarithm itself; n >= 1 because P = count / n) *)
Theorem C14_partition_distance_ln_symmetric : forall n cx cy, (0 < n)%nat ->
  fst (partition_distanceR lnQ n cx cy) = fst (partition_distanceR lnQ n cy cx) /\
  snd (partition_distanceR lnQ n cx cy) = snd (partition_distanceR lnQ n cy cx).
Proof. exact partition_distance_ln_symmetric. Qed.

Theorem C14_partition_distance_ln_partition_only : forall n cx cy cx' cy', (0 < n)%nat ->
  same_part n cx cx' -> same_part n cy cy' -> partition_distanceR lnQ n cx cy = partition_distanceR lnQ n cx' cy'.
Proof. exact partition_distance_ln_partition_only. Qed.

Theorem C14_partition_distance_ln_same : forall n cx cy, (0 < n)%nat -> same_part n cx cy ->
  fst (partition_distanceR lnQ n cx cy) = 0%R /\ snd (partition_distanceR lnQ n cx cy) = 1%R.
Proof. exact partition_distance_ln_same. Qed.

Theorem C14_partition_distance_ln_exactly_when : forall n cx cy, (1 < n)%nat ->
  (fst (partition_distanceR lnQ n cx cy) = 0%R <-> same_part n cx cy) /\
  (snd (partition_distanceR lnQ n cx cy) = 1%R <-> same_part n cx cy).
Proof. exact partition_distance_ln_exactly_when. Qed.

(* non-vacuity, and the bound 1 is attained: one block against two singletons *)
Example C14_VIn_range_nonvacuous :
  let cx := of_list 0%Z [7; 7]%Z in let cy := of_list 0%Z [-3; 5]%Z in
  pd_trivial 2 cx cy = false /\ fst (partition_distanceR lnQ 2 cx cy) = 1%R.
Proof. exact VIn_range_tight. Qed.

(* ---- diversity_coef_sign, for ANY log that respects == ---- *)
Theorem C14_diversity_coef_sign_partition_only : forall log : Q -> Q, (forall a b, a == b -> log a == log b) ->
  forall n W ci ci' i, same_part n ci ci' ->
  fst (diversity_coef_sign log n W ci) i == fst (diversity_coef_sign log n W ci') i /\
  snd (diversity_coef_sign log n W ci) i == snd (diversity_coef_sign log n W ci') i.
Proof. exact diversity_coef_sign_partition_only. Qed.

Example C14_diversity_nonvacuous :
  let log := fun x => x - 1 in
  let ci := of_list 0%Z [5; 5; 9; 2]%Z in
  let g := fun z => (100 - 3 * z)%Z in
  let W := of_rows 0 [[0; 1; -2; 0]; [1; 0; 0; 3]; [-2; 0; 0; 1]; [0; 3; 1; 0]]%list in
  Qred (fst (diversity_coef_sign log 4 W ci) 1%nat) = 3 # 16 /\
  Qred (fst (diversity_coef_sign log 4 W (fun i => g (ci i))) 1%nat) = 3 # 16.
Proof. vm_compute. split; reflexivity. Qed.

(* ---- gateway_coef_sign (centrality_type = 'degree') ----
   The property text asks for [gateway_partition_only_statement]:
     forall n W ci ci', same_part n ci ci' -> gw_agree n (gateway_coef_sign n W ci) (gateway_coef_sign n W ci')
   (both raise IndexError, or both return and the coefficients agree).  The faithful model of the code AS IT IS
   REFUTES it: one edge 0-1, blocks {0,1} {2}; numbering the blocks (1,2) gives Gpos = [3/4, 7/16, 0], numbering them
   (2,1) gives [7/16, 3/4, 0] (kj[i] /= 2 halves the row whose index is the module number).  The harness replays
   the witness on the implementation: open finding gateway_coef_sign:relabel. *)
Theorem C14_gateway_coef_sign_refuted :
  exists n W ci ci', same_part n ci ci' /\ ~ gw_agree n (gateway_coef_sign n W ci) (gateway_coef_sign n W ci').
Proof. exact gateway_coef_sign_refuted. Qed.

Theorem C14_gateway_coef_sign_statement_false : ~ gateway_partition_only_statement.
Proof. exact gateway_partition_only_statement_false. Qed.

Theorem C14_gateway_witness_values :
  run_gw [[0; 1; 0]; [1; 0; 0]; [0; 0; 0]]%list [1; 1; 2]%Z = Some ([3 # 4; 7 # 16; 0], [0; 0; 0])%list /\
  run_gw [[0; 1; 0]; [1; 0; 0]; [0; 0; 0]]%list [2; 2; 1]%Z = Some ([7 # 16; 3 # 4; 0], [0; 0; 0])%list.
Proof. exact gw_witness_values. Qed.

(* ---- gateway_coef_sign for BOTH centrality types (Model/PartitionGWB.v): the centrality vector is a parameter
   (cent = s.copy() for 'degree'; cent = betweenness_wei(invert(W)) for 'betweenness', an external kernel whose value
   depends on the matrix only -- oracle input, one vector for the positive and one for the negative part).
   The 'degree' instance IS the model above; with 'betweenness' the clause is refuted as well: 4-cycle with weights
   1,3,1,2 (betweenness [0,2,2,0]), blocks {0,1},{2,3}: numbering (1,2) gives Gpos[0] = 380/441, numbering (2,1) gives
   305/441.  Open finding gateway_coef_sign[betweenness]:relabel, replayed on the implementation on every check. *)
Theorem C14_gateway_coef_sign_degree_instance : forall n W c K, gcoef_c n W c K (tabv 0 n (gw_s n W)) = gcoef n W c K.
Proof. exact gcoef_c_degree. Qed.

Theorem C14_gateway_coef_sign_betweenness_refuted :
  exists n W ci ci' centp centn, same_part n ci ci' /\
    ~ gw_agree n (gateway_coef_sign_betw n W ci centp centn) (gateway_coef_sign_betw n W ci' centp centn).
Proof. exact gateway_coef_sign_betw_refuted. Qed.

Theorem C14_gateway_betweenness_witness_values :
  run_gwb [[0; 1; 0; 2]; [1; 0; 3; 0]; [0; 3; 0; 1]; [2; 0; 1; 0]]%list [1; 1; 2; 2]%Z [0; 2; 2; 0]%list [0; 0; 0; 0]%list
    = Some ([380 # 441; 3 # 8; 151 # 196; 4 # 9], [0; 0; 0; 0])%list /\
  run_gwb [[0; 1; 0; 2]; [1; 0; 3; 0]; [0; 3; 0; 1]; [2; 0; 1; 0]]%list [2; 2; 1; 1]%Z [0; 2; 2; 0]%list [0; 0; 0; 0]%list
    = Some ([305 # 441; 3 # 8; 375 # 392; 4 # 9], [0; 0; 0; 0])%list.
Proof. exact gwb_witness_values. Qed.

(* the REPAIRED form (proposed_fixes/gateway_coef_sign.diff: column sums with axis=0, own column halved, neighbour
   centralities indexed by node) is a function of the partition only *)
Theorem C14_gateway_coef_sign_repaired_partition_only : forall n W ci ci' i, same_part n ci ci' -> (i < n)%nat ->
  fst (gateway_coef_sign_repaired n W ci) i == fst (gateway_coef_sign_repaired n W ci') i /\
  snd (gateway_coef_sign_repaired n W ci) i == snd (gateway_coef_sign_repaired n W ci') i.
Proof. exact gateway_coef_sign_repaired_partition_only. Qed.

Example C14_gateway_repaired_nonvacuous :
  run_gw_repaired [[0; 1; 0]; [1; 0; 0]; [0; 0; 0]]%list [1; 1; 2]%Z = ([3 # 4; 3 # 4; 0], [0; 0; 0])%list /\
  run_gw_repaired [[0; 1; 0]; [1; 0; 0]; [0; 0; 0]]%list [2; 2; 1]%Z = ([3 # 4; 3 # 4; 0], [0; 0; 0])%list.
Proof. exact gateway_repaired_on_witness. Qed.

(* ---- ci2ls / ls2ci ---- *)
Theorem C14_ci2ls_ls2ci_inverse : forall n ci i, (i < n)%nat -> ls2ci (ci2ls n ci) i = relabel n ci i.
Proof. exact ci2ls_ls2ci_inverse. Qed.

Theorem C14_ci2ls_blocks : forall n ci u i, (u < vmax n (relabel n ci))%nat ->
  (In i (nth u (ci2ls n ci) []) <-> (i < n)%nat /\ relabel n ci i = S u).
Proof. exact ci2ls_blocks. Qed.

(* the REVERSE direction, for the whole routines (Model/PartitionLS.v: early returns, zeroindexed, IndexError = None):
   for a partition of 0..N-1 in list form (every index once, N = number of entries, no empty block) and either value of
   zeroindexed, ls2ci does not raise, returns one label per index, and ci2ls gives the list back with every block written
   in ascending order (sort_block N b is a sorted permutation of b) *)
Theorem C14_ls2ci_ci2ls_inverse : forall zi ls, blocks_ok ls ->
  exists ci, ls2ci_run zi ls = Some ci /\ length ci = length (concat ls) /\
             ci2ls_run (map Z.of_nat ci) = map (sort_block (length ci)) ls /\
             forall b, In b ls -> Permutation (sort_block (length ci) b) b /\ StronglySorted lt (sort_block (length ci) b).
Proof. exact ls2ci_ci2ls_inverse. Qed.

(* the forward direction for the whole routines: ls2ci(ci2ls(ci), zeroindexed) = np.unique ranks, from 1 or from 0 *)
Theorem C14_ci2ls_ls2ci_run : forall zi (cil : list Z), cil <> [] ->
  let n := length cil in
  ls2ci_run zi (ci2ls_run cil) =
  Some (map (fun i => (pred (relabel n (of_list 0%Z cil) i) + (if zi then 0 else 1))%nat) (seq 0 n)).
Proof. exact ci2ls_ls2ci_run. Qed.

(* empty input (ci2ls returns its empty argument, ls2ci an empty tuple); an index >= N raises IndexError; with an EMPTY
   block the labels have a gap that ci2ls closes: ci2ls(ls2ci(ls)) drops the empty block (hence the hypothesis above) *)
Theorem C14_ls2ci_ci2ls_edge_cases :
  (forall zi, ls2ci_run zi [] = Some []) /\ ci2ls_run [] = [] /\
  (forall zi ls y, ls <> [] -> In y (concat ls) -> (length (concat ls) <= y)%nat -> ls2ci_run zi ls = None) /\
  (ls2ci_run false [[2; 0]; []; [1]]%nat = Some [1; 3; 1]%nat /\ ci2ls_run [1; 3; 1]%Z = [[0; 2]; [1]]%nat).
Proof.
  split; [exact ls2ci_run_empty|]. split; [exact ci2ls_run_empty|]. split; [exact ls2ci_run_raises|exact ls2ci_ci2ls_empty_block].
Qed.

Example C14_ls2ci_ci2ls_nonvacuous :
  blocks_ok [[3; 0]; [2]; [4; 1]]%nat /\ ls2ci_run true [[3; 0]; [2]; [4; 1]]%nat = Some [0; 2; 1; 0; 2]%nat /\
  ci2ls_run [0; 2; 1; 0; 2]%Z = [[0; 3]; [2]; [1; 4]]%nat.
Proof.
  split; [|split; vm_compute; reflexivity]. split; [|split].
  - cbn [concat app]. repeat (constructor; [cbn [In]; intuition lia|]). constructor.
  - cbn [concat app length]. intros y Hy. cbn [In] in Hy. intuition lia.
  - intros b Hb. cbn [In] in Hb. intuition (subst; discriminate).
Qed.

Example C14_und_sign_models_agree_nonvacuous :
  let W := of_rows 0 [[0; 2; -1; 3]; [2; 0; 1; -2]; [-1; 1; 0; 1 # 2]; [3; -2; 1 # 2; 0]]%list in
  let ci := of_list 0%Z [5; 5; 9; 2]%Z in
  Qred (modularity_und_sign_q 4 W ci Qsta) = Qred (Modularity.Qsign 4 W 1 Modularity.Qsta (of_list 0%nat [7; 7; 0; 3]%nat)) /\
  ~ modularity_und_sign_q 4 W ci Qsta == 0.
Proof. vm_compute. split; [reflexivity|discriminate]. Qed.

(* non-vacuity: a non-monotone injective renaming permutes the block order, the consumers do not move *)
Example C14_nonvacuous :
  let ci := of_list 0%Z [5; 5; 9; 2]%Z in
  let g := fun z => (100 - 3 * z)%Z in
  let W := of_rows 0 [[0; 1; 2; 0]; [1; 0; 0; 3]; [2; 0; 0; 1]; [0; 3; 1; 0]]%list in
  to_list 4 (relabel 4 ci) = [2; 2; 3; 1]%nat%list /\
  to_list 4 (relabel 4 (fun i => g (ci i))) = [2; 2; 1; 3]%nat%list /\
  Qred (participation_coef 4 W ci false 0%nat) = 4 # 9 /\
  Qred (participation_coef 4 W (fun i => g (ci i)) false 0%nat) = 4 # 9.
Proof. vm_compute. repeat split; reflexivity. Qed.

Print Assumptions C14_relabel_injective_invariant.
Print Assumptions C14_relabel_canonical.
Print Assumptions C14_relabel_onto.
Print Assumptions C14_injective_same_part.
Print Assumptions C14_participation_coef_partition_only.
Print Assumptions C14_participation_coef_formula.
Print Assumptions C14_participation_coef_sign_partition_only.
Print Assumptions C14_module_degree_zscore_partition_only.
Print Assumptions C14_module_degree_zscore_invariant.
Print Assumptions C14_modularity_und_partition_only.
Print Assumptions C14_modularity_dir_partition_only.
Print Assumptions C14_modularity_und_sign_partition_only.
Print Assumptions C14_agreement_counts.
Print Assumptions C14_agreement_partition_only.
Print Assumptions C14_partition_distance_symmetric.
Print Assumptions C14_partition_distance_partition_only.
Print Assumptions C14_partition_distance_same.
Print Assumptions C14_VIn_nonneg.
Print Assumptions C14_VIn_zero_same.
Print Assumptions C14_MIn_one_same.
Print Assumptions C14_partition_distance_exactly_when.
Print Assumptions C14_VIn_range_any_log.
Print Assumptions C14_VIn_range.
Print Assumptions C14_partition_distance_ln_symmetric.
Print Assumptions C14_partition_distance_ln_partition_only.
Print Assumptions C14_partition_distance_ln_same.
Print Assumptions C14_partition_distance_ln_exactly_when.
Print Assumptions C14_diversity_coef_sign_partition_only.
Print Assumptions C14_gateway_coef_sign_refuted.
Print Assumptions C14_gateway_coef_sign_statement_false.
Print Assumptions C14_gateway_witness_values.
Print Assumptions C14_gateway_coef_sign_repaired_partition_only.
Print Assumptions C14_ci2ls_ls2ci_inverse.
Print Assumptions C14_ci2ls_blocks.
Print Assumptions C14_und_sign_models_agree.
Print Assumptions C14_agreement_statement_level.
Print Assumptions C14_dummyvar_spec.
Print Assumptions C14_ls2ci_ci2ls_inverse.
Print Assumptions C14_ci2ls_ls2ci_run.
Print Assumptions C14_ls2ci_ci2ls_edge_cases.
Print Assumptions C14_gateway_coef_sign_degree_instance.
Print Assumptions C14_gateway_coef_sign_betweenness_refuted.
Print Assumptions C14_gateway_betweenness_witness_values.
