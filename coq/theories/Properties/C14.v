From Coq Require Import QArith List Arith Bool ZArith Lia.
From BCT Require Import Base.Mat Base.SumQ Base.ListX Model.Partition Proofs.Partition.
Theorem C14_stub : True. Proof. exact pstub. Qed.
Print Assumptions C14_stub.
