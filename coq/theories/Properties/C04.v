(* Properties/C04.v — graph measures are equivariant under renumbering of the nodes.
   Only statements; every proof is `exact <lemma of Proofs/SymTerm*.v>`.

   Reading guide.  [pm p A] is A[ix_(p,p)], [pv p v] is v[p].  [perm_on n p]: p is a bijection of the n nodes
   (extended injectively outside [0,n); [C04_list_permutation]: every permutation LIST gives one).
   [sem]/[semp]/[eval_*] evaluate terms / programs / measures of the index-symmetric language of
   Model/SymTerm.v; [prims] interprets the abstract pointwise primitives (sqrt, cbrt) and is universally
   quantified (any function respecting ==).  A measure is tied to bctpy's code by correspondence (harness):
   the extracted [run_measure] is run on the same matrices as the implementation. *)
From Coq Require Import QArith List Arith Permutation.
From BCT Require Import Base.Mat Base.SumQ Model.SymTerm Proofs.SymTerm Proofs.SymTermLib.
From BCT Require Import Gen.SymTermGen Model.SymTermGenRun Proofs.SymTermGenThm.
Import ListNotations.
Open Scope Q_scope.

Section C04.
Variable prims : nat -> Q -> Q.
Hypothesis prims_proper : forall k a b, a == b -> prims k a == prims k b.
Variable n : nat.
Variable p : nat -> nat.
Hypothesis Hp : perm_on n p.

(* re-indexing a sum over all nodes by a renumbering *)
Theorem C04_sumQ_reindex : forall f : nat -> Q, sumQ (fun k => f (p k)) n == sumQ f n.
Proof. intros f. exact (sumQ_reindex n p f Hp). Qed.

(* THE THEOREM: a term evaluated on the renumbered inputs at nodes env = the term on the original inputs at p(env) *)
Theorem C04_symterm_equivariant : forall t me ve se env,
  sem prims n (amap (pm p) me) (amap (pv p) ve) se env t == sem prims n me ve se (amap p env) t.
Proof. exact (symterm_equivariant prims prims_proper n p Hp). Qed.

(* programs (lets, bounded iteration, one output): scalar unchanged, vector permuted, matrix permuted on both axes *)
Theorem C04_prog_equivariant : forall pr me ve se,
  match semp prims n (amap (pm p) me) (amap (pv p) ve) se pr, semp prims n me ve se pr with
  | RS a, RS b => a == b
  | RV u, RV v => forall i, u i == v (p i)
  | RM M', RM M => forall i j, M' i j == M (p i) (p j)
  | _, _ => False
  end.
Proof. exact (prog_equivariant prims prims_proper n p Hp). Qed.

(* measures: matrix A, label vector ci (renumbered too), parameters ks *)
Theorem C04_measure_equivariant_scalar : forall pr A ci ks,
  eval_s prims n pr (pm p A) (pv p ci) ks == eval_s prims n pr A ci ks.
Proof. exact (measure_equivariant_scalar prims prims_proper n p Hp). Qed.
Theorem C04_measure_equivariant_vector : forall pr A ci ks i,
  eval_v prims n pr (pm p A) (pv p ci) ks i == eval_v prims n pr A ci ks (p i).
Proof. exact (measure_equivariant_vector prims prims_proper n p Hp). Qed.
Theorem C04_measure_equivariant_matrix : forall pr A ci ks i j,
  eval_m prims n pr (pm p A) (pv p ci) ks i j == eval_m prims n pr A ci ks (p i) (p j).
Proof. exact (measure_equivariant_matrix prims prims_proper n p Hp). Qed.

(* every entry of the dispatch table the driver runs (all measures of the library, all parameters) *)
Theorem C04_library_equivariant : forall id k A ci ks,
  eval_s prims n (measure_by_id id k) (pm p A) (pv p ci) ks == eval_s prims n (measure_by_id id k) A ci ks /\
  (forall i, eval_v prims n (measure_by_id id k) (pm p A) (pv p ci) ks i == eval_v prims n (measure_by_id id k) A ci ks (p i)) /\
  (forall i j, eval_m prims n (measure_by_id id k) (pm p A) (pv p ci) ks i j == eval_m prims n (measure_by_id id k) A ci ks (p i) (p j)).
Proof.
  intros. split; [|split]; intros.
  - exact (measure_equivariant_scalar prims prims_proper n p Hp _ A ci ks).
  - exact (measure_equivariant_vector prims prims_proper n p Hp _ A ci ks i).
  - exact (measure_equivariant_matrix prims prims_proper n p Hp _ A ci ks i j).
Qed.

(* instances, by output kind (each term's kind is checked by the Examples at the end) *)
Theorem C04_degrees_und : forall A ci ks i,
  eval_v prims n t_degrees_und (pm p A) (pv p ci) ks i == eval_v prims n t_degrees_und A ci ks (p i).
Proof. exact (measure_equivariant_vector prims prims_proper n p Hp t_degrees_und). Qed.
Theorem C04_clustering_coef_bu : forall A ci ks i,
  eval_v prims n t_clustering_coef_bu (pm p A) (pv p ci) ks i == eval_v prims n t_clustering_coef_bu A ci ks (p i).
Proof. exact (measure_equivariant_vector prims prims_proper n p Hp t_clustering_coef_bu). Qed.
Theorem C04_transitivity_bu : forall A ci ks,
  eval_s prims n t_transitivity_bu (pm p A) (pv p ci) ks == eval_s prims n t_transitivity_bu A ci ks.
Proof. exact (measure_equivariant_scalar prims prims_proper n p Hp t_transitivity_bu). Qed.
Theorem C04_matching_ind : forall t, In t [t_matching_in; t_matching_out; t_matching_all] -> forall A ci ks i j,
  eval_m prims n t (pm p A) (pv p ci) ks i j == eval_m prims n t A ci ks (p i) (p j).
Proof. intros t _. exact (measure_equivariant_matrix prims prims_proper n p Hp t). Qed.
Theorem C04_gtom : forall steps A ci ks i j,
  eval_m prims n (t_gtom steps) (pm p A) (pv p ci) ks i j == eval_m prims n (t_gtom steps) A ci ks (p i) (p j).
Proof. intros steps. exact (measure_equivariant_matrix prims prims_proper n p Hp (t_gtom steps)). Qed.
Theorem C04_distance_bin : forall A ci ks i j,
  eval_m prims n t_distance_bin (pm p A) (pv p ci) ks i j == eval_m prims n t_distance_bin A ci ks (p i) (p j).
Proof. exact (measure_equivariant_matrix prims prims_proper n p Hp t_distance_bin). Qed.
Theorem C04_kcore_bu : forall A ci k i j,
  eval_m prims n (t_kcore true) (pm p A) (pv p ci) [k] i j == eval_m prims n (t_kcore true) A ci [k] (p i) (p j).
Proof. intros A ci k. exact (measure_equivariant_matrix prims prims_proper n p Hp (t_kcore true) A ci [k]). Qed.
Theorem C04_participation_coef : forall W ci ks i,
  eval_v prims n t_participation_coef (pm p W) (pv p ci) ks i == eval_v prims n t_participation_coef W ci ks (p i).
Proof. exact (measure_equivariant_vector prims prims_proper n p Hp t_participation_coef). Qed.
Theorem C04_module_degree_zscore : forall W ci ks i,
  eval_v prims n t_module_degree_zscore (pm p W) (pv p ci) ks i == eval_v prims n t_module_degree_zscore W ci ks (p i).
Proof. exact (measure_equivariant_vector prims prims_proper n p Hp t_module_degree_zscore). Qed.
Theorem C04_components : forall A ci ks,
  (forall i j, eval_m prims n t_components_rel (pm p A) (pv p ci) ks i j == eval_m prims n t_components_rel A ci ks (p i) (p j)) /\
  eval_s prims n t_number_of_components (pm p A) (pv p ci) ks == eval_s prims n t_number_of_components A ci ks.
Proof.
  intros. split; [intros|].
  - exact (measure_equivariant_matrix prims prims_proper n p Hp t_components_rel A ci ks i j).
  - exact (measure_equivariant_scalar prims prims_proper n p Hp t_number_of_components A ci ks).
Qed.
Theorem C04_assortativity_wei : forall flag W ci ks,
  eval_s prims n (t_assortativity_wei flag) (pm p W) (pv p ci) ks == eval_s prims n (t_assortativity_wei flag) W ci ks.
Proof. intros flag. exact (measure_equivariant_scalar prims prims_proper n p Hp (t_assortativity_wei flag)). Qed.

Theorem C04_betweenness_bin : forall A ci ks i,
  eval_v prims n t_betweenness_bin (pm p A) (pv p ci) ks i == eval_v prims n t_betweenness_bin A ci ks (p i).
Proof. exact (measure_equivariant_vector prims prims_proper n p Hp t_betweenness_bin). Qed.
(* coreness: a family of programs indexed by the number K of peeling levels (K = N-1 in the code) *)
Theorem C04_kcoreness : forall und K A ci ks i,
  eval_v prims n (t_kcoreness und K) (pm p A) (pv p ci) ks i == eval_v prims n (t_kcoreness und K) A ci ks (p i).
Proof. intros und K. exact (measure_equivariant_vector prims prims_proper n p Hp (t_kcoreness und K)). Qed.

(* LAPACK measures: only the defining equation (full statements: pagerank_full_statement,
   eigenvector_full_statement in Proofs/SymTermLib.v, not proved) *)
Theorem C04_pagerank_equation_partial : forall A r d,
  solves_pagerank prims n A r d -> solves_pagerank prims n (pm p A) (pv p r) d.
Proof. exact (pagerank_equation_partial prims prims_proper n p Hp). Qed.
Theorem C04_eigenvector_equation_partial : forall A v lam,
  is_eigenvector prims n A v lam -> is_eigenvector prims n (pm p A) (pv p v) lam.
Proof. exact (eigenvector_equation_partial prims prims_proper n p Hp). Qed.
Theorem C04_subgraph_truncation_partial : forall K A ci ks i,
  eval_v prims n (t_subgraph_trunc K) (pm p A) (pv p ci) ks i == eval_v prims n (t_subgraph_trunc K) A ci ks (p i).
Proof. exact (subgraph_truncation_partial prims prims_proper n p Hp). Qed.
End C04.

(* a permutation given as a list is a renumbering; and the theorem at the level of the lists the extracted
   evaluator reads and prints *)
Theorem C04_list_permutation : forall l n, Permutation l (seq 0 n) -> perm_on n (ext_perm l).
Proof. exact ext_perm_perm_on. Qed.
Theorem C04_run_equivariant : forall prims, (forall k a b, a == b -> prims k a == prims k b) ->
  forall n pr A ci ks l, square n A -> length ci = n -> Permutation l (seq 0 n) ->
  let p := ext_perm l in
  let r' := run_prog prims pr (permA l A) (permv l ci) ks in
  let r := run_prog prims pr A ci ks in
  match out_kind pr with
  | KS => res_at r' 0 0 == res_at r 0 0
  | KV => forall i, (i < n)%nat -> res_at r' 0 i == res_at r 0 (p i)
  | KM => forall i j, (i < n)%nat -> (j < n)%nat -> res_at r' i j == res_at r (p i) (p j)
  end.
Proof. exact run_equivariant. Qed.

(* C04 as a predicate on measures (equivariant_measure, Proofs/SymTermLib.v): every measure DEFINABLE in the term
   language has it, whatever the size, the renumbering, the inputs and the interpretation of sqrt / cbrt *)
Theorem C04_every_term_measure_equivariant : forall prims, (forall k a b, a == b -> prims k a == prims k b) ->
  forall pr, equivariant_measure (fun n => eval prims n pr).
Proof. exact every_term_measure_equivariant. Qed.

(* what some of the terms denote *)
Theorem C04_denote_degrees_und : forall prims n A ci ks i,
  eval_v prims n t_degrees_und A ci ks i == sumQ (fun k => nzq (A k i)) n.
Proof. exact denote_degrees_und. Qed.
Theorem C04_denote_transitivity_bu : forall prims n A ci ks,
  eval_s prims n t_transitivity_bu A ci ks ==
  sumQ (fun i => sumQ (fun k => sumQ (fun l => A i k * A k l * A l i) n) n) n
  / (sumQ (fun i => sumQ (fun j => sumQ (fun k => A i k * A k j) n) n) n - sumQ (fun i => sumQ (fun k => A i k * A k i) n) n).
Proof. exact denote_transitivity_bu. Qed.

(* ---------- programs REGENERATED from the Python source on every run (Gen/SymTermGen.v, harness/translate_symterm.py) ----------
   gen_table : list (string * prog) is whatever the translator read in the tree that is checked now.  ONE theorem for the
   whole table, independent of its length and of the shape of its entries: each generated program, as a measure, is
   equivariant for every size, renumbering, input and interpretation of sqrt / cbrt. *)
Theorem C04_gen_equivariant : forall prims, (forall k a b, a == b -> prims k a == prims k b) ->
  forall n p, perm_on n p ->
  forall name pr, In (name, pr) gen_table -> forall A ci ks,
  eval_s prims n pr (pm p A) (pv p ci) ks == eval_s prims n pr A ci ks /\
  (forall i, eval_v prims n pr (pm p A) (pv p ci) ks i == eval_v prims n pr A ci ks (p i)) /\
  (forall i j, eval_m prims n pr (pm p A) (pv p ci) ks i j == eval_m prims n pr A ci ks (p i) (p j)).
Proof. exact gen_equivariant. Qed.
(* the same for what the extracted driver prints (run_gen idx on lists), A[ix_(l,l)] for any permutation list l *)
Theorem C04_gen_run_equivariant : forall prims, (forall k a b, a == b -> prims k a == prims k b) ->
  forall idx n A ci ks l, square n A -> List.length ci = n -> Permutation l (seq 0 n) ->
  let p := ext_perm l in
  let r' := run_gen prims idx (permA l A) (permv l ci) ks in
  let r := run_gen prims idx A ci ks in
  match out_kind (gen_prog idx) with
  | KS => res_at r' 0 0 == res_at r 0 0
  | KV => forall i, (i < n)%nat -> res_at r' 0 i == res_at r 0 (p i)
  | KM => forall i j, (i < n)%nat -> (j < n)%nat -> res_at r' i j == res_at r (p i) (p j)
  end.
Proof. exact gen_run_equivariant. Qed.
(* generated vs hand-written: when the (extracted) syntactic comparison answers true the two ARE the same program,
   hence agree on every input; otherwise the harness compares them by evaluation on the sampled inputs *)
Theorem C04_gen_same_as_hand_sound : forall idx id k, gen_same_as_hand idx id k = true ->
  gen_prog idx = measure_by_id id k /\
  forall prims A ci ks, run_gen prims idx A ci ks = run_measure prims id k A ci ks.
Proof. exact gen_same_as_hand_sound. Qed.
(* the table is not empty (vm_compute on the closed generated list) *)
Example C04_gen_nonvacuous : (1 <=? gen_count)%nat = true.
Proof. vm_compute. reflexivity. Qed.

(* ---------- non-vacuity ---------- *)
Definition idp : nat -> Q -> Q := fun _ x => x.
(* a 4-node graph: path 0-1-2 plus the isolated node 3, renumbered by l = [2;3;0;1] *)
Definition exA : list (list Q) := [[0;1;0;0];[1;0;1;0];[0;1;0;0];[0;0;0;0]].
Definition exl : list nat := [2;3;0;1]%nat.
Example C04_nonvacuous_perm : Permutation exl (seq 0 4).
Proof.
  unfold exl. cbn [seq].
  apply perm_trans with (l' := [0;1;2;3]%nat); [|apply Permutation_refl].
  change [2;3;0;1]%nat with ([2;3] ++ [0;1])%nat. change [0;1;2;3]%nat with ([0;1] ++ [2;3])%nat.
  apply Permutation_app_comm.
Qed.
(* degrees of the original: [1;2;1;0]; of the renumbered network: [1;0;1;2] = the original read at l *)
Example C04_nonvacuous_degrees :
  run_prog idp t_degrees_und exA [] [] = [[1;2;1;0]] /\
  run_prog idp t_degrees_und (permA exl exA) [] [] = [[1;0;1;2]].
Proof. split; vm_compute; reflexivity. Qed.
(* distances (inf coded -1) and 2-core membership really are matrices, clustering a vector, transitivity a scalar *)
Example C04_nonvacuous_kinds :
  out_kind t_distance_bin = KM /\ out_kind (t_kcore true) = KM /\ out_kind (t_gtom 3) = KM /\
  out_kind t_clustering_coef_bu = KV /\ out_kind t_participation_coef = KV /\ out_kind t_module_degree_zscore = KV /\
  out_kind t_transitivity_bu = KS /\ out_kind (t_assortativity_wei 2) = KS /\ out_kind t_number_of_components = KS /\
  out_kind t_matching_all = KM /\ out_kind t_components_rel = KM /\ out_kind (t_subgraph_trunc 5) = KV /\
  out_kind t_pagerank_residual = KV /\ out_kind t_eigen_residual = KV /\
  out_kind t_betweenness_bin = KV /\ out_kind (t_kcoreness true 3) = KV.
Proof. repeat split. Qed.
Example C04_nonvacuous_distance :
  run_prog idp t_distance_bin exA [] [] = [[0;1;2;-1];[1;0;1;-1];[2;1;0;-1];[-1;-1;-1;0]].
Proof. vm_compute. reflexivity. Qed.
(* guarded max / min over all nodes: eccentricities of the path 0-1-2 (+ isolated node: masked row -> 1e20), and
   radius / diameter of K2 *)
Example C04_nonvacuous_bigop :
  run_prog idp t_charpath_ecc exA [] [] = [[2;1;2;100000000000000000000]] /\
  run_prog idp t_charpath_ecc (permA exl exA) [] [] = [[2;100000000000000000000;2;1]] /\
  run_prog idp t_charpath_radius [[0;1;0];[1;0;1];[0;1;0]] [] [] = [[1]] /\
  run_prog idp t_charpath_diameter [[0;1;0];[1;0;1];[0;1;0]] [] [] = [[2]].
Proof. repeat split; vm_compute; reflexivity. Qed.
(* the eigenvector equation has a non-trivial solution here: A = K2, v = (1,1), lambda = 1 *)
Example C04_nonvacuous_eigen :
  is_eigenvector idp 2 (of_rows 0 [[0;1];[1;0]]) (of_list 0 [1;1]) 1.
Proof. intros i Hi. destruct i as [|[|i]]; [vm_compute; reflexivity|vm_compute; reflexivity|inversion Hi as [|? H1]; inversion H1 as [|? H2]; inversion H2]. Qed.

Print Assumptions C04_sumQ_reindex.
Print Assumptions C04_symterm_equivariant.
Print Assumptions C04_prog_equivariant.
Print Assumptions C04_measure_equivariant_scalar.
Print Assumptions C04_measure_equivariant_vector.
Print Assumptions C04_measure_equivariant_matrix.
Print Assumptions C04_library_equivariant.
Print Assumptions C04_degrees_und.
Print Assumptions C04_clustering_coef_bu.
Print Assumptions C04_transitivity_bu.
Print Assumptions C04_matching_ind.
Print Assumptions C04_gtom.
Print Assumptions C04_distance_bin.
Print Assumptions C04_kcore_bu.
Print Assumptions C04_participation_coef.
Print Assumptions C04_module_degree_zscore.
Print Assumptions C04_components.
Print Assumptions C04_assortativity_wei.
Print Assumptions C04_betweenness_bin.
Print Assumptions C04_kcoreness.
Print Assumptions C04_pagerank_equation_partial.
Print Assumptions C04_eigenvector_equation_partial.
Print Assumptions C04_subgraph_truncation_partial.
Print Assumptions C04_list_permutation.
Print Assumptions C04_run_equivariant.
Print Assumptions C04_every_term_measure_equivariant.
Print Assumptions C04_denote_degrees_und.
Print Assumptions C04_denote_transitivity_bu.
Print Assumptions C04_gen_equivariant.
Print Assumptions C04_gen_run_equivariant.
Print Assumptions C04_gen_same_as_hand_sound.
