(* Properties/C04.v — graph measures are equivariant under renumbering of the nodes.
   Only statements; every proof is `exact <lemma of Proofs/SymTerm*.v>`.

   Reading guide.  [pm p A] is A[ix_(p,p)], [pv p v] is v[p].  [perm_on n p]: p is a bijection of the n nodes
   (extended injectively outside [0,n); [C04_list_permutation]: every permutation LIST gives one).
   [sem]/[semp]/[eval_*] evaluate terms / programs / measures of the index-symmetric language of
   Model/SymTerm.v; [prims] interprets the abstract pointwise primitives (sqrt, cbrt) and is universally
   quantified (any function respecting ==).  A measure is tied to bctpy's code by correspondence (harness):
   the extracted [run_measure] is run on the same matrices as the implementation. *)
From Coq Require Import QArith List Arith Permutation ZArith Lia.
From BCT Require Import Base.Mat Base.SumQ Model.SymTerm Proofs.SymTerm Proofs.SymTermLib.
From BCT Require Import Gen.SymTermGen Model.SymTermGenRun Proofs.SymTermGenThm Model.SymTermKinds Proofs.SymTermKinds.
(* statement-level models of other properties (only Required: C03 Distance, C16 Components, C08 Between, C15 Core, C18 Walks / Linear) *)
From BCT Require Import Model.Linear Proofs.EquivModelsLinear Proofs.SymTermFull.
From BCT Require Model.Distance Proofs.DistanceBase Proofs.DistanceBin Proofs.DistanceOther Model.Components Model.Between Model.Core Proofs.Core Model.Walks.
From BCT Require Proofs.EquivModels Proofs.EquivModelsEff Proofs.EquivModelsComp Proofs.EquivModelsBetw Proofs.EquivModelsCore Proofs.EquivModelsWalks.
Import ListNotations.
Open Scope Q_scope.

Section C04.
Variable prims : nat -> Q -> Q.
Hypothesis prims_proper : forall k a b, a == b -> prims k a == prims k b.
Variable n : nat.
Variable p : nat -> nat.
Hypothesis Hp : perm_on n p.

(* re-indexing a sum over all nodes by a renumbering *)
Theorem C04_sumQ_reindex : forall f : nat -> Q, sumQ (fun k => f (p k)) n == sumQ f n.
Proof. intros f. exact (sumQ_reindex n p f Hp). Qed.

(* THE THEOREM: a term evaluated on the renumbered inputs at nodes env = the term on the original inputs at p(env) *)
Theorem C04_symterm_equivariant : forall t me ve se env,
  sem prims n (amap (pm p) me) (amap (pv p) ve) se env t == sem prims n me ve se (amap p env) t.
Proof. exact (symterm_equivariant prims prims_proper n p Hp). Qed.

(* programs (lets, bounded iteration, one output): scalar unchanged, vector permuted, matrix permuted on both axes *)
Theorem C04_prog_equivariant : forall pr me ve se,
  match semp prims n (amap (pm p) me) (amap (pv p) ve) se pr, semp prims n me ve se pr with
  | RS a, RS b => a == b
  | RV u, RV v => forall i, u i == v (p i)
  | RM M', RM M => forall i j, M' i j == M (p i) (p j)
  | _, _ => False
  end.
Proof. exact (prog_equivariant prims prims_proper n p Hp). Qed.

(* measures: matrix A, label vector ci (renumbered too), parameters ks *)
Theorem C04_measure_equivariant_scalar : forall pr A ci ks,
  eval_s prims n pr (pm p A) (pv p ci) ks == eval_s prims n pr A ci ks.
Proof. exact (measure_equivariant_scalar prims prims_proper n p Hp). Qed.
Theorem C04_measure_equivariant_vector : forall pr A ci ks i,
  eval_v prims n pr (pm p A) (pv p ci) ks i == eval_v prims n pr A ci ks (p i).
Proof. exact (measure_equivariant_vector prims prims_proper n p Hp). Qed.
Theorem C04_measure_equivariant_matrix : forall pr A ci ks i j,
  eval_m prims n pr (pm p A) (pv p ci) ks i j == eval_m prims n pr A ci ks (p i) (p j).
Proof. exact (measure_equivariant_matrix prims prims_proper n p Hp). Qed.

(* BY OUTPUT KIND.  eval_s / eval_v / eval_m read a result of another kind as the constant 0, so only the reading that
   matches the program's kind says something.  [kind_code pr] (0 scalar, 1 vector, 2 matrix) is computed from the syntax;
   [equivariant_as c pr A ci ks] is the statement in reading c; [reads_as]: the result really has that constructor. *)
Theorem C04_measure_equivariant_kinded : forall pr A ci ks,
  equivariant_as prims n p (kind_code pr) pr A ci ks /\
  reads_as (kind_code pr) (eval prims n pr A ci ks) (eval_s prims n pr A ci ks) (eval_v prims n pr A ci ks) (eval_m prims n pr A ci ks).
Proof. intros. split; [exact (measure_equivariant_kinded prims prims_proper n p Hp pr A ci ks)|exact (eval_reads prims n pr A ci ks)]. Qed.
(* every entry of the dispatch table the driver runs (all measures of the library, all parameters): its kind is the one
   the table kind_by_id pins for it (whatever k), and it is equivariant in THAT reading *)
Theorem C04_library_equivariant : forall id k A ci ks,
  measure_kind id k = kind_by_id id /\ equivariant_as prims n p (kind_by_id id) (measure_by_id id k) A ci ks.
Proof. exact (library_equivariant_kinded prims prims_proper n p Hp). Qed.

(* named instances of the library, each in the reading of its kind (C04_library_equivariant pins the kinds); ONE theorem:
   they are the generic theorem applied to thirteen pieces of syntax and add no strength to it.  What ties a piece of
   syntax to bctpy's code is the correspondence; for the routines that are searches the statement-level models are
   treated below (C04Models). *)
Theorem C04_library_instances : forall A ci ks,
  (forall i, eval_v prims n t_degrees_und (pm p A) (pv p ci) ks i == eval_v prims n t_degrees_und A ci ks (p i)) /\
  (forall i, eval_v prims n t_clustering_coef_bu (pm p A) (pv p ci) ks i == eval_v prims n t_clustering_coef_bu A ci ks (p i)) /\
  eval_s prims n t_transitivity_bu (pm p A) (pv p ci) ks == eval_s prims n t_transitivity_bu A ci ks /\
  (forall t, In t [t_matching_in; t_matching_out; t_matching_all] -> forall i j,
     eval_m prims n t (pm p A) (pv p ci) ks i j == eval_m prims n t A ci ks (p i) (p j)) /\
  (forall steps i j, eval_m prims n (t_gtom steps) (pm p A) (pv p ci) ks i j == eval_m prims n (t_gtom steps) A ci ks (p i) (p j)) /\
  (forall i j, eval_m prims n t_distance_bin (pm p A) (pv p ci) ks i j == eval_m prims n t_distance_bin A ci ks (p i) (p j)) /\
  (forall k i j, eval_m prims n (t_kcore true) (pm p A) (pv p ci) [k] i j == eval_m prims n (t_kcore true) A ci [k] (p i) (p j)) /\
  (forall i, eval_v prims n t_participation_coef (pm p A) (pv p ci) ks i == eval_v prims n t_participation_coef A ci ks (p i)) /\
  (forall i, eval_v prims n t_module_degree_zscore (pm p A) (pv p ci) ks i == eval_v prims n t_module_degree_zscore A ci ks (p i)) /\
  ((forall i j, eval_m prims n t_components_rel (pm p A) (pv p ci) ks i j == eval_m prims n t_components_rel A ci ks (p i) (p j)) /\
   eval_s prims n t_number_of_components (pm p A) (pv p ci) ks == eval_s prims n t_number_of_components A ci ks) /\
  (forall flag, eval_s prims n (t_assortativity_wei flag) (pm p A) (pv p ci) ks == eval_s prims n (t_assortativity_wei flag) A ci ks) /\
  (forall i, eval_v prims n t_betweenness_bin (pm p A) (pv p ci) ks i == eval_v prims n t_betweenness_bin A ci ks (p i)) /\
  (* coreness: a family of programs indexed by the number K of peeling levels (K = N-1 in the code) *)
  (forall und K i, eval_v prims n (t_kcoreness und K) (pm p A) (pv p ci) ks i == eval_v prims n (t_kcoreness und K) A ci ks (p i)).
Proof.
  intros A ci ks.
  pose proof (measure_equivariant_scalar prims prims_proper n p Hp) as S.
  pose proof (measure_equivariant_vector prims prims_proper n p Hp) as V.
  pose proof (measure_equivariant_matrix prims prims_proper n p Hp) as M.
  split; [exact (V t_degrees_und A ci ks)|]. split; [exact (V t_clustering_coef_bu A ci ks)|].
  split; [exact (S t_transitivity_bu A ci ks)|]. split; [intros t _; exact (M t A ci ks)|].
  split; [intros steps; exact (M (t_gtom steps) A ci ks)|]. split; [exact (M t_distance_bin A ci ks)|].
  split; [intros k; exact (M (t_kcore true) A ci [k])|]. split; [exact (V t_participation_coef A ci ks)|].
  split; [exact (V t_module_degree_zscore A ci ks)|].
  split; [split; [exact (M t_components_rel A ci ks)|exact (S t_number_of_components A ci ks)]|].
  split; [intros flag; exact (S (t_assortativity_wei flag) A ci ks)|]. split; [exact (V t_betweenness_bin A ci ks)|].
  intros und K. exact (V (t_kcoreness und K) A ci ks).
Qed.

(* LAPACK measures.  The renumbered solution solves the renumbered equation (every A, every d, every lambda) ... *)
Theorem C04_pagerank_equation : forall A r d,
  solves_pagerank prims n A r d -> solves_pagerank prims n (pm p A) (pv p r) d.
Proof. exact (pagerank_equation prims prims_proper n p Hp). Qed.
Theorem C04_eigenvector_equation : forall A v lam,
  is_eigenvector prims n A v lam -> is_eigenvector prims n (pm p A) (pv p v) lam.
Proof. exact (eigenvector_equation prims prims_proper n p Hp). Qed.
(* ... and the FULL statements: what the routine RETURNS commutes with the renumbering.
   pagerank_centrality(A, d): for A >= 0 and 0 <= d < 1 the system has exactly one solution (C18), so ANY solver of it -
   normalisation r /= sum(r) included - is equivariant.  (The earlier text of pagerank_full_statement quantified over
   singular systems such as d = 1 and was false.) *)
Theorem C04_pagerank_full : forall (solver : mat Q -> Q -> vec Q),
  (forall A d, nonneg_mat n A -> 0 <= d -> d < 1 -> solves_pagerank prims n A (solver A d) d) ->
  forall A d, nonneg_mat n A -> 0 <= d -> d < 1 -> forall i, (i < n)%nat ->
    solver (pm p A) d i == solver A d (p i) /\
    pr_norm n (solver (pm p A) d) i == pr_norm n (solver A d) (p i).
Proof. exact (pagerank_full prims n p Hp). Qed.
(* eigenvector_centrality_und: on connected (irreducible) undirected non-negative networks ANY routine returning a
   non-negative non-zero eigenvector of fixed norm - for whichever eigenvalue - is equivariant, and so is the eigenvalue
   (uniqueness half of Perron-Frobenius, proved over Q).  (The earlier text asked only `is_eigenvector`, which the zero
   vector and every multiple satisfy: it was false.)  The hypothesis on the routine - abs(V[:, argmax])
   is such a vector - is DISCHARGED from the specification of the LAPACK call alone (eigenpair for the top of the Rayleigh
   quotient) in C04_eigenvector_abs_full below, through C18_eigvec_abs_ok. *)
Theorem C04_eigenvector_full : forall (solver : mat Q -> vec Q) (lam : mat Q -> Q) (norm2 : Q),
  (forall A, symmetric_mat n A -> nonneg_mat n A -> irreducible n A ->
     is_eigenvector prims n A (solver A) (lam A) /\ nonneg_vec n (solver A) /\
     (exists i, (i < n)%nat /\ ~ solver A i == 0) /\ normsq n (solver A) == norm2) ->
  forall A, symmetric_mat n A -> nonneg_mat n A -> irreducible n A ->
    lam (pm p A) == lam A /\ forall i, (i < n)%nat -> solver (pm p A) i == solver A (p i).
Proof. exact (eigenvector_full prims n p Hp). Qed.
(* the two residual TERMS denote the systems of C18's model (Model/Linear.v) *)
Theorem C04_residual_terms_denote : forall A r d i,
  ((i < n)%nat -> pagerank_residual prims n A r d i == mvecQ n (pr_B n A d) r i - pr_b d (uniform n) i) /\
  eigen_residual prims n A r d i == mvecQ n A r i - d * r i.
Proof. intros A r d i. split; [exact (pagerank_residual_denote prims n A r d i)|exact (eigen_residual_denote prims n A r d i)]. Qed.
(* subgraph centrality, the rational truncations of the series sum_k (A^k)_ii / k! (the term the correspondence run
   evaluates at K = 30): every truncation order is equivariant.  A lemma now - the FULL statement, about the matrix
   exponential itself, is C04_subgraph_expm_equivariant at the end of this file. *)
Theorem C04_subgraph_truncation : forall K A ci ks i,
  eval_v prims n (t_subgraph_trunc K) (pm p A) (pv p ci) ks i == eval_v prims n (t_subgraph_trunc K) A ci ks (p i).
Proof. exact (subgraph_truncation_partial prims prims_proper n p Hp). Qed.
End C04.

(* ================================================================================================================ *)
(* THE STATEMENT-LEVEL MODELS.  The terms above for distances, betweenness, components, cores and walks are closed-form
   SPECIFICATIONS; the code is a search (matrix-power loop, Floyd-Warshall `for k in range(n)`, Dijkstra with its batch of
   equal-distance nodes, breadth-first queue, set-merging loop over the edge list, peeling rounds with np.where in index
   order).  Those loops are modelled statement by statement in Model/{Distance,Components,Between,Core,Walks}.v (other
   properties; that each model IS the code is their correspondence) and proved there to return a specification that does
   not mention the visiting order.  Here: that specification is equivariant (a renumbering maps walks to walks, minimum
   lengths to minimum lengths, the set of ALL minimum-length walks bijectively, paths to paths, feasible core sets to
   feasible core sets, matrix powers to matrix powers) and determines its value, hence
                 model (p.A)  =  p.(model A)            for the LOOPS AS WRITTEN:
   no result depends on the order in which the nodes happen to be visited.  Outputs the property leaves free and that
   genuinely depend on that order under ties are NOT claimed: hops / Pmat of distance_wei_floyd, B of distance_wei
   (number of edges of the minimum-length walk met first), label numbers of get_components (see there), peelorder. *)
Section C04Models.
Variable n : nat.
Variable p : nat -> nat.
Hypothesis Hp : perm_on n p.
Import Model.Distance.

(* every renumbering has an inverse renumbering *)
Theorem C04_inverse_renumbering :
  perm_on n (EquivModels.inv_perm n p) /\
  (forall j, (j < n)%nat -> p (EquivModels.inv_perm n p j) = j) /\ (forall i, (i < n)%nat -> EquivModels.inv_perm n p (p i) = i).
Proof.
  split; [exact (EquivModels.inv_perm_perm_on n p Hp)|split].
  - intros j Hj. exact (proj1 (EquivModels.inv_perm_r n p j Hp Hj)).
  - exact (fun i Hi => EquivModels.inv_perm_l n p i Hp Hi).
Qed.

(* --- C03: distances.  [oeq]: equality of extended lengths (option Q up to ==) --- *)
(* distance_wei_floyd: the k-loop in index order; every transform *)
Theorem C04_floyd_model_equivariant : forall L : mat len, Distance.nonneg n L ->
  forall i j, (i < n)%nat -> (j < n)%nat -> DistanceBase.oeq (spl (floyd n (pm p L)) i j) (spl (floyd n L) (p i) (p j)).
Proof. exact (EquivModels.floyd_model_equivariant n p Hp). Qed.
Theorem C04_distance_wei_floyd_model_equivariant : forall (nlog : Q -> Q) (A : mat Q) (tr : transform),
  (forall w, 0 < w -> w <= 1 -> 0 <= nlog w) ->
  (forall i j, (i < n)%nat -> (j < n)%nat -> 0 <= A i j) ->
  (tr = TLog -> forall i j, (i < n)%nat -> (j < n)%nat -> A i j <= 1) ->
  forall i j, (i < n)%nat -> (j < n)%nat ->
    DistanceBase.oeq (spl (distance_wei_floyd nlog n (pm p A) tr) i j) (spl (distance_wei_floyd nlog n A tr) (p i) (p j)).
Proof. exact (EquivModels.distance_wei_floyd_model_equivariant n p Hp). Qed.
(* distance_bin (matrix-power loop): both runs return, and the matrices correspond *)
Theorem C04_distance_bin_model_equivariant : forall A : mat Z,
  exists D' D, distance_bin n (pm p A) = Some D' /\ distance_bin n A = Some D /\
    forall i j, (i < n)%nat -> (j < n)%nat -> D' i j = D (p i) (p j).
Proof. exact (EquivModels.distance_bin_model_equivariant n p Hp). Qed.
(* distance_wei (Dijkstra as written), non-negative entries: the distance output *)
Theorem C04_distance_wei_model_equivariant : forall G : mat Q, (forall i j, (i < n)%nat -> (j < n)%nat -> 0 <= G i j) ->
  exists D' B' D B, distance_wei n (pm p G) = Some (D', B') /\ distance_wei n G = Some (D, B) /\
    forall i j, (i < n)%nat -> (j < n)%nat -> DistanceBase.oeq (D' i j) (D (p i) (p j)).
Proof. exact (EquivModels.distance_wei_model_equivariant n p Hp). Qed.
(* breadthdist (one breadth-first search per source; queue in index order) and reachdist (matrix powers with pruning
   lists): both outputs, every ordered pair, diagonal included *)
Theorem C04_breadthdist_model_equivariant : forall C : mat Z,
  exists R' D' R D, breadthdist n (pm p C) = Some (R', D') /\ breadthdist n C = Some (R, D) /\
    forall i j, (i < n)%nat -> (j < n)%nat -> D' i j = D (p i) (p j) /\ R' i j = R (p i) (p j).
Proof. exact (EquivModels.breadthdist_model_equivariant n p Hp). Qed.
Theorem C04_reachdist_model_equivariant : forall A : mat Z,
  exists R' D' R D, reachdist n (pm p A) = Some (R', D') /\ reachdist n A = Some (R, D) /\
    forall i j, (i < n)%nat -> (j < n)%nat -> D' i j = D (p i) (p j) /\ R' i j = R (p i) (p j).
Proof. exact (EquivModels.reachdist_model_equivariant n p Hp). Qed.

(* the GLOBAL efficiencies built on those loops: mean of 1/D over the ordered pairs of distinct nodes ([ext_eq]: equal as
   nan / inf / a rational up to ==); rout_efficiency also returns the pairwise matrix *)
Theorem C04_efficiency_model_equivariant :
  (forall A : mat Z, exists e' e, efficiency_bin n (pm p A) = Some e' /\ efficiency_bin n A = Some e /\ EquivModelsEff.ext_eq e' e) /\
  (forall W : mat Q, (forall i j, (i < n)%nat -> (j < n)%nat -> 0 <= W i j) ->
     exists e' e, efficiency_wei n (pm p W) = Some e' /\ efficiency_wei n W = Some e /\ EquivModelsEff.ext_eq e' e) /\
  (forall (nlog : Q -> Q) (A : mat Q) (tr : transform),
     (forall w, 0 < w -> w <= 1 -> 0 <= nlog w) -> (forall i j, (i < n)%nat -> (j < n)%nat -> 0 <= A i j) ->
     (tr = TLog -> forall i j, (i < n)%nat -> (j < n)%nat -> A i j <= 1) ->
     EquivModelsEff.ext_eq (fst (rout_efficiency nlog n (pm p A) tr)) (fst (rout_efficiency nlog n A tr)) /\
     forall i j, (i < n)%nat -> (j < n)%nat ->
       snd (rout_efficiency nlog n (pm p A) tr) i j == snd (rout_efficiency nlog n A tr) (p i) (p j)).
Proof.
  split; [exact (EquivModelsEff.efficiency_bin_model_equivariant n p Hp)|split].
  - exact (EquivModelsEff.efficiency_wei_model_equivariant n p Hp).
  - exact (EquivModelsEff.rout_efficiency_model_equivariant n p Hp).
Qed.
Theorem C04_ext_eq_unfold : forall a b, EquivModelsEff.ext_eq a b <->
  match a, b with ENaN, ENaN => True | EInf, EInf => True | EFin x, EFin y => x == y | _, _ => False end.
Proof. intros. reflexivity. Qed.

(* --- C16: get_components (edge list in row-major order, set-merging loop).  Refused together (asymmetric input);
   otherwise the PARTITION is transported, the number of components is the same, and the label numbers and comp_sizes
   are those of the original UP TO ONE RENAMING sigma, a bijection of 1..m (a block's number is its position in the
   list union_sets, which depends on the order in which the edges arrive: label numbers are not equivariant, and the
   property leaves them free) --- *)
Theorem C04_get_components_model_equivariant : forall A : mat Z,
  (Components.get_components n (pm p A) = None <-> Components.get_components n A = None) /\
  forall c' s' c s, Components.get_components n (pm p A) = Some (c', s') -> Components.get_components n A = Some (c, s) ->
    (forall u v, (u < n)%nat -> (v < n)%nat -> (nth u c' 0%nat = nth v c' 0%nat <-> nth (p u) c 0%nat = nth (p v) c 0%nat)) /\
    length s' = length s /\
    exists sigma : nat -> nat,
      (forall l, (1 <= l <= length s')%nat -> (1 <= sigma l <= length s)%nat) /\
      (forall l1 l2, (1 <= l1 <= length s')%nat -> (1 <= l2 <= length s')%nat -> sigma l1 = sigma l2 -> l1 = l2) /\
      (forall l, (1 <= l <= length s)%nat -> exists l', (1 <= l' <= length s')%nat /\ sigma l' = l) /\
      (forall u, (u < n)%nat -> nth (p u) c 0%nat = sigma (nth u c' 0%nat)) /\
      (forall l, (1 <= l <= length s')%nat -> nth (sigma l - 1) s 0%nat = nth (l - 1) s' 0%nat).
Proof. exact (EquivModelsComp.get_components_model_equivariant n p Hp). Qed.
Theorem C04_number_of_components_model_equivariant : forall A : mat Z,
  Components.number_of_components n (pm p A) = Components.number_of_components n A.
Proof. exact (EquivModelsComp.number_of_components_model_equivariant n p Hp). Qed.

(* --- C08: the four betweenness routines (G = lengths, 0 = no connection) --- *)
Theorem C04_betweenness_model_equivariant : forall G : mat Z,
  (Between.binary n G ->
     exists BC' BC, Between.betweenness_bin n (pm p G) = Some BC' /\ Between.betweenness_bin n G = Some BC /\
       forall v, (v < n)%nat -> BC' v == BC (p v)) /\
  (Between.nonneg_len n G ->
     exists BC' BC, Between.betweenness_wei n (pm p G) = Some BC' /\ Between.betweenness_wei n G = Some BC /\
       forall v, (v < n)%nat -> BC' v == BC (p v)).
Proof.
  intros G. split; [exact (EquivModelsBetw.betweenness_bin_model_equivariant n p Hp G)|exact (EquivModelsBetw.betweenness_wei_model_equivariant n p Hp G)].
Qed.
Theorem C04_edge_betweenness_model_equivariant : forall G : mat Z,
  (Between.binary n G ->
     exists EBC' BC' EBC BC, Between.edge_betweenness_bin n (pm p G) = Some (EBC', BC') /\ Between.edge_betweenness_bin n G = Some (EBC, BC) /\
       (forall v, (v < n)%nat -> BC' v == BC (p v)) /\
       (forall x y, (x < n)%nat -> (y < n)%nat -> EBC' x y == EBC (p x) (p y))) /\
  (Between.nonneg_len n G ->
     exists EBC' BC' EBC BC, Between.edge_betweenness_wei n (pm p G) = Some (EBC', BC') /\ Between.edge_betweenness_wei n G = Some (EBC, BC) /\
       (forall v, (v < n)%nat -> BC' v == BC (p v)) /\
       (forall x y, (x < n)%nat -> (y < n)%nat -> EBC' x y == EBC (p x) (p y))).
Proof.
  intros G. split; [exact (EquivModelsBetw.edge_betweenness_bin_model_equivariant n p Hp G)|exact (EquivModelsBetw.edge_betweenness_wei_model_equivariant n p Hp G)].
Qed.

(* --- C15: the peeling loops.  core = the surviving node set, pr_M = the returned matrix, kn = its size --- *)
Theorem C04_kcore_model_equivariant : forall (W : mat Q) (k : Q),
  (Core.symmetric n W ->
     exists r' r, Core.kcore_bu n (pm p W) k = Some r' /\ Core.kcore_bu n W k = Some r /\ EquivModelsCore.core_outputs_equivariant n p r' r) /\
  (exists r' r, Core.kcore_bd n (pm p W) k = Some r' /\ Core.kcore_bd n W k = Some r /\ EquivModelsCore.core_outputs_equivariant n p r' r) /\
  (Core.symmetric n W -> Core.nonneg n W ->
     exists r' r, Core.score_wu n (pm p W) k = Some r' /\ Core.score_wu n W k = Some r /\ EquivModelsCore.core_outputs_equivariant n p r' r).
Proof.
  intros W k. split; [exact (EquivModelsCore.kcore_bu_model_equivariant n p Hp W k)|split].
  - exact (EquivModelsCore.kcore_bd_model_equivariant n p Hp W k).
  - exact (EquivModelsCore.score_wu_model_equivariant n p Hp W k).
Qed.
Theorem C04_core_outputs_unfold : forall r' r, EquivModelsCore.core_outputs_equivariant n p r' r <->
  ((forall j, (j < n)%nat -> Core.core r' j = Core.core r (p j)) /\
   (forall i j, (i < n)%nat -> (j < n)%nat -> Core.pr_M r' i j == Core.pr_M r (p i) (p j)) /\
   Core.kn_of n (Core.pr_deg r') = Core.kn_of n (Core.pr_deg r)).
Proof. intros. reflexivity. Qed.
(* the scans `for k in range(N)`: coreness permuted, the vector kn of k-core sizes unchanged *)
Theorem C04_kcoreness_model_equivariant : forall W : mat Q,
  (Core.symmetric n W -> Core.nonneg n W -> (forall i, (i < n)%nat -> W i i == 0) ->
     exists cor' kn' cor kn, Core.kcoreness_centrality_bu n (pm p W) = Some (cor', kn') /\
       Core.kcoreness_centrality_bu n W = Some (cor, kn) /\ (forall j, (j < n)%nat -> cor' j = cor (p j)) /\ kn' = kn) /\
  (Core.nonneg n W ->
     exists cor' kn' cor kn, Core.kcoreness_centrality_bd n (pm p W) = Some (cor', kn') /\
       Core.kcoreness_centrality_bd n W = Some (cor, kn) /\ (forall j, (j < n)%nat -> cor' j = cor (p j)) /\ kn' = kn).
Proof.
  intros W. split; [exact (EquivModelsCore.kcoreness_bu_model_equivariant n p Hp W)|exact (EquivModelsCore.kcoreness_bd_model_equivariant n p Hp W)].
Qed.

(* --- C18: findwalks (the loop over matrix powers): slices permuted on both node axes, wlq and twalk unchanged --- *)
Theorem C04_findwalks_model_equivariant : forall A : mat Z,
  (Walks.findwalks n (pm p A) = None <-> Walks.findwalks n A = None) /\
  forall Wq' Wq, Walks.findwalks n (pm p A) = Some Wq' -> Walks.findwalks n A = Some Wq ->
    (forall q i j, (q < n)%nat -> (i < n)%nat -> (j < n)%nat -> Wq' q i j = Wq q (p i) (p j)) /\
    (forall q, (q < n)%nat -> Walks.wlq n Wq' q = Walks.wlq n Wq q) /\
    Walks.twalk n Wq' = Walks.twalk n Wq.
Proof. exact (EquivModelsWalks.findwalks_model_equivariant n p Hp). Qed.

(* --- C18: pagerank_centrality(A, d, falff) in the vocabulary of Model/Linear.v: x' / r' = whatever `solve` returns for the
   renumbered / original system (only assumed to solve it); the prior falff is renumbered WITH the nodes --- *)
Theorem C04_pagerank_model_equivariant : forall (A : mat Q) (d : Q) (falff : option (vec Q)) (x' r' : vec Q),
  0 <= d -> d < 1 -> (forall i j, (i < n)%nat -> (j < n)%nat -> 0 <= A i j) ->
  (forall i, (i < n)%nat -> mvecQ n (pr_B n (pm p A) d) x' i == pr_b d (pr_prior n (option_map (pv p) falff)) i) ->
  (forall i, (i < n)%nat -> mvecQ n (pr_B n A d) r' i == pr_b d (pr_prior n falff) i) ->
  (forall i, (i < n)%nat -> x' i == r' (p i)) /\
  (forall i, (i < n)%nat -> pr_norm n x' i == pr_norm n r' (p i)).
Proof. exact (EquivModelsLinear.pagerank_model_equivariant n p Hp). Qed.
(* eigenvector centrality in the same vocabulary: proportional in general, equal under equal norms *)
Theorem C04_eigenvector_model_equivariant : forall (A : mat Q) (v w : vec Q) (lam mu : Q), (0 < n)%nat ->
  (forall i j, (i < n)%nat -> (j < n)%nat -> A i j == A j i) ->
  (forall i j, (i < n)%nat -> (j < n)%nat -> 0 <= A i j) -> irreducible n A ->
  nonneg_vec n v -> eigvec n A v lam -> (exists i, (i < n)%nat /\ ~ v i == 0) ->
  nonneg_vec n w -> eigvec n (pm p A) w mu -> (exists i, (i < n)%nat /\ ~ w i == 0) ->
  mu == lam /\
  (exists t, 0 < t /\ forall i, (i < n)%nat -> w i == t * v (p i)) /\
  (normsq n w == normsq n v -> forall i, (i < n)%nat -> w i == v (p i)).
Proof. exact (EquivModelsLinear.eigenvector_model_equivariant n p Hp). Qed.
End C04Models.

(* a permutation given as a list is a renumbering; and the theorem at the level of the lists the extracted
   evaluator reads and prints *)
Theorem C04_list_permutation : forall l n, Permutation l (seq 0 n) -> perm_on n (ext_perm l).
Proof. exact ext_perm_perm_on. Qed.
Theorem C04_run_equivariant : forall prims, (forall k a b, a == b -> prims k a == prims k b) ->
  forall n pr A ci ks l, square n A -> length ci = n -> Permutation l (seq 0 n) ->
  let p := ext_perm l in
  let r' := run_prog prims pr (permA l A) (permv l ci) ks in
  let r := run_prog prims pr A ci ks in
  match out_kind pr with
  | KS => res_at r' 0 0 == res_at r 0 0
  | KV => forall i, (i < n)%nat -> res_at r' 0 i == res_at r 0 (p i)
  | KM => forall i j, (i < n)%nat -> (j < n)%nat -> res_at r' i j == res_at r (p i) (p j)
  end.
Proof. exact run_equivariant. Qed.

(* C04 as a predicate on measures (equivariant_measure, Proofs/SymTermLib.v): every measure DEFINABLE in the term
   language has it, whatever the size, the renumbering, the inputs and the interpretation of sqrt / cbrt *)
Theorem C04_every_term_measure_equivariant : forall prims, (forall k a b, a == b -> prims k a == prims k b) ->
  forall pr, equivariant_measure (fun n => eval prims n pr).
Proof. exact every_term_measure_equivariant. Qed.

(* what some of the terms denote *)
Theorem C04_denote_degrees_und : forall prims n A ci ks i,
  eval_v prims n t_degrees_und A ci ks i == sumQ (fun k => nzq (A k i)) n.
Proof. exact denote_degrees_und. Qed.
Theorem C04_denote_transitivity_bu : forall prims n A ci ks,
  eval_s prims n t_transitivity_bu A ci ks ==
  sumQ (fun i => sumQ (fun k => sumQ (fun l => A i k * A k l * A l i) n) n) n
  / (sumQ (fun i => sumQ (fun j => sumQ (fun k => A i k * A k j) n) n) n - sumQ (fun i => sumQ (fun k => A i k * A k i) n) n).
Proof. exact denote_transitivity_bu. Qed.

(* ---------- programs REGENERATED from the Python source on every run (Gen/SymTermGen.v, harness/translate_symterm.py) ----------
   gen_table : list (string * prog) is whatever the translator read in the tree that is checked now.  ONE theorem for the
   whole table, independent of its length and of the shape of its entries: each generated program, as a measure, is
   equivariant for every size, renumbering, input and interpretation of sqrt / cbrt. *)
Theorem C04_gen_equivariant : forall prims, (forall k a b, a == b -> prims k a == prims k b) ->
  forall n p, perm_on n p ->
  forall name pr, In (name, pr) gen_table -> forall A ci ks,
  equivariant_as prims n p (kind_code pr) pr A ci ks /\
  reads_as (kind_code pr) (eval prims n pr A ci ks) (eval_s prims n pr A ci ks) (eval_v prims n pr A ci ks) (eval_m prims n pr A ci ks).
Proof. exact gen_equivariant_kinded. Qed.
(* the same for what the extracted driver prints (run_gen idx on lists), A[ix_(l,l)] for any permutation list l *)
Theorem C04_gen_run_equivariant : forall prims, (forall k a b, a == b -> prims k a == prims k b) ->
  forall idx n A ci ks l, square n A -> List.length ci = n -> Permutation l (seq 0 n) ->
  let p := ext_perm l in
  let r' := run_gen prims idx (permA l A) (permv l ci) ks in
  let r := run_gen prims idx A ci ks in
  match out_kind (gen_prog idx) with
  | KS => res_at r' 0 0 == res_at r 0 0
  | KV => forall i, (i < n)%nat -> res_at r' 0 i == res_at r 0 (p i)
  | KM => forall i j, (i < n)%nat -> (j < n)%nat -> res_at r' i j == res_at r (p i) (p j)
  end.
Proof. exact gen_run_equivariant. Qed.
(* generated vs hand-written: when the (extracted) syntactic comparison answers true the two ARE the same program,
   hence agree on every input; otherwise the harness compares them by evaluation on the sampled inputs *)
Theorem C04_gen_same_as_hand_sound : forall idx id k, gen_same_as_hand idx id k = true ->
  gen_prog idx = measure_by_id id k /\
  forall prims A ci ks, run_gen prims idx A ci ks = run_measure prims id k A ci ks.
Proof. exact gen_same_as_hand_sound. Qed.
(* the table is not empty (vm_compute on the closed generated list) *)
Example C04_gen_nonvacuous : (1 <=? gen_count)%nat = true.
Proof. vm_compute. reflexivity. Qed.

(* ---------- non-vacuity ---------- *)
Definition idp : nat -> Q -> Q := fun _ x => x.
(* a 4-node graph: path 0-1-2 plus the isolated node 3, renumbered by l = [2;3;0;1] *)
Definition exA : list (list Q) := [[0;1;0;0];[1;0;1;0];[0;1;0;0];[0;0;0;0]].
Definition exl : list nat := [2;3;0;1]%nat.
Example C04_nonvacuous_perm : Permutation exl (seq 0 4).
Proof.
  unfold exl. cbn [seq].
  apply perm_trans with (l' := [0;1;2;3]%nat); [|apply Permutation_refl].
  change [2;3;0;1]%nat with ([2;3] ++ [0;1])%nat. change [0;1;2;3]%nat with ([0;1] ++ [2;3])%nat.
  apply Permutation_app_comm.
Qed.
(* degrees of the original: [1;2;1;0]; of the renumbered network: [1;0;1;2] = the original read at l *)
Example C04_nonvacuous_degrees :
  run_prog idp t_degrees_und exA [] [] = [[1;2;1;0]] /\
  run_prog idp t_degrees_und (permA exl exA) [] [] = [[1;0;1;2]].
Proof. split; vm_compute; reflexivity. Qed.
(* distances (inf coded -1) and 2-core membership really are matrices, clustering a vector, transitivity a scalar *)
Example C04_nonvacuous_kinds :
  out_kind t_distance_bin = KM /\ out_kind (t_kcore true) = KM /\ out_kind (t_gtom 3) = KM /\
  out_kind t_clustering_coef_bu = KV /\ out_kind t_participation_coef = KV /\ out_kind t_module_degree_zscore = KV /\
  out_kind t_transitivity_bu = KS /\ out_kind (t_assortativity_wei 2) = KS /\ out_kind t_number_of_components = KS /\
  out_kind t_matching_all = KM /\ out_kind t_components_rel = KM /\ out_kind (t_subgraph_trunc 5) = KV /\
  out_kind t_pagerank_residual = KV /\ out_kind t_eigen_residual = KV /\
  out_kind t_betweenness_bin = KV /\ out_kind (t_kcoreness true 3) = KV.
Proof. repeat split. Qed.
Example C04_nonvacuous_distance :
  run_prog idp t_distance_bin exA [] [] = [[0;1;2;-1];[1;0;1;-1];[2;1;0;-1];[-1;-1;-1;0]].
Proof. vm_compute. reflexivity. Qed.
(* guarded max / min over all nodes: eccentricities of the path 0-1-2 (+ isolated node: masked row -> 1e20), and
   radius / diameter of K2 *)
Example C04_nonvacuous_bigop :
  run_prog idp t_charpath_ecc exA [] [] = [[2;1;2;100000000000000000000]] /\
  run_prog idp t_charpath_ecc (permA exl exA) [] [] = [[2;100000000000000000000;2;1]] /\
  run_prog idp t_charpath_radius [[0;1;0];[1;0;1];[0;1;0]] [] [] = [[1]] /\
  run_prog idp t_charpath_diameter [[0;1;0];[1;0;1];[0;1;0]] [] [] = [[2]].
Proof. repeat split; vm_compute; reflexivity. Qed.
(* the eigenvector equation has a non-trivial solution here: A = K2, v = (1,1), lambda = 1 *)
Example C04_nonvacuous_eigen :
  is_eigenvector idp 2 (of_rows 0 [[0;1];[1;0]]) (of_list 0 [1;1]) 1.
Proof. intros i Hi. destruct i as [|[|i]]; [vm_compute; reflexivity|vm_compute; reflexivity|inversion Hi as [|? H1]; inversion H1 as [|? H2]; inversion H2]. Qed.


(* the statement-level models on the same 4-node example (path 0-1-2 + isolated node 3, renumbered by exl): the distance
   matrices and the betweenness vector are permuted; get_components finds the same two blocks but NUMBERS them differently
   ([1;1;1;2] sizes [3;1] against [2;1;2;2] sizes [1;3]): that is the renaming sigma of C04_get_components_model_equivariant *)
Definition exAz : list (list Z) := [[0;1;0;0];[1;0;1;0];[0;1;0;0];[0;0;0;0]]%Z.
Definition exAzp : list (list Z) := [[0;0;0;1];[0;0;0;0];[0;0;0;1];[1;0;1;0]]%Z.
Example C04_models_nonvacuous :
  (forall i j, (i < 4)%nat -> (j < 4)%nat -> of_rows 0%Z exAzp i j = pm (ext_perm exl) (of_rows 0%Z exAz) i j) /\
  Distance.run_dbin exAz = Some [[Some 0; Some 1; Some 2; None]; [Some 1; Some 0; Some 1; None]; [Some 2; Some 1; Some 0; None]; [None; None; None; Some 0]]%nat /\
  Distance.run_dbin exAzp = Some [[Some 0; None; Some 2; Some 1]; [None; Some 0; None; None]; [Some 2; None; Some 0; Some 1]; [Some 1; None; Some 1; Some 0]]%nat /\
  Components.run_gc exAz = Some ([1; 1; 1; 2], [3; 1])%nat /\ Components.run_gc exAzp = Some ([2; 1; 2; 2], [1; 3])%nat /\
  Between.run_bc_bin exAz = Some [0; 2; 0; 0] /\ Between.run_bc_bin exAzp = Some [0; 0; 0; 2].
Proof.
  split; [|vm_compute; repeat split; reflexivity].
  intros i j Hi Hj. do 4 (destruct i as [|i]; [do 4 (destruct j as [|j]; [reflexivity|]); lia|]). lia.
Qed.
Example C04_linear_nonvacuous :
  let A := of_rows 0 [[0;1];[1;0]] in
  symmetric_mat 2 A /\ nonneg_mat 2 A /\ irreducible 2 A /\
  nonneg_vec 2 (fun _ => 1) /\ eigvec 2 A (fun _ => 1) 1 /\ ~ (fun _ : nat => 1) 0%nat == 0 /\
  (forall i, (i < 2)%nat -> mvecQ 2 (pr_B 2 A (1#2)) (fun _ => 1#2) i == pr_b (1#2) (uniform 2) i).
Proof.
  cbv zeta.
  assert (C : forall i, (i < 2)%nat -> i = 0%nat \/ i = 1%nat) by (intros; lia).
  split; [intros i j Hi Hj; destruct (C i Hi) as [->| ->]; destruct (C j Hj) as [->| ->]; vm_compute; reflexivity|].
  split; [intros i j Hi Hj; destruct (C i Hi) as [->| ->]; destruct (C j Hj) as [->| ->]; vm_compute; discriminate|].
  split.
  - intros i j Hi Hj. destruct (C i Hi) as [->| ->]; destruct (C j Hj) as [->| ->].
    + apply reach_refl.
    + apply (reach_step 2 _ 0%nat 0%nat 1%nat); [apply reach_refl|lia|vm_compute; reflexivity].
    + apply (reach_step 2 _ 1%nat 1%nat 0%nat); [apply reach_refl|lia|vm_compute; reflexivity].
    + apply reach_refl.
  - split; [intros i _; vm_compute; discriminate|].
    split; [intros i Hi; destruct (C i Hi) as [->| ->]; vm_compute; reflexivity|].
    split; [vm_compute; discriminate|].
    intros i Hi; destruct (C i Hi) as [->| ->]; vm_compute; reflexivity.
Qed.

(* every kind pinned by the table is the kind computed from the syntax, on the whole range of ids and for several k *)
Example C04_kinds_nonvacuous :
  forallb (fun id => forallb (fun k => Nat.eqb (measure_kind id k) (kind_by_id id)) [0;1;2;3;7]%nat) (seq 0 54) = true /\
  map kind_by_id [0; 6; 14; 23; 30; 52]%nat = [1; 0; 2; 2; 0; 2]%nat.
Proof. split; vm_compute; reflexivity. Qed.

(* ================================================================================================================ *)
(* eigenvector_centrality_und, from the SPECIFICATION OF THE LAPACK CALL ALONE.  `vals, vecs = eigh(CIJ)` followed by
   `argmax(vals)` is asked for an eigenpair (lam, u) of the symmetric matrix with lam the largest eigenvalue, i.e. the top
   of the Rayleigh quotient: A u = lam u, forall x, x^T A x <= lam x^T x, u <> 0 (LAPACK: unit norm).  Nothing else is
   assumed (C18_eigvec_abs_ok proves that |u| is then a non-negative eigenvector for lam of the same norm; the Perron
   uniqueness of Proofs/EquivModelsLinear.v does the rest).  On a connected undirected non-negative network:
   (1) the returned vector |u| is strictly positive, an eigenvector for lam, and EVERY non-negative non-zero eigenvector w
       of A (whatever its eigenvalue mu) has mu = lam, is a positive multiple of |u|, and equals |u| when it has the norm
       of u: the routine returns THE positive eigenvector of that norm, whichever top eigenvector LAPACK picked;
   (2) for two unrelated LAPACK outputs - one for A, one for the renumbered matrix - of equal norm, the eigenvalues agree
       and the returned vectors agree up to the renumbering.  This is C04_eigenvector_full with its hypothesis on the
       `solver` discharged. *)
From BCT Require Proofs.LinearSpectralFull Proofs.EquivModelsSpectral.
Theorem C04_eigenvector_abs_full : forall n (A : mat Q), (0 < n)%nat ->
  (forall i j, (i < n)%nat -> (j < n)%nat -> A i j == A j i) ->
  (forall i j, (i < n)%nat -> (j < n)%nat -> 0 <= A i j) -> irreducible n A ->
  forall (lam : Q) (u : vec Q),
  (forall i, (i < n)%nat -> mvecQ n A u i == lam * u i) ->
  (forall x : vec Q, qform n A x <= lam * normsq n x) ->
  (exists i, (i < n)%nat /\ ~ u i == 0) ->
  ((forall i, (i < n)%nat -> 0 < vabs u i) /\
   (forall i, (i < n)%nat -> mvecQ n A (vabs u) i == lam * vabs u i) /\
   normsq n (vabs u) == normsq n u /\
   (forall (w : vec Q) (mu : Q),
      (forall i, (i < n)%nat -> 0 <= w i) -> (forall i, (i < n)%nat -> mvecQ n A w i == mu * w i) ->
      (exists i, (i < n)%nat /\ ~ w i == 0) ->
      mu == lam /\
      (exists t, 0 < t /\ forall i, (i < n)%nat -> w i == t * vabs u i) /\
      (normsq n w == normsq n u -> forall i, (i < n)%nat -> w i == vabs u i))) /\
  (forall p, perm_on n p -> forall (lam' : Q) (u' : vec Q),
     (forall i, (i < n)%nat -> mvecQ n (pm p A) u' i == lam' * u' i) ->
     (forall x : vec Q, qform n (pm p A) x <= lam' * normsq n x) ->
     (exists i, (i < n)%nat /\ ~ u' i == 0) ->
     normsq n u' == normsq n u ->
     lam' == lam /\ forall i, (i < n)%nat -> vabs u' i == vabs u (p i)).
Proof.
  intros n A Hn As Ann Ac lam u Hu Hray Hnz. split.
  - exact (EquivModelsSpectral.eigvec_abs_perron n A Hn As Ann Ac lam u (conj Hu (conj Hray Hnz))).
  - intros p Hp lam' u' Hu' Hray' Hnz' Hnorm.
    exact (EquivModelsSpectral.eigenvector_abs_equivariant n p Hp Hn A lam lam' u u' As Ann Ac
             (conj Hu (conj Hray Hnz)) (conj Hu' (conj Hray' Hnz')) Hnorm).
Qed.
(* the hypotheses are satisfiable: K_2 is connected and (1, (-1,-1)) is a top eigenpair *)
Example C04_eigenvector_abs_full_nonvacuous :
  irreducible 2 LinearSpectralFull.K2Q /\ EquivModelsSpectral.top_eigenpair 2 LinearSpectralFull.K2Q 1 (fun _ => -(1)).
Proof. exact EquivModelsSpectral.top_eigenpair_nonvacuous. Qed.

(* ================================================================================================================ *)
(* subgraph_centrality, FULL (replaces C04_subgraph_truncation_partial): over Coq's real numbers.
     centrality.py : vals, vecs = eigh(CIJ); return np.dot(vecs * vecs, np.exp(vals))         = diag(expm(CIJ))
   expmR n A (C18, Proofs/LinearReal.v) is the matrix exponential defined from the matrix ALONE: entry (i,j) is the sum of the
   series sum_m (A^m)_ij / m! (stdlib infinite_sum; C18_expm_defined: it converges for every real matrix), and
   C18_subgraph_expm: its diagonal is the expression the code returns for ANY eigh output.  For EVERY real matrix A (symmetric
   or not) and EVERY renumbering p of the n nodes:
   (1) expm(A[ix_(p,p)]) = expm(A)[ix_(p,p)] entrywise on the grid (matrix powers commute with the renumbering: induction on
       the power with the inner sum re-indexed by p; the partial sums of the two series coincide; uniqueness of the limit);
   (2) hence the diagonal - subgraph centrality - is permuted with the nodes;
   (3) at the level of the code: for ANY eigh output (V, lam) for A and ANY eigh output (V', lam') for the renumbered matrix
       (two unrelated LAPACK runs: other basis of a degenerate eigenspace, other order, other signs) the returned vectors agree
       up to the renumbering;
   (4) p = identity: the value does not depend on the basis / order eigh picks - the property's anchor 'must not depend on
       an arbitrary basis of a degenerate eigenspace', formerly tested only. *)
From Coq Require Import Reals.
From BCT Require Import Proofs.LinearReal.
From BCT Require Proofs.EquivModelsExpm.
Theorem C04_subgraph_expm_equivariant : forall n p, perm_on n p -> forall A : nat -> nat -> R,
  (forall i j, (i < n)%nat -> (j < n)%nat -> expmR n (pm p A) i j = expmR n A (p i) (p j)) /\
  (forall i, (i < n)%nat -> expmR n (pm p A) i i = pv p (fun k => expmR n A k k) i) /\
  (forall (V V' : nat -> nat -> R) (lam lam' : nat -> R),
     (forall i k, (i < n)%nat -> (k < n)%nat -> sumR (fun l => A i l * V l k)%R n = (lam k * V i k)%R) ->
     (forall i j, (i < n)%nat -> (j < n)%nat -> sumR (fun k => V i k * V j k)%R n = deltaR i j) ->
     (forall i k, (i < n)%nat -> (k < n)%nat -> sumR (fun l => pm p A i l * V' l k)%R n = (lam' k * V' i k)%R) ->
     (forall i j, (i < n)%nat -> (j < n)%nat -> sumR (fun k => V' i k * V' j k)%R n = deltaR i j) ->
     forall i, (i < n)%nat ->
     sumR (fun k => V' i k * V' i k * exp (lam' k))%R n = sumR (fun k => V (p i) k * V (p i) k * exp (lam k))%R n) /\
  (forall (V V' : nat -> nat -> R) (lam lam' : nat -> R),
     (forall i k, (i < n)%nat -> (k < n)%nat -> sumR (fun l => A i l * V l k)%R n = (lam k * V i k)%R) ->
     (forall i j, (i < n)%nat -> (j < n)%nat -> sumR (fun k => V i k * V j k)%R n = deltaR i j) ->
     (forall i k, (i < n)%nat -> (k < n)%nat -> sumR (fun l => A i l * V' l k)%R n = (lam' k * V' i k)%R) ->
     (forall i j, (i < n)%nat -> (j < n)%nat -> sumR (fun k => V' i k * V' j k)%R n = deltaR i j) ->
     forall i, (i < n)%nat ->
     sumR (fun k => V' i k * V' i k * exp (lam' k))%R n = sumR (fun k => V i k * V i k * exp (lam k))%R n).
Proof.
  intros n p Hp A.
  split; [exact (proj1 (EquivModelsExpm.subgraph_expm_equivariant n p Hp A))|].
  split; [exact (proj2 (EquivModelsExpm.subgraph_expm_equivariant n p Hp A))|].
  split.
  - intros V V' lam lam' H1 H2 H1' H2'.
    exact (EquivModelsExpm.subgraph_code_equivariant n p Hp A V V' lam lam' (conj H1 H2) (conj H1' H2')).
  - intros V V' lam lam' H1 H2 H1' H2'.
    exact (EquivModelsExpm.subgraph_code_basis_independent n A V V' lam lam' (conj H1 H2) (conj H1' H2')).
Qed.
(* K_2 with its irrational eigenbasis, the two nodes swapped: hypotheses hold, the centrality of both nodes of the renumbered
   network is (e + 1/e)/2 *)
Example C04_subgraph_expm_equivariant_nonvacuous :
  perm_on 2 EquivModelsExpm.swap2 /\ EquivModelsExpm.eigh_spec 2 K2 K2V K2lam /\
  (forall i, (i < 2)%nat -> expmR 2 (pm EquivModelsExpm.swap2 K2) i i = ((exp 1 + exp (-1)) / 2)%R).
Proof. exact EquivModelsExpm.subgraph_expm_equivariant_nonvacuous. Qed.

(* ... and the rational TERM t_subgraph_trunc K (Model/SymTerm.v: K nested lets in Horner form), whose every truncation
   order is equivariant by C04_subgraph_truncation and which the correspondence run evaluates at K = 30 against the
   implementation, IS the K-th partial sum of the series that defines expmR: its values converge to the diagonal of the matrix
   exponential of the (real image of the) matrix.  The tested term and C04_subgraph_expm_equivariant speak about the same object. *)
From BCT Require Proofs.EquivModelsExpmTerm.
Theorem C04_subgraph_term_is_series : forall prims n (A : mat Q) (ci : vec Q) (ks : list Q) i, (i < n)%nat ->
  (forall K, Q2R (eval_v prims n (t_subgraph_trunc K) A ci ks i)
             = sum_f_R0 (fun m => / INR (fact m) * mpowR n (fun a b => Q2R (A a b)) m i i)%R K) /\
  Un_cv (fun K => Q2R (eval_v prims n (t_subgraph_trunc K) A ci ks i)) (expmR n (fun a b => Q2R (A a b)) i i).
Proof.
  intros prims n A ci ks i Hi. split.
  - intros K. exact (EquivModelsExpmTerm.subgraph_term_partial_sum prims n A ci ks K i Hi).
  - exact (EquivModelsExpmTerm.subgraph_term_converges prims n A ci ks i Hi).
Qed.
(* K_2, K = 2: 1 + 0 + 1/2 *)
Example C04_subgraph_term_nonvacuous :
  eval_v (fun _ x => x) 2 (t_subgraph_trunc 2) (of_rows 0%Q [[0; 1]; [1; 0]]%Q) (fun _ => 0%Q) [] 0%nat = (3 # 2)%Q.
Proof. exact EquivModelsExpmTerm.subgraph_term_nonvacuous. Qed.

Print Assumptions C04_sumQ_reindex.
Print Assumptions C04_symterm_equivariant.
Print Assumptions C04_prog_equivariant.
Print Assumptions C04_measure_equivariant_scalar.
Print Assumptions C04_measure_equivariant_vector.
Print Assumptions C04_measure_equivariant_matrix.
Print Assumptions C04_measure_equivariant_kinded.
Print Assumptions C04_library_equivariant.
Print Assumptions C04_library_instances.
Print Assumptions C04_pagerank_equation.
Print Assumptions C04_eigenvector_equation.
Print Assumptions C04_pagerank_full.
Print Assumptions C04_eigenvector_full.
Print Assumptions C04_residual_terms_denote.
Print Assumptions C04_subgraph_truncation.
Print Assumptions C04_inverse_renumbering.
Print Assumptions C04_floyd_model_equivariant.
Print Assumptions C04_distance_wei_floyd_model_equivariant.
Print Assumptions C04_distance_bin_model_equivariant.
Print Assumptions C04_distance_wei_model_equivariant.
Print Assumptions C04_breadthdist_model_equivariant.
Print Assumptions C04_reachdist_model_equivariant.
Print Assumptions C04_efficiency_model_equivariant.
Print Assumptions C04_ext_eq_unfold.
Print Assumptions C04_get_components_model_equivariant.
Print Assumptions C04_number_of_components_model_equivariant.
Print Assumptions C04_betweenness_model_equivariant.
Print Assumptions C04_edge_betweenness_model_equivariant.
Print Assumptions C04_kcore_model_equivariant.
Print Assumptions C04_core_outputs_unfold.
Print Assumptions C04_kcoreness_model_equivariant.
Print Assumptions C04_findwalks_model_equivariant.
Print Assumptions C04_pagerank_model_equivariant.
Print Assumptions C04_eigenvector_model_equivariant.
Print Assumptions C04_list_permutation.
Print Assumptions C04_run_equivariant.
Print Assumptions C04_every_term_measure_equivariant.
Print Assumptions C04_denote_degrees_und.
Print Assumptions C04_denote_transitivity_bu.
Print Assumptions C04_gen_equivariant.
Print Assumptions C04_gen_run_equivariant.
Print Assumptions C04_gen_same_as_hand_sound.
Print Assumptions C04_eigenvector_abs_full.
Print Assumptions C04_subgraph_expm_equivariant.
Print Assumptions C04_subgraph_term_is_series.
