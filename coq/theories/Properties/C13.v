(* Properties/C13.v — library calls never modify the caller's arrays unless copy=False is requested.
   Shape (B): verified static analysis (Model/AliasLang.v, Proofs/AliasLang.v) over a model of every bct
   function that is GENERATED from the Python source on every run (Gen/Alias.v, harness/translate_alias.py).
   Only statements here; proofs are `exact <lemma>` or instantiate the generic theorem at the generated program. *)
From Coq Require Import List String Bool Arith Lia.
From BCT Require Import Model.AliasLang Proofs.AliasLang Gen.Alias Proofs.AliasBct.
Import ListNotations.
Open Scope string_scope.

(* ------------------------------------------------------------------ generic: any program, any cell type *)

(* Soundness of the checker.  [exec] is the concrete semantics: a heap of array cells, names -> locations,
   Mutate writes ARBITRARY contents, Choice/Loop/callee behaviour unconstrained, and every command may stop
   with an exception at any point (outcome Raised), so "o" ranges over every normal exit, every return and
   every intermediate state.  Conclusion: every location allocated before the call — in particular the
   array of every parameter — holds its initial contents in o. *)
Theorem C13_no_param_mutation_sound : forall (val : Type) (prog : list fundef),
  summaries_ok prog = true ->
  forall fd (s0 : state val) o,
    In fd prog -> fpublic fd = true -> check_decl fd = true ->
    entry_state val fd s0 -> (flag s0 = true \/ fcopyutil fd = false) ->
    exec val prog (fbody fd) s0 o ->
    forall l, l < next s0 -> heap (st_of o) l = heap s0 l.
Proof. exact no_param_mutation_sound. Qed.

Theorem C13_params_unchanged : forall (val : Type) (prog : list fundef),
  summaries_ok prog = true ->
  forall fd (s0 : state val) o,
    In fd prog -> fpublic fd = true -> check_decl fd = true ->
    entry_state val fd s0 -> (flag s0 = true \/ fcopyutil fd = false) ->
    exec val prog (fbody fd) s0 o ->
    forall p l, env s0 p = Some l -> heap (st_of o) l = heap s0 l.
Proof. exact params_unchanged. Qed.

(* any function (helper, utility under copy=False): only the arrays of the parameters it DECLARES may change *)
Theorem C13_frame_sound : forall (val : Type) (prog : list fundef),
  summaries_ok prog = true ->
  forall fd (s0 : state val) o,
    In fd prog -> entry_state val fd s0 -> exec val prog (fbody fd) s0 o ->
    forall l, l < next s0 ->
      (forall p, In p (fmut fd (flag s0)) -> env s0 p <> Some l) ->
      heap (st_of o) l = heap s0 l.
Proof. exact frame_sound. Qed.

(* copy flag contract of the utilities *)
Theorem C13_copy_false_contract : forall (val : Type) (prog : list fundef),
  summaries_ok prog = true ->
  forall fd p ps (s0 : state val) o,
    In fd prog -> fcontract fd = true -> fparams fd = p :: ps -> flag s0 = false ->
    exec val prog (fbody fd) s0 o ->
    match o with
    | Normal _ => False                    (* never falls off the end *)
    | Returned _ r => r = env s0 p         (* the result IS the argument *)
    | Raised _ => True
    end.
Proof. exact copy_false_contract. Qed.

Theorem C13_copy_true_contract : forall (val : Type) (prog : list fundef),
  summaries_ok prog = true ->
  forall fd (s0 : state val) o,
    In fd prog -> fpublic fd = true -> check_decl fd = true -> entry_state val fd s0 -> flag s0 = true ->
    exec val prog (fbody fd) s0 o ->
    (forall l, l < next s0 -> heap (st_of o) l = heap s0 l) /\
    (fret_t fd = false -> forall s r l, o = Returned s r -> r = Some l -> next s0 <= l).
Proof. exact copy_true_contract. Qed.

(* ------------------------------------------------------------------ the generated program (current /repo tree) *)

(* every public bct function that the checker did not flag, in the whole-program semantics over all_functions *)
Theorem C13_bct_public_functions_pure : forall (val : Type) fd,
  In fd all_functions -> mem (fname fd) flagged_names = false -> fpublic fd = true ->
  forall (s0 : state val) o,
    entry_state val fd s0 -> (flag s0 = true \/ fcopyutil fd = false) ->
    exec val all_functions (fbody fd) s0 o ->
    forall l, l < next s0 -> heap (st_of o) l = heap s0 l.
Proof.
  intros val fd Hin Hnf Hpub s0 o Hent Hfl Hex l Hl.
  pose proof all_unflagged_pure as Hall. rewrite forallb_forall in Hall. specialize (Hall fd Hin).
  rewrite Hnf in Hall. cbn [orb] in Hall.
  unfold check in Hall. apply andb_true_iff in Hall. destruct Hall as [_ Hdecl].
  exact (no_param_mutation_sound val all_functions summaries_verified fd s0 o Hin Hpub Hdecl Hent Hfl Hex l Hl).
Qed.

Theorem C13_bct_copy_false_contract : forall (val : Type) fd p ps,
  In fd all_functions -> fcontract fd = true -> fparams fd = p :: ps ->
  forall (s0 : state val) o, flag s0 = false -> exec val all_functions (fbody fd) s0 o ->
    match o with Normal _ => False | Returned _ r => r = env s0 p | Raised _ => True end.
Proof.
  intros val fd p ps Hin Hc Hps s0 o Hfl Hex.
  exact (copy_false_contract val all_functions summaries_verified fd p ps s0 o Hin Hc Hps Hfl Hex).
Qed.

(* fresh-result half of the copy=True contract at the generated program: a public function whose verified summary says
   fret_t = false returns a location allocated during the call (np.shares_memory(result, argument) is impossible) *)
Theorem C13_bct_results_fresh : forall (val : Type) fd,
  In fd all_functions -> mem (fname fd) flagged_names = false -> fpublic fd = true -> fret_t fd = false ->
  forall (s0 s : state val) l,
    entry_state val fd s0 -> flag s0 = true ->
    exec val all_functions (fbody fd) s0 (Returned s (Some l)) -> next s0 <= l.
Proof. exact bct_results_fresh. Qed.

(* every function of the generated program, either flag value: only the arrays of the parameters its verified summary
   lists may change *)
Theorem C13_bct_frame : forall (val : Type) fd,
  In fd all_functions ->
  forall (s0 : state val) o,
    entry_state val fd s0 -> exec val all_functions (fbody fd) s0 o ->
    forall l, l < next s0 ->
      (forall p, In p (fmut fd (flag s0)) -> env s0 p <> Some l) ->
      heap (st_of o) l = heap s0 l.
Proof. exact bct_frame. Qed.

(* the copy utilities under copy=False (all eight, also autofix / logtransform which have no in-place contract): at most
   the array of the FIRST parameter is written, and nothing at all when the summary lists no written parameter
   (logtransform; Gen/Alias.v copyutil_table records (contract, writes) per utility) *)
Theorem C13_bct_copy_false_frame : forall (val : Type) fd p ps,
  In fd all_functions -> fcopyutil fd = true -> fparams fd = p :: ps ->
  forall (s0 : state val) o,
    entry_state val fd s0 -> flag s0 = false -> exec val all_functions (fbody fd) s0 o ->
    forall l, l < next s0 -> (env s0 p <> Some l \/ fmut_f fd = []) -> heap (st_of o) l = heap s0 l.
Proof. exact bct_copy_false_frame. Qed.

(* C13_bct_public_functions_pure counts a parameter documented int/float as an ARRAY when the body writes through it by
   name (itr *= k: a 0-d array passed there is modified — those functions are flagged).  Under the weaker reading that
   such parameters hold Python scalars (entry_state of all_functions_ds: same bodies, Gen/Alias.v same_bodies_ds) every
   public function except the flagged_names_ds is pure *)
Theorem C13_bct_public_functions_pure_docscalar : forall (val : Type) fd,
  In fd all_functions_ds -> mem (fname fd) flagged_names_ds = false -> fpublic fd = true ->
  forall (s0 : state val) o,
    entry_state val fd s0 -> (flag s0 = true \/ fcopyutil fd = false) ->
    exec val all_functions_ds (fbody fd) s0 o ->
    forall l, l < next s0 -> heap (st_of o) l = heap s0 l.
Proof. exact bct_public_functions_pure_docscalar. Qed.

(* copy=False of autofix / logtransform does NOT operate on the caller's array (pinned shapes of Proofs/AliasBct.v, compared
   with the generated bodies by the harness): autofix writes the argument and may return another array, logtransform
   leaves the argument alone and returns a fresh array *)
Theorem C13_autofix_copy_false_refuted : exists o,
  exec nat [autofix_fd] autofix_shape (st_w false) o /\
  match o with Returned s r => r = Some 2 /\ env (st_w false) "W" = Some 0 /\ heap s 0 = 1 /\ heap (st_w false) 0 = 7 | _ => False end.
Proof. exact autofix_copy_false_refuted. Qed.

Theorem C13_logtransform_copy_false_refuted : exists o,
  exec nat [logtransform_fd] logtransform_shape (st_w false) o /\
  match o with Returned s r => r = Some 1 /\ env (st_w false) "W" = Some 0 /\ heap s 0 = heap (st_w false) 0 | _ => False end.
Proof. exact logtransform_copy_false_refuted. Qed.

(* non-vacuity of the new instances (name-independent, so that a legitimate edit of one function cannot break it): the
   program contains unflagged public functions whose result is fresh, copy utilities with and without a verified
   in-place contract, and the two programs list the same functions *)
Example C13_bct_instances_nonvacuous :
  existsb (fun fd => fpublic fd && negb (mem (fname fd) flagged_names) && negb (fret_t fd)) all_functions = true /\
  existsb (fun fd => fcopyutil fd && fcontract fd) all_functions = true /\
  existsb (fun fd => fpublic fd && negb (mem (fname fd) flagged_names_ds)) all_functions_ds = true /\
  map fname all_functions_ds = map fname all_functions.
Proof. vm_compute. auto. Qed.

(* ------------------------------------------------------------------ non-vacuity and refutation *)
(* the shape of threshold_absolute: if copy: W = W.copy(); fill_diagonal(W,0); W[W<thr]=0; return W *)
Definition thr_body : cmd :=
  Seq (IfFlag (Bind "W" (CopyOf "W")) Skip) (Seq (Mutate "W") (Seq (Mutate "W") (Return "W"))).
Definition thr_fd : fundef := mkfun "thr" ["W"; "thr"; "copy"] ["W"] [] ["W"] false false true true true thr_body.
Definition st1 (b : bool) : state nat :=
  mkst (fun x => if String.eqb x "W" then Some 0 else None) (fun _ => 7) 1 b.

Example C13_nonvacuous_accept : summaries_ok [thr_fd] = true /\ check [thr_fd] thr_fd = true.
Proof. vm_compute. auto. Qed.

(* a real run with copy=True: the copy (location 1) is overwritten with 0, the argument (location 0) keeps 7,
   and the result is the fresh location *)
Example C13_nonvacuous_run_copy_true : exists o,
  entry_state nat thr_fd (st1 true) /\ exec nat [thr_fd] thr_body (st1 true) o /\
  match o with Returned s r => r = Some 1 /\ heap s 0 = 7 /\ heap s 1 = 0 | _ => False end.
Proof.
  eexists. split; [|split].
  - intros x l H. cbn in H. destruct (String.eqb x "W") eqn:E; [|discriminate].
    apply String.eqb_eq in E. subst. inversion H; subst. split; [cbn; auto|cbn; lia].
  - eapply E_SeqN; [apply E_IfT; [reflexivity|eapply E_Copy; reflexivity]|].
    eapply E_SeqN; [eapply E_Mutate with (l := 1) (v := 3); reflexivity|].
    eapply E_SeqN; [eapply E_Mutate with (l := 1) (v := 0); reflexivity|].
    apply E_Return.
  - vm_compute. auto.
Qed.

(* a real run with copy=False: the result is the argument's location and its contents changed *)
Example C13_nonvacuous_run_copy_false : exists o,
  exec nat [thr_fd] thr_body (st1 false) o /\
  match o with Returned s r => r = Some 0 /\ heap s 0 = 0 | _ => False end.
Proof.
  eexists. split.
  - eapply E_SeqN; [apply E_IfF; [reflexivity|apply E_Skip]|].
    eapply E_SeqN; [eapply E_Mutate with (l := 0) (v := 3); reflexivity|].
    eapply E_SeqN; [eapply E_Mutate with (l := 0) (v := 0); reflexivity|].
    apply E_Return.
  - vm_compute. auto.
Qed.

(* flow sensitivity: an alias that is replaced by a copy inside a loop is accepted ... *)
Definition loop_ok : fundef := mkfun "loop_ok" ["W"] ["W"] [] [] false false true false false
  (Seq (Loop (Seq (Bind "A" (AliasOf "W")) (Bind "A" (CopyOf "A")))) (Mutate "A")).
(* ... one that may survive the loop is rejected, also through .T / a slice / np.asarray (all AliasOf) *)
Definition loop_bad : fundef := mkfun "loop_bad" ["W"] ["W"] [] [] false false true false false
  (Seq (Bind "A" Fresh) (Seq (Loop (Choice (Bind "A" (AliasOf "W")) Skip)) (Mutate "A"))).
(* interprocedural: handing the argument to a helper that writes its parameter is rejected *)
Definition helper : fundef := mkfun "m.helper" ["R"] ["R"] ["R"] ["R"] false false false false false (Mutate "R").
Definition caller_bad : fundef := mkfun "caller_bad" ["W"] ["W"] [] [] false false true false false
  (Seq (Bind "$a1" (AliasOf "W")) (CallFn "$r2" "m.helper" ["$a1"] FTrue)).
Definition caller_ok : fundef := mkfun "caller_ok" ["W"] ["W"] [] [] false false true false false
  (Seq (Bind "$a1" (CopyOf "W")) (CallFn "$r2" "m.helper" ["$a1"] FTrue)).
(* mutation only on an error path *)
Definition errpath_bad : fundef := mkfun "errpath_bad" ["W"] ["W"] [] [] false false true false false
  (Try (Bind "x" Fresh) (Seq (Mutate "W") Raise)).

Example C13_checker_discriminates :
  let prog := [loop_ok; loop_bad; helper; caller_bad; caller_ok; errpath_bad] in
  map (fun fd => check_body prog fd && check_decl fd) prog = [true; false; true; false; true; false].
Proof. vm_compute. reflexivity. Qed.

(* the canonical rejected program: r = W; r[...] = ...  — and the property really FAILS for it *)
Definition bad_body : cmd := Seq (Bind "r" (AliasOf "W")) (Mutate "r").
Definition bad_fd : fundef := mkfun "bad" ["W"] ["W"] [] [] false false true false false bad_body.

Example C13_rejected : check [bad_fd] bad_fd = false.
Proof. vm_compute. reflexivity. Qed.

Example C13_rejected_refuted : exists o,
  entry_state nat bad_fd (st1 true) /\ exec nat [bad_fd] bad_body (st1 true) o /\
  heap (st_of o) 0 <> heap (st1 true) 0.
Proof.
  eexists. split; [|split].
  - intros x l H. cbn in H. destruct (String.eqb x "W") eqn:E; [|discriminate].
    apply String.eqb_eq in E. subst. inversion H; subst. split; [cbn; auto|cbn; lia].
  - eapply E_SeqN; [apply E_Alias|]. eapply E_Mutate with (l := 0) (v := 1). reflexivity.
  - cbn. discriminate.
Qed.

Print Assumptions C13_no_param_mutation_sound.
Print Assumptions C13_params_unchanged.
Print Assumptions C13_frame_sound.
Print Assumptions C13_copy_false_contract.
Print Assumptions C13_copy_true_contract.
Print Assumptions C13_bct_public_functions_pure.
Print Assumptions C13_bct_copy_false_contract.
Print Assumptions C13_rejected_refuted.
Print Assumptions C13_bct_results_fresh.
Print Assumptions C13_bct_frame.
Print Assumptions C13_bct_copy_false_frame.
Print Assumptions C13_bct_public_functions_pure_docscalar.
Print Assumptions C13_autofix_copy_false_refuted.
Print Assumptions C13_logtransform_copy_false_refuted.
