(* Properties/C05.v — seeded calls are reproducible and never touch the global random stream.
   Shape (B): verified static analysis over a model GENERATED from the source on every run.

     Model/EffectLang.v    effect language, semantics (heap of generator objects, get_rng by hand), checker
     Proofs/EffectLang.v   soundness of the checker, once and for all
     Gen/Effects.v         the bct/ tree translated by harness/translate_effects.py (regenerated every run)
                           + `Example all_safe : prog_safe program = true` (vm_compute)
     Gen/EffectsNeg.v      the pinned corpus harness/c05_corpus.py (snippets that break the discipline, and controls)
                           translated by the same translator on every run: the checker must reject / accept them

   Only statements here; every proof is `exact <lemma>`.

   Reading the statements: object 0 of the heap is numpy's global RandomState, object 1 the generator
   behind Python's `random` module, object 2 the ENVIRONMENT (clock, OS entropy, hash seed, uninitialised
   memory: what a `NonDet` command reads); `nxt st` is the allocation counter (objects below it exist);
   `VInt s` is a hashable seed, `VObj o` a RandomState instance;
   `D args` is the oracle standing for all non-random computation of the call (a function of the
   arguments and of the history of draws/decisions so far — see the header of Model/EffectLang.v);
   `observable` = (history of all draws and decisions, final status).  Runs are compared at equal
   fuel; a run that is cut short (out of fuel, exception) is covered as well (truncation semantics). *)
From Coq Require Import List String Bool Arith.
From BCT Require Import Model.EffectLang Proofs.EffectLang Gen.Effects Gen.EffectsNeg.
Import ListNotations.

(* ---- the once-and-for-all soundness theorem of the checker *)
Theorem C05_seed_safe_sound :
  forall (gstate : Type) (next : gstate -> nat -> nat * gstate)
         (rs_new : nat -> option gstate) (py_fallback : nat -> nat) (rs_new32 : nat -> gstate)
         (A : Type) (D : A -> list ev -> nat)
         (P : EffectLang.program), prog_safe P = true ->
  forall (f : fname) (args : A) (fuel : nat),
  let run := run_fn gstate next rs_new py_fallback rs_new32 (D args) P fuel f in
  let fresh := mk gstate rs_new py_fallback rs_new32 in
  (* (1) with a seed, numpy's global generator and Python's are left exactly as found *)
  (forall v st, seed_given v -> 3 <= nxt st -> wf_seed gstate v st ->
     heap (run v st) 0 = heap st 0 /\ heap (run v st) 1 = heap st 1) /\
  (* (2) equal arguments and seed => equal draws, decisions, outcome — whatever the global generators, the
         environment and the rest of the heap hold *)
  (forall s st1 st2, hist st1 = hist st2 -> status st1 = status st2 ->
     observable (run (VInt s) st1) = observable (run (VInt s) st2)) /\
  (forall o st1 st2, hist st1 = hist st2 -> status st1 = status st2 -> o < nxt st1 -> o < nxt st2 ->
     heap st1 o = heap st2 o ->
     observable (run (VObj o) st1) = observable (run (VObj o) st2)) /\
  (* (3) integer seed == RandomState(seed) *)
  (forall s o st1 st2, hist st1 = hist st2 -> status st1 = status st2 -> o < nxt st2 -> heap st2 o = fresh s ->
     observable (run (VInt s) st1) = observable (run (VObj o) st2)) /\
  (* (4) without a seed: a function of the arguments and numpy's global generator only *)
  (forall st1 st2, hist st1 = hist st2 -> status st1 = status st2 -> 3 <= nxt st1 -> 3 <= nxt st2 ->
     heap st1 0 = heap st2 0 ->
     observable (run VNone st1) = observable (run VNone st2)) /\
  (forall st, 3 <= nxt st -> heap (run VNone st) 1 = heap st 1).
Proof. exact seed_safe_sound. Qed.

(* ---- the same, for the program generated from the current bct/ tree *)
Theorem C05_bct_all_safe : prog_safe Effects.program = true.
Proof. exact Effects.all_safe. Qed.

Theorem C05_bct_get_rng_is_the_one_modelled : Effects.get_rng_as_modelled = true.
Proof. exact Effects.get_rng_ok. Qed.

Theorem C05_bct_no_unmodelled_callables : Effects.unmodelled_callables_with_effects = [].
Proof. exact Effects.no_unmodelled_effects. Qed.

(* C05_bct below quantifies over every name f; for a name that is not in `program` the run is `Raised` at once and the
   statement says nothing.  The names it does speak about: every function of bct/ with a seed (incl.
   nbs_parallel.nbs_bct and its task function) is in `program`, as a Seeded entry *)
Theorem C05_bct_covers_every_seeded_function :
  forallb (fun f => match lookup Effects.program f with Some (Seeded, _) => true | _ => false end) Effects.seeded_functions = true.
Proof. exact Effects.seeded_functions_in_program. Qed.

Theorem C05_bct :
  forall (gstate : Type) (next : gstate -> nat -> nat * gstate)
         (rs_new : nat -> option gstate) (py_fallback : nat -> nat) (rs_new32 : nat -> gstate)
         (A : Type) (D : A -> list ev -> nat) (f : fname) (args : A) (fuel : nat),
  let run := run_fn gstate next rs_new py_fallback rs_new32 (D args) Effects.program fuel f in
  let fresh := mk gstate rs_new py_fallback rs_new32 in
  (forall v st, seed_given v -> 3 <= nxt st -> wf_seed gstate v st ->
     heap (run v st) 0 = heap st 0 /\ heap (run v st) 1 = heap st 1) /\
  (forall s st1 st2, hist st1 = hist st2 -> status st1 = status st2 ->
     observable (run (VInt s) st1) = observable (run (VInt s) st2)) /\
  (forall o st1 st2, hist st1 = hist st2 -> status st1 = status st2 -> o < nxt st1 -> o < nxt st2 ->
     heap st1 o = heap st2 o ->
     observable (run (VObj o) st1) = observable (run (VObj o) st2)) /\
  (forall s o st1 st2, hist st1 = hist st2 -> status st1 = status st2 -> o < nxt st2 -> heap st2 o = fresh s ->
     observable (run (VInt s) st1) = observable (run (VObj o) st2)) /\
  (forall st1 st2, hist st1 = hist st2 -> status st1 = status st2 -> 3 <= nxt st1 -> 3 <= nxt st2 ->
     heap st1 0 = heap st2 0 ->
     observable (run VNone st1) = observable (run VNone st2)) /\
  (forall st, 3 <= nxt st -> heap (run VNone st) 1 = heap st 1).
Proof.
  intros gstate next rs_new py_fallback rs_new32 A D.
  exact (seed_safe_sound gstate next rs_new py_fallback rs_new32 A D Effects.program Effects.all_safe).
Qed.

(* ---- the lemma behind all clauses: an accepted function IS the single-stream reference machine run on
        the stream its seed denotes, and modifies no pre-existing generator other than that one *)
Theorem C05_refines_reference :
  forall (gstate : Type) (next : gstate -> nat -> nat * gstate)
         (rs_new : nat -> option gstate) (py_fallback : nat -> nat) (rs_new32 : nat -> gstate)
         (decide : list ev -> nat) (P : EffectLang.program), prog_safe P = true ->
  forall fuel f k c v (st : state gstate),
  lookup P f = Some (k, c) -> v <> VBad -> wf_seed gstate v st ->
  let g := stream_of gstate rs_new py_fallback rs_new32 v st in
  let m' := aexec gstate next rs_new py_fallback rs_new32 decide P fuel c (mkA g (hist st) (status st)) in
  observable (run_fn gstate next rs_new py_fallback rs_new32 decide P fuel f v st) = (ahist m', astatus m') /\
  (forall o, o < nxt st -> target v <> Some o ->
     heap (run_fn gstate next rs_new py_fallback rs_new32 decide P fuel f v st) o = heap st o).
Proof. exact run_refines. Qed.

(* ---- non-vacuity: an accepted program with recursion really draws, identically in the three situations *)
Example C05_nonvacuous :
  prog_safe Toy.good = true /\
  observable (Toy.trun Toy.good 50 "randmio" (VInt 7) Toy.st0)
    = ([EDec 0; EDec 1; EDraw 702; EDec 1; EDec 0; EDraw 701; EDec 0; EDraw 700; EDec 0; EDec 1; EDec 0; EDec 1], Running)
  /\ observable (Toy.trun Toy.good 50 "randmio" (VInt 7) Toy.st0') = observable (Toy.trun Toy.good 50 "randmio" (VInt 7) Toy.st0)
  /\ observable (Toy.trun Toy.good 50 "randmio" (VObj 3) Toy.st0) = observable (Toy.trun Toy.good 50 "randmio" (VInt 7) Toy.st0)
  /\ heap (Toy.trun Toy.good 50 "randmio" (VInt 7) Toy.st0) 0 = 0.
Proof. exact (conj Toy.good_safe Toy.good_nonvacuous). Qed.

(* ---- non-vacuity of the sub-stream rules (the shape of bct.nbs_parallel: task seeds drawn from the rng, every task on its
        own generator, the task function falling back to a computed number): two tasks draw 0,1 and 400,401 from their own
        streams, the caller's stream is consumed once; same in another world; same for the object RandomState(7), which
        is advanced by exactly one draw *)
Example C05_substream_nonvacuous :
  prog_safe Toy.par = true /\
  observable (Toy.trun2 Toy.par 50 "nbs_par" (VInt 7) Toy.st0)
    = ([EDec 0; EDraw 401; EDec 0; EDraw 400; EDec 0; EDec 4; EDec 3; EDec 1; EDraw 1; EDec 2;
        EDraw 0; EDec 2; EDec 1; EDec 0; EDec 1; EDraw 700; EDec 1], Running)
  /\ observable (Toy.trun2 Toy.par 50 "nbs_par" (VInt 7) Toy.st0') = observable (Toy.trun2 Toy.par 50 "nbs_par" (VInt 7) Toy.st0)
  /\ observable (Toy.trun2 Toy.par 50 "nbs_par" (VObj 3) Toy.st0) = observable (Toy.trun2 Toy.par 50 "nbs_par" (VInt 7) Toy.st0)
  /\ heap (Toy.trun2 Toy.par 50 "nbs_par" (VInt 7) Toy.st0) 0 = 0 /\ heap (Toy.trun2 Toy.par 50 "nbs_par" (VObj 3) Toy.st0) 3 = 701.
Proof. exact (conj Toy.par_safe Toy.par_nonvacuous). Qed.

(* ---- the checker's rejections are not gratuitous: for each kind of rejected program the property fails *)
Theorem C05_stray_global_draw_refuted :       (* one np.random.* call: clause (1) fails *)
  seed_safe Toy.stray "f" = false /\
  heap (Toy.trun Toy.stray 50 "f" (VInt 7) Toy.st0) 0 <> heap Toy.st0 0.
Proof. exact (conj Toy.stray_rejected Toy.stray_refuted). Qed.

Theorem C05_reseeding_refuted :               (* raw seed handed on twice: clause (3) fails *)
  seed_safe Toy.reseed "f" = false /\
  observable (Toy.trun Toy.reseed 50 "f" (VInt 7) Toy.st0) <> observable (Toy.trun Toy.reseed 50 "f" (VObj 3) Toy.st0).
Proof. exact (conj (proj1 Toy.reseed_rejected) Toy.reseed_refuted). Qed.

Theorem C05_seed_not_forwarded_refuted :      (* nested drawing call without the rng: clause (2) fails *)
  seed_safe Toy.forgot "f" = false /\
  observable (Toy.trun Toy.forgot 50 "f" (VInt 7) Toy.st0) <> observable (Toy.trun Toy.forgot 50 "f" (VInt 7) Toy.st0').
Proof. exact (conj Toy.forgot_rejected Toy.forgot_refuted). Qed.

Theorem C05_nondeterminism_refuted :          (* a value read from the environment (time, hash(str), np.empty, rng.seed()): clause (2) fails *)
  seed_safe Toy.nondet "f" = false /\
  observable (Toy.trun Toy.nondet 50 "f" (VInt 7) Toy.st0) <> observable (Toy.trun Toy.nondet 50 "f" (VInt 7) Toy.st0').
Proof. exact (conj Toy.nondet_rejected Toy.nondet_refuted). Qed.

(* ---- the translator is pinned: every negative snippet of harness/c05_corpus.py (module-level alias of np.random, star import,
        scipy .rvs, np.matlib.rand, aliased bct import called without the seed, rng.seed(), time / hash / id / np.empty /
        os.urandom / set order, unknown third-party callee, unknown global, caching decorator, multiprocessing misuse, ...),
        translated by the CURRENT translator together with the current tree, is rejected by the checker; every control is accepted *)
Theorem C05_translator_corpus :
  forallb EffectsNeg.present (EffectsNeg.negative_entry_points ++ EffectsNeg.control_entry_points) = true /\
  forallb (fun f => negb (seed_safe EffectsNeg.corpus f)) EffectsNeg.negative_entry_points = true /\
  forallb (seed_safe EffectsNeg.corpus) EffectsNeg.control_entry_points = true /\
  32 <= List.length EffectsNeg.negative_entry_points.
Proof. exact EffectsNeg.corpus_verdicts. Qed.

Print Assumptions C05_seed_safe_sound.
Print Assumptions C05_bct_all_safe.
Print Assumptions C05_bct_get_rng_is_the_one_modelled.
Print Assumptions C05_bct_no_unmodelled_callables.
Print Assumptions C05_bct.
Print Assumptions C05_bct_covers_every_seeded_function.
Print Assumptions C05_refines_reference.
Print Assumptions C05_nonvacuous.
Print Assumptions C05_substream_nonvacuous.
Print Assumptions C05_stray_global_draw_refuted.
Print Assumptions C05_reseeding_refuted.
Print Assumptions C05_seed_not_forwarded_refuted.
Print Assumptions C05_nondeterminism_refuted.
Print Assumptions C05_translator_corpus.
