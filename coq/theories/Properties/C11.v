(* Properties/C11.v — constrained rewiring honours connectivity, lattice cost and forbidden cells.
   Statements only.  Model: Model/Rewire.v (the guards und_conn_guard, dir_conn_guard, lattice_guard, mask_guard
   inside the C01 engine; precheck = the BCTParamError checks, built on Model/Components.v = get_components). *)
From Coq Require Import ZArith List Arith Permutation Lia Bool.
From BCT Require Import Base.Mat Base.ListX Model.Components Model.Rewire
     Proofs.RewireSwap Proofs.RewireInv Proofs.RewireRun Proofs.RewireConn Proofs.RewireGuards Proofs.RewireC11 Proofs.RewirePre
     Proofs.RewireFuel Proofs.RewireRefuted Proofs.RewireExamples.
Import ListNotations.
Open Scope Z_scope.

(* connected n R: every node < n reaches every other node along nonzero entries
   (= connected for symmetric R, strongly connected for directed R) *)

(* the two tests themselves: an accepted swap of a connected network is connected *)
Theorem C11_und_test_sound : forall n R a b c d,
  a <> b -> a <> c -> a <> d -> b <> c -> b <> d -> c <> d ->
  (a < n)%nat -> (b < n)%nat -> (c < n)%nat -> (d < n)%nat ->
  (forall x y, R x y = R y x) -> (forall x, R x x = 0) ->
  R a d = 0 -> R c b = 0 -> R a b <> 0 -> R c d <> 0 ->
  und_conn_guard n R a b c d = true -> connected n R -> connected n (swap_und R a b c d).
Proof. exact und_conn_guard_sound. Qed.

Theorem C11_dir_test_sound : forall n R a b c d,
  a <> b -> a <> c -> a <> d -> b <> c -> b <> d -> c <> d ->
  (a < n)%nat -> (b < n)%nat -> (c < n)%nat -> (d < n)%nat ->
  (forall x, R x x = 0) ->
  R a d = 0 -> R c b = 0 -> R a b <> 0 -> R c d <> 0 ->
  dir_conn_guard n R a b c d = true -> connected n R -> connected n (swap_dir R a b c d).
Proof. exact dir_conn_guard_sound. Qed.

(* whole runs of the four `_connected` routines, every stream: the returned matrix (caller numbering), the
   latticised-order matrix and the state after every accepted swap are connected / strongly connected *)
Theorem C11_run_connected : forall r n R0 itr D s0 res,
  is_conn r = true ->
  run_routine r n R0 itr D s0 = Done res ->
  (is_und r = true -> forall x y, R0 x y = R0 y x) -> (forall x, R0 x x = 0) ->
  (is_latt r = true -> Permutation (r_perm res) (seq 0 n)) ->
  connected n R0 ->
  connected n (r_out res) /\ connected n (r_rp res) /\ Forall (fun ev => connected n (sR (snd ev))) (r_trace res).
Proof. exact run_connected. Qed.

(* the undirected variants check their input: whatever passes is symmetric and connected ... *)
Theorem C11_und_precondition : forall r n R0,
  is_und r = true -> is_conn r = true -> precheck r n R0 = true -> sym_on n R0 /\ connected n R0.
Proof. exact precheck_und_connected. Qed.

(* ... and whatever is symmetric and connected passes (completeness of the check, from the C16 model of get_components) *)
Theorem C11_und_precondition_complete : forall r n R0,
  is_und r = true -> is_conn r = true -> sym_on n R0 -> connected n R0 -> precheck r n R0 = true.
Proof. exact precheck_und_complete. Qed.

(* asymmetric or disconnected input is REJECTED — the outcome that stands for BCTParamError, distinct from running out
   of draws (StreamEnd), from other exceptions (Raises) and from returning (Done) — for every itr, D and stream ... *)
Theorem C11_und_rejects : forall r n R0 itr D s0,
  is_und r = true -> is_conn r = true -> ~ (sym_on n R0 /\ connected n R0) -> run_routine r n R0 itr D s0 = Rejected.
Proof. exact run_und_rejects. Qed.

(* ... and symmetric connected input is never rejected *)
Theorem C11_und_accepts : forall r n R0 itr D s0,
  is_und r = true -> is_conn r = true -> sym_on n R0 -> connected n R0 -> run_routine r n R0 itr D s0 <> Rejected.
Proof. exact run_und_accepts. Qed.

(* the searches are given the fuel S n: they always stop by themselves within it (the variant with an explicit
   out-of-fuel answer never gives it), and more fuel changes nothing — the `false` of the Fixpoints at fuel 0 decides no test *)
Theorem C11_und_search_fuel : forall n R b c P0 P1 PN0 PN1,
  und_conn_loop_o (S n) n R b c P0 P1 PN0 PN1 = Some (und_conn_loop (S n) n R b c P0 P1 PN0 PN1) /\
  forall f, (S n <= f)%nat -> und_conn_loop f n R b c P0 P1 PN0 PN1 = und_conn_loop (S n) n R b c P0 P1 PN0 PN1.
Proof. exact und_search_fuel. Qed.

Theorem C11_dir_search_fuel : forall n R a b c d P0 P1 PN0 PN1,
  dir_conn_loop_o (S n) n R a b c d P0 P1 PN0 PN1 = Some (dir_conn_loop (S n) n R a b c d P0 P1 PN0 PN1) /\
  forall f, (S n <= f)%nat -> dir_conn_loop f n R a b c d P0 P1 PN0 PN1 = dir_conn_loop (S n) n R a b c d P0 P1 PN0 PN1.
Proof. exact dir_search_fuel. Qed.

(* the tests are not trivial: each answers true for one swap and false for another on the same network *)
Example C11_guard_nonvacuous :
  (und_conn_guard 6 ring6 0 1 4 3 = true /\ und_conn_guard 6 ring6 0 1 3 4 = false) /\
  (dir_conn_guard 6 dring6c 3 0 4 5 = true /\ dir_conn_guard 6 dring6c 0 1 3 4 = false).
Proof. exact (conj und_guard_nonvacuous dir_guard_nonvacuous). Qed.

(* completeness of the undirected test is NOT claimed, and is false of the code as written: on the path 0-1-2-3-4 the
   swap 0-1, 4-3 -> 0-3, 4-1 keeps the network connected, yet the test refuses it (a frontier row that is empty in the
   first round ends the search).  Not a violation of the property (which only demands that accepted swaps keep
   connectivity); recorded so that nobody reads the soundness theorem as an equivalence. *)
Example C11_und_test_incomplete :
  connected 5 path5 /\ connected 5 (swap_und path5 0 1 4 3) /\
  path5 0%nat 3%nat = 0 /\ path5 4%nat 1%nat = 0 /\ path5 0%nat 1%nat <> 0 /\ path5 4%nat 3%nat <> 0 /\
  und_conn_guard 5 path5 0 1 4 3 = false.
Proof. exact und_test_incomplete. Qed.

(* latticisation never increases sum(D*R) for the distance matrix in use; undirected routines: for symmetric D
   (the default ring distance is symmetric: C11_ring_dist_sym).  For an ASYMMETRIC caller-supplied D the undirected
   routines can increase it: C11_lattice_cost_und_asym_refuted. *)
Theorem C11_lattice_cost : forall r n R0 itr D s0 res,
  is_latt r = true ->
  run_routine r n R0 itr D s0 = Done res ->
  (is_und r = true -> forall x y, R0 x y = R0 y x) ->
  let Dm := match D with Some D' => D' | None => ring_dist n end in
  (is_und r = true -> forall x y, Dm x y = Dm y x) ->
  let c0 := cost n Dm (pre_matrix r n R0 (r_perm res)) in
  cost n Dm (r_rp res) <= c0 /\ Forall (fun ev => cost n Dm (sR (snd ev)) <= c0) (r_trace res).
Proof. exact run_lattice_cost. Qed.

Theorem C11_ring_dist_sym : forall n x y, ring_dist n x y = ring_dist n y x.
Proof. exact ring_dist_sym. Qed.

(* one accepted undirected swap under an asymmetric D that satisfies the lattice condition and raises the cost *)
Definition cx_R : mat Z := fun x y =>
  if ((Nat.eqb x 0 && Nat.eqb y 1) || (Nat.eqb x 1 && Nat.eqb y 0) || (Nat.eqb x 2 && Nat.eqb y 3) || (Nat.eqb x 3 && Nat.eqb y 2))%bool
  then 1 else 0.
Definition cx_D : mat Z := fun x y =>
  if (Nat.eqb x 0 && Nat.eqb y 1)%bool then 1 else if (Nat.eqb x 2 && Nat.eqb y 3)%bool then 1
  else if (Nat.eqb x 3 && Nat.eqb y 0)%bool then 5 else 0.
Theorem C11_lattice_cost_und_asym_refuted :
  exists (R D : mat Z) (a b c d : nat),
    lattice_guard D R a b c d = true /\ (forall x y, R x y = R y x) /\ R a d = 0 /\ R c b = 0 /\
    cost 4 D R < cost 4 D (swap_und R a b c d).
Proof.
  exists cx_R, cx_D, 0%nat, 1%nat, 2%nat, 3%nat.
  split; [reflexivity|]. split; [|split; [reflexivity|split; [reflexivity|vm_compute; reflexivity]]].
  intros x y. unfold cx_R.
  repeat match goal with |- context[Nat.eqb ?u ?v] => destruct (Nat.eqb_spec u v) end; subst; try reflexivity; lia.
Qed.

(* randomize_graph_partial_und never creates a connection where a (symmetric) mask is nonzero — final matrix and
   every intermediate state *)
Theorem C11_mask : forall n A B maxswap s0 res,
  run_partial_und n A B maxswap s0 = Done res ->
  (forall x y, A x y = A y x) -> (forall x y, B x y = B y x) ->
  MaskOK A B (r_out res) /\ Forall (fun ev => MaskOK A B (sR (snd ev))) (r_trace res).
Proof. exact run_partial_mask. Qed.

(* with an ASYMMETRIC mask the clause is false (open finding randomize_graph_partial_und:asymmetric-mask): one accepted
   swap that passes the mask test and fills a marked cell *)
Theorem C11_mask_asym_refuted :
  exists (A B : mat Z) (a b c d : nat),
    (forall x y, A x y = A y x) /\ four_ok a b c d = true /\ A a b <> 0 /\ A c d <> 0 /\ A a d = 0 /\ A c b = 0 /\
    mask_guard B A a b c d = true /\
    ~ MaskOK A B (swap_und A a b c d).
Proof. exact mask_asym_refuted. Qed.

(* non-vacuity of the run theorems: recorded runs of the implementation replayed by the model (Proofs/RewireExamples.v) *)
Definition C11_runs_nonvacuous := (ex_randmio_und_connected, ex_randmio_dir_connected, ex_latmio_und_connected, ex_latmio_dir_connected,
       ex_latmio_und, ex_latmio_dir, ex_partial_und).

Print Assumptions C11_und_test_sound.
Print Assumptions C11_dir_test_sound.
Print Assumptions C11_run_connected.
Print Assumptions C11_und_precondition.
Print Assumptions C11_und_precondition_complete.
Print Assumptions C11_und_rejects.
Print Assumptions C11_und_accepts.
Print Assumptions C11_und_search_fuel.
Print Assumptions C11_dir_search_fuel.
Print Assumptions C11_lattice_cost.
Print Assumptions C11_ring_dist_sym.
Print Assumptions C11_lattice_cost_und_asym_refuted.
Print Assumptions C11_mask.
Print Assumptions C11_mask_asym_refuted.
