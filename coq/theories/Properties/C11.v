(* Properties/C11.v — constrained rewiring honours connectivity, lattice cost and forbidden cells.
   Statements only.  Model: Model/Rewire.v (the guards und_conn_guard, dir_conn_guard, lattice_guard, mask_guard
   inside the C01 engine; precheck = the BCTParamError checks, built on Model/Components.v = get_components). *)
From Coq Require Import ZArith List Arith Permutation Lia Bool.
From BCT Require Import Base.Mat Base.ListX Model.Components Model.Rewire
     Proofs.RewireSwap Proofs.RewireInv Proofs.RewireRun Proofs.RewireConn Proofs.RewireGuards Proofs.RewireC11 Proofs.RewirePre.
Import ListNotations.
Open Scope Z_scope.

(* connected n R: every node < n reaches every other node along nonzero entries
   (= connected for symmetric R, strongly connected for directed R) *)

(* the two tests themselves: an accepted swap of a connected network is connected *)
Theorem C11_und_test_sound : forall n R a b c d,
  a <> b -> a <> c -> a <> d -> b <> c -> b <> d -> c <> d ->
  (a < n)%nat -> (b < n)%nat -> (c < n)%nat -> (d < n)%nat ->
  (forall x y, R x y = R y x) -> (forall x, R x x = 0) ->
  R a d = 0 -> R c b = 0 -> R a b <> 0 -> R c d <> 0 ->
  und_conn_guard n R a b c d = true -> connected n R -> connected n (swap_und R a b c d).
Proof. exact und_conn_guard_sound. Qed.

Theorem C11_dir_test_sound : forall n R a b c d,
  a <> b -> a <> c -> a <> d -> b <> c -> b <> d -> c <> d ->
  (a < n)%nat -> (b < n)%nat -> (c < n)%nat -> (d < n)%nat ->
  (forall x, R x x = 0) ->
  R a d = 0 -> R c b = 0 -> R a b <> 0 -> R c d <> 0 ->
  dir_conn_guard n R a b c d = true -> connected n R -> connected n (swap_dir R a b c d).
Proof. exact dir_conn_guard_sound. Qed.

(* whole runs of the four `_connected` routines, every stream: the returned matrix (caller numbering), the
   latticised-order matrix and the state after every accepted swap are connected / strongly connected *)
Theorem C11_run_connected : forall r n R0 itr D s0 res,
  is_conn r = true ->
  run_routine r n R0 itr D s0 = Some res ->
  (is_und r = true -> forall x y, R0 x y = R0 y x) -> (forall x, R0 x x = 0) ->
  (is_latt r = true -> Permutation (r_perm res) (seq 0 n)) ->
  connected n R0 ->
  connected n (r_out res) /\ connected n (r_rp res) /\ Forall (fun ev => connected n (sR (snd ev))) (r_trace res).
Proof. exact run_connected. Qed.

(* the undirected variants check their input: whatever passes is symmetric and connected, i.e. asymmetric or
   disconnected input is rejected (run_routine returns None = BCTParamError) *)
Theorem C11_und_precondition : forall r n R0,
  is_und r = true -> is_conn r = true -> precheck r n R0 = true -> sym_on n R0 /\ connected n R0.
Proof. exact precheck_und_connected. Qed.

Theorem C11_und_rejects : forall r n R0 itr D s0,
  is_und r = true -> is_conn r = true -> ~ (sym_on n R0 /\ connected n R0) -> run_routine r n R0 itr D s0 = None.
Proof.
  intros r n R0 itr D s0 U C H. unfold run_routine.
  destruct (precheck r n R0) eqn:P; [|reflexivity]. exfalso. apply H. apply (precheck_und_connected r n R0 U C P).
Qed.

(* latticisation never increases sum(D*R) for the distance matrix in use; undirected routines: for symmetric D
   (the default ring distance is symmetric: C11_ring_dist_sym).  For an ASYMMETRIC caller-supplied D the undirected
   routines can increase it: C11_lattice_cost_und_asym_refuted. *)
Theorem C11_lattice_cost : forall r n R0 itr D s0 res,
  is_latt r = true ->
  run_routine r n R0 itr D s0 = Some res ->
  (is_und r = true -> (forall x y, R0 x y = R0 y x) /\ (forall x, R0 x x = 0)) ->
  let Dm := match D with Some D' => D' | None => ring_dist n end in
  (is_und r = true -> forall x y, Dm x y = Dm y x) ->
  let c0 := cost n Dm (pre_matrix r n R0 (r_perm res)) in
  cost n Dm (r_rp res) <= c0 /\ Forall (fun ev => cost n Dm (sR (snd ev)) <= c0) (r_trace res).
Proof. exact run_lattice_cost. Qed.

Theorem C11_ring_dist_sym : forall n x y, ring_dist n x y = ring_dist n y x.
Proof. exact ring_dist_sym. Qed.

(* one accepted undirected swap under an asymmetric D that satisfies the lattice condition and raises the cost *)
Definition cx_R : mat Z := fun x y =>
  if ((Nat.eqb x 0 && Nat.eqb y 1) || (Nat.eqb x 1 && Nat.eqb y 0) || (Nat.eqb x 2 && Nat.eqb y 3) || (Nat.eqb x 3 && Nat.eqb y 2))%bool
  then 1 else 0.
Definition cx_D : mat Z := fun x y =>
  if (Nat.eqb x 0 && Nat.eqb y 1)%bool then 1 else if (Nat.eqb x 2 && Nat.eqb y 3)%bool then 1
  else if (Nat.eqb x 3 && Nat.eqb y 0)%bool then 5 else 0.
Theorem C11_lattice_cost_und_asym_refuted :
  exists (R D : mat Z) (a b c d : nat),
    lattice_guard D R a b c d = true /\ (forall x y, R x y = R y x) /\ R a d = 0 /\ R c b = 0 /\
    cost 4 D R < cost 4 D (swap_und R a b c d).
Proof.
  exists cx_R, cx_D, 0%nat, 1%nat, 2%nat, 3%nat.
  split; [reflexivity|]. split; [|split; [reflexivity|split; [reflexivity|vm_compute; reflexivity]]].
  intros x y. unfold cx_R.
  repeat match goal with |- context[Nat.eqb ?u ?v] => destruct (Nat.eqb_spec u v) end; subst; try reflexivity; lia.
Qed.

(* randomize_graph_partial_und never creates a connection where a (symmetric) mask is nonzero — final matrix and
   every intermediate state *)
Theorem C11_mask : forall n A B maxswap s0 res,
  run_partial_und n A B maxswap s0 = Some res ->
  (forall x y, A x y = A y x) -> (forall x, A x x = 0) -> (forall x y, B x y = B y x) ->
  MaskOK A B (r_out res) /\ Forall (fun ev => MaskOK A B (sR (snd ev))) (r_trace res).
Proof. exact run_partial_mask. Qed.

Print Assumptions C11_und_test_sound.
Print Assumptions C11_dir_test_sound.
Print Assumptions C11_run_connected.
Print Assumptions C11_und_precondition.
Print Assumptions C11_und_rejects.
Print Assumptions C11_lattice_cost.
Print Assumptions C11_ring_dist_sym.
Print Assumptions C11_lattice_cost_und_asym_refuted.
Print Assumptions C11_mask.
