(* Properties/C12.v — every path the library returns is a real path with the reported length.
   Only statements; every proof is `exact <lemma of Proofs/Paths.v / Proofs/DistanceFloyd.v>`.
   [wl L s mid t] is Some (total length) exactly when s -> mid... -> t moves only along existing connections. *)
From Coq Require Import QArith List Arith ZArith Lia.
From BCT Require Import Base.Mat Base.ListX Model.Distance Model.Paths Model.PathsExt
  Proofs.DistanceBase Proofs.DistanceFloyd Proofs.DistanceOther Proofs.Paths Proofs.PathsFull
  Proofs.DistanceHopsPath Proofs.PathsNav.
Import ListNotations.
Open Scope Q_scope.

(* ---------- the Floyd–Warshall hops / Pmat invariant (final state) ---------- *)
(* for i <> j with finite SPL: p = Pmat[i,j] is a node, (i,p) is an existing connection, and either p = j
   (one hop, SPL = L[i,j]) or hops and SPL decompose exactly along the CURRENT entries of (p,j) *)
Theorem C12_floyd_path_inv : forall n L, nonneg n L ->
  forall i j x, (i < n)%nat -> (j < n)%nat -> i <> j -> spl (floyd n L) i j = Some x ->
  let p := pmat (floyd n L) i j in
  (p < n)%nat /\
  ((p = j /\ hops (floyd n L) i j = 1%nat /\ oeq (L i j) (Some x)) \/
   (p <> j /\ hops (floyd n L) i j = S (hops (floyd n L) p j) /\
    oeq (oadd (L i p) (spl (floyd n L) p j)) (Some x))).
Proof. exact floyd_path_step. Qed.

(* ---------- retrieve_shortest_path on distance_wei_floyd output ---------- *)
(* starts at s, ends at t, moves only along existing connections, exactly hops[s,t] hops, total length SPL[s,t] *)
Theorem C12_retrieve_valid : forall n L, nonneg n L ->
  forall s t x, (s < n)%nat -> (t < n)%nat -> s <> t -> spl (floyd n L) s t = Some x ->
  exists mid, retrieve s t (hops (floyd n L)) (pmat (floyd n L)) = s :: mid ++ [t] /\ below n mid /\
              S (length mid) = hops (floyd n L) s t /\ oeq (wl L s mid t) (Some x).
Proof. exact retrieve_valid. Qed.

(* empty exactly when the target is unreachable *)
Theorem C12_retrieve_empty_iff : forall n L, nonneg n L ->
  forall s t, (s < n)%nat -> (t < n)%nat -> s <> t ->
  (retrieve s t (hops (floyd n L)) (pmat (floyd n L)) = [] <-> ~ reachable n L s t).
Proof. exact retrieve_empty_iff. Qed.

(* and it is a shortest one *)
Theorem C12_retrieve_shortest : forall n L, nonneg n L ->
  forall s t x, (s < n)%nat -> (t < n)%nat -> s <> t -> spl (floyd n L) s t = Some x ->
  forall mid y, below n mid -> wl L s mid t = Some y -> x <= y.
Proof. exact retrieve_shortest. Qed.

(* source = target: hops[s,s] = 0 and the returned path is empty (the one case where "empty" does not mean
   "unreachable"; the property's clauses are about pairs of distinct nodes) *)
Theorem C12_retrieve_diag : forall n L s, retrieve s s (hops (floyd n L)) (pmat (floyd n L)) = [].
Proof. exact retrieve_diag. Qed.

(* with each transform (None / 'inv' / 'log', -log abstract and >= 0 on (0,1]) *)
Theorem C12_retrieve_transforms : forall nlog : Q -> Q,
  (forall w, 0 < w -> w <= 1 -> 0 <= nlog w) ->
  forall n A tr,
  (forall i j, (i < n)%nat -> (j < n)%nat -> 0 <= A i j) ->
  (tr = TLog -> forall i j, (i < n)%nat -> (j < n)%nat -> A i j <= 1) ->
  let F := distance_wei_floyd nlog n A tr in
  forall s t, (s < n)%nat -> (t < n)%nat -> s <> t ->
  (forall x, spl F s t = Some x ->
     exists mid, retrieve s t (hops F) (pmat F) = s :: mid ++ [t] /\ below n mid /\
                 S (length mid) = hops F s t /\ oeq (wl (lengths nlog tr A) s mid t) (Some x)) /\
  (retrieve s t (hops F) (pmat F) = [] <-> ~ reachable n (lengths nlog tr A) s t).
Proof. exact retrieve_valid_transforms. Qed.

(* ---------- navigation_wu ---------- *)
(* for every fuel, length matrix L, nodal distance matrix D, max_hops and pair: the recorded node list starts
   at i, is non-empty, is a walk along nonzero entries of L inside {0..n-1}; the three reported lengths
   (nv_bin, nv_wei, nv_dis; None = infinity) are either all finite — then the list ends at j and they are its
   hop count, summed L and summed D — or all infinite — then the list does not end at j; never mixed *)
Theorem C12_nav_walk_valid : forall n L D mh fuel i j r, (i < n)%nat ->
  nav_pair fuel n L D mh i j = Some r ->
  hd j (nv_path r) = i /\ nv_path r <> [] /\ chain L (nv_path r) /\ Forall (fun v => (v < n)%nat) (nv_path r) /\
  match nv_bin r, nv_wei r, nv_dis r with
  | Some b, Some w, Some d => last (nv_path r) i = j /\ S b = length (nv_path r) /\
                              w == lsum L (nv_path r) /\ d == lsum D (nv_path r)
  | None, None, None => last (nv_path r) i <> j
  | _, _, _ => False
  end.
Proof. exact nav_walk_valid. Qed.

(* failed navigations are reported as infinite in all three, and they are exactly those that do not reach j *)
Theorem C12_nav_fail_all_inf : forall n L D mh fuel i j r, (i < n)%nat -> nav_pair fuel n L D mh i j = Some r ->
  (nv_bin r = None <-> nv_wei r = None) /\ (nv_bin r = None <-> nv_dis r = None) /\
  (nv_bin r = None <-> last (nv_path r) i <> j).
Proof. exact nav_fail_all_inf. Qed.

(* exactly one result per ordered pair of distinct nodes, position by position in row-major order *)
Theorem C12_nav_one_per_pair : forall fuel n L D mh sr rs, navigation_wu fuel n L D mh = Some (sr, rs) ->
  map (fun c => nav_pair fuel n L D mh (fst c) (snd c)) (offdiag n) = map Some rs.
Proof. exact nav_one_per_pair. Qed.

(* with a finite max_hops the navigation loop always terminates: fuel max_hops + 2 is sufficient *)
Theorem C12_nav_returns : forall n L D m fuel, (m + 2 <= fuel)%nat ->
  exists res, navigation_wu fuel n L D (Some m) = Some res.
Proof. exact navigation_wu_total. Qed.

Theorem C12_nav_all_valid : forall fuel n L D mh sr rs, navigation_wu fuel n L D mh = Some (sr, rs) ->
  forall r, In r rs -> exists i j, (i < n)%nat /\ (j < n)%nat /\ i <> j /\
    nav_pair fuel n L D mh i j = Some r /\ navpost n L D i j r.
Proof. exact nav_all_valid. Qed.

(* success ratio = number of successful ordered pairs / (n^2 - n) *)
Theorem C12_nav_success_ratio : forall fuel n L D mh sr rs, (2 <= n)%nat ->
  navigation_wu fuel n L D mh = Some (sr, rs) ->
  length rs = (n * n - n)%nat /\
  sr == nq (length (filter (fun r => negb (is_fail r)) rs)) / nq (n * n - n).
Proof. exact nav_success_ratio. Qed.

(* each step goes to a neighbour of the current node that is closest to the target *)
Theorem C12_nav_step_greedy : forall n (L D : mat Q) target c v0 rr, neighbors n L c = v0 :: rr ->
  let next := argmin_first (fun v => D target v) v0 rr in
  In next (neighbors n L c) /\ forall v, In v (neighbors n L c) -> D target next <= D target v.
Proof. exact nav_step_greedy. Qed.

(* ---------- added: strict paths, the greedy rule on the returned path, max_hops, totality on undirected L, n <= 1 ---------- *)
(* the returned sequence never repeats a node (zero-length connections allowed) *)
Theorem C12_retrieve_nodup : forall n L, nonneg n L ->
  forall s t x, (s < n)%nat -> (t < n)%nat -> s <> t -> spl (floyd n L) s t = Some x ->
  NoDup (retrieve s t (hops (floyd n L)) (pmat (floyd n L))).
Proof. exact retrieve_nodup. Qed.

(* [greedy_step n L D target a b]: b is a neighbour of a, no neighbour of a is closer to the target, and among the
   closest ones b has the smallest index (np.argmin = first minimum).  EVERY consecutive pair of EVERY returned node
   list, successful or failed, is such a step: the step lemma threaded through the loop to the result *)
Theorem C12_nav_path_greedy : forall n L D mh fuel i j r, nav_pair fuel n L D mh i j = Some r ->
  forall k a b, nth_error (nv_path r) k = Some a -> nth_error (nv_path r) (S k) = Some b ->
  In b (neighbors n L a) /\
  (forall v, In v (neighbors n L a) -> D j b <= D j v) /\
  (forall v, In v (neighbors n L a) -> v <> b -> D j b < D j v \/ (D j b <= D j v /\ (b < v)%nat)).
Proof. exact nav_path_greedy. Qed.

(* max_hops = m: `pl_bin > max_hops` is tested BEFORE the increment, so a successful navigation has at most m+1 hops
   (not m, as the docstring "Limits the maximum number of hops" suggests; same as BCT's navigation_wu.m).  The bound is attained: *)
Theorem C12_nav_hops_bound : forall n L D m fuel i j r b,
  nav_pair fuel n L D (Some m) i j = Some r -> nv_bin r = Some b -> (b <= m + 1)%nat.
Proof. exact nav_hops_bound. Qed.

Example C12_nav_max_hops_plus_one :
  exists r, nav_pair 10 3 (of_rows 0 [[0;1;0];[1;0;1];[0;1;0]]) (of_rows 0 [[0;1;2];[1;0;1];[2;1;0]]) (Some 1%nat) 0 2 = Some r /\
            nv_path r = [0;1;2]%nat /\ nv_bin r = Some 2%nat.
Proof. eexists. vm_compute. repeat split. Qed.

(* TOTALITY for the default max_hops=None on the routine's documented domain: when the SUPPORT of L is symmetric
   (undirected; the values and D may be anything) every navigation stops within 2n steps — the model with fuel 2n
   returns, so "whenever the run returns" in the theorems above is "always" there.  (On directed input the real loop can
   run forever: 0 -> 1 -> 2 -> 0 with a far-away target.) *)
Theorem C12_nav_returns_und : forall n L D, symsupp n L -> forall fuel, (2 * n <= fuel)%nat ->
  exists res, navigation_wu fuel n L D None = Some res.
Proof. exact navigation_wu_total_und. Qed.

Example C12_nav_returns_und_nonvacuous :
  symsupp 3 (of_rows 0 [[0;1;0];[2;5;1];[0;3;0]]) /\
  exists sr rs, navigation_wu 6 3 (of_rows 0 [[0;1;0];[2;5;1];[0;3;0]]) (of_rows 0 [[0;1;2];[1;0;1];[2;1;0]]) None = Some (sr, rs) /\ sr == 1.
Proof.
  split.
  - intros i j Hi Hj. do 3 (destruct i as [|i]; [do 3 (destruct j as [|j]; [vm_compute; split; intros H; try reflexivity; try discriminate|]); lia|]). lia.
  - eexists. eexists. split; [vm_compute; reflexivity|]. reflexivity.
Qed.

(* the top level with the final division: n <= 1 raises (ZeroDivisionError) and nothing else does; for n >= 2 the outcome
   is the pair (sr, results) of navigation_wu *)
Theorem C12_nav_raises_iff_small : forall fuel n L D mh,
  (navigation_wu_x fuel n L D mh = NavRaises <-> (n <= 1)%nat) /\
  (forall sr rs, navigation_wu_x fuel n L D mh = NavDone sr rs <->
                 ((2 <= n)%nat /\ navigation_wu fuel n L D mh = Some (sr, rs))).
Proof. exact navigation_wu_x_outcomes. Qed.

(* non-vacuity: tie-heavy directed lengths; 0->3 has two shortest alternatives, node 4 unreachable *)
Example C12_nonvacuous :
  let L := lengths (fun x => x) TNone (of_rows 0 [[0;1;2;0;0];[0;0;0;2;0];[0;0;0;1;0];[3;0;0;0;0];[0;0;0;0;0]]) in
  nonneg 5 L /\
  retrieve 0 3 (hops (floyd 5 L)) (pmat (floyd 5 L)) = [0;1;3]%nat /\
  retrieve 3 2 (hops (floyd 5 L)) (pmat (floyd 5 L)) = [3;0;2]%nat /\
  retrieve 0 4 (hops (floyd 5 L)) (pmat (floyd 5 L)) = [] /\
  exists r, nav_pair 10 3 (of_rows 0 [[0;1;0];[1;0;1];[0;1;0]]) (of_rows 0 [[0;1;2];[1;0;1];[2;1;0]]) None 0 2 = Some r /\
            nv_path r = [0;1;2]%nat /\ nv_bin r = Some 2%nat /\ nv_wei r = Some (0 + 1 + 1) /\ nv_dis r = Some (0 + 1 + 1).
Proof.
  split.
  - apply lengths_nonneg; [|discriminate]. intros i j _ _. apply of_rows_nonneg.
    repeat constructor; unfold Qle; cbn; lia.
  - vm_compute. repeat split. eexists. repeat split.
Qed.

(* non-vacuity of the failure clause: 0 -> 1 is the only connection; navigating 0 -> 2 steps to 1 and hits a dead end:
   all three lengths infinite, the recorded list [0;1] does not end at the target *)
Example C12_nav_fail_nonvacuous :
  exists r, nav_pair 10 3 (of_rows 0 [[0;1;0];[0;0;0];[0;0;0]]) (of_rows 0 [[0;1;2];[1;0;1];[2;1;0]]) (Some 3%nat) 0 2 = Some r /\
            nv_path r = [0;1]%nat /\ nv_bin r = None /\ nv_wei r = None /\ nv_dis r = None.
Proof. eexists. vm_compute. repeat split. Qed.

Print Assumptions C12_floyd_path_inv.
Print Assumptions C12_retrieve_valid.
Print Assumptions C12_retrieve_empty_iff.
Print Assumptions C12_retrieve_shortest.
Print Assumptions C12_retrieve_transforms.
Print Assumptions C12_retrieve_diag.
Print Assumptions C12_nav_walk_valid.
Print Assumptions C12_nav_fail_all_inf.
Print Assumptions C12_nav_one_per_pair.
Print Assumptions C12_nav_returns.
Print Assumptions C12_nav_all_valid.
Print Assumptions C12_nav_success_ratio.
Print Assumptions C12_nav_step_greedy.
Print Assumptions C12_retrieve_nodup.
Print Assumptions C12_nav_path_greedy.
Print Assumptions C12_nav_hops_bound.
Print Assumptions C12_nav_returns_und.
Print Assumptions C12_nav_raises_iff_small.
