(* Properties/C17.v — thresholding and weight conversion keep exactly the documented entries.
   Only statements; every proof is `exact <lemma of Proofs/Threshold.v | ThresholdFull.v | ThresholdStore.v>`. *)
From Coq Require Import String.
From Coq Require Import QArith Qabs Qround List Arith ZArith Permutation Sorted.
From BCT Require Import Base.Mat Base.ListX Model.Threshold Proofs.Threshold Proofs.ThresholdFull
  Model.ThresholdStore Proofs.ThresholdStore.
Import ListNotations.
Open Scope Q_scope.

Section ThresholdProportional.
(* [order] is ANY admissible outcome of argsort(...)[::-1] (a permutation of the links, non-increasing);
   threshold_proportional itself is the instance order := sort_desc (sort_desc_admissible). *)
Variable order : mat Q -> list cell -> list cell.
Hypothesis Hadm : admissible order.
Variables (n : nat) (W : mat Q) (p : Q) (R : mat Q).
Hypothesis Hrun : tp_with order n W p = Some R.

(* links considered: off-diagonal nonzeros (upper triangle only when W is (all)close to symmetric) *)
Let symm := fst (tp_prep n W).
Let links := where_nz n (snd (tp_prep n W)).
Let en := Z.to_nat (tp_en n p symm).       (* round(p * possible / ud) *)

(* exactly round(p*possible) connections are kept, all of them if fewer exist (x2 for the mirrored half) *)
Theorem C17_tp_count :
  length (where_nz n R) = ((if symm then 2 else 1) * Nat.min en (length links))%nat.
Proof. exact (tp_count order Hadm n W p R Hrun). Qed.

(* WHICH cells are kept: the nonzero cells of the output R are exactly the first en of the sorted links
   (plus their mirror images on the symmetric branch) *)
Theorem C17_tp_support :
  Permutation (where_nz n R)
    (if symm then firstn en (order (snd (tp_prep n W)) links) ++ map swapc (firstn en (order (snd (tp_prep n W)) links))
     else firstn en (order (snd (tp_prep n W)) links)).
Proof. exact (tp_support order Hadm n W p R Hrun). Qed.

Theorem C17_tp_kept_iff : forall c, In c links ->
  (~ at_ R c == 0 <-> In c (firstn en (order (snd (tp_prep n W)) links))).
Proof. exact (tp_kept_iff order Hadm n W p R Hrun). Qed.

(* the kept ones are the strongest — a statement about the OUTPUT: among the links of the input, every link that R
   keeps carries its input weight and is at least as strong as every link that R discards *)
Theorem C17_tp_strongest : forall c d, In c links -> In d links -> ~ at_ R c == 0 -> at_ R d == 0 ->
  at_ W d <= at_ W c /\ at_ R c == at_ W c.
Proof. exact (tp_strongest_R order Hadm n W p R Hrun). Qed.

(* what a link is: an off-diagonal nonzero entry of W inside the grid (strictly upper on the symmetric branch) *)
Theorem C17_tp_links : forall c, In c links ->
  (fst c < n)%nat /\ (snd c < n)%nat /\ fst c <> snd c /\ (symm = true -> (fst c < snd c)%nat) /\
  at_ (snd (tp_prep n W)) c = at_ W c /\ ~ at_ W c == 0.
Proof. exact (links_spec n W p). Qed.

Theorem C17_tp_values : forall i j,
  R i j == 0 \/ (i <> j /\ (R i j == W i j \/ (symm = true /\ R i j == W j i))).
Proof. exact (tp_values order n W p R Hrun). Qed.

Theorem C17_tp_diag : forall i, R i i == 0.
Proof. exact (tp_diag order n W p R Hrun). Qed.

Theorem C17_tp_sym : (forall i j, W i j == W j i) -> forall i j, R i j == R j i.
Proof. intros Hs. exact (tp_sym order n W p R Hrun (exact_sym_branch n W Hs)). Qed.
End ThresholdProportional.

Theorem C17_tp_instance : admissible sort_desc.
Proof. exact sort_desc_admissible. Qed.

Theorem C17_tp_rejects : forall order n W p, (p < 0 \/ 1 < p) <-> tp_with order n W p = None.
Proof.
  intros order n W p. unfold tp_with. split.
  - intros [H|H]; [apply Qltb_true in H; rewrite H, orb_true_r|apply Qltb_true in H; rewrite H]; reflexivity.
  - destruct (Qltb 1 p) eqn:E1; [intros _; right; apply Qltb_true; exact E1|].
    destruct (Qltb p 0) eqn:E2; [intros _; left; apply Qltb_true; exact E2|].
    cbn [orb]. destruct (tp_prep n W). discriminate.
Qed.

Theorem C17_ta_exact : forall W thr i j,
  (threshold_absolute W thr i i == 0) /\
  (i <> j -> thr <= W i j -> threshold_absolute W thr i j == W i j) /\
  (i <> j -> W i j < thr -> threshold_absolute W thr i j == 0).
Proof. exact ta_exact. Qed.

Theorem C17_binarize : forall W i j,
  (W i j == 0 -> binarize W i j == 0) /\ (~ W i j == 0 -> binarize W i j == 1).
Proof. exact binarize_spec. Qed.

Theorem C17_normalize : forall n W,
  (exists i j, (i < n)%nat /\ (j < n)%nat /\ ~ W i j == 0) ->
  (forall i j, (i < n)%nat -> (j < n)%nat ->
     Qabs (normalize n W i j) <= 1 /\ normalize n W i j * maxabs n W == W i j) /\
  (exists i j, (i < n)%nat /\ (j < n)%nat /\ Qabs (normalize n W i j) == 1).
Proof. exact normalize_spec. Qed.

Theorem C17_invert_spec : forall W i j,
  (W i j == 0 -> invert W i j == 0) /\ (~ W i j == 0 -> invert W i j == 1 / W i j).
Proof. exact invert_spec. Qed.

Theorem C17_invert_involutive : forall W i j, invert (invert W) i j == W i j.
Proof. exact invert_involutive. Qed.

(* ---------- the copy flag, on the store model of the statement sequences (Model/ThresholdStore.v) ----------
   honours_copy s s' copy R: the call started in store s, ended in s', returns the object at [loc s'], and
     rd s' = R (the returned object holds the pure model's value) and
     copy=true : loc s' = nxt s (a fresh object), loc s' <> loc s, every object that existed before is unchanged;
     copy=false: loc s' = loc s (the returned object IS the argument), no other object is touched. *)
Theorem C17_copy_contract_meaning : forall s s' R,
  (wf s -> honours_copy s s' true R ->
     hp s' (loc s) = hp s (loc s) /\ loc s' <> loc s /\ hp s' (loc s') = R) /\
  (honours_copy s s' false R -> loc s' = loc s /\ hp s' (loc s) = R).
Proof. intros s s' R. split; [exact (honours_copy_true s s' R)|exact (honours_copy_false s s' R)]. Qed.

Theorem C17_copy_threshold_absolute : forall thr copy s, wf s ->
  honours_copy s (ta_prog thr copy s) copy (threshold_absolute (rd s) thr).
Proof. exact ta_copy. Qed.

Theorem C17_copy_threshold_proportional : forall order n p copy s, wf s ->
  match tp_with order n (rd s) p with
  | None => tp_prog order n p copy s = None
  | Some R => exists s', tp_prog order n p copy s = Some s' /\ honours_copy s s' copy R
  end.
Proof. exact tp_copy. Qed.

Theorem C17_copy_binarize : forall copy s, wf s -> honours_copy s (binarize_prog copy s) copy (binarize (rd s)).
Proof. exact binarize_copy. Qed.

(* normalize / invert (after /repo e4e2655, 46a4b71): [flt] = the argument's dtype is floating point.  copy=False on a
   non-float array raises BCTParamError before anything is touched; in every other case the contract holds, and a non-float
   argument is promoted into a FRESH float object (W.astype(float)) that receives the result *)
Theorem C17_copy_normalize : forall n flt copy s, wf s ->
  (flt = false -> copy = false -> normalize_prog_d n flt copy s = RaiseParam) /\
  (flt = true \/ copy = true ->
     exists s', normalize_prog_d n flt copy s = Done s' /\ honours_copy s s' copy (normalize n (rd s))).
Proof. exact normalize_copy_d. Qed.

Theorem C17_copy_invert : forall flt copy s, wf s ->
  (flt = false -> copy = false -> invert_prog_d flt copy s = RaiseParam) /\
  (flt = true \/ copy = true ->
     exists s', invert_prog_d flt copy s = Done s' /\ honours_copy s s' copy (invert (rd s))).
Proof. exact invert_copy_d. Qed.

(* weight_conversion: the command string (as the list of its character codes, [codes "binarize"] = [98;105;...]) selects
   the utility, anything else raises (None), `copy` is handed on *)
Theorem C17_wc_dispatch : forall n W wcm,
  (wcm = codes "binarize" -> weight_conversion_str n W wcm = Some (binarize W)) /\
  (wcm = codes "normalize" -> weight_conversion_str n W wcm = Some (normalize n W)) /\
  (wcm = codes "lengths" -> weight_conversion_str n W wcm = Some (invert W)) /\
  (wcm <> codes "binarize" -> wcm <> codes "normalize" -> wcm <> codes "lengths" ->
     weight_conversion_str n W wcm = None).
Proof. exact wc_dispatch. Qed.

Theorem C17_copy_weight_conversion : forall n wcm flt copy s, wf s ->
  match weight_conversion_str n (rd s) wcm with
  | None => wc_prog_d n wcm flt copy s = RaiseNotImplemented
  | Some R =>
      (wcm <> codes "binarize" -> flt = false -> copy = false -> wc_prog_d n wcm flt copy s = RaiseParam) /\
      (wcm = codes "binarize" \/ flt = true \/ copy = true ->
         exists s', wc_prog_d n wcm flt copy s = Done s' /\ honours_copy s s' copy R)
  end.
Proof. exact wc_copy_d. Qed.

(* contrast (logtransform / autofix, not named by C17): a utility whose last statement REBINDS the name does not leave
   its result in the argument when copy=False *)
Theorem C17_rebind_not_inplace : forall g s, wf s ->
  let s' := rebind_shape g false s in
  loc s' <> loc s /\ hp s' (loc s) = hp s (loc s) /\ rd s' = g (rd s).
Proof. exact rebind_not_inplace. Qed.

(* normalize is defined (max|W| <> 0) exactly off the all-zero matrix; there the code evaluates 0/0 *)
Theorem C17_normalize_domain : forall n W,
  maxabs n W == 0 <-> forall i j, (i < n)%nat -> (j < n)%nat -> W i j == 0.
Proof. exact maxabs_zero_iff. Qed.

Theorem C17_teachers_round : forall x, 0 < x -> teachers_round x = Qfloor (x + (1 # 2)).
Proof. exact teachers_round_half_up. Qed.

(* x < 0: exact halves go DOWN (the code takes ceil only if x % 1 > 0.5): round half away from zero *)
Theorem C17_teachers_round_neg : forall x, x < 0 -> teachers_round x = (- Qfloor (- x + (1 # 2)))%Z.
Proof. exact teachers_round_neg. Qed.

Theorem C17_teachers_round_zero : forall x, x == 0 -> teachers_round x = 0%Z.
Proof. exact teachers_round_zero. Qed.

Theorem C17_teachers_round_odd : forall x, teachers_round (- x) = (- teachers_round x)%Z.
Proof. exact teachers_round_odd. Qed.

(* non-vacuity: a concrete matrix meets the hypotheses and the count is as stated *)
Example C17_nonvacuous :
  let W := of_rows 0 [[0; 3; 1]; [3; 0; 5]; [1; 5; 0]]%list in
  exists R, threshold_proportional 3 W (1 # 2) = Some R /\ length (where_nz 3 R) = 4%nat.
Proof. eexists. split; [reflexivity|]. vm_compute. reflexivity. Qed.

(* non-vacuity of the new families *)
Example C17_support_nonvacuous :
  let W := of_rows 0 [[0; 3; 1]; [2; 0; 5]; [1; 4; 0]]%list in
  exists R, threshold_proportional 3 W (1 # 2) = Some R /\
    where_nz 3 R = [(0%nat, 1%nat); (1%nat, 2%nat); (2%nat, 1%nat)]%list /\ fst (tp_prep 3 W) = false.
Proof. eexists. split; [reflexivity|]. vm_compute. split; reflexivity. Qed.

Example C17_copy_nonvacuous :
  let W := of_rows 0 [[7; 3; 1]; [3; 0; 5]; [1; 5; 0]]%list in
  wf (init W) /\
  (exists s, tp_prog sort_desc 3 (1 # 2) true (init W) = Some s /\ loc s = 1%nat /\ hp s 0%nat 0%nat 0%nat = 7 /\ rd s 0%nat 0%nat = 0) /\
  (exists s, tp_prog sort_desc 3 (1 # 2) false (init W) = Some s /\ loc s = 0%nat /\ hp s 0%nat 0%nat 0%nat = 0) /\
  wc_prog_d 3 (codes "foo") true true (init W) = RaiseNotImplemented /\
  wc_prog_d 3 (codes "lengths") false false (init W) = RaiseParam /\
  (exists s, wc_prog_d 3 (codes "lengths") false true (init W) = Done s /\ loc s = 1%nat /\ hp s 0%nat 0%nat 1%nat = 3 /\
             Qred (rd s 0%nat 1%nat) = 1 # 3) /\
  (exists s, wc_prog_d 3 (codes "lengths") true false (init W) = Done s /\ loc s = 0%nat /\ Qred (hp s 0%nat 0%nat 1%nat) = 1 # 3).
Proof.
  cbv zeta. split; [unfold wf, init; cbn [loc nxt]; apply Nat.lt_0_1|].
  split; [eexists; split; [reflexivity|vm_compute; repeat split; reflexivity]|].
  split; [eexists; split; [reflexivity|vm_compute; repeat split; reflexivity]|].
  split; [reflexivity|]. split; [reflexivity|].
  split; [eexists; split; [reflexivity|vm_compute; repeat split; reflexivity]|].
  eexists; split; [reflexivity|vm_compute; repeat split; reflexivity].
Qed.

Example C17_round_nonvacuous :
  teachers_round (-(5 # 2)) = (-3)%Z /\ teachers_round (5 # 2) = 3%Z /\ teachers_round (-(12 # 5)) = (-2)%Z /\
  teachers_round (-(13 # 5)) = (-3)%Z.
Proof. vm_compute. repeat split. Qed.

Print Assumptions C17_tp_count.
Print Assumptions C17_tp_support.
Print Assumptions C17_tp_kept_iff.
Print Assumptions C17_tp_links.
Print Assumptions C17_tp_strongest.
Print Assumptions C17_tp_values.
Print Assumptions C17_tp_diag.
Print Assumptions C17_tp_sym.
Print Assumptions C17_tp_instance.
Print Assumptions C17_tp_rejects.
Print Assumptions C17_ta_exact.
Print Assumptions C17_binarize.
Print Assumptions C17_normalize.
Print Assumptions C17_invert_spec.
Print Assumptions C17_invert_involutive.
Print Assumptions C17_copy_contract_meaning.
Print Assumptions C17_copy_threshold_absolute.
Print Assumptions C17_copy_threshold_proportional.
Print Assumptions C17_copy_binarize.
Print Assumptions C17_copy_normalize.
Print Assumptions C17_copy_invert.
Print Assumptions C17_wc_dispatch.
Print Assumptions C17_copy_weight_conversion.
Print Assumptions C17_rebind_not_inplace.
Print Assumptions C17_normalize_domain.
Print Assumptions C17_teachers_round.
Print Assumptions C17_teachers_round_neg.
Print Assumptions C17_teachers_round_zero.
Print Assumptions C17_teachers_round_odd.
