(* Properties/C17.v — thresholding and weight conversion keep exactly the documented entries.
   Only statements; every proof is `exact <lemma of Proofs/Threshold.v>`. *)
From Coq Require Import QArith Qabs Qround List Arith ZArith Permutation Sorted.
From BCT Require Import Base.Mat Base.ListX Model.Threshold Proofs.Threshold.
Import ListNotations.
Open Scope Q_scope.

Section ThresholdProportional.
(* [order] is ANY admissible outcome of argsort(...)[::-1] (a permutation of the links, non-increasing);
   threshold_proportional itself is the instance order := sort_desc (sort_desc_admissible). *)
Variable order : mat Q -> list cell -> list cell.
Hypothesis Hadm : admissible order.
Variables (n : nat) (W : mat Q) (p : Q) (R : mat Q).
Hypothesis Hrun : tp_with order n W p = Some R.

(* links considered: off-diagonal nonzeros (upper triangle only when W is (all)close to symmetric) *)
Let symm := fst (tp_prep n W).
Let links := where_nz n (snd (tp_prep n W)).
Let en := Z.to_nat (tp_en n p symm).       (* round(p * possible / ud) *)

(* exactly round(p*possible) connections are kept, all of them if fewer exist (x2 for the mirrored half) *)
Theorem C17_tp_count :
  length (where_nz n R) = ((if symm then 2 else 1) * Nat.min en (length links))%nat.
Proof. exact (tp_count order Hadm n W p R Hrun). Qed.

(* the kept ones are the strongest: kept = first en of the sorted links, dropped = the rest *)
Theorem C17_tp_strongest : forall c d,
  In c (firstn en (order (snd (tp_prep n W)) links)) -> In d (skipn en (order (snd (tp_prep n W)) links)) ->
  at_ (snd (tp_prep n W)) d <= at_ (snd (tp_prep n W)) c.
Proof. exact (tp_strongest order Hadm n W p). Qed.

Theorem C17_tp_values : forall i j,
  R i j == 0 \/ (i <> j /\ (R i j == W i j \/ (symm = true /\ R i j == W j i))).
Proof. exact (tp_values order n W p R Hrun). Qed.

Theorem C17_tp_diag : forall i, R i i == 0.
Proof. exact (tp_diag order n W p R Hrun). Qed.

Theorem C17_tp_sym : (forall i j, W i j == W j i) -> forall i j, R i j == R j i.
Proof. intros Hs. exact (tp_sym order n W p R Hrun (exact_sym_branch n W Hs)). Qed.
End ThresholdProportional.

Theorem C17_tp_instance : admissible sort_desc.
Proof. exact sort_desc_admissible. Qed.

Theorem C17_tp_rejects : forall order n W p, (p < 0 \/ 1 < p) <-> tp_with order n W p = None.
Proof.
  intros order n W p. unfold tp_with. split.
  - intros [H|H]; [apply Qltb_true in H; rewrite H, orb_true_r|apply Qltb_true in H; rewrite H]; reflexivity.
  - destruct (Qltb 1 p) eqn:E1; [intros _; right; apply Qltb_true; exact E1|].
    destruct (Qltb p 0) eqn:E2; [intros _; left; apply Qltb_true; exact E2|].
    cbn [orb]. destruct (tp_prep n W). discriminate.
Qed.

Theorem C17_ta_exact : forall W thr i j,
  (threshold_absolute W thr i i == 0) /\
  (i <> j -> thr <= W i j -> threshold_absolute W thr i j == W i j) /\
  (i <> j -> W i j < thr -> threshold_absolute W thr i j == 0).
Proof. exact ta_exact. Qed.

Theorem C17_binarize : forall W i j,
  (W i j == 0 -> binarize W i j == 0) /\ (~ W i j == 0 -> binarize W i j == 1).
Proof. exact binarize_spec. Qed.

Theorem C17_normalize : forall n W,
  (exists i j, (i < n)%nat /\ (j < n)%nat /\ ~ W i j == 0) ->
  (forall i j, (i < n)%nat -> (j < n)%nat ->
     Qabs (normalize n W i j) <= 1 /\ normalize n W i j * maxabs n W == W i j) /\
  (exists i j, (i < n)%nat /\ (j < n)%nat /\ Qabs (normalize n W i j) == 1).
Proof. exact normalize_spec. Qed.

Theorem C17_invert_spec : forall W i j,
  (W i j == 0 -> invert W i j == 0) /\ (~ W i j == 0 -> invert W i j == 1 / W i j).
Proof. exact invert_spec. Qed.

Theorem C17_invert_involutive : forall W i j, invert (invert W) i j == W i j.
Proof. exact invert_involutive. Qed.

Theorem C17_copy_flag : forall f W,
  (let '(arg_after, res, same) := with_copy true f W in arg_after = W /\ res = f W /\ same = false) /\
  (let '(arg_after, res, same) := with_copy false f W in arg_after = f W /\ res = f W /\ same = true).
Proof. exact copy_flag. Qed.

Theorem C17_teachers_round : forall x, 0 < x -> teachers_round x = Qfloor (x + (1 # 2)).
Proof. exact teachers_round_half_up. Qed.

(* non-vacuity: a concrete matrix meets the hypotheses and the count is as stated *)
Example C17_nonvacuous :
  let W := of_rows 0 [[0; 3; 1]; [3; 0; 5]; [1; 5; 0]]%list in
  exists R, threshold_proportional 3 W (1 # 2) = Some R /\ length (where_nz 3 R) = 4%nat.
Proof. eexists. split; [reflexivity|]. vm_compute. reflexivity. Qed.

Print Assumptions C17_tp_count.
Print Assumptions C17_tp_strongest.
Print Assumptions C17_tp_values.
Print Assumptions C17_tp_diag.
Print Assumptions C17_tp_sym.
Print Assumptions C17_tp_instance.
Print Assumptions C17_tp_rejects.
Print Assumptions C17_ta_exact.
Print Assumptions C17_binarize.
Print Assumptions C17_normalize.
Print Assumptions C17_invert_spec.
Print Assumptions C17_invert_involutive.
Print Assumptions C17_copy_flag.
Print Assumptions C17_teachers_round.
