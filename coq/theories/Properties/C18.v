(* Properties/C18.v — random-walk and spectral measures satisfy their defining equations.
   Only statements; every proof is `exact <lemma of Proofs/{Walks,Linear,LinearSpectral}.v>`.
   findwalks is modelled statement by statement over Z and proved in full.  For the LAPACK-based measures the theorems
   are ALGEBRA about the formulas the code evaluates: the results of eig / inv / solve / eigh are universally
   quantified and constrained only by their defining equations (hypotheses named after the call that produces them).
   Carrier: Q (an ordered field; nothing specific to Q is used except field/order reasoning). *)
From Coq Require Import ZArith QArith Qabs List Arith Bool Lia Lqa.
From BCT Require Import Base.Mat Base.SumQ Model.Walks Model.Linear Proofs.Walks Proofs.WalksBound Proofs.Linear Proofs.LinearSpectral
  Proofs.LinearFull Proofs.LinearMarkov Proofs.LinearDim Proofs.LinearExist Proofs.LinearSelect Proofs.LinearRun.
Import ListNotations.

(* ------------------------------------------------------------------ findwalks (FULL) *)
(* Wq[:,:,0] = 0 and, for q = 1..n-1, Wq[i,j,q] = (A^q)[i,j] = number of walks with q steps from i to j *)
Theorem C18_findwalks_power : forall n A Wq, findwalks n A = Some Wq ->
  (2 <= n)%nat /\
  (forall i j, (i < n)%nat -> (j < n)%nat -> Wq O i j = 0%Z) /\
  (forall q i j, (1 <= q < n)%nat -> (i < n)%nat -> (j < n)%nat ->
     Wq q i j = mpowZ n (binz A) q i j /\
     Wq q i j = Z.of_nat (length (walks n A q i j))).
Proof. exact findwalks_power. Qed.

(* [walks n A q i j] lists every walk with q steps from i to j exactly once *)
Theorem C18_walks_enumeration : forall n A q i j, (i < n)%nat -> (j < n)%nat ->
  NoDup (walks n A q i j) /\
  (forall w, In w (walks n A q i j) <-> (walk n A i j w /\ length w = S q)).
Proof.
  intros n A q i j Hi Hj. split; [apply walks_NoDup; assumption|].
  intros w. split; [apply walks_sound; assumption|]. intros [Hw Hl]. apply (walks_complete n A i j w Hw q Hl).
Qed.

(* the code raises (IndexError at Wq[:,:,1]) exactly for n < 2 *)
Theorem C18_findwalks_rejects : forall n A, findwalks n A = None <-> (n < 2)%nat.
Proof. exact findwalks_rejects. Qed.

(* The model counts in Z; the code stores the counts in a float64 array.  A non-negative integer below 2^53 is a binary64
   number and a sum of non-negative integers whose total is below 2^53 is formed without rounding, so the run of the code
   coincides with the model as long as twalk < 2^53 (`fw_exact`, decidable on the output).  This theorem gives the sizes:
   every entry of Wq[:,:,q] lies in [0, D^q] for D = the largest in-degree, twalk <= n^2 (1 + D + ... + D^(n-1)), every
   entry and every wlq is at most twalk; hence fw_exact bounds all of the output, and the a-priori bound implies fw_exact.
   Beyond 2^53 (first for K_15: twalk, K_16: entries of length 15) the code returns ROUNDED counts: C18_findwalks_power is
   then a statement about the model only (recorded as known finding findwalks:exact53). *)
Theorem C18_findwalks_exact_range : forall n A Wq, findwalks n A = Some Wq ->
  let D := maxindeg n A in
  (forall q i j, (q < n)%nat -> (i < n)%nat -> (j < n)%nat -> (0 <= Wq q i j <= D ^ Z.of_nat q)%Z) /\
  (0 <= twalk n Wq <= fw_bound n D)%Z /\
  (fw_exact n Wq = true ->
     (forall q i j, (q < n)%nat -> (i < n)%nat -> (j < n)%nat -> (0 <= Wq q i j < two53)%Z) /\
     (forall q, (q < n)%nat -> (0 <= wlq n Wq q < two53)%Z) /\ (0 <= twalk n Wq < two53)%Z) /\
  ((fw_bound n D < two53)%Z -> fw_exact n Wq = true).
Proof. exact findwalks_exact_range. Qed.

Open Scope Q_scope.

(* ------------------------------------------------------------------ mean first passage time *)
(* P = D^-1 A is row-stochastic whenever no row sum vanishes *)
Theorem C18_transP_stochastic : forall n A i, ~ rowsumQ n A i == 0 ->
  sumQ (transP n A i) n == 1 /\ (forall j, transP n A i j * rowsumQ n A i == A i j).
Proof. intros n A i H. split; [apply transP_stochastic; exact H|intros j; apply transP_def; exact H]. Qed.

(* hypotheses: P row-stochastic; w = what eig returns after normalisation (w P = w, sum w = 1, no zero entry);
   Z = what inv returns ((I - P + 1w) Z = I).  Then M = (Z_jj - Z_ij)/w_j satisfies the first-step equations. *)
Theorem C18_mfpt_equation : forall n (P : mat Q) (w : vec Q) (Z : mat Q),
  (forall i, (i < n)%nat -> sumQ (P i) n == 1) ->
  (forall j, (j < n)%nat -> sumQ (fun i => w i * P i j) n == w j) ->
  sumQ w n == 1 ->
  (forall i j, (i < n)%nat -> (j < n)%nat -> mmulQ n (fundA P w) Z i j == delta i j) ->
  (forall j, (j < n)%nat -> ~ w j == 0) ->
  let M := mfpt w Z in
  (forall i j, (i < n)%nat -> (j < n)%nat -> i <> j ->
     M i j == 1 + sumQ (fun k => if Nat.eqb k j then 0 else P i k * M k j) n) /\
  (forall j, M j j == 0) /\
  (* the i = j instance of the right-hand side is the mean RETURN time 1/w_j; the code returns 0 there *)
  (forall j, (j < n)%nat -> 1 + sumQ (fun k => if Nat.eqb k j then 0 else P j k * M k j) n == 1 / w j).
Proof. intros n P w Z HP Hw Hw1 HZ Hnz. exact (mfpt_equation n P w Z HP Hw Hw1 HZ Hnz). Qed.

(* WHERE "CONNECTED" ENTERS.  For a non-negative row-stochastic irreducible P (no spectral theory, no Perron-Frobenius
   assumed): a stationary vector has one sign; the one with sum 1 is positive (so the division by W is safe: the
   hypothesis `w_j <> 0` above is a consequence) and unique; I - P + 1w is injective. *)
Theorem C18_stationary_positive_unique : forall n (P : mat Q),
  (forall i j, (i < n)%nat -> (j < n)%nat -> 0 <= P i j) ->
  (forall i, (i < n)%nat -> sumQ (P i) n == 1) ->
  irreducible n P ->
  (forall w, stationary n P w ->
     (forall j, (j < n)%nat -> w j == 0) \/ (forall j, (j < n)%nat -> 0 < w j) \/ (forall j, (j < n)%nat -> w j < 0)) /\
  (forall w, stationary n P w -> sumQ w n == 1 -> forall j, (j < n)%nat -> 0 < w j) /\
  (forall w w', stationary n P w -> sumQ w n == 1 -> stationary n P w' -> sumQ w' n == 1 ->
     forall j, (j < n)%nat -> w j == w' j) /\
  (forall w, stationary n P w -> sumQ w n == 1 ->
     forall x, (forall i, (i < n)%nat -> mvecQ n (fundA P w) x i == 0) -> forall i, (i < n)%nat -> x i == 0).
Proof.
  intros n P H0 H1 Hi. split; [|split; [|split]].
  - exact (stationary_sign n P H0 H1 Hi).
  - exact (stationary_positive n P H0 H1 Hi).
  - exact (stationary_unique n P H0 H1 Hi).
  - exact (fundA_injective n P H0 H1 Hi).
Qed.

(* FULL statement for mean_first_passage_time (replaces the conditional reading of C18_mfpt_equation): for EVERY
   non-negative strongly connected network on n >= 2 nodes, with P = D^-1 A:
     (a) P is row-stochastic;
     (b) the objects the code asks LAPACK for EXIST: a stationary w with sum 1 and a Z with (I - P + 1w) Z = I;
     (c) for ANY w, Z meeting those defining equations (whatever routine produced them): w > 0; M = (Z_jj - Z_ij)/w_j
         satisfies M_ij = 1 + sum_{k != j} P_ik M_kj for i != j; M_jj = 0 (the i = j instance of the right-hand side is the
         return time 1/w_j, which the code does not return); Z is also a left inverse; and M does not depend on the choice
         of w, Z: the returned matrix is determined by the network. *)
Theorem C18_mfpt_connected : forall n (A : mat Q), (2 <= n)%nat ->
  (forall i j, (i < n)%nat -> (j < n)%nat -> 0 <= A i j) ->
  irreducible n A ->
  let P := transP n A in
  let defining (w : vec Q) (Z : mat Q) :=
    stationary n P w /\ sumQ w n == 1 /\
    (forall i j, (i < n)%nat -> (j < n)%nat -> mmulQ n (fundA P w) Z i j == delta i j) in
  (forall i, (i < n)%nat -> sumQ (P i) n == 1) /\
  (exists w Z, defining w Z) /\
  (forall w Z, defining w Z ->
     let M := mfpt w Z in
     (forall j, (j < n)%nat -> 0 < w j) /\
     (forall i j, (i < n)%nat -> (j < n)%nat -> i <> j ->
        M i j == 1 + sumQ (fun k => if Nat.eqb k j then 0 else P i k * M k j) n) /\
     (forall j, M j j == 0) /\
     (forall j, (j < n)%nat -> 1 + sumQ (fun k => if Nat.eqb k j then 0 else P j k * M k j) n == 1 / w j) /\
     (forall i j, (i < n)%nat -> (j < n)%nat -> mmulQ n Z (fundA P w) i j == delta i j) /\
     (forall w' Z', defining w' Z' -> forall i j, (i < n)%nat -> (j < n)%nat -> mfpt w' Z' i j == M i j)).
Proof.
  intros n A Hn HA Hirr P defining.
  assert (Hn0 : (0 < n)%nat) by lia.
  pose proof (irreducible_rowsum_pos n A Hn HA Hirr) as Hrow.
  split; [exact (P_stochastic n A Hrow)|]. split.
  - exact (mfpt_inputs_exist n A Hn0 HA Hrow Hirr).
  - intros w Z Hd. exact (mfpt_connected n A HA Hrow Hirr w Z Hd).
Qed.

(* the selection of the eigenpair (distance.py: aux, index, tolerance test), aux = |D - 1| being an input *)
Theorem C18_mfpt_select_spec : forall (tol : Q) (aux : list Q),
  match mfpt_select tol aux with
  | SelOk i => is_min aux i /\ (forall k, is_min aux k -> k = i) /\ nth i aux 0 <= tol
  | SelTolerance => exists i, is_min aux i /\ (forall k, is_min aux k -> k = i) /\ tol < nth i aux 0
  | SelAmbiguous => exists i k, i <> k /\ is_min aux i /\ is_min aux k
  | SelEmpty => aux = []
  end.
Proof. exact mfpt_select_spec. Qed.

(* ------------------------------------------------------------------ diffusion efficiency *)
(* NOTE: a definitional unfolding of ediff / gediff (the two lines of the code); it records what the model computes and
   gives no assurance beyond the correspondence run.  1/0 is 0 in Q and inf in the code (never reached: M_ij > 0). *)
Theorem C18_diffusion_eff_def : forall n (M : mat Q),
  (forall i j, i <> j -> ~ M i j == 0 -> ediff M i j * M i j == 1) /\
  (forall i j, i <> j -> ediff M i j == 1 / M i j) /\
  (forall i, ediff M i i == 0) /\
  ((2 <= n)%nat ->
   gediff n (ediff M) * inject_Z (Z.of_nat (n * n - n)) ==
   sumQ (fun i => sumQ (fun j => if Nat.eqb i j then 0 else 1 / M i j) n) n).
Proof. exact diffusion_eff_def. Qed.

(* ------------------------------------------------------------------ pagerank *)
(* r' = what solve returns.  With no empty column: sum r' = 1, so `r /= sum(r)` changes nothing, and r is the
   fixed point of r = d A D^-1 r + (1-d) f.  (With an empty column the code divides that column by 1, the columns
   of A D^-1 no longer all sum to one and the statement is not claimed.) *)
Theorem C18_pagerank_equation : forall n (A : mat Q) (d : Q) (f r' : vec Q),
  (forall i, (i < n)%nat -> mvecQ n (pr_B n A d) r' i == pr_b d f i) ->
  sumQ f n == 1 -> ~ d == 1 ->
  (forall j, (j < n)%nat -> ~ colsumQ n A j == 0) ->
  let r := pr_norm n r' in
  sumQ r' n == 1 /\
  (forall i, r i == r' i) /\
  sumQ r n == 1 /\
  (forall i, (i < n)%nat -> r i == d * mvecQ n (pr_M n A) r i + (1 - d) * f i).
Proof. intros n A d f r' H1 H2 H3 H4. exact (pagerank_equation n A d f r' H1 H2 H3 H4). Qed.

Theorem C18_pagerank_positive : forall n (A : mat Q) (d : Q) (f r' : vec Q),
  (forall i, (i < n)%nat -> mvecQ n (pr_B n A d) r' i == pr_b d f i) ->
  sumQ f n == 1 -> ~ d == 1 ->
  (forall j, (j < n)%nat -> ~ colsumQ n A j == 0) ->
  0 <= d -> d < 1 ->
  (forall i j, (i < n)%nat -> (j < n)%nat -> 0 <= A i j) ->
  (forall i, (i < n)%nat -> 0 < f i) ->
  forall i, (i < n)%nat -> 0 < pr_norm n r' i.
Proof. intros n A d f r' H1 H2 H3 H4 H5 H6 H7 H8. exact (pagerank_positive n A d f r' H1 H2 H3 H4 H5 H6 H7 H8). Qed.

Theorem C18_uniform_prior : forall n, (0 < n)%nat -> sumQ (uniform n) n == 1.
Proof. exact uniform_sum. Qed.

(* EXISTENCE and UNIQUENESS (so "the" solution is justified, and `solve` cannot return anything else): for 0 <= d < 1
   and A >= 0 - empty columns allowed - the system (I - d A D^-1) r' = (1-d) f has exactly one solution.  l1 contraction
   over Q for uniqueness; existence from injectivity by a dimension argument (Proofs/LinearDim.v), no Neumann series. *)
Theorem C18_pagerank_exists_unique : forall n (A : mat Q) (d : Q) (f : vec Q), 0 <= d -> d < 1 ->
  (forall i j, (i < n)%nat -> (j < n)%nat -> 0 <= A i j) ->
  (exists r', forall i, (i < n)%nat -> mvecQ n (pr_B n A d) r' i == pr_b d f i) /\
  (forall x y, (forall i, (i < n)%nat -> mvecQ n (pr_B n A d) x i == pr_b d f i) ->
               (forall i, (i < n)%nat -> mvecQ n (pr_B n A d) y i == pr_b d f i) ->
               forall i, (i < n)%nat -> x i == y i).
Proof. exact pagerank_exists_unique. Qed.

(* what the code returns for EVERY non-negative A, dangling nodes (empty columns, `deg[deg == 0] = 1`) included, and for
   every non-negative prior: r' >= 0, 1-d <= sum r' <= 1, r = r'/sum r' sums to one, r >= 0 and r_i > 0 where f_i > 0,
   r = d (A D^-1 r + (mass of r on the empty columns) f) + (1-d) f; with no empty column: sum r' = 1 and the property's
   equation. *)
Theorem C18_pagerank_any : forall n (A : mat Q) (d : Q) (f r' : vec Q),
  (forall i, (i < n)%nat -> mvecQ n (pr_B n A d) r' i == pr_b d f i) ->
  sumQ f n == 1 -> 0 <= d -> d < 1 ->
  (forall i j, (i < n)%nat -> (j < n)%nat -> 0 <= A i j) ->
  (forall i, (i < n)%nat -> 0 <= f i) ->
  let r := pr_norm n r' in
  (forall i, (i < n)%nat -> 0 <= r' i) /\
  (1 - d <= sumQ r' n /\ sumQ r' n <= 1) /\
  sumQ r n == 1 /\
  (forall i, (i < n)%nat -> 0 <= r i) /\
  (forall i, (i < n)%nat -> 0 < f i -> 0 < r i) /\
  (forall i, (i < n)%nat -> r i == d * (mvecQ n (pr_M n A) r i + dangling n A r * f i) + (1 - d) * f i) /\
  ((forall j, (j < n)%nat -> ~ colsumQ n A j == 0) ->
     sumQ r' n == 1 /\ forall i, (i < n)%nat -> r i == d * mvecQ n (pr_M n A) r i + (1 - d) * f i).
Proof. intros n A d f r' H1 H2 H3 H4 H5 H6. exact (pagerank_any n A d f r' H1 H2 H3 H4 H5 H6). Qed.

(* the branch `norm_falff = falff / np.sum(falff)`: sums to one, keeps the signs *)
Theorem C18_prior_normalised : forall n (g : vec Q), ~ sumQ g n == 0 ->
  sumQ (pr_prior n (Some g)) n == 1 /\
  ((forall i, (i < n)%nat -> 0 <= g i) ->
   forall i, (i < n)%nat -> 0 <= pr_prior n (Some g) i /\ (0 < g i -> 0 < pr_prior n (Some g) i)).
Proof. intros n g H. split; [exact (prior_norm n g H)|intros Hg; exact (prior_norm_sign n g Hg H)]. Qed.

(* ------------------------------------------------------------------ the executable second oracle *)
(* The extracted model does not imitate LAPACK: it obtains r' / w / Z by exact elimination (gauss_solve, unverified) and
   re-checks them against the defining equations (flag hyp).  These two theorems say what a passed check means: the
   printed numbers are the ones the defining equations determine - what ANY routine solving those equations returns. *)
Theorem C18_run_pagerank_sound : forall (A : list (list Q)) (d : Q) (falff : option (list Q)) eqn r s dg,
  let n := length A in
  let f := pr_prior n (match falff with None => None | Some g => Some (qv g) end) in
  run_pagerank_c A d falff = Some (true, eqn, r, s, dg) ->
  0 <= d -> d < 1 -> (forall i j, (i < n)%nat -> (j < n)%nat -> 0 <= qm A i j) ->
  forall r', (forall i, (i < n)%nat -> mvecQ n (pr_B n (qm A) d) r' i == pr_b d f i) ->
  forall i, (i < n)%nat -> nth i r 0 == pr_norm n r' i.
Proof. exact run_pagerank_c_sound. Qed.

Theorem C18_run_mfpt_sound : forall (A : list (list Q)) eqn M E g,
  let n := length A in
  let P := transP n (qm A) in
  run_mfpt_c A = Some (true, eqn, M, E, g) ->
  (2 <= n)%nat -> (forall i j, (i < n)%nat -> (j < n)%nat -> 0 <= qm A i j) -> irreducible n (qm A) ->
  forall (w : vec Q) (Z : mat Q),
    stationary n P w -> sumQ w n == 1 ->
    (forall i j, (i < n)%nat -> (j < n)%nat -> mmulQ n (fundA P w) Z i j == delta i j) ->
  (forall i j, (i < n)%nat -> (j < n)%nat ->
     nth j (nth i M []) 0 == mfpt w Z i j /\ nth j (nth i E []) 0 == ediff (mfpt w Z) i j) /\
  g == gediff n (ediff (mfpt w Z)).
Proof. exact run_mfpt_c_sound. Qed.

(* ------------------------------------------------------------------ subgraph centrality *)
(* vals, vecs = what eigh returns (A v_k = lam_k v_k, V V^T = I).  For EVERY polynomial p:
   p(A)_ii = sum_k V_ik^2 p(lam_k), the code's expression with exp replaced by p. *)
Theorem C18_subgraph_poly : forall n (A V : mat Q) (lam : vec Q),
  (forall i k, (i < n)%nat -> (k < n)%nat -> sumQ (fun l => A i l * V l k) n == lam k * V i k) ->
  (forall i j, (i < n)%nat -> (j < n)%nat -> sumQ (fun k => V i k * V j k) n == delta i j) ->
  forall p i, (i < n)%nat -> pevalM n p A i i == spectral_diag n V lam p i.
Proof. exact subgraph_poly. Qed.

Theorem C18_subgraph_from_decomposition : forall n (A V : mat Q) (lam : vec Q),
  (forall i j, (i < n)%nat -> (j < n)%nat -> A i j == sumQ (fun k => V i k * lam k * V j k) n) ->
  (forall k l, (k < n)%nat -> (l < n)%nat -> sumQ (fun i => V i k * V i l) n == delta k l) ->
  forall i k, (i < n)%nat -> (k < n)%nat -> sumQ (fun l => A i l * V l k) n == lam k * V i k.
Proof. exact decomposition_gives_eigen. Qed.

(* the statement about expm over RATIONAL matrices with a rational eigen-decomposition: the diagonal of the matrix
   exponential, i.e. the limit m -> infinity of the truncated series sum_{t<=m} A^t/t!, equals sum_k V_ik^2 exp(lam_k).
   exp is not a rational function, so the statement lives over Coq's reals.  (Recorded as an open Definition until the
   extension round; now PROVED: C18_subgraph_expm_rational below; C18_subgraph_expm is the general real version.) *)
From Coq Require Reals Qreals.
Definition C18_subgraph_full_statement : Prop :=
  forall n (A V : mat Q) (lam : vec Q),
  (forall i k, (i < n)%nat -> (k < n)%nat -> sumQ (fun l => A i l * V l k) n == lam k * V i k) ->
  (forall i j, (i < n)%nat -> (j < n)%nat -> sumQ (fun k => V i k * V j k) n == delta i j) ->
  forall i, (i < n)%nat ->
  forall eps : Rdefinitions.R, Rdefinitions.Rlt (Rdefinitions.IZR 0) eps ->
  exists m0, forall m, (m0 <= m)%nat ->
    Rdefinitions.Rlt
      (Rbasic_fun.Rabs (Rdefinitions.Rminus
         (Rdefinitions.Q2R (pevalM n (expcoef m) A i i))
         (fold_right Rdefinitions.Rplus (Rdefinitions.IZR 0)
            (map (fun k => Rdefinitions.Rmult (Rdefinitions.Q2R (V i k * V i k)) (Rtrigo_def.exp (Rdefinitions.Q2R (lam k)))) (seq 0 n)))))
      eps.

From Coq Require Import Reals.
From BCT Require Import Proofs.LinearReal.

(* FULL, over the REALS (Proofs/LinearReal.v; stdlib Reals only).  A, V, lam are arbitrary real arrays on the grid
   [0,n) constrained only by eigh's equations A v_k = lam_k v_k, V V^T = I (so irrational eigenvalues / eigenvectors - the
   generic case - are covered, which the rational statements cannot do).  sumR f n = sum_{k<n} f k; mpowR n A m = A^m
   (A^0 = I, A^(m+1) = A A^m, products over the grid); expmR n A is the matrix exponential as a TOTAL function of the
   matrix alone: entry (i,j) is the sum of the series sum_m (A^m)_ij / m! (stdlib `infinite_sum`).  Then
     (1) expmR n A is entrywise the sum of that series, (2) nothing else is (uniqueness of the limit),
     (3) expm(A) = V exp(Lambda) V^T, and (4) diag(expm(A))_i = sum_k V_ik^2 exp(lam_k)
   = `np.dot(vecs * vecs, np.exp(vals))`, the expression subgraph_centrality returns. *)
Theorem C18_subgraph_expm : forall n (A V : nat -> nat -> R) (lam : nat -> R),
  (forall i k, (i < n)%nat -> (k < n)%nat -> sumR (fun l => A i l * V l k)%R n = (lam k * V i k)%R) ->
  (forall i j, (i < n)%nat -> (j < n)%nat -> sumR (fun k => V i k * V j k)%R n = deltaR i j) ->
  (forall i j, (i < n)%nat -> (j < n)%nat ->
     infinite_sum (fun m => / INR (fact m) * mpowR n A m i j)%R (expmR n A i j)) /\
  (forall E : nat -> nat -> R,
     (forall i j, (i < n)%nat -> (j < n)%nat -> infinite_sum (fun m => / INR (fact m) * mpowR n A m i j)%R (E i j)) ->
     forall i j, (i < n)%nat -> (j < n)%nat -> E i j = expmR n A i j) /\
  (forall i j, (i < n)%nat -> (j < n)%nat -> expmR n A i j = sumR (fun k => V i k * exp (lam k) * V j k)%R n) /\
  (forall i, (i < n)%nat -> expmR n A i i = sumR (fun k => V i k * V i k * exp (lam k))%R n).
Proof. exact subgraph_expmR. Qed.

(* the series defining expmR converges for EVERY real matrix (no decomposition assumed): |(A^m)_ij| <= c^m with
   c = sum of |entries|, domination by the scalar exponential series of c *)
Theorem C18_expm_defined : forall n (A : nat -> nat -> R) i j, (i < n)%nat -> (j < n)%nat ->
  infinite_sum (fun m => / INR (fact m) * mpowR n A m i j)%R (expmR n A i j).
Proof. exact expmR_is_expm. Qed.

(* the formerly open statement, verbatim; and the value of its limit is the diagonal of expmR of the real image of A *)
Theorem C18_subgraph_expm_rational :
  C18_subgraph_full_statement /\
  (forall n (A V : mat Q) (lam : vec Q),
   (forall i k, (i < n)%nat -> (k < n)%nat -> sumQ (fun l => A i l * V l k) n == lam k * V i k) ->
   (forall i j, (i < n)%nat -> (j < n)%nat -> sumQ (fun k => V i k * V j k) n == delta i j) ->
   forall i, (i < n)%nat ->
   expmR n (fun a b => Q2R (A a b)) i i = sumR (fun k => Q2R (V i k * V i k) * exp (Q2R (lam k)))%R n).
Proof. split; [exact subgraph_expm_rational|exact subgraph_expm_rational_value]. Qed.

(* truncations (a lemma now, no longer the end of the story): for every order m the truncated series of the matrix
   equals the code's formula with the truncated series of exp; and the rational Horner truncation of Model/Linear.v
   (pevalM with Qred and tab) is, entry for entry, the m-th partial sum of the real series whose sum is expmR *)
Theorem C18_subgraph_truncated_exp :
  (forall n (A V : mat Q) (lam : vec Q),
   (forall i k, (i < n)%nat -> (k < n)%nat -> sumQ (fun l => A i l * V l k) n == lam k * V i k) ->
   (forall i j, (i < n)%nat -> (j < n)%nat -> sumQ (fun k => V i k * V j k) n == delta i j) ->
   forall m i, (i < n)%nat ->
   pevalM n (expcoef m) A i i == sumQ (fun k => V i k * V i k * peval (expcoef m) (lam k)) n) /\
  (forall n (A : mat Q) m i j, (i < n)%nat -> (j < n)%nat ->
   Q2R (pevalM n (expcoef m) A i j)
   = sum_f_R0 (fun t => / INR (fact t) * mpowR n (fun a b => Q2R (A a b)) t i j)%R m).
Proof.
  split.
  - intros n A V lam H1 H2 m i Hi. exact (subgraph_poly n A V lam H1 H2 (expcoef m) i Hi).
  - exact pevalM_expcoef_partial.
Qed.

(* ------------------------------------------------------------------ eigenvector centrality *)
(*   centrality.py eigenvector_centrality_und : vals, vecs = eigh / eigs(CIJ); return abs(vecs[:, argmax(vals)])
   FULL (upgraded from C18_eigvec_abs_ok_partial; Proofs/LinearSpectralFull.v).  The hypotheses are EXACTLY the
   specification of what the LAPACK call is asked for, plus the documented domain of the routine:
     - A is symmetric (`_und`) and entrywise non-negative,
     - (lam, u) is an eigenpair: A u = lam u,
     - lam is the largest eigenvalue of the symmetric matrix = the top of its Rayleigh quotient: forall x, x^T A x <= lam x^T x
       (what `argmax(vals)` selects; over the reals the two formulations are equivalent by the spectral theorem; over an
        ordered field that is not real closed only the Rayleigh form says it - see C18_eigvec_old_statement_refuted).
   NOTHING else is assumed: the former second hypothesis 'only eigenvectors attain the Rayleigh bound' is now PROVED
   (first conjunct: for symmetric A ANY vector attaining the bound is an eigenvector - first-order condition, proved
   algebraically: 0 <= lam|x+ty|^2 - (x+ty)^T A (x+ty) = 2t y^T(lam x - A x) + t^2 (lam|y|^2 - y^T A y) for every rational t
   forces y^T(lam x - A x) = 0 for every y).  Conclusion: v = |u| is non-negative, has the norm of u (LAPACK: 1) and
   A v = lam v - the returned vector is a non-negative eigenvector for the largest eigenvalue, whatever sign pattern u has.
   Not modelled: that LAPACK's output meets its specification (checked numerically per run: residual, eigvalsh).
   On a CONNECTED network the returned vector is moreover strictly positive and THE non-negative eigenvector of that norm
   (no other eigenvalue has one): C04_eigenvector_abs_full in Properties/C04.v (it needs the Perron uniqueness lemma that
   lives with C04; kept there so that this file does not depend on the distance models). *)
From BCT Require Import Proofs.LinearSpectralFull Proofs.LinearSpectralReal.
Theorem C18_eigvec_abs_ok :
  (forall n (A : mat Q) (lam : Q),
   (forall i j, (i < n)%nat -> (j < n)%nat -> A i j == A j i) ->
   (forall x : vec Q, qform n A x <= lam * normsq n x) ->
   forall x : vec Q, qform n A x == lam * normsq n x -> forall i, (i < n)%nat -> mvecQ n A x i == lam * x i) /\
  (forall n (A : mat Q) (u : vec Q) (lam : Q),
   (forall i j, (i < n)%nat -> (j < n)%nat -> 0 <= A i j) ->
   (forall i j, (i < n)%nat -> (j < n)%nat -> A i j == A j i) ->
   (forall i, (i < n)%nat -> mvecQ n A u i == lam * u i) ->
   (forall x : vec Q, qform n A x <= lam * normsq n x) ->
   (forall i, 0 <= vabs u i) /\
   normsq n (vabs u) == normsq n u /\
   (forall i, (i < n)%nat -> mvecQ n A (vabs u) i == lam * vabs u i)).
Proof. split; [exact rayleigh_max_is_eigvec|exact eigvec_abs_ok]. Qed.

(* The statement recorded before this extension (lam only required to dominate the eigenvalues that HAVE a non-zero
   rational eigenvector) is kept verbatim - and is FALSE over Q: the path 0-1-2 has the eigenvalues sqrt 2, 0, -sqrt 2,
   its only rational eigenpairs belong to 0, u = (1,0,-1) meets all three hypotheses with lam = 0 and A|u| = (0,2,0).
   (No rational squares to 2: infinite descent.)  The Rayleigh bound implies that hypothesis (second conjunct), not
   conversely: it is the right way to say 'largest eigenvalue' over Q. *)
Definition C18_eigvec_full_statement : Prop :=
  forall n (A : mat Q) (u : vec Q) (lam : Q),
  (forall i j, (i < n)%nat -> (j < n)%nat -> 0 <= A i j /\ A i j == A j i) ->
  (forall i, (i < n)%nat -> mvecQ n A u i == lam * u i) ->
  (forall (x : vec Q) (mu : Q), (forall i, (i < n)%nat -> mvecQ n A x i == mu * x i) ->
                                (exists i, (i < n)%nat /\ ~ x i == 0) -> mu <= lam) ->        (* lam is the largest RATIONAL eigenvalue *)
  forall i, (i < n)%nat -> mvecQ n A (vabs u) i == lam * vabs u i.
Theorem C18_eigvec_old_statement_refuted :
  ~ C18_eigvec_full_statement /\
  (forall n (A : mat Q) lam, (forall x : vec Q, qform n A x <= lam * normsq n x) ->
   forall (x : vec Q) (mu : Q), (forall i, (i < n)%nat -> mvecQ n A x i == mu * x i) ->
   (exists i, (i < n)%nat /\ ~ x i == 0) -> mu <= lam).
Proof. split; [exact eigvec_old_full_statement_refuted|exact rayleigh_dominates]. Qed.

(* the same theorem over Coq's REALS (Proofs/LinearSpectralReal.v): real symmetric non-negative A, real eigenpair - the
   generic case (lam_max and u irrational), which the rational theorem cannot express.  mvecR / qformR / normsqR / vabsR are
   the real twins of mvecQ / qform / normsq / vabs (finite sums sumR over the grid). *)
Theorem C18_eigvec_abs_ok_real : forall n (A : nat -> nat -> R) (u : nat -> R) (lam : R),
  (forall i j, (i < n)%nat -> (j < n)%nat -> (0 <= A i j)%R) ->
  (forall i j, (i < n)%nat -> (j < n)%nat -> A i j = A j i) ->
  (forall i, (i < n)%nat -> mvecR n A u i = (lam * u i)%R) ->
  (forall x : nat -> R, (qformR n A x <= lam * normsqR n x)%R) ->
  (forall i, (0 <= vabsR u i)%R) /\
  normsqR n (vabsR u) = normsqR n u /\
  (forall i, (i < n)%nat -> mvecR n A (vabsR u) i = (lam * vabsR u i)%R).
Proof. exact eigvec_abs_okR. Qed.

(* ------------------------------------------------------------------ non-vacuity *)
Example C18_nonvacuous_findwalks :
  run_findwalks [[0; 1; 0]; [1; 0; 1]; [0; 1; 0]]%Z
  = Some ([[[0; 0; 0]; [0; 0; 0]; [0; 0; 0]]; [[0; 1; 0]; [1; 0; 1]; [0; 1; 0]]; [[1; 0; 1]; [0; 2; 0]; [1; 0; 1]]], 10, [0; 4; 6])%Z.
Proof. vm_compute. reflexivity. Qed.

(* two-state chain: hypotheses hold (first component) and the equation holds (second component) *)
Example C18_nonvacuous_mfpt :
  let '(hyp, eqn, _, _, _) := run_mfpt [[0; 1]; [1; 0]] [1 # 2; 1 # 2] [[3 # 4; 1 # 4]; [1 # 4; 3 # 4]] in
  hyp = true /\ eqn = true.
Proof. vm_compute. split; reflexivity. Qed.

(* no empty column, a non-uniform prior (falff = [1; 3]): sum r' = 1, no dangling mass *)
Example C18_nonvacuous_pagerank :
  run_pagerank_c [[0; 1]; [1; 0]] (1 # 2) (Some [1; 3]) = Some (true, true, [5 # 12; 7 # 12], 1, 0).
Proof. vm_compute. reflexivity. Qed.

(* the 4-cycle with the rational orthogonal eigenbasis H/2 (eigenvalues 2, 0, 0, -2: a repeated eigenvalue) *)
Example C18_nonvacuous_subgraph :
  let '(hyp, a, b) := run_subgraph [[0; 1; 0; 1]; [1; 0; 1; 0]; [0; 1; 0; 1]; [1; 0; 1; 0]]
       [[1 # 2; 1 # 2; 1 # 2; 1 # 2]; [1 # 2; 1 # 2; -1 # 2; -1 # 2]; [1 # 2; -1 # 2; -1 # 2; 1 # 2]; [1 # 2; -1 # 2; 1 # 2; -1 # 2]]
       [2; 0; 0; -2] 6 in
  hyp = true /\ a = b /\ a = [107 # 45; 107 # 45; 107 # 45; 107 # 45].
Proof. vm_compute. repeat split; reflexivity. Qed.

(* the four hypotheses of C18_eigvec_abs_ok are satisfiable: K_2, lam = 1, u = (-1,-1) (so |u| <> u) ... *)
Example C18_nonvacuous_eigvec :
  (forall i j, (i < 2)%nat -> (j < 2)%nat -> 0 <= K2Q i j) /\
  (forall i j, (i < 2)%nat -> (j < 2)%nat -> K2Q i j == K2Q j i) /\
  (forall i, (i < 2)%nat -> mvecQ 2 K2Q (fun _ => -(1)) i == 1 * (fun _ => -(1)) i) /\
  (forall x : vec Q, qform 2 K2Q x <= 1 * normsq 2 x).
Proof. exact eigvec_abs_ok_nonvacuous. Qed.
(* ... and those of the real version with an IRRATIONAL eigenpair: the path 0-1-2, lam = sqrt 2, u = (-1, -sqrt 2, -1);
   |u| = (1, sqrt 2, 1) is the Perron vector *)
Example C18_nonvacuous_eigvec_real :
  (forall i j, (i < 3)%nat -> (j < 3)%nat -> (0 <= P3R i j)%R) /\
  (forall i j, (i < 3)%nat -> (j < 3)%nat -> P3R i j = P3R j i) /\
  (forall i, (i < 3)%nat -> mvecR 3 P3R P3uR i = (sqrt 2 * P3uR i)%R) /\
  (forall x : nat -> R, (qformR 3 P3R x <= sqrt 2 * normsqR 3 x)%R) /\
  (forall i, (i < 3)%nat -> mvecR 3 P3R (vabsR P3uR) i = (sqrt 2 * vabsR P3uR i)%R).
Proof. exact eigvec_abs_okR_nonvacuous. Qed.

(* K_4: D = 3, the a-priori bound 16 * (1+3+9+27) = 640 is below 2^53, so both indicators are true *)
Example C18_nonvacuous_exact_range :
  match run_findwalks_x [[0; 1; 1; 1]; [1; 0; 1; 1]; [1; 1; 0; 1]; [1; 1; 1; 0]]%Z with
  | Some (_, tw, _, flags) => tw = 156%Z /\ flags = (true, true)
  | None => False
  end.
Proof. vm_compute. split; reflexivity. Qed.

(* the directed 3-cycle with a chord is strongly connected: hypotheses of C18_mfpt_connected hold; and the computing
   model finds w, Z itself, its checks pass *)
Example C18_nonvacuous_mfpt_connected :
  let A : mat Q := qm [[0; 1; 0]; [0; 0; 1]; [1; 1; 0]] in
  (forall i j, (i < 3)%nat -> (j < 3)%nat -> 0 <= A i j) /\ irreducible 3 A /\
  match run_mfpt_c [[0; 1; 0]; [0; 0; 1]; [1; 1; 0]] with Some (hyp, eqn, _, _, _) => hyp = true /\ eqn = true | None => False end.
Proof.
  cbv zeta. split; [|split].
  - intros i j Hi Hj. destruct i as [|[|[|i]]]; [| | |lia]; (destruct j as [|[|[|j]]]; [| | |lia]); vm_compute; discriminate.
  - assert (R01 : forall i, reach 3 (qm [[0; 1; 0]; [0; 0; 1]; [1; 1; 0]]) i 0 -> reach 3 (qm [[0; 1; 0]; [0; 0; 1]; [1; 1; 0]]) i 1)
      by (intros i R; apply (reach_step _ _ i 0%nat 1%nat R); [lia|reflexivity]).
    assert (R12 : forall i, reach 3 (qm [[0; 1; 0]; [0; 0; 1]; [1; 1; 0]]) i 1 -> reach 3 (qm [[0; 1; 0]; [0; 0; 1]; [1; 1; 0]]) i 2)
      by (intros i R; apply (reach_step _ _ i 1%nat 2%nat R); [lia|reflexivity]).
    assert (R20 : forall i, reach 3 (qm [[0; 1; 0]; [0; 0; 1]; [1; 1; 0]]) i 2 -> reach 3 (qm [[0; 1; 0]; [0; 0; 1]; [1; 1; 0]]) i 0)
      by (intros i R; apply (reach_step _ _ i 2%nat 0%nat R); [lia|reflexivity]).
    intros i j Hi Hj. destruct i as [|[|[|i]]]; [| | |lia]; (destruct j as [|[|[|j]]]; [| | |lia]);
      auto using reach_refl.
  - vm_compute. split; reflexivity.
Qed.

(* a dangling node (column 1 empty): the solver's result passes the check, the redistributed equation holds, sum r' < 1,
   a positive mass sits on the empty column *)
Example C18_nonvacuous_pagerank_dangling :
  match run_pagerank_c [[0; 0; 1]; [1; 0; 0]; [1; 0; 0]] (1 # 2) None with
  | Some (hyp, eqn, r, s, dg) => hyp = true /\ eqn = true /\ r = [3 # 8; 5 # 16; 5 # 16] /\ s = 16 # 21 /\ dg = 5 # 16
  | None => False
  end.
Proof. vm_compute. repeat split; reflexivity. Qed.

(* selection: a single minimum within tolerance; two bit-equal minima; minimum beyond tolerance *)
Example C18_nonvacuous_select :
  mfpt_select (1 # 100) [2; 0; 3 # 2] = SelOk 1 /\ mfpt_select (1 # 100) [0; 2; 0] = SelAmbiguous /\
  mfpt_select (1 # 100) [2; 1 # 2] = SelTolerance.
Proof. vm_compute. repeat split; reflexivity. Qed.

(* K_2 with its IRRATIONAL orthonormal eigenbasis (1,1)/sqrt 2, (1,-1)/sqrt 2, eigenvalues 1, -1: the hypotheses of
   C18_subgraph_expm hold and the subgraph centrality of both nodes is (e + 1/e)/2 = cosh 1 *)
Example C18_subgraph_expm_nonvacuous :
  (forall i k, (i < 2)%nat -> (k < 2)%nat -> sumR (fun l => K2 i l * K2V l k)%R 2 = (K2lam k * K2V i k)%R) /\
  (forall i j, (i < 2)%nat -> (j < 2)%nat -> sumR (fun k => K2V i k * K2V j k)%R 2 = deltaR i j) /\
  (forall i, (i < 2)%nat -> expmR 2 K2 i i = ((exp 1 + exp (-1)) / 2)%R).
Proof. exact subgraph_expm_nonvacuous. Qed.

Print Assumptions C18_findwalks_power.
Print Assumptions C18_findwalks_exact_range.
Print Assumptions C18_stationary_positive_unique.
Print Assumptions C18_mfpt_connected.
Print Assumptions C18_mfpt_select_spec.
Print Assumptions C18_pagerank_exists_unique.
Print Assumptions C18_pagerank_any.
Print Assumptions C18_prior_normalised.
Print Assumptions C18_run_pagerank_sound.
Print Assumptions C18_run_mfpt_sound.
Print Assumptions C18_walks_enumeration.
Print Assumptions C18_findwalks_rejects.
Print Assumptions C18_transP_stochastic.
Print Assumptions C18_mfpt_equation.
Print Assumptions C18_diffusion_eff_def.
Print Assumptions C18_pagerank_equation.
Print Assumptions C18_pagerank_positive.
Print Assumptions C18_uniform_prior.
Print Assumptions C18_subgraph_poly.
Print Assumptions C18_subgraph_from_decomposition.
Print Assumptions C18_subgraph_truncated_exp.
Print Assumptions C18_subgraph_expm.
Print Assumptions C18_expm_defined.
Print Assumptions C18_subgraph_expm_rational.
Print Assumptions C18_eigvec_abs_ok.
Print Assumptions C18_eigvec_old_statement_refuted.
Print Assumptions C18_eigvec_abs_ok_real.
