(* Properties/C07.v — deterministic-gain optimisers never return a partition worse than their start.
   Only statements; every proof is `exact <lemma of Proofs/ModularityGain.v>`.
   [state] = (labels, node-to-module sums knm, module sums km) per channel (und/B: one channel; dir: out,in; sign: pos,neg);
   [gain_*] / [move_*] are the source's gain formula and bookkeeping updates (Model/Modularity.v);
   [Bk_inv_*] = "knm, km equal the sums recomputed from the labels" (+ labels < n);
   [legal n st u mb] = u < n, mb < n, mb is not u's module;
   [good_run] = every move of the sequence is legal and its EXACT gain is positive — floats only decide which move. *)
From Coq Require Import QArith List Arith ZArith Lia.
From BCT Require Import Base.Mat Base.SumQ Base.ListX Model.Modularity Proofs.ModularitySums Proofs.ModularityQ Proofs.ModularityGain
  Proofs.ModularityRun Proofs.ModularityRunSign Proofs.ModularityRunB Model.ModularityGood Proofs.ModularityGood
  Model.ModularitySelect Proofs.ModularitySelect Proofs.ModularityAuto Proofs.ModularityBound Proofs.ModularityRunFull.
Import ListNotations.
Open Scope Q_scope.

(* ---- the invariant holds initially ---- *)
(* Louvain levels: m = arange(n)+1, knm = W.copy(), km = k.copy() *)
Theorem C07_init_bk_inv_louvain : forall n W k,
  Bk_inv_und n W k (mkst (tabv O n ident) (mkchan (tabQ n n W) k) chan0).
Proof. exact init_bk_inv_louvain_und. Qed.
Theorem C07_init_bk_inv_louvain_sign : forall n W0 W1 kn0 kn1,
  Bk_inv_sign n W0 W1 kn0 kn1 (mkst (tabv O n ident) (mkchan (tabQ n n W0) kn0) (mkchan (tabQ n n W1) kn1)).
Proof. exact init_bk_inv_louvain_sign. Qed.
(* finetune-style, from any partition: knm[:,m] = sum(W[:, ci==m+1], axis=1), k = sum(knm, axis=1), km = sum(knm, axis=0) *)
Theorem C07_init_bk_inv_finetune : forall n W lab0, lab_lt n n lab0 -> sym_on n W ->
  Bk_inv_und n W (snd (finetune_und_init n W lab0)) (fst (finetune_und_init n W lab0)) /\
  (forall i, (i < n)%nat -> snd (finetune_und_init n W lab0) i == sumQ (fun j => W i j) n).
Proof. exact init_bk_inv_finetune_und. Qed.
(* modularity_finetune_dir after the repair d18f46d (km_o from knm_i, km_i from knm_o): for ALL W *)
Theorem C07_init_bk_inv_finetune_dir : forall n W lab0, lab_lt n n lab0 ->
  let r := finetune_dir_init n W lab0 in
  Bk_inv_dir n W (fst (snd r)) (snd (snd r)) (fst r) /\
  (forall i, (i < n)%nat -> fst (snd r) i == sumQ (fun j => W i j) n) /\
  (forall i, (i < n)%nat -> snd (snd r) i == sumQ (fun j => W j i) n).
Proof. exact init_bk_inv_finetune_dir. Qed.
Theorem C07_init_bk_inv_finetune_sign : forall n W0 W1 s0 s1 d0 d1 lab0, lab_lt n n lab0 -> sym_on n W0 -> sym_on n W1 ->
  let p := mksp W0 W1 s0 s1 d0 d1 in
  let r := sign_init n p lab0 in
  Bk_inv_sign n W0 W1 (fst (snd r)) (snd (snd r)) (fst r) /\
  (forall i, (i < n)%nat -> fst (snd r) i == sumQ (fun j => W0 i j) n) /\
  (forall i, (i < n)%nat -> snd (snd r) i == sumQ (fun j => W1 i j) n).
Proof. exact init_bk_inv_finetune_sign. Qed.

(* ---- every move (also a random one with mb = ma, as in probtune) preserves it ---- *)
Theorem C07_move_preserves_bk_inv : forall n W k st u mb, (u < n)%nat -> (mb < n)%nat ->
  Bk_inv_und n W k st -> Bk_inv_und n W k (move_und n W k st u mb).
Proof. exact move_preserves_bk_inv_und. Qed.
Theorem C07_move_preserves_bk_inv_dir : forall n W ko ki st u mb, (u < n)%nat -> (mb < n)%nat ->
  Bk_inv_dir n W ko ki st -> Bk_inv_dir n W ko ki (move_dir false n W ko ki st u mb).
Proof. exact move_preserves_bk_inv_dir. Qed.
Theorem C07_move_preserves_bk_inv_sign : forall n W0 W1 kn0 kn1 st u mb, (u < n)%nat -> (mb < n)%nat ->
  Bk_inv_sign n W0 W1 kn0 kn1 st -> Bk_inv_sign n W0 W1 kn0 kn1 (move_sign n W0 W1 kn0 kn1 st u mb).
Proof. exact move_preserves_bk_inv_sign. Qed.
Theorem C07_move_preserves_bk_inv_B : forall n B H st u mb, (u < n)%nat -> (mb < n)%nat ->
  Bk_inv_B n B H st -> Bk_inv_B n B H (move_B n B H st u mb).
Proof. exact move_preserves_bk_inv_B. Qed.

(* ---- under the invariant the source's gain is a positive multiple of the true change of Q ---- *)
Theorem C07_gain_exact_und : forall n W g k st u mb,
  let s := stot n W in ~ s == 0 -> sym_on n W ->
  (forall i, (i < n)%nat -> k i == sumQ (fun j => W i j) n) ->
  Bk_inv_und n W k st -> legal n st u mb ->
  gain_und W g s k st u mb == (s / 2) * (Qund n W g (vupd (lab st) u mb) - Qund n W g (lab st)).
Proof. exact gain_exact_und. Qed.
Theorem C07_gain_exact_dir : forall n W g ko ki st u mb,
  let s := stot n W in ~ s == 0 ->
  (forall i, (i < n)%nat -> ko i == sumQ (fun j => W i j) n) ->
  (forall i, (i < n)%nat -> ki i == sumQ (fun j => W j i) n) ->
  Bk_inv_dir n W ko ki st -> legal n st u mb ->
  gain_dir W g s ko ki st u mb == (s / 2) * (Qdir n W g (vupd (lab st) u mb) - Qdir n W g (lab st)).
Proof. exact gain_exact_dir. Qed.
(* every qtype: Qsign n W g qt = Qsign_gen with the code's W0, W1, s0, s1, d0, d1 (Qsign_is_gen, by reflexivity) *)
Theorem C07_gain_exact_sign : forall n W0 W1 g s0 s1 d0 d1 kn0 kn1 st u mb, sym_on n W0 -> sym_on n W1 ->
  (forall i, (i < n)%nat -> kn0 i == sumQ (fun j => W0 i j) n) ->
  (forall i, (i < n)%nat -> kn1 i == sumQ (fun j => W1 i j) n) ->
  Bk_inv_sign n W0 W1 kn0 kn1 st -> legal n st u mb ->
  gain_sign W0 W1 g s0 s1 d0 d1 kn0 kn1 st u mb ==
  (1 / 2) * (Qsign_gen n W0 W1 g s0 s1 d0 d1 (vupd (lab st) u mb) - Qsign_gen n W0 W1 g s0 s1 d0 d1 (lab st)).
Proof. exact gain_exact_sign. Qed.
Theorem C07_Qsign_is_gen : forall n W g qt lb,
  Qsign n W g qt lb =
  Qsign_gen n (pospart W) (negpart W) g (adj (stot n (pospart W))) (adj (stot n (negpart W)))
    (sign_d0 qt (stot n (pospart W)) (stot n (negpart W))) (sign_d1 qt (stot n (pospart W)) (stot n (negpart W))) lb.
Proof. exact Qsign_is_gen. Qed.
Theorem C07_gain_exact_louvainB : forall n B H st u mb, sym_on n B ->
  Bk_inv_B n B H st -> legal n st u mb ->
  gain_B B st u mb == (1 / 2) * (obj n B (vupd (lab st) u mb) - obj n B (lab st)).
Proof. exact gain_exact_louvainB. Qed.

(* ---- any sequence of moves whose exact gain is positive never lowers Q (and raises it if non-empty) ---- *)
Theorem C07_moves_monotone_und : forall n W g k ms st,
  let s := stot n W in 0 < s -> sym_on n W ->
  (forall i, (i < n)%nat -> k i == sumQ (fun j => W i j) n) ->
  Bk_inv_und n W k st -> good_run n (gain_und W g s k) (move_und n W k) st ms ->
  let fin := run_moves (move_und n W k) st ms in
  Bk_inv_und n W k fin /\ Qund n W g (lab st) <= Qund n W g (lab fin) /\
  (ms <> [] -> Qund n W g (lab st) < Qund n W g (lab fin)).
Proof. exact moves_monotone_und. Qed.
Theorem C07_moves_monotone_dir : forall n W g ko ki ms st,
  let s := stot n W in 0 < s ->
  (forall i, (i < n)%nat -> ko i == sumQ (fun j => W i j) n) ->
  (forall i, (i < n)%nat -> ki i == sumQ (fun j => W j i) n) ->
  Bk_inv_dir n W ko ki st -> good_run n (gain_dir W g s ko ki) (move_dir false n W ko ki) st ms ->
  let fin := run_moves (move_dir false n W ko ki) st ms in
  Bk_inv_dir n W ko ki fin /\ Qdir n W g (lab st) <= Qdir n W g (lab fin) /\
  (ms <> [] -> Qdir n W g (lab st) < Qdir n W g (lab fin)).
Proof. exact moves_monotone_dir. Qed.
Theorem C07_moves_monotone_sign : forall n W0 W1 g s0 s1 d0 d1 kn0 kn1 ms st, sym_on n W0 -> sym_on n W1 ->
  (forall i, (i < n)%nat -> kn0 i == sumQ (fun j => W0 i j) n) ->
  (forall i, (i < n)%nat -> kn1 i == sumQ (fun j => W1 i j) n) ->
  Bk_inv_sign n W0 W1 kn0 kn1 st ->
  good_run n (gain_sign W0 W1 g s0 s1 d0 d1 kn0 kn1) (move_sign n W0 W1 kn0 kn1) st ms ->
  let fin := run_moves (move_sign n W0 W1 kn0 kn1) st ms in
  let Qs := Qsign_gen n W0 W1 g s0 s1 d0 d1 in
  Bk_inv_sign n W0 W1 kn0 kn1 fin /\ Qs (lab st) <= Qs (lab fin) /\ (ms <> [] -> Qs (lab st) < Qs (lab fin)).
Proof. exact moves_monotone_sign. Qed.
Theorem C07_moves_monotone_louvainB : forall n B H ms st, sym_on n B ->
  Bk_inv_B n B H st -> good_run n (gain_B B) (move_B n B H) st ms ->
  let fin := run_moves (move_B n B H) st ms in
  Bk_inv_B n B H fin /\ obj n B (lab st) <= obj n B (lab fin) /\ (ms <> [] -> obj n B (lab st) < obj n B (lab fin)).
Proof. exact moves_monotone_louvainB. Qed.

(* ---- whole finetune runs from their real initial state ---- *)
Theorem C07_finetune_und_never_worse : forall n W g lab0 ms,
  let s := stot n W in 0 < s -> sym_on n W -> lab_lt n n lab0 ->
  let st0 := fst (finetune_und_init n W lab0) in
  let k := snd (finetune_und_init n W lab0) in
  good_run n (gain_und W g s k) (move_und n W k) st0 ms ->
  Qund n W g lab0 <= Qund n W g (lab (run_moves (move_und n W k) st0 ms)).
Proof. exact finetune_und_never_worse. Qed.
Theorem C07_finetune_dir_never_worse : forall n W g lab0 ms,
  let s := stot n W in 0 < s -> lab_lt n n lab0 ->
  let r := finetune_dir_init n W lab0 in
  good_run n (gain_dir W g s (fst (snd r)) (snd (snd r))) (move_dir false n W (fst (snd r)) (snd (snd r))) (fst r) ms ->
  Qdir n W g lab0 <= Qdir n W g (lab (run_moves (move_dir false n W (fst (snd r)) (snd (snd r))) (fst r) ms)).
Proof. exact finetune_dir_never_worse. Qed.
Theorem C07_finetune_sign_never_worse : forall n W0 W1 g s0 s1 d0 d1 lab0 ms, sym_on n W0 -> sym_on n W1 -> lab_lt n n lab0 ->
  let p := mksp W0 W1 s0 s1 d0 d1 in
  let r := sign_init n p lab0 in
  good_run n (gain_sign W0 W1 g s0 s1 d0 d1 (fst (snd r)) (snd (snd r))) (move_sign n W0 W1 (fst (snd r)) (snd (snd r))) (fst r) ms ->
  Qsign_gen n W0 W1 g s0 s1 d0 d1 lab0 <=
  Qsign_gen n W0 W1 g s0 s1 d0 d1 (lab (run_moves (move_sign n W0 W1 (fst (snd r)) (snd (snd r))) (fst r) ms)).
Proof. exact finetune_sign_never_worse. Qed.

(* ---- one Louvain level read on the original network (uses C02's aggregate_preserves_Q) ---- *)
Theorem C07_level_monotone : forall n K W W1 g lb1 k ms,
  lab_lt n K lb1 -> sym_on n W -> 0 < stot n W ->
  (forall a b, (a < K)%nat -> (b < K)%nat -> W1 a b == agg n W lb1 a b) ->
  (forall i, (i < K)%nat -> k i == sumQ (fun j => W1 i j) K) ->
  let st0 := mkst (tabv O K ident) (mkchan (tabQ K K W1) k) chan0 in
  good_run K (gain_und W1 g (stot K W1) k) (move_und K W1 k) st0 ms ->
  let fin := run_moves (move_und K W1 k) st0 ms in
  Qund n W g lb1 <= Qund n W g (fun i => lab fin (lb1 i)) /\
  (ms <> [] -> Qund n W g lb1 < Qund n W g (fun i => lab fin (lb1 i))).
Proof. exact level_monotone. Qed.
(* the matrix / degree vector modularity_louvain_und builds for the next level meet those hypotheses *)
Theorem C07_louvain_und_level_hyps : forall n K W lb1, lab_lt n K lb1 -> sym_on n W ->
  let W1 := tabQ K K (agg_upper n W lb1) in
  let k := tabvQ K (colsum K W1) in
  (forall a b, (a < K)%nat -> (b < K)%nat -> W1 a b == agg n W lb1 a b) /\
  (forall i, (i < K)%nat -> k i == sumQ (fun j => W1 i j) K).
Proof. exact louvain_und_level_hyps. Qed.

(* ==== WHOLE MULTI-LEVEL RUNS (composition of the per-level theorems by induction over the level list) ====
   [louvain_und_good / louvain_sign_good / cl_good] = every accepted move of every level is legal and has EXACT gain > 0 on
   the matrix the code aggregated for that level (the oracle condition; floats only choose which move / how many levels);
   [chain_mono q0 levels] = the true qualities qd (definitional, ON THE ORIGINAL NETWORK, of each level's labels of the
   original nodes) satisfy q0 <= qd_1 <= qd_2 <= ..., strictly wherever the level made at least one move;
   [ret_qstart r] / [ret_qdef r] = definitional quality of the start partition / of the returned labels. *)
Theorem C07_louvain_und_run_monotone : forall rows g lv, sym_rows rows -> 0 < stot (length rows) (rowsW rows) ->
  louvain_und_good g (stot (length rows) (rowsW rows)) (length rows) (rowsW rows) lv ->
  let r := run_louvain_und rows g lv in
  chain_mono (ret_qstart r) (fst r) /\ ret_qstart r <= ret_qdef r.
Proof. exact louvain_und_run_monotone. Qed.
Theorem C07_louvain_und_sign_run_monotone : forall rows g qt lv, sym_rows rows -> lv <> [] ->
  (let n := length rows in let p := sign_params n (rowsW rows) (qtype_of qt) in
   louvain_sign_good g (ss0 p) (ss1 p) (sd0 p) (sd1 p) n (sW0 p) (sW1 p) lv) ->
  let r := run_louvain_sign rows g qt lv in
  chain_mono (ret_qstart r) (fst r) /\ ret_qstart r <= ret_qdef r.
Proof. exact louvain_sign_run_monotone. Qed.
(* community_louvain from ANY initial partition ci, W directed or not, all four objectives (modularity / potts are
   normalised by s: positive total weight) *)
Theorem C07_community_louvain_run_monotone : forall rows g kind ci lv, lv <> [] ->
  ((kind <= 1)%nat -> 0 < stot (length rows) (rowsW rows)) ->
  cl_good true (length rows) (Bo_of kind (length rows) (rowsW rows) g) (init_lab (length rows) ci) lv ->
  let r := run_community_louvain rows g kind ci lv in
  chain_mono (ret_qstart r) (fst r) /\ ret_qstart r <= ret_qdef r.
Proof. exact community_louvain_run_monotone. Qed.
(* the same with EVERY hypothesis decided by the extracted model (Model/ModularityGood.v: sym_rowsb, pos_totalb, run_*_good
   recompute the level structure and test legal /\ exact gain > 0 move by move); the harness evaluates these deciders on
   every recorded run of the implementation *)
Theorem C07_louvain_und_run_monotone_checked : forall rows g lv,
  sym_rowsb rows = true -> pos_totalb rows = true -> run_louvain_und_good rows g lv = true ->
  let r := run_louvain_und rows g lv in
  chain_mono (ret_qstart r) (fst r) /\ ret_qstart r <= ret_qdef r.
Proof. exact louvain_und_run_monotone_checked. Qed.
Theorem C07_louvain_und_sign_run_monotone_checked : forall rows g qt lv,
  sym_rowsb rows = true -> lv <> [] -> run_louvain_sign_good rows g qt lv = true ->
  let r := run_louvain_sign rows g qt lv in
  chain_mono (ret_qstart r) (fst r) /\ ret_qstart r <= ret_qdef r.
Proof. exact louvain_sign_run_monotone_checked. Qed.
Theorem C07_community_louvain_run_monotone_checked : forall rows g kind ci lv,
  lv <> [] -> ((kind <= 1)%nat -> pos_totalb rows = true) -> run_community_louvain_good rows g kind ci lv = true ->
  let r := run_community_louvain rows g kind ci lv in
  chain_mono (ret_qstart r) (fst r) /\ ret_qstart r <= ret_qdef r.
Proof. exact community_louvain_run_monotone_checked. Qed.
Example C07_run_good_nonvacuous :
  sym_rowsb ex_rows = true /\ pos_totalb ex_rows = true /\ run_louvain_und_good ex_rows 1 ex_lv = true /\
  run_louvain_sign_good ex_sign_rows 1 0 ex_sign_lv = true /\
  run_community_louvain_good ex_dir_rows 1 0 [5; 5; 5; 9]%Z [[(2, 1)]; []]%nat = true /\
  run_louvain_und_good ex_rows 1 [[(0, 5)]]%nat = false.
Proof. exact run_good_nonvacuous. Qed.
(* the retained levels of modularity_louvain_und are strictly increasing in the REPORTED q (C07_levels_strict), and every
   reported q is the true Q of its level on the original network (C02_louvain_und_run_levels) *)

(* non-vacuity of the whole-run theorems (Proofs/ModularityRun*.v): two-level runs meeting every hypothesis *)
Example C07_louvain_und_run_nonvacuous :
  sym_rows ex_rows /\ 0 < stot (length ex_rows) (rowsW ex_rows) /\
  louvain_und_good 1 (stot (length ex_rows) (rowsW ex_rows)) (length ex_rows) (rowsW ex_rows) ex_lv /\
  ret_qstart (run_louvain_und ex_rows 1 ex_lv) = - (17 # 98) /\ ret_q (run_louvain_und ex_rows 1 ex_lv) = 5 # 14.
Proof. destruct louvain_und_run_nonvacuous as (A & _ & B & C & _ & D & E). split; [exact A|split; [exact B|split; [exact C|split; [exact E|exact D]]]]. Qed.
Example C07_louvain_und_sign_run_nonvacuous :
  sym_rows ex_sign_rows /\ ex_sign_lv <> [] /\
  (let n := length ex_sign_rows in let p := sign_params n (rowsW ex_sign_rows) (qtype_of 0) in
   louvain_sign_good 1 (ss0 p) (ss1 p) (sd0 p) (sd1 p) n (sW0 p) (sW1 p) ex_sign_lv) /\
  ret_qstart (run_louvain_sign ex_sign_rows 1 0 ex_sign_lv) < ret_q (run_louvain_sign ex_sign_rows 1 0 ex_sign_lv).
Proof. destruct louvain_sign_run_nonvacuous as (A & B & C & _ & _ & D). split; [exact A|split; [exact B|split; [exact C|exact D]]]. Qed.
Example C07_community_louvain_run_nonvacuous :
  let lv := [[(2, 1)]; []]%nat in let ci := [5; 5; 5; 9]%Z in
  lv <> [] /\ 0 < stot 4 (rowsW ex_dir_rows) /\
  cl_good true 4 (Bo_of 0 4 (rowsW ex_dir_rows) 1) (init_lab 4 ci) lv /\
  ret_qstart (run_community_louvain ex_dir_rows 1 0 ci lv) < ret_q (run_community_louvain ex_dir_rows 1 0 ci lv).
Proof. destruct community_louvain_run_nonvacuous as (_ & A & B & C & _ & _ & D). split; [exact A|split; [exact B|split; [exact C|exact D]]]. Qed.

(* ==== THE DECISION RULE IS IN THE MODEL: no hypothesis on the run remains (Model/ModularitySelect.v) ====
   [dq_vec N gain st u] = the gain vector over the N module slots with dq[ma] := 0; [argmax_first] = np.max / np.argmax
   (FIRST maximum); [select] = `if max_dq > thr: mb = argmax`; [sweep] = one `for u in rng.permutation(n)` pass;
   [sweeps] = `while flag: it += 1; if it > maxit: raise; ...` (stops after the first pass without a move; outcome
   SwDone / SwRaise / SwStreamEnd, unconsumed permutations returned); [thr] stands for 1e-10, [maxit] for 1000. *)
Theorem C07_argmax_first_spec : forall L mb mx, argmax_first L = Some (mb, mx) ->
  (mb < length L)%nat /\ nth mb L 0 = mx /\ (forall j, (j < length L)%nat -> nth j L 0 <= mx) /\
  (forall j, (j < mb)%nat -> nth j L 0 < mx).
Proof. exact argmax_first_spec. Qed.
(* a chosen target is a slot of the level, differs from the node's module, has exact gain > thr (thr >= 0), is a maximum
   of the gains over the other modules' slots and the FIRST such maximum; declining = no slot's gain exceeds thr *)
Theorem C07_select_some : forall N thr gain skey st u mb, select N thr gain skey st u = Some mb ->
  (mb < N)%nat /\
  (0 <= thr -> lab st u <> mb /\ thr < gain st u mb) /\
  (forall t, (t < N)%nat -> t <> lab st u -> mb <> lab st u -> gain st u t <= gain st u mb) /\
  (forall t, (t < mb)%nat -> t <> lab st u -> mb <> lab st u -> gain st u t < gain st u mb).
Proof. exact select_some. Qed.
Theorem C07_select_none : forall N thr gain skey st u, select N thr gain skey st u = None ->
  forall t, (t < N)%nat -> t <> lab st u -> gain st u t <= thr.
Proof. exact select_none. Qed.
(* EVERY permutation list, every start state, every `it` bound: the accepted moves form a good run and the returned state
   is their replay — for all four gain/bookkeeping families at once (gain, move are parameters) *)
Theorem C07_sweeps_good_run : forall N thr maxit gain move skey, 0 <= thr -> forall perms it st,
  let r := sweeps N thr maxit gain move skey it st perms in
  good_run N gain move st (lvl_moves (fst (fst r))) /\ snd (fst r) = run_moves move st (lvl_moves (fst (fst r))).
Proof. exact sweeps_good. Qed.

(* whole extracted finetune runs are monotone for good move lists (ret_qstart / ret_qdef of the three run_finetune functions) ... *)
Theorem C07_run_finetune_und_monotone : forall rows g ci moves,
  let n := length rows in let W := of_rows 0 rows in
  let ik := finetune_und_init n W (init_lab n ci) in
  sym_on n W -> 0 < stot n W ->
  good_run n (gain_und W g (stot n W) (snd ik)) (move_und n W (snd ik)) (fst ik) moves ->
  let r := run_finetune_und rows g ci moves in ret_qstart r <= ret_qdef r.
Proof. exact run_finetune_und_monotone. Qed.
Theorem C07_run_finetune_dir_monotone : forall rows g ci moves,
  let n := length rows in let W := of_rows 0 rows in
  let ik := finetune_dir_init n W (init_lab n ci) in
  0 < stot n W ->
  good_run n (gain_dir W g (stot n W) (fst (snd ik)) (snd (snd ik))) (move_dir false n W (fst (snd ik)) (snd (snd ik))) (fst ik) moves ->
  let r := run_finetune_dir rows g ci moves in ret_qstart r <= ret_qdef r.
Proof. exact run_finetune_dir_monotone. Qed.
(* ... the signed one instantiated at the code's own W0, W1, s0, s1, d0, d1 (sign_params), every qtype *)
Theorem C07_run_finetune_sign_monotone : forall rows g qt ci moves,
  let n := length rows in let W := of_rows 0 rows in
  let p := sign_params n W (qtype_of qt) in
  let ik := sign_init n p (init_lab n ci) in
  sym_on n W ->
  good_run n (gain_sign (sW0 p) (sW1 p) g (ss0 p) (ss1 p) (sd0 p) (sd1 p) (fst (snd ik)) (snd (snd ik)))
           (move_sign n (sW0 p) (sW1 p) (fst (snd ik)) (snd (snd ik))) (fst ik) moves ->
  let r := run_finetune_sign rows g qt ci moves in ret_qstart r <= ret_qdef r.
Proof. exact run_finetune_sign_monotone. Qed.

(* THE PROPERTY, hypothesis-free on the run: [run_*_auto rows g thr maxit .. perms] = the run whose moves the decision rule
   makes on the permutation stream perms. For every input of the routine's domain, gamma, qtype / objective, initial
   partition, threshold >= 0, `it` bound and EVERY list of permutations the returned partition is never worse than the
   start (Louvain: and the true qualities of the levels form a monotone chain on the original network) *)
Theorem C07_finetune_und_auto_never_worse : forall thr maxit, 0 <= thr -> forall rows g ci perms,
  sym_rows rows -> 0 < stot (length rows) (of_rows 0 rows) ->
  let r := run_finetune_und_auto rows g thr maxit ci perms in ret_qstart r <= ret_qdef r.
Proof. exact finetune_und_auto_monotone. Qed.
Theorem C07_finetune_dir_auto_never_worse : forall thr maxit, 0 <= thr -> forall rows g ci perms,
  0 < stot (length rows) (of_rows 0 rows) ->
  let r := run_finetune_dir_auto rows g thr maxit ci perms in ret_qstart r <= ret_qdef r.
Proof. exact finetune_dir_auto_monotone. Qed.
Theorem C07_finetune_sign_auto_never_worse : forall thr maxit, 0 <= thr -> forall rows g qt ci perms, sym_rows rows ->
  let r := run_finetune_sign_auto rows g thr maxit qt ci perms in ret_qstart r <= ret_qdef r.
Proof. exact finetune_sign_auto_monotone. Qed.
Theorem C07_louvain_und_auto_monotone : forall thr maxit, 0 <= thr -> forall rows g perms,
  sym_rows rows -> 0 < stot (length rows) (rowsW rows) ->
  let r := run_louvain_und_auto rows g thr maxit perms in
  chain_mono (ret_qstart r) (fst r) /\ ret_qstart r <= ret_qdef r.
Proof. exact louvain_und_auto_monotone. Qed.
Theorem C07_louvain_und_sign_auto_monotone : forall thr maxit, 0 <= thr -> forall rows g qt perms,
  sym_rows rows -> perms <> [] ->
  let r := run_louvain_sign_auto rows g thr maxit qt perms in
  chain_mono (ret_qstart r) (fst r) /\ ret_qstart r <= ret_qdef r.
Proof. exact louvain_sign_auto_monotone. Qed.
Theorem C07_community_louvain_auto_monotone : forall thr maxit, 0 <= thr -> forall rows g kind ci perms, perms <> [] ->
  ((kind <= 1)%nat -> 0 < stot (length rows) (rowsW rows)) ->
  let r := run_community_louvain_auto rows g thr maxit kind ci perms in
  chain_mono (ret_qstart r) (fst r) /\ ret_qstart r <= ret_qdef r.
Proof. exact community_louvain_auto_monotone. Qed.
(* restart: whatever produced a result (ANY move lists), a run of the decision rule started from the RETURNED labels, on
   ANY permutation stream, does not end below the definitional quality of that result *)
Theorem C07_finetune_und_restart : forall thr maxit, 0 <= thr -> forall rows g ci ms perms2,
  sym_rows rows -> 0 < stot (length rows) (of_rows 0 rows) ->
  let r1 := run_finetune_und rows g ci ms in
  ret_qdef r1 <= ret_qdef (run_finetune_und_auto rows g thr maxit (map Z.of_nat (ret_ci r1)) perms2).
Proof. exact finetune_und_restart. Qed.
Theorem C07_finetune_dir_restart : forall thr maxit, 0 <= thr -> forall rows g ci ms perms2,
  0 < stot (length rows) (of_rows 0 rows) ->
  let r1 := run_finetune_dir rows g ci ms in
  ret_qdef r1 <= ret_qdef (run_finetune_dir_auto rows g thr maxit (map Z.of_nat (ret_ci r1)) perms2).
Proof. exact finetune_dir_restart. Qed.
Theorem C07_finetune_sign_restart : forall thr maxit, 0 <= thr -> forall rows g qt ci ms perms2, sym_rows rows ->
  let r1 := run_finetune_sign rows g qt ci ms in
  ret_qdef r1 <= ret_qdef (run_finetune_sign_auto rows g thr maxit qt (map Z.of_nat (ret_ci r1)) perms2).
Proof. exact finetune_sign_restart. Qed.
Theorem C07_community_louvain_restart : forall thr maxit, 0 <= thr -> forall rows g kind ci lv perms2, perms2 <> [] ->
  ((kind <= 1)%nat -> 0 < stot (length rows) (rowsW rows)) ->
  let r1 := run_community_louvain rows g kind ci lv in
  ret_qdef r1 <= ret_qdef (run_community_louvain_auto rows g thr maxit kind (map Z.of_nat (ret_ci r1)) perms2).
Proof. exact community_louvain_restart. Qed.
(* non-vacuity: the rule run on concrete permutation streams (two triangles joined by an edge): three sweeps + one, the
   moves it makes, the outcome with an `it` bound of 0 (raise) and on a stream that ends early *)
Example C07_auto_nonvacuous :
  let perms := [[0; 1; 2; 3; 4; 5]; [5; 4; 3; 2; 1; 0]; [0; 1; 2; 3; 4; 5]; [0; 1]]%nat in
  auto_moves (auto_louvain_und ex_rows 1 thr10 (Some 1000%nat) perms) = [[(0, 1); (2, 1); (3, 4); (4, 5); (3, 5)]; []]%nat /\
  snd (auto_louvain_und ex_rows 1 thr10 (Some 1000%nat) perms) = (O, SwDone) /\
  ret_ci (run_louvain_und_auto ex_rows 1 thr10 (Some 1000%nat) perms) = [1; 1; 1; 2; 2; 2]%nat /\
  snd (auto_louvain_und ex_rows 1 thr10 (Some 0%nat) perms) = (4%nat, SwRaise) /\
  snd (auto_louvain_und ex_rows 1 thr10 None [[0; 1; 2; 3; 4; 5]]%nat) = (O, SwStreamEnd).
Proof. exact auto_nonvacuous. Qed.

(* ---- hierarchy: a level is kept only if q[h] - q[h-1] >= 1e-10: the retained list increases strictly ---- *)
Theorem C07_levels_strict : forall qs prev, incr_from prev (retained_from prev qs).
Proof. exact levels_strict. Qed.
Theorem C07_retained_prefix : forall qs prev, exists rest, qs = retained_from prev qs ++ rest.
Proof. exact retained_prefix. Qed.
(* the hierarchy clause as ONE statement about what hierarchy=True returns (run_louvain_und_hier = ci[1:-1], q[1:-1], slice
   inside the model): for symmetric W and a level count obeying the code's stopping rule, every returned q IS the true
   modularity (on the original network) of the returned labels of that level, and these values increase strictly, by at
   least 1e-10 per level, starting above -1 *)
Theorem C07_louvain_und_hierarchy_strict : forall rows g lv, sym_rows rows ->
  stop_rule_ok (level_qs (run_louvain_und rows g lv)) ->
  let h := run_louvain_und_hier rows g lv in
  length (fst h) = length (snd h) /\
  Forall2 (fun ci q => (exists k, labels_exact (length rows) ci k) /\
                       q = Qred (Qund (length rows) (rowsW rows) g (fun x => nth x ci O))) (fst h) (snd h) /\
  incr_from (- (1)) (snd h).
Proof. exact louvain_und_hierarchy. Qed.

(* ---- restart from the routine's own output (any integer label list) ---- *)
Theorem C07_idempotent_restart : forall n W g ci_out ms,
  let s := stot n W in 0 < s -> sym_on n W ->
  let lab0 := init_lab n ci_out in
  let st0 := fst (finetune_und_init n W lab0) in
  let k := snd (finetune_und_init n W lab0) in
  good_run n (gain_und W g s k) (move_und n W k) st0 ms ->
  (forall u v, (u < n)%nat -> (v < n)%nat -> (lab0 u = lab0 v <-> nth u ci_out 0%Z = nth v ci_out 0%Z)) /\
  Qund n W g lab0 <= Qund n W g (lab (run_moves (move_und n W k) st0 ms)).
Proof. exact idempotent_restart. Qed.

(* ---- modularity_louvain_dir as it is: both statements FAIL (concrete witnesses replayed on the implementation) ---- *)
Theorem C07_louvain_dir_bk_refuted : ~ louvain_dir_bk_full_statement.
Proof. exact louvain_dir_bk_refuted. Qed.
Theorem C07_louvain_dir_monotone_refuted : ~ louvain_dir_monotone_full_statement.
Proof. exact louvain_dir_monotone_refuted. Qed.
(* with the three one-line repairs (knm_i = W.T, unswapped updates; W = W1) the routine is the directed instance above *)
Theorem C07_init_bk_inv_louvain_dirfix : forall n W ko ki,
  Bk_inv_dir n W ko ki (mkst (tabv O n ident) (mkchan (tabQ n n W) ko) (mkchan (tabQ n n (transp W)) ki)).
Proof. exact init_bk_inv_louvain_dirfix. Qed.

(* non-vacuity: on the path 0-1-2-3 (weights 3,1,2) moving node 0 into node 1's module is a good run from singletons *)
Example C07_nonvacuous :
  let W := of_rows 0 [[0; 3; 0; 0]; [3; 0; 1; 0]; [0; 1; 0; 2]; [0; 0; 2; 0]]%list in
  let k := tabvQ 4 (colsum 4 W) in
  let st0 := mkst (tabv O 4 ident) (mkchan (tabQ 4 4 W) k) chan0 in
  good_run 4 (gain_und W 1 (stot 4 W) k) (move_und 4 W k) st0 [(0, 1)]%nat /\ 0 < stot 4 W.
Proof.
  cbv zeta. split; [|vm_compute; reflexivity].
  constructor; [|vm_compute; reflexivity|constructor].
  split; [lia|split; [lia|]]. vm_compute. discriminate.
Qed.

Print Assumptions C07_init_bk_inv_louvain.
Print Assumptions C07_init_bk_inv_louvain_sign.
Print Assumptions C07_init_bk_inv_finetune.
Print Assumptions C07_init_bk_inv_finetune_dir.
Print Assumptions C07_init_bk_inv_finetune_sign.
Print Assumptions C07_move_preserves_bk_inv.
Print Assumptions C07_move_preserves_bk_inv_dir.
Print Assumptions C07_move_preserves_bk_inv_sign.
Print Assumptions C07_move_preserves_bk_inv_B.
Print Assumptions C07_gain_exact_und.
Print Assumptions C07_gain_exact_dir.
Print Assumptions C07_gain_exact_sign.
Print Assumptions C07_Qsign_is_gen.
Print Assumptions C07_gain_exact_louvainB.
Print Assumptions C07_moves_monotone_und.
Print Assumptions C07_moves_monotone_dir.
Print Assumptions C07_moves_monotone_sign.
Print Assumptions C07_moves_monotone_louvainB.
Print Assumptions C07_finetune_und_never_worse.
Print Assumptions C07_finetune_dir_never_worse.
Print Assumptions C07_finetune_sign_never_worse.
Print Assumptions C07_level_monotone.
Print Assumptions C07_louvain_und_level_hyps.
Print Assumptions C07_levels_strict.
Print Assumptions C07_retained_prefix.
Print Assumptions C07_idempotent_restart.
Print Assumptions C07_louvain_dir_bk_refuted.
Print Assumptions C07_louvain_dir_monotone_refuted.
Print Assumptions C07_init_bk_inv_louvain_dirfix.
Print Assumptions C07_louvain_und_run_monotone.
Print Assumptions C07_louvain_und_sign_run_monotone.
Print Assumptions C07_community_louvain_run_monotone.
Print Assumptions C07_louvain_und_run_monotone_checked.
Print Assumptions C07_louvain_und_sign_run_monotone_checked.
Print Assumptions C07_community_louvain_run_monotone_checked.
Print Assumptions C07_argmax_first_spec.
Print Assumptions C07_select_some.
Print Assumptions C07_select_none.
Print Assumptions C07_sweeps_good_run.
Print Assumptions C07_run_finetune_und_monotone.
Print Assumptions C07_run_finetune_dir_monotone.
Print Assumptions C07_run_finetune_sign_monotone.
Print Assumptions C07_finetune_und_auto_never_worse.
Print Assumptions C07_finetune_dir_auto_never_worse.
Print Assumptions C07_finetune_sign_auto_never_worse.
Print Assumptions C07_louvain_und_auto_monotone.
Print Assumptions C07_louvain_und_sign_auto_monotone.
Print Assumptions C07_community_louvain_auto_monotone.
Print Assumptions C07_finetune_und_restart.
Print Assumptions C07_finetune_dir_restart.
Print Assumptions C07_finetune_sign_restart.
Print Assumptions C07_community_louvain_restart.
Print Assumptions C07_louvain_und_hierarchy_strict.
