(* Model/Between.v — bct/algorithms/centrality.py: betweenness_bin, betweenness_wei,
   edge_betweenness_bin, edge_betweenness_wei.  Definitions only.

   Graph: [n] nodes and a matrix [G : mat Z]; G u v = 0 means "no connection", otherwise the
   connection u -> v has length G u v (the weighted routines take a LENGTH matrix; binary graphs are
   the case of all lengths 1).  Path counts are Z, dependencies / betweenness values are Q,
   distances are [option Z] (None = +infinity).

   Part 1 is the SPECIFICATION (walks as node lists, minimum length, counting of all minimum-length
   walks); part 2 the statement-by-statement models of the four routines; part 3 the list-in/list-out
   wrappers used by extraction. *)
From Coq Require Import QArith List Arith Bool ZArith Lia.
From BCT Require Import Base.Mat Base.SumQ Base.ListX.
Import ListNotations.
Open Scope Z_scope.

(* ====================================================================================== *)
(* Part 1 — specification                                                                  *)
(* ====================================================================================== *)

Definition edge (G : mat Z) (u v : nat) : bool := negb (Z.eqb (G u v) 0).

(* a walk is a NONEMPTY list of nodes a :: r; [chain G a r]: every consecutive pair is a connection *)
Fixpoint chain (G : mat Z) (a : nat) (r : list nat) : bool :=
  match r with [] => true | b :: r' => edge G a b && chain G b r' end.
(* total length of the walk a :: r *)
Fixpoint clen (G : mat Z) (a : nat) (r : list nat) : Z :=
  match r with [] => 0 | b :: r' => G a b + clen G b r' end.
Definition wlen (G : mat Z) (p : list nat) : Z :=
  match p with [] => 0 | a :: r => clen G a r end.
Definition inb (n : nat) (p : list nat) : bool := forallb (fun x => Nat.ltb x n) p.

(* p is a walk from s to t inside {0..n-1} *)
Definition wft (n : nat) (G : mat Z) (s t : nat) (p : list nat) : bool :=
  match p with
  | [] => false
  | a :: r => Nat.eqb a s && Nat.eqb (last p a) t && inb n p && chain G a r
  end.

(* the walk relation and the minimum-length relation (any number of nodes) *)
Definition is_walk (n : nat) (G : mat Z) (s t : nat) (p : list nat) : Prop := wft n G s t p = true.
Definition is_dist (n : nat) (G : mat Z) (s t : nat) (d : Z) : Prop :=
  (exists p, is_walk n G s t p /\ wlen G p = d) /\ (forall p, is_walk n G s t p -> d <= wlen G p).
Definition reachable (n : nat) (G : mat Z) (s t : nat) : Prop := exists p, is_walk n G s t p.
Definition is_shortest (n : nat) (G : mat Z) (s t : nat) (p : list nat) : Prop :=
  is_walk n G s t p /\ forall q, is_walk n G s t q -> wlen G p <= wlen G q.

(* admissible inputs *)
Definition nonneg_len (n : nat) (G : mat Z) : Prop := forall i j, (i < n)%nat -> (j < n)%nat -> 0 <= G i j.
Definition binary (n : nat) (G : mat Z) : Prop := forall i j, (i < n)%nat -> (j < n)%nat -> G i j = 0 \/ G i j = 1.

(* finite enumeration: with positive lengths a minimum-length walk repeats no node, hence has at most
   n nodes (Proofs/BetweenSpec.v: shortest_NoDup, spaths_spec); candidates = all node lists of 1..n nodes *)
Fixpoint lists_of (n k : nat) : list (list nat) :=
  match k with
  | O => [[]]
  | S k' => flat_map (fun a => map (cons a) (lists_of n k')) (seq 0 n)
  end.
Definition cands (n : nat) : list (list nat) := flat_map (lists_of n) (seq 1 n).
Definition walks_st (n : nat) (G : mat Z) (s t : nat) : list (list nat) := filter (wft n G s t) (cands n).
(* ALL minimum-length walks s -> t (every equal-length alternative is a separate element) *)
Definition spaths (n : nat) (G : mat Z) (s t : nat) : list (list nat) :=
  let W := walks_st n G s t in
  filter (fun p => forallb (fun q => Z.leb (wlen G p) (wlen G q)) W) W.

Definition zlen {A} (l : list A) : Z := Z.of_nat (length l).
Definition sigma (n : nat) (G : mat Z) (s t : nat) : Z := zlen (spaths n G s t).
(* consecutive pair (x,y) occurs in the walk a :: r *)
Fixpoint chain_has (x y : nat) (a : nat) (r : list nat) : bool :=
  match r with [] => false | b :: r' => (Nat.eqb a x && Nat.eqb b y) || chain_has x y b r' end.
Definition has_edge (x y : nat) (p : list nat) : bool :=
  match p with [] => false | a :: r => chain_has x y a r end.
Definition sigma_through (n : nat) (G : mat Z) (s t v : nat) : Z :=
  zlen (filter (nmem v) (spaths n G s t)).
Definition sigma_edge (n : nat) (G : mat Z) (s t x y : nat) : Z :=
  zlen (filter (has_edge x y) (spaths n G s t)).
(* distance read off the enumeration (None: unreachable) *)
Definition dist_spec (n : nat) (G : mat Z) (s t : nat) : option Z :=
  match spaths n G s t with [] => None | p :: _ => Some (wlen G p) end.

Definition zq (z : Z) : Q := inject_Z z.
Definition neb (a b : nat) : bool := negb (Nat.eqb a b).
(* fraction of the shortest s->t walks that ...; unreachable pairs contribute nothing *)
Definition frac (num den : Z) : Q := if Z.eqb den 0 then 0%Q else (zq num / zq den)%Q.
Definition BC_spec (n : nat) (G : mat Z) (v : nat) : Q :=
  sumQ (fun s => sumQ (fun t =>
    if neb s v && neb t v then frac (sigma_through n G s t v) (sigma n G s t) else 0%Q) n) n.
Definition EBC_spec (n : nat) (G : mat Z) (x y : nat) : Q :=
  sumQ (fun s => sumQ (fun t => frac (sigma_edge n G s t x y) (sigma n G s t)) n) n.

(* ====================================================================================== *)
(* Part 2 — the routines                                                                   *)
(* ====================================================================================== *)

(* ---------- extended distances: None = np.inf ---------- *)
Definition xadd (a : option Z) (z : Z) : option Z := match a with Some x => Some (x + z) | None => None end.
Definition xlt (a b : option Z) : bool :=
  match a, b with Some x, Some y => Z.ltb x y | Some _, None => true | None, _ => false end.
Definition xeq (a b : option Z) : bool :=
  match a, b with Some x, Some y => Z.eqb x y | None, None => true | _, _ => false end.
Definition xmin (a b : option Z) : option Z := if xlt b a then b else a.
Definition isinf (a : option Z) : bool := match a with None => true | Some _ => false end.

Definition nzb (z : Z) : bool := negb (Z.eqb z 0).
(* np.where(row)[0] *)
Definition wherev (n : nat) (f : nat -> bool) : list nat := filter f (seq 0 n).
(* X[:, V] = 0 *)
Definition zero_cols (n : nat) (V : list nat) (X : mat Z) : mat Z :=
  tab 0 n n (fun i j => if nmem j V then 0 else X i j).

(* ---------- state of one source of the Brandes-style routines ----------
   qf = q + 1 = number of still free queue slots (Q[q] = v; q -= 1  is  Q[qf-1] = v; qf -= 1) *)
Record sst := mk_sst {
  sD : vec (option Z);   (* weighted: tentative/permanent distance;  binary: Some 1 = "D[w] set", None = 0 *)
  sNP : vec Z;           (* number of shortest paths from u *)
  sP : mat bool;         (* P[w,v]: v is a predecessor of w *)
  sQ : vec nat;          (* queue *)
  sqf : nat }.

Definition push (st : sst) (v : nat) : sst :=
  mk_sst (sD st) (sNP st) (sP st) (vupd (sQ st) (sqf st - 1) v) (sqf st - 1).

(* ---------- weighted search (betweenness_wei 104-138 = edge_betweenness_wei 298-332) ---------- *)
(* body of `for w in W` *)
Definition relax_w (G1 : mat Z) (v : nat) (st : sst) (w : nat) : sst :=
  let D := sD st in let NP := sNP st in let P := sP st in
  let duw := xadd (D v) (G1 v w) in
  if xlt duw (D w) then
    mk_sst (vupd D w duw) (vupd NP w (NP v))
           (fun i j => if Nat.eqb i w then Nat.eqb j v else P i j) (sQ st) (sqf st)
  else if xeq duw (D w) then
    mk_sst D (vupd NP w (NP w + NP v)) (upd P w v true) (sQ st) (sqf st)
  else st.

(* body of `for v in V` *)
Definition visit_w (n : nat) (G1 : mat Z) (st : sst) (v : nat) : sst :=
  fold_left (relax_w G1 v) (wherev n (fun w => nzb (G1 v w))) (push st v).

(* materialise the per-source state between iterations *)
Definition tab_sst (n : nat) (st : sst) : sst :=
  mk_sst (tabv None n (sD st)) (tabv 0 n (sNP st)) (tab false n n (sP st)) (tabv O n (sQ st)) (sqf st).

(* Q[:q+1], = np.where(unreached): NumPy raises unless the two lengths agree *)
Definition fill_front (n : nat) (st : sst) (unreached : list nat) : option sst :=
  if Nat.eqb (length unreached) (sqf st) then
    Some (mk_sst (sD st) (sNP st) (sP st)
                 (fun i => if Nat.ltb i (sqf st) then nth i unreached O else sQ st i) (sqf st))
  else None.

(* np.min(D[S]) over a nonempty selection *)
Definition min_over (D : vec (option Z)) (sel : list nat) : option Z :=
  match sel with [] => None | a :: r => fold_left (fun m i => xmin m (D i)) r (D a) end.

(* the `while True` loop; S and G1 are kept outside the record; fuel = n suffices (Proofs) *)
Fixpoint search_w (fuel : nat) (n : nat) (Sm : vec bool) (G1 : mat Z) (V : list nat) (st : sst) : option sst :=
  match fuel with
  | O => None
  | S f =>
    let S1 := tabv false n (fun i => if nmem i V then false else Sm i) in
    let G2 := zero_cols n V G1 in
    let st1 := tab_sst n (fold_left (visit_w n G2) V st) in
    let sel := wherev n S1 in
    match sel with
    | [] => Some st1                                          (* D[S].size == 0 *)
    | _ =>
      let m := min_over (sD st1) sel in
      if isinf m then fill_front n st1 (wherev n (fun i => isinf (sD st1 i)))
      else search_w f n S1 G2 (wherev n (fun i => xeq (sD st1 i) m)) st1
    end
  end.

Definition init_w (n u : nat) : sst :=
  mk_sst (vupd (fun _ => None) u (Some 0)) (vupd (fun _ => 0) u 1) (fun _ _ => false) (fun _ => O) n.
Definition source_w (n : nat) (G : mat Z) (u : nat) : option sst :=
  search_w n n (fun _ => true) (tab 0 n n G) [u] (init_w n u).

(* ---------- binary search (edge_betweenness_bin 224-251) ---------- *)
Definition relax_b (v : nat) (st : sst) (w : nat) : sst :=
  let D := sD st in let NP := sNP st in let P := sP st in
  if negb (isinf (D w)) then
    mk_sst D (vupd NP w (NP w + NP v)) (upd P w v true) (sQ st) (sqf st)
  else
    mk_sst (vupd D w (Some 1)) (vupd NP w (NP v)) (upd P w v true) (sQ st) (sqf st).
Definition visit_b (n : nat) (Gu : mat Z) (st : sst) (v : nat) : sst :=
  fold_left (relax_b v) (wherev n (fun w => nzb (Gu v w))) (push st v).
(* `while V.size` *)
Fixpoint search_b (fuel : nat) (n : nat) (Gu : mat Z) (V : list nat) (st : sst) : option sst :=
  match V with
  | [] => Some st
  | _ =>
    match fuel with
    | O => None
    | S f =>
      let G2 := zero_cols n V Gu in
      let st1 := tab_sst n (fold_left (visit_b n G2) V st) in
      search_b f n G2 (wherev n (fun j => existsb (fun v => nzb (G2 v j)) V)) st1
    end
  end.
Definition init_b (n u : nat) : sst :=
  mk_sst (vupd (fun _ => None) u (Some 1)) (vupd (fun _ => 0) u 1) (fun _ _ => false) (fun _ => O) n.
Definition source_b (n : nat) (G : mat Z) (u : nat) : option sst :=
  match search_b (S n) n (tab 0 n n G) [u] (init_b n u) with
  | None => None
  | Some st =>
    let un := wherev n (fun i => isinf (sD st i)) in
    match un with [] => Some st | _ => fill_front n st un end
  end.

(* ---------- dependency accumulation ---------- *)
Open Scope Q_scope.
(* (1 + DP[w]) * NP[v] / NP[w] *)
Definition dpvw (NP : vec Z) (DP : vec Q) (v w : nat) : Q := (1 + DP w) * zq (NP v) / zq (NP w).

(* edge routines 253-259 / 334-340: state (BC, EBC, DP); inner state (DP, EBC) *)
Definition acc_e_inner (NP : vec Z) (w : nat) (st : vec Q * mat Q) (v : nat) : vec Q * mat Q :=
  let DP := fst st in let EBC := snd st in
  let x := dpvw NP DP v w in
  (vupd DP v (Qred (DP v + x)), upd EBC v w (Qred (EBC v w + x))).
Definition acc_e_step (n : nat) (P : mat bool) (NP : vec Z) (st : vec Q * mat Q * vec Q) (w : nat)
  : vec Q * mat Q * vec Q :=
  let BC := fst (fst st) in let EBC := snd (fst st) in let DP := snd st in
  let BC1 := vupd BC w (Qred (BC w + DP w)) in
  let r := fold_left (acc_e_inner NP w) (wherev n (P w)) (DP, EBC) in
  (BC1, snd r, fst r).
(* node routine 140-144: state (BC, DP) *)
Definition acc_n_inner (NP : vec Z) (w : nat) (DP : vec Q) (v : nat) : vec Q :=
  vupd DP v (Qred (DP v + dpvw NP DP v w)).
Definition acc_n_step (n : nat) (P : mat bool) (NP : vec Z) (st : vec Q * vec Q) (w : nat) : vec Q * vec Q :=
  let BC := fst st in let DP := snd st in
  let BC1 := vupd BC w (Qred (BC w + DP w)) in
  (BC1, fold_left (acc_n_inner NP w) (wherev n (P w)) DP).

(* Q[:n-1] *)
Definition queue_prefix (n : nat) (st : sst) : list nat := firstn (n - 1) (to_list n (sQ st)).

Definition zeroQ : vec Q := fun _ => 0.
Definition accum_e (n : nat) (st : sst) (BC : vec Q) (EBC : mat Q) : vec Q * mat Q :=
  let r := fold_left (acc_e_step n (sP st) (sNP st)) (queue_prefix n st) (BC, EBC, zeroQ) in
  (tabv 0 n (fst (fst r)), tab 0 n n (snd (fst r))).
Definition accum_n (n : nat) (st : sst) (BC : vec Q) : vec Q :=
  tabv 0 n (fst (fold_left (acc_n_step n (sP st) (sNP st)) (queue_prefix n st) (BC, zeroQ))).

(* `for u in range(n)` *)
Definition sources_e (n : nat) (src : nat -> option sst) : option (vec Q * mat Q) :=
  fold_left (fun acc u =>
    match acc with
    | None => None
    | Some (BC, EBC) => match src u with None => None | Some st => Some (accum_e n st BC EBC) end
    end) (seq 0 n) (Some ((fun _ => 0), (fun _ _ => 0))).
Definition sources_n (n : nat) (src : nat -> option sst) : option (vec Q) :=
  fold_left (fun acc u =>
    match acc with
    | None => None
    | Some BC => match src u with None => None | Some st => Some (accum_n n st BC) end
    end) (seq 0 n) (Some (fun _ => 0)).

(* returns (EBC, BC) like the code *)
Definition edge_betweenness_wei (n : nat) (G : mat Z) : option (mat Q * vec Q) :=
  match sources_e n (source_w n G) with Some (BC, EBC) => Some (EBC, BC) | None => None end.
Definition edge_betweenness_bin (n : nat) (G : mat Z) : option (mat Q * vec Q) :=
  match sources_e n (source_b n G) with Some (BC, EBC) => Some (EBC, BC) | None => None end.
Definition betweenness_wei (n : nat) (G : mat Z) : option (vec Q) := sources_n n (source_w n G).

(* ---------- betweenness_bin (34-69): matrix powers + back-propagation ---------- *)
Open Scope Z_scope.
Definition mmulZ (n : nat) (A B : mat Z) : mat Z := fun i j => sumn (fun k => A i k * B k j) n.
Definition anynz (n : nat) (X : mat Z) : bool := existsb (fun c => nzb (X (fst c) (snd c))) (cells n).

(* `while np.any(NSPd)`; returns (d, NSP, L) at exit *)
Fixpoint bb_count (fuel : nat) (n : nat) (G : mat Z) (d : Z) (NPd NSPd NSP L : mat Z)
  : option (Z * mat Z * mat Z) :=
  if anynz n NSPd then
    match fuel with
    | O => None
    | S f =>
      let d1 := d + 1 in
      let NPd1 := tab 0 n n (mmulZ n NSPd G) in
      let NSPd1 := tab 0 n n (fun i j => NPd1 i j * b2z (Z.eqb (L i j) 0)) in
      let NSP1 := tab 0 n n (fun i j => NSP i j + NSPd1 i j) in
      let L1 := tab 0 n n (fun i j => L i j + d1 * b2z (nzb (NSPd1 i j))) in
      bb_count f n G d1 NPd1 NSPd1 NSP1 L1
    end
  else Some (d, NSP, L).

Definition bb_init_diag (X : mat Z) : mat Z := fun i j => if Nat.eqb i j then 1 else X i j.
(* L[L==0]=inf; L[I]=0 *)
Definition bb_Lfin (L : mat Z) : mat (option Z) :=
  fun i j => if Nat.eqb i j then Some 0 else if Z.eqb (L i j) 0 then None else Some (L i j).
(* NSP[NSP==0]=1 *)
Definition bb_NSPfin (NSP : mat Z) : mat Z := fun i j => if Z.eqb (NSP i j) 0 then 1 else NSP i j.

Open Scope Q_scope.
Definition indq (b : bool) : Q := if b then 1 else 0.
(* one pass of `for d in range(diam, 1, -1)` *)
Definition bb_back (n : nat) (G : mat Z) (L : mat (option Z)) (NSP : mat Z) (DP : mat Q) (d : Z) : mat Q :=
  let A : mat Q := tab 0 n n (fun i k => indq (xeq (L i k) (Some d)) * (1 + DP i k) / zq (NSP i k)) in
  tab 0 n n (fun i j =>
    Qred (DP i j +
          sumQ (fun k => A i k * zq (G j k)) n * (indq (xeq (L i j) (Some (d - 1)%Z)) * zq (NSP i j)))).

(* range(diam, 1, -1) *)
Definition down_range (diam : Z) : list Z := rev (map (fun k => Z.of_nat k) (seq 2 (Z.to_nat diam - 1))).

Definition betweenness_bin (n : nat) (G : mat Z) : option (vec Q) :=
  let G0 := tab 0%Z n n G in
  match bb_count (S n) n G0 1%Z G0 G0 (tab 0%Z n n (bb_init_diag G0)) (tab 0%Z n n (bb_init_diag G0)) with
  | None => None
  | Some (d, NSP, L) =>
    let Lf := tab None n n (bb_Lfin L) in
    let NSPf := tab 0%Z n n (bb_NSPfin NSP) in
    let DP := fold_left (bb_back n G0 Lf NSPf) (down_range (d - 1)%Z) (fun _ _ => 0) in
    Some (fun j => sumQ (fun i => DP i j) n)
  end.

(* ====================================================================================== *)
(* Part 3 — executable interface                                                           *)
(* ====================================================================================== *)
Definition qlist (n : nat) (f : vec Q) : list Q := to_list n (fun i => Qred (f i)).
Definition qrows (n : nat) (f : mat Q) : list (list Q) := to_rows n n (fun i j => Qred (f i j)).

Definition run_bc_bin (rows : list (list Z)) : option (list Q) :=
  let n := length rows in
  match betweenness_bin n (of_rows 0%Z rows) with None => None | Some BC => Some (qlist n BC) end.
Definition run_bc_wei (rows : list (list Z)) : option (list Q) :=
  let n := length rows in
  match betweenness_wei n (of_rows 0%Z rows) with None => None | Some BC => Some (qlist n BC) end.
Definition run_ebc_bin (rows : list (list Z)) : option (list (list Q) * list Q) :=
  let n := length rows in
  match edge_betweenness_bin n (of_rows 0%Z rows) with
  | None => None | Some (EBC, BC) => Some (qrows n EBC, qlist n BC) end.
Definition run_ebc_wei (rows : list (list Z)) : option (list (list Q) * list Q) :=
  let n := length rows in
  match edge_betweenness_wei n (of_rows 0%Z rows) with
  | None => None | Some (EBC, BC) => Some (qrows n EBC, qlist n BC) end.
(* per-source search state (queue, free slots, path counts, distances) for white-box correspondence *)
Definition run_search (weighted : bool) (rows : list (list Z)) (u : nat)
  : option (list nat * nat * list Z * list (option Z) * list (list bool)) :=
  let n := length rows in
  match (if weighted then source_w n (of_rows 0%Z rows) u else source_b n (of_rows 0%Z rows) u) with
  | None => None
  | Some st => Some (to_list n (sQ st), sqf st, to_list n (sNP st), to_list n (sD st), to_rows n n (sP st))
  end.
(* the specification itself, evaluated by enumeration (tiny n only: n^n candidate walks) *)
Definition run_spec (rows : list (list Z)) : list (list Q) * list Q * list (list (option Z)) :=
  let n := length rows in
  let G := tab 0%Z n n (of_rows 0%Z rows) in
  (qrows n (EBC_spec n G), qlist n (BC_spec n G), to_rows n n (dist_spec n G)).
