(* Model/EffectLang.v — a tiny effect language for the random-number discipline of Python
   function bodies (property C05), its semantics, a hand-written model of bct's [get_rng],
   and the static checker [seed_safe].  Definitions only; lemmas are in Proofs/EffectLang.v.

   WHAT IS ABSTRACTED.  A Python function body is reduced to the commands that can touch a random
   generator.  Everything else the function computes (array arithmetic, comparisons, loop bounds,
   parameters handed to [randint]/[permutation]) is NOT modelled as code: it is represented by an
   ORACLE [decide : list ev -> nat] that is consulted at every branch, every loop test and for
   the parameter of every draw.  The oracle sees the whole history so far (all draws obtained and
   all decisions taken, in order); in the theorems it is [D args] for an arbitrary [D] and
   arbitrary arguments [args].  This is the formal content of "results and control flow are a
   function of the arguments and of the draws obtained": two runs with the same arguments use the
   same oracle, and they may differ only through what the generators deliver.  The observable
   result of a run is its final history (draws + decisions) and its status.

   STATE.  A heap of generator objects [heap : nat -> gstate] (object 0 = numpy's process-global
   RandomState [np.random.mtrand._rand]; object 1 = the hidden instance behind Python's [random]
   module; object 2 = the ENVIRONMENT (clock, OS entropy, hash seed, address-space layout, contents of
   uninitialised memory) read by [NonDet]; objects >= 3 are RandomState instances: the caller's, or
   allocated by [get_rng]),
   an allocation counter, the history, a status.  The generator type, its step function
   [next : gstate -> param -> draw * gstate] and the seeding functions are Section variables:
   every theorem holds for ALL generators (Mersenne Twister is one instance), and
   [np.random.RandomState(seed)] is a FUNCTION of [seed] (same seed => same stream).

   Truncation semantics: [exec] is total; running out of fuel or raising stops the run and the
   state reached so far is returned (status OutOfFuel / Raised), so every theorem also covers
   every prefix of every run. *)
From Coq Require Import List String Bool Arith.
Import ListNotations.
Open Scope string_scope.

Definition var := string.
Definition fname := string.

(* what is passed as the seed of [get_rng(e)] / of a nested call [f(..., seed=e)] *)
Inductive sexp :=
| ESeed                (* the function's own [seed] parameter, as received *)
| EVar (x : var)       (* a local name (bound earlier to an rng object) *)
| ENone                (* literally None / the argument is omitted *)
| EDrawn (x : var)     (* an integer obtained from values drawn earlier from the rng held by x
                          (e.g. [int(perm_seeds[u])] with [perm_seeds = x.randint(.., size=k)]):
                          a function of the arguments and of the draws so far *)
| EComputed            (* an integer computed from the arguments alone ([seed = u]), mentioning neither the
                          raw seed nor an rng object *)
| EOther.              (* any other expression *)

(* seeds that make the callee start a FRESH generator from a number that is itself a function of
   the arguments and of the history: the callee runs on a sub-stream *)
Definition derived (e : sexp) : bool :=
  match e with EDrawn _ | EComputed => true | _ => false end.

Inductive cmd :=
| Skip
| GetRng (x : var) (e : sexp)    (* x = get_rng(e) *)
| DrawLocal (x : var)            (* x.randint(..) / x.permutation(..) / any other use of x *)
| DrawNpGlobal                   (* any use of np.random.* outside get_rng *)
| DrawPyGlobal                   (* any use of Python's random.* outside get_rng *)
| NonDet                         (* a value that is NOT a function of arguments, seed and generator states:
                                    time.*, os.urandom, uuid, id()/hash() of str, iteration order of a set of
                                    str, np.empty read before written, zero-argument rng.seed(): a read of the
                                    ENVIRONMENT (heap object 2).  Always rejected. *)
| Call (f : fname) (e : sexp)    (* call of another bct function, passing e as its seed *)
| Seq (a b : cmd)
| Choice (a b : cmd)
| Loop (a : cmd).

(* Declared summary of a function, CHECKED (not trusted) by [seed_safe]:
   Seeded = has a [seed] parameter, may use the generator derived from it;
   Pure   = touches no generator at all (may therefore be called without a seed). *)
Inductive kind := Seeded | Pure.
Definition program := list (fname * (kind * cmd)).

Fixpoint lookup (P : program) (f : fname) : option (kind * cmd) :=
  match P with
  | [] => None
  | (g, kc) :: P' => if String.eqb f g then Some kc else lookup P' f
  end.

(* ------------------------------------------------------------------ the checker *)
(* abstract state: (has the raw seed been consumed?, names known to hold THE rng object) *)
Definition astate := (bool * list var)%type.
Definition mem (x : var) (B : list var) : bool := existsb (String.eqb x) B.
Definition inter (B1 B2 : list var) : list var := filter (fun x => mem x B2) B1.

Fixpoint check (P : program) (c : cmd) (a : astate) : option astate :=
  match c with
  | Skip => Some a
  | GetRng x ESeed => if fst a then None else Some (true, x :: snd a)   (* the raw seed is used at most once *)
  | GetRng x (EVar y) => if mem y (snd a) then Some (fst a, x :: snd a) else None
  | GetRng _ _ => None
  | DrawLocal x => if mem x (snd a) then Some a else None
  | DrawNpGlobal => None
  | DrawPyGlobal => None
  | NonDet => None
  | Call f ESeed =>
      if fst a then None else match lookup P f with Some _ => Some (true, snd a) | None => None end
  | Call f (EVar y) =>
      if mem y (snd a) then match lookup P f with Some _ => Some a | None => None end else None
  | Call f ENone => match lookup P f with Some (Pure, _) => Some a | _ => None end
  | Call f (EDrawn y) =>            (* a sub-stream seeded by numbers drawn from THE rng: the callee starts a fresh generator *)
      if mem y (snd a) then match lookup P f with Some _ => Some a | None => None end else None
  | Call f EComputed =>             (* only while the raw seed is still unused (never in a Pure body, whose start state is (true, [])) *)
      if fst a then None else match lookup P f with Some _ => Some a | None => None end
  | Call f EOther => None
  | Seq c1 c2 => match check P c1 a with Some a1 => check P c2 a1 | None => None end
  | Choice c1 c2 =>
      match check P c1 a, check P c2 a with
      | Some a1, Some a2 => Some (fst a1 || fst a2, inter (snd a1) (snd a2))
      | _, _ => None
      end
  | Loop c1 =>     (* the body may not consume the raw seed: re-seeding on every iteration *)
      match check P c1 a with
      | Some a1 => if Bool.eqb (fst a1) (fst a) then Some a else None
      | None => None
      end
  end.

Definition start (k : kind) : astate := match k with Seeded => (false, []) | Pure => (true, []) end.

Definition seed_safe (P : program) (f : fname) : bool :=
  match lookup P f with
  | Some (k, c) => match check P c (start k) with Some _ => true | None => false end
  | None => false
  end.

Definition prog_safe (P : program) : bool := forallb (seed_safe P) (map fst P).

(* ------------------------------------------------------------------ semantics *)
Inductive value :=
| VNone                (* None *)
| VMod                 (* the module np.random itself ([seed == np.random]) *)
| VInt (s : nat)       (* a hashable seed (coded as a number) *)
| VObj (o : nat)       (* a RandomState instance: heap object o *)
| VBad.                (* unbound name / any other object *)
Inductive stat := Running | Raised | OutOfFuel.
Inductive ev := EDraw (v : nat) | EDec (d : nat).

Section Semantics.
Variable gstate : Type.                              (* state of one generator *)
Variable next : gstate -> nat -> nat * gstate.       (* one draw with a parameter *)
Variable rs_new : nat -> option gstate.              (* np.random.RandomState(seed); None = ValueError *)
Variable py_fallback : nat -> nat.                   (* random.Random(seed).randint(0, 2**32-1): LOCAL instance, a function of seed *)
Variable rs_new32 : nat -> gstate.                   (* RandomState(n) for n in [0, 2**32-1]: cannot raise *)
Variable decide : list ev -> nat.                    (* the oracle (see header) *)
Variable P : program.

Record state := mkState { heap : nat -> gstate; nxt : nat; hist : list ev; status : stat }.
Record frame := mkFrame { seedv : value; env : var -> value }.

(* the stream of a freshly seeded generator: both non-trivial branches of get_rng *)
Definition mk (s : nat) : gstate :=
  match rs_new s with                                (*  try: rstate = np.random.RandomState(seed)        *)
  | Some g => g
  | None => rs_new32 (py_fallback s)                 (*  except ValueError: RandomState(random.Random(seed).randint(0, 2**32-1)) *)
  end.

Definition upd (h : nat -> gstate) (o : nat) (g : gstate) : nat -> gstate :=
  fun i => if Nat.eqb i o then g else h i.
Definition set_status (s : stat) (st : state) : state := mkState (heap st) (nxt st) (hist st) s.
Definition record (e : ev) (st : state) : state := mkState (heap st) (nxt st) (e :: hist st) (status st).
Definition stop (st : state) : state :=
  match status st with Running => set_status OutOfFuel st | _ => st end.

(* bct/utils/miscellaneous_utilities.py get_rng, branch by branch *)
Definition get_rng (v : value) (st : state) : value * state :=
  match v with
  | VNone | VMod => (VObj 0, st)                     (* if seed is None or seed == np.random: return np.random.mtrand._rand *)
  | VObj o => (VObj o, st)                           (* elif isinstance(seed, np.random.RandomState): return seed *)
  | VInt s => (VObj (nxt st),                        (* fresh instance seeded with [seed] (see mk) *)
               mkState (upd (heap st) (nxt st) (mk s)) (S (nxt st)) (hist st) (status st))
  | VBad => (VBad, set_status Raised st)             (* anything else: the constructor raises *)
  end.

Definition draw (v : value) (st : state) : state :=
  match v with
  | VObj o =>
      let p := decide (hist st) in
      let xg := next (heap st o) p in
      mkState (upd (heap st) o (snd xg)) (nxt st) (EDraw (fst xg) :: EDec p :: hist st) (status st)
  | _ => set_status Raised st                        (* AttributeError / NameError *)
  end.

Definition eval (e : sexp) (fr : frame) (st : state) : value :=
  match e with
  | ESeed => seedv fr
  | EVar x => env fr x
  | ENone => VNone
  | EDrawn _ => VInt (decide (hist st))              (* an integer that is a function of arguments and draws so far *)
  | EComputed => VInt (decide (hist st))
  | EOther => VInt (decide (hist st))                (* some seed computed from arguments and draws *)
  end.

Definition bind (x : var) (v : value) (fr : frame) : frame :=
  mkFrame (seedv fr) (fun y => if String.eqb y x then v else env fr y).
Definition new_frame (v : value) : frame := mkFrame v (fun _ => VBad).

Fixpoint exec (fuel : nat) (c : cmd) (fr : frame) (st : state) {struct fuel} : frame * state :=
  match fuel with
  | 0 => (fr, stop st)
  | S k =>
    match status st with
    | Running =>
      match c with
      | Skip => (fr, st)
      | GetRng x e => let vs := get_rng (eval e fr st) st in (bind x (fst vs) fr, snd vs)
      | DrawLocal x => (fr, draw (env fr x) st)
      | DrawNpGlobal => (fr, draw (VObj 0) st)
      | DrawPyGlobal => (fr, draw (VObj 1) st)
      | NonDet => (fr, draw (VObj 2) st)
      | Call f e =>
          match lookup P f with
          | Some (_, body) => (fr, snd (exec k body (new_frame (eval e fr st)) st))
          | None => (fr, set_status Raised st)
          end
      | Seq a b => let r := exec k a fr st in exec k b (fst r) (snd r)
      | Choice a b =>
          let d := decide (hist st) in
          let st0 := record (EDec d) st in
          if Nat.eqb d 0 then exec k a fr st0 else exec k b fr st0
      | Loop a =>
          let d := decide (hist st) in
          let st0 := record (EDec d) st in
          if Nat.eqb d 0 then (fr, st0)
          else let r := exec k a fr st0 in exec k (Loop a) (fst r) (snd r)
      end
    | _ => (fr, st)
    end
  end.

(* one top-level call  f(args, seed=v)  from state st *)
Definition run_fn (fuel : nat) (f : fname) (v : value) (st : state) : state :=
  match lookup P f with
  | Some (_, body) => snd (exec fuel body (new_frame v) st)
  | None => set_status Raised st
  end.

Definition observable (st : state) : list ev * stat := (hist st, status st).

(* ------------------------------------------------------------------ reference machine
   The SPECIFICATION of a disciplined function: the same control structure run against ONE
   stream [ag], with no heap, no names, no seed.  [exec] of a checked program refines it
   (Proofs/EffectLang.v, exec_refines); all four clauses of C05 follow from that.  The one place where a
   second stream appears is a call whose seed is [derived]: the callee runs on the stream of
   RandomState(n), n a function of the history, and the caller's stream is handed back untouched. *)
Record amach := mkA { ag : gstate; ahist : list ev; astatus : stat }.
Definition astop (m : amach) : amach :=
  match astatus m with Running => mkA (ag m) (ahist m) OutOfFuel | _ => m end.
Definition arecord (e : ev) (m : amach) : amach := mkA (ag m) (e :: ahist m) (astatus m).
Definition adraw (m : amach) : amach :=
  let p := decide (ahist m) in
  let xg := next (ag m) p in
  mkA (snd xg) (EDraw (fst xg) :: EDec p :: ahist m) (astatus m).

Fixpoint aexec (fuel : nat) (c : cmd) (m : amach) {struct fuel} : amach :=
  match fuel with
  | 0 => astop m
  | S k =>
    match astatus m with
    | Running =>
      match c with
      | Skip => m
      | GetRng _ _ => m
      | DrawLocal _ => adraw m
      | DrawNpGlobal => adraw m
      | DrawPyGlobal => adraw m
      | NonDet => adraw m
      | Call f e =>
          match lookup P f with
          | Some (_, body) =>
              if derived e then      (* sub-stream: the callee runs on RandomState(number computed from the history); the caller's stream is not consumed *)
                let m1 := aexec k body (mkA (mk (decide (ahist m))) (ahist m) (astatus m)) in
                mkA (ag m) (ahist m1) (astatus m1)
              else aexec k body m
          | None => mkA (ag m) (ahist m) Raised
          end
      | Seq a b => aexec k b (aexec k a m)
      | Choice a b =>
          let d := decide (ahist m) in
          let m0 := arecord (EDec d) m in
          if Nat.eqb d 0 then aexec k a m0 else aexec k b m0
      | Loop a =>
          let d := decide (ahist m) in
          let m0 := arecord (EDec d) m in
          if Nat.eqb d 0 then m0 else aexec k (Loop a) (aexec k a m0)
      end
    | _ => m
    end
  end.

(* the stream a seed value denotes in a state: what get_rng(seed) would hand out *)
Definition stream_of (v : value) (st : state) : gstate :=
  match v with
  | VNone | VMod => heap st 0
  | VObj o => heap st o
  | VInt s => mk s
  | VBad => heap st 0
  end.

End Semantics.

Arguments heap {gstate} _ _.
Arguments nxt {gstate} _.
Arguments hist {gstate} _.
Arguments status {gstate} _.
Arguments mkState {gstate} _ _ _ _.
Arguments ag {gstate} _.
Arguments ahist {gstate} _.
Arguments astatus {gstate} _.
Arguments mkA {gstate} _ _ _.
Arguments observable {gstate} _.
