(* Model/Walks.v — bct/algorithms/distance.py findwalks, as the code is now:
     CIJ = binarize(CIJ).astype(float)  (since f1bac33: the products are formed in float64 whatever the input dtype);
     Wq = zeros((n,n,n)); CIJpwr = CIJ; Wq[:,:,1] = CIJ
     for q in range(2, n): CIJpwr = dot(CIJpwr, CIJ); Wq[:,:,q] = CIJpwr
     twalk = sum(Wq); wlq = sum(sum(Wq,0),0)
   over Z; plus the inductive definition of walks and their exhaustive enumeration.  Definitions only. *)
From Coq Require Import ZArith List Arith Bool Lia.
From BCT Require Import Base.Mat Base.ListX.
Import ListNotations.
Open Scope Z_scope.

Definition zerosZ : mat Z := fun _ _ => 0.
Definition eyeZ : mat Z := fun i j => if Nat.eqb i j then 1 else 0.
Definition binz (A : mat Z) : mat Z := fun i j => if Z.eqb (A i j) 0 then 0 else 1.     (* binarize *)
Definition mmulZ (n : nat) (A B : mat Z) : mat Z := fun i j => sumn (fun k => A i k * B k j) n.   (* np.dot *)

(* A^q with the multiplication order of the code: A^(q+1) = A^q . A *)
Fixpoint mpowZ (n : nat) (A : mat Z) (q : nat) : mat Z :=
  match q with O => eyeZ | S q' => mmulZ n (mpowZ n A q') A end.

(* the loop: [todo] iterations remain, the next index written is q *)
Fixpoint fw_loop (n : nat) (C : mat Z) (todo q : nat) (P : mat Z) (Wq : nat -> mat Z) : nat -> mat Z :=
  match todo with
  | O => Wq
  | S t =>
    let P' := tab 0 n n (mmulZ n P C) in                       (* CIJpwr = np.dot(CIJpwr, CIJ) *)
    fw_loop n C t (S q) P' (fun q' => if Nat.eqb q' q then P' else Wq q')    (* Wq[:, :, q] = CIJpwr *)
  end.

(* None = IndexError of `Wq[:, :, 1] = CIJ` when n < 2 *)
Definition findwalks (n : nat) (A : mat Z) : option (nat -> mat Z) :=
  if Nat.ltb n 2 then None else
  let C := tab 0 n n (binz A) in
  let Wq0 : nat -> mat Z := fun q => if Nat.eqb q 1 then C else zerosZ in
  Some (fw_loop n C (n - 2) 2 C Wq0).

Definition wlq (n : nat) (Wq : nat -> mat Z) (q : nat) : Z := sum2 (Wq q) n.
Definition twalk (n : nat) (Wq : nat -> mat Z) : Z := sumn (wlq n Wq) n.

(* ---------------- size of the counts (the code stores them in a float64 array: exact below 2^53) ---------------- *)
Definition indeg (n : nat) (A : mat Z) (j : nat) : Z := sumn (fun k => binz A k j) n.
Definition maxindeg (n : nat) (A : mat Z) : Z := fold_right Z.max 0 (map (indeg n A) (seq 0 n)).
(* n^2 * (1 + D + ... + D^(n-1)): a bound of twalk, hence of every entry and of every partial sum *)
Definition fw_bound (n : nat) (D : Z) : Z := Z.of_nat n * Z.of_nat n * sumn (fun q => D ^ Z.of_nat q) n.
Definition two53 : Z := 2 ^ 53.
(* every integer the routine forms is a sum of non-negative counts and is at most twalk *)
Definition fw_exact (n : nat) (Wq : nat -> mat Z) : bool := Z.ltb (twalk n Wq) two53.

(* ---------------- walks ---------------- *)
(* [walk n A i j w]: w is the node sequence of a walk from i to j in the graph of the nonzero entries of A *)
Inductive walk (n : nat) (A : mat Z) : nat -> nat -> list nat -> Prop :=
| walk_one i : (i < n)%nat -> walk n A i i [i]
| walk_snoc i k j w : walk n A i k w -> (j < n)%nat -> A k j <> 0 -> walk n A i j (w ++ [j]).

(* all walks with q steps from i to j *)
Fixpoint walks (n : nat) (A : mat Z) (q i j : nat) : list (list nat) :=
  match q with
  | O => if Nat.eqb i j then [[i]] else []
  | S q' => flat_map (fun k => if Z.eqb (A k j) 0 then [] else map (fun w => w ++ [j]) (walks n A q' i k)) (seq 0 n)
  end.

(* ---------------- executable interface ---------------- *)
Definition run_findwalks (rows : list (list Z)) : option (list (list (list Z)) * Z * list Z) :=
  let n := length rows in
  match findwalks n (of_rows 0 rows) with
  | None => None
  | Some Wq => Some (map (fun q => to_rows n n (Wq q)) (seq 0 n), twalk n Wq, map (wlq n Wq) (seq 0 n))
  end.
(* the same with the two exactness indicators: (all of the output is below 2^53, the a-priori bound is below 2^53) *)
Definition run_findwalks_x (rows : list (list Z))
  : option (list (list (list Z)) * Z * list Z * (bool * bool)) :=
  let n := length rows in let A := of_rows 0 rows in
  match findwalks n A with
  | None => None
  | Some Wq0 =>
    let Wl := map (fun q => to_rows n n (Wq0 q)) (seq 0 n) in
    let Wq : nat -> mat Z := fun q => of_rows 0 (nth q Wl []) in
    Some (Wl, twalk n Wq, map (wlq n Wq) (seq 0 n),
          (fw_exact n Wq, Z.ltb (fw_bound n (maxindeg n A)) two53))
  end.
(* number of enumerated walks, for the cross-check against the matrix power *)
Definition run_walkcount (rows : list (list Z)) (q : nat) : list (list nat) :=
  let n := length rows in let A := of_rows 0 rows in
  map (fun i => map (fun j => length (walks n A q i j)) (seq 0 n)) (seq 0 n).
