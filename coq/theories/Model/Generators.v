(* Model/Generators.v — bct/algorithms/reference.py synthetic generators, as the code is NOW:
   makerandCIJ_dir, makerandCIJ_und, makeringlatticeCIJ, maketoeplitzCIJ, makefractalCIJ, makeevenCIJ,
   makerandCIJdegreesfixed.  Matrices over Z (0/1), random draws are explicit arguments
   (rng.permutation(m) = a list [rp]; rng.randint(k) = a list of naturals; rng.random_sample((n,n)) = a Q matrix).
   Definitions only. *)
From Coq Require Import ZArith QArith List Arith Bool Lia.
From BCT Require Import Base.Mat Base.ListX.
Import ListNotations.
Open Scope Z_scope.

Definition cell := (nat * nat)%type.
Definition zeros : mat Z := fun _ _ => 0.
Definition eye : mat Z := fun i j => if Nat.eqb i j then 1 else 0.
Definition truthy (z : Z) : bool := negb (Z.eqb z 0).

(* M.flat[L] = v  /  for c in L: M[c] = v *)
Definition set_cells (M : mat Z) (L : list cell) (v : Z) : mat Z :=
  fun i j => if cmem (i, j) L then v else M i j.

(* np.where(M) in row-major order *)
Definition where_nz (n : nat) (M : mat Z) : list cell :=
  filter (fun c => truthy (M (fst c) (snd c))) (cells n).

(* ix[rp][:k] *)
Definition pick (ix : list cell) (rp : list nat) (k : nat) : list cell :=
  map (fun t => nth t ix (O, O)) (firstn k rp).

(* ---------------- makerandCIJ_dir / makerandCIJ_und ---------------- *)
(* ix, = np.where(np.logical_not(np.eye(n)).flat) *)
Definition offdiag (n : nat) : list cell := filter (fun c => negb (Nat.eqb (fst c) (snd c))) (cells n).
(* ix, = np.where(np.triu(np.logical_not(np.eye(n))).flat) *)
Definition upper (n : nat) : list cell := filter (fun c => Nat.ltb (fst c) (snd c)) (cells n).

Definition makerand_dir (n k : nat) (rp : list nat) : mat Z :=
  set_cells zeros (pick (offdiag n) rp k) 1.

Definition makerand_und (n k : nat) (rp : list nat) : mat Z :=
  let C := set_cells zeros (pick (upper n) rp k) 1 in
  fun i j => C i j + C j i.                       (* CIJ = CIJ + CIJ.T *)

(* ---------------- makeringlatticeCIJ ---------------- *)
(* np.triu(CIJ1, d) - np.triu(CIJ1, d + 1) : ones exactly where j - i = d *)
Definition band (d : nat) : mat Z := fun i j => if Nat.eqb j (i + d) then 1 else 0.

(* one pass of the loop body for the current value of [count]:
   seq[count] = count+1, seq2[count] = n-1-count; dCIJ + dCIJ.T + dCIJ2 + dCIJ2.T; dCIJ[dCIJ > 1] = 1 *)
Definition dband (n count : nat) : mat Z :=
  let d := S count in
  let d2 := (n - 1 - count)%nat in
  let s := fun i j => band d i j + band d j i + band d2 i j + band d2 j i in
  fun i j => if 1 <? s i j then 1 else s i j.

Definition madd (n : nat) (A B : mat Z) : mat Z := tab 0 n n (fun i j => A i j + B i j).

(* while kk < k: ...; returns (CIJ, last dCIJ, kk); None = IndexError of seq[count] (or fuel) *)
Fixpoint ring_fill (fuel n : nat) (k : Z) (CIJ dC : mat Z) (kk : Z) (count : nat)
  : option (mat Z * mat Z * Z) :=
  if kk <? k then
    match fuel with
    | O => None
    | S f =>
      if Nat.ltb count (n - 1) then
        let dC' := dband n count in
        let CIJ' := madd n CIJ dC' in
        ring_fill f n k CIJ' dC' (sum2 CIJ' n) (S count)
      else None
    end
  else Some (CIJ, dC, kk).

(* i, j = np.where(dCIJ); rp = permutation(size(i)); for ii in range(overby): CIJ[i[rp[ii]], j[rp[ii]]] = 0 *)
Definition ring_remove (n : nat) (CIJ dC : mat Z) (overby : nat) (rp : list nat) : mat Z :=
  set_cells CIJ (pick (where_nz n dC) rp overby) 0.

Definition ringlattice (n k : nat) (rp : list nat) : option (mat Z) :=
  match ring_fill n n (Z.of_nat k) zeros zeros 0 O with
  | None => None
  | Some (CIJ, dC, kk) => Some (ring_remove n CIJ dC (Z.to_nat (kk - Z.of_nat k)) rp)
  end.

(* ring distance between two nodes of an n-ring *)
Definition absdiff (i j : nat) : nat := ((i - j) + (j - i))%nat.
Definition ringdist (n i j : nat) : nat := Nat.min (absdiff i j) (n - absdiff i j).

(* ---------------- maketoeplitzCIJ ---------------- *)
(* [template] is the scaled Gaussian Toeplitz profile the code computes with scipy (abstracted: ANY matrix);
   the stream holds the successive rng.random_sample((n,n)) arrays *)
Definition qlt (a b : Q) : bool := negb (Qle_bool b a).
Definition sample_lt (n : nat) (X T : mat Q) : mat Z := tab 0 n n (fun i j => if qlt (X i j) (T i j) then 1 else 0).

Fixpoint toeplitz_loop (n : nat) (k : Z) (template : mat Q) (CIJ : mat Z) (itr : Z) (stream : list (mat Q))
  : option (mat Z) :=
  if sum2 CIJ n =? k then Some CIJ else          (* while np.sum(CIJ) != k *)
  match stream with
  | [] => None
  | X :: rest =>
    let CIJ' := sample_lt n X template in         (* CIJ = (rng.random_sample((n, n)) < template) *)
    if 10000 <? itr + 1 then None                 (* itr += 1; if itr > 10000: raise *)
    else toeplitz_loop n k template CIJ' (itr + 1) rest
  end.

Definition toeplitz (n k : nat) (template : mat Q) (stream : list (mat Q)) : option (mat Z) :=
  toeplitz_loop n (Z.of_nat k) template zeros 0 stream.

(* ---------------- hierarchical template shared by makefractalCIJ / makeevenCIJ ---------------- *)
(* one iteration: s = 2**(lvl+1); CIJ = ones; CIJ[grp1,grp1] = t; CIJ[grp2,grp2] = t; CIJ += 1 *)
Definition tstep (t : mat Z) (s : nat) : mat Z :=
  let h := (s / 2)%nat in
  fun i j =>
    (if (Nat.ltb i h && Nat.ltb j h)%bool then t i j
     else if (Nat.leb h i && Nat.leb h j)%bool then t (i - h)%nat (j - h)%nat
     else 1) + 1.

(* value of [t] after the iterations lvl = 1 .. l  (t = 2*ones((2,2)) initially) *)
Fixpoint tloop (l : nat) : mat Z :=
  match l with
  | O => fun _ _ => 2
  | S l' => let s := (2 ^ (S l))%nat in tab 0 s s (tstep (tloop l') s)
  end.

(* CIJ -= ones + mx_lvl * eye   (after the loop; mx_lvl >= 2 or CIJ is unbound) *)
Definition template (mx : nat) : mat Z :=
  fun i j => tloop (mx - 1) i j - (1 + Z.of_nat mx * eye i j).

(* makefractalCIJ(mx_lvl, E, sz_cl): [pw e] stands for the float 1/E**e (oracle; theorems assume pw 0 == 1),
   [X] is rng.random_sample((n,n)).  Returns (CIJ, k). *)
Definition fractal_ee (mx : nat) (sz_cl : Z) : mat Z :=
  fun i j => let e := Z.of_nat mx - template mx i j - (sz_cl - 1) in if 0 <? e then e else 0.

Definition fractal (mx : nat) (pw : nat -> Q) (sz_cl : Z) (X : mat Q) : option (mat Z * Z) :=
  if Nat.ltb mx 2 then None else
  let n := (2 ^ mx)%nat in
  let prob : mat Q := fun i j => (pw (Z.to_nat (fractal_ee mx sz_cl i j)) * (if Nat.eqb i j then 0 else 1))%Q in
  let CIJ := sample_lt n X prob in                (* prob > random_sample *)
  Some (CIJ, sum2 CIJ n).

(* makeevenCIJ(n, k, sz_cl) *)
Definition even_clusters (mx : nat) (sz_cl : Z) : mat Z :=
  fun i j => if Z.of_nat mx - (sz_cl - 1) <=? template mx i j then 1 else 0.

Definition even (n k : nat) (sz_cl : Z) (rp : list nat) : option (mat Z) :=
  let mx := Nat.log2 n in
  if Nat.ltb mx 2 then None else
  let n' := (2 ^ mx)%nat in
  let CIJp := tab 0 n' n' (even_clusters mx sz_cl) in
  let nc := sum2 CIJp n' in
  if Z.of_nat k <? nc then Some CIJp                (* rem_k < 0: clusters only *)
  else
    let free := filter (fun c => Z.eqb (CIJp (fst c) (snd c) + eye (fst c) (snd c)) 0) (cells n') in
    Some (set_cells CIJp (pick free rp (Z.to_nat (Z.of_nat k - nc))) 1).

(* ---------------- makerandCIJdegreesfixed ---------------- *)
(* in_inv / out_inv: np.zeros(k); arr[pos:pos+deg[i]] = i  (slices clamp at k) *)
Definition stubs (n : nat) (deg : list nat) (k : nat) : list nat :=
  let l := flat_map (fun i => repeat i (nth i deg O)) (seq 0 n) in
  firstn k l ++ repeat O (k - length l).

Inductive outcome (A : Type) : Type := Done (a : A) | Raised | NoFuel.
Arguments Done {A} a. Arguments Raised {A}. Arguments NoFuel {A}.

(* t = e1[i]; e1[i] = e1[s]; e1[s] = t *)
Definition swap_e1 (k : nat) (e1 : vec nat) (i s : nat) : vec nat :=
  tabv O k (vupd (vupd e1 i (e1 s)) s (e1 i)).

(* the `while True` repair loop for edge i (the inner `while switch in tried` redraw is the [nmem] branch:
   it re-enters with [tried] unchanged, for which the length test gives the same answer as before) *)
Fixpoint repair (n k i : nat) (e0 : vec nat) (CIJ : mat Z) (e1 : vec nat) (tried : list nat) (stream : list nat)
  : outcome (mat Z * vec nat * list nat) :=
  if Nat.eqb (length tried) k then Raised else
  match stream with
  | [] => NoFuel
  | x :: rest =>
    let s := (x mod k)%nat in
    if nmem s tried then repair n k i e0 CIJ e1 tried rest else
    if negb (truthy (CIJ (e0 i) (e1 s)) || truthy (CIJ (e0 s) (e1 i))) then
      let C1 := upd CIJ (e0 i) (e1 s) 1 in
      let C2 := if Nat.ltb s i then upd (upd C1 (e0 s) (e1 s) 0) (e0 s) (e1 i) 1 else C1 in
      Done (tab 0 n n C2, swap_e1 k e1 i s, rest)
    else repair n k i e0 CIJ e1 (s :: tried) rest
  end.

(* for i in range(k) — [todo] iterations remain, starting at i *)
Fixpoint place (todo n k i : nat) (e0 : vec nat) (CIJ : mat Z) (e1 : vec nat) (stream : list nat)
  : outcome (mat Z * vec nat * list nat) :=
  match todo with
  | O => Done (CIJ, e1, stream)
  | S t =>
    if truthy (CIJ (e0 i) (e1 i)) then
      match repair n k i e0 CIJ e1 [] stream with
      | Done (C', e1', rest) => place t n k (S i) e0 C' e1' rest
      | Raised => Raised
      | NoFuel => NoFuel
      end
    else place t n k (S i) e0 (tab 0 n n (upd CIJ (e0 i) (e1 i) 1)) e1 stream
  end.

Definition degfixed (inv outv : list nat) (rp : list nat) (stream : list nat) : outcome (mat Z) :=
  let n := length inv in
  let k := fold_right Nat.add O inv in
  let in_inv := stubs n inv k in
  let out_inv := stubs n outv k in
  let e0 := of_list O out_inv in
  let e1 := of_list O (map (fun t => nth t in_inv O) rp) in     (* in_inv[rng.permutation(k)] *)
  match place k n k O e0 eye e1 stream with
  | Done (C, _, _) => Done (fun i j => C i j - eye i j)           (* CIJ -= np.eye(n) *)
  | Raised => Raised
  | NoFuel => NoFuel
  end.

(* ---------------- executable interface ---------------- *)
Definition rows (n : nat) (M : mat Z) : list (list Z) := to_rows n n M.
Definition qmat (l : list (list Q)) : mat Q := of_rows 0%Q l.

Definition run_rand_dir (n k : nat) (rp : list nat) := rows n (makerand_dir n k rp).
Definition run_rand_und (n k : nat) (rp : list nat) := rows n (makerand_und n k rp).
Definition run_ring (n k : nat) (rp : list nat) := option_map (rows n) (ringlattice n k rp).
Definition run_toeplitz (n k : nat) (tpl : list (list Q)) (stream : list (list (list Q))) :=
  option_map (rows n) (toeplitz n k (qmat tpl) (map qmat stream)).
Definition run_fractal (mx : nat) (pw : list Q) (sz_cl : Z) (X : list (list Q)) :=
  option_map (fun r => (rows (2 ^ mx) (fst r), snd r)) (fractal mx (of_list 0%Q pw) sz_cl (qmat X)).
Definition run_even (n k : nat) (sz_cl : Z) (rp : list nat) :=
  option_map (rows (2 ^ Nat.log2 n)) (even n k sz_cl rp).
Definition run_degfixed (inv outv rp stream : list nat) : nat * list (list Z) :=
  match degfixed inv outv rp stream with
  | Done C => (O, rows (length inv) C)
  | Raised => (1%nat, [])
  | NoFuel => (2%nat, [])
  end.
Definition run_template (mx : nat) := rows (2 ^ mx) (template mx).
