(* Model/Components.v — bct/algorithms/clustering.py: get_components, number_of_components.
   Statement-by-statement model of the code (python sets = duplicate-free lists; only
   membership and len() are ever used on them, so the iteration order of a python set never
   matters).  Weights are Z: the code only tests `A == A.T` and `!= 0`.  Definitions only. *)
From Coq Require Import ZArith List Arith Bool Lia.
From BCT Require Import Base.Mat Base.ListX.
Import ListNotations.
Local Open Scope nat_scope.

Definition nset := list nat.

(* s.isdisjoint(t) ; s.union(t) *)
Definition disjointb (s t : nset) : bool := forallb (fun x => negb (nmem x t)) s.
Definition union (s t : nset) : nset := s ++ filter (fun x => negb (nmem x s)) t.

(* the python set literal {u,v} *)
Definition mk_item (u v : nat) : nset := if Nat.eqb u v then [u] else [u; v].

(* if not np.all(A == A.T): raise *)
Definition symmetricb (n : nat) (A : mat Z) : bool :=
  forallb (fun c => Z.eqb (A (fst c) (snd c)) (A (snd c) (fst c))) (cells n).

(* A = binarize(A, copy=True)  :  A[A != 0] = 1 ;  np.fill_diagonal(A, 1) *)
Definition binarizeZ (A : mat Z) : mat Z := fun i j => if Z.eqb (A i j) 0 then A i j else 1%Z.
Definition fill_diag1 (A : mat Z) : mat Z := fun i j => if Nat.eqb i j then 1%Z else A i j.

(* edge_map = [{u,v} for u in range(n) for v in range(n) if A[u,v] == 1]  (row-major) *)
Definition edge_cells (n : nat) (B : mat Z) : list (nat * nat) :=
  filter (fun c => Z.eqb (B (fst c) (snd c)) 1) (cells n).

(* inner loop over union_sets for one item:
     temp = []
     for s in union_sets:
         if not s.isdisjoint(item): item = s.union(item)
         else: temp.append(s)
   returns (final item, temp) *)
Fixpoint absorb (item : nset) (sets : list nset) : nset * list nset :=
  match sets with
  | [] => (item, [])
  | s :: rest =>
      if disjointb s item then let '(it, tmp) := absorb item rest in (it, s :: tmp)
      else absorb (union s item) rest
  end.

(* temp.append(item); union_sets = temp *)
Definition step (sets : list nset) (e : nat * nat) : list nset :=
  let '(it, tmp) := absorb (mk_item (fst e) (snd e)) sets in tmp ++ [it].

Definition union_sets (edges : list (nat * nat)) : list nset := fold_left step edges [].

(* [i+1 for i in range(len(union_sets)) if v in union_sets[i]]  (k = index of the head) *)
Fixpoint labels_from (k : nat) (v : nat) (sets : list nset) : list nat :=
  match sets with
  | [] => []
  | s :: r => (if nmem v s then [S k] else []) ++ labels_from (S k) v r
  end.

(* comps = np.array([i+1 for v in range(n) for i in range(len(union_sets)) if v in union_sets[i]])
   comp_sizes = np.array([len(s) for s in union_sets]) *)
Definition comps_of (n : nat) (sets : list nset) : list nat :=
  flat_map (fun v => labels_from 0 v sets) (seq 0 n).
Definition sizes_of (sets : list nset) : list nat := map (@length nat) sets.

Definition gc_sets (n : nat) (A : mat Z) : list nset :=
  union_sets (edge_cells n (fill_diag1 (binarizeZ A))).

(* None = BCTParamError *)
Definition get_components (n : nat) (A : mat Z) : option (list nat * list nat) :=
  if symmetricb n A then
    let sets := gc_sets n A in Some (comps_of n sets, sizes_of sets)
  else None.

(* _, csizes = get_components(A); return len(csizes) *)
Definition number_of_components (n : nat) (A : mat Z) : option nat :=
  match get_components n A with
  | Some (_, sz) => Some (length sz)
  | None => None
  end.

(* ---------- specification vocabulary ---------- *)
(* u and w are joined by a path whose every hop is a nonzero entry between nodes < n *)
Inductive path (n : nat) (A : mat Z) : nat -> nat -> Prop :=
| path_refl : forall u, path n A u u
| path_step : forall u v w, u < n -> v < n -> A u v <> 0%Z -> path n A v w -> path n A u w.

Definition sym_on (n : nat) (A : mat Z) : Prop := forall i j, i < n -> j < n -> A i j = A j i.

(* number of nodes v < n whose label is l *)
Definition count_label (l : nat) (comps : list nat) : nat :=
  length (filter (Nat.eqb l) comps).

(* ---------- executable interface ---------- *)
Definition run_gc (rows : list (list Z)) : option (list nat * list nat) :=
  get_components (length rows) (of_rows 0%Z rows).
Definition run_noc (rows : list (list Z)) : option nat :=
  number_of_components (length rows) (of_rows 0%Z rows).
