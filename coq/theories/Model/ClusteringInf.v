(* Model/ClusteringInf.v — the per-node clustering routines of bct/algorithms/clustering.py, statement by statement
   INCLUDING the float quotient and the denominator masks added by the repair 366dab6 (C10, self-connections).
   Model/Clustering.v computes  cyc3 / CYC3  with Q's total division (x / 0 = 0).  Before 366dab6 that hid an inf of the
   code: a self-connection could make K(K-1) [- 2 diag(A^2)] vanish under a nonzero cyc3 (this model, then without the
   masks, returned None there and the two pairs wu/bu, bd/bu were refuted on the witness [[1,1],[1,0]]).  The code now
   overwrites a vanishing denominator with inf before dividing
       clustering_coef_bd / _wd :  CYC3[np.where(CYC3 == 0)] = np.inf
       clustering_coef_wu       :  K[np.where(K < 2)] = np.inf
   so the quotient is finite / nonzero-or-inf.  Here the last statement `C = cyc3 / CYC3` returns [option Q], None = a
   non-finite float; Proofs/ReduceSelfloop.v proves that None is NEVER returned (any matrix, any diagonal) and that the
   value is the one of Model/Clustering.v, whose total division stands in for the mask.
   clustering_coef_bu divides only under `if k >= 2` by k*k-k > 0: it stays [cc_bu].  Definitions only. *)
From Coq Require Import QArith Qabs List Arith Bool ZArith Lia.
From BCT Require Import Base.Mat Base.SumQ Model.Threshold Model.Clustering.
Import ListNotations.
Open Scope Q_scope.

(* finite / d as a float: nonzero / 0 = +-inf (None); finite / inf = 0 *)
Definition xdivo (c : Q) (d : xq) : option Q :=
  match d with Fin q => if Qeq_bool q 0 then None else Some (c / q) | PInf => Some 0 end.

(* CYC3[np.where(CYC3 == 0)] = np.inf *)
Definition xzinf (d : xq) : xq := match d with Fin q => if Qeq_bool q 0 then PInf else Fin q | PInf => PInf end.
(* K[np.where(K < 2)] = np.inf   (inf < 2 is False) *)
Definition xlt2inf (k : xq) : xq := match k with Fin q => if Qltb q 2 then PInf else Fin q | PInf => PInf end.

(* clustering_coef_bd (lines 128-137) *)
Definition cc_bd_o (n : nat) (A : mat Q) (i : nat) : option Q :=
  let S := madd A (mT A) in
  let K := rowsum n S i in
  let cyc3 := diag3 n S i / 2 in
  let K' := xmask cyc3 K in
  let CYC3 := xsub (xkk1 K') (2 * diag2 n A i) in
  let CYC3' := xzinf CYC3 in                       (* the mask of 366dab6 *)
  xdivo cyc3 CYC3'.

Section WithCbrt.
Variable cbrt : Q -> Q.

(* clustering_coef_wd (lines 199-208) *)
Definition cc_wd_o (n : nat) (W : mat Q) (i : nat) : option Q :=
  let A := mmap nzQ W in
  let S := madd (mmap cbrt W) (mmap cbrt (mT W)) in
  let K := rowsum n (madd A (mT A)) i in
  let cyc3 := diag3 n S i / 2 in
  let K' := xmask cyc3 K in
  let CYC3 := xsub (xkk1 K') (2 * diag2 n A i) in
  let CYC3' := xzinf CYC3 in                       (* the mask of 366dab6 *)
  xdivo cyc3 CYC3'.

(* clustering_coef_wu (lines 229-235) *)
Definition cc_wu_o (n : nat) (W : mat Q) (i : nat) : option Q :=
  let K := rowsum n (mmap nzQ W) i in
  let ws := mmap cbrt W in
  let cyc3 := diag3 n ws i in
  let K' := xmask cyc3 K in
  let K'' := xlt2inf K' in                         (* the mask of 366dab6 *)
  xdivo cyc3 (xkk1 K'').
End WithCbrt.

(* ---------- executable interface: which = 0 bd, 1 wd, 2 wu; None = inf in the returned vector (never, by cc_o_total) ---------- *)
Definition ovec (n : nat) (f : nat -> option Q) : list (option Q) := map (fun i => qopt (f i)) (seq 0 n).
Definition run_cc_o (rows : list (list Q)) (which : nat) : list (option Q) :=
  let n := length rows in
  match which with
  | O => ovec n (cc_bd_o n (inp rows))
  | S O => ovec n (cc_wd_o cuberoot_exact n (inp rows))
  | _ => ovec n (cc_wu_o cuberoot_exact n (inp rows))
  end.
