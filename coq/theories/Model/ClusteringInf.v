(* Model/ClusteringInf.v — the per-node clustering routines of bct/algorithms/clustering.py with the float
   quotient made VISIBLE (C10, self-connections).  Model/Clustering.v computes  cyc3 / CYC3  with Q's total
   division (x / 0 = 0), which is harmless on the domain of C09 (empty diagonal: a nonzero numerator forces a
   positive denominator, C09_no_division_by_zero) but hides what the code returns when a self-connection
   makes the denominator K(K-1) [- 2 diag(A^2)] vanish under a nonzero cyc3: the float quotient is then +-inf.
   Here the last statement `C = cyc3 / CYC3` returns [option Q], None = a non-finite float.  (0/0 cannot
   occur: where cyc3 == 0 the code has overwritten K with inf, and finite / inf = 0.)
   The statements before the quotient are, word for word, those of Model/Clustering.v.
   clustering_coef_bu divides only under `if k >= 2` by k*k-k > 0: it stays [cc_bu].  Definitions only. *)
From Coq Require Import QArith Qabs List Arith Bool ZArith Lia.
From BCT Require Import Base.Mat Base.SumQ Model.Threshold Model.Clustering.
Import ListNotations.
Open Scope Q_scope.

(* finite / d as a float: nonzero / 0 = +-inf (None); finite / inf = 0 *)
Definition xdivo (c : Q) (d : xq) : option Q :=
  match d with Fin q => if Qeq_bool q 0 then None else Some (c / q) | PInf => Some 0 end.

(* clustering_coef_bd (lines 128-135) *)
Definition cc_bd_o (n : nat) (A : mat Q) (i : nat) : option Q :=
  let S := madd A (mT A) in
  let K := rowsum n S i in
  let cyc3 := diag3 n S i / 2 in
  let K' := xmask cyc3 K in
  let CYC3 := xsub (xkk1 K') (2 * diag2 n A i) in
  xdivo cyc3 CYC3.

Section WithCbrt.
Variable cbrt : Q -> Q.

(* clustering_coef_wd (lines 197-205) *)
Definition cc_wd_o (n : nat) (W : mat Q) (i : nat) : option Q :=
  let A := mmap nzQ W in
  let S := madd (mmap cbrt W) (mmap cbrt (mT W)) in
  let K := rowsum n (madd A (mT A)) i in
  let cyc3 := diag3 n S i / 2 in
  let K' := xmask cyc3 K in
  let CYC3 := xsub (xkk1 K') (2 * diag2 n A i) in
  xdivo cyc3 CYC3.

(* clustering_coef_wu (lines 226-231) *)
Definition cc_wu_o (n : nat) (W : mat Q) (i : nat) : option Q :=
  let K := rowsum n (mmap nzQ W) i in
  let ws := mmap cbrt W in
  let cyc3 := diag3 n ws i in
  let K' := xmask cyc3 K in
  xdivo cyc3 (xkk1 K').
End WithCbrt.

(* ---------- executable interface: which = 0 bd, 1 wd, 2 wu; None = inf in the returned vector ---------- *)
Definition ovec (n : nat) (f : nat -> option Q) : list (option Q) := map (fun i => qopt (f i)) (seq 0 n).
Definition run_cc_o (rows : list (list Q)) (which : nat) : list (option Q) :=
  let n := length rows in
  match which with
  | O => ovec n (cc_bd_o n (inp rows))
  | S O => ovec n (cc_wd_o cuberoot_exact n (inp rows))
  | _ => ovec n (cc_wu_o cuberoot_exact n (inp rows))
  end.
