(* Model/RewireSpec.v — a data description ("swap table") of each rewiring routine, in the vocabulary the
   translator harness/translate_rewire.py extracts from the AST of bct/algorithms/reference.py on every run
   (Gen/RewireTable.v), and its link to the engine of Model/Rewire.v: the engine's swap IS the execution of the
   table's write list, its index patches and four-distinct test ARE the table's. *)
From Coq Require Import ZArith List Arith Bool QArith.
From BCT Require Import Base.Mat Base.ListX Model.Rewire.
Import ListNotations.
Open Scope Z_scope.

Inductive sym := SA | SB | SC | SD.
Definition sym_eqb (x y : sym) : bool :=
  match x, y with SA, SA | SB, SB | SC, SC | SD, SD => true | _, _ => false end.
Definition scell := (sym * sym)%type.
Definition scell_eqb (c d : scell) : bool := (sym_eqb (fst c) (fst d) && sym_eqb (snd c) (snd d))%bool.

(* R[x,y] = R[u,v]  |  R[x,y] = 0 *)
Definition swrite := (scell * option scell)%type.
Definition swrite_eqb (w1 w2 : swrite) : bool :=
  (scell_eqb (fst w1) (fst w2) &&
   match snd w1, snd w2 with
   | None, None => true
   | Some c, Some d => scell_eqb c d
   | _, _ => false
   end)%bool.

(* j[e1] = d : (array is j?, index is e1?, value) *)
Definition spatch := (bool * bool * sym)%type.
Definition spatch_eqb (p q : spatch) : bool :=
  (Bool.eqb (fst (fst p)) (fst (fst q)) && Bool.eqb (snd (fst p)) (snd (fst q)) && sym_eqb (snd p) (snd q))%bool.

(* a = i[e1] : (variable, (array is j?, index is e1?)) *)
Definition sread := (sym * (bool * bool))%type.
Definition sread_eqb (p q : sread) : bool :=
  (sym_eqb (fst p) (fst q) && Bool.eqb (fst (snd p)) (fst (snd q)) && Bool.eqb (snd (snd p)) (snd (snd q)))%bool.

Fixpoint list_eqb {A} (eqb : A -> A -> bool) (l1 l2 : list A) : bool :=
  match l1, l2 with
  | [], [] => true
  | x :: r1, y :: r2 => (eqb x y && list_eqb eqb r1 r2)%bool
  | _, _ => false
  end.

Record src_spec := mkspec {
  ss_el : elsrc;                 (* np.where(R) / np.where(np.tril(R)) / np.where(np.triu(A, 1)) *)
  ss_four : list scell;          (* the inequalities of the four-distinct test, as pairs *)
  ss_flip : list spatch;         (* the flip block ([] if absent): i[e2] = d; j[e2] = c *)
  ss_cond : list scell;          (* cells of R tested empty in the rewiring condition *)
  ss_writes : list swrite;       (* cell writes of the accepted swap, in source order *)
  ss_patches : list spatch;      (* edge-index patches after the swap *)
  ss_lattice : bool;             (* lattice condition present *)
  ss_conn : bool;                (* connectivity test present *)
  ss_mask : list scell;          (* cells of the mask B tested *)
  ss_latt : bool;                (* permute before / inverse-permute (argsort) after *)
  ss_reads : list sread;         (* the endpoint reads inside the selection loop: a = i[e1]; b = j[e1]; c = i[e2]; d = j[e2] *)
  ss_redraw : bool;              (* two draws bounded by the length of the edge list, then `while e1 == e2: e2 = rng.randint(k)` *)
  ss_halved : bool;              (* max_attempts = np.round(n*k / (n*(n-1)/2)) instead of np.round(n*k / (n*(n-1))) *)
  ss_loops : bool                (* `itr *= k`, `for it in range(itr)`, `att = 0`, `while att <= max_attempts`, `att += 1`
                                    (randomize_graph_partial_und: `while nswap < maxswap`), and no write to the matrix
                                    outside the accepted block *)
}.

Definition elsrc_eqb (x y : elsrc) : bool :=
  match x, y with ELall, ELall | ELtril, ELtril | ELtriu1, ELtriu1 => true | _, _ => false end.

Definition spec_eqb (s t : src_spec) : bool :=
  (elsrc_eqb (ss_el s) (ss_el t) && list_eqb scell_eqb (ss_four s) (ss_four t) &&
   list_eqb spatch_eqb (ss_flip s) (ss_flip t) && list_eqb scell_eqb (ss_cond s) (ss_cond t) &&
   list_eqb swrite_eqb (ss_writes s) (ss_writes t) && list_eqb spatch_eqb (ss_patches s) (ss_patches t) &&
   Bool.eqb (ss_lattice s) (ss_lattice t) && Bool.eqb (ss_conn s) (ss_conn t) &&
   list_eqb scell_eqb (ss_mask s) (ss_mask t) && Bool.eqb (ss_latt s) (ss_latt t) &&
   list_eqb sread_eqb (ss_reads s) (ss_reads t) && Bool.eqb (ss_redraw s) (ss_redraw t) &&
   Bool.eqb (ss_halved s) (ss_halved t) && Bool.eqb (ss_loops s) (ss_loops t))%bool.

(* ---------- what the engine implements ---------- *)
Definition writes_dir : list swrite :=
  [((SA, SD), Some (SA, SB)); ((SA, SB), None); ((SC, SB), Some (SC, SD)); ((SC, SD), None)].
Definition writes_und : list swrite :=
  [((SA, SD), Some (SA, SB)); ((SA, SB), None); ((SD, SA), Some (SB, SA)); ((SB, SA), None);
   ((SC, SB), Some (SC, SD)); ((SC, SD), None); ((SB, SC), Some (SD, SC)); ((SD, SC), None)].
Definition four_std : list scell := [(SA, SC); (SA, SD); (SB, SC); (SB, SD)].
Definition cond_std : list scell := [(SA, SD); (SC, SB)].
Definition patches_std : list spatch := [(true, true, SD); (true, false, SB)].       (* j[e1] = d; j[e2] = b *)
Definition flip_std : list spatch := [(false, false, SD); (true, false, SC)].        (* i[e2] = d; j[e2] = c *)

Definition reads_std : list sread :=                                                   (* a = i[e1]; b = j[e1]; c = i[e2]; d = j[e2] *)
  [(SA, (false, true)); (SB, (true, true)); (SC, (false, false)); (SD, (true, false))].
Definition mask_std : list scell := [(SA, SD); (SC, SB)].

Definition spec_of (r : routine) : src_spec :=
  mkspec (if is_und r then ELtril else ELall) four_std (if is_und r then flip_std else [])
         cond_std (if is_und r then writes_und else writes_dir) patches_std
         (is_latt r) (is_conn r) [] (is_latt r) reads_std true (is_latt r && is_und r) true.
Definition spec_partial_und : src_spec :=
  mkspec ELtriu1 four_std flip_std cond_std writes_und patches_std false false mask_std false reads_std true false true.

Definition all_routines : list routine :=
  [Randmio_dir; Randmio_dir_connected; Randmio_und; Randmio_und_connected;
   Latmio_dir; Latmio_dir_connected; Latmio_und; Latmio_und_connected].
Definition expected_table : list src_spec := map spec_of all_routines ++ [spec_partial_und].

(* ---------- executing a table entry ---------- *)
Definition env := sym -> nat.
Definition mkenv (a b c d : nat) : env := fun s => match s with SA => a | SB => b | SC => c | SD => d end.
Definition exec_write (r : env) (R : mat Z) (w : swrite) : mat Z :=
  let '((x, y), s) := w in
  upd R (r x) (r y) (match s with None => 0 | Some (u, v) => R (r u) (r v) end).
Definition exec_writes (r : env) (ws : list swrite) (R : mat Z) : mat Z := fold_left (exec_write r) ws R.

Definition exec_patch (r : env) (e1 e2 : nat) (ij : vec nat * vec nat) (p : spatch) : vec nat * vec nat :=
  let '((isj, ise1), v) := p in
  let e := if ise1 then e1 else e2 in
  if isj then (fst ij, vupd (snd ij) e (r v)) else (vupd (fst ij) e (r v), snd ij).
Definition exec_patches (r : env) (e1 e2 : nat) (ps : list spatch) (ij : vec nat * vec nat) : vec nat * vec nat :=
  fold_left (exec_patch r e1 e2) ps ij.

Definition eval_four (r : env) (l : list scell) : bool := forallb (fun c => negb (Nat.eqb (r (fst c)) (r (snd c)))) l.
Definition eval_cond (r : env) (R : mat Z) (l : list scell) : bool := forallb (fun c => Z.eqb (R (r (fst c)) (r (snd c))) 0) l.


(* ---------- one attempt, driven by a table entry ---------- *)
(* the environment after the endpoint reads *)
Definition read_env (reads : list sread) (i j : vec nat) (e1 e2 : nat) : env :=
  fun sy => match find (fun r => sym_eqb (fst r) sy) reads with
            | Some (_, (isj, ise1)) => (if isj then j else i) (if ise1 then e1 else e2)
            | None => O
            end.

(* while True: e1, e2 drawn (e2 redrawn while equal); reads; break when the four-distinct test holds *)
Fixpoint select_tab (four : list scell) (reads : list sread) (redraw : bool) (fuel k : nat) (ei ej : vec nat) (s : stream)
  : option (nat * nat * stream) :=
  match fuel with
  | O => None
  | S f =>
    match s with
    | DInt z1 :: s1 =>
        let e1 := randint k z1 in
        let second := if redraw then pop_e2 f k e1 s1
                      else match s1 with DInt z2 :: s2 => Some (randint k z2, s2) | _ => None end in
        match second with
        | None => None
        | Some (e2, s2) =>
            if eval_four (read_env reads ei ej e1 e2) four then Some (e1, e2, s2)
            else select_tab four reads redraw f k ei ej s2
        end
    | _ => None
    end
  end.

(* the body of the attempt loop as the table describes it: selection, flip block (its index patches, then the re-read
   `c = i[e2]; d = j[e2]`), rewiring condition on R and on the mask B, the extra guard g (lattice / connectivity test,
   modelled separately), cell writes in source order, index patches *)
Definition attempt_tab (sp : src_spec) (B : mat Z) (g : mat Z -> nat -> nat -> nat -> nat -> bool)
           (k : nat) (st : state) (s : stream) : option (state * stream * option quad) :=
  match select_tab (ss_four sp) (ss_reads sp) (ss_redraw sp) (length s) k (si st) (sj st) s with
  | None => None
  | Some (e1, e2, s1) =>
    let r0 := read_env (ss_reads sp) (si st) (sj st) e1 e2 in
    let a := r0 SA in let b := r0 SB in let c0 := r0 SC in let d0 := r0 SD in
    let flipres :=
      match ss_flip sp with
      | [] => Some (false, s1)
      | _ => match s1 with DFlt q :: s2 => Some (Qgtb q (1 # 2), s2) | _ => None end
      end in
    match flipres with
    | None => None
    | Some (flip, s2) =>
      let ij1 := if flip then exec_patches (mkenv a b c0 d0) e1 e2 (ss_flip sp) (si st, sj st) else (si st, sj st) in
      let c := if flip then fst ij1 e2 else c0 in
      let d := if flip then snd ij1 e2 else d0 in
      let r := mkenv a b c d in
      let R := sR st in
      if (eval_cond r R (ss_cond sp) && eval_cond r B (ss_mask sp) && g R a b c d)%bool then
        let ij2 := exec_patches r e1 e2 (ss_patches sp) ij1 in
        Some (mkst (exec_writes r (ss_writes sp) R) (fst ij2) (snd ij2), s2, Some (a, b, c, d))
      else Some (mkst R (fst ij1) (snd ij1), s2, None)
    end
  end.

(* ---------- randomizer_bin_und: the cell writes of its swap (constants 0 / 1), in source order ---------- *)
Definition cwrite := (scell * Z)%type.
Definition cwrite_eqb (w1 w2 : cwrite) : bool := (scell_eqb (fst w1) (fst w2) && Z.eqb (snd w1) (snd w2))%bool.
Definition exec_cwrite (r : env) (R : mat Z) (w : cwrite) : mat Z := upd R (r (fst (fst w))) (r (snd (fst w))) (snd w).
Definition exec_cwrites (r : env) (ws : list cwrite) (R : mat Z) : mat Z := fold_left (exec_cwrite r) ws R.
Definition rbu_writes_std : list cwrite :=
  [((SA, SB), 0); ((SC, SD), 0); ((SB, SA), 0); ((SD, SC), 0); ((SA, SC), 1); ((SB, SD), 1); ((SC, SA), 1); ((SD, SB), 1)].
(* the mate must be an edge between two common non-neighbours of a and b:
   np.where(R[:, a] == 0), np.where(R[:, b] == 0), np.where(R[np.ix_(h, h)] == 1) — the three cell tests, as (column symbol, value) *)
Definition rbu_tests_std : list (sym * Z) := [(SA, 0); (SB, 0)].
Definition rbu_mate_std : Z := 1.
Definition stest_eqb (p q : sym * Z) : bool := (sym_eqb (fst p) (fst q) && Z.eqb (snd p) (snd q))%bool.
Definition eval_tests (r : env) (R : mat Z) (x : nat) (l : list (sym * Z)) : bool :=
  forallb (fun t => Z.eqb (R x (r (fst t))) (snd t)) l.
