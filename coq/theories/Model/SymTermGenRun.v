(* Model/SymTermGenRun.v — C04: running the programs that harness/translate_symterm.py regenerates from the Python
   source on every check (Gen/SymTermGen.v: gen_table), and a decidable SYNTACTIC comparison of a generated program
   with a hand-written library term of Model/SymTerm.v.  Definitions only. *)
From Coq Require Import QArith List String Bool Arith.
From BCT Require Import Base.Mat Model.SymTerm Gen.SymTermGen.
Import ListNotations.
Open Scope Q_scope.

(* the idx-th generated program (the harness knows the order: it is the translator's) *)
Definition gen_prog (idx : nat) : prog := nth idx gen_list (OutS (Cst 0)).
Definition gen_count : nat := List.length gen_list.
Definition run_gen (prims : nat -> Q -> Q) (idx : nat) (A : list (list Q)) (ci ks : list Q) : list (list Q) :=
  run_prog prims (gen_prog idx) A ci ks.

(* ---------- syntactic equality of programs (constants compared as written: numerator and denominator) ---------- *)
Definition q_eqb (a b : Q) : bool := Z.eqb (Qnum a) (Qnum b) && Pos.eqb (Qden a) (Qden b).
Definition binop_eqb (a b : binop) : bool :=
  match a, b with
  | Add, Add | Sub, Sub | Mul, Mul | Div, Div | Min, Min | Max, Max | Le, Le | Lt, Lt | Eqq, Eqq => true
  | _, _ => false
  end.
Definition bigop_eqb (a b : bigop) : bool :=
  match a, b with BMin, BMin | BMax, BMax => true | _, _ => false end.
Fixpoint tm_eqb (a b : tm) {struct a} : bool :=
  match a, b with
  | Cst p, Cst q => q_eqb p q
  | Nn, Nn => true
  | Sc s, Sc s' => Nat.eqb s s'
  | Mx m x y, Mx m' x' y' => Nat.eqb m m' && Nat.eqb x x' && Nat.eqb y y'
  | Vc v x, Vc v' x' => Nat.eqb v v' && Nat.eqb x x'
  | IEq x y, IEq x' y' => Nat.eqb x x' && Nat.eqb y y'
  | Op o a1 a2, Op o' b1 b2 => binop_eqb o o' && tm_eqb a1 b1 && tm_eqb a2 b2
  | If c a1 a2, If c' b1 b2 => tm_eqb c c' && tm_eqb a1 b1 && tm_eqb a2 b2
  | Prim k a1, Prim k' b1 => Nat.eqb k k' && tm_eqb a1 b1
  | Sum x a1, Sum x' b1 => Nat.eqb x x' && tm_eqb a1 b1
  | Big o x g a1 d, Big o' x' g' b1 d' => bigop_eqb o o' && Nat.eqb x x' && tm_eqb g g' && tm_eqb a1 b1 && tm_eqb d d'
  | _, _ => false
  end.
Definition cnt_eqb (a b : cnt) : bool :=
  match a, b with
  | CConst k, CConst k' => Nat.eqb k k'
  | CNodes, CNodes | CNodes2, CNodes2 => true
  | _, _ => false
  end.
Fixpoint prog_eqb (a b : prog) {struct a} : bool :=
  match a, b with
  | LetS s t r, LetS s' t' r' => Nat.eqb s s' && tm_eqb t t' && prog_eqb r r'
  | LetV s t r, LetV s' t' r' => Nat.eqb s s' && tm_eqb t t' && prog_eqb r r'
  | LetM s t r, LetM s' t' r' => Nat.eqb s s' && tm_eqb t t' && prog_eqb r r'
  | IterV c v i s r, IterV c' v' i' s' r' => cnt_eqb c c' && Nat.eqb v v' && tm_eqb i i' && tm_eqb s s' && prog_eqb r r'
  | IterM c v i s r, IterM c' v' i' s' r' => cnt_eqb c c' && Nat.eqb v v' && tm_eqb i i' && tm_eqb s s' && prog_eqb r r'
  | OutS t, OutS t' => tm_eqb t t'
  | OutV t, OutV t' => tm_eqb t t'
  | OutM t, OutM t' => tm_eqb t t'
  | _, _ => false
  end.

(* is the idx-th generated program, as a piece of syntax, the hand-written term (id, k) of the library? *)
Definition gen_same_as_hand (idx id k : nat) : bool := prog_eqb (gen_prog idx) (measure_by_id id k).
