(* Model/Partition.v — partition-consuming routines:
   centrality.py: participation_coef, participation_coef_sign, module_degree_zscore;
   modularity.py: modularity_und / modularity_dir (kci given), modularity_und_sign, partition_distance, ci2ls, ls2ci;
   clustering.py: agreement (through utils.dummyvar).
   Labels are integers (Z); weights are rationals (Q). sqrt and log stay outside the model: the routines that
   use them are modelled up to the rational quantities they are applied to. Definitions only. *)
From Coq Require Import QArith List Arith Bool ZArith Lia.
From BCT Require Import Base.Mat Base.SumQ Base.ListX.
Import ListNotations.
Open Scope Q_scope.

(* _, ci = np.unique(ci, return_inverse=True); ci += 1 :
   a label becomes 1 + (number of distinct labels smaller than it) = its 1-based rank among the sorted distinct labels *)
Definition rank (l : list Z) (x : Z) : nat := length (nodup Z.eq_dec (filter (fun y => Z.ltb y x) l)).
Definition relabel (n : nat) (ci : vec Z) : vec nat :=
  let l := to_list n ci in tabv 0%nat n (fun i => S (rank l (ci i))).
(* int(np.max(ci)) *)
Definition vmax (n : nat) (c : vec nat) : nat := fold_right Nat.max 0%nat (to_list n c).
(* sum over the modules 1..K *)
Definition sumM (K : nat) (g : nat -> Q) : Q := sumQ (fun u => g (S u)) K.

Definition qnzb (w : Q) : bool := negb (Qeq_bool w 0).
Definition qpos (w : Q) : bool := negb (Qle_bool w 0).
Definition transpose (W : mat Q) : mat Q := fun i j => W j i.

(* ---------- participation_coef(W, ci, degree) ---------- *)
(* the body after `if degree == 'in': W = W.T` and the relabelling, for module labels c in 1..K *)
Definition pcoef (n : nat) (W : mat Q) (c : vec nat) (i : nat) : Q :=
  let K := vmax n c in
  let Ko := sumQ (fun j => W i j) n in                                  (* np.sum(W, axis=1) *)
  let Gc := fun j => if qnzb (W i j) then c j else 0%nat in             (* np.dot((W != 0), np.diag(ci)) *)
  let Kc2 := sumM K (fun m => let s := sumQ (fun j => W i j * ind (Nat.eqb (Gc j) m)) n in s * s) in
  if Qeq_bool Ko 0 then 0 else 1 - Kc2 / (Ko * Ko).                     (* P[where(not Ko)] = 0 *)
Definition participation_coef (n : nat) (W : mat Q) (ci : vec Z) (deg_in : bool) : vec Q :=
  pcoef n (if deg_in then transpose W else W) (relabel n ci).

(* participation_coef_sign: pcoef(W*(W>0)), pcoef(-W*(W<0)); NaN (S = 0) -> 0 *)
Definition pos_part (W : mat Q) : mat Q := fun i j => if qpos (W i j) then W i j else 0.
Definition neg_part (W : mat Q) : mat Q := fun i j => if qpos (- W i j) then - W i j else 0.
Definition participation_coef_sign (n : nat) (W : mat Q) (ci : vec Z) : vec Q * vec Q :=
  let c := relabel n ci in (pcoef n (pos_part W) c, pcoef n (neg_part W) c).

(* ---------- module_degree_zscore(W, ci, flag) ---------- *)
(* per module m: Koi = row sums of W[ci==m, ci==m]; Z[ci==m] = (Koi - mean(Koi)) / std(Koi); NaN -> 0.
   The model returns, per node, the pair (Koi - mean, variance); Z = fst / sqrt(snd), 0 when the variance is 0. *)
Definition mdz_koi (n : nat) (W : mat Q) (c : vec nat) (m i : nat) : Q :=
  sumQ (fun j => ind (Nat.eqb (c j) m) * W i j) n.
Definition mdz_cnt (n : nat) (c : vec nat) (m : nat) : Q := sumQ (fun i => ind (Nat.eqb (c i) m)) n.
Definition mdz_mean (n : nat) (W : mat Q) (c : vec nat) (m : nat) : Q :=
  sumQ (fun i => ind (Nat.eqb (c i) m) * mdz_koi n W c m i) n / mdz_cnt n c m.
Definition mdz_var (n : nat) (W : mat Q) (c : vec nat) (m : nat) : Q :=
  sumQ (fun i => ind (Nat.eqb (c i) m) * ((mdz_koi n W c m i - mdz_mean n W c m) * (mdz_koi n W c m i - mdz_mean n W c m))) n
  / mdz_cnt n c m.
Definition mdz_loop (n : nat) (W : mat Q) (c : vec nat) (K : nat) : vec (Q * Q) :=
  fold_left (fun Z m => tabv (0, 0) n (fun i => if Nat.eqb (c i) m
                                               then (mdz_koi n W c m i - mdz_mean n W c m, mdz_var n W c m)
                                               else Z i))
            (seq 1 K) (fun _ => (0, 0)).
Definition mdz_flag (flag : nat) (W : mat Q) : mat Q :=
  match flag with
  | 2%nat => transpose W
  | 3%nat => fun i j => W i j + W j i
  | _ => W
  end.
Definition module_degree_zscore_parts (n : nat) (W : mat Q) (ci : vec Z) (flag : nat) : vec (Q * Q) :=
  let c := relabel n ci in mdz_loop n (mdz_flag flag W) c (vmax n c).

(* ---------- modularity_und / modularity_dir with kci given: ci = kci is used as is ---------- *)
Definition zsame (ci : vec Z) (i j : nat) : Q := ind (Z.eqb (ci i - ci j) 0).     (* np.logical_not(s - s.T) *)
Definition modularity_und_q (n : nat) (A : mat Q) (gamma : Q) (kci : vec Z) : Q :=
  let k := fun j => sumQ (fun i => A i j) n in
  let m := sumQ k n in
  let B := fun i j => A i j - gamma * (k i * k j) / m in
  sum2Q (fun i j => zsame kci i j * B i j / m) n.
Definition modularity_dir_q (n : nat) (A : mat Q) (gamma : Q) (kci : vec Z) : Q :=
  let ki := fun j => sumQ (fun i => A i j) n in
  let ko := fun i => sumQ (fun j => A i j) n in
  let m := sumQ ki n in
  let b := fun i j => A i j - gamma * (ko i * ki j) / m in
  let B := fun i j => b i j + b j i in
  sum2Q (fun i j => zsame kci i j * B i j / (2 * m)) n.

(* ---------- modularity_und_sign(W, ci, qtype) ---------- *)
Inductive qtype := Qsta | Qpos | Qsmp | Qgja | Qneg.
Definition modularity_und_sign_q (n : nat) (W : mat Q) (ci : vec Z) (qt : qtype) : Q :=
  let c := relabel n ci in
  let K := vmax n c in
  let W0 := pos_part W in let W1 := neg_part W in
  let s0 := sum2Q W0 n in let s1 := sum2Q W1 n in
  let Knm0 := fun i m => sumQ (fun j => ind (Nat.eqb (c j) m) * W0 i j) n in
  let Knm1 := fun i m => sumQ (fun j => ind (Nat.eqb (c j) m) * W1 i j) n in
  let Kn0 := fun i => sumM K (Knm0 i) in
  let Kn1 := fun i => sumM K (Knm1 i) in
  let d0 := match qt with Qsmp | Qsta | Qpos => 1 / s0 | Qgja => 1 / (s0 + s1) | Qneg => 0 end in
  let d1 := match qt with Qsmp | Qneg => 1 / s1 | Qgja | Qsta => 1 / (s0 + s1) | Qpos => 0 end in
  let '(s0', d0') := if Qeq_bool s0 0 then (1, 0) else (s0, d0) in
  let '(s1', d1') := if Qeq_bool s1 0 then (1, 0) else (s1, d1) in
  let same := fun i j => ind (Nat.eqb (c i) (c j)) in
  let q0 := sum2Q (fun i j => (W0 i j - Kn0 i * Kn0 j / s0') * same i j) n in
  let q1 := sum2Q (fun i j => (W1 i j - Kn1 i * Kn1 j / s1') * same i j) n in
  d0' * q0 - d1' * q1.

(* ---------- agreement(ci) = ind . ind^T with ind = dummyvar(ci), diagonal cleared ---------- *)
(* dummyvar: for every partition p (a column) one 0/1 column per distinct label, in sorted label order *)
Definition agreement (n np_ : nat) (cis : nat -> vec Z) (i j : nat) : Q :=
  if Nat.eqb i j then 0 else
  sumQ (fun p => let c := relabel n (cis p) in
                 sumM (vmax n c) (fun m => ind (Nat.eqb (c i) m) * ind (Nat.eqb (c j) m))) np_.

(* ---------- partition_distance(cx, cy): the three histograms (counts; P = count / n) ---------- *)
Definition hist (n : nat) (c : vec nat) : list Q := map (fun u => mdz_cnt n c (S u)) (seq 0 (vmax n c)).
(* np.unique(cx + cy*1j): complex numbers sort by real part, then imaginary part; cx, cy are the 0-based ranks *)
Definition joint_key (n : nat) (cx cy : vec nat) : vec Z :=
  fun i => (Z.of_nat (pred (cx i)) * Z.of_nat (S n) + Z.of_nat (pred (cy i)))%Z.
Definition pd_hists (n : nat) (cx cy : vec Z) : list Q * list Q * list Q :=
  let x := relabel n cx in let y := relabel n cy in
  let xy := relabel n (joint_key n x y) in
  (hist n x, hist n y, hist n xy).
(* H = -sum(P log P), VIn = (2Hxy - Hx - Hy)/log n, MIn = 2(Hx + Hy - Hxy)/(Hx + Hy), for a given log *)
Definition entropy (log : Q -> Q) (n : nat) (h : list Q) : Q :=
  - fold_right Qplus 0 (map (fun cnt => let p := cnt / inject_Z (Z.of_nat n) in p * log p) h).
Definition pd_general (log : Q -> Q) (n : nat) (cx cy : vec Z) : Q * Q :=
  let '(hx, hy, hxy) := pd_hists n cx cy in
  let Hx := entropy log n hx in let Hy := entropy log n hy in let Hxy := entropy log n hxy in
  ((2 * Hxy - Hx - Hy) / log (inject_Z (Z.of_nat n)), 2 * (Hx + Hy - Hxy) / (Hx + Hy)).
(* fix b5787bf: if n == 1 or (np.max(cx) == 1 and np.max(cy) == 1): return 0.0, 1.0   (cx, cy already relabelled) *)
Definition pd_trivial (n : nat) (cx cy : vec Z) : bool :=
  (Nat.eqb n 1 || (Nat.eqb (vmax n (relabel n cx)) 1 && Nat.eqb (vmax n (relabel n cy)) 1))%bool.
Definition partition_distance (log : Q -> Q) (n : nat) (cx cy : vec Z) : Q * Q :=
  if pd_trivial n cx cy then (0, 1) else pd_general log n cx cy.

(* ---------- ci2ls / ls2ci ---------- *)
Definition ci2ls (n : nat) (ci : vec Z) : list (list nat) :=
  let c := relabel n ci in
  map (fun u => filter (fun i => Nat.eqb (c i) (S u)) (seq 0 n)) (seq 0 (vmax n c)).
(* for i, x in enumerate(ls): for y in ls[i]: ci[y] = i + 1   (zeroindexed=False) *)
Definition ls2ci (ls : list (list nat)) : vec nat :=
  fold_left (fun ci ib => fold_left (fun ci y => vupd ci y (S (fst ib))) (snd ib) ci)
            (combine (seq 0 (length ls)) ls) (fun _ => 0%nat).

(* ---------- executable interface ---------- *)
Definition qv (n : nat) (f : vec Q) : list Q := map (fun i => Qred (f i)) (seq 0 n).
Definition run_relabel (ci : list Z) : list nat := let n := length ci in to_list n (relabel n (of_list 0%Z ci)).
Definition run_pc (rows : list (list Q)) (ci : list Z) (deg_in : bool) : list Q :=
  let n := length rows in qv n (participation_coef n (of_rows 0 rows) (of_list 0%Z ci) deg_in).
Definition run_pcs (rows : list (list Q)) (ci : list Z) : list Q * list Q :=
  let n := length rows in
  let r := participation_coef_sign n (of_rows 0 rows) (of_list 0%Z ci) in (qv n (fst r), qv n (snd r)).
Definition run_mdz (rows : list (list Q)) (ci : list Z) (flag : nat) : list (Q * Q) :=
  let n := length rows in
  let r := module_degree_zscore_parts n (of_rows 0 rows) (of_list 0%Z ci) flag in
  map (fun i => (Qred (fst (r i)), Qred (snd (r i)))) (seq 0 n).
Definition run_mod (which : nat) (rows : list (list Q)) (gamma : Q) (ci : list Z) : Q :=
  let n := length rows in
  Qred (match which with
        | O => modularity_und_q n (of_rows 0 rows) gamma (of_list 0%Z ci)
        | _ => modularity_dir_q n (of_rows 0 rows) gamma (of_list 0%Z ci)
        end).
Definition run_mus (rows : list (list Q)) (ci : list Z) (qt : nat) : Q :=
  let n := length rows in
  Qred (modularity_und_sign_q n (of_rows 0 rows) (of_list 0%Z ci)
          (match qt with 0%nat => Qsta | 1%nat => Qpos | 2%nat => Qsmp | 3%nat => Qgja | _ => Qneg end)).
(* cis given as a list of partitions (columns) *)
Definition run_agreement (n : nat) (cols : list (list Z)) : list (list Q) :=
  to_rows n n (fun i j => Qred (agreement n (length cols) (fun p => of_list 0%Z (nth p cols [])) i j)).
Definition run_pd (cx cy : list Z) : bool * (list Q * list Q * list Q) :=
  let n := length cx in
  let '(a, b, c) := pd_hists n (of_list 0%Z cx) (of_list 0%Z cy) in
  (pd_trivial n (of_list 0%Z cx) (of_list 0%Z cy), (map Qred a, map Qred b, map Qred c)).
Definition run_ci2ls (ci : list Z) : list (list nat) := ci2ls (length ci) (of_list 0%Z ci).
Definition run_ls2ci (ls : list (list nat)) : list nat :=
  to_list (fold_right plus 0%nat (map (@length nat) ls)) (ls2ci ls).
