(* Model/PartitionGWB.v — gateway_coef_sign(W, ci, centrality_type) AS THE CODE IS, for BOTH centrality types:
     'degree'       cent = s.copy()
     'betweenness'  cent = betweenness_wei(invert(W))     -- an external kernel (C04 is about it): the vector is an
                    ORACLE input here, one for the positive and one for the negative part; it is a function of the
                    matrix only, NOT of the labels, so the same vector serves every relabelling of one matrix.
   gcoef_c is Model/PartitionDG.gcoef with the centrality vector as a parameter (cent is read in max_centrality and in
   cs[i, j] = np.sum(cent[neighbs]), where neighbs are POSITIONS inside the module -- the open finding);
   gcoef_c ... s = gcoef by computation (Proofs/PartitionGWB.v).  Definitions only. *)
From Coq Require Import QArith List Arith Bool ZArith Lia.
From BCT Require Import Base.Mat Base.SumQ Base.ListX Model.Partition Model.PartitionDG.
Import ListNotations.
Open Scope Q_scope.

Definition gcoef_c (n : nat) (W : mat Q) (c : vec nat) (K : nat) (cent : vec Q) : vec Q :=
  let s := tabv 0 n (gw_s n W) in
  let ks := tab 0 n (S K) (fun i u => gw_ks n W c i u) in
  let T := tabv 0 (S K) (fun u => sumQ (fun v => ind (Nat.eqb (c v) u) * sumM K (ks v)) n) in
  let cnt := tabv 0%nat (S K) (gw_cnt n c) in
  let maxc := gw_maxc n cent c K in
  let kjs := tabv 0 n (fun v => let u := c v in
               if Nat.ltb 1 (cnt u) then (if Nat.eqb (gw_pos c v) (pred u) then T u / 2 else T u) else 0) in
  let cs := fun i u => if qpos (s i) then
               sumQ (fun v => if (Nat.eqb (c v) u && qpos (W v i))%bool then cent (gw_pos c v) else 0) n else 0 in
  tabv 0 n (fun i =>
    if Qeq_bool (s i) 0 then 0 else
    1 - sumM K (fun u =>
          let ksm := if Qeq_bool (kjs i) 0 then 0 else ks i u / kjs i in
          let centm := cs i u / maxc in
          (ks i u * ks i u) / (s i * s i) * ((1 - ksm * centm) * (1 - ksm * centm)))).
(* betweenness: max_centrality = 0 happens on connected nodes too (no node lies inside a shortest path):
   centm = cs / 0 = 0/0 = nan in every column, gs = nan, Gw = nan -> Gw[isnan] = 0: the whole vector is 0.
   (With 'degree' max_centrality = 0 forces s = 0 everywhere and the same zeros come out of the s[i] == 0 branch.) *)
Definition gcoef_b (n : nat) (W : mat Q) (c : vec nat) (K : nat) (cent : vec Q) : vec Q :=
  if Qeq_bool (gw_maxc n cent c K) 0 then (fun _ => 0) else gcoef_c n W c K cent.
Definition gateway_coef_sign_betw (n : nat) (W : mat Q) (ci : vec Z) (centp centn : vec Q) : option (vec Q * vec Q) :=
  let c := relabel n ci in
  let K := vmax n c in
  let W0 := zero_diag W in
  if gw_raises n c K then None else Some (gcoef_b n (pos_part W0) c K centp, gcoef_b n (neg_part W0) c K centn).

Definition run_gwb (rows : list (list Q)) (ci : list Z) (centp centn : list Q) : option (list Q * list Q) :=
  let n := length rows in
  match gateway_coef_sign_betw n (of_rows 0 rows) (of_list 0%Z ci) (of_list 0 centp) (of_list 0 centn) with
  | None => None
  | Some (p, q) => Some (qv n p, qv n q)
  end.
