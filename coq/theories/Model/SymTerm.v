(* Model/SymTerm.v — C04: a deep-embedded language of INDEX-SYMMETRIC expressions over matrices / vectors,
   its executable semantics over Q, and a library of bctpy measures written as terms of the language.

   What the language can say: entries M[x,y] and v[x] at BOUND (or output) index variables, rational
   constants, the number of nodes, + - * / min max, comparisons (-> 1/0), if-then-else, equality test
   between index variables, abstract pointwise primitives (sqrt, cbrt: [Prim k]), sum / guarded min / guarded
   max over ALL nodes, and at program level: let-bound scalars / vectors / matrices and bounded iteration
   of a vector-to-vector or matrix-to-matrix transformer (closures: distances, reachability, peeling).
   What it cannot say: an index constant ("node 0"), an order comparison between indices (i < j), a
   position-dependent loop bound.  That is exactly why every term is equivariant (Proofs/SymTerm.v).

   Definitions only. *)
From Coq Require Import QArith List Arith Bool.
From BCT Require Import Base.Mat Base.SumQ.
Import ListNotations.
Open Scope Q_scope.

(* ---------- renumbering ---------- *)
(* a renumbering of the n nodes: a bijection of [0,n), extended injectively outside (ext_perm: identity) *)
Definition perm_on (n : nat) (p : nat -> nat) : Prop :=
  (forall i, (i < n)%nat <-> (p i < n)%nat) /\ (forall i j, p i = p j -> i = j).
(* A[ix_(p,p)] and v[p] *)
Definition pm {T} (p : nat -> nat) (A : mat T) : mat T := fun i j => A (p i) (p j).
Definition pv {T} (p : nat -> nat) (v : vec T) : vec T := fun i => v (p i).
Definition ext_perm (l : list nat) : nat -> nat := fun i => nth i l i.

(* ---------- association lists (named variables) ---------- *)
Fixpoint alook {T} (l : list (nat * T)) (x : nat) : option T :=
  match l with
  | [] => None
  | c :: r => if Nat.eqb x (fst c) then Some (snd c) else alook r x
  end.
Definition amap {T U} (f : T -> U) (l : list (nat * T)) : list (nat * U) :=
  map (fun c => (fst c, f (snd c))) l.

Definition menv := list (nat * mat Q).
Definition venv := list (nat * vec Q).
Definition senv := list (nat * Q).
Definition ienv := list (nat * nat).      (* index variable -> node *)
Definition mget (me : menv) (m : nat) : mat Q := match alook me m with Some M => M | None => fun _ _ => 0 end.
Definition vget (ve : venv) (v : nat) : vec Q := match alook ve v with Some V => V | None => fun _ => 0 end.
Definition sget (se : senv) (s : nat) : Q := match alook se s with Some q => q | None => 0 end.

(* ---------- syntax ---------- *)
Inductive binop := Add | Sub | Mul | Div | Min | Max | Le | Lt | Eqq.
Inductive bigop := BMin | BMax.

Inductive tm : Type :=
| Cst (q : Q)
| Nn                                   (* number of nodes *)
| Sc (s : nat)                         (* scalar variable *)
| Mx (m x y : nat)                     (* matrix variable m at index variables x, y *)
| Vc (v x : nat)                       (* vector variable v at index variable x *)
| IEq (x y : nat)                      (* 1 if the two index variables denote the same node, else 0 *)
| Op (o : binop) (a b : tm)
| If (c a b : tm)                      (* c <> 0 ? a : b *)
| Prim (k : nat) (a : tm)              (* abstract pointwise primitive number k *)
| Sum (x : nat) (a : tm)               (* sum over all nodes x *)
| Big (o : bigop) (x : nat) (g a d : tm).   (* min / max of a over the nodes x with g <> 0; d if there is none *)

Inductive cnt := CConst (k : nat) | CNodes | CNodes2.     (* number of iterations: k, n, n*n *)

(* programs: lets and bounded iteration, then one output.  Vector bodies bind index variable 0,
   matrix bodies bind index variables 0 (row) and 1 (column). *)
Inductive prog : Type :=
| LetS (s : nat) (t : tm) (r : prog)
| LetV (v : nat) (t : tm) (r : prog)
| LetM (m : nat) (t : tm) (r : prog)
| IterV (c : cnt) (v : nat) (init step : tm) (r : prog)   (* step reads the current iterate as vector v *)
| IterM (c : cnt) (m : nat) (init step : tm) (r : prog)
| OutS (t : tm)
| OutV (t : tm)
| OutM (t : tm).

Inductive res := RS (q : Q) | RV (v : vec Q) | RM (M : mat Q).

(* ---------- semantics ---------- *)
Definition b2q (b : bool) : Q := if b then 1 else 0.
Definition qmin (a b : Q) : Q := if Qle_bool a b then a else b.
Definition qmax (a b : Q) : Q := if Qle_bool a b then b else a.
Definition binop_sem (o : binop) (a b : Q) : Q :=
  match o with
  | Add => a + b | Sub => a - b | Mul => a * b | Div => a / b
  | Min => qmin a b | Max => qmax a b
  | Le => b2q (Qle_bool a b) | Lt => b2q (negb (Qle_bool b a)) | Eqq => b2q (Qeq_bool a b)
  end.
Definition olift (f : Q -> Q -> Q) (a b : option Q) : option Q :=
  match a, b with
  | None, x => x
  | x, None => x
  | Some u, Some v => Some (f u v)
  end.
Definition ofold (f : Q -> Q -> Q) (l : list (option Q)) : option Q := fold_right (olift f) None l.
Definition bigop_fun (o : bigop) : Q -> Q -> Q := match o with BMin => qmin | BMax => qmax end.

Fixpoint iterf {X : Type} (k : nat) (f : X -> X) (x : X) : X :=
  match k with O => x | S k' => iterf k' f (f x) end.

Section Sem.
Variable prims : nat -> Q -> Q.     (* interpretation of the abstract primitives (0: sqrt, 1: cbrt) *)
Variable n : nat.

Definition cntv (c : cnt) : nat := match c with CConst k => k | CNodes => n | CNodes2 => (n * n)%nat end.

Fixpoint sem (me : menv) (ve : venv) (se : senv) (env : ienv) (t : tm) {struct t} : Q :=
  match t with
  | Cst q => q
  | Nn => inject_Z (Z.of_nat n)
  | Sc s => sget se s
  | Mx m x y => match alook env x, alook env y with Some i, Some j => mget me m i j | _, _ => 0 end
  | Vc v x => match alook env x with Some i => vget ve v i | None => 0 end
  | IEq x y => match alook env x, alook env y with Some i, Some j => b2q (Nat.eqb i j) | _, _ => 0 end
  | Op o a b => binop_sem o (sem me ve se env a) (sem me ve se env b)
  | If c a b => if Qeq_bool (sem me ve se env c) 0 then sem me ve se env b else sem me ve se env a
  | Prim k a => prims k (sem me ve se env a)
  | Sum x a => Qred (sumQ (fun k => sem me ve se ((x, k) :: env) a) n)
  | Big o x g a d =>
      match ofold (bigop_fun o)
              (map (fun k => if Qeq_bool (sem me ve se ((x, k) :: env) g) 0 then None
                             else Some (sem me ve se ((x, k) :: env) a)) (seq 0 n)) with
      | Some v => v
      | None => sem me ve se env d
      end
  end.

Definition vbody (me : menv) (ve : venv) (se : senv) (t : tm) : vec Q :=
  fun i => Qred (sem me ve se [(0%nat, i)] t).
Definition mbody (me : menv) (ve : venv) (se : senv) (t : tm) : mat Q :=
  fun i j => Qred (sem me ve se [(0%nat, i); (1%nat, j)] t).

Fixpoint semp (me : menv) (ve : venv) (se : senv) (pr : prog) {struct pr} : res :=
  match pr with
  | LetS s t r => semp me ve ((s, Qred (sem me ve se [] t)) :: se) r
  | LetV v t r => semp me ((v, tabv 0 n (vbody me ve se t)) :: ve) se r
  | LetM m t r => semp ((m, tab 0 n n (mbody me ve se t)) :: me) ve se r
  | IterV c v init step r =>
      let V0 := tabv 0 n (vbody me ve se init) in
      let f := fun V => tabv 0 n (vbody me ((v, V) :: ve) se step) in
      semp me ((v, iterf (cntv c) f V0) :: ve) se r
  | IterM c m init step r =>
      let M0 := tab 0 n n (mbody me ve se init) in
      let f := fun M => tab 0 n n (mbody ((m, M) :: me) ve se step) in
      semp ((m, iterf (cntv c) f M0) :: me) ve se r
  | OutS t => RS (Qred (sem me ve se [] t))
  | OutV t => RV (vbody me ve se t)
  | OutM t => RM (mbody me ve se t)
  end.

(* a measure: input matrix = matrix variable 0, label vector = vector variable 0, parameters = scalars 0,1,.. *)
Definition inputs_s (ks : list Q) : senv := combine (seq 0 (length ks)) ks.
Definition eval (pr : prog) (A : mat Q) (ci : vec Q) (ks : list Q) : res :=
  semp [(0%nat, A)] [(0%nat, ci)] (inputs_s ks) pr.
Definition eval_s pr A ci ks : Q := match eval pr A ci ks with RS q => q | _ => 0 end.
Definition eval_v pr A ci ks : vec Q := match eval pr A ci ks with RV v => v | _ => fun _ => 0 end.
Definition eval_m pr A ci ks : mat Q := match eval pr A ci ks with RM M => M | _ => fun _ _ => 0 end.
End Sem.

(* list-in / list-out wrapper for the extracted evaluator: result is a matrix of rows
   (scalar: [[q]], vector: [v], matrix: rows) *)
Definition run_prog (prims : nat -> Q -> Q) (pr : prog) (A : list (list Q)) (ci : list Q) (ks : list Q)
  : list (list Q) :=
  let n := length A in
  match eval prims n pr (of_rows 0 A) (of_list 0 ci) ks with
  | RS q => [[q]]
  | RV v => [to_list n v]
  | RM M => to_rows n n M
  end.

(* ================================================================== *)
(* Library of measures as terms                                        *)
(* ================================================================== *)
(* index variable names *)
Definition i_ := 0%nat. Definition j_ := 1%nat. Definition k_ := 2%nat. Definition l_ := 3%nat. Definition h_ := 4%nat.
Definition A_ (x y : nat) : tm := Mx 0 x y.
Definition c0 : tm := Cst 0. Definition c1 : tm := Cst 1. Definition c2 : tm := Cst 2.
Definition Nz (t : tm) : tm := If t c1 c0.
Definition Not (t : tm) : tm := If t c0 c1.
Definition And (a b : tm) : tm := If a (Nz b) c0.
Definition Or (a b : tm) : tm := If a c1 (Nz b).
Definition Neq (x y : nat) : tm := Not (IEq x y).
Definition LblEq (x y : nat) : tm := Op Eqq (Vc 0 x) (Vc 0 y).     (* ci[x] = ci[y] *)
Definition Pos (t : tm) : tm := Op Lt c0 t.
Infix "+'" := (Op Add) (at level 50, left associativity).
Infix "-'" := (Op Sub) (at level 50, left associativity).
Infix "*'" := (Op Mul) (at level 40, left associativity).
Infix "/'" := (Op Div) (at level 40, left associativity).
Definition Sum2 x y t := Sum x (Sum y t).
Definition inf_code : tm := Cst (-1).       (* +inf is encoded as -1 in outputs of distance-like measures *)

(* --- degree.py --- *)
Definition t_degrees_und : prog := OutV (Sum k_ (Nz (A_ k_ i_))).                 (* column sums of binarize(CIJ) *)
Definition t_degrees_in : prog := OutV (Sum k_ (Nz (A_ k_ i_))).
Definition t_degrees_out : prog := OutV (Sum k_ (Nz (A_ i_ k_))).
Definition t_degrees_dir : prog := OutV (Sum k_ (Nz (A_ k_ i_)) +' Sum k_ (Nz (A_ i_ k_))).
Definition t_strengths_und : prog := OutV (Sum k_ (A_ k_ i_)).
Definition t_strengths_dir : prog := OutV (Sum k_ (A_ k_ i_) +' Sum k_ (A_ i_ k_)).

(* --- physical_connectivity.py --- *)
Definition t_density_dir : prog :=
  OutS (Sum2 i_ j_ (Nz (A_ i_ j_)) /' (Nn *' Nn -' Nn)).
(* np.triu counts the upper triangle incl. diagonal; on the documented (symmetric) domain that is
   (off-diagonal nonzeros)/2 + diagonal nonzeros *)
Definition t_density_und : prog :=
  OutS ((Sum2 i_ j_ (Neq i_ j_ *' Nz (A_ i_ j_)) /' c2 +' Sum i_ (Nz (A_ i_ i_))) /' ((Nn *' Nn -' Nn) /' c2)).

(* --- clustering.py --- *)
Definition t_clustering_coef_bu : prog :=
  LetV 1 (Sum k_ (Nz (A_ i_ k_)))
  (OutV (If (Op Le c2 (Vc 1 i_))
            (Sum2 k_ l_ (Nz (A_ i_ k_) *' Nz (A_ i_ l_) *' A_ k_ l_) /' (Vc 1 i_ *' Vc 1 i_ -' Vc 1 i_))
            c0)).
Definition S_ (x y : nat) : tm := Mx 1 x y.
Definition bd_prelude (r : prog) : prog :=
  LetM 1 (A_ i_ j_ +' A_ j_ i_)                                            (* S = A + A.T *)
  (LetV 1 (Sum k_ (S_ i_ k_))                                               (* K *)
  (LetV 2 (Sum2 k_ l_ (S_ i_ k_ *' S_ k_ l_ *' S_ l_ i_) /' c2)             (* cyc3 = diag(S^3)/2 *)
  (LetV 3 (Sum k_ (A_ i_ k_ *' A_ k_ i_)) r))).                             (* diag(A^2) *)
Definition t_clustering_coef_bd : prog :=
  bd_prelude (OutV (If (Vc 2 i_) (Vc 2 i_ /' (Vc 1 i_ *' (Vc 1 i_ -' c1) -' c2 *' Vc 3 i_)) c0)).
Definition t_transitivity_bd : prog :=
  bd_prelude (OutS (Sum i_ (Vc 2 i_) /' Sum i_ (Vc 1 i_ *' (Vc 1 i_ -' c1) -' c2 *' Vc 3 i_))).
Definition t_transitivity_bu : prog :=
  OutS (Sum i_ (Sum2 k_ l_ (A_ i_ k_ *' A_ k_ l_ *' A_ l_ i_))
        /' (Sum2 i_ j_ (Sum k_ (A_ i_ k_ *' A_ k_ j_)) -' Sum i_ (Sum k_ (A_ i_ k_ *' A_ k_ i_)))).
(* weighted, undirected: cbrt is the abstract primitive 1 *)
Definition cbrtW (x y : nat) : tm := Prim 1 (A_ x y).
Definition t_clustering_coef_wu : prog :=
  LetM 1 (cbrtW i_ j_)
  (LetV 1 (Sum k_ (Nz (A_ i_ k_)))
  (LetV 2 (Sum2 k_ l_ (S_ i_ k_ *' S_ k_ l_ *' S_ l_ i_))
  (OutV (If (Vc 2 i_) (Vc 2 i_ /' (Vc 1 i_ *' (Vc 1 i_ -' c1))) c0)))).
Definition t_transitivity_wu : prog :=
  LetM 1 (cbrtW i_ j_)
  (LetV 1 (Sum k_ (Nz (A_ i_ k_)))
  (LetV 2 (Sum2 k_ l_ (S_ i_ k_ *' S_ k_ l_ *' S_ l_ i_))
  (OutS (Sum i_ (Vc 2 i_) /' Sum i_ (Vc 1 i_ *' (Vc 1 i_ -' c1)))))).

(* --- similarity.py --- *)
(* matching_ind: which = 0 (in), 1 (out), 2 (all) *)
Definition mi_use (k x y : nat) (a b : tm) : tm := Neq k x *' Neq k y *' Or a b.
Definition mi_den_in := Sum k_ (mi_use k_ i_ j_ (A_ k_ i_) (A_ k_ j_) *' (A_ k_ i_ +' A_ k_ j_)).
Definition mi_num_in := Sum k_ (mi_use k_ i_ j_ (A_ k_ i_) (A_ k_ j_) *' And (A_ k_ i_) (A_ k_ j_)).
Definition mi_den_out := Sum k_ (mi_use k_ i_ j_ (A_ i_ k_) (A_ j_ k_) *' (A_ i_ k_ +' A_ j_ k_)).
Definition mi_num_out := Sum k_ (mi_use k_ i_ j_ (A_ i_ k_) (A_ j_ k_) *' And (A_ i_ k_) (A_ j_ k_)).
Definition mi_out (num den : tm) : prog :=
  OutM (If (IEq i_ j_) c0 (If den (c2 *' num /' den) c0)).
Definition t_matching_in : prog := mi_out mi_num_in mi_den_in.
Definition t_matching_out : prog := mi_out mi_num_out mi_den_out.
Definition t_matching_all : prog := mi_out (mi_num_in +' mi_num_out) (mi_den_in +' mi_den_out).

(* edge_nei_overlap_bu / _bd: same code; EC = inf (coded -1) where there is no edge *)
Definition eno_nei (x : nat) : tm := Neq k_ i_ *' Neq k_ j_ *' Or (A_ x k_) (A_ k_ x).
Definition t_edge_nei_overlap : prog :=
  OutM (If (A_ i_ j_)
           (Sum k_ (eno_nei i_ *' eno_nei j_) /' Sum k_ (Or (eno_nei i_) (eno_nei j_)))
           inf_code).

(* gtom(adj, m), m >= 1: m-step neighbourhoods by iteration of the (fixed) growth step *)
Definition B_ (x y : nat) : tm := Nz (A_ x y).
Definition G_ (x y : nat) : tm := Mx 1 x y.
Definition gtom_T (x y : nat) : tm := Neq x y *' Nz (Sum k_ (Op Eqq (G_ x k_) c1 *' B_ k_ y)).
Definition t_gtom (m : nat) : prog :=
  match m with
  | O => OutM (B_ i_ j_)
  | S m' =>
    IterM (CConst m') 1 (B_ i_ j_) (Or (G_ i_ j_) (Or (gtom_T i_ j_) (gtom_T j_ i_)))
    (LetV 1 (Sum k_ (G_ k_ i_))
    (OutM ((Sum k_ (G_ i_ k_ *' G_ k_ j_) +' B_ i_ j_ +' IEq i_ j_)
           /' (Op Max (Vc 1 i_) (Vc 1 j_) -' B_ i_ j_ +' c1))))
  end.

(* --- centrality.py --- *)
Definition fc_nb (x : nat) : tm := Nz (A_ i_ x +' A_ x i_).
Definition fc_total : tm :=
  Sum2 k_ l_ (fc_nb k_ *' fc_nb l_ *' Neq k_ l_ *' Op Eqq (And (A_ k_ i_) (A_ i_ l_) -' A_ k_ l_) c1).
Definition t_flow_coef_total : prog := OutV fc_total.
Definition t_flow_coef_fc : prog :=
  LetV 1 (Sum k_ (fc_nb k_))
  (OutV (If (Vc 1 i_ *' Vc 1 i_ -' Vc 1 i_) (fc_total /' (Vc 1 i_ *' Vc 1 i_ -' Vc 1 i_)) c0)).

(* participation_coef (out / undirected): sum over modules of squares = sum over same-module PAIRS *)
Definition t_participation_coef : prog :=
  LetV 1 (Sum k_ (A_ i_ k_))
  (OutV (If (Vc 1 i_)
            (c1 -' Sum2 k_ l_ (A_ i_ k_ *' A_ i_ l_ *' LblEq k_ l_) /' (Vc 1 i_ *' Vc 1 i_))
            c0)).
(* module_degree_zscore flag 0; sqrt is the abstract primitive 0 *)
Definition t_module_degree_zscore : prog :=
  LetV 1 (Sum k_ (LblEq i_ k_ *' A_ i_ k_))                                  (* Koi *)
  (LetV 2 (Sum k_ (LblEq i_ k_))                                             (* module size *)
  (LetV 3 (Sum k_ (LblEq i_ k_ *' Vc 1 k_) /' Vc 2 i_)                       (* mean *)
  (LetV 4 (Sum k_ (LblEq i_ k_ *' (Vc 1 k_ -' Vc 3 i_) *' (Vc 1 k_ -' Vc 3 i_)) /' Vc 2 i_)   (* variance *)
  (OutV (If (Vc 4 i_) ((Vc 1 i_ -' Vc 3 i_) /' Prim 0 (Vc 4 i_)) c0))))).

(* --- distance.py: min-plus closure, +inf coded as -1 --- *)
Definition D_ (x y : nat) : tm := Mx 1 x y.
Definition dist_init (len : tm) : tm := If (IEq i_ j_) c0 (If (A_ i_ j_) len inf_code).
Definition dist_step (lenkj : tm) : tm :=
  Big BMin k_ (And (Op Le c0 (D_ i_ k_)) (Or (IEq k_ j_) (A_ k_ j_)))
               (D_ i_ k_ +' If (IEq k_ j_) c0 lenkj) inf_code.
Definition dist_prog (len lenkj : tm) (r : prog) : prog := IterM CNodes 1 (dist_init len) (dist_step lenkj) r.
Definition t_distance_bin : prog := dist_prog c1 c1 (OutM (D_ i_ j_)).
Definition t_distance_wei : prog := dist_prog (A_ i_ j_) (A_ k_ j_) (OutM (D_ i_ j_)).     (* A = lengths *)
Definition t_efficiency_bin : prog :=
  dist_prog c1 c1 (OutS (Sum2 i_ j_ (If (Pos (D_ i_ j_)) (c1 /' D_ i_ j_) c0) /' (Nn *' Nn -' Nn))).
Definition t_charpath_lambda : prog :=        (* mean finite off-diagonal distance *)
  dist_prog c1 c1 (OutS (Sum2 i_ j_ (If (Pos (D_ i_ j_)) (D_ i_ j_) c0) /' Sum2 i_ j_ (Pos (D_ i_ j_)))).
(* reachability by paths of length >= 1 *)
Definition t_reach : prog :=
  IterM CNodes 1 (B_ i_ j_) (Or (D_ i_ j_) (Sum k_ (D_ i_ k_ *' B_ k_ j_))) (OutM (D_ i_ j_)).
(* components of an undirected graph as the relation "same component"; count = sum_i 1/|comp(i)| *)
Definition comp_prog (r : prog) : prog :=
  IterM CNodes 1 (Or (IEq i_ j_) (A_ i_ j_)) (Or (D_ i_ j_) (Sum k_ (D_ i_ k_ *' D_ k_ j_))) r.
Definition t_components_rel : prog := comp_prog (OutM (D_ i_ j_)).
Definition t_components_size : prog := comp_prog (OutV (Sum k_ (D_ i_ k_))).
Definition t_number_of_components : prog := comp_prog (OutS (Sum i_ (c1 /' Sum k_ (D_ i_ k_)))).

(* --- core.py: k-core by iterated peeling; alive = vector 1, k = scalar 0 --- *)
Definition alive (x : nat) : tm := Vc 1 x.
Definition kc_deg (und : bool) : tm :=
  if und then Sum k_ (alive i_ *' alive k_ *' Nz (A_ k_ i_))
  else Sum k_ (alive i_ *' alive k_ *' (Nz (A_ k_ i_) +' Nz (A_ i_ k_))).
Definition kc_prog (deg : tm) (r : prog) : prog :=
  IterV CNodes 1 c1 (If (And (Op Lt deg (Sc 0)) (Pos deg)) c0 (alive i_)) r.
Definition t_kcore (und : bool) : prog := kc_prog (kc_deg und) (OutM (alive i_ *' alive j_ *' A_ i_ j_)).
Definition t_kcore_kn (und : bool) : prog := kc_prog (kc_deg und) (OutS (Sum i_ (Pos (kc_deg und)))).
(* s-core (score_wu): strengths instead of degrees *)
Definition sc_str : tm := Sum k_ (alive i_ *' alive k_ *' A_ k_ i_).
Definition t_score_wu : prog := kc_prog sc_str (OutM (alive i_ *' alive j_ *' A_ i_ j_)).

(* rich_club_bu/bd at one level; scalar 0 = the degree threshold (k+1 in the code's loop) *)
Definition rc_prog (deg : tm) : prog :=
  LetV 1 (Op Lt (Sc 0) deg)                                                   (* big nodes *)
  (LetS 1 (Sum i_ (Vc 1 i_))                                                   (* Nk *)
  (OutS (Sum2 i_ j_ (Vc 1 i_ *' Vc 1 j_ *' A_ i_ j_) /' (Sc 1 *' (Sc 1 -' c1))))).
Definition t_rich_club_bu : prog := rc_prog (Sum k_ (Nz (A_ k_ i_))).
Definition t_rich_club_bd : prog := rc_prog (Sum k_ (Nz (A_ k_ i_)) +' Sum k_ (Nz (A_ i_ k_))).

(* assortativity: vector 1 = "source-side" quantity, vector 2 = "target-side" quantity;
   sums over ordered pairs with an edge (for flag 0 the code sums over i<j: the summands are symmetric,
   so every quotient below is unchanged by summing over both orientations) *)
(* `edge`: which cells are edges: assortativity_wei selects CIJ > 0, assortativity_bin (since /repo 85f73e1) CIJ != 0 *)
Definition assort_prog_e (edge : tm) (offdiag : bool) (d1 d2 : tm) : prog :=
  let e := if offdiag then Neq i_ j_ *' edge else edge in
  LetV 1 d1 (LetV 2 d2
  (LetS 1 (Sum2 i_ j_ e)                                                                    (* K *)
  (LetS 2 (Sum2 i_ j_ (e *' Vc 1 i_ *' Vc 2 j_) /' Sc 1)                                   (* term1 *)
  (LetS 3 (Sum2 i_ j_ (e *' (Vc 1 i_ +' Vc 2 j_) /' c2) /' Sc 1)                          (* sqrt term2 *)
  (LetS 4 (Sum2 i_ j_ (e *' (Vc 1 i_ *' Vc 1 i_ +' Vc 2 j_ *' Vc 2 j_) /' c2) /' Sc 1)    (* term3 *)
  (OutS ((Sc 2 -' Sc 3 *' Sc 3) /' (Sc 4 -' Sc 3 *' Sc 3)))))))).
Definition assort_prog := assort_prog_e (Pos (A_ i_ j_)).
Definition assort_prog_nz := assort_prog_e (Nz (A_ i_ j_)).
Definition dg_in := Sum k_ (Nz (A_ k_ i_)).
Definition dg_out := Sum k_ (Nz (A_ i_ k_)).
Definition st_in := Sum k_ (A_ k_ i_).
Definition st_out := Sum k_ (A_ i_ k_).
Definition t_assortativity_bin (flag : nat) : prog :=
  (match flag with
  | 0 => assort_prog_nz true dg_in dg_in
  | 1 => assort_prog_nz false dg_out dg_in
  | 2 => assort_prog_nz false dg_in dg_out
  | 3 => assort_prog_nz false dg_out dg_out
  | _ => assort_prog_nz false dg_in dg_in
  end)%nat.
Definition t_assortativity_wei (flag : nat) : prog :=
  (match flag with
  | 0 => assort_prog true st_in st_in
  | 1 => assort_prog false st_out st_in
  | 2 => assort_prog false st_in st_out
  | 3 => assort_prog false st_out st_out
  | _ => assort_prog false st_in st_in
  end)%nat.

(* --- spectral / LAPACK measures: only the DEFINING EQUATION is a term (vector 0 = candidate solution) --- *)
(* pagerank_centrality(A, d): (I - d A D^-1) r = (1-d)/N, D = column sums (0 replaced by 1); d = scalar 0 *)
Definition t_pagerank_residual : prog :=
  LetV 1 (If (Sum k_ (A_ k_ i_)) (Sum k_ (A_ k_ i_)) c1)
  (OutV (Vc 0 i_ -' Sc 0 *' Sum k_ (A_ i_ k_ /' Vc 1 k_ *' Vc 0 k_) -' (c1 -' Sc 0) /' Nn)).
(* eigenvector centrality: A v = lambda v; lambda = scalar 0 *)
Definition t_eigen_residual : prog := OutV (Sum k_ (A_ i_ k_ *' Vc 0 k_) -' Sc 0 *' Vc 0 i_).
(* subgraph centrality: truncation of sum_k (A^k)_ii / k! at order K (Horner, K nested lets) *)
Fixpoint sg_horner (K : nat) (r : prog) : prog :=
  match K with
  | O => r
  | S K' => LetM 1 (IEq i_ j_ +' Sum k_ (A_ i_ k_ *' Mx 1 k_ j_) /' Cst (inject_Z (Z.of_nat K))) (sg_horner K' r)
  end.
Definition t_subgraph_trunc (K : nat) : prog :=
  LetM 1 (IEq i_ j_) (sg_horner K (OutV (Mx 1 i_ i_))).


(* --- further measures --- *)
(* weighted directed clustering / transitivity (cbrt = primitive 1) *)
Definition wd_prelude (r : prog) : prog :=
  LetM 1 (cbrtW i_ j_ +' cbrtW j_ i_)
  (LetV 1 (Sum k_ (Nz (A_ i_ k_) +' Nz (A_ k_ i_)))
  (LetV 2 (Sum2 k_ l_ (S_ i_ k_ *' S_ k_ l_ *' S_ l_ i_) /' c2)
  (LetV 3 (Sum k_ (Nz (A_ i_ k_) *' Nz (A_ k_ i_))) r))).
Definition t_clustering_coef_wd : prog :=
  wd_prelude (OutV (If (Vc 2 i_) (Vc 2 i_ /' (Vc 1 i_ *' (Vc 1 i_ -' c1) -' c2 *' Vc 3 i_)) c0)).
Definition t_transitivity_wd : prog :=
  wd_prelude (OutS (Sum i_ (Vc 2 i_) /' Sum i_ (Vc 1 i_ *' (Vc 1 i_ -' c1) -' c2 *' Vc 3 i_))).
(* efficiency_wei (global): lengths 1/w *)
Definition t_efficiency_wei : prog :=
  dist_prog (c1 /' A_ i_ j_) (c1 /' A_ k_ j_)
    (OutS (Sum2 i_ j_ (If (Pos (D_ i_ j_)) (c1 /' D_ i_ j_) c0) /' (Nn *' Nn -' Nn))).
(* kcoreness_centrality_bu / _bd: coreness = number of k in 1..K whose k-core still contains the node
   (cores are nested); K = N-1 is supplied by the caller: a FAMILY of programs, one per K *)
Fixpoint kcoreness_acc (und : bool) (K : nat) (r : prog) : prog :=
  match K with
  | O => r
  | S K' =>
    IterV CNodes 1 c1
      (If (And (Op Lt (kc_deg und) (Cst (inject_Z (Z.of_nat K)))) (Pos (kc_deg und))) c0 (alive i_))
      (LetV 2 (Vc 2 i_ +' Pos (kc_deg und)) (kcoreness_acc und K' r))
  end.
Definition t_kcoreness (und : bool) (K : nat) : prog := LetV 2 c0 (kcoreness_acc und K (OutV (Vc 2 i_))).
(* betweenness_bin: number of shortest paths sigma by distance layers, then the pair-dependency sum *)
Definition Sg_ (x y : nat) : tm := Mx 2 x y.
Definition t_betweenness_bin : prog :=
  dist_prog c1 c1
  (IterM CNodes 2 (IEq i_ j_)
     (If (IEq i_ j_) c1
         (Sum k_ (Op Le c0 (D_ i_ k_) *' B_ k_ j_ *' Op Eqq (D_ i_ k_ +' c1) (D_ i_ j_) *' Sg_ i_ k_)))
  (OutV (Sum2 k_ l_ (Neq k_ i_ *' Neq l_ i_ *' Neq k_ l_ *' Pos (D_ k_ l_) *' Op Le c0 (D_ k_ i_) *' Op Le c0 (D_ i_ l_)
                      *' Op Eqq (D_ k_ i_ +' D_ i_ l_) (D_ k_ l_) *' Sg_ k_ i_ *' Sg_ i_ l_ /' Sg_ k_ l_)))).


(* charpath(distance_bin(A), include_infinite=False): eccentricity = max finite off-diagonal distance of the row,
   radius / diameter = min / max eccentricity *)
(* a row with no finite off-diagonal entry is fully masked: np.array(masked.max()) yields the fill value 1e20 *)
Definition ecc_tm : tm := Big BMax k_ (And (Neq i_ k_) (Op Le c0 (D_ i_ k_))) (D_ i_ k_) (Cst (inject_Z (10 ^ 20))).
Definition t_charpath_ecc : prog := dist_prog c1 c1 (OutV ecc_tm).
Definition t_charpath_radius : prog := dist_prog c1 c1 (LetV 1 ecc_tm (OutS (Big BMin k_ c1 (Vc 1 k_) c0))).
Definition t_charpath_diameter : prog := dist_prog c1 c1 (LetV 1 ecc_tm (OutS (Big BMax k_ c1 (Vc 1 k_) c0))).
(* findwalks: Wq[:,:,q] = (binarized A)^q, q >= 1 *)
Definition t_walks (q : nat) : prog :=
  IterM (CConst (pred q)) 1 (B_ i_ j_) (Sum k_ (G_ i_ k_ *' B_ k_ j_)) (OutM (G_ i_ j_)).
(* jdegree: J[a,b] = number of nodes with in-degree a and out-degree b; a, b = scalars 0, 1 *)
Definition t_jdegree_cell : prog := OutS (Sum i_ (Op Eqq dg_in (Sc 0) *' Op Eqq dg_out (Sc 1))).

(* dispatch table for the driver: measure id, small natural parameter *)
Definition measure_by_id (id k : nat) : prog :=
  (match id with
  | 0 => t_degrees_und | 1 => t_degrees_in | 2 => t_degrees_out | 3 => t_degrees_dir
  | 4 => t_strengths_und | 5 => t_strengths_dir
  | 6 => t_density_dir | 7 => t_density_und
  | 8 => t_clustering_coef_bu | 9 => t_clustering_coef_bd | 10 => t_transitivity_bd | 11 => t_transitivity_bu
  | 12 => t_clustering_coef_wu | 13 => t_transitivity_wu
  | 14 => t_matching_in | 15 => t_matching_out | 16 => t_matching_all
  | 17 => t_edge_nei_overlap
  | 18 => t_gtom k
  | 19 => t_flow_coef_total | 20 => t_flow_coef_fc
  | 21 => t_participation_coef | 22 => t_module_degree_zscore
  | 23 => t_distance_bin | 24 => t_distance_wei | 25 => t_efficiency_bin | 26 => t_charpath_lambda
  | 27 => t_reach
  | 28 => t_components_rel | 29 => t_components_size | 30 => t_number_of_components
  | 31 => t_kcore true | 32 => t_kcore false | 33 => t_kcore_kn true | 34 => t_kcore_kn false
  | 35 => t_score_wu
  | 36 => t_rich_club_bu | 37 => t_rich_club_bd
  | 38 => t_assortativity_bin k | 39 => t_assortativity_wei k
  | 40 => t_pagerank_residual | 41 => t_eigen_residual | 42 => t_subgraph_trunc k
  | 43 => t_kcoreness true k | 44 => t_kcoreness false k
  | 45 => t_clustering_coef_wd | 46 => t_transitivity_wd | 47 => t_efficiency_wei | 48 => t_betweenness_bin
  | 49 => t_charpath_ecc | 50 => t_charpath_radius | 51 => t_charpath_diameter | 52 => t_walks k | 53 => t_jdegree_cell
  | _ => OutS c0
  end)%nat.
Definition run_measure (prims : nat -> Q -> Q) (id k : nat) (A : list (list Q)) (ci ks : list Q) : list (list Q) :=
  run_prog prims (measure_by_id id k) A ci ks.
