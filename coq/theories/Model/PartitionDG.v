(* Model/PartitionDG.v — the two remaining partition consumers of centrality.py:
     diversity_coef_sign(W, ci)                 (Shannon entropy of the node-to-module strengths; log stays abstract)
     gateway_coef_sign(W, ci, 'degree')         AS THE CODE IS (open finding gateway_coef_sign:relabel), and
     gateway_coef_sign_repaired                 the form of proposed_fixes/gateway_coef_sign.diff.
   Labels are integers (Z), weights rationals (Q).  Definitions only. *)
From Coq Require Import QArith List Arith Bool ZArith Lia.
From BCT Require Import Base.Mat Base.SumQ Base.ListX Model.Partition.
Import ListNotations.
Open Scope Q_scope.

(* ---------- diversity_coef_sign ---------- *)
(*  def entropy(w_):                                       w_ = W*(W>0) or -W*(W<0): non-negative
        S = np.sum(w_, axis=1)
        for i in range(m): Snm[:, i] = np.sum(w_[:, ci == i + 1], axis=1)
        pnm = Snm / (np.tile(S, (m, 1)).T)
        pnm[np.isnan(pnm)] = 0                             0/0 (S = 0 forces Snm = 0 on a non-negative matrix)
        pnm[np.logical_not(pnm)] = 1
        return -np.sum(pnm * np.log(pnm), axis=1) / np.log(m)                                              *)
Definition dcs_snm (n : nat) (W : mat Q) (c : vec nat) (i u : nat) : Q :=
  sumQ (fun j => ind (Nat.eqb (c j) u) * W i j) n.
Definition dcs_pnm (n : nat) (W : mat Q) (c : vec nat) (i u : nat) : Q :=
  let S := sumQ (fun j => W i j) n in
  let p := if Qeq_bool S 0 then 0 else dcs_snm n W c i u / S in
  if Qeq_bool p 0 then 1 else p.
Definition dcs_entropy (log : Q -> Q) (n : nat) (W : mat Q) (c : vec nat) (i : nat) : Q :=
  let m := vmax n c in
  - sumM m (fun u => dcs_pnm n W c i u * log (dcs_pnm n W c i u)) / log (inject_Z (Z.of_nat m)).
Definition diversity_coef_sign (log : Q -> Q) (n : nat) (W : mat Q) (ci : vec Z) : vec Q * vec Q :=
  let c := relabel n ci in (dcs_entropy log n (pos_part W) c, dcs_entropy log n (neg_part W) c).

(* ---------- gateway_coef_sign, centrality_type = 'degree', as the code is ---------- *)
Definition zero_diag (W : mat Q) : mat Q := fun i j => if Nat.eqb i j then 0 else W i j.   (* np.fill_diagonal(W, 0) *)
(* s = np.sum(W, axis=1); cent = s.copy() *)
Definition gw_s (n : nat) (W : mat Q) (i : nat) : Q := sumQ (fun j => W i j) n.
(* Gc = np.inner((W != 0), np.diag(ci));  ks[:, u-1] = np.sum(W * (Gc == u), axis=1) *)
Definition gw_ks (n : nat) (W : mat Q) (c : vec nat) (i u : nat) : Q :=
  sumQ (fun j => W i j * ind (Nat.eqb (if qnzb (W i j) then c j else 0%nat) u)) n.
(* np.sum(ci == u) *)
Definition gw_cnt (n : nat) (c : vec nat) (u : nat) : nat := length (filter (fun v => Nat.eqb (c v) u) (seq 0 n)).
(* index of node v inside np.where(ci == c v)[0] (ascending node order) *)
Definition gw_pos (c : vec nat) (v : nat) : nat := length (filter (fun v' => Nat.eqb (c v') (c v)) (seq 0 v)).
(* centrality = np.sum(cent[ci == u]); if centrality > max_centrality: max_centrality = centrality   (from 0) *)
Definition gw_maxc (n : nat) (s : vec Q) (c : vec nat) (K : nat) : Q :=
  fold_left (fun mx u => let cen := sumQ (fun v => ind (Nat.eqb (c v) u) * s v) n in
                         if negb (Qle_bool cen mx) then cen else mx) (seq 1 K) 0.
(* kj = np.ones((cnt_u, 1)) * np.sum(ks[ci == u, :]) ; kj[u-1] /= 2   raises IndexError when u-1 >= cnt_u *)
Definition gw_raises (n : nat) (c : vec nat) (K : nat) : bool :=
  existsb (fun u => (Nat.ltb 1 (gw_cnt n c u) && Nat.leb (gw_cnt n c u) (pred u))%bool) (seq 1 K).
Definition gcoef (n : nat) (W : mat Q) (c : vec nat) (K : nat) : vec Q :=
  let s := tabv 0 n (gw_s n W) in
  let ks := tab 0 n (S K) (fun i u => gw_ks n W c i u) in
  (* T u = np.sum(ks[ci == u, :]) : one number per module *)
  let T := tabv 0 (S K) (fun u => sumQ (fun v => ind (Nat.eqb (c v) u) * sumM K (ks v)) n) in
  let cnt := tabv 0%nat (S K) (gw_cnt n c) in
  let maxc := gw_maxc n s c K in
  (* kjs[ci == u, :] = kj : row r of the module (node order) gets kj[r] in EVERY column; modules of one node keep 0 *)
  let kjs := tabv 0 n (fun v => let u := c v in
               if Nat.ltb 1 (cnt u) then (if Nat.eqb (gw_pos c v) (pred u) then T u / 2 else T u) else 0) in
  (* in_mod_nodes, = np.where(ci == u); neighbs, = np.where(W[in_mod_nodes, i] > 0); cs[i, u-1] = np.sum(cent[neighbs])
     : cent is indexed with positions INSIDE the module *)
  let cs := fun i u => if qpos (s i) then
               sumQ (fun v => if (Nat.eqb (c v) u && qpos (W v i))%bool then s (gw_pos c v) else 0) n else 0 in
  tabv 0 n (fun i =>
    if Qeq_bool (s i) 0 then 0 else                                  (* ks**2 / sm**2 = 0/0 = nan -> Gw = 0 *)
    1 - sumM K (fun u =>
          let ksm := if Qeq_bool (kjs i) 0 then 0 else ks i u / kjs i in   (* ksm[np.where(kjs == 0)] = 0 *)
          let centm := cs i u / maxc in
          (ks i u * ks i u) / (s i * s i) * ((1 - ksm * centm) * (1 - ksm * centm)))).
Definition gateway_coef_sign (n : nat) (W : mat Q) (ci : vec Z) : option (vec Q * vec Q) :=
  let c := relabel n ci in
  let K := vmax n c in
  let W0 := zero_diag W in
  if gw_raises n c K then None else Some (gcoef n (pos_part W0) c K, gcoef n (neg_part W0) c K).

(* ---------- gateway_coef_sign as repaired by proposed_fixes/gateway_coef_sign.diff ----------
     kj = np.ones((cnt_u, 1)) * np.sum(ks[ci == u, :], axis=0) ; kj[:, u-1] /= 2 ; kjs[ci == u, :] = kj
     neighbs = in_mod_nodes[W[in_mod_nodes, i] > 0] ; cs[i, u-1] = np.sum(cent[neighbs])                      *)
Definition gwr_ks (n : nat) (W : mat Q) (c : vec nat) (i u : nat) : Q := gw_ks n W c i u.
Definition gwr_kjs (n : nat) (W : mat Q) (c : vec nat) (v u' : nat) : Q :=
  if Nat.ltb 1 (gw_cnt n c (c v)) then
    let col := sumQ (fun v' => ind (Nat.eqb (c v') (c v)) * gw_ks n W c v' u') n in
    if Nat.eqb (c v) u' then col / 2 else col
  else 0.
Definition gwr_cs (n : nat) (W : mat Q) (c : vec nat) (i u : nat) : Q :=
  if qpos (gw_s n W i) then sumQ (fun v => if (Nat.eqb (c v) u && qpos (W v i))%bool then gw_s n W v else 0) n else 0.
Definition gcoef_repaired (n : nat) (W : mat Q) (c : vec nat) (K : nat) (i : nat) : Q :=
  let maxc := gw_maxc n (gw_s n W) c K in
  if Qeq_bool (gw_s n W i) 0 then 0 else
  1 - sumM K (fun u =>
        let ksm := if Qeq_bool (gwr_kjs n W c i u) 0 then 0 else gw_ks n W c i u / gwr_kjs n W c i u in
        let centm := gwr_cs n W c i u / maxc in
        (gw_ks n W c i u * gw_ks n W c i u) / (gw_s n W i * gw_s n W i) * ((1 - ksm * centm) * (1 - ksm * centm))).
Definition gateway_coef_sign_repaired (n : nat) (W : mat Q) (ci : vec Z) : vec Q * vec Q :=
  let c := relabel n ci in
  let K := vmax n c in
  let W0 := zero_diag W in
  (gcoef_repaired n (pos_part W0) c K, gcoef_repaired n (neg_part W0) c K).

(* ---------- executable interface ---------- *)
(* the (n x m) matrices pnm of the positive and of the negative part; the harness applies -sum(p log p)/log(m) *)
Definition run_dcs (rows : list (list Q)) (ci : list Z) : list (list Q) * list (list Q) :=
  let n := length rows in
  let W := of_rows 0 rows in
  let c := relabel n (of_list 0%Z ci) in
  let m := vmax n c in
  (to_rows n m (fun i u => Qred (dcs_pnm n (pos_part W) c i (S u))),
   to_rows n m (fun i u => Qred (dcs_pnm n (neg_part W) c i (S u)))).
Definition run_gw (rows : list (list Q)) (ci : list Z) : option (list Q * list Q) :=
  let n := length rows in
  match gateway_coef_sign n (of_rows 0 rows) (of_list 0%Z ci) with
  | None => None
  | Some (p, q) => Some (qv n p, qv n q)
  end.
Definition run_gw_repaired (rows : list (list Q)) (ci : list Z) : list Q * list Q :=
  let n := length rows in
  let r := gateway_coef_sign_repaired n (of_rows 0 rows) (of_list 0%Z ci) in (qv n (fst r), qv n (snd r)).
