(* Model/NbsApi.v — bct/nbs.py: nbs_bct, the call as a whole: the argument checks in front of
   the computation of Model/Nbs.v and the exception each failure raises, in the order in which
   the code reaches them.  Definitions only.
     py 132-133  tail not in ('both','left','right')      -> BCTParamError  [ETail]
     py 135-141  not ix == jx == iy == jy                   -> BCTParamError  [EShape]
     py 143-144  paired and nx != ny                        -> BCTParamError  [EPairedSize]
     py 170-173  no t_stat > thresh                         -> BCTParamError  [EUnsuitable]
     py 197-201  no component with more than one node       -> BCTParamError  [EDegenerate]
     py 210-245  (replay only) a recorded draw of the wrong kind             [EDraw]
     py 262-263  k = 0: `... / k`                            -> ZeroDivisionError [EZeroDiv]
   The tail string is a code: 0 'both', 1 'left', 2 'right', anything else = another string.
   ix jx iy jy are x.shape[0], x.shape[1], y.shape[0], y.shape[1]; nx, ny are the stack lengths.
   Also here: the relabelled stacks a recorded draw denotes (specification vocabulary). *)
From Coq Require Import QArith List Arith Bool ZArith.
From BCT Require Import Base.Mat Base.ListX Model.Components Model.Nbs.
Import ListNotations.

Inductive nbs_exn := ETail | EShape | EPairedSize | EUnsuitable | EDegenerate | EDraw | EZeroDiv.

Definition nbs_full (tailcode ix jx iy jy : nat) (xs ys : list (mat Q)) (thr : Q) (paired : bool)
           (draws : list draw) : nbs_exn + (list Q * mat Z * list Q) :=
  if (2 <? tailcode)%nat then inl ETail
  else if negb ((ix =? jx)%nat && (jx =? iy)%nat && (iy =? jy)%nat) then inl EShape
  else
    let n := ix in
    let tl := tail_of_nat tailcode in
    let nx := length xs in
    let ny := length ys in
    if (paired && negb (nx =? ny)%nat)%bool then inl EPairedSize
    else
      let xmat := vectorize n xs in
      let ymat := vectorize n ys in
      let mask := tmask paired tl thr xmat ymat in
      match selected n mask with
      | [] => inl EUnsuitable
      | _ :: _ =>
          match observed n mask with
          | None => inl EDegenerate
          | Some (szl, adj) =>
              match null_loop n paired tl thr nx ny xmat ymat draws with
              | None => inl EDraw
              | Some null =>
                  match draws with
                  | [] => inl EZeroDiv
                  | _ :: _ => inr (pvals_of szl null (length draws), adj, null)
                  end
              end
          end
      end.

Definition exn_code (e : nbs_exn) : nat :=
  match e with
  | ETail => 1 | EShape => 2 | EPairedSize => 3 | EUnsuitable => 4 | EDegenerate => 5 | EDraw => 6 | EZeroDiv => 7
  end.

(* ---------- the relabelling of subjects a recorded draw denotes ---------- *)
Definition zmat : mat Q := fun _ _ => 0%Q.

(* unpaired: the concatenated stack x|y re-indexed by the drawn permutation; the first nx
   matrices form group 1, the last ny group 2 *)
Definition relabel_unpaired (nx ny : nat) (p : list nat) (xs ys : list (mat Q)) : list (mat Q) * list (mat Q) :=
  let d := map (fun q => nth q (xs ++ ys) zmat) p in
  (firstn nx d, skipn (length d - ny) d).

(* paired: pair j is kept when rand_j < 1/2, exchanged when rand_j > 1/2 (np.sign(0.5 - rand) = -1);
   rand_j = 1/2 exactly: np.sign gives 0, both members are multiplied by 0 *)
Definition relabel_pair (t : mat Q * mat Q * Q) : mat Q * mat Q :=
  let '(X, Y, r) := t in
  if qlt r (1 # 2) then (X, Y) else if qlt (1 # 2) r then (Y, X) else (zmat, zmat).
Definition relabel_paired (r : list Q) (xs ys : list (mat Q)) : list (mat Q) * list (mat Q) :=
  let t := map relabel_pair (combine (combine xs ys) r) in (map fst t, map snd t).

Definition relabelled (paired : bool) (nx ny : nat) (d : draw) (xs ys : list (mat Q))
  : option (list (mat Q) * list (mat Q)) :=
  match paired, d with
  | false, DPerm p => Some (relabel_unpaired nx ny p xs ys)
  | true, DRand r => Some (relabel_paired r xs ys)
  | _, _ => None
  end.

Definition draw_ok (paired : bool) (d : draw) : bool :=
  match paired, d with false, DPerm _ => true | true, DRand _ => true | _, _ => false end.

(* ---------- executable interface ---------- *)
Definition run_nbs_full (tailcode ix jx iy jy : nat) (xs ys : list (list (list Q))) (thr : Q) (paired : bool)
           (perms : list (list nat)) (rands : list (list Q))
  : nat + (list Q * list (list Z) * list Q) :=
  let draws := if paired then map DRand rands else map DPerm perms in
  match nbs_full tailcode ix jx iy jy (map (of_rows 0%Q) xs) (map (of_rows 0%Q) ys) thr paired draws with
  | inl e => inl (exn_code e)
  | inr (p, adj, null) => inr (map Qred p, to_rows ix ix adj, map Qred null)
  end.
