(* Model/PartitionDV.v — statement-level model of
     bct/utils/miscellaneous_utilities.py: dummyvar(cis)          (argsort / mask / indptr / scipy CSC matrix -> dense)
     bct/algorithms/clustering.py:        agreement(ci, buffsz)   (one block, or the buffsz chunking; diagonal cleared)
   Model/Partition.v holds the SEMANTIC model `agreement` (number of partitions that join i and j);
   Proofs/PartitionDV.v proves the two equal for every sorting permutation the argsort may return.
   Labels are integers (Z); the entries of the 0/1 matrices are rationals (Q).  Definitions only. *)
From Coq Require Import QArith List Arith Bool ZArith Lia.
From BCT Require Import Base.Mat Base.SumQ Base.ListX Model.Partition.
Import ListNotations.
Open Scope Q_scope.

(* ---------- dummyvar(cis), cis an (n x m) array: column p = partition p ----------
   cis p   : the label vector cis[:, p]
   ix p    : column p of  ix = np.argsort(cis, axis=0)  -- an ORACLE: the default quicksort is not stable, any permutation
             of 0..n-1 that sorts the column may come back (the theorems quantify over all of them)              *)
Section DV.
Variables (n m : nat) (cis : nat -> vec Z) (ix : nat -> vec nat).

(* s_cis = cis[ix][:, range(m), range(m)]        s_cis[k, p] = cis[ix[k, p], p] *)
Definition dv_scis (k p : nat) : Z := cis p (ix p k).
(* mask = np.hstack((((True,),) * m, (s_cis[:-1, :] != s_cis[1:, :]).T))     shape (m, n);  mask.flat[p*n + k] *)
Definition dv_mask (q : nat) : bool :=
  let p := (q / n)%nat in let k := (q mod n)%nat in
  if Nat.eqb k 0 then true else negb (Z.eqb (dv_scis (pred k) p) (dv_scis k p)).
(* nnz = np.prod(cis.shape) *)
Definition dv_nnz : nat := (n * m)%nat.
(* indptr, = np.where(mask.flat); indptr = np.append(indptr, nnz) *)
Definition dv_indptr : list nat := filter dv_mask (seq 0 dv_nnz) ++ [dv_nnz].
(* ix.T.flat[p*n + k] = ix[k, p] *)
Definition dv_indices (q : nat) : nat := ix (q / n)%nat (q mod n)%nat.
(* r = sum(len(np.unique(cis[:, i])) for i in range(m))       (the shape handed to scipy, which insists on
   len(indptr) == r + 1: Proofs/PartitionDV.v, dummyvar_shape) *)
Definition dv_r : nat :=
  fold_right plus 0%nat (map (fun p => length (nodup Z.eq_dec (to_list n (cis p)))) (seq 0 m)).
(* dv = sp.csc_matrix((np.repeat((1,), nnz), ix.T.flat, indptr), shape=(n, r)); dv.toarray():
   column r holds the data (ones) of positions indptr[r] .. indptr[r+1]-1 at the rows indices[position]; duplicates add *)
Definition dv_entry (indptr : list nat) (i r : nat) : Q :=
  let a := nth r indptr 0%nat in let b := nth (S r) indptr 0%nat in
  sumQ (fun t => ind (Nat.eqb (dv_indices (a + t)) i)) (b - a).
Definition dummyvar (i r : nat) : Q := dv_entry dv_indptr i r.
End DV.

(* ---------- agreement(ci, buffsz) ---------- *)
(* np.arange(lo, hi, step), step > 0 *)
Definition arange (lo hi step : nat) : list nat :=
  map (fun t => (lo + t * step)%nat) (seq 0 ((hi - lo + step - 1) / step)).
(* y = ci[:, a:b]; ind = dummyvar(y); np.dot(ind, ind.T)       (a = 0, b = m when everything is used at once) *)
Definition agree_block (n : nat) (cis : nat -> vec Z) (ix : nat -> vec nat) (a b : nat) : mat Q :=
  let m' := (b - a)%nat in
  let cis' := fun p => cis (a + p)%nat in
  let ix' := fun p => ix (a + p)%nat in
  let indptr := dv_indptr n m' cis' ix' in
  let R := dv_r n m' cis' in
  let dv := tab 0 n R (fun i r => dv_entry n ix' indptr i r) in
  fun i j => sumQ (fun r => dv i r * dv j r) R.
(* if n_partitions <= buffsz: one block
   else: a = np.arange(0, n_partitions, buffsz); b = np.arange(buffsz, n_partitions, buffsz)
         if len(a) != len(b): b = np.append(b, n_partitions)
         D = zeros; for i, j in zip(a, b): D += np.dot(ind, ind.T) of ci[:, i:j]
   np.fill_diagonal(D, 0) *)
Definition agree_chunks (m buffsz : nat) : list (nat * nat) :=
  let a := arange 0 m buffsz in
  let b0 := arange buffsz m buffsz in
  let b := if Nat.eqb (length a) (length b0) then b0 else b0 ++ [m] in
  combine a b.
Definition agreement_stmt (n m : nat) (cis : nat -> vec Z) (ix : nat -> vec nat) (buffsz : nat) : mat Q :=
  let D := if Nat.leb m buffsz then agree_block n cis ix 0 m
           else fold_left (fun (D : mat Q) ab =>
                             let blk := agree_block n cis ix (fst ab) (snd ab) in
                             tab 0 n n (fun i j => D i j + blk i j))
                          (agree_chunks m buffsz) (fun _ _ => 0) in
  fun i j => if Nat.eqb i j then 0 else D i j.

(* the hypothesis on the argsort oracle: column p of ix is a permutation of 0..n-1 (into, injective) that sorts cis[:, p] *)
Definition sorting_perm (n : nat) (c : vec Z) (s : vec nat) : Prop :=
  (forall k, (k < n)%nat -> (s k < n)%nat) /\
  (forall k k', (k < n)%nat -> (k' < n)%nat -> s k = s k' -> k = k') /\
  (forall k, (S k < n)%nat -> (c (s k) <= c (s (S k)))%Z).

(* ---------- executable interface: partitions and argsort columns as lists ---------- *)
Definition run_dummyvar (n : nat) (cols : list (list Z)) (ixs : list (list nat)) : list (list Q) * (nat * nat) :=
  let m := length cols in
  let cis := fun p => of_list 0%Z (nth p cols []) in
  let ix := fun p => of_list 0%nat (nth p ixs []) in
  let indptr := dv_indptr n m cis ix in
  let R := dv_r n m cis in
  (to_rows n R (fun i r => dv_entry n ix indptr i r), (R, length indptr)).
Definition run_agreement_stmt (n : nat) (cols : list (list Z)) (ixs : list (list nat)) (buffsz : nat) : list (list Q) :=
  let m := length cols in
  let D := agreement_stmt n m (fun p => of_list 0%Z (nth p cols [])) (fun p => of_list 0%nat (nth p ixs [])) buffsz in
  to_rows n n (fun i j => Qred (D i j)).
