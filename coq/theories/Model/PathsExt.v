(* Model/PathsExt.v — navigation_wu, top level with the division by n**2 - n (definitions only).
   sr = 1 - (len(inf_ixes) - n)/(n**2 - n) is computed on Python ints AFTER the loops: for n <= 1 the loops are empty and
   the division raises ZeroDivisionError. *)
From Coq Require Import QArith List Arith Bool ZArith Lia.
From BCT Require Import Base.Mat Base.ListX Model.Distance Model.Paths.
Import ListNotations.
Open Scope Q_scope.

Inductive nav_outcome := NavRaises | NavOutOfFuel | NavDone (sr : Q) (rs : list navres).

Definition navigation_wu_x (fuel n : nat) (L D : mat Q) (mh : option nat) : nav_outcome :=
  match navigation_wu fuel n L D mh with
  | None => NavOutOfFuel
  | Some (sr, rs) => if Nat.eqb (n * n - n) 0 then NavRaises else NavDone sr rs
  end.

(* executable interface: (0, _) = raises ZeroDivisionError, (1, _) = out of fuel, (2, Some result) *)
Definition run_nav_x (fuel : nat) (Lrows Drows : list (list Q)) (mh : option nat)
  : nat * option (Q * list (list nat * (option nat * (option Q * option Q)))) :=
  let n := length Lrows in
  match navigation_wu_x fuel n (of_rows 0 Lrows) (of_rows 0 Drows) mh with
  | NavRaises => (0%nat, None)
  | NavOutOfFuel => (1%nat, None)
  | NavDone sr rs =>
    (2%nat, Some (Qred sr, map (fun r => (nv_path r, (nv_bin r, (ored (nv_wei r), ored (nv_dis r))))) rs))
  end.
