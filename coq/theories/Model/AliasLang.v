(* Model/AliasLang.v — C13: a small imperative language over names and abstract array locations,
   its concrete semantics (heap of array cells), and the alias/mutation checker.
   Definitions only; the lemmas are in Proofs/AliasLang.v.

   The programs of this language are GENERATED from the Python source of bct on every run
   (harness/translate_alias.py -> Gen/Alias.v): one [fundef] per function (public, private helper,
   lambda-lifted nested def). *)
From Coq Require Import List String Bool Arith.
Import ListNotations.
Open Scope string_scope.

Definition name := string.
Definition loc := nat.

(* right-hand sides of a binding *)
Inductive rhs :=
| Fresh                 (* a newly allocated array with arbitrary contents (arithmetic, np.zeros, fancy indexing, ...) *)
| CopyOf (y : name)     (* a newly allocated array holding the contents of y (y.copy(), np.array(y), y.astype(..)) *)
| AliasOf (y : name)    (* anything that MAY share memory with y: y itself, y.T, basic slice, np.asarray, squeeze,
                           reshape, ravel, .flat, iteration over y, containers holding y, ... *)
| Unknown.              (* may point anywhere *)

(* how a call site sets the callee's copy flag *)
Inductive flagarg := FTrue | FFalse | FSame | FAny.

Inductive cmd :=
| Skip
| Bind (x : name) (r : rhs)
| Mutate (x : name)       (* subscript store, augmented assignment, np.fill_diagonal, .sort(), .flat[..]=, out=, ... *)
| CallFn (x : name) (f : name) (args : list name) (fl : flagarg)   (* x = f(args) for a bct function f *)
| Return (x : name)
| Raise                   (* raise: never completes normally (its only run is E_Raise) *)
| Seq (c1 c2 : cmd)
| Choice (c1 c2 : cmd)    (* if / else on data *)
| Loop (c : cmd)          (* for / while: any number of iterations *)
| IfFlag (c1 c2 : cmd)    (* if copy: c1 else: c2 *)
| Try (c h : cmd).        (* try: c except: h *)

Record fundef := mkfun {
  fname : name;
  fparams : list name;     (* all formal parameters, positional *)
  farr : list name;        (* those that may hold caller arrays (numpydoc kind; everything not clearly scalar) *)
  fmut_t : list name;      (* parameters whose array the body may write when the copy flag is true *)
  fmut_f : list name;      (* idem when the copy flag is false *)
  fret_t : bool;           (* the result may share memory with a protected location (flag true) *)
  fret_f : bool;           (* idem, flag false *)
  fpublic : bool;          (* exported in the bct namespace *)
  fcopyutil : bool;        (* thresholding / weight-conversion utility with an explicit copy option *)
  fcontract : bool;        (* claims: with copy=False the result IS the first argument *)
  fbody : cmd }.

Definition lookup (prog : list fundef) (f : name) : option fundef :=
  find (fun fd => String.eqb (fname fd) f) prog.

(* ------------------------------------------------------------------ concrete semantics *)
Section Semantics.
Variable val : Type.               (* contents of one array cell block: values, dtype, shape — anything *)
Variable prog : list fundef.

Record state := mkst { env : name -> option loc; heap : loc -> val; next : loc; flag : bool }.

Inductive outcome :=
| Normal (s : state)
| Returned (s : state) (r : option loc)
| Raised (s : state).

Definition st_of (o : outcome) : state :=
  match o with Normal s => s | Returned s _ => s | Raised s => s end.

Definition upd_env (e : name -> option loc) (x : name) (v : option loc) : name -> option loc :=
  fun y => if String.eqb y x then v else e y.
Definition upd_heap (h : loc -> val) (l : loc) (v : val) : loc -> val :=
  fun l' => if Nat.eqb l' l then v else h l'.

Fixpoint bind_params (ps : list name) (ls : list (option loc)) : name -> option loc :=
  match ps, ls with
  | p :: ps', l :: ls' => upd_env (bind_params ps' ls') p l
  | _, _ => fun _ => None
  end.

Definition callee_flag (fl : flagarg) (cur b : bool) : Prop :=
  match fl with FTrue => b = true | FFalse => b = false | FSame => b = cur | FAny => True end.

(* what the caller sees when the callee finishes with outcome o *)
Definition call_ret (x : name) (s : state) (o : outcome) : outcome :=
  match o with
  | Normal sc => Normal (mkst (upd_env (env s) x None) (heap sc) (next sc) (flag s))
  | Returned sc r => Normal (mkst (upd_env (env s) x r) (heap sc) (next sc) (flag s))
  | Raised sc => Raised (mkst (env s) (heap sc) (next sc) (flag s))
  end.

Inductive exec : cmd -> state -> outcome -> Prop :=
| E_Raise : forall c s, exec c s (Raised s)      (* any command may raise before doing anything: every
                                                    intermediate state of every run is a [Raised] outcome *)
| E_Skip : forall s, exec Skip s (Normal s)
| E_Fresh : forall x s v,
    exec (Bind x Fresh) s
      (Normal (mkst (upd_env (env s) x (Some (next s))) (upd_heap (heap s) (next s) v) (S (next s)) (flag s)))
| E_Copy : forall x y s l, env s y = Some l ->
    exec (Bind x (CopyOf y)) s
      (Normal (mkst (upd_env (env s) x (Some (next s))) (upd_heap (heap s) (next s) (heap s l)) (S (next s)) (flag s)))
| E_CopyNone : forall x y s v, env s y = None ->     (* y holds no array (scalar, global): behaves like Fresh *)
    exec (Bind x (CopyOf y)) s
      (Normal (mkst (upd_env (env s) x (Some (next s))) (upd_heap (heap s) (next s) v) (S (next s)) (flag s)))
| E_Alias : forall x y s,
    exec (Bind x (AliasOf y)) s (Normal (mkst (upd_env (env s) x (env s y)) (heap s) (next s) (flag s)))
| E_Unknown : forall x s l,
    exec (Bind x Unknown) s (Normal (mkst (upd_env (env s) x l) (heap s) (next s) (flag s)))
| E_Mutate : forall x s l v, env s x = Some l ->       (* ARBITRARY new contents *)
    exec (Mutate x) s (Normal (mkst (env s) (upd_heap (heap s) l v) (next s) (flag s)))
| E_MutateNone : forall x s, env s x = None ->        (* x holds no array: nothing in the heap changes *)
    exec (Mutate x) s (Normal s)
| E_Return : forall x s, exec (Return x) s (Returned s (env s x))
| E_SeqN : forall c1 c2 s s1 o, exec c1 s (Normal s1) -> exec c2 s1 o -> exec (Seq c1 c2) s o
| E_SeqR : forall c1 c2 s s1 r, exec c1 s (Returned s1 r) -> exec (Seq c1 c2) s (Returned s1 r)
| E_SeqX : forall c1 c2 s s1, exec c1 s (Raised s1) -> exec (Seq c1 c2) s (Raised s1)
| E_ChoiceL : forall c1 c2 s o, exec c1 s o -> exec (Choice c1 c2) s o
| E_ChoiceR : forall c1 c2 s o, exec c2 s o -> exec (Choice c1 c2) s o
| E_LoopDone : forall c s, exec (Loop c) s (Normal s)
| E_LoopStep : forall c s s1 o, exec c s (Normal s1) -> exec (Loop c) s1 o -> exec (Loop c) s o
| E_LoopR : forall c s s1 r, exec c s (Returned s1 r) -> exec (Loop c) s (Returned s1 r)
| E_LoopX : forall c s s1, exec c s (Raised s1) -> exec (Loop c) s (Raised s1)
| E_IfT : forall c1 c2 s o, flag s = true -> exec c1 s o -> exec (IfFlag c1 c2) s o
| E_IfF : forall c1 c2 s o, flag s = false -> exec c2 s o -> exec (IfFlag c1 c2) s o
| E_TryPass : forall c h s o, exec c s o -> exec (Try c h) s o       (* no exception, or not caught *)
| E_TryCatch : forall c h s s1 o, exec c s (Raised s1) -> exec h s1 o -> exec (Try c h) s o
| E_Call : forall x f args fl s fd b o,
    lookup prog f = Some fd -> callee_flag fl (flag s) b ->
    exec (fbody fd) (mkst (bind_params (fparams fd) (map (env s) args)) (heap s) (next s) b) o ->
    exec (CallFn x f args fl) s (call_ret x s o).

End Semantics.

Arguments mkst {val}. Arguments env {val}. Arguments heap {val}. Arguments next {val}. Arguments flag {val}.
Arguments Normal {val}. Arguments Returned {val}. Arguments Raised {val}. Arguments st_of {val}.
Arguments upd_heap {val}. Arguments call_ret {val}.

(* ------------------------------------------------------------------ finite sets of names *)
Definition mem (x : name) (T : list name) : bool := existsb (String.eqb x) T.
Definition add (x : name) (T : list name) : list name := if mem x T then T else x :: T.
Definition remove (x : name) (T : list name) : list name := filter (fun y => negb (String.eqb y x)) T.
Definition union (T1 T2 : list name) : list name := fold_right add T2 T1.
Definition subset (T1 T2 : list name) : bool := forallb (fun x => mem x T2) T1.
Definition minus (M B : list name) : list name := filter (fun x => negb (mem x B)) M.
Definition inter (M1 M2 : list name) : list name := filter (fun x => mem x M2) M1.
Definition nilb {A} (l : list A) : bool := match l with [] => true | _ => false end.

(* ------------------------------------------------------------------ abstract interpreter *)
(* names that a command may (re)bind to something that is not certainly fresh *)
Fixpoint mb (c : cmd) : list name :=
  match c with
  | Bind x (AliasOf _) => [x]
  | Bind x Unknown => [x]
  | CallFn x _ _ _ => [x]
  | Seq a b => mb a ++ mb b
  | Choice a b => mb a ++ mb b
  | IfFlag a b => mb a ++ mb b
  | Try a b => mb a ++ mb b
  | Loop a => mb a
  | _ => []
  end.

(* all names a command may bind *)
Fixpoint bound (c : cmd) : list name :=
  match c with
  | Bind x _ => [x]
  | CallFn x _ _ _ => [x]
  | Seq a b => bound a ++ bound b
  | Choice a b => bound a ++ bound b
  | IfFlag a b => bound a ++ bound b
  | Try a b => bound a ++ bound b
  | Loop a => bound a
  | _ => []
  end.

Definition flags_of (fl : flagarg) (cur : bool) : list bool :=
  match fl with FTrue => [true] | FFalse => [false] | FSame => [cur] | FAny => [true; false] end.

Definition fmut (fd : fundef) (b : bool) := if b then fmut_t fd else fmut_f fd.
Definition fret (fd : fundef) (b : bool) := if b then fret_t fd else fret_f fd.
(* parameters whose arrays the function promises not to write, for flag value b *)
Definition protected (fd : fundef) (b : bool) : list name :=
  filter (fun p => negb (mem p (fmut fd b))) (farr fd).

(* a possibly-protected actual may only go to a formal the callee promises not to write *)
Fixpoint args_ok (T Tc : list name) (ps args : list name) : bool :=
  match ps, args with
  | p :: ps', a :: args' => (negb (mem a T) || mem p Tc) && args_ok T Tc ps' args'
  | _, _ => true
  end.

(* iteration to a CHECKED post-fixpoint *)
Fixpoint loop_fix (F : list name -> option (list name * bool)) (fuel : nat) (T : list name)
  : option (list name * bool) :=
  match fuel with
  | 0 => None
  | S k => match F T with
           | None => None
           | Some (T', R) => if subset T' T then Some (T, R) else loop_fix F k (union T' T)
           end
  end.

(* [may_alias_params prog c T cur]: T = names that may point into a protected (caller) location before c.
   None  = c may write through such a name (REJECT);
   Some (T', R) = set after c, and R = "some Return inside c may return a protected location". *)
Fixpoint may_alias_params (prog : list fundef) (c : cmd) (T : list name) (cur : bool) {struct c}
  : option (list name * bool) :=
  match c with
  | Skip => Some (T, false)
  | Bind x Fresh => Some (remove x T, false)
  | Bind x (CopyOf _) => Some (remove x T, false)
  | Bind x (AliasOf y) => Some (if mem y T then add x T else remove x T, false)
  | Bind x Unknown => Some (add x T, false)
  | Mutate x => if mem x T then None else Some (T, false)
  | Return x => Some (T, mem x T)
  | Raise => Some (T, false)
  | CallFn x f args fl =>
      match lookup prog f with
      | None => None
      | Some fd =>
          if forallb (fun b => args_ok T (protected fd b) (fparams fd) args) (flags_of fl cur)
          then Some (if existsb (fret fd) (flags_of fl cur) then add x T else remove x T, false)
          else None
      end
  | Seq a b =>
      match may_alias_params prog a T cur with
      | None => None
      | Some (T1, R1) =>
          match may_alias_params prog b T1 cur with
          | None => None
          | Some (T2, R2) => Some (T2, R1 || R2)
          end
      end
  | Choice a b =>
      match may_alias_params prog a T cur, may_alias_params prog b T cur with
      | Some (T1, R1), Some (T2, R2) => Some (union T1 T2, R1 || R2)
      | _, _ => None
      end
  | IfFlag a b => if cur then may_alias_params prog a T cur else may_alias_params prog b T cur
  | Loop a => loop_fix (fun T0 => may_alias_params prog a T0 cur) (S (S (List.length (mb a)))) T
  | Try a h =>
      match may_alias_params prog a T cur, may_alias_params prog h (union T (mb a)) cur with
      | Some (T1, R1), Some (T2, R2) => Some (union T1 T2, R1 || R2)
      | _, _ => None
      end
  end.

(* ------------------------------------------------------------------ must-alias analysis for the copy=False contract *)
(* M = names that certainly hold the location of the first parameter *)
Fixpoint must_alias (prog : list fundef) (c : cmd) (M : list name) (cur : bool) {struct c} : option (list name) :=
  match c with
  | Skip => Some M
  | Raise => Some M
  | Mutate _ => Some M
  | Bind x (AliasOf y) => Some (if mem y M then add x M else remove x M)
  | Bind x _ => Some (remove x M)
  | CallFn x f args fl =>
      match lookup prog f, args with
      | Some fd, a :: _ =>
          if mem a M && fcontract fd && forallb negb (flags_of fl cur) then Some (add x M) else Some (remove x M)
      | _, _ => Some (remove x M)
      end
  | Return x => if mem x M then Some M else None
  | Seq a b => match must_alias prog a M cur with None => None | Some M1 => must_alias prog b M1 cur end
  | Choice a b =>
      match must_alias prog a M cur, must_alias prog b M cur with
      | Some M1, Some M2 => Some (inter M1 M2)
      | _, _ => None
      end
  | IfFlag a b => if cur then must_alias prog a M cur else must_alias prog b M cur
  | Loop a => match must_alias prog a (minus M (bound a)) cur with Some _ => Some (minus M (bound a)) | None => None end
  | Try a h =>
      match must_alias prog a M cur, must_alias prog h (minus M (bound a)) cur with
      | Some M1, Some M2 => Some (inter M1 M2)
      | _, _ => None
      end
  end.

(* every complete run of c ends in a Return (or an exception) *)
Fixpoint always_returns (c : cmd) (cur : bool) : bool :=
  match c with
  | Return _ => true
  | Raise => true
  | Seq a b => always_returns a cur || always_returns b cur
  | Choice a b => always_returns a cur && always_returns b cur
  | IfFlag a b => if cur then always_returns a cur else always_returns b cur
  | Try a h => always_returns a cur && always_returns h cur
  | _ => false
  end.

(* ------------------------------------------------------------------ the checker *)
(* the declared summary (fmut, fret) of fd is respected by its body, for both flag values *)
Definition check_body_flag (prog : list fundef) (fd : fundef) (b : bool) : bool :=
  match may_alias_params prog (fbody fd) (protected fd b) b with
  | Some (_, R) => implb R (fret fd b)
  | None => false
  end.
Definition check_body (prog : list fundef) (fd : fundef) : bool :=
  check_body_flag prog fd true && check_body_flag prog fd false.

Definition check_contract (prog : list fundef) (fd : fundef) : bool :=
  negb (fcontract fd) ||
  match fparams fd with
  | p :: _ => match must_alias prog (fbody fd) [p] false with Some _ => always_returns (fbody fd) false | None => false end
  | [] => false
  end.

(* a public function declares that it writes no parameter; only a copy utility may declare writes, and only for copy=False *)
Definition check_decl (fd : fundef) : bool :=
  negb (fpublic fd) || (nilb (fmut_t fd) && (nilb (fmut_f fd) || fcopyutil fd)).

Definition summaries_ok (prog : list fundef) : bool :=
  forallb (fun fd => check_body prog fd && check_contract prog fd) prog.

Definition check (prog : list fundef) (fd : fundef) : bool :=
  check_body prog fd && check_contract prog fd && check_decl fd.

(* list-in / list-out wrapper for extraction: per function (name, body ok, contract ok, decl ok) *)
Definition run_check (prog : list fundef) : list (name * (bool * (bool * bool))) :=
  map (fun fd => (fname fd, (check_body prog fd, (check_contract prog fd, check_decl fd)))) prog.
