(* Model/RewireBin.v — bct/algorithms/reference.py: randomizer_bin_und, statement by statement.
   The working matrix is Z-valued with the sentinel 2 on the diagonal (np.inf in the code: any value that is
   neither 0 nor 1).  Definitions only. *)
From Coq Require Import ZArith List Arith Bool Lia QArith.
From BCT Require Import Base.Mat Base.ListX Model.Components Model.Rewire.
Import ListNotations.
Open Scope Z_scope.

Definition SENT : Z := 2.
Definition fill_sent (R : mat Z) : mat Z := fun x y => if Nat.eqb x y then SENT else R x y.
(* binarize(R, copy=True) *)
Definition bin01 (R : mat Z) : mat Z := fun x y => if Z.eqb (R x y) 0 then 0 else 1.
(* np.logical_not(R).astype(float) *)
Definition lnot (R : mat Z) : mat Z := fun x y => if Z.eqb (R x y) 0 then 1 else 0.
(* np.where(np.triu(R, 1)): strictly upper nonzero cells, row-major *)
Definition triu_edges (n : nat) (R : mat Z) : list (nat * nat) := edge_list ELtriu1 n R.
(* degree inside the working matrix, diagonal excluded:
   np.sum(np.triu(R,1),axis=0) + np.sum(np.triu(R,1),axis=1).T *)
Definition wdeg (n : nat) (R : mat Z) (x : nat) : Z :=
  sumn (fun y => if Nat.ltb y x then R y x else 0) n + sumn (fun y => if Nat.ltb x y then R x y else 0) n.
Definition fullnodes (n : nat) (R : mat Z) : list nat :=
  filter (fun x => Z.eqb (wdeg n R x) (Z.of_nat n - 1)) (seq 0 n).
(* R[fullnodes, :] = v ; R[:, fullnodes] = v *)
Definition set_lines (fl : list nat) (v : Z) (R : mat Z) : mat Z :=
  fun x y => if (nmem x fl || nmem y fl)%bool then v else R x y.

(* holes of a and b, ascending (np.intersect1d of two np.where results) *)
Definition common_holes (n : nat) (R : mat Z) (a b : nat) : list nat :=
  filter (fun x => (Z.eqb (R x a) 0 && Z.eqb (R x b) 0)%bool) (seq 0 n).
(* np.where(R[np.ix_(h, h)] == 1): positions (p, q) inside the hole list, row-major *)
Definition mates (R : mat Z) (h : list nat) : list (nat * nat) :=
  flat_map (fun u => flat_map (fun v => if Z.eqb (R u v) 1 then [(u, v)] else []) h) h.

(* update the edge index: for m in range(k): if i[m]==d and j[m]==c: j[it]=c; j[m]=b elif i[m]==c and j[m]==d: j[it]=c; i[m]=b *)
Fixpoint patch_loop (ms : list nat) (it b c d : nat) (i j : vec nat) : vec nat * vec nat :=
  match ms with
  | [] => (i, j)
  | m :: r =>
      if (Nat.eqb (i m) d && Nat.eqb (j m) c)%bool then patch_loop r it b c d i (vupd (vupd j it c) m b)
      else if (Nat.eqb (i m) c && Nat.eqb (j m) d)%bool then patch_loop r it b c d (vupd i m b) (vupd j it c)
      else patch_loop r it b c d i j
  end.

Record rbu_event := mkrbu { re_abcd : quad; re_R : mat Z; re_i : vec nat; re_j : vec nat }.

(* for it in range(k): ... ; returns None when the stream does not match *)
Fixpoint rbu_loop (n k : nat) (alpha : Q) (its : list nat) (R : mat Z) (i j : vec nat) (s : stream) (tr : list rbu_event)
  : option (mat Z * list rbu_event * stream) :=
  match its with
  | [] => Some (R, tr, s)
  | it :: rest =>
    match s with
    | DFlt q :: s1 =>
      if Qgtb q alpha then rbu_loop n k alpha rest R i j s1 tr else
      let a := i it in let b := j it in
      let h := common_holes n R a b in
      let ms := mates R h in
      match ms with
      | [] => rbu_loop n k alpha rest R i j s1 tr
      | _ =>
        match s1 with
        | DInt z :: DFlt q2 :: s2 =>
          let mate := nth (randint (length ms) z) ms (O, O) in
          let '(c, d) := if Qgtb q2 (1 # 2) then (fst mate, snd mate) else (snd mate, fst mate) in
          let R' := rbu_swap R a b c d in
          let '(i', j') := patch_loop (seq 0 k) it b c d i j in
          rbu_loop n k alpha rest R' i' j' s2 (tr ++ [mkrbu (a, b, c, d) R' i' j'])
        | _ => None
        end
      end
    | _ => None
    end
  end.

Inductive rbu_result :=
| RbuError            (* BCTParamError: asymmetric input / no possible randomization *)
| RbuStream           (* the recorded stream does not fit *)
| RbuOk (out : mat Z) (tr : list rbu_event) (lft : nat).

Definition randomizer_bin_und (n : nat) (R0 : mat Z) (alpha : Q) (s : stream) : rbu_result :=
  let B := bin01 R0 in
  if negb (symmetricb n B) then RbuError else
  let savediag : vec Z := fun x => B x x in
  let R1 := tab 0 n n (fill_sent B) in
  let k1 := length (triu_edges n R1) in
  let poss2 := (n * n - n)%nat in                       (* 2 * nr_poss_edges *)
  let swapped := Nat.ltb poss2 (4 * k1) in              (* k > nr_poss_edges / 2 *)
  let R2 := if swapped then tab 0 n n (fill_sent (lnot R1)) else R1 in
  let fl := fullnodes n R2 in
  let R3 := match fl with [] => R2 | _ => tab 0 n n (fill_sent (set_lines fl 0 R2)) end in
  let el := triu_edges n R3 in
  let k := length el in
  (* if k == 0 or k >= (nr_poss_edges - 1): raise *)
  if (Nat.eqb k 0 || Nat.leb (poss2 - 2) (2 * k))%bool then RbuError else
  match rbu_loop n k alpha (seq 0 k) R3 (of_list O (map fst el)) (of_list O (map snd el)) s [] with
  | None => RbuStream
  | Some (R4, tr, s') =>
    let R5 := match fl with [] => R4 | _ => set_lines fl 1 R4 end in
    let R6 := if swapped then lnot R5 else R5 in
    RbuOk (fun x y => if Nat.eqb x y then savediag x else R6 x y) tr (length s')
  end.

(* ---------- executable interface ---------- *)
Definition out_rbu_event (n k : nat) (e : rbu_event) :=
  let '(a, b, c, d) := re_abcd e in ([a; b; c; d], to_rows n n (re_R e), to_list k (re_i e), to_list k (re_j e)).
Definition run_rbu (rows : list (list Z)) (alpha : Q) (s : stream)
  : nat * list (list Z) * list (list nat * list (list Z) * list nat * list nat) * nat :=
  let n := length rows in
  match randomizer_bin_und n (of_rows 0 rows) alpha s with
  | RbuError => (1%nat, [], [], O)
  | RbuStream => (2%nat, [], [], O)
  | RbuOk out tr lft => (0%nat, to_rows n n out, map (out_rbu_event n (n * n)%nat) tr, lft)
  end.
