(* Model/Nbs.v — bct/nbs.py: nbs_bct, statement by statement.  Definitions only.
   Carrier Q (exact).  The code uses the t statistics only through `t_stat > thresh`; the
   model decides that comparison without square roots ([ratio_gt]: sign cases + squares),
   and mirrors what binary64 does where the code divides by zero:
     - unpaired, pooled denominator == 0      -> the code returns 0              -> 0 > thresh
     - paired, zero variance of the differences -> mean/0.0 = +-inf (or nan if mean = 0)
     - fewer than 2 subjects in a group         -> var(ddof=1) is nan -> comparison False.
   Randomness is the recorded stream ([DPerm] = rng.permutation(nx+ny), [DRand] = rng.rand(1,nx));
   k = length of the stream.  None = an exception (BCTParamError / ZeroDivisionError). *)
From Coq Require Import QArith Qabs List Arith Bool ZArith Lia.
From BCT Require Import Base.Mat Base.ListX Model.Components.
Import ListNotations.
Local Open Scope Q_scope.

Inductive tail := TBoth | TLeft | TRight.

Definition qlt (a b : Q) : bool := negb (Qle_bool b a).
Definition qn (k : nat) : Q := inject_Z (Z.of_nat k).
Definition sq (x : Q) : Q := x * x.
Definition lsum (l : list Q) : Q := fold_right Qplus 0 l.
(* np.mean(x) ; np.var(x, ddof=1) *)
Definition lmean (l : list Q) : Q := lsum l / qn (length l).
Definition lvar1 (l : list Q) : Q :=
  lsum (map (fun v => sq (v - lmean l)) l) / qn (length l - 1).

(* the value that is compared with thresh, before division by the (positive) denominator *)
Definition tailv (tl : tail) (t : Q) : Q :=
  match tl with TBoth => Qabs t | TLeft => - t | TRight => t end.

(* v / sqrt(d2) > thr  for d2 > 0, decided on squares *)
Definition ratio_gt (v d2 thr : Q) : bool :=
  if Qle_bool 0 thr then qlt 0 v && qlt (sq thr * d2) (sq v)
  else Qle_bool 0 v || qlt (sq v) (sq thr * d2).

(* ttest2_stat_only(x, y, tail) > thresh *)
Definition pooled_d2 (x y : list Q) : Q :=
  let n1 := length x in let n2 := length y in
  (qn (n1 - 1) * lvar1 x + qn (n2 - 1) * lvar1 y) / qn (n1 + n2 - 2) * (1 / qn n1 + 1 / qn n2).

Definition supra2 (tl : tail) (thr : Q) (x y : list Q) : bool :=
  if ((length x <? 2)%nat || (length y <? 2)%nat)%bool then false
  else
    let t := lmean x - lmean y in
    let d2 := pooled_d2 x y in
    if Qeq_bool d2 0 then qlt thr 0          (* `if denom == 0: return 0` *)
    else ratio_gt (tailv tl t) d2 thr.

(* ttest_paired_stat_only(A, B, tail) > thresh *)
Definition diffs (x y : list Q) : list Q := map (fun p => fst p - snd p) (combine x y).
Definition paired_ss (d : list Q) : Q := lsum (map sq d) - sq (lsum d) / qn (length d).

Definition supra_p (tl : tail) (thr : Q) (x y : list Q) : bool :=
  let d := diffs x y in
  let n := length d in
  if (n <? 2)%nat then false
  else
    let ss := paired_ss d in
    let m := lmean d in
    if Qeq_bool ss 0 then                      (* mean / 0.0 *)
      match tl with
      | TBoth => negb (Qeq_bool m 0)
      | TLeft => qlt m 0
      | TRight => qlt 0 m
      end
    else ratio_gt (tailv tl m) (ss / qn (n - 1) / qn n) thr.

Definition supra (paired : bool) (tl : tail) (thr : Q) (x y : list Q) : bool :=
  if paired then supra_p tl thr x y else supra2 tl thr x y.

(* ixes = np.where(np.triu(np.ones((n,n)),1)) ; xmat[:, i] = x[:,:,i][ixes] *)
Definition cell := (nat * nat)%type.
Definition triu_cells (n : nat) : list cell := filter (fun c => (fst c <? snd c)%nat) (cells n).
Definition vectorize (n : nat) (xs : list (mat Q)) : list (list Q) :=
  map (fun c => map (fun X : mat Q => X (fst c) (snd c)) xs) (triu_cells n).

(* t_stat > thresh, edge by edge *)
Definition tmask (paired : bool) (tl : tail) (thr : Q) (xmat ymat : list (list Q)) : list bool :=
  map (fun p => supra paired tl thr (fst p) (snd p)) (combine xmat ymat).

(* (ixes[0][ind_t], ixes[1][ind_t]) *)
Definition selected (n : nat) (mask : list bool) : list cell :=
  map fst (filter snd (combine (triu_cells n) mask)).

(* adj = zeros; adj[sel] = 1; adj = adj + adj.T *)
Definition adj_of (sel : list cell) : mat Z :=
  fun i j => (b2z (cmem (i, j) sel) + b2z (cmem (j, i) sel))%Z.

(* ind_sz, = np.where(sz > 1); ind_sz += 1 *)
Definition big_labels (sz : list nat) : list nat :=
  map S (filter (fun i => (1 <? nth i sz 0)%nat) (seq 0 (length sz))).
(* nodes, = np.where(l == a) *)
Definition nodes_of (l : nat) (a : list nat) : list nat :=
  filter (fun v => (nth v a 0 =? l)%nat) (seq 0 (length a)).
(* np.sum(adj[np.ix_(nodes, nodes)]) *)
Definition row_sum (adj : mat Z) (u : nat) (nodes : list nat) : Z :=
  fold_right (fun v acc => (adj u v + acc)%Z) 0%Z nodes.
Definition block_sum (adj : mat Z) (nodes : list nat) : Z :=
  fold_right (fun u acc => (row_sum adj u nodes + acc)%Z) 0%Z nodes.
(* adj[np.ix_(nodes, nodes)] *= k *)
Definition scale_block (adj : mat Z) (nodes : list nat) (k : Z) : mat Z :=
  fun u v => if (nmem u nodes && nmem v nodes)%bool then (adj u v * k)%Z else adj u v.

Definition half_sum (adj : mat Z) (nodes : list nat) : Q := inject_Z (block_sum adj nodes) / 2.

(* for i in range(nr_components):
       nodes, = np.where(ind_sz[i] == a)
       sz_links[i] = np.sum(adj[np.ix_(nodes, nodes)]) / 2
       adj[np.ix_(nodes, nodes)] *= (i + 2)                       (i = index of the head of [ind]) *)
Fixpoint label_loop (a : list nat) (i : nat) (ind : list nat) (adj : mat Z) : list Q * mat Z :=
  match ind with
  | [] => ([], adj)
  | l :: r =>
      let nodes := nodes_of l a in
      let s := half_sum adj nodes in
      let '(szl, adj') := label_loop a (S i) r (scale_block adj nodes (Z.of_nat (i + 2))) in
      (s :: szl, adj')
  end.

(* adj[np.where(adj)] -= 1 *)
Definition dec_nonzero (adj : mat Z) : mat Z :=
  fun u v => if (adj u v =? 0)%Z then 0%Z else (adj u v - 1)%Z.

(* the observed network: (sz_links, adj) *)
Definition observed (n : nat) (mask : list bool) : option (list Q * mat Z) :=
  let sel := selected n mask in
  match sel with
  | [] => None                                            (* "Unsuitable threshold" *)
  | _ :: _ =>
      match get_components n (adj_of sel) with
      | None => None
      | Some (a, sz) =>
          let '(szl, adj') := label_loop a 0 (big_labels sz) (adj_of sel) in
          match szl with
          | [] => None                                    (* "True matrix is degenerate" *)
          | _ :: _ => Some (szl, dec_nonzero adj')
          end
      end
  end.

(* permutation branch: sz_links_perm without relabelling; null[u] = max or 0 *)
Definition links_only (a : list nat) (ind : list nat) (adj : mat Z) : list Q :=
  map (fun l => half_sum adj (nodes_of l a)) ind.
Definition qmax (a b : Q) : Q := if Qle_bool a b then b else a.
Definition lmaxQ (l : list Q) : Q := match l with [] => 0 | x :: r => fold_left qmax r x end.

Definition perm_max (n : nat) (mask : list bool) : option Q :=
  let adj := adj_of (selected n mask) in
  match get_components n adj with
  | None => None
  | Some (a, sz) => Some (lmaxQ (links_only a (big_labels sz) adj))
  end.

(* one recorded draw *)
Inductive draw := DPerm (p : list nat) | DRand (r : list Q).

(* d = np.hstack((xmat, ymat))[:, perm] ; d[i, :nx], d[i, -ny:] *)
Definition permute_row (nx ny : nat) (perm : list nat) (x y : list Q) : list Q * list Q :=
  let h := x ++ y in
  let d := map (fun p => nth p h 0) perm in
  (firstn nx d, skipn (length d - ny) d).
(* indperm = np.sign(0.5 - rng.rand(1, nx)) ; d = hstack((xmat,ymat)) * hstack((indperm,indperm)) *)
Definition sign_half (r : Q) : Q := if qlt r (1 # 2) then 1 else if qlt (1 # 2) r then - (1) else 0.
Definition mul_row (s x : list Q) : list Q := map (fun p => fst p * snd p) (combine x s).
Definition flip_row (s : list Q) (x y : list Q) : list Q * list Q := (mul_row s x, mul_row s y).

Definition shuffled (paired : bool) (nx ny : nat) (d : draw) (xmat ymat : list (list Q))
  : option (list (list Q) * list (list Q)) :=
  match paired, d with
  | false, DPerm p =>
      Some (split (map (fun xy => permute_row nx ny p (fst xy) (snd xy)) (combine xmat ymat)))
  | true, DRand r =>
      let s := map sign_half r in
      Some (split (map (fun xy => flip_row s (fst xy) (snd xy)) (combine xmat ymat)))
  | _, _ => None
  end.

Fixpoint null_loop (n : nat) (paired : bool) (tl : tail) (thr : Q) (nx ny : nat)
         (xmat ymat : list (list Q)) (draws : list draw) : option (list Q) :=
  match draws with
  | [] => Some []
  | d :: r =>
      match shuffled paired nx ny d xmat ymat with
      | None => None
      | Some (xp, yp) =>
          match perm_max n (tmask paired tl thr xp yp) with
          | None => None
          | Some v =>
              match null_loop n paired tl thr nx ny xmat ymat r with
              | None => None
              | Some rest => Some (v :: rest)
              end
          end
      end
  end.

(* np.size(np.where(null >= s)) *)
Definition count_ge (s : Q) (null : list Q) : nat := length (filter (fun v => Qle_bool s v) null).
Definition pvals_of (szl null : list Q) (k : nat) : list Q :=
  map (fun s => qn (count_ge s null) / qn k) szl.

Definition nbs (n : nat) (xs ys : list (mat Q)) (thr : Q) (tl : tail) (paired : bool) (draws : list draw)
  : option (list Q * mat Z * list Q) :=
  let nx := length xs in
  let ny := length ys in
  if (paired && negb (nx =? ny)%nat)%bool then None       (* "Population matrices must be an equal size" *)
  else
    let xmat := vectorize n xs in
    let ymat := vectorize n ys in
    match observed n (tmask paired tl thr xmat ymat) with
    | None => None
    | Some (szl, adj) =>
        match null_loop n paired tl thr nx ny xmat ymat draws with
        | None => None
        | Some null =>
            match draws with
            | [] => None                                   (* k = 0: ZeroDivisionError in pvals *)
            | _ :: _ => Some (pvals_of szl null (length draws), adj, null)
            end
        end
    end.

Definition swap_tail (tl : tail) : tail :=
  match tl with TBoth => TBoth | TLeft => TRight | TRight => TLeft end.

(* ---------- executable interface ---------- *)
Definition tail_of_nat (t : nat) : tail := match t with O => TBoth | S O => TLeft | _ => TRight end.
Definition run_nbs (n : nat) (xs ys : list (list (list Q))) (thr : Q) (tl : nat) (paired : bool)
           (perms : list (list nat)) (rands : list (list Q))
  : option (list Q * list (list Z) * list Q) :=
  let draws := if paired then map DRand rands else map DPerm perms in
  match nbs n (map (of_rows 0) xs) (map (of_rows 0) ys) thr (tail_of_nat tl) paired draws with
  | None => None
  | Some (p, adj, null) => Some (map Qred p, to_rows n n adj, map Qred null)
  end.
Definition run_supra (paired : bool) (tl : nat) (thr : Q) (x y : list Q) : bool :=
  supra paired (tail_of_nat tl) thr x y.
