(* Model/ModularityProb.v — modularity_probtune_und_sign with its random draws as an EXPLICIT stream.
   (Model/Modularity.v replays probtune through run_finetune_sign from the recorded move list; here the loop itself is
   modelled: one pass over rng.permutation(n); per node  r = rng.random_sample() < p;  if r: mb = rng.randint(n)  else
   mb = argmax(dq) and the move is made iff max(dq) > 1e-10.)
   * [perm]  = the value rng.permutation(n) returned (any list of nodes),
   * [ds]    = the later draws in call order: DSample x for random_sample() (x is the float's exact rational value),
               DInt k for randint(n); a stream of the wrong shape or too short makes the run return None,
   * [orc]   = the float-decided outcome of every deterministic node in visiting order: Some mb (argmax, gain > 1e-10)
               or None (no move) — oracle, as in Model/Modularity.v.
   Definitions only. *)
From Coq Require Import QArith List Arith Bool ZArith.
From BCT Require Import Base.Mat Base.SumQ Base.ListX Model.Modularity.
Import ListNotations.
Open Scope Q_scope.

Inductive draw := DSample (x : Q) | DInt (k : nat).

(* trace entry: (node, (random move?, target slot)) for every node that was moved *)
Fixpoint probtune_loop (move : state -> nat -> nat -> state) (p : Q) (st : state)
         (perm : list nat) (ds : list draw) (orc : list (option nat)) : option (list (nat * (bool * nat)) * state) :=
  match perm with
  | [] => Some ([], st)
  | u :: perm' =>
      match ds with
      | DSample x :: ds1 =>
          if Qltb x p then                                  (* r = rng.random_sample() < p *)
            match ds1 with
            | DInt mb :: ds2 =>                             (* mb = rng.randint(n); moved unconditionally (also mb = ma) *)
                match probtune_loop move p (move st u mb) perm' ds2 orc with
                | Some (tr, fin) => Some ((u, (true, mb)) :: tr, fin)
                | None => None
                end
            | _ => None
            end
          else
            match orc with
            | Some mb :: orc' =>                            (* max_dq > 1e-10: ci[u] = argmax + 1 and the bookkeeping *)
                match probtune_loop move p (move st u mb) perm' ds1 orc' with
                | Some (tr, fin) => Some ((u, (false, mb)) :: tr, fin)
                | None => None
                end
            | None :: orc' => probtune_loop move p st perm' ds1 orc'
            | [] => None
            end
      | _ => None
      end
  end.

(* whole routine: (moves made, (returned ci, (returned q, definitional Qsign of the returned ci))) *)
Definition run_probtune (rows : list (list Q)) (g : Q) (qt : nat) (ci : list Z) (p : Q)
           (perm : list nat) (ds : list draw) (orc : list (option nat))
  : option (list (nat * (bool * nat)) * (list nat * (Q * Q))) :=
  let n := length rows in let W := of_rows 0 rows in
  let lab0 := init_lab n ci in
  let sp := sign_params n W (qtype_of qt) in
  let '(st0, (kn0, kn1)) := sign_init n sp lab0 in
  match probtune_loop (move_sign n (sW0 sp) (sW1 sp) kn0 kn1) p st0 perm ds orc with
  | None => None
  | Some (tr, st) =>
      let labf := tabv O n (relabel0 n (zlab (lab st))) in
      let q := Qred (sign_closing n sp kn0 kn1 g labf) in
      let qd := Qred (Qsign n W g (qtype_of qt) labf) in
      Some (tr, (out_lab n labf, (q, qd)))
  end.
