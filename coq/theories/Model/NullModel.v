(* Model/NullModel.v — bct/algorithms/reference.py: null_model_dir_sign, null_model_und_sign
   (as repaired by commit 9351ba7: `s *` in the strengths and in Wv, directed routine calls
   randmio_dir_signed). Carrier Z. Definitions only.

   Streams/oracles (all explicit arguments):
     ints  : recorded results of rng.randint(n**4)        (consumed by the rewiring, Model/Signed.v)
     perms : recorded results of rng.permutation(m)        (one per dealing period, wei_freq != 0)
     ords  : results of np.argsort(P.flat[Lij])            (one per period; a float-decided order,
             hence an ORACLE: the model only checks that it is a permutation of 0..len(Lij)-1)
   The code draws every randint before the first permutation, so the recorded stream splits
   by kind without loss.  P, Si/So/S and their updates only feed argsort and are not modelled:
   their whole influence is the oracle order (the routine works on `W.astype(float)`, so the dtype
   of the argument plays no role).

   Further float-decided inputs (oracles, taken from the run; theorems quantify over all values):
     close : the result of np.allclose(W, W.T) -- only consulted when W is not exactly symmetric
     pf    : the result of np.round(1 / wei_freq).astype(int) on binary64 -- accepted iff it lies
             strictly within 1 of the exact quotient (true of every correctly rounded division
             followed by a rounding to an integer)
   Carrier Z stands for any fixed-point grid: a dyadic weight k/2^m is represented by k (sign
   tests, moves, negation, sorting and W0 + W0.T commute with the scaling; a correlation triple
   scales by 2^(2m) in all three components). *)
From Coq Require Import ZArith QArith Qround List Arith Lia Bool.
From BCT Require Import Base.Mat Base.ListX Model.Signed.
Import ListNotations.
Open Scope Z_scope.

Definition cell := (nat * nat)%type.
Definition at_ (W : mat Z) (c : cell) : Z := W (fst c) (snd c).

(* np.fill_diagonal(W, 0) *)
Definition clear_diag (W : mat Z) : mat Z := fun i j => if Nat.eqb i j then 0 else W i j.

(* Acur: Ap = (W > 0) for s = 1, An = (W < 0) for s = -1 *)
Definition sel (s : Z) (z : Z) : bool := if Z.eqb s 1 then 0 <? z else z <? 0.

(* np.where(A.flat) (directed) / np.where(np.triu(A).flat) (undirected), row-major *)
Definition in_tri (und : bool) (c : cell) : bool := if und then Nat.leb (fst c) (snd c) else true.
Definition univ (und : bool) (n : nat) : list cell := filter (in_tri und) (cells n).
Definition supp (und : bool) (n : nat) (s : Z) (M : mat Z) : list cell :=
  filter (fun c => sel s (at_ M c)) (univ und n).

(* np.sort on integers: ascending insertion sort (equal keys are equal values, so the
   result as a list of values does not depend on the sorting algorithm) *)
Fixpoint insertZ (x : Z) (l : list Z) : list Z :=
  match l with [] => [x] | y :: r => if x <=? y then x :: l else y :: insertZ x r end.
Definition sortZ (l : list Z) : list Z := fold_right insertZ [] l.

(* np.delete(arr, idx): keep, in order, the positions not listed in idx *)
Definition delete_at {A} (d : A) (idx : list nat) (l : list A) : list A :=
  map (fun k => nth k l d) (filter (fun k => negb (nmem k idx)) (seq 0 (length l))).

(* is l a permutation of 0..m-1 ? (what argsort / rng.permutation always return) *)
Fixpoint nodupb (l : list nat) : bool :=
  match l with [] => true | x :: r => negb (nmem x r) && nodupb r end.
Definition check_perm (m : nat) (l : list nat) : bool :=
  (Nat.eqb (length l) m && forallb (fun x => Nat.ltb x m) l && nodupb l)%bool.

(* sequential `W0.flat[cell] = value` *)
Definition assign_all (ps : list (cell * Z)) (M : mat Z) : mat Z :=
  fold_left (fun M p => upd M (fst (fst p)) (snd (fst p)) (snd p)) ps M.

(* one period: for r in R: o = Oind[r]; W0.flat[Lij[o]] = s * Wv[r];
   then Lij = delete(Lij, Oind[R]); Wv = delete(Wv, R) *)
Definition period_pairs (s : Z) (L : list cell) (V : list Z) (O R : list nat) : list (cell * Z) :=
  map (fun r => (nth (nth r O 0%nat) L (0, 0)%nat, s * nth r V 0)) R.
Definition deal_period (s : Z) (L : list cell) (V : list Z) (O R : list nat) (W0 : mat Z)
  : list cell * list Z * mat Z :=
  (delete_at (0, 0)%nat (map (fun r => nth r O 0%nat) R) L, delete_at 0 R V, assign_all (period_pairs s L V O R) W0).

(* for m in np.arange(wsize, 0, -wei_period) *)
Fixpoint deal_loop (n fuel period m : nat) (s : Z) (L : list cell) (V : list Z) (W0 : mat Z)
  (ords perms : list (list nat)) : option (mat Z * list (list nat) * list (list nat)) :=
  if Nat.eqb m 0 then Some (W0, ords, perms) else
  match fuel with
  | O => None
  | S f =>
    match ords, perms with
    | Oi :: ords', P :: perms' =>
      if (check_perm (length L) Oi && check_perm m P)%bool then
        let R := firstn (Nat.min m period) P in
        let '(L', V', W0') := deal_period s L V Oi R W0 in
        deal_loop n f period (m - period) s L' V' (tab 0 n n W0') ords' perms'
      else None
    | _, _ => None
    end
  end.

(* the body of `for s in (1, -1)`; period = 0 encodes the branch wei_freq == 0
   (W0.flat[Lij[Oind]] = s * Wv, which NumPy rejects unless the lengths agree) *)
Definition deal_sign (und : bool) (n period : nat) (s : Z) (Wc Wr W0 : mat Z)
  (ords perms : list (list nat)) : option (mat Z * list (list nat) * list (list nat)) :=
  let V := sortZ (map (fun c => s * at_ Wc c) (supp und n s Wc)) in
  let L := supp und n s Wr in
  if Nat.eqb period 0 then
    match ords with
    | Oi :: ords' =>
      if (check_perm (length L) Oi && Nat.eqb (length L) (length V))%bool then
        let '(_, _, W0') := deal_period s L V Oi (seq 0 (length V)) W0 in
        Some (tab 0 n n W0', ords', perms)
      else None
    | [] => None
    end
  else deal_loop n (length V) period (length V) s L V W0 ords perms.

(* wei_period = np.round(1 / wei_freq).astype(int)   (half-to-even); Some 0 stands for wei_freq == 0,
   None for a value outside the documented domain (period < 1: empty or ill-formed arange) *)
Definition round_half_even (x : Q) : Z :=
  let f := Qfloor x in
  let r := (x - inject_Z f)%Q in
  match Qcompare r (1 # 2) with
  | Lt => f
  | Gt => f + 1
  | Eq => if Z.even f then f else f + 1
  end.
(* the exact-rational reading of the statement *)
Definition period_of (wf : Q) : option nat :=
  if Qeq_bool wf 0 then Some O else
  let p := round_half_even (1 / wf)%Q in
  if p <? 1 then None else Some (Z.to_nat p).

(* the code's reading: the quotient and the rounding are binary64 operations; their integer result pf
   is an oracle, admitted when pf - 1 < 1/wf < pf + 1 *)
Definition near (wf : Q) (pf : Z) : bool :=
  (negb (Qle_bool (1 / wf) (inject_Z pf - 1)) && negb (Qle_bool (inject_Z pf + 1) (1 / wf)))%bool.
Definition period_or (wf : Q) (pf : Z) : option nat :=
  if Qeq_bool wf 0 then Some O else
  if (near wf pf && negb (pf <? 1))%bool then Some (Z.to_nat pf) else None.

(* strength sequences: np.sum(W * (W > 0), axis=0) etc. *)
Definition ppart (z : Z) : Z := if 0 <? z then z else 0.      (*  W * (W > 0) *)
Definition npart (z : Z) : Z := if z <? 0 then - z else 0.    (* -W * (W < 0) *)
Definition str_in (phi : Z -> Z) (M : mat Z) (n j : nat) : Z := colsum phi M n j.   (* axis=0 *)
Definition str_out (phi : Z -> Z) (M : mat Z) (n i : nat) : Z := rowsum phi M n i.  (* axis=1 *)

(* np.corrcoef(x, y)[0, 1] = cxy / sqrt(cxx * cyy) with
   cxy = n*sum(x*y) - sum(x)*sum(y) (the common 1/(n(n-1)) factor cancels); the model returns
   the exact triple (cxy, cxx, cyy); NaN exactly when cxx*cyy = 0 *)
Definition corr3 (x y : nat -> Z) (n : nat) : Z * Z * Z :=
  let N := Z.of_nat n in
  let sx := sumn x n in let sy := sumn y n in
  (N * sumn (fun i => x i * y i) n - sx * sy,
   N * sumn (fun i => x i * x i) n - sx * sx,
   N * sumn (fun i => y i * y i) n - sy * sy).

Definition corr4 (n : nat) (W W0 : mat Z) : list (Z * Z * Z) :=
  [ corr3 (str_in ppart W n) (str_in ppart W0 n) n;      (* rpos_in *)
    corr3 (str_out ppart W n) (str_out ppart W0 n) n;    (* rpos_ou *)
    corr3 (str_in npart W n) (str_in npart W0 n) n;      (* rneg_in *)
    corr3 (str_out npart W n) (str_out npart W0 n) n ].  (* rneg_ou *)

(* exact symmetry; np.allclose(W, W.T) is true for such W (|a - a| = 0 <= atol + rtol*|a|) and is the
   float-decided oracle [close] otherwise *)
Definition symb (n : nat) (W : mat Z) : bool :=
  forallb (fun c => Z.eqb (W (fst c) (snd c)) (W (snd c) (fst c))) (cells n).

Definition zero_mat : mat Z := fun _ _ => 0.

(* nm_unread: recorded randint draws / argsort orders / permutation draws the run did not consume *)
Record nm_result := { nm_W0 : mat Z; nm_corr : list (Z * Z * Z); nm_Wr : mat Z;
                      nm_trace : list (quad * mat Z); nm_unread : nat * (nat * nat) }.

(* how a call ends *)
Inductive nm_outcome :=
| Returned (r : nm_result)
| ParamError     (* raise BCTParamError("Input must be undirected") *)
| NoQuad         (* the recorded randint draws end while the node picker is still retrying (model-level out-of-fuel) *)
| BadPeriod      (* round(1/wei_freq) < 1, or an oracle value that is not a rounding of 1/wei_freq *)
| DealError.     (* an argsort / permutation oracle of the wrong shape, or too few of them *)

Definition null_model (und : bool) (n : nat) (W : mat Z) (close : bool) (bin_swaps : nat)
  (wf : Q) (pf : Z) (ints : list Z) (ords perms : list (list nat)) : nm_outcome :=
  if (und && negb (symb n W || close))%bool then ParamError else     (* if not np.allclose(W, W.T): raise *)
  let Wc := tab 0 n n (clear_diag W) in
  (* if np.size(np.where(Ap.flat)) < n*(n-1): rewire the sign pattern *)
  let rew := (length (supp false n 1 Wc) <? n * (n - 1))%nat in
  if (rew && randmio_runs_out und n Wc bin_swaps ints)%bool then NoQuad else
  let '(Wr, rest, tr) :=
    if rew then randmio_signed und n Wc bin_swaps ints else (Wc, ints, []) in
  match period_or wf pf with
  | None => BadPeriod
  | Some per =>
    match deal_sign und n per 1 Wc Wr zero_mat ords perms with
    | None => DealError
    | Some (W1, ords1, perms1) =>
      match deal_sign und n per (-1) Wc Wr W1 ords1 perms1 with
      | None => DealError
      | Some (W2, ords2, perms2) =>
        let Wout := if und then tab 0 n n (fun i j => W2 i j + W2 j i) else W2 in
        Returned {| nm_W0 := Wout; nm_corr := corr4 n Wc Wout; nm_Wr := Wr; nm_trace := tr;
                    nm_unread := (length rest, (length ords2, length perms2)) |}
      end
    end
  end.

(* ---------- well-shaped oracles (for the totality theorem): one argsort order and one permutation of
   0..m-1 per period, m = wsize, wsize - period, ... ---------- *)
Fixpoint oracles_ok (fuel period m : nat) (ords perms : list (list nat))
  : option (list (list nat) * list (list nat)) :=
  if Nat.eqb m 0 then Some (ords, perms) else
  match fuel with
  | O => None
  | S f =>
    match ords, perms with
    | Oi :: ords', P :: perms' =>
      if (check_perm m Oi && check_perm m P)%bool then oracles_ok f period (m - period) ords' perms' else None
    | _, _ => None
    end
  end.
Definition oracles_ok_sign (period m : nat) (ords perms : list (list nat))
  : option (list (list nat) * list (list nat)) :=
  if Nat.eqb period 0 then
    match ords with Oi :: ords' => if check_perm m Oi then Some (ords', perms) else None | [] => None end
  else oracles_ok m period m ords perms.

(* ---------- executable interface ---------- *)
Inductive nm_run :=
| RunOk (W0 : list (list Z)) (corr : list (Z * Z * Z)) (Wr : list (list Z))
        (tr : list (list nat * list (list Z))) (unread : nat * (nat * nat))
| RunRaise (code : nat).   (* 1 ParamError, 2 NoQuad, 3 BadPeriod, 5 DealError *)

Definition run_null_model (und : bool) (rows : list (list Z)) (close : bool) (bin_swaps : nat)
  (wf : Q) (pf : Z) (ints : list Z) (ords perms : list (list nat)) : nm_run :=
  let n := length rows in
  match null_model und n (of_rows 0 rows) close bin_swaps wf pf ints ords perms with
  | Returned r => RunOk (zrows n (nm_W0 r)) (nm_corr r) (zrows n (nm_Wr r))
                        (map (fun e => (quad_list (fst e), zrows n (snd e))) (nm_trace r)) (nm_unread r)
  | ParamError => RunRaise 1
  | NoQuad => RunRaise 2
  | BadPeriod => RunRaise 3
  | DealError => RunRaise 5
  end.
