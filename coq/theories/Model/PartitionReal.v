(* Model/PartitionReal.v — partition_distance with its logarithms INSIDE the model: the three histograms are the
   rational ones of Model/Partition.v (pd_hists, the part that is extracted and run against the code); the
   entropies and the two quotients are real numbers, for a logarithm lg : Q -> R taken on the rational P = count / n.
   lnQ is Coq's natural logarithm (np.log).  Definitions only.

       Px = np.histogram(cx, bins=np.max(cx))[0] / n ; Hx = -np.sum(Px * np.log(Px))        (same for cy, cxy)
       if n == 1 or (np.max(cx) == 1 and np.max(cy) == 1): return 0.0, 1.0
       Vin = (2 * Hxy - Hx - Hy) / np.log(n) ; Min = 2 * (Hx + Hy - Hxy) / (Hx + Hy)                         *)
From Coq Require Import QArith Qreals Reals List ZArith.
From BCT Require Import Base.Mat Model.Partition.
Import ListNotations.

Definition entropyR (lg : Q -> R) (n : nat) (h : list Q) : R :=
  (- fold_right Rplus 0 (map (fun cnt => let p := (cnt / inject_Z (Z.of_nat n))%Q in Q2R p * lg p) h))%R.

Definition pd_generalR (lg : Q -> R) (n : nat) (cx cy : vec Z) : R * R :=
  let '(hx, hy, hxy) := pd_hists n cx cy in
  let Hx := entropyR lg n hx in let Hy := entropyR lg n hy in let Hxy := entropyR lg n hxy in
  ((2 * Hxy - Hx - Hy) / lg (inject_Z (Z.of_nat n)), 2 * (Hx + Hy - Hxy) / (Hx + Hy))%R.

Definition partition_distanceR (lg : Q -> R) (n : nat) (cx cy : vec Z) : R * R :=
  if pd_trivial n cx cy then (0, 1)%R else pd_generalR lg n cx cy.

(* np.log on a rational argument *)
Definition lnQ (q : Q) : R := ln (Q2R q).
