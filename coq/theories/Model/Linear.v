(* Model/Linear.v — the formulas evaluated by the LAPACK-based measures, over exact rationals:
     distance.py   mean_first_passage_time : P = solve(diag(sum(A,1)), A); w stationary (from eig);
                                            Z = inv(I - P + W), W[i,j] = w[j]; mfpt = (repeat(diag(Z)) - Z) / W
     efficiency.py diffusion_efficiency    : ediff = 1/mfpt, diagonal 0; gediff = sum(ediff)/(n^2-n)
     centrality.py pagerank_centrality     : deg = sum(A,0); deg[deg==0] = 1; B = I - d*A*diag(1/deg);
                                            r = solve(B, (1-d)*f); r /= sum(r)
     centrality.py subgraph_centrality     : vals, vecs = eigh(CIJ); dot(vecs*vecs, exp(vals))
     centrality.py eigenvector_centrality_und : abs(vecs[:, argmax(vals)])
   The numeric kernels (eig, inv, solve, eigh, exp) are NOT modelled: their results are arguments, constrained in
   the theorems only by their defining equations.  Definitions only. *)
From Coq Require Import QArith Qabs List Arith Bool Lia.
From BCT Require Import Base.Mat Base.SumQ.
Import ListNotations.
Open Scope Q_scope.

Definition delta (i j : nat) : Q := if Nat.eqb i j then 1 else 0.
Definition mmulQ (n : nat) (A B : mat Q) : mat Q := fun i j => sumQ (fun k => A i k * B k j) n.
Definition mvecQ (n : nat) (A : mat Q) (x : vec Q) : vec Q := fun i => sumQ (fun j => A i j * x j) n.

(* ---------------- mean first passage time ---------------- *)
Definition rowsumQ (n : nat) (A : mat Q) (i : nat) : Q := sumQ (A i) n.
(* P = D^-1 A (what solve(diag(rowsums), A) returns) *)
Definition transP (n : nat) (A : mat Q) : mat Q := fun i j => A i j / rowsumQ n A i.
(* I - P + W *)
Definition fundA (P : mat Q) (w : vec Q) : mat Q := fun i j => delta i j - P i j + w j.
(* (diag(Z) repeated along rows - Z) / W *)
Definition mfpt (w : vec Q) (Z : mat Q) : mat Q := fun i j => (Z j j - Z i j) / w j.

(* the eigenpair selection of the code, as far as it is logic (the eigenvalues come from LAPACK: aux = |D - 1| is an input):
     index = np.where(aux == aux.min())[0]            -- ALL positions of the minimum
     if aux[index] > 10e-3: raise ValueError(...)      -- `if` on an array: one element -> its truth value,
                                                          more than one -> ValueError "truth value ... is ambiguous"
     w = V[:, index].T *)
Definition qmin (l : list Q) : Q := fold_right (fun x m => if Qle_bool x m then x else m) (hd 0 l) l.
Definition where_eq (l : list Q) (m : Q) : list nat := filter (fun i => Qeq_bool (nth i l 0) m) (seq 0 (length l)).
Inductive selection := SelOk (i : nat) | SelAmbiguous | SelTolerance | SelEmpty.
Definition mfpt_select (tol : Q) (aux : list Q) : selection :=
  match where_eq aux (qmin aux) with
  | [] => SelEmpty
  | [i] => if Qle_bool (nth i aux 0) tol then SelOk i else SelTolerance
  | _ :: _ :: _ => SelAmbiguous
  end.

(* specification side: the chain can go from i to j along entries > 0; strongly connected = every ordered pair *)
Inductive reach (n : nat) (P : mat Q) (i : nat) : nat -> Prop :=
| reach_refl : reach n P i i
| reach_step k j : reach n P i k -> (j < n)%nat -> 0 < P k j -> reach n P i j.
Definition irreducible (n : nat) (P : mat Q) : Prop := forall i j, (i < n)%nat -> (j < n)%nat -> reach n P i j.
Definition stationary (n : nat) (P : mat Q) (x : vec Q) : Prop :=
  forall j, (j < n)%nat -> sumQ (fun i => x i * P i j) n == x j.

(* ---------------- diffusion efficiency ---------------- *)
Definition ediff (M : mat Q) : mat Q := fun i j => if Nat.eqb i j then 0 else 1 / M i j.
Definition gediff (n : nat) (E : mat Q) : Q := sum2Q E n / inject_Z (Z.of_nat (n * n - n)).

(* ---------------- pagerank ---------------- *)
Definition colsumQ (n : nat) (A : mat Q) (j : nat) : Q := sumQ (fun i => A i j) n.
Definition pr_deg (n : nat) (A : mat Q) (j : nat) : Q :=
  let s := colsumQ n A j in if Qeq_bool s 0 then 1 else s.            (* deg[deg == 0] = 1 *)
Definition pr_M (n : nat) (A : mat Q) : mat Q := fun i j => A i j * (1 / pr_deg n A j).   (* A . diag(1/deg) *)
Definition pr_B (n : nat) (A : mat Q) (d : Q) : mat Q := fun i j => delta i j - d * pr_M n A i j.
Definition pr_b (d : Q) (f : vec Q) : vec Q := fun i => (1 - d) * f i.
Definition pr_norm (n : nat) (r : vec Q) : vec Q := fun i => r i / sumQ r n.       (* r /= sum(r) *)
Definition uniform (n : nat) : vec Q := fun _ => 1 / inject_Z (Z.of_nat n).      (* ones(N)/N *)
(* falff is None -> ones(N)/N, else falff / np.sum(falff) *)
Definition pr_prior (n : nat) (falff : option (vec Q)) : vec Q :=
  match falff with None => uniform n | Some g => fun i => g i / sumQ g n end.
(* the part of a vector that sits on the empty columns (deg == 0: nodes the walker cannot leave along an edge) *)
Definition dangling (n : nat) (A : mat Q) (r : vec Q) : Q :=
  sumQ (fun j => if Qeq_bool (colsumQ n A j) 0 then r j else 0) n.

(* ---------------- subgraph centrality ---------------- *)
Definition zeroQ : mat Q := fun _ _ => 0.
(* polynomial with coefficient list p (lowest degree first), Horner form, of a number / of a matrix
   (Qred only normalises the representation of the rational: Qred q == q) *)
Fixpoint peval (p : list Q) (x : Q) : Q :=
  match p with [] => 0 | c :: p' => Qred (c + x * peval p' x) end.
Fixpoint pevalM (n : nat) (p : list Q) (A : mat Q) : mat Q :=
  match p with
  | [] => zeroQ
  | c :: p' => let R0 := pevalM n p' A in
               let R := tab 0 n n (fun i j => Qred (R0 i j)) in
               fun i j => c * delta i j + mmulQ n A R i j
  end.
(* the code's formula with exp replaced by the polynomial p *)
Definition spectral_diag (n : nat) (V : mat Q) (lam : vec Q) (p : list Q) : vec Q :=
  fun i => sumQ (fun k => V i k * V i k * peval p (lam k)) n.
(* coefficients 1/0!, 1/1!, ..., 1/m! of the truncated exponential series *)
Fixpoint factZ (m : nat) : Z := match m with O => 1%Z | S m' => (Z.of_nat m * factZ m')%Z end.
Definition expcoef (m : nat) : list Q := map (fun t => 1 / inject_Z (factZ t)) (seq 0 (S m)).

(* ---------------- eigenvector centrality ---------------- *)
Definition vabs (u : vec Q) : vec Q := fun i => Qabs (u i).
Definition qform (n : nat) (A : mat Q) (x : vec Q) : Q := sumQ (fun i => x i * mvecQ n A x i) n.
Definition normsq (n : nat) (x : vec Q) : Q := sumQ (fun i => x i * x i) n.

(* ---------------- executable interface (exact instances handed over by the harness) ---------------- *)
Definition qm (l : list (list Q)) : mat Q := of_rows 0 l.
Definition qv (l : list Q) : vec Q := of_list 0 l.
Definition all_eq (n : nat) (f g : vec Q) : bool := forallb (fun i => Qeq_bool (f i) (g i)) (seq 0 n).
Definition all_eq2 (n : nat) (F G : mat Q) : bool := forallb (fun i => all_eq n (F i) (G i)) (seq 0 n).
Definition redv (n : nat) (f : vec Q) : list Q := to_list n (fun i => Qred (f i)).
Definition redm (n : nat) (F : mat Q) : list (list Q) := to_rows n n (fun i j => Qred (F i j)).

(* hypotheses of mfpt_equation checked exactly on (A, w, Z); then M, ediff, gediff, and the residual test *)
Definition run_mfpt (A : list (list Q)) (w : list Q) (Z : list (list Q))
  : bool * bool * list (list Q) * list (list Q) * Q :=
  let n := length A in
  let P := tab 0 n n (transP n (qm A)) in
  let wv := qv w in let Zm := qm Z in
  let hyp := (all_eq n (fun j => sumQ (fun i => wv i * P i j) n) wv
              && Qeq_bool (sumQ wv n) 1
              && all_eq2 n (mmulQ n (fundA P wv) Zm) delta
              && forallb (fun j => negb (Qeq_bool (wv j) 0)) (seq 0 n))%bool in
  let M := tab 0 n n (mfpt wv Zm) in
  let eqn := all_eq2 n M (fun i j => if Nat.eqb i j then 0
                                     else 1 + sumQ (fun k => if Nat.eqb k j then 0 else P i k * M k j) n) in
  let E := tab 0 n n (ediff M) in
  (hyp, eqn, redm n M, redm n E, Qred (gediff n E)).

(* hypotheses A V = V diag(lam), V V^T = I checked exactly; then the truncated-series value of the code's formula
   and the diagonal of the same polynomial of A *)
Definition run_subgraph (A V : list (list Q)) (lam : list Q) (m : nat) : bool * list Q * list Q :=
  let n := length A in
  let Am := qm A in let Vm := qm V in let lv := qv lam in
  let hyp := (all_eq2 n (mmulQ n Am Vm) (fun i k => lv k * Vm i k)
              && all_eq2 n (fun i j => sumQ (fun k => Vm i k * Vm j k) n) delta)%bool in
  let p := expcoef m in
  let PA := tab 0 n n (pevalM n p Am) in
  (hyp, redv n (spectral_diag n Vm lv p), redv n (fun i => PA i i)).

(* ---------------- Gauss-Jordan elimination over Q ---------------- *)
(* stands for LAPACK's solve / inv / the eigenvector of eigenvalue 1 in the EXECUTABLE model: the results it produces are
   re-checked against the defining equations inside the run (flag `hyp`), and the theorems (uniqueness of the solution,
   of the stationary vector and of the inverse) say that any routine meeting those equations returns the same numbers. *)
Fixpoint split_pivot (c : nat) (rows : list (list Q)) : option (list Q * list (list Q)) :=
  match rows with
  | [] => None
  | r :: rs => if Qeq_bool (nth c r 0) 0
               then match split_pivot c rs with None => None | Some (p, rest) => Some (p, r :: rest) end
               else Some (r, rs)
  end.
Definition scale_row (c : nat) (r : list Q) : list Q := let p := nth c r 0 in map (fun x => Qred (x / p)) r.
Definition elim_row (c : nat) (p r : list Q) : list Q :=
  let f := nth c r 0 in
  if Qeq_bool f 0 then r else map (fun xy => Qred (fst xy - f * snd xy)) (combine r p).
Fixpoint gj (k c : nat) (done todo : list (list Q)) : option (list (list Q)) :=
  match k with
  | O => Some done
  | S k' => match split_pivot c todo with
            | None => None
            | Some (p, rest) => let p' := scale_row c p in
                                gj k' (S c) (map (elim_row c p') done ++ [p']) (map (elim_row c p') rest)
            end
  end.
(* X with B X = R (B n x n, R n x m); None when B is singular *)
Definition gauss_solve (n m : nat) (B R : mat Q) : option (mat Q) :=
  let rows := map (fun i => map (B i) (seq 0 n) ++ map (R i) (seq 0 m)) (seq 0 n) in
  match gj n 0 [] rows with
  | None => None
  | Some done => Some (fun i k => nth (n + k) (nth i done []) 0)
  end.

(* mean_first_passage_time / diffusion_efficiency computed from A alone: the stationary vector from
   (P^T - I) w = 0 with the last equation replaced by sum w = 1, Z by inverting I - P + 1w *)
Definition run_mfpt_c (A : list (list Q)) : option (bool * bool * list (list Q) * list (list Q) * Q) :=
  let n := length A in
  let P := tab 0 n n (transP n (qm A)) in
  let St : mat Q := fun i j => if Nat.eqb (S i) n then 1 else P j i - delta i j in
  match gauss_solve n 1 St (fun i _ => if Nat.eqb (S i) n then 1 else 0) with
  | None => None
  | Some w1 =>
    let w := to_list n (fun i => w1 i O) in
    let wv := qv w in
    match gauss_solve n n (tab 0 n n (fundA P wv)) delta with
    | None => None
    | Some Z => Some (run_mfpt A w (to_rows n n Z))
    end
  end.

(* pagerank_centrality computed from (A, d, falff): hypothesis flag = the solver's result does solve B r' = b;
   equation flag = r = d (A D^-1 r + dangling(r) f) + (1-d) f; then r, sum r' and the dangling mass *)
Definition run_pagerank_c (A : list (list Q)) (d : Q) (falff : option (list Q)) : option (bool * bool * list Q * Q * Q) :=
  let n := length A in
  let Am := qm A in
  let f := tabv 0 n (pr_prior n (match falff with None => None | Some g => Some (qv g) end)) in
  let Mm := tab 0 n n (pr_M n Am) in
  let Bm := tab 0 n n (fun i j => delta i j - d * Mm i j) in
  match gauss_solve n 1 Bm (fun i _ => pr_b d f i) with
  | None => None
  | Some r1 =>
    let rv := tabv 0 n (fun i => r1 i O) in
    let hyp := all_eq n (mvecQ n Bm rv) (pr_b d f) in
    let r := tabv 0 n (pr_norm n rv) in
    let dg := dangling n Am r in
    let eqn := all_eq n r (fun i => d * (mvecQ n Mm r i + dg * f i) + (1 - d) * f i) in
    Some (hyp, eqn, redv n r, Qred (sumQ rv n), Qred dg)
  end.

(* which branch the eigenpair selection takes: 0 = one index i (returned), 1 = ambiguous truth value, 2 = tolerance, 3 = empty *)
Definition run_mfpt_select (tol : Q) (aux : list Q) : nat * nat :=
  match mfpt_select tol aux with
  | SelOk i => (0, i) | SelAmbiguous => (1, 0) | SelTolerance => (2, 0) | SelEmpty => (3, 0)
  end%nat.
