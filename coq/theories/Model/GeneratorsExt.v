(* Model/GeneratorsExt.v — extension of Model/Generators.v (definitions only):
   (a) maketoeplitzCIJ lines 857-859: the Gaussian profile, the Toeplitz matrix built from it and the scaling by K/sum;
   (b) the rejection loop with its iteration counter made observable (returns / raises after 10000 / out of draws);
   (c) the generators for a signed (Python int) K: slice stop `[:k]`, `while kk < k`, `rem_k < 0`, so that the behaviour
       OUTSIDE the documented domain (K < 0, K > cells) is mirrored too and can be replayed against the code;
   (d) makerandCIJdegreesfixed: the IndexError of `outv[i]` when outv is shorter than inv. *)
From Coq Require Import ZArith QArith List Arith Bool Lia.
From BCT Require Import Base.Mat Base.ListX Base.SumQ Model.Generators.
Import ListNotations.
Open Scope Z_scope.

(* ---------------- (a) profile of maketoeplitzCIJ ---------------- *)
(* pf = stats.norm.pdf(range(1, n), .5, s): an arbitrary function of the distance d >= 1 (numeric kernel);
   np.append((0,), pf): position 0 holds 0 *)
Definition toep_col (pf : nat -> Q) (d : nat) : Q := if Nat.eqb d 0 then 0%Q else pf d.
(* template = linalg.toeplitz(c, r=c): entry (i,j) is c[i-j] below and r[j-i] above the diagonal *)
Definition toep_unscaled (pf : nat -> Q) : mat Q := fun i j => toep_col pf (absdiff i j).
(* template *= q *)
Definition toep_template (pf : nat -> Q) (q : Q) : mat Q := fun i j => (toep_unscaled pf i j * q)%Q.
(* q = k / np.sum(template)   (exact arithmetic; a zero sum gives 0 here and nan in the code: both compare False
   against every sample >= 0) *)
(* np.sum: the same sum as Base.SumQ.sum2Q, reduced at every accumulation step so that it stays executable *)
Fixpoint sumQr (f : nat -> Q) (n : nat) : Q :=
  match n with O => 0%Q | S m => Qred (sumQr f m + f m)%Q end.
Definition sum2Qr (f : nat -> nat -> Q) (n : nat) : Q := sumQr (fun i => sumQr (f i) n) n.
Definition toep_scale (n : nat) (k : Z) (pf : nat -> Q) : Q := (inject_Z k / sum2Qr (toep_unscaled pf) n)%Q.

(* ---------------- (b) rejection loop with the iteration counter ---------------- *)
Inductive tres : Type := TDone (R : mat Z) (itr : Z) | TRaised (itr : Z) | TNoFuel (itr : Z).

Fixpoint toeplitz_cnt (n : nat) (k : Z) (template : mat Q) (CIJ : mat Z) (itr : Z) (stream : list (mat Q)) : tres :=
  if sum2 CIJ n =? k then TDone CIJ itr else          (* while np.sum(CIJ) != k *)
  match stream with
  | [] => TNoFuel itr
  | X :: rest =>
    let CIJ' := sample_lt n X template in             (* CIJ = (rng.random_sample((n, n)) < template) *)
    if 10000 <? itr + 1 then TRaised (itr + 1)        (* itr += 1; if itr > 10000: raise BCTParamError *)
    else toeplitz_cnt n k template CIJ' (itr + 1) rest
  end.

(* maketoeplitzCIJ(n, k, s) with the profile and the scale handed in *)
Definition maketoeplitz (n : nat) (k : Z) (pf : nat -> Q) (q : Q) (stream : list (mat Q)) : tres :=
  toeplitz_cnt n k (toep_template pf q) zeros 0 stream.

(* ---------------- (c) signed K ---------------- *)
(* stop of the Python slice seq[:k] for a sequence of length len *)
Definition py_stop (k : Z) (len : nat) : nat := if k <? 0 then Z.to_nat (Z.of_nat len + k) else Z.to_nat k.

(* CIJ.flat[ix[rp][:k]] = 1 : ix[rp] has len(rp) elements *)
Definition makerand_dir_z (n : nat) (k : Z) (rp : list nat) : mat Z := makerand_dir n (py_stop k (length rp)) rp.
Definition makerand_und_z (n : nat) (k : Z) (rp : list nat) : mat Z := makerand_und n (py_stop k (length rp)) rp.

(* k < 0: the while loop is skipped, overby = -k is truthy and np.where(dCIJ) hits the unbound dCIJ (UnboundLocalError) *)
Definition ringlattice_z (n : nat) (k : Z) (rp : list nat) : option (mat Z) :=
  if k <? 0 then None else ringlattice n (Z.to_nat k) rp.

(* makeevenCIJ with k : Z (rem_k = k - |clusters| < 0 covers every negative k) *)
Definition even_z (n : nat) (k : Z) (sz_cl : Z) (rp : list nat) : option (mat Z) :=
  let mx := Nat.log2 n in
  if Nat.ltb mx 2 then None else
  let n' := (2 ^ mx)%nat in
  let CIJp := tab 0 n' n' (even_clusters mx sz_cl) in
  let nc := sum2 CIJp n' in
  if k <? nc then Some CIJp
  else
    let free := filter (fun c => Z.eqb (CIJp (fst c) (snd c) + eye (fst c) (snd c)) 0) (cells n') in
    Some (set_cells CIJp (pick free rp (Z.to_nat (k - nc))) 1).

(* ---------------- (d) degree lists of different length ---------------- *)
(* for i in range(len(inv)): ... outv[i] : IndexError when outv is shorter (a longer outv is silently truncated) *)
Definition degfixed_chk (inv outv rp stream : list nat) : option (outcome (mat Z)) :=
  if Nat.ltb (length outv) (length inv) then None else Some (degfixed inv outv rp stream).

(* ---------------- executable interface ---------------- *)
Definition qvec (l : list Q) : nat -> Q := of_list 0%Q l.
Definition qrows (n : nat) (M : mat Q) : list (list Q) := to_rows n n (fun i j => Qred (M i j)).

(* status 0 returns / 1 raises / 2 out of recorded draws; the iteration counter; the matrix *)
Definition run_toeplitz_pf (n : nat) (k : Z) (pf : list Q) (q : Q) (stream : list (list (list Q)))
  : nat * (Z * list (list Z)) :=
  match maketoeplitz n k (qvec pf) q (map qmat stream) with
  | TDone R itr => (O, (itr, rows n R))
  | TRaised itr => (1%nat, (itr, []))
  | TNoFuel itr => (2%nat, (itr, []))
  end.
(* lines 857-859 in exact arithmetic *)
Definition run_toep_template (n : nat) (k : Z) (pf : list Q) : list (list Q) :=
  qrows n (toep_template (qvec pf) (Qred (toep_scale n k (qvec pf)))).

Definition run_rand_dir_z (n : nat) (k : Z) (rp : list nat) := rows n (makerand_dir_z n k rp).
Definition run_rand_und_z (n : nat) (k : Z) (rp : list nat) := rows n (makerand_und_z n k rp).
Definition run_ring_z (n : nat) (k : Z) (rp : list nat) := option_map (rows n) (ringlattice_z n k rp).
Definition run_even_z (n : nat) (k : Z) (sz_cl : Z) (rp : list nat) :=
  option_map (rows (2 ^ Nat.log2 n)) (even_z n k sz_cl rp).
(* status 0 returns / 1 BCTParamError / 2 out of draws / 3 IndexError *)
Definition run_degfixed_chk (inv outv rp stream : list nat) : nat * list (list Z) :=
  match degfixed_chk inv outv rp stream with
  | None => (3%nat, [])
  | Some (Done C) => (O, rows (length inv) C)
  | Some Raised => (1%nat, [])
  | Some NoFuel => (2%nat, [])
  end.
