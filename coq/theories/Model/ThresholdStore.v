(* Model/ThresholdStore.v — bct/utils/other.py, the part Model/Threshold.v abstracts away:
   (a) the `copy` flag, as a store (heap) model of the statement sequence of every utility C17 names
       (threshold_absolute, threshold_proportional, binarize, normalize, invert, weight_conversion);
   (b) weight_conversion's dispatch on the STRING wcm, including the `raise NotImplementedError` branch;
   (c) normalize on the all-zero matrix (0/0: the code returns NaN everywhere; None here).

   The store: NumPy arrays are objects at addresses; the function's local name `W` is bound to an address.
     W = W.copy()                    allocates a fresh object with the same contents and REBINDS the name     (s_copy)
     np.fill_diagonal(W, 0), W[mask] = v, W[E] = expr, W /= x, W[:, :] = expr
                                     write INTO the object the name is bound to; the right-hand side is evaluated
                                     first, from the current contents                                        (s_write)
     W = expr                        allocates a fresh object and rebinds the name                           (s_rebind)
     return W                        returns the ADDRESS the name is bound to
   Every C17 utility is `if copy: W = W.copy()` followed by in-place writes only (checked on /repo: other.py:29-33,
   82-107, 159-166, 186-190, 210-214, 237-241).  logtransform and autofix (other.py:265-271, 290-311; not named by C17)
   end with rebinding statements `W = -np.log(W)`, `W = np.around(W, ...)`; [rebind_shape] is that shape.
   Definitions only. *)
From Coq Require Import String.
From Coq Require Import QArith Qabs Qround List Arith Bool ZArith Lia.
From BCT Require Import Base.Mat Base.ListX Model.Threshold.
Import ListNotations.
Open Scope Q_scope.

(* ---------- the store ---------- *)
Definition heap := nat -> mat Q.
Record st := mkst { hp : heap; nxt : nat; loc : nat }.   (* objects; first free address; binding of the local name W *)
Definition hupd (h : heap) (a : nat) (v : mat Q) : heap := fun b => if Nat.eqb b a then v else h b.
Definition rd (s : st) : mat Q := hp s (loc s).           (* the array the name W currently denotes *)

Definition s_copy (s : st) : st := mkst (hupd (hp s) (nxt s) (rd s)) (S (nxt s)) (nxt s).
Definition s_write (g : mat Q -> mat Q) (s : st) : st := mkst (hupd (hp s) (loc s) (g (rd s))) (nxt s) (loc s).
Definition s_rebind (g : mat Q -> mat Q) (s : st) : st := mkst (hupd (hp s) (nxt s) (g (rd s))) (S (nxt s)) (nxt s).

(* if copy: W = W.copy() *)
Definition copy_if (copy : bool) (s : st) : st := if copy then s_copy s else s.

(* the caller's array is object 0; the parameter W is bound to it on entry *)
Definition init (W : mat Q) : st := mkst (fun _ => W) 1%nat 0%nat.
Definition wf (s : st) : Prop := (loc s < nxt s)%nat.

(* ---------- the utilities, statement by statement ---------- *)
(* other.py:29-33 *)
Definition ta_prog (thr : Q) (copy : bool) (s : st) : st :=
  let s := copy_if copy s in
  let s := s_write clear_diag s in                                              (* np.fill_diagonal(W, 0) *)
  let s := s_write (fun W i j => if Qltb (W i j) thr then 0 else W i j) s in      (* W[W < thr] = 0 *)
  s.

(* other.py:80-107; None = BCTParamError, raised before any statement touches W *)
Definition tp_prog (order : mat Q -> list cell -> list cell) (n : nat) (p : Q) (copy : bool) (s : st) : option st :=
  if (Qltb 1 p || Qltb p 0)%bool then None else
  let s := copy_if copy s in
  let s := s_write clear_diag s in                                              (* np.fill_diagonal(W, 0) *)
  let symm := allclose_T n (rd s) in                                            (* np.allclose(W, W.T) *)
  let s := if symm then s_write (fun W i j => if Nat.leb j i then 0 else W i j) s else s in   (* W[np.tril_indices(n)] = 0 *)
  let ind := where_nz n (rd s) in                                               (* ind = np.where(W) *)
  let I := order (rd s) ind in                                                  (* I = np.argsort(W[ind])[::-1] *)
  let en := tp_en n p symm in                                                   (* en = int(round((n*n-n)*p/ud)) *)
  let dropped := skipn (Z.to_nat en) I in
  let s := s_write (fun W i j => if cmem (i, j) dropped then 0 else W i j) s in   (* W[(ind[0][I][en:], ind[1][I][en:])] = 0 *)
  let s := if symm then s_write (fun W i j => W i j + W j i) s else s in          (* W[:, :] = W + W.T *)
  Some s.

(* other.py:186-190 *)
Definition binarize_prog (copy : bool) (s : st) : st :=
  let s := copy_if copy s in
  s_write binarize s.                                                           (* W[W != 0] = 1 *)

(* other.py:210-214: the divisor np.max(np.abs(W)) is evaluated first, then W is divided in place *)
Definition normalize_prog (n : nat) (copy : bool) (s : st) : st :=
  let s := copy_if copy s in
  let m := maxabs n (rd s) in
  s_write (fun W i j => W i j / m) s.                                           (* W /= m *)

(* other.py:237-241 *)
Definition invert_prog (copy : bool) (s : st) : st :=
  let s := copy_if copy s in
  s_write invert s.                                                             (* E = np.where(W); W[E] = 1. / W[E] *)

(* the command string wcm is carried as the list of its character codes ([ord(c) for c in wcm]); [codes "binarize"] is
   that list for a literal.  (Coq's own [string] type is kept out of the extracted code on purpose: extracted without
   any Extract Inductive it would be an OCaml type named `string`, shadowing OCaml's in the shared driver prelude.) *)
Definition codes (s : String.string) : list nat := map Ascii.nat_of_ascii (list_ascii_of_string s).
Definition c_binarize : list nat := Eval vm_compute in codes "binarize".
Definition c_normalize : list nat := Eval vm_compute in codes "normalize".
Definition c_lengths : list nat := Eval vm_compute in codes "lengths".
Fixpoint codes_eqb (a b : list nat) : bool :=
  match a, b with
  | [], [] => true
  | x :: a', y :: b' => (Nat.eqb x y && codes_eqb a' b')%bool
  | _, _ => false
  end.

(* other.py:159-166: string dispatch; `copy` is handed on positionally; None = NotImplementedError *)
Definition wc_prog (n : nat) (wcm : list nat) (copy : bool) (s : st) : option st :=
  if codes_eqb wcm c_binarize then Some (binarize_prog copy s)
  else if codes_eqb wcm c_normalize then Some (normalize_prog n copy s)
  else if codes_eqb wcm c_lengths then Some (invert_prog copy s)
  else None.

(* the value-level dispatch (no store): what weight_conversion returns for a command string *)
Definition weight_conversion_str (n : nat) (W : mat Q) (wcm : list nat) : option (mat Q) :=
  if codes_eqb wcm c_binarize then Some (binarize W)
  else if codes_eqb wcm c_normalize then Some (normalize n W)
  else if codes_eqb wcm c_lengths then Some (invert W)
  else None.

(* ---------- dtype on the copy path (other.py after /repo commits 46a4b71, e4e2655) ----------
   invert and normalize now start with
       if not np.issubdtype(W.dtype, np.inexact):
           if not copy: raise BCTParamError(...)
           W = W.astype(float)      -- a FRESH float object with the same values; the name is rebound
       elif copy:
           W = W.copy()
   [flt] = the argument's dtype is floating point.  Integer / bool values are exactly representable as floats, so the
   promoted object holds the same rational values.  [invert_prog], [normalize_prog], [wc_prog] above are the flt = true path. *)
Inductive outcome := Done (s : st) | RaiseParam | RaiseNotImplemented.

Definition promote_or_copy (flt copy : bool) (s : st) : option st :=
  if flt then Some (copy_if copy s) else if copy then Some (s_copy s) else None.

Definition invert_prog_d (flt copy : bool) (s : st) : outcome :=
  match promote_or_copy flt copy s with
  | None => RaiseParam
  | Some s => Done (s_write invert s)                                           (* E = np.where(W); W[E] = 1. / W[E] *)
  end.

Definition normalize_prog_d (n : nat) (flt copy : bool) (s : st) : outcome :=
  match promote_or_copy flt copy s with
  | None => RaiseParam
  | Some s => let m := maxabs n (rd s) in Done (s_write (fun W i j => W i j / m) s)   (* W /= np.max(np.abs(W)) *)
  end.

(* weight_conversion hands W (whatever its dtype) and `copy` on; binarize has no dtype test *)
Definition wc_prog_d (n : nat) (wcm : list nat) (flt copy : bool) (s : st) : outcome :=
  if codes_eqb wcm c_binarize then Done (binarize_prog copy s)
  else if codes_eqb wcm c_normalize then normalize_prog_d n flt copy s
  else if codes_eqb wcm c_lengths then invert_prog_d flt copy s
  else RaiseNotImplemented.

(* the shape of logtransform / autofix: optional copy, then a REBINDING statement W = g(W) *)
Definition rebind_shape (g : mat Q -> mat Q) (copy : bool) (s : st) : st :=
  let s := copy_if copy s in
  s_rebind g s.

(* ---------- normalize where max|W| = 0: the code evaluates 0/0 = NaN in every cell; None stands for that ---------- *)
Definition normalize_opt (n : nat) (W : mat Q) : option (mat Q) :=
  if Qeq_bool (maxabs n W) 0 then None else Some (normalize n W).

(* ---------- executable interface ---------- *)
(* (what the caller's array (object 0) holds afterwards, what the returned object holds, returned object IS the argument) *)
Definition observe (n : nat) (s : st) : list (list Q) * list (list Q) * bool :=
  (qred_rows n (hp s 0%nat), qred_rows n (rd s), Nat.eqb (loc s) 0%nat).

Definition run_st_ta (rows : list (list Q)) (thr : Q) (copy : bool) :=
  let n := length rows in observe n (ta_prog thr copy (init (of_rows 0 rows))).
Definition run_st_tp (rows : list (list Q)) (p : Q) (copy : bool) :=
  let n := length rows in
  match tp_prog sort_desc n p copy (init (of_rows 0 rows)) with
  | None => None | Some s => Some (observe n s) end.
(* result code: 0 = NotImplementedError, 1 = BCTParamError (copy=False on a non-float array), 2 = normalize of an all-zero
   matrix (NaN everywhere), 3 = the observation *)
Definition run_st_wc (rows : list (list Q)) (wcm : list nat) (flt copy : bool) : nat * option (list (list Q) * list (list Q) * bool) :=
  let n := length rows in
  match wc_prog_d n wcm flt copy (init (of_rows 0 rows)) with
  | RaiseNotImplemented => (0%nat, None)
  | RaiseParam => (1%nat, None)
  | Done s =>
      if (codes_eqb wcm c_normalize && Qeq_bool (maxabs n (of_rows 0 rows)) 0)%bool then (2%nat, None)
      else (3%nat, Some (observe n s))
  end.
Definition run_wc_str (rows : list (list Q)) (wcm : list nat) : option (option (list (list Q))) :=
  let n := length rows in
  match weight_conversion_str n (of_rows 0 rows) wcm with
  | None => None
  | Some R =>
      if (codes_eqb wcm c_normalize && Qeq_bool (maxabs n (of_rows 0 rows)) 0)%bool then Some None
      else Some (Some (qred_rows n R))
  end.
