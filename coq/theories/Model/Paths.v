(* Model/Paths.v — bct/algorithms/distance.py: retrieve_shortest_path (lines 457-467),
   navigation_wu (lines 940-1003).  Definitions only. *)
From Coq Require Import QArith List Arith Bool ZArith Lia.
From BCT Require Import Base.Mat Base.ListX Model.Distance.
Import ListNotations.
Open Scope Q_scope.

(* ---------- retrieve_shortest_path ---------- *)
(* for ind in range(1, len(path)): s = Pmat[s,t]; path[ind] = s *)
Fixpoint follow (P : mat nat) (t s steps : nat) : list nat :=
  match steps with O => [] | S k => let s' := P s t in s' :: follow P t s' k end.
(* path_length = hops[s,t]; if path_length != 0: path has path_length+1 entries, path[0]=s; else [] *)
Definition retrieve (s t : nat) (H P : mat nat) : list nat :=
  if Nat.eqb (H s t) 0 then [] else s :: follow P t s (H s t).

(* ---------- navigation_wu ---------- *)
(* np.argmin over D[target, neighbors]: first minimum *)
Definition argmin_first (f : nat -> Q) (v0 : nat) (r : list nat) : nat :=
  fold_left (fun best v => if qltb (f v) (f best) then v else best) r v0.

(* result for one ordered pair: the recorded node list and the three reported lengths pl_bin, pl_wei, pl_dis
   (None = np.inf), kept as three SEPARATE values as in the code (PL_bin, PL_wei, PL_dis are filled one by one) *)
Record navres := mknav { nv_path : list nat; nv_bin : option nat; nv_wei : option Q; nv_dis : option Q }.
(* pl_bin = pl_wei = pl_dis = np.inf; break *)
Definition nav_failed (path : list nat) : navres := mknav path None None None.

Definition neighbors (n : nat) (L : mat Q) (c : nat) : list nat :=
  filter (fun v => negb (Qeq_bool (L c v) 0)) (seq 0 n).

(* the `while curr_node != target` loop; fuel bounds the number of steps (None = out of fuel) *)
Fixpoint nav_loop (fuel n : nat) (L D : mat Q) (max_hops : option nat) (target curr last : nat)
  (path : list nat) (pb : nat) (pw pd : Q) : option navres :=
  if Nat.eqb curr target then Some (mknav path (Some pb) (Some pw) (Some pd)) else
  match fuel with
  | O => None
  | S f =>
    match neighbors n L curr with
    | [] => Some (nav_failed path)                                       (* dead end *)
    | v0 :: r =>
      let next := argmin_first (fun v => D target v) v0 r in
      if (Nat.eqb next last || match max_hops with Some m => Nat.ltb m pb | None => false end)%bool
      then Some (nav_failed path)                                        (* back-step or pl_bin > max_hops *)
      else nav_loop f n L D max_hops target next curr (path ++ [next]) (S pb)
                    (pw + L curr next) (pd + D curr next)
    end
  end.

Definition nav_pair (fuel n : nat) (L D : mat Q) (mh : option nat) (i j : nat) : option navres :=
  nav_loop fuel n L D mh j i i [i] 0%nat 0 0.

(* inf_ixes = np.where(PL_bin.flat == np.inf): only PL_bin is inspected *)
Definition is_fail (r : navres) : bool := match nv_bin r with None => true | Some _ => false end.

(* all ordered pairs i <> j in row-major order; sr = 1 - (len(inf_ixes) - n)/(n**2 - n) where inf_ixes
   counts the n diagonal entries plus the failed pairs *)
Definition navigation_wu (fuel n : nat) (L D : mat Q) (mh : option nat) : option (Q * list navres) :=
  match all_some (map (fun c => nav_pair fuel n L D mh (fst c) (snd c)) (offdiag n)) with
  | None => None
  | Some rs =>
    let failed := length (filter is_fail rs) in
    Some (1 - (nq (failed + n) - nq n) / nq (n * n - n), rs)
  end.

(* ---------- executable interface ---------- *)
Definition run_retrieve (tr : nat) (rows : list (list Q)) (tbl : list (Q * Q)) : list (list nat) :=
  let n := length rows in
  let st := distance_wei_floyd (nlog_tbl tbl) n (of_rows 0 rows) (tr_of_nat tr) in
  map (fun c => retrieve (fst c) (snd c) (hops st) (pmat st)) (cells n).

Definition run_nav (fuel : nat) (Lrows Drows : list (list Q)) (mh : option nat)
  : option (Q * list (list nat * (option nat * (option Q * option Q)))) :=
  let n := length Lrows in
  match navigation_wu fuel n (of_rows 0 Lrows) (of_rows 0 Drows) mh with
  | None => None
  | Some (sr, rs) =>
    Some (Qred sr, map (fun r => (nv_path r, (nv_bin r, (ored (nv_wei r), ored (nv_dis r))))) rs)
  end.
