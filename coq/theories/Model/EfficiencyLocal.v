(* Model/EfficiencyLocal.v — bct/algorithms/efficiency.py, the LOCAL variants (C10):
     efficiency_bin(G, local=True)   lines 51-74
     efficiency_wei(Gw, local=True)  lines 161-165 (invert, A) and 190-204 (Wang et al. 2016 branch)
   statement by statement.  The inner distance loops are the models of Model/Distance.v:
   distance_inv (efficiency.py:36-49) is the distance_bin loop followed by 1/D with zero diagonal,
   distance_inv_wei (efficiency.py:138-164) is the distance_wei Dijkstra loop followed by 1/D with zero diagonal
   (the same identification Model/Distance.v makes for the global variants, which C03 ties to the code).
   The cube root (bct.utils.cuberoot) is an explicit function argument as in Model/Clustering.v.
   Definitions only. *)
From Coq Require Import QArith List Arith Bool ZArith Lia.
From BCT Require Import Base.Mat Base.SumQ Base.ListX Model.Threshold Model.Distance Model.Clustering.
Import ListNotations.
Open Scope Q_scope.

(* G[np.ix_(V, V)] *)
Definition subm {T} (V : list nat) (G : mat T) : mat T := fun a b => G (nth a V 0%nat) (nth b V 0%nat).
Definition qnzb (x : Q) : bool := negb (Qeq_bool x 0).

(* 1/D with D[D==0]=inf before and fill_diagonal(.,0) after: entry (a,b) of distance_inv / distance_inv_wei *)
Definition einv (k : nat) (D : mat len) : mat Q :=
  tab 0 k k (fun a b => if Nat.eqb a b then 0 else oinv (D a b)).

(* the last four statements of the loop body, shared text in both routines:
     numer = np.sum(np.outer(s.T, s) * se) / 2
     if numer != 0: denom = np.sum(sa)**2 - np.sum(sa * sa); E[u] = numer / denom          (else E[u] stays 0) *)
Definition eloc_tail (k : nat) (s sa : vec Q) (e : mat Q) : Q :=
  let se a b := e a b + e b a in                                         (* se = e + e.T *)
  let numer := sum2Q (fun a b => s a * s b * se a b) k / 2 in
  if Qeq_bool numer 0 then 0
  else numer / (sumQ sa k * sumQ sa k - sumQ (fun a => sa a * sa a) k).

(* ---------- efficiency_bin, local: body of `for u in range(n)`; G = binarize(G) already ---------- *)
Definition eloc_bin_node (n : nat) (G : mat Z) (u : nat) : option Q :=
  let V := filter (fun v => znz (G u v) || znz (G v u))%bool (seq 0 n) in    (* V, = np.where(logical_or(G[u,:], G[:,u].T)) *)
  let k := length V in
  match distance_bin k (subm V G) with                                       (* e = distance_inv(G[np.ix_(V, V)]) *)
  | None => None
  | Some D =>
    let e := einv k (fun a b => olen_of_nat (D a b)) in
    let sa := tabv 0 k (fun a => inject_Z (G u (nth a V 0%nat)) + inject_Z (G (nth a V 0%nat) u)) in   (* sa = G[u,V] + G[V,u].T *)
    Some (eloc_tail k sa sa e)
  end.

Definition efficiency_bin_local (n : nat) (A : mat Z) : option (list Q) :=
  let G := tab 0%Z n n (bin A) in                                            (* G = binarize(G) *)
  all_some (map (eloc_bin_node n G) (seq 0 n)).

(* ---------- efficiency_wei, local in (True, 'local'): body of `for u in range(n)` ---------- *)
Section WithCbrt.
Variable cbrt : Q -> Q.

Definition eloc_wei_node (n : nat) (Gw : mat Q) (u : nat) : option Q :=
  let Gl := invertQ Gw in                                                    (* Gl = invert(Gw, copy=True) *)
  let V := filter (fun v => qnzb (Gw u v) || qnzb (Gw v u))%bool (seq 0 n) in   (* V, = np.where(logical_or(Gw[u,:], Gw[:,u].T)) *)
  let k := length V in
  let sw := tabv 0 k (fun a => cbrt (Gw u (nth a V 0%nat)) + cbrt (Gw (nth a V 0%nat) u)) in   (* sw = cuberoot(Gw[u,V]) + cuberoot(Gw[V,u].T) *)
  let cGl := tab 0 n n (mmap cbrt Gl) in                                     (* cuberoot(Gl) *)
  match distance_wei k (subm V cGl) with                                     (* e = distance_inv_wei(cuberoot(Gl)[np.ix_(V, V)]) *)
  | None => None
  | Some (D, _) =>
    let e := einv k D in
    let sa := tabv 0 k (fun a => nzQ (Gw u (nth a V 0%nat)) + nzQ (Gw (nth a V 0%nat) u)) in   (* sa = A[u,V] + A[V,u].T, A = (Gw != 0) *)
    Some (eloc_tail k sw sa e)
  end.

Definition efficiency_wei_local (n : nat) (Gw : mat Q) : option (list Q) :=
  all_some (map (eloc_wei_node n Gw) (seq 0 n)).
End WithCbrt.

(* ---------- executable interface ---------- *)
Definition qlist (o : option (list Q)) : option (list Q) :=
  match o with Some l => Some (map Qred l) | None => None end.
Definition run_eloc_bin (rows : list (list Z)) : option (list Q) :=
  qlist (efficiency_bin_local (length rows) (of_rows 0%Z rows)).
Definition run_eloc_wei (rows : list (list Q)) : option (list Q) :=
  qlist (efficiency_wei_local cbrt_exact (length rows) (of_rows 0 rows)).
