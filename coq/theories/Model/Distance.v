(* Model/Distance.v — bct/algorithms/distance.py: distance_wei_floyd, distance_bin, breadth/breadthdist,
   reachdist, distance_wei, charpath; bct/algorithms/efficiency.py: efficiency_bin / efficiency_wei (global),
   rout_efficiency (global + pairwise).  Definitions only.
   Lengths are [option Q] (None = +infinity); hop counts are nat; path counts are Z. *)
From Coq Require Import QArith List Arith Bool ZArith Lia.
From BCT Require Import Base.Mat Base.ListX.
Import ListNotations.
Open Scope Q_scope.

(* ---------- extended lengths ---------- *)
Definition len := option Q.
Definition qltb (x y : Q) : bool := negb (Qle_bool y x).
Definition oadd (a b : len) : len :=
  match a, b with Some x, Some y => Some (x + y) | _, _ => None end.
(* a < b with None = +inf; inf < inf is false *)
Definition oltb (a b : len) : bool :=
  match a, b with Some x, Some y => qltb x y | Some _, None => true | None, _ => false end.
(* np.min of the pair (a, b) *)
Definition omin (a b : len) : len := if oltb b a then b else a.
Definition oeqb (a b : len) : bool :=
  match a, b with Some x, Some y => Qeq_bool x y | None, None => true | _, _ => false end.
Definition isfin {T} (a : option T) : bool := match a with Some _ => true | None => false end.

(* ---------- specification: walks and minimum length ---------- *)
(* the walk i -> m1 -> ... -> mk -> j (at least one edge); None as soon as one edge is missing *)
Fixpoint wl (L : mat len) (i : nat) (mid : list nat) (j : nat) : len :=
  match mid with [] => L i j | m :: r => oadd (L i m) (wl L m r j) end.
Definition below (k : nat) (l : list nat) : Prop := Forall (fun x => (x < k)%nat) l.

(* d is the minimum total length over all walks i -> j inside {0..n-1}; None iff there is no walk *)
Definition is_min_dist (n : nat) (L : mat len) (i j : nat) (d : len) : Prop :=
  match d with
  | Some x => (exists mid, below n mid /\ exists y, wl L i mid j = Some y /\ y == x) /\
              (forall mid y, below n mid -> wl L i mid j = Some y -> x <= y)
  | None => forall mid, below n mid -> wl L i mid j = None
  end.
Definition reachable (n : nat) (L : mat len) (i j : nat) : Prop :=
  exists mid, below n mid /\ wl L i mid j <> None.
Definition nonneg (n : nat) (L : mat len) : Prop :=
  forall i j x, (i < n)%nat -> (j < n)%nat -> L i j = Some x -> 0 <= x.
Definition positive (n : nat) (L : mat len) : Prop :=
  forall i j x, (i < n)%nat -> (j < n)%nat -> L i j = Some x -> 0 < x.
(* full correctness of a distance routine f (off the diagonal) *)
Definition dist_correct (n : nat) (L : mat len) (D : mat len) : Prop :=
  forall i j, (i < n)%nat -> (j < n)%nat -> i <> j -> is_min_dist n L i j (D i j).

(* ---------- transforms of distance_wei_floyd (lines 385-398) ---------- *)
Inductive transform := TNone | TInv | TLog.
(* [nlog] stands for x |-> -log x (abstract; a Section variable in the theorems) *)
Definition lengths (nlog : Q -> Q) (tr : transform) (A : mat Q) : mat len :=
  fun i j => if Qeq_bool (A i j) 0 then None
             else Some (match tr with TNone => A i j | TInv => 1 / A i j | TLog => nlog (A i j) end).

(* ---------- distance_wei_floyd (lines 400-422) ---------- *)
Record fw_state := mkfw { spl : mat len; hops : mat nat; pmat : mat nat }.

Definition fw_init (n : nat) (L : mat len) : fw_state :=
  mkfw (tab None n n L)
       (tab 0%nat n n (fun i j => if isfin (L i j) then 1%nat else 0%nat))
       (tab 0%nat n n (fun _ j => j)).

(* one iteration of `for k in range(n)`; all right-hand sides read the OLD arrays *)
Definition fw_round (n k : nat) (st : fw_state) : fw_state :=
  let S := spl st in let H := hops st in let P := pmat st in
  let via i j := oadd (S i k) (S k j) in
  let path i j := oltb (via i j) (S i j) in
  mkfw (tab None n n (fun i j => omin (S i j) (via i j)))
       (tab 0%nat n n (fun i j => if path i j then (H i k + H k j)%nat else H i j))
       (tab 0%nat n n (fun i j => if path i j then P i k else P i j)).

Definition fw_iter (n : nat) (L : mat len) (k : nat) : fw_state :=
  fold_left (fun st k => fw_round n k st) (seq 0 k) (fw_init n L).

(* SPL[I]=0; hops[I]=0; Pmat[I]=0 *)
Definition fw_final (st : fw_state) : fw_state :=
  mkfw (fun i j => if Nat.eqb i j then Some 0 else spl st i j)
       (fun i j => if Nat.eqb i j then 0%nat else hops st i j)
       (fun i j => if Nat.eqb i j then 0%nat else pmat st i j).

Definition floyd (n : nat) (L : mat len) : fw_state := fw_final (fw_iter n L n).
Definition distance_wei_floyd (nlog : Q -> Q) (n : nat) (A : mat Q) (tr : transform) : fw_state :=
  floyd n (lengths nlog tr A).

(* ---------- distance_bin (lines 237-251) ---------- *)
Open Scope Z_scope.
Definition bin (A : mat Z) : mat Z := fun i j => if Z.eqb (A i j) 0 then 0 else 1.
Definition matmul (n : nat) (X Y : mat Z) : mat Z := fun i j => sumn (fun m => X i m * Y m j) n.
Definition anyb (n : nat) (B : mat bool) : bool :=
  existsb (fun i => existsb (fun j => B i j) (seq 0 n)) (seq 0 n).
Definition znz (z : Z) : bool := negb (Z.eqb z 0).

(* while np.any(L): D += n*L; n += 1; nPATH = (np.dot(nPATH, G) != 0).astype(float); L = (nPATH != 0) * (D == 0)
   (the power is clipped to its support each round since repo commit aa68b44) *)
Fixpoint dbin_loop (fuel n : nat) (G : mat Z) (D : mat nat) (d : nat) (nPATH : mat Z) (Lm : mat bool)
  : option (mat nat) :=
  match fuel with
  | O => None
  | S f =>
    if anyb n Lm then
      let D' := tab 0%nat n n (fun i j => (D i j + (if Lm i j then d else 0))%nat) in
      let P := tab 0 n n (matmul n nPATH G) in
      let nP := tab 0 n n (fun i j => b2z (znz (P i j))) in
      let L' := tab false n n (fun i j => znz (nP i j) && Nat.eqb (D' i j) 0) in
      dbin_loop f n G D' (S d) nP L'
    else Some D
  end.

Definition dbin_raw (n : nat) (A : mat Z) : option (mat nat) :=
  let G := tab 0 n n (bin A) in
  dbin_loop (n + 2) n G (fun i j => if Nat.eqb i j then 1%nat else 0%nat) 1 G (fun i j => znz (G i j)).

(* D[D==0]=inf; fill_diagonal(D,0) *)
Definition distance_bin (n : nat) (A : mat Z) : option (mat (option nat)) :=
  match dbin_raw n A with
  | None => None
  | Some D => Some (fun i j => if Nat.eqb i j then Some 0%nat
                               else if Nat.eqb (D i j) 0 then None else Some (D i j))
  end.

(* ---------- breadth / breadthdist (lines 35-43, 71-104) ---------- *)
Record bstate := mkb { color : vec nat; bdist : vec (option nat); que : list nat }.
Definition is0 (a : option nat) : bool := match a with Some O => true | _ => false end.

(* body of `for v in ns`; du1 = distance[u] + 1 is read ONCE before the loop (repo commit 4574619) *)
Definition bvisit (du1 : option nat) (st : bstate) (v : nat) : bstate :=
  let d1 := if is0 (bdist st v) then vupd (bdist st) v du1 else bdist st in
  if Nat.eqb (color st v) 0
  then mkb (vupd (color st) v 1%nat) (vupd d1 v du1) (que st ++ [v])
  else mkb (color st) d1 (que st).

Definition nbrs (n : nat) (C : mat Z) (u : nat) : list nat := filter (fun v => znz (C u v)) (seq 0 n).

Fixpoint breadth_loop (fuel n : nat) (C : mat Z) (st : bstate) : option bstate :=
  match fuel with
  | O => None
  | S f =>
    match que st with
    | [] => Some st
    | u :: _ =>
      let du1 := option_map S (bdist st u) in
      let st1 := fold_left (bvisit du1) (nbrs n C u) st in
      breadth_loop f n C (mkb (vupd (color st1) u 2%nat) (bdist st1) (tl (que st1)))
    end
  end.

Definition breadth (n : nat) (C : mat Z) (s : nat) : option (vec (option nat)) :=
  match breadth_loop (n + 2) n C
          (mkb (vupd (fun _ => 0%nat) s 1%nat) (vupd (fun _ => None) s (Some 0%nat)) [s]) with
  | None => None
  | Some st => Some (tabv None n (bdist st))
  end.

Fixpoint all_some {T} (l : list (option T)) : option (list T) :=
  match l with
  | [] => Some []
  | None :: _ => None
  | Some x :: r => match all_some r with None => None | Some r' => Some (x :: r') end
  end.

(* D[i,:] = breadth(CIJ,i); D[D==0]=inf; R = D != inf *)
Definition breadthdist (n : nat) (C : mat Z) : option (mat bool * mat (option nat)) :=
  match all_some (map (breadth n C) (seq 0 n)) with
  | None => None
  | Some rows =>
    let D : mat (option nat) := fun i j => let x := nth i rows (fun _ => None) j in if is0 x then None else x in
    Some ((fun i j => isfin (D i j)), D)
  end.

(* ---------- reachdist (lines 690-740; ensure_binary=True; after repo commits 4fc05b1, 2cf9619) ---------- *)
Fixpoint reachdist2 (fuel n : nat) (C CP : mat Z) (R : mat bool) (D : mat Z) (powr : nat) (row col : list nat)
  : option (mat bool * mat Z * nat) :=
  match fuel with
  | O => None
  | S f =>
    let P := tab 0 n n (matmul n CP C) in                                  (* CIJpwr = np.dot(CIJpwr, CIJ) *)
    let CP' := tab 0 n n (fun i j => b2z (znz (P i j))) in                 (* if ensure_binary: CIJpwr = (CIJpwr != 0).astype(float)  (repo commit 2cf9619) *)
    let R' := tab false n n (fun i j => R i j || znz (CP' i j)) in
    let D' := tab 0 n n (fun i j => D i j + b2z (R' i j)) in
    if (Nat.leb powr n && existsb (fun i => existsb (fun j => negb (R' i j)) col) row)%bool
    then reachdist2 f n C CP' R' D' (S powr) row col
    else Some (R', D', powr)
  end.

Definition reachdist (n : nat) (A : mat Z) : option (mat bool * mat (option Z)) :=
  let C := tab 0 n n (bin A) in
  let id0 j := Z.eqb (sumn (fun i => C i j) n) 0 in
  let od0 i := Z.eqb (sumn (fun j => C i j) n) 0 in
  let col := filter (fun j => negb (id0 j)) (seq 0 n) in
  let row := filter (fun i => negb (od0 i)) (seq 0 n) in
  match reachdist2 (n + 2) n C C (fun i j => znz (C i j)) C 2 row col with
  | None => None
  | Some (R, D, p) =>
    Some (R, fun i j => let d := Z.of_nat p - D i j + 1 in
                        if (Z.eqb d (Z.of_nat n + 2) || id0 j || od0 i)%bool then None else Some d)
  end.
Close Scope Z_scope.

(* ---------- distance_wei (lines 291-325): Dijkstra as written ---------- *)
(* relaxation from the permanent node v: W = where(G1[v,:]) are the still temporary neighbours *)
Definition dw_relax (n : nat) (G : mat Q) (S : vec bool) (DB : vec len * vec nat) (v : nat) : vec len * vec nat :=
  let D := fst DB in let B := snd DB in
  let cand w := oadd (D v) (Some (G v w)) in
  let better w := (S w && negb (Qeq_bool (G v w) 0) && oltb (cand w) (D w))%bool in
  (tabv None n (fun w => if better w then cand w else D w),
   tabv 0%nat n (fun w => if better w then Datatypes.S (B v) else B w)).

Fixpoint dw_loop (fuel n : nat) (G : mat Q) (S : vec bool) (DB : vec len * vec nat) (V : list nat)
  : option (vec len * vec nat) :=
  match fuel with
  | O => None
  | Datatypes.S f =>
    let S1 := tabv false n (fun w => S w && negb (nmem w V))%bool in
    let DB1 := fold_left (dw_relax n G S1) V DB in
    match filter S1 (seq 0 n) with
    | [] => Some DB1                                   (* D[u,S].size == 0 *)
    | temps =>
      match fold_left omin (map (fst DB1) temps) None with
      | None => Some DB1                               (* isinf(minD) *)
      | Some m => dw_loop f n G S1 DB1 (filter (fun w => oeqb (fst DB1 w) (Some m)) (seq 0 n))
      end
    end
  end.

Definition dw_row (n : nat) (G : mat Q) (u : nat) : option (vec len * vec nat) :=
  dw_loop (n + 2) n G (fun _ => true) (vupd (fun _ => None) u (Some 0), fun _ => 0%nat) [u].

Definition distance_wei (n : nat) (G : mat Q) : option (mat len * mat nat) :=
  match all_some (map (dw_row n G) (seq 0 n)) with
  | None => None
  | Some rows => Some ((fun i j => fst (nth i rows (fun _ => None, fun _ => 0%nat)) j),
                       (fun i j => snd (nth i rows (fun _ => None, fun _ => 0%nat)) j))
  end.

(* ---------- means: charpath, efficiency_*, rout_efficiency ---------- *)
Inductive ext := ENaN | EInf | EFin (q : Q).
Definition qsum (l : list Q) : Q := fold_left Qplus l 0.
Definition oinv (a : len) : Q := match a with Some x => 1 / x | None => 0 end.      (* 1/inf = 0 *)
Definition nq (k : nat) : Q := inject_Z (Z.of_nat k).
Definition offdiag (n : nat) : list (nat * nat) := filter (fun c => negb (Nat.eqb (fst c) (snd c))) (cells n).

(* charpath: Dv = D[not nan] after masking; lambda = mean(Dv); efficiency = mean(1/Dv) *)
Definition charpath (n : nat) (D : mat len) (include_diagonal include_infinite : bool) : ext * ext :=
  let cs := filter (fun c => (include_diagonal || negb (Nat.eqb (fst c) (snd c))) &&
                             (include_infinite || isfin (D (fst c) (snd c))))%bool (cells n) in
  let Dv := map (fun c => D (fst c) (snd c)) cs in
  match Dv with
  | [] => (ENaN, ENaN)
  | _ => (if forallb isfin Dv then EFin (qsum (map (fun a => match a with Some x => x | None => 0 end) Dv) / nq (length Dv))
          else EInf,
          if existsb (fun a => oeqb a (Some 0)) Dv then EInf
          else EFin (qsum (map oinv Dv) / nq (length Dv)))
  end.

(* sum of 1/D off the diagonal divided by n*n-n *)
Definition mean_inv (n : nat) (D : mat len) : ext :=
  if Nat.eqb (n * n - n) 0 then ENaN
  else EFin (qsum (map (fun c => oinv (D (fst c) (snd c))) (offdiag n)) / nq (n * n - n)).

Definition olen_of_nat (a : option nat) : len := match a with Some k => Some (nq k) | None => None end.

(* efficiency_bin(G, local=False): distance_inv is the distance_bin loop, then 1/D, diagonal 0 *)
Definition efficiency_bin (n : nat) (A : mat Z) : option ext :=
  match distance_bin n A with
  | None => None
  | Some D => Some (mean_inv n (fun i j => olen_of_nat (D i j)))
  end.

(* invert(Gw): lengths 1/w on the support *)
Definition invertQ (W : mat Q) : mat Q := fun i j => if Qeq_bool (W i j) 0 then W i j else 1 / W i j.
(* efficiency_wei(Gw, local=False): the same Dijkstra loop (without B) on invert(Gw) *)
Definition efficiency_wei (n : nat) (W : mat Q) : option ext :=
  match distance_wei n (invertQ W) with
  | None => None
  | Some (D, _) => Some (mean_inv n D)
  end.

(* rout_efficiency: Erout = 1/SPL with zero diagonal; GErout = sum(Erout)/(n^2-n) *)
Definition rout_efficiency (nlog : Q -> Q) (n : nat) (A : mat Q) (tr : transform) : ext * mat Q :=
  let S := spl (distance_wei_floyd nlog n A tr) in
  (mean_inv n S, fun i j => if Nat.eqb i j then 0 else oinv (S i j)).

(* ---------- executable interface ---------- *)
Definition ored (a : len) : len := match a with Some x => Some (Qred x) | None => None end.
Definition ext_red (e : ext) : ext := match e with EFin q => EFin (Qred q) | x => x end.
Definition tr_of_nat (k : nat) : transform := match k with O => TNone | S O => TInv | _ => TLog end.
Definition nlog_tbl (tbl : list (Q * Q)) (w : Q) : Q :=
  match find (fun p => Qeq_bool (fst p) w) tbl with Some p => snd p | None => 0 end.

Definition run_floyd (tr : nat) (rows : list (list Q)) (tbl : list (Q * Q))
  : list (list len) * (list (list nat) * list (list nat)) :=
  let n := length rows in
  let st := distance_wei_floyd (nlog_tbl tbl) n (of_rows 0 rows) (tr_of_nat tr) in
  (to_rows n n (fun i j => ored (spl st i j)), (to_rows n n (hops st), to_rows n n (pmat st))).

Definition run_dbin (rows : list (list Z)) : option (list (list (option nat))) :=
  let n := length rows in
  match distance_bin n (of_rows 0%Z rows) with None => None | Some D => Some (to_rows n n D) end.

Definition run_breadthdist (rows : list (list Z)) : option (list (list bool) * list (list (option nat))) :=
  let n := length rows in
  match breadthdist n (of_rows 0%Z rows) with
  | None => None | Some (R, D) => Some (to_rows n n R, to_rows n n D) end.

Definition run_reachdist (rows : list (list Z)) : option (list (list bool) * list (list (option Z))) :=
  let n := length rows in
  match reachdist n (of_rows 0%Z rows) with
  | None => None | Some (R, D) => Some (to_rows n n R, to_rows n n D) end.

Definition run_dwei (rows : list (list Q)) : option (list (list len) * list (list nat)) :=
  let n := length rows in
  match distance_wei n (of_rows 0 rows) with
  | None => None | Some (D, B) => Some (to_rows n n (fun i j => ored (D i j)), to_rows n n B) end.

Definition run_charpath (rows : list (list len)) (incl_diag incl_inf : bool) : ext * ext :=
  let n := length rows in
  let r := charpath n (of_rows None rows) incl_diag incl_inf in (ext_red (fst r), ext_red (snd r)).

Definition run_effbin (rows : list (list Z)) : option ext :=
  match efficiency_bin (length rows) (of_rows 0%Z rows) with None => None | Some e => Some (ext_red e) end.
Definition run_effwei (rows : list (list Q)) : option ext :=
  match efficiency_wei (length rows) (of_rows 0 rows) with None => None | Some e => Some (ext_red e) end.
Definition run_rout (tr : nat) (rows : list (list Q)) (tbl : list (Q * Q)) : ext * list (list Q) :=
  let n := length rows in
  let r := rout_efficiency (nlog_tbl tbl) n (of_rows 0 rows) (tr_of_nat tr) in
  (ext_red (fst r), to_rows n n (fun i j => Qred (snd r i j))).
