(* Model/Modularity.v — bct/algorithms/modularity.py: community_louvain, modularity_{louvain,finetune}_{und,dir,und_sign},
   modularity_probtune_und_sign, modularity_und/_dir (closing formula, ls2ci), modularity_und_sign.
   Carrier Q (exact). Definitions only.

   Conventions.
   * a label vector is [vec nat] holding the 0-based module index the code calls [ma = ci[u] - 1]; the 1-based
     labels the code stores/returns are [S (lab u)] (done at the executable interface).
   * float-decided choices (node order, argmax, [> 1e-10], number of levels) are ORACLE inputs: every run_* takes the
     recorded list of accepted moves (u, mb) per level and replays the source's bookkeeping and gain formula exactly.
   * [sumR] is [sumQ] with [Qred] after every addition (so that extracted runs stay small); Proofs/Modularity.v shows
     sumR f n == sumQ f n and all theorems are stated up to [==]. *)
From Coq Require Import QArith Qabs List Arith Bool ZArith Lia.
From BCT Require Import Base.Mat Base.SumQ Base.ListX.
Import ListNotations.
Open Scope Q_scope.

(* ---------- sums, tabulation ---------- *)
Fixpoint sumR (f : nat -> Q) (n : nat) : Q :=
  match n with O => 0 | S k => Qred (sumR f k + f k) end.
Definition sum2R (f : nat -> nat -> Q) (n : nat) : Q := sumR (fun i => sumR (f i) n) n.
Definition tabQ (n m : nat) (f : mat Q) : mat Q := tab 0 n m (fun i j => Qred (f i j)).
Definition tabvQ (n : nat) (f : vec Q) : vec Q := tabv 0 n (fun i => Qred (f i)).
Definition is_ (a b : nat) : Q := ind (Nat.eqb a b).
Definition rowsum (n : nat) (A : mat Q) : vec Q := fun i => sumR (fun t => A i t) n.   (* np.sum(A, axis=1) *)
Definition colsum (n : nat) (A : mat Q) : vec Q := fun t => sumR (fun i => A i t) n.   (* np.sum(A, axis=0) *)
Definition stot (n : nat) (A : mat Q) : Q := sum2R A n.                                (* np.sum(A) *)
Definition transp (A : mat Q) : mat Q := fun i j => A j i.

(* ---------- np.unique(ci, return_inverse=True)[1] (+1) ---------- *)
Fixpoint insert_uniq (x : Z) (l : list Z) : list Z :=
  match l with
  | [] => [x]
  | y :: r => if (x <? y)%Z then x :: l else if (x =? y)%Z then l else y :: insert_uniq x r
  end.
Definition uniq_sorted (l : list Z) : list Z := fold_right insert_uniq [] l.
Fixpoint index_of (x : Z) (l : list Z) : nat :=
  match l with [] => O | y :: r => if (x =? y)%Z then O else S (index_of x r) end.
(* 0-based inverse index (what the code uses after [- 1]) and the 1-based label it stores *)
Definition relabel0 (n : nat) (ci : vec Z) : vec nat := fun u => index_of (ci u) (uniq_sorted (to_list n ci)).
Definition relabel (n : nat) (ci : vec Z) : vec nat := fun u => S (relabel0 n ci u).
Definition nlab (n : nat) (ci : vec Z) : nat := length (uniq_sorted (to_list n ci)).          (* = max(ci) after relabel *)
Definition zlab (m : vec nat) : vec Z := fun u => Z.of_nat (m u).

(* ---------- definitional modularity (straight from the definition: double sum over same-label pairs) ---------- *)
Definition delta (lab : vec nat) (i j : nat) : Q := is_ (lab i) (lab j).
(* generic pair objective  sum_ij delta(ci,cj) B_ij *)
Definition obj (n : nat) (B : mat Q) (lab : vec nat) : Q := sum2R (fun i j => delta lab i j * B i j) n.
(* Q = (1/s) sum_ij [W_ij - gamma k_i^out k_j^in / s] delta(ci,cj) *)
Definition Qdir (n : nat) (W : mat Q) (g : Q) (lab : vec nat) : Q :=
  let s := stot n W in
  (1 / s) * sum2R (fun i j => (W i j - g * rowsum n W i * colsum n W j / s) * delta lab i j) n.
(* undirected: k = degree (column sums, as modularity_und computes them) *)
Definition Qund (n : nat) (W : mat Q) (g : Q) (lab : vec nat) : Q :=
  let s := stot n W in
  (1 / s) * sum2R (fun i j => (W i j - g * colsum n W i * colsum n W j / s) * delta lab i j) n.

Inductive qtype := Qsta | Qpos | Qsmp | Qgja | Qneg.
Definition Qltb (a b : Q) : bool := negb (Qle_bool b a).
Definition pospart (W : mat Q) : mat Q := fun i j => if Qltb 0 (W i j) then W i j else 0.    (* W * (W > 0) *)
Definition negpart (W : mat Q) : mat Q := fun i j => if Qltb (W i j) 0 then - W i j else 0.  (* -W * (W < 0) *)
(* d0, d1 exactly as the if-chain + the two "adjust for absent weights" statements *)
Definition sign_d0 (qt : qtype) (s0 s1 : Q) : Q :=
  if Qeq_bool s0 0 then 0 else
  match qt with Qsmp => 1 / s0 | Qgja => 1 / (s0 + s1) | Qsta => 1 / s0 | Qpos => 1 / s0 | Qneg => 0 end.
Definition sign_d1 (qt : qtype) (s0 s1 : Q) : Q :=
  if Qeq_bool s1 0 then 0 else
  match qt with Qsmp => 1 / s1 | Qgja => 1 / (s0 + s1) | Qsta => 1 / (s0 + s1) | Qpos => 0 | Qneg => 1 / s1 end.
Definition adj (s : Q) : Q := if Qeq_bool s 0 then 1 else s.      (* if not s: s = 1 *)
(* signed: d0 sum(W0 - g K0 K0'/s0) delta - d1 sum(W1 - g K1 K1'/s1) delta *)
Definition Qhalf (n : nat) (W0 : mat Q) (g s0 : Q) (lab : vec nat) : Q :=
  sum2R (fun i j => (W0 i j - g * rowsum n W0 i * colsum n W0 j / s0) * delta lab i j) n.
Definition Qsign (n : nat) (W : mat Q) (g : Q) (qt : qtype) (lab : vec nat) : Q :=
  let W0 := pospart W in let W1 := negpart W in
  let s0 := stot n W0 in let s1 := stot n W1 in
  sign_d0 qt s0 s1 * Qhalf n W0 g (adj s0) lab - sign_d1 qt s0 s1 * Qhalf n W1 g (adj s1) lab.

(* ---------- aggregation and the code's closing formulas ---------- *)
(* w[a,b] = np.sum(W[np.ix_(ci == a+1, ci == b+1)]) *)
Definition agg (n : nat) (W : mat Q) (lab : vec nat) : mat Q :=
  fun a b => sumR (fun i => sumR (fun j => is_ (lab i) a * is_ (lab j) b * W i j) n) n.
(* louvain_und / louvain_und_sign / community_louvain compute the blocks b >= a and mirror them *)
Definition agg_upper (n : nat) (W : mat Q) (lab : vec nat) : mat Q :=
  fun a b => if Nat.leb a b then agg n W lab a b else agg n W lab b a.
(* finetune_und loops over all (u,v) writing w[u,v] = w[v,u] = block(u,v): the last write wins, i.e. block(max,min) *)
Definition agg_lower (n : nat) (W : mat Q) (lab : vec nat) : mat Q :=
  fun a b => if Nat.leb b a then agg n W lab a b else agg n W lab b a.
Definition trace (K : nat) (w : mat Q) : Q := sumR (fun t => w t t) K.
(* np.sum(np.dot(a, b)) *)
Definition sumdot (K : nat) (a b : mat Q) : Q := sumR (fun u => sumR (fun v => sumR (fun t => a u t * b t v) K) K) K.
(* q = trace(w)/s - gamma*sum(dot(w/s, w/s)) *)
Definition closing (K : nat) (w : mat Q) (g s : Q) : Q :=
  trace K w / s - g * sumdot K (fun u t => w u t / s) (fun t v => w t v / s).
(* q0 = trace(W0) - gamma*sum(dot(W0, W0))/s0 *)
Definition closing_raw (K : nat) (w : mat Q) (g s : Q) : Q := trace K w - g * sumdot K w w / s.
(* q0 = (W0 - gamma*outer(Kn0, Kn0)/s0) * (m == m.T); sum(q0) *)
Definition closing_outer (n : nat) (W0 : mat Q) (kn : vec Q) (g s0 : Q) (lab : vec nat) : Q :=
  sum2R (fun i j => (W0 i j - g * (kn i * kn j) / s0) * delta lab i j) n.

(* ---------- optimiser state ---------- *)
Record chan := mkchan { knm : mat Q; km : vec Q }.                 (* node-to-module sums, module sums *)
Record state := mkst { lab : vec nat; ca : chan; cb : chan }.      (* und / B: only [ca]; dir: ca=out, cb=in; sign: ca=pos, cb=neg *)
Definition chan0 : chan := mkchan (fun _ _ => 0) (fun _ => 0).

(* knm[:, t] = np.sum(M[:, ci == t+1], axis=1) ;  module sums of a node vector *)
Definition knm_of (n : nat) (M : mat Q) (lb : vec nat) : mat Q := fun i t => sumR (fun j => is_ (lb j) t * M i j) n.
Definition km_of (n : nat) (deg : vec Q) (lb : vec nat) : vec Q := fun t => sumR (fun j => is_ (lb j) t * deg j) n.

(* knm[:, mb] += col; knm[:, ma] -= col; km[mb] += du; km[ma] -= du   (sequential, as written) *)
Definition chan_move (N : nat) (col : vec Q) (du : Q) (ma mb : nat) (c : chan) : chan :=
  let k1 : mat Q := fun i t => if Nat.eqb t mb then knm c i t + col i else knm c i t in
  let k2 : mat Q := fun i t => if Nat.eqb t ma then k1 i t - col i else k1 i t in
  let m1 : vec Q := fun t => if Nat.eqb t mb then km c t + du else km c t in
  let m2 : vec Q := fun t => if Nat.eqb t ma then m1 t - du else m1 t in
  mkchan (tabQ N N k2) (tabvQ N m2).
Definition set_lab (N : nat) (lb : vec nat) (u mb : nat) : vec nat := tabv O N (vupd lb u mb).

(* --- undirected (modularity_finetune_und, modularity_louvain_und) --- *)
Definition gain_und (W : mat Q) (g s : Q) (k : vec Q) (st : state) (u mb : nat) : Q :=
  let ma := lab st u in
  (knm (ca st) u mb - knm (ca st) u ma + W u u) - g * k u * (km (ca st) mb - km (ca st) ma + k u) / s.
Definition move_und (N : nat) (W : mat Q) (k : vec Q) (st : state) (u mb : nat) : state :=
  let ma := lab st u in
  mkst (set_lab N (lab st) u mb) (chan_move N (fun i => W i u) (k u) ma mb (ca st)) (cb st).

(* --- directed (modularity_finetune_dir; modularity_louvain_dir with swapped = true) --- *)
Definition gain_dir (W : mat Q) (g s : Q) (ko ki : vec Q) (st : state) (u mb : nat) : Q :=
  let ma := lab st u in
  let dq_o := (knm (ca st) u mb - knm (ca st) u ma + W u u) - g * ko u * (km (cb st) mb - km (cb st) ma + ki u) / s in
  let dq_i := (knm (cb st) u mb - knm (cb st) u ma + W u u) - g * ki u * (km (ca st) mb - km (ca st) ma + ko u) / s in
  (dq_o + dq_i) / 2.
(* finetune_dir: knm_o[:,mb] += W[:,u]; knm_i[:,mb] += W[u,:].   louvain_dir (as it is): knm_o += W[u,:]; knm_i += W[:,u] *)
Definition move_dir (swapped : bool) (N : nat) (W : mat Q) (ko ki : vec Q) (st : state) (u mb : nat) : state :=
  let ma := lab st u in
  let colu : vec Q := fun i => W i u in
  let rowu : vec Q := fun i => W u i in
  mkst (set_lab N (lab st) u mb)
       (chan_move N (if swapped then rowu else colu) (ko u) ma mb (ca st))
       (chan_move N (if swapped then colu else rowu) (ki u) ma mb (cb st)).

(* --- signed (finetune / probtune / louvain _und_sign) --- *)
Definition gain_sign (W0 W1 : mat Q) (g s0 s1 d0 d1 : Q) (kn0 kn1 : vec Q) (st : state) (u mb : nat) : Q :=
  let ma := lab st u in
  let dq0 := (knm (ca st) u mb + W0 u u - knm (ca st) u ma) - g * kn0 u * (km (ca st) mb + kn0 u - km (ca st) ma) / s0 in
  let dq1 := (knm (cb st) u mb + W1 u u - knm (cb st) u ma) - g * kn1 u * (km (cb st) mb + kn1 u - km (cb st) ma) / s1 in
  d0 * dq0 - d1 * dq1.
Definition move_sign (N : nat) (W0 W1 : mat Q) (kn0 kn1 : vec Q) (st : state) (u mb : nat) : state :=
  let ma := lab st u in
  mkst (set_lab N (lab st) u mb)
       (chan_move N (fun i => W0 i u) (kn0 u) ma mb (ca st))
       (chan_move N (fun i => W1 i u) (kn1 u) ma mb (cb st)).

(* --- community_louvain (objective matrix B) --- *)
Definition gain_B (B : mat Q) (st : state) (u mb : nat) : Q :=
  let ma := lab st u in knm (ca st) u mb - knm (ca st) u ma + B u u.
Definition move_B (N : nat) (B : mat Q) (H : vec Q) (st : state) (u mb : nat) : state :=
  let ma := lab st u in
  mkst (set_lab N (lab st) u mb) (chan_move N (fun i => B i u) (H u) ma mb (ca st)) (cb st).

(* bookkeeping invariant of one channel: knm, km equal the sums recomputed from the labels *)
Definition chan_inv (n K : nat) (M : mat Q) (deg : vec Q) (lb : vec nat) (c : chan) : Prop :=
  (forall i t, (i < n)%nat -> (t < K)%nat -> knm c i t == knm_of n M lb i t) /\
  (forall t, (t < K)%nat -> km c t == km_of n deg lb t).

(* ---------- replay of a recorded move sequence ---------- *)
Section Replay.
Variable gain : state -> nat -> nat -> Q.
Variable move : state -> nat -> nat -> state.
(* per move: (exact gain evaluated BEFORE the move, state AFTER the move) *)
Fixpoint replay (st : state) (ms : list (nat * nat)) : list (Q * state) * state :=
  match ms with
  | [] => ([], st)
  | (u, mb) :: r =>
      let g := Qred (gain st u mb) in
      let st' := move st u mb in
      let '(tr, fin) := replay st' r in ((g, st') :: tr, fin)
  end.
(* the labels after replaying (used by the theorems) *)
Fixpoint run_moves (st : state) (ms : list (nat * nat)) : state :=
  match ms with [] => st | (u, mb) :: r => run_moves (move st u mb) r end.
End Replay.

(* ---------- executable interface ---------- *)
Definition snap_t := (list nat * ((list (list Q) * list Q) * (list (list Q) * list Q)))%type.
Definition snap (N n : nat) (st : state) : snap_t :=
  (map S (to_list n (lab st)),
   ((to_rows N N (knm (ca st)), to_list N (km (ca st))), (to_rows N N (knm (cb st)), to_list N (km (cb st))))).
Definition trace_t := list (Q * snap_t).
Definition snaps (N n : nat) (tr : list (Q * state)) : trace_t := map (fun gs => (fst gs, snap N n (snd gs))) tr.
(* one level: (moves, (labels ci[h] 1-based, (q by the code's formula, q of those labels by the definition))) *)
Definition level_t := (trace_t * (list nat * (Q * Q)))%type.
(* whole run: levels, (returned ci, (returned q, (definitional Q of returned ci, definitional Q of the start))) *)
Definition result_t := (list level_t * (list nat * (Q * (Q * Q))))%type.

Definition init_lab (n : nat) (ci : list Z) : vec nat := tabv O n (relabel0 n (of_list 0%Z ci)).
Definition ident : vec nat := fun u => u.
Definition out_lab (n : nat) (lb : vec nat) : list nat := map S (to_list n lb).

(* --- modularity_finetune_und --- *)
Definition finetune_und_init (n : nat) (W : mat Q) (lab0 : vec nat) : state * vec Q :=
  let knm0 := tabQ n n (knm_of n W lab0) in
  let k := tabvQ n (rowsum n knm0) in
  let km0 := tabvQ n (colsum n knm0) in
  (mkst lab0 (mkchan knm0 km0) chan0, k).
Definition run_finetune_und (rows : list (list Q)) (g : Q) (ci : list Z) (moves : list (nat * nat)) : result_t :=
  let n := length rows in let W := of_rows 0 rows in
  let lab0 := init_lab n ci in
  let s := stot n W in
  let '(st0, k) := finetune_und_init n W lab0 in
  let '(tr, st) := replay (gain_und W g s k) (move_und n W k) st0 moves in
  let labf := tabv O n (relabel0 n (zlab (lab st))) in
  let m := nlab n (zlab (lab st)) in
  let w := tabQ m m (agg_lower n W labf) in
  let q := Qred (closing m w g s) in
  let qd := Qred (Qund n W g labf) in
  ([(snaps n n tr, (out_lab n labf, (q, qd)))], (out_lab n labf, (q, (qd, Qred (Qund n W g lab0))))).

(* --- modularity_finetune_dir (after fix d18f46d: km_o = sum(knm_i, axis=0), km_i = sum(knm_o, axis=0)) --- *)
Definition finetune_dir_init (n : nat) (W : mat Q) (lab0 : vec nat) : state * (vec Q * vec Q) :=
  let knm_o := tabQ n n (knm_of n W lab0) in
  let knm_i := tabQ n n (knm_of n (transp W) lab0) in
  let ko := tabvQ n (rowsum n knm_o) in
  let ki := tabvQ n (rowsum n knm_i) in
  let km_o := tabvQ n (colsum n knm_i) in
  let km_i := tabvQ n (colsum n knm_o) in
  (mkst lab0 (mkchan knm_o km_o) (mkchan knm_i km_i), (ko, ki)).
Definition run_finetune_dir (rows : list (list Q)) (g : Q) (ci : list Z) (moves : list (nat * nat)) : result_t :=
  let n := length rows in let W := of_rows 0 rows in
  let lab0 := init_lab n ci in
  let s := stot n W in
  let '(st0, (ko, ki)) := finetune_dir_init n W lab0 in
  let '(tr, st) := replay (gain_dir W g s ko ki) (move_dir false n W ko ki) st0 moves in
  let labf := tabv O n (relabel0 n (zlab (lab st))) in
  let m := nlab n (zlab (lab st)) in
  let w := tabQ m m (agg n W labf) in
  let q := Qred (closing m w g s) in
  let qd := Qred (Qdir n W g labf) in
  ([(snaps n n tr, (out_lab n labf, (q, qd)))], (out_lab n labf, (q, (qd, Qred (Qdir n W g lab0))))).

(* --- signed: shared initialisation of finetune / probtune / modularity_und_sign --- *)
Definition qtype_of (k : nat) : qtype :=
  match k with O => Qsta | 1%nat => Qpos | 2%nat => Qsmp | 3%nat => Qgja | _ => Qneg end.
Record sign_par := mksp { sW0 : mat Q; sW1 : mat Q; ss0 : Q; ss1 : Q; sd0 : Q; sd1 : Q }.
Definition sign_params (n : nat) (W : mat Q) (qt : qtype) : sign_par :=
  let W0 := tabQ n n (pospart W) in let W1 := tabQ n n (negpart W) in
  let s0 := stot n W0 in let s1 := stot n W1 in
  mksp W0 W1 (adj s0) (adj s1) (sign_d0 qt s0 s1) (sign_d1 qt s0 s1).
Definition sign_init (n : nat) (p : sign_par) (lab0 : vec nat) : state * (vec Q * vec Q) :=
  let knm0 := tabQ n n (knm_of n (sW0 p) lab0) in
  let knm1 := tabQ n n (knm_of n (sW1 p) lab0) in
  let kn0 := tabvQ n (rowsum n knm0) in
  let kn1 := tabvQ n (rowsum n knm1) in
  let km0 := tabvQ n (colsum n knm0) in
  let km1 := tabvQ n (colsum n knm1) in
  (mkst lab0 (mkchan knm0 km0) (mkchan knm1 km1), (kn0, kn1)).
Definition sign_closing (n : nat) (p : sign_par) (kn0 kn1 : vec Q) (g : Q) (lb : vec nat) : Q :=
  sd0 p * closing_outer n (sW0 p) kn0 g (ss0 p) lb - sd1 p * closing_outer n (sW1 p) kn1 g (ss1 p) lb.
(* modularity_finetune_und_sign and modularity_probtune_und_sign: same bookkeeping and closing formula; the recorded
   move list of probtune also contains its random moves (possibly mb = ma) *)
Definition run_finetune_sign (rows : list (list Q)) (g : Q) (qt : nat) (ci : list Z) (moves : list (nat * nat)) : result_t :=
  let n := length rows in let W := of_rows 0 rows in
  let lab0 := init_lab n ci in
  let p := sign_params n W (qtype_of qt) in
  let '(st0, (kn0, kn1)) := sign_init n p lab0 in
  let '(tr, st) := replay (gain_sign (sW0 p) (sW1 p) g (ss0 p) (ss1 p) (sd0 p) (sd1 p) kn0 kn1)
                          (move_sign n (sW0 p) (sW1 p) kn0 kn1) st0 moves in
  let labf := tabv O n (relabel0 n (zlab (lab st))) in
  let q := Qred (sign_closing n p kn0 kn1 g labf) in
  let qd := Qred (Qsign n W g (qtype_of qt) labf) in
  ([(snaps n n tr, (out_lab n labf, (q, qd)))], (out_lab n labf, (q, (qd, Qred (Qsign n W g (qtype_of qt) lab0))))).
(* modularity_und_sign(W, ci, qtype): no gamma *)
Definition run_und_sign (rows : list (list Q)) (qt : nat) (ci : list Z) : list nat * (Q * Q) :=
  let n := length rows in let W := of_rows 0 rows in
  let lab0 := init_lab n ci in
  let p := sign_params n W (qtype_of qt) in
  let '(_, (kn0, kn1)) := sign_init n p lab0 in
  (out_lab n lab0, (Qred (sign_closing n p kn0 kn1 1 lab0), Qred (Qsign n W 1 (qtype_of qt) lab0))).

(* --- modularity_und / modularity_dir closing statement (kci given, or the ci the spectral part produced) --- *)
(* q = np.sum(np.logical_not(s - s.T) * B / m),  B = A - gamma*outer(k,k)/m, k = column sums *)
Definition given_und (n : nat) (A : mat Q) (g : Q) (lb : vec nat) : Q :=
  let k := colsum n A in let m := sumR k n in
  sum2R (fun i j => delta lb i j * (A i j - g * (k i * k j) / m) / m) n.
(* b = A - gamma*outer(ko,ki)/m; B = b + b.T; q = np.sum(logical_not(s - s.T) * B / (2m)) *)
Definition given_dir (n : nat) (A : mat Q) (g : Q) (lb : vec nat) : Q :=
  let ki := colsum n A in let ko := rowsum n A in let m := sumR ki n in
  let b : mat Q := fun i j => A i j - g * (ko i * ki j) / m in
  sum2R (fun i j => delta lb i j * (b i j + b j i) / (2 * m)) n.
(* the given kci is used as it is (arbitrary integers): only equality of labels matters *)
Definition zdelta_lab (n : nat) (ci : list Z) : vec nat := init_lab n ci.
Definition run_given (dir : bool) (rows : list (list Q)) (g : Q) (ci : list Z) : Q * Q :=
  let n := length rows in let A := of_rows 0 rows in
  let lb := zdelta_lab n ci in
  if dir then (Qred (given_dir n A g lb), Qred (Qdir n A g lb))
  else (Qred (given_und n A g lb), Qred (Qund n A g lb)).
(* ls2ci: ci[ls[i][j]] = i + 1 *)
Fixpoint ls2ci_from (i : nat) (ls : list (list nat)) (ci : vec nat) : vec nat :=
  match ls with [] => ci | b :: r => ls2ci_from (S i) r (fun x => if nmem x b then S i else ci x) end.
Definition ls2ci (ls : list (list nat)) : vec nat := ls2ci_from O ls (fun _ => O).
(* the recursive bisection of modularity_und/_dir with the eigenvector/fine-tuning outcome as an oracle:
   [split md] returns None (module is final) or Some (mod1, mod2) *)
Fixpoint bisect (fuel : nat) (split : list nat -> option (list nat * list nat)) (md : list nat) : list (list nat) :=
  match fuel with
  | O => [md]
  | S f => match split md with
           | None => [md]
           | Some (m1, m2) => bisect f split m1 ++ bisect f split m2
           end
  end.

(* --- Louvain level loop --- *)
(* ci[h][where(ci[h-1] == i+1)] = m[i] for i in range(n);  untouched entries stay 0 (np.zeros) *)
Definition compose_lab (n : nat) (prev : vec nat) (m1 : vec nat) : vec nat :=   (* both 1-based values *)
  fun x => match prev x with O => O | S i => if Nat.ltb i n then m1 i else O end.

(* modularity_louvain_und: one level on the current W (n nodes), moves recorded *)
Definition louvain_und_level (n : nat) (W : mat Q) (g s : Q) (moves : list (nat * nat))
  : list (Q * state) * (vec nat * (nat * mat Q)) :=
  let k := tabvQ n (colsum n W) in
  let st0 := mkst (tabv O n ident) (mkchan (tabQ n n W) k) chan0 in
  let '(tr, st) := replay (gain_und W g s k) (move_und n W k) st0 moves in
  let m0 := tabv O n (relabel0 n (zlab (lab st))) in
  let n' := nlab n (zlab (lab st)) in
  (tr, (m0, (n', tabQ n' n' (agg_upper n W m0)))).
Fixpoint louvain_und_levels (n0 : nat) (Worig : mat Q) (g s : Q) (n : nat) (W : mat Q) (prev : vec nat)
         (lv : list (list (nat * nat))) : list (level_t * Q) :=
  match lv with
  | [] => []
  | moves :: rest =>
      let '(tr, (m0, (n', W1))) := louvain_und_level n W g s moves in
      let cih := tabv O n0 (compose_lab n prev (fun i => S (m0 i))) in
      let q := Qred (closing n' W1 g s) in
      let qd := Qred (Qund n0 Worig g cih) in
      ((snaps n n tr, (to_list n0 cih, (q, qd))), q) :: louvain_und_levels n0 Worig g s n' W1 cih rest
  end.
(* return ci[h-1], q[h-1] with ci[0] = arange+1, q[0] = -1 *)
Definition pick_prev (n0 : nat) (lv : list (level_t * Q)) : list nat * Q :=
  match rev lv with
  | _ :: (l, q) :: _ => (fst (snd l), q)
  | _ => (map S (seq 0 n0), -(1))
  end.
Definition run_louvain_und (rows : list (list Q)) (g : Q) (lv : list (list (nat * nat))) : result_t :=
  let n := length rows in let W := tabQ n n (of_rows 0 rows) in
  let s := stot n W in
  let res := louvain_und_levels n W g s n W (fun x => S x) lv in
  let '(ci, q) := pick_prev n res in
  let lbf : vec nat := fun x => nth x ci O in
  (map fst res, (ci, (q, (Qred (Qund n W g lbf), Qred (Qund n W g ident))))).

(* modularity_louvain_dir AS IT IS: W is never replaced by W1, knm_i starts as W (not W.T), the updates use the swapped
   row/column. Arrays keep the size n0 of the original matrix while the node count n shrinks. *)
Definition louvain_dir_level (n0 n : nat) (W : mat Q) (g s : Q) (moves : list (nat * nat))
  : list (Q * state) * (vec nat * (nat * mat Q)) :=
  let ko := tabvQ n0 (rowsum n0 W) in
  let ki := tabvQ n0 (colsum n0 W) in
  let st0 := mkst (tabv O n0 ident) (mkchan (tabQ n0 n0 W) ko) (mkchan (tabQ n0 n0 W) ki) in
  let '(tr, st) := replay (gain_dir W g s ko ki) (move_dir true n0 W ko ki) st0 moves in
  let m0 := tabv O n (relabel0 n (zlab (lab st))) in
  let n' := nlab n (zlab (lab st)) in
  (tr, (m0, (n', tabQ n' n' (agg n W m0)))).
Fixpoint louvain_dir_levels (n0 : nat) (W : mat Q) (g s : Q) (n : nat) (prev : vec nat)
         (lv : list (list (nat * nat))) : list (level_t * Q) :=
  match lv with
  | [] => []
  | moves :: rest =>
      let '(tr, (m0, (n', W1))) := louvain_dir_level n0 n W g s moves in
      let cih := tabv O n0 (compose_lab n prev (fun i => S (m0 i))) in
      let q := Qred (closing n' W1 g s) in
      let qd := Qred (Qdir n0 W g cih) in
      ((snaps n0 n tr, (to_list n0 cih, (q, qd))), q) :: louvain_dir_levels n0 W g s n' cih rest
  end.
Definition run_louvain_dir (rows : list (list Q)) (g : Q) (lv : list (list (nat * nat))) : result_t :=
  let n := length rows in let W := tabQ n n (of_rows 0 rows) in
  let s := stot n W in
  let res := louvain_dir_levels n W g s n (fun x => S x) lv in
  let '(ci, q) := pick_prev n res in
  let lbf : vec nat := fun x => nth x ci O in
  (map fst res, (ci, (q, (Qred (Qdir n W g lbf), Qred (Qdir n W g ident))))).
(* the same routine as it would be with the three one-line repairs (W = W1, knm_i = W.T, unswapped updates):
   used only to state that the theorems hold for the repaired form *)
Definition louvain_dirfix_level (n : nat) (W : mat Q) (g s : Q) (moves : list (nat * nat)) : state :=
  let ko := tabvQ n (rowsum n W) in
  let ki := tabvQ n (colsum n W) in
  let st0 := mkst (tabv O n ident) (mkchan (tabQ n n W) ko) (mkchan (tabQ n n (transp W)) ki) in
  run_moves (move_dir false n W ko ki) st0 moves.

(* modularity_louvain_und_sign *)
Definition louvain_sign_level (n : nat) (W0 W1 : mat Q) (g s0 s1 d0 d1 : Q) (moves : list (nat * nat))
  : list (Q * state) * (vec nat * (nat * (mat Q * mat Q))) :=
  let kn0 := tabvQ n (colsum n W0) in
  let kn1 := tabvQ n (colsum n W1) in
  let st0 := mkst (tabv O n ident) (mkchan (tabQ n n W0) kn0) (mkchan (tabQ n n W1) kn1) in
  let '(tr, st) := replay (gain_sign W0 W1 g s0 s1 d0 d1 kn0 kn1) (move_sign n W0 W1 kn0 kn1) st0 moves in
  let m0 := tabv O n (relabel0 n (zlab (lab st))) in
  let n' := nlab n (zlab (lab st)) in
  (tr, (m0, (n', (tabQ n' n' (agg_upper n W0 m0), tabQ n' n' (agg_upper n W1 m0))))).
Fixpoint louvain_sign_levels (n0 : nat) (Worig : mat Q) (qt : qtype) (g s0 s1 d0 d1 : Q) (n : nat) (W0 W1 : mat Q)
         (prev : vec nat) (lv : list (list (nat * nat))) : list (level_t * Q) :=
  match lv with
  | [] => []
  | moves :: rest =>
      let '(tr, (m0, (n', (V0, V1)))) := louvain_sign_level n W0 W1 g s0 s1 d0 d1 moves in
      let cih := tabv O n0 (compose_lab n prev (fun i => S (m0 i))) in
      let q := Qred (d0 * closing_raw n' V0 g s0 - d1 * closing_raw n' V1 g s1) in
      let qd := Qred (Qsign n0 Worig g qt cih) in
      ((snaps n n tr, (to_list n0 cih, (q, qd))), q) :: louvain_sign_levels n0 Worig qt g s0 s1 d0 d1 n' V0 V1 cih rest
  end.
(* returns unique(ci[-1])+1, q[-1]; with no level executed that is ci[1] = arange+1, q = 0 *)
Definition run_louvain_sign (rows : list (list Q)) (g : Q) (qt : nat) (lv : list (list (nat * nat))) : result_t :=
  let n := length rows in let W := tabQ n n (of_rows 0 rows) in
  let p := sign_params n W (qtype_of qt) in
  let res := louvain_sign_levels n W (qtype_of qt) g (ss0 p) (ss1 p) (sd0 p) (sd1 p) n (sW0 p) (sW1 p) (fun x => S x) lv in
  let '(cil, q) := match rev res with (l, q) :: _ => (fst (snd l), q) | [] => (map S (seq 0 n), 0) end in
  let ci := out_lab n (relabel0 n (fun x => Z.of_nat (nth x cil O))) in
  let lbf : vec nat := fun x => nth x ci O in
  (map fst res, (ci, (q, (Qred (Qsign n W g (qtype_of qt) lbf), Qred (Qsign n W g (qtype_of qt) ident))))).

(* community_louvain: built-in objective matrices *)
Definition B_modularity (n : nat) (W : mat Q) (g : Q) : mat Q :=
  let s := stot n W in fun i j => W i j - g * (rowsum n W i * colsum n W j) / s.
Definition B_potts (W : mat Q) (g : Q) : mat Q := fun i j => W i j - g * (if Qeq_bool (W i j) 0 then 1 else 0).
Definition B_negative (sym : bool) (n : nat) (W : mat Q) (g : Q) : mat Q :=
  let W0 := tabQ n n (pospart W) in let s0 := stot n W0 in
  let B0 : mat Q := fun i j => W0 i j - g * (rowsum n W0 i * colsum n W0 j) / s0 in
  let W1 := tabQ n n (negpart W) in let s1 := stot n W1 in
  let B1 : mat Q := if Qeq_bool s1 0 then (fun _ _ => 0) else fun i j => W1 i j - g * (rowsum n W1 i * colsum n W1 j) / s1 in
  if sym then fun i j => B0 i j / (s0 + s1) - B1 i j / (s0 + s1)
  else fun i j => B0 i j / s0 - B1 i j / (s0 + s1).
Definition B_builtin (kind : nat) (n : nat) (W : mat Q) (g : Q) : mat Q :=
  let B := match kind with O => B_modularity n W g | 1%nat => B_potts W g | 2%nat => B_negative true n W g
                      | _ => B_negative false n W g end in
  fun i j => (B i j + B j i) / 2.                                          (* B = (B + B.T) / 2 *)
(* the quantity the returned q is supposed to be, straight from the definition *)
Definition Qpotts (n : nat) (W : mat Q) (g : Q) (lb : vec nat) : Q :=
  (1 / stot n W) * sum2R (fun i j => (W i j - g * (if Qeq_bool (W i j) 0 then 1 else 0)) * delta lb i j) n.
Definition Qneg_obj (sym : bool) (n : nat) (W : mat Q) (g : Q) (lb : vec nat) : Q :=
  let W0 := pospart W in let W1 := negpart W in let s0 := stot n W0 in let s1 := stot n W1 in
  (if sym then 1 / (s0 + s1) else 1 / s0) * Qhalf n W0 g s0 lb
  - (if Qeq_bool s1 0 then 0 else 1 / (s0 + s1)) * Qhalf n W1 g s1 lb.
Definition Qbuiltin (kind n : nat) (W : mat Q) (g : Q) (lb : vec nat) : Q :=
  match kind with O => Qdir n W g lb | 1%nat => Qpotts n W g lb | 2%nat => Qneg_obj true n W g lb
             | _ => Qneg_obj false n W g lb end.

(* one pass of the outer while loop; first level starts from the given partition, later ones from singletons *)
Definition cl_level (first : bool) (n : nat) (B : mat Q) (lab0 : vec nat) (moves : list (nat * nat))
  : list (Q * state) * (vec nat * (nat * mat Q)) :=
  let hnm := if first then tabQ n n (knm_of n B lab0) else tabQ n n B in
  let H := if first then tabvQ n (rowsum n hnm) else tabvQ n (colsum n B) in
  let Hm := if first then tabvQ n (colsum n hnm) else H in
  let st0 := mkst lab0 (mkchan hnm Hm) chan0 in
  let '(tr, st) := replay (gain_B B) (move_B n B H) st0 moves in
  let m0 := tabv O n (relabel0 n (zlab (lab st))) in
  let n' := nlab n (zlab (lab st)) in
  (tr, (m0, (n', tabQ n' n' (agg_upper n B m0)))).
Fixpoint cl_levels (kind n0 : nat) (Worig : mat Q) (g : Q) (first : bool) (n : nat) (B : mat Q) (lab0 : vec nat)
         (prev : vec nat) (lv : list (list (nat * nat))) : list (level_t * Q) :=
  match lv with
  | [] => []
  | moves :: rest =>
      let '(tr, (m0, (n', B1))) := cl_level first n B lab0 moves in
      (* first iteration: ci = Mb; later: ci[M0 == u] = Mb[u-1] *)
      let cih := if first then tabv O n0 (fun x => S (m0 x)) else tabv O n0 (compose_lab n prev (fun i => S (m0 i))) in
      let q := Qred (trace n' B1) in
      let qd := Qred (Qbuiltin kind n0 Worig g cih) in
      ((snaps n n tr, (to_list n0 cih, (q, qd))), q) :: cl_levels kind n0 Worig g false n' B1 (tabv O n' ident) cih rest
  end.
Definition run_community_louvain (rows : list (list Q)) (g : Q) (kind : nat) (ci : list Z)
           (lv : list (list (nat * nat))) : result_t :=
  let n := length rows in let W := tabQ n n (of_rows 0 rows) in
  let s := stot n W in
  let lab0 := init_lab n ci in
  let B := tabQ n n (B_builtin kind n W g) in
  let res := cl_levels kind n W g true n B lab0 (fun x => S (lab0 x)) lv in
  let '(cil, q) := match rev res with (l, q) :: _ => (fst (snd l), q)
                                 | [] => (out_lab n lab0, Qred (obj n B lab0 / s)) end in
  let lbf : vec nat := fun x => nth x cil O in
  (* return ci, q/s   (q for the negative_* objectives) *)
  let qret := match kind with O | 1%nat => Qred (q / s) | _ => q end in
  (* level q's are reported as the code holds them (trace(B), not yet divided by s) *)
  (map fst res, (cil, (qret, (Qred (Qbuiltin kind n W g lbf), Qred (Qbuiltin kind n W g lab0))))).

(* the hierarchy rule of modularity_louvain_und/_dir: q = [-1, q1, q2, ...]; stop at the first h with
   q[h] - q[h-1] < 1e-10; the retained levels are q[1..h-1] *)
Definition eps : Q := 1 # 10000000000.
Fixpoint retained_from (prev : Q) (qs : list Q) : list Q :=
  match qs with
  | [] => []
  | q :: r => if Qltb (q - prev) eps then [] else q :: retained_from q r
  end.
Definition retained (qs : list Q) : list Q := retained_from (-(1)) qs.
Definition run_retained (qs : list Q) : list Q := retained qs.
