(* Model/Rewire.v — bct/algorithms/reference.py: the ten edge-swap rewiring / latticising routines
   (randmio_dir, randmio_dir_connected, randmio_und, randmio_und_connected, latmio_dir,
   latmio_dir_connected, latmio_und, latmio_und_connected, randomize_graph_partial_und) as ONE
   engine parameterised by the points in which the routines differ, plus randomizer_bin_und.
   Weights are Z (the routines only move and test them), the random generator is an explicit
   stream of recorded draws.  Definitions only. *)
From Coq Require Import ZArith List Arith Bool Lia QArith Qround.
From BCT Require Import Base.Mat Base.ListX Model.Components.
Import ListNotations.
Open Scope Z_scope.

(* ---------- the random stream ---------- *)
Inductive draw :=
| DInt (z : Z)              (* one value returned by rng.randint(..) *)
| DFlt (q : Q)              (* rng.random_sample() / rng.rand(), as the exact rational of the float *)
| DPerm (l : list nat).     (* rng.permutation(n) *)
Definition stream := list draw.

Definition randint (k : nat) (z : Z) : nat := Z.to_nat (z mod Z.of_nat k).
Definition Qgtb (a b : Q) : bool := negb (Qle_bool a b).

(* ---------- state: matrix + edge index arrays i, j ---------- *)
Record state := mkst { sR : mat Z; si : vec nat; sj : vec nat }.

(* cell writes of the accepted swap, sequential in source order *)
Definition swap_dir (R : mat Z) (a b c d : nat) : mat Z :=
  let R1 := upd R a d (R a b) in
  let R2 := upd R1 a b 0 in
  let R3 := upd R2 c b (R2 c d) in
  upd R3 c d 0.

Definition swap_und (R : mat Z) (a b c d : nat) : mat Z :=
  let R1 := upd R a d (R a b) in
  let R2 := upd R1 a b 0 in
  let R3 := upd R2 d a (R2 b a) in
  let R4 := upd R3 b a 0 in
  let R5 := upd R4 c b (R4 c d) in
  let R6 := upd R5 c d 0 in
  let R7 := upd R6 b c (R6 d c) in
  upd R7 d c 0.

(* edge lists: np.where(R), np.where(np.tril(R, -1)) (strict lower triangle: a self-connection is not a rewirable
   edge), np.where(np.triu(A, 1)) — row-major *)
Inductive elsrc := ELall | ELtril | ELtriu1.
Definition el_keep (src : elsrc) (c : nat * nat) : bool :=
  match src with
  | ELall => true
  | ELtril => Nat.ltb (snd c) (fst c)
  | ELtriu1 => Nat.ltb (fst c) (snd c)
  end.
Definition edge_list (src : elsrc) (n : nat) (R : mat Z) : list (nat * nat) :=
  filter (fun c => negb (Z.eqb (R (fst c) (snd c)) 0) && el_keep src c)%bool (cells n).

(* ---------- selection of an edge pair ---------- *)
(* e2 = rng.randint(k); while e1 == e2: e2 = rng.randint(k) *)
Fixpoint pop_e2 (fuel k e1 : nat) (s : stream) : option (nat * stream) :=
  match fuel with
  | O => None
  | S f =>
    match s with
    | DInt z :: s' =>
        let e2 := randint k z in
        if Nat.eqb e2 e1 then pop_e2 f k e1 s' else Some (e2, s')
    | _ => None
    end
  end.

Definition four_ok (a b c d : nat) : bool :=
  (negb (Nat.eqb a c) && negb (Nat.eqb a d) && negb (Nat.eqb b c) && negb (Nat.eqb b d))%bool.

(* while True: draw e1, e2 (distinct); break when a != c and a != d and b != c and b != d *)
Fixpoint select (fuel k : nat) (ei ej : vec nat) (s : stream) : option (nat * nat * stream) :=
  match fuel with
  | O => None
  | S f =>
    match s with
    | DInt z1 :: s1 =>
        let e1 := randint k z1 in
        match pop_e2 f k e1 s1 with
        | None => None
        | Some (e2, s2) =>
            if four_ok (ei e1) (ej e1) (ei e2) (ej e2) then Some (e1, e2, s2)
            else select f k ei ej s2
        end
    | _ => None
    end
  end.

(* ---------- one attempt ---------- *)
Record variant := mkvar {
  v_und : bool;                                          (* flip step + mirrored writes *)
  v_guard : mat Z -> nat -> nat -> nat -> nat -> bool    (* lattice / connectivity / mask conditions *)
}.

Definition quad := (nat * nat * nat * nat)%type.

(* result of an attempt: new state, rest of the stream, Some abcd when a swap was carried out *)
Definition attempt (v : variant) (k : nat) (st : state) (s : stream)
  : option (state * stream * option quad) :=
  match select (length s) k (si st) (sj st) s with
  | None => None
  | Some (e1, e2, s1) =>
    let a := si st e1 in let b := sj st e1 in
    let c0 := si st e2 in let d0 := sj st e2 in
    let flipres :=
      if v_und v then
        match s1 with
        | DFlt q :: s2 => Some (Qgtb q (1 # 2), s2)
        | _ => None
        end
      else Some (false, s1) in
    match flipres with
    | None => None
    | Some (flip, s2) =>
      let st1 := if flip then mkst (sR st) (vupd (si st) e2 d0) (vupd (sj st) e2 c0) else st in
      let c := if flip then d0 else c0 in
      let d := if flip then c0 else d0 in
      let R := sR st1 in
      if (Z.eqb (R a d) 0 && Z.eqb (R c b) 0 && v_guard v R a b c d)%bool then
        let R' := if v_und v then swap_und R a b c d else swap_dir R a b c d in
        let j' := vupd (vupd (sj st1) e1 d) e2 b in
        Some (mkst R' (si st1) j', s2, Some (a, b, c, d))
      else Some (st1, s2, None)
    end
  end.

(* att = 0; while att <= max_attempts: ...; att += 1   (left = max_attempts + 1) *)
Fixpoint attempts (v : variant) (k left : nat) (st : state) (s : stream)
  : option (state * stream * option quad) :=
  match left with
  | O => Some (st, s, None)
  | S l =>
    match attempt v k st s with
    | None => None
    | Some (st', s', Some q) => Some (st', s', Some q)
    | Some (st', s', None) => attempts v k l st' s'
    end
  end.

(* the trace records, after every accepted swap, (a,b,c,d) and the whole state *)
Definition event := (quad * state)%type.

(* for it in range(iters): attempts *)
Fixpoint iterate (v : variant) (k maxatt1 iters : nat) (st : state) (s : stream) (tr : list event)
  : option (state * stream * list event) :=
  match iters with
  | O => Some (st, s, tr)
  | S it =>
    match attempts v k maxatt1 st s with
    | None => None
    | Some (st', s', None) => iterate v k maxatt1 it st' s' tr
    | Some (st', s', Some q) => iterate v k maxatt1 it st' s' (tr ++ [(q, st')])
    end
  end.

(* randomize_graph_partial_und: while nswap < maxswap: one attempt (no attempt bound; fuel) *)
Fixpoint until_swaps (v : variant) (k fuel want : nat) (st : state) (s : stream) (tr : list event)
  : option (state * stream * list event) :=
  match want with
  | O => Some (st, s, tr)
  | S w =>
    match fuel with
    | O => None
    | S f =>
      match attempt v k st s with
      | None => None
      | Some (st', s', None) => until_swaps v k f want st' s' tr
      | Some (st', s', Some q) => until_swaps v k f w st' s' (tr ++ [(q, st')])
      end
    end
  end.

(* ---------- numpy helpers ---------- *)
(* np.round: half to even *)
Definition np_round (x : Q) : Z :=
  let f := Qfloor x in
  let r := (x - inject_Z f)%Q in
  if Qgtb (1 # 2) r then f
  else if Qgtb r (1 # 2) then f + 1
  else if Z.even f then f else f + 1.

Definition init_state (src : elsrc) (n : nat) (R : mat Z) : state * nat :=
  let el := edge_list src n R in
  (mkst R (of_list O (map fst el)) (of_list O (map snd el)), length el).

(* max_attempts = np.round(n*k/(n*(n-1)))  resp.  np.round(n*k/(n*(n-1)/2)) for the undirected latticisers *)
Definition max_attempts (halved : bool) (n k : nat) : nat :=
  let num := inject_Z (Z.of_nat (n * k)) in
  let den := (inject_Z (Z.of_nat (n * (n - 1))) / (if halved then 2 else 1))%Q in
  Z.to_nat (np_round (num / den)%Q).

(* ---------- guards ---------- *)
Definition no_guard : mat Z -> nat -> nat -> nat -> nat -> bool := fun _ _ _ _ _ => true.

(* lattice condition: D[a,b]R[a,b] + D[c,d]R[c,d] >= D[a,d]R[a,b] + D[c,b]R[c,d] *)
Definition lattice_guard (D : mat Z) : mat Z -> nat -> nat -> nat -> nat -> bool :=
  fun R a b c d => Z.leb (D a d * R a b + D c b * R c d) (D a b * R a b + D c d * R c d).

(* mask: not (B[a,d] or B[c,b]) *)
Definition mask_guard (B : mat Z) : mat Z -> nat -> nat -> nat -> nat -> bool :=
  fun _ a b c d => (Z.eqb (B a d) 0 && Z.eqb (B c b) 0)%bool.

Definition nzb (z : Z) : bool := negb (Z.eqb z 0).

(* boolean row sets over [0,n) *)
Definition bset := nat -> bool.
(* np.any(R[P != 0, :], axis=0): nodes with an in-edge from a member of P *)
Definition expand (n : nat) (R : mat Z) (P : bset) : bset :=
  tabv false n (fun y => existsb (fun x => (P x && nzb (R x y))%bool) (seq 0 n)).
Definition anyb (n : nat) (P : bset) : bool := existsb P (seq 0 n).

(* undirected connectedness test (randmio_und_connected, latmio_und_connected):
   if not (R[a,c] or R[b,d]): P = rows (a,d) of R with P[0,b]=0, P[1,c]=0; PN = P, PN[:,d]=PN[:,a]=1;
   loop: P <- expand P; P *= not PN; if a row of P is empty: reject; elif P[:,b] or P[:,c] nonzero: accept; PN += P *)
Fixpoint und_conn_loop (fuel n : nat) (R : mat Z) (b c : nat) (P0 P1 PN0 PN1 : bset) : bool :=
  match fuel with
  | O => false
  | S f =>
    let Q0 := tabv false n (fun y => (expand n R P0 y && negb (PN0 y))%bool) in
    let Q1 := tabv false n (fun y => (expand n R P1 y && negb (PN1 y))%bool) in
    if negb (anyb n Q0 && anyb n Q1) then false
    else if (Q0 b || Q0 c || Q1 b || Q1 c)%bool then true
    else und_conn_loop f n R b c Q0 Q1
           (tabv false n (fun y => (PN0 y || Q0 y)%bool)) (tabv false n (fun y => (PN1 y || Q1 y)%bool))
  end.

Definition und_conn_guard (n : nat) : mat Z -> nat -> nat -> nat -> nat -> bool :=
  fun R a b c d =>
    if (nzb (R a c) || nzb (R b d))%bool then true
    else
      let P0 : bset := fun y => if Nat.eqb y b then false else nzb (R a y) in
      let P1 : bset := fun y => if Nat.eqb y c then false else nzb (R d y) in
      let PN0 : bset := fun y => if (Nat.eqb y d || Nat.eqb y a)%bool then true else P0 y in
      let PN1 : bset := fun y => if (Nat.eqb y d || Nat.eqb y a)%bool then true else P1 y in
      und_conn_loop (S n) n R b c (tabv false n P0) (tabv false n P1) (tabv false n PN0) (tabv false n PN1).

(* directed connectedness test (randmio_dir_connected, latmio_dir_connected):
   if not (any(R[a,c],R[d,b],R[d,c]) and any(R[c,a],R[b,d],R[b,a])):
     P = rows (a,c); P[0,b]=0; P[0,d]=1; P[1,d]=0; P[1,b]=1; PN = P; PN[0,a]=1; PN[1,c]=1
     loop: P <- expand P; P *= not PN; PN += P; if a row of P empty: reject;
           elif (PN[0,b] or PN[0,c]) and (PN[1,d] or PN[1,a]): accept *)
Fixpoint dir_conn_loop (fuel n : nat) (R : mat Z) (a b c d : nat) (P0 P1 PN0 PN1 : bset) : bool :=
  match fuel with
  | O => false
  | S f =>
    let Q0 := tabv false n (fun y => (expand n R P0 y && negb (PN0 y))%bool) in
    let Q1 := tabv false n (fun y => (expand n R P1 y && negb (PN1 y))%bool) in
    let N0 := tabv false n (fun y => (PN0 y || Q0 y)%bool) in
    let N1 := tabv false n (fun y => (PN1 y || Q1 y)%bool) in
    if negb (anyb n Q0 && anyb n Q1) then false
    else if ((N0 b || N0 c) && (N1 d || N1 a))%bool then true
    else dir_conn_loop f n R a b c d Q0 Q1 N0 N1
  end.

Definition dir_conn_guard (n : nat) : mat Z -> nat -> nat -> nat -> nat -> bool :=
  fun R a b c d =>
    if ((nzb (R a c) || nzb (R d b) || nzb (R d c)) && (nzb (R c a) || nzb (R b d) || nzb (R b a)))%bool then true
    else
      let P0 : bset := fun y => if Nat.eqb y d then true else if Nat.eqb y b then false else nzb (R a y) in
      let P1 : bset := fun y => if Nat.eqb y b then true else if Nat.eqb y d then false else nzb (R c y) in
      let PN0 : bset := fun y => if Nat.eqb y a then true else P0 y in
      let PN1 : bset := fun y => if Nat.eqb y c then true else P1 y in
      dir_conn_loop (S n) n R a b c d (tabv false n P0) (tabv false n P1) (tabv false n PN0) (tabv false n PN1).

Definition andg (g h : mat Z -> nat -> nat -> nat -> nat -> bool) : mat Z -> nat -> nat -> nat -> nat -> bool :=
  fun R a b c d => (g R a b c d && h R a b c d)%bool.

(* ---------- the routines ---------- *)
Inductive routine :=
| Randmio_dir | Randmio_dir_connected | Randmio_und | Randmio_und_connected
| Latmio_dir | Latmio_dir_connected | Latmio_und | Latmio_und_connected.

Definition is_und (r : routine) : bool :=
  match r with Randmio_und | Randmio_und_connected | Latmio_und | Latmio_und_connected => true | _ => false end.
Definition is_latt (r : routine) : bool :=
  match r with Latmio_dir | Latmio_dir_connected | Latmio_und | Latmio_und_connected => true | _ => false end.
Definition is_conn (r : routine) : bool :=
  match r with Randmio_dir_connected | Randmio_und_connected | Latmio_dir_connected | Latmio_und_connected => true | _ => false end.

Definition variant_of (r : routine) (n : nat) (D : mat Z) : variant :=
  let g1 := if is_latt r then lattice_guard D else no_guard in
  let g2 := if is_conn r then (if is_und r then und_conn_guard n else dir_conn_guard n) else no_guard in
  mkvar (is_und r) (andg g1 g2).

Definition ring_dist (n : nat) : mat Z :=
  fun i j => Z.of_nat (Nat.min ((i + n - j) mod n) ((j + n - i) mod n)).

(* R[np.ix_(p, p)] *)
Definition conj_perm (p : vec nat) (R : mat Z) : mat Z := fun x y => R (p x) (p y).
(* np.argsort of a permutation = its inverse: position of x in the list *)
Fixpoint index_of (x : nat) (l : list nat) : nat :=
  match l with
  | [] => O
  | y :: r => if Nat.eqb x y then O else S (index_of x r)
  end.

Record result := mkres {
  r_out : mat Z;          (* returned matrix (original node order) *)
  r_rp : mat Z;           (* latticisers: matrix in latticisation order (= r_out otherwise) *)
  r_perm : list nat;      (* latticisers: ind_rp *)
  r_eff : nat;
  r_trace : list event;
  r_left : nat            (* unread draws *)
}.

(* precondition checks of the two undirected `_connected` routines (BCTParamError otherwise):
   np.allclose(R, R.T) and number_of_components(R) <= 1  (Model/Components.v is the model of get_components) *)
Definition precheck (r : routine) (n : nat) (R0 : mat Z) : bool :=
  if (is_und r && is_conn r)%bool then
    match number_of_components n R0 with
    | Some m => Nat.leb m 1
    | None => false
    end
  else if is_und r then
    match r with
    | Randmio_und => symmetricb n R0      (* randmio_und checks symmetry; latmio_und does not *)
    | _ => true
    end
  else true.

(* what a call can end in.  The code has four distinguishable endings and so has the model:
   Rejected  — BCTParamError raised by the input checks (precheck);
   Raises    — another exception: ZeroDivisionError of `n * k / (n * (n - 1))` when n < 2, ValueError of
               `rng.randint(0, size=2)` in randomize_graph_partial_und without any edge;
   StreamEnd — the recorded stream does not fit or is used up: the permutation draw is missing, or a loop wants more
               draws than there are (this is also the only way the model can follow a loop of the code that never
               ends, e.g. a single edge and itr > 0: `while e1 == e2` redraws for ever);
   Done res  — the call returns. *)
Inductive outcome :=
| Rejected
| Raises
| StreamEnd
| Done (res : result).

Definition outcome_result (o : outcome) : option result := match o with Done r => Some r | _ => None end.

(* randmio_* / latmio_*: R, itr, D (None -> ring distance), stream.
   No edge (k = 0): `itr *= k` makes the loop body dead and the copy is returned, whatever itr;  itr = 0: likewise. *)
Definition run_routine (r : routine) (n : nat) (R0 : mat Z) (itr : nat) (D : option (mat Z)) (s0 : stream)
  : outcome :=
  if negb (precheck r n R0) then Rejected else
  let pre :=
    if is_latt r then
      match s0 with
      | DPerm p :: s1 => Some (p, tab 0 n n (conj_perm (of_list O p) R0), s1)
      | _ => None
      end
    else Some (seq 0 n, R0, s0) in
  match pre with
  | None => StreamEnd
  | Some (p, R1, s1) =>
    let Dm := match D with Some D' => D' | None => ring_dist n end in
    let src := if is_und r then ELtril else ELall in
    let '(st0, k) := init_state src n R1 in
    if Nat.ltb n 2 then Raises else
    let ma := max_attempts (is_latt r && is_und r) n k in
    match iterate (variant_of r n Dm) k (S ma) (itr * k) st0 s1 [] with
    | None => StreamEnd
    | Some (st, s2, tr) =>
      let Rf := sR st in
      let out := if is_latt r then (fun x y => Rf (index_of x p) (index_of y p)) else Rf in
      Done (mkres out Rf p (length tr) tr (length s2))
    end
  end.

(* randomize_graph_partial_und(A, B, maxswap): maxswap = 0 returns the copy; otherwise the first statement of the loop
   is `e1, e2 = rng.randint(m, size=(2,))`, a ValueError when there is no edge *)
Definition run_partial_und (n : nat) (A B : mat Z) (maxswap : nat) (s0 : stream) : outcome :=
  let '(st0, k) := init_state ELtriu1 n A in
  if (Nat.eqb k 0 && negb (Nat.eqb maxswap 0))%bool then Raises else
  match until_swaps (mkvar true (mask_guard B)) k (length s0) maxswap st0 s0 [] with
  | None => StreamEnd
  | Some (st, s2, tr) => Done (mkres (sR st) (sR st) (seq 0 n) (length tr) tr (length s2))
  end.

(* ---------- executable interface ---------- *)
Definition routine_of_nat (k : nat) : routine :=
  match k with
  | 0 => Randmio_dir | 1 => Randmio_dir_connected | 2 => Randmio_und | 3 => Randmio_und_connected
  | 4 => Latmio_dir | 5 => Latmio_dir_connected | 6 => Latmio_und | _ => Latmio_und_connected
  end%nat.

Definition out_event (n k : nat) (e : event) : list nat * list (list Z) * list nat * list nat :=
  let '((a, b, c, d), st) := e in
  ([a; b; c; d], to_rows n n (sR st), to_list k (si st), to_list k (sj st)).

(* output: (returned matrix, latticised-order matrix, permutation, eff, leftover draws, trace) *)
Definition out_result (n k : nat) (r : result) :=
  (to_rows n n (r_out r), to_rows n n (r_rp r), r_perm r, r_eff r, r_left r, map (out_event n k) (r_trace r)).

Definition count_edges (src : elsrc) (n : nat) (R : mat Z) : nat := length (edge_list src n R).

Definition run_rewire (rt : nat) (rows : list (list Z)) (itr : nat) (D : option (list (list Z))) (s : stream) :=
  let n := length rows in
  let r := routine_of_nat rt in
  let R0 := of_rows 0 rows in
  let k := count_edges (if is_und r then ELtril else ELall) n R0 in
  match run_routine r n R0 itr (match D with Some d => Some (of_rows 0 d) | None => None end) s with
  | Done res => (O, Some (out_result n k res))
  | Rejected => (1%nat, None)
  | Raises => (2%nat, None)
  | StreamEnd => (3%nat, None)
  end.

Definition run_partial (rows mask : list (list Z)) (maxswap : nat) (s : stream) :=
  let n := length rows in
  let A := of_rows 0 rows in
  match run_partial_und n A (of_rows 0 mask) maxswap s with
  | Done res => (O, Some (out_result n (count_edges ELtriu1 n A) res))
  | Rejected => (1%nat, None)
  | Raises => (2%nat, None)
  | StreamEnd => (3%nat, None)
  end.

(* ---------- randomizer_bin_und: the swap of edges a-b, c-d into a-c, b-d (writes in source order) ---------- *)
Definition rbu_swap (R : mat Z) (a b c d : nat) : mat Z :=
  let R1 := upd R a b 0 in
  let R2 := upd R1 c d 0 in
  let R3 := upd R2 b a 0 in
  let R4 := upd R3 d c 0 in
  let R5 := upd R4 a c 1 in
  let R6 := upd R5 b d 1 in
  let R7 := upd R6 c a 1 in
  upd R7 d b 1.
(* the mate search: c, d are connected to each other and to neither a nor b *)
Definition rbu_admissible (R : mat Z) (a b c d : nat) : bool :=
  (Z.eqb (R a b) 1 && Z.eqb (R c d) 1 && Z.eqb (R c a) 0 && Z.eqb (R c b) 0 && Z.eqb (R d a) 0 && Z.eqb (R d b) 0)%bool.
Definition run_rbu_swap (rows : list (list Z)) (a b c d : nat) : bool * list (list Z) :=
  let n := length rows in
  let R := of_rows 0 rows in
  (rbu_admissible R a b c d, to_rows n n (rbu_swap R a b c d)).

(* the BCTParamError checks alone (compared with the implementation's raise/no-raise on valid AND malformed input) *)
Definition run_precheck (rt : nat) (rows : list (list Z)) : bool :=
  precheck (routine_of_nat rt) (length rows) (of_rows 0 rows).
