(* Model/ModularityGood.v — executable deciders of the hypothesis of the whole-run monotonicity theorems (C07):
   "every accepted move of every level is legal (node and target slot inside the level, target is not the node's module)
   and its EXACT gain, evaluated on the model's state before the move, is positive".
   The level structure is recomputed exactly as louvain_und_levels / louvain_sign_levels / cl_levels (Model/Modularity.v)
   do. Proofs/ModularityGood.v: decider = true implies the Prop used by the theorems. Definitions only. *)
From Coq Require Import QArith List Arith Bool ZArith.
From BCT Require Import Base.Mat Base.SumQ Base.ListX Model.Modularity.
Import ListNotations.
Open Scope Q_scope.

Fixpoint good_runb (n : nat) (gain : state -> nat -> nat -> Q) (move : state -> nat -> nat -> state)
         (st : state) (ms : list (nat * nat)) : bool :=
  match ms with
  | [] => true
  | (u, mb) :: r =>
      Nat.ltb u n && Nat.ltb mb n && negb (Nat.eqb (lab st u) mb) && Qltb 0 (gain st u mb) &&
      good_runb n gain move (move st u mb) r
  end.

Fixpoint louvain_und_goodb (g s : Q) (n : nat) (W : mat Q) (lv : list (list (nat * nat))) : bool :=
  match lv with
  | [] => true
  | moves :: rest =>
      let k := tabvQ n (colsum n W) in
      let st0 := mkst (tabv O n ident) (mkchan (tabQ n n W) k) chan0 in
      let fin := run_moves (move_und n W k) st0 moves in
      let m0 := tabv O n (relabel0 n (zlab (lab fin))) in
      let n' := nlab n (zlab (lab fin)) in
      let W1 := tabQ n' n' (agg_upper n W m0) in
      good_runb n (gain_und W g s k) (move_und n W k) st0 moves && louvain_und_goodb g s n' W1 rest
  end.
Definition run_louvain_und_good (rows : list (list Q)) (g : Q) (lv : list (list (nat * nat))) : bool :=
  let n := length rows in let W := tabQ n n (of_rows 0 rows) in louvain_und_goodb g (stot n W) n W lv.

Fixpoint louvain_sign_goodb (g s0 s1 d0 d1 : Q) (n : nat) (W0 W1 : mat Q) (lv : list (list (nat * nat))) : bool :=
  match lv with
  | [] => true
  | moves :: rest =>
      let kn0 := tabvQ n (colsum n W0) in
      let kn1 := tabvQ n (colsum n W1) in
      let st0 := mkst (tabv O n ident) (mkchan (tabQ n n W0) kn0) (mkchan (tabQ n n W1) kn1) in
      let fin := run_moves (move_sign n W0 W1 kn0 kn1) st0 moves in
      let m0 := tabv O n (relabel0 n (zlab (lab fin))) in
      let n' := nlab n (zlab (lab fin)) in
      let V0 := tabQ n' n' (agg_upper n W0 m0) in
      let V1 := tabQ n' n' (agg_upper n W1 m0) in
      good_runb n (gain_sign W0 W1 g s0 s1 d0 d1 kn0 kn1) (move_sign n W0 W1 kn0 kn1) st0 moves &&
      louvain_sign_goodb g s0 s1 d0 d1 n' V0 V1 rest
  end.
Definition run_louvain_sign_good (rows : list (list Q)) (g : Q) (qt : nat) (lv : list (list (nat * nat))) : bool :=
  let n := length rows in let W := tabQ n n (of_rows 0 rows) in
  let p := sign_params n W (qtype_of qt) in
  louvain_sign_goodb g (ss0 p) (ss1 p) (sd0 p) (sd1 p) n (sW0 p) (sW1 p) lv.

Fixpoint cl_goodb (first : bool) (n : nat) (B : mat Q) (lab0 : vec nat) (lv : list (list (nat * nat))) : bool :=
  match lv with
  | [] => true
  | moves :: rest =>
      let hnm := if first then tabQ n n (knm_of n B lab0) else tabQ n n B in
      let H := if first then tabvQ n (rowsum n hnm) else tabvQ n (colsum n B) in
      let Hm := if first then tabvQ n (colsum n hnm) else H in
      let st0 := mkst lab0 (mkchan hnm Hm) chan0 in
      let fin := run_moves (move_B n B H) st0 moves in
      let m0 := tabv O n (relabel0 n (zlab (lab fin))) in
      let n' := nlab n (zlab (lab fin)) in
      let B1 := tabQ n' n' (agg_upper n B m0) in
      good_runb n (gain_B B) (move_B n B H) st0 moves && cl_goodb false n' B1 (tabv O n' ident) rest
  end.
Definition run_community_louvain_good (rows : list (list Q)) (g : Q) (kind : nat) (ci : list Z)
           (lv : list (list (nat * nat))) : bool :=
  let n := length rows in let W := tabQ n n (of_rows 0 rows) in
  cl_goodb true n (tabQ n n (B_builtin kind n W g)) (init_lab n ci) lv.

(* the other two hypotheses of the theorems, decided: symmetric input, positive total weight *)
Definition sym_rowsb (rows : list (list Q)) : bool :=
  let n := length rows in let W := of_rows 0 rows in
  forallb (fun i => forallb (fun j => Qeq_bool (W i j) (W j i)) (seq 0 n)) (seq 0 n).
Definition pos_totalb (rows : list (list Q)) : bool :=
  let n := length rows in Qltb 0 (stot n (tabQ n n (of_rows 0 rows))).
